/-
Bridge `VolInv` → `Spec.Fs.fsck`, layer F5 (part 2): who claims which chain.

A *token* is the first cluster of a chain of the volume.  `Home x h` — token `x` belongs to directory `h`: it is
the chain of `h` itself, or what a file entry of `h` (effectively) names.  The reference clause of the invariant
(`allRefs`) makes homes unique (`home_unique`).  `SubTok a x` — token `x` belongs to the sub-tree of `a`;
`Region a c` — cluster `c` lies on the chain of a token of the sub-tree of `a`: what `checkDir` claims when it walks
directory `a`.  `Tok o x` — the tokens an object `o` of a directory stands for (a file: its chain; a sub-directory:
its sub-tree); distinct objects of one directory stand for disjoint sets of tokens (`objects_tok_pairwise`).
-/
import Sdmmc.Lemmas.VolFsck5

namespace Sdmmc.Lemmas.VolFsck
open Sdmmc.Model Sdmmc.Model.Fat Sdmmc.Spec Sdmmc.Spec.Volume
open Sdmmc.Lemmas.VolTree Sdmmc.Lemmas.VolMed Sdmmc.Lemmas.VolBase

/-- Token `x` (first cluster of a chain) belongs to directory `h`: its own chain, or a file entry's. -/
def Home (s : Mgr) (gh : Ghost) (x h : Nat) : Prop :=
  h ∈ dirIds gh.dirs ∧ ((¬ isFixedRoot gh.vol h ∧ x = dirHead gh.vol h) ∨
    x ∈ fileRefs gh.vol.fatType s.files (objects h (dirSlots gh.vol s.dev.disk gh.G h)))

/-- Token `x` belongs to a directory of the sub-tree of `a`. -/
def SubTok (s : Mgr) (gh : Ghost) (a x : Nat) : Prop := ∃ h, Under gh.dirs a h ∧ Home s gh x h

/-- Cluster `c` lies on the chain of a token of the sub-tree of `a`. -/
def Region (s : Mgr) (gh : Ghost) (a c : Nat) : Prop := ∃ x, SubTok s gh a x ∧ c ∈ chainOf gh.G x

/-- The tokens an object of a directory stands for. -/
def Tok (s : Mgr) (gh : Ghost) (o : Slot) (x : Nat) : Prop :=
  if isDirE o = true then SubTok s gh (sCluster gh.vol.fatType o) x
  else (x = effCluster gh.vol.fatType s.files o ∧ x ≠ 0)

section
variable {s : Mgr} {gh : Ghost}

theorem dirHead_cases {h : Nat} (hh : h ∈ dirIds gh.dirs) (hf : ¬ isFixedRoot gh.vol h) :
    dirHead gh.vol h ∈ rootHead gh.vol ∨ dirHead gh.vol h ∈ gh.dirs.map Prod.fst := by
  unfold dirHead
  by_cases h0 : h = 0
  · rw [if_pos h0]
    have h32 : gh.vol.fatType = .fat32 := by
      cases hft : gh.vol.fatType with
      | fat16 => exact absurd ⟨h0, hft⟩ hf
      | fat32 => rfl
    left
    unfold rootHead; rw [h32]; exact List.mem_singleton.2 rfl
  · rw [if_neg h0]
    rcases mem_dirIds.1 hh with e | ⟨p, hp⟩
    · exact absurd e h0
    · exact .inr (List.mem_map.2 ⟨(h, p), hp, rfl⟩)

theorem dirHead_not_fileRef (hI : VolInv s gh) {h h' : Nat} (hh : h ∈ dirIds gh.dirs) (hf : ¬ isFixedRoot gh.vol h)
    (hh' : h' ∈ dirIds gh.dirs) :
    dirHead gh.vol h ∉ fileRefs gh.vol.fatType s.files (objects h' (dirSlots gh.vol s.dev.disk gh.G h')) := by
  intro hm
  have hM := medX_of_med hI.med
  obtain ⟨hne, o, ho, hd, he⟩ := mem_fileRefs.1 hm
  have := fileRef_not_dir hI.med.tree (med_heads hM) hh' ho hd (he ▸ hne)
  rw [he] at this
  rcases dirHead_cases hh hf with h1 | h1
  · exact this.1 h1
  · exact this.2 h1

theorem home_mem_heads (hI : VolInv s gh) {x h : Nat} (hx : Home s gh x h) : x ∈ heads gh.G := by
  have hM := medX_of_med hI.med
  obtain ⟨hh, ⟨hf, rfl⟩ | hm⟩ := hx
  · exact dirHead_mem hM hh hf
  · apply hI.med.tree.allRefs.subset
    apply List.mem_append_right
    rw [List.mem_flatMap]
    exact ⟨h, hh, hm⟩

/-- A token belongs to one directory. -/
theorem home_unique (hI : VolInv s gh) {x h h' : Nat} (hx : Home s gh x h) (hx' : Home s gh x h') : h = h' := by
  have hM := medX_of_med hI.med
  have hG := med_heads hM
  obtain ⟨hh, h1⟩ := hx
  obtain ⟨hh', h2⟩ := hx'
  rcases h1 with ⟨hf, e⟩ | hm
  · rcases h2 with ⟨hf', e'⟩ | hm'
    · by_contra hne
      exact dirHead_inj hM hh hh' hf hf' hne (e.symm.trans e')
    · rw [e] at hm'
      exact absurd hm' (dirHead_not_fileRef hI hh hf hh')
  · rcases h2 with ⟨hf', e'⟩ | hm'
    · rw [e'] at hm
      exact absurd hm (dirHead_not_fileRef hI hh' hf' hh)
    · by_contra hne
      have hnd := refList_nodup hI.med.tree hG
      have h3 := (List.nodup_append.1 hnd).2.1
      have hp := (List.nodup_flatMap.1 h3).2
      have := pairwise_sym_mem (R := Function.onFun List.Disjoint fun h =>
          fileRefs gh.vol.fatType s.files (objects h (dirSlots gh.vol s.dev.disk gh.G h)))
        (fun a b hab y hy1 hy2 => hab hy2 hy1) hp h hh h' hh' hne
      exact this hm hm'

/-- Chains of different tokens share no cluster. -/
theorem chains_disjoint (hI : VolInv s gh) {x x' : Nat} (hx : x ∈ heads gh.G) (hx' : x' ∈ heads gh.G) (hne : x ≠ x') :
    ∀ c, c ∈ chainOf gh.G x → c ∉ chainOf gh.G x' := by
  have hM := medX_of_med hI.med
  have hG := med_heads hM
  obtain ⟨m1, e1⟩ := chainOf_spec hG hx
  obtain ⟨m2, e2⟩ := chainOf_spec hG hx'
  apply med_disjoint hM (List.mem_append_left _ m1) (List.mem_append_left _ m2)
  rw [headD_of_head? e1, headD_of_head? e2]
  exact hne

theorem subTok_mem_heads (hI : VolInv s gh) {a x : Nat} (hx : SubTok s gh a x) : x ∈ heads gh.G := by
  obtain ⟨h, _, hh⟩ := hx
  exact home_mem_heads hI hh

/-- The sub-tree of a child lies in the sub-tree of its parent. -/
theorem subTok_child {h c x : Nat} (hc : (c, h) ∈ gh.dirs) (hx : SubTok s gh c x) : SubTok s gh h x := by
  obtain ⟨h', hu, hh⟩ := hx
  exact ⟨h', under_trans (under_child hc) hu, hh⟩

theorem subTok_self {h x : Nat} (hx : Home s gh x h) : SubTok s gh h x := ⟨h, .refl, hx⟩

/-! ### Objects of one directory -/

theorem tok_file {o : Slot} (hd : isDirE o = false) (x : Nat) :
    Tok s gh o x ↔ (x = effCluster gh.vol.fatType s.files o ∧ x ≠ 0) := by
  unfold Tok; rw [hd]; simp

theorem tok_dir {o : Slot} (hd : isDirE o = true) (x : Nat) :
    Tok s gh o x ↔ SubTok s gh (sCluster gh.vol.fatType o) x := by
  unfold Tok; rw [if_pos hd]

/-- A token of an object of directory `h` belongs to the sub-tree of `h`. -/
theorem tok_subTok (hI : VolInv s gh) {h : Nat} (hh : h ∈ dirIds gh.dirs) {o : Slot}
    (ho : o ∈ objects h (dirSlots gh.vol s.dev.disk gh.G h)) {x : Nat} (hx : Tok s gh o x) : SubTok s gh h x := by
  cases hd : isDirE o with
  | true =>
    rw [tok_dir hd] at hx
    exact subTok_child (hI.med.tree.subdirs h hh o ho hd) hx
  | false =>
    rw [tok_file hd] at hx
    exact subTok_self ⟨hh, .inr (mem_fileRefs.2 ⟨hx.2, o, ho, hd, hx.1.symm⟩)⟩

theorem nodup_pieces (hI : VolInv s gh) {h : Nat} (hh : h ∈ dirIds gh.dirs) :
    (subdirRefs gh.vol.fatType (objects h (dirSlots gh.vol s.dev.disk gh.G h))).Nodup ∧
    (fileRefs gh.vol.fatType s.files (objects h (dirSlots gh.vol s.dev.disk gh.G h))).Nodup := by
  have hM := medX_of_med hI.med
  have hG := med_heads hM
  constructor
  · have := (hI.med.tree.dirRefs.nodup_iff).2 (dirHeads_nodup hI.med.tree hG)
    exact (List.nodup_flatMap.1 this).1 h hh
  · have hnd := refList_nodup hI.med.tree hG
    exact (List.nodup_flatMap.1 (List.nodup_append.1 hnd).2.1).1 h hh

/-- Distinct objects of a directory stand for disjoint sets of tokens. -/
theorem tok_pairwise (hI : VolInv s gh) {h : Nat} (hh : h ∈ dirIds gh.dirs) :
    ∀ (os : List Slot), (∀ o, o ∈ os → o ∈ objects h (dirSlots gh.vol s.dev.disk gh.G h)) →
      (subdirRefs gh.vol.fatType os).Nodup → (fileRefs gh.vol.fatType s.files os).Nodup →
      os.Pairwise fun o o' => ∀ x, Tok s gh o x → ¬ Tok s gh o' x
  | [], _, _, _ => List.Pairwise.nil
  | o :: os, hsub, hnd1, hnd2 => by
    have hM := medX_of_med hI.med
    have hG := med_heads hM
    have hT := hI.med.tree
    rw [subdirRefs_cons, List.nodup_append] at hnd1
    rw [fileRefs_cons, List.nodup_append] at hnd2
    rw [List.pairwise_cons]
    refine ⟨?_, tok_pairwise hI hh os (fun o' ho' => hsub o' (List.mem_cons_of_mem _ ho')) hnd1.2.1 hnd2.2.1⟩
    intro o' ho' x hx hx'
    have hoO := hsub o List.mem_cons_self
    have hoO' := hsub o' (List.mem_cons_of_mem _ ho')
    cases hd : isDirE o with
    | true =>
      rw [tok_dir hd] at hx
      have hc := hT.subdirs h hh o hoO hd
      cases hd' : isDirE o' with
      | true =>
        rw [tok_dir hd'] at hx'
        have hc' := hT.subdirs h hh o' hoO' hd'
        obtain ⟨h1, hu1, hh1⟩ := hx
        obtain ⟨h2, hu2, hh2⟩ := hx'
        have := home_unique hI hh1 hh2
        subst this
        have heq := under_siblings hT hG hc hc' hu1 hu2
        have hm1 : sCluster gh.vol.fatType o ∈ subdirRefs gh.vol.fatType [o] := by
          rw [subdirRefs_single, if_pos hd]; exact List.mem_singleton.2 rfl
        have hm2 : sCluster gh.vol.fatType o' ∈ subdirRefs gh.vol.fatType os := mem_subdirRefs.2 ⟨o', ho', hd', rfl⟩
        exact hnd1.2.2 _ hm1 _ hm2 heq
      | false =>
        rw [tok_file hd'] at hx'
        obtain ⟨h1, hu1, hh1⟩ := hx
        have hh2 : Home s gh x h := ⟨hh, .inr (mem_fileRefs.2 ⟨hx'.2, o', hoO', hd', hx'.1.symm⟩)⟩
        have := home_unique hI hh1 hh2
        subst this
        exact under_child_not hT hG hc hu1
    | false =>
      rw [tok_file hd] at hx
      cases hd' : isDirE o' with
      | true =>
        rw [tok_dir hd'] at hx'
        have hc' := hT.subdirs h hh o' hoO' hd'
        obtain ⟨h2, hu2, hh2⟩ := hx'
        have hh1 : Home s gh x h := ⟨hh, .inr (mem_fileRefs.2 ⟨hx.2, o, hoO, hd, hx.1.symm⟩)⟩
        have := home_unique hI hh2 hh1
        subst this
        exact under_child_not hT hG hc' hu2
      | false =>
        rw [tok_file hd'] at hx'
        have hm1 : x ∈ fileRefs gh.vol.fatType s.files [o] := mem_fileRefs.2 ⟨hx.2, o, List.mem_singleton.2 rfl, hd, hx.1.symm⟩
        have hm2 : x ∈ fileRefs gh.vol.fatType s.files os := mem_fileRefs.2 ⟨hx'.2, o', ho', hd', hx'.1.symm⟩
        exact hnd2.2.2 _ hm1 _ hm2 rfl

theorem objects_tok_pairwise (hI : VolInv s gh) {h : Nat} (hh : h ∈ dirIds gh.dirs) :
    (objects h (dirSlots gh.vol s.dev.disk gh.G h)).Pairwise fun o o' => ∀ x, Tok s gh o x → ¬ Tok s gh o' x :=
  tok_pairwise hI hh _ (fun _ ho => ho) (nodup_pieces hI hh).1 (nodup_pieces hI hh).2

/-- The chain of directory `h` itself is claimed by none of its objects. -/
theorem dirHead_not_tok (hI : VolInv s gh) {h : Nat} (hh : h ∈ dirIds gh.dirs) (hf : ¬ isFixedRoot gh.vol h) {o : Slot}
    (ho : o ∈ objects h (dirSlots gh.vol s.dev.disk gh.G h)) : ¬ Tok s gh o (dirHead gh.vol h) := by
  have hM := medX_of_med hI.med
  have hG := med_heads hM
  intro hx
  have hh0 : Home s gh (dirHead gh.vol h) h := ⟨hh, .inl ⟨hf, rfl⟩⟩
  cases hd : isDirE o with
  | true =>
    rw [tok_dir hd] at hx
    obtain ⟨h1, hu1, hh1⟩ := hx
    have := home_unique hI hh1 hh0
    subst this
    exact under_child_not hI.med.tree hG (hI.med.tree.subdirs h1 hh o ho hd) hu1
  | false =>
    rw [tok_file hd] at hx
    exact dirHead_not_fileRef hI hh hf hh (mem_fileRefs.2 ⟨hx.2, o, ho, hd, hx.1.symm⟩)

end

end Sdmmc.Lemmas.VolFsck
