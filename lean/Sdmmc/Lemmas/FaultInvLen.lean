/-
C11 under the invariant, part 13 (engine, any fault schedule): block lengths.  `LenInv s`: every block of the medium
has 512 bytes and so has the cached block whenever the cache is tagged.  It is kept — under ANY fault schedule — by the
allocation, the zeroing, the FAT update and `write_new_directory_entry` (`Len`), so the medium a failed call leaves
still consists of 512-byte blocks, and so does a payload stuck in the cache.
-/
import Sdmmc.Lemmas.FaultInvBase
import Sdmmc.Lemmas.DirSlots
import Sdmmc.Lemmas.Modes

namespace Sdmmc.Lemmas.FaultInv
open Sdmmc.Model Sdmmc.Model.Fat
open Sdmmc.Spec hiding NoFault Coherent
open Sdmmc.Lemmas.FaultPre Sdmmc.Lemmas.Fault

/-- 512-byte blocks, on the medium and in the (tagged) cache. -/
def LenInv (s : FS) : Prop := BlocksOK s.dev.disk ∧ ∀ i, s.cache.tag = some i → s.cache.blk.length = 512

/-- `m` keeps the block lengths, whatever fails. -/
def Len {α} (m : F α) : Prop := ∀ s, LenInv s → LenInv (m s).2

theorem Len.of_eq {α} {m : F α} (h : ∀ s, (m s).2.dev = s.dev ∧ (m s).2.cache = s.cache) : Len m := by
  intro s hs
  obtain ⟨h1, h2⟩ := h s
  unfold LenInv
  rw [h1, h2]; exact hs

theorem Len.pure {α} (a : α) : Len (pure a : F α) := .of_eq fun _ => ⟨rfl, rfl⟩
theorem Len.lift {α} (r : Res α) : Len (F.lift r) := .of_eq fun _ => ⟨rfl, rfl⟩
theorem Len.fail {α} (e : Err) : Len (F.fail e : F α) := .of_eq fun _ => ⟨rfl, rfl⟩
theorem Len.panic {α} (msg : String) : Len (F.panic msg : F α) := .of_eq fun _ => ⟨rfl, rfl⟩
theorem Len.diverge {α} : Len (F.diverge : F α) := .of_eq fun _ => ⟨rfl, rfl⟩
theorem Len.getVol : Len F.getVol := .of_eq fun _ => ⟨rfl, rfl⟩
theorem Len.modifyVol (f : FatVolume → FatVolume) : Len (F.modifyVol f) := .of_eq fun _ => ⟨rfl, rfl⟩
theorem Len.cacheBlk : Len cacheBlk := .of_eq fun _ => ⟨rfl, rfl⟩

theorem Len.bind {α β} {m : F α} {f : α → F β} (hm : Len m) (hf : ∀ a, Len (f a)) : Len (m >>= f) := by
  intro s hs
  have h1 := hm s hs
  rcases hr : m s with ⟨r, s'⟩
  rw [hr] at h1
  cases r with
  | ok a => rw [F.bind_ok hr]; exact hf a s' h1
  | err e => rw [F.bind_err hr]; exact h1
  | panic msg => rw [F.bind_panic hr]; exact h1
  | diverged => rw [F.bind_diverged hr]; exact h1

theorem Len.attempt {α} {m : F α} (hm : Len m) : Len (F.attempt m) := fun s hs => hm s hs

theorem Len.blankMut (i : Nat) : Len (blankMut i) := by
  intro s hs
  exact ⟨hs.1, fun _ _ => FatOps.zeroBlock_length⟩

theorem Len.cacheModify (f : Block → Block) (hf : ∀ blk, blk.length = 512 → (f blk).length = 512) : Len (cacheModify f) := by
  intro s hs
  exact ⟨hs.1, fun i hi => hf _ (hs.2 i hi)⟩

theorem Len.cacheRead (idx : Nat) : Len (cacheRead idx) := by
  intro s hs
  unfold Model.cacheRead
  split
  · exact hs
  · unfold Model.devRead
    cases hf : s.dev.faults.contains s.dev.calls
    · simp only [hf]
      exact ⟨hs.1, fun _ _ => hs.1 idx⟩
    · simp only [hf]
      exact ⟨hs.1, fun i hi => by cases hi⟩

theorem devWrite_len (i : Nat) (s : FS) (hs : LenInv s) (ht : s.cache.tag ≠ none) : LenInv (devWrite i s).2 := by
  obtain ⟨j, hj⟩ := Option.ne_none_iff_exists'.1 ht
  rcases devWrite_pre i s with ⟨_, h⟩ | ⟨_, h⟩
  · rw [h]
    exact ⟨FatOps.blocksOK_set _ _ _ hs.1 (hs.2 j hj), hs.2⟩
  · rw [h]; exact hs

theorem lenInv_untag {s : FS} (h : LenInv s) : LenInv (Fault.untag s) := ⟨h.1, fun i hi => by cases hi⟩

theorem Len.writeBack : Len writeBack := by
  intro s hs
  cases ht : s.cache.tag with
  | none => rw [writeBack_none ht]; exact hs
  | some i =>
    have h1 := devWrite_len i s hs (by rw [ht]; exact fun e => by cases e)
    rcases devWrite_pre i s with ⟨_, h⟩ | ⟨_, h⟩
    · rw [writeBack_okW ht h]; rw [h] at h1; exact h1
    · rw [writeBack_errW ht h]; rw [h] at h1; exact lenInv_untag h1

theorem Len.writeBackWithDuplicate (dup : Nat) : Len (writeBackWithDuplicate dup) := by
  intro s hs
  cases ht : s.cache.tag with
  | none => rw [writeBackDup_none dup ht]; exact hs
  | some i =>
    have hne : s.cache.tag ≠ none := by rw [ht]; exact fun e => by cases e
    have h1 := devWrite_len i s hs hne
    rcases devWrite_pre i s with ⟨_, h⟩ | ⟨_, h⟩
    · rw [h] at h1
      have h2 := devWrite_len dup _ h1 (by show s.cache.tag ≠ none; exact hne)
      rcases devWrite_pre dup _ with ⟨_, h'⟩ | ⟨_, h'⟩
      · rw [writeBackDup_okW dup ht h h']; rw [h'] at h2; exact h2
      · rw [writeBackDup_ok_errW dup ht h h']; rw [h'] at h2; exact lenInv_untag h2
    · rw [writeBackDup_errW dup ht h]
      rw [h] at h1
      exact lenInv_untag h1

/-- One step of decomposing a goal `Len _`. -/
macro "len_step" : tactic => `(tactic| first
  | with_reducible first
    | apply_hyp
    | exact Len.pure _
    | exact Len.lift _
    | exact Len.fail _
    | exact Len.panic _
    | exact Len.diverge
    | exact Len.getVol
    | exact Len.modifyVol _
    | exact Len.cacheBlk
    | exact Len.blankMut _
    | exact Len.cacheRead _
    | exact Len.writeBack
    | exact Len.writeBackWithDuplicate _
    | apply Len.attempt
    | apply Len.bind
  | intro_pi
  | dsimp only
  | split)

macro "len_auto" : tactic => `(tactic| repeat len_step)

theorem updateFat_len (c n : Nat) : Len (updateFat c n) := by
  unfold updateFat
  refine Len.bind Len.getVol fun v => Len.bind (Len.cacheRead _) fun _ =>
    Len.bind (Len.cacheModify _ fun blk hl => FatLens.patch_length _ _ _ _ hl (FatLens.fatEntOffset_le _ _)) fun _ => ?_
  split
  · exact Len.writeBackWithDuplicate _
  · exact Len.writeBack

theorem nextCluster_len (c : Nat) : Len (nextCluster c) := by
  unfold nextCluster; len_auto

theorem findNextFreeCluster_len (fuel cur endC : Nat) : Len (findNextFreeCluster fuel cur endC) := by
  induction fuel generalizing cur with
  | zero => unfold findNextFreeCluster; len_auto
  | succ n ih => unfold findNextFreeCluster; len_auto

theorem findNextFree_len (a b : Nat) : Len (findNextFree a b) := findNextFreeCluster_len _ _ _

theorem zeroBlocks_len (n first : Nat) : Len (zeroBlocks n first) := by
  induction n generalizing first with
  | zero => unfold zeroBlocks; len_auto
  | succ n ih => unfold zeroBlocks; len_auto

theorem allocCluster_len (prev : Option Nat) (zero : Bool) : Len (allocCluster prev zero) := by
  have := findNextFree_len
  have := zeroBlocks_len
  have := updateFat_len
  unfold allocCluster; len_auto

theorem writeNewBlocks_len (name : Bytes) (hname : name.length = 11) (att fc : Nat) (now : Timestamp) (n b : Nat) :
    Len (writeNewBlocks name att fc now n b) := by
  induction n generalizing b with
  | zero => unfold writeNewBlocks; len_auto
  | succ n ih =>
    unfold writeNewBlocks
    refine Len.bind Len.getVol fun v => Len.bind (Len.cacheRead b) fun _ => Len.bind Len.cacheBlk fun blk => ?_
    cases hfs : firstFreeSlot (slotsOf blk) with
    | none => exact ih (b + 1)
    | some off =>
      dsimp only
      have hoff := DirSlots.firstFreeSlot_off blk off hfs
      refine Len.bind (Len.cacheModify _ fun blk' hl => ?_) (fun _ => Len.bind Len.writeBack fun _ => Len.pure _)
      rw [FatLens.splice_length _ _ _ (by
        rw [FatOps.serialize_length _ _ (show (DirEntry.new name att fc now b off).name.length = 11 from hname), hl]; omega), hl]

theorem writeNewWalk_len (name : Bytes) (hname : name.length = 11) (att fc : Nat) (now : Timestamp) (fuel : Nat) (w : DirWalk) :
    Len (writeNewWalk name att fc now fuel w) := by
  have := nextCluster_len
  have := writeNewBlocks_len name hname
  have := allocCluster_len
  induction fuel generalizing w with
  | zero => unfold writeNewWalk; len_auto
  | succ n ih => unfold writeNewWalk; len_auto

theorem writeNewDirectoryEntry_len (d : Nat) (name : Bytes) (hname : name.length = 11) (att fc : Nat) (now : Timestamp) :
    Len (writeNewDirectoryEntry d name att fc now) := by
  have := writeNewWalk_len name hname
  unfold writeNewDirectoryEntry; len_auto

/-! ### The geometry of the volume record -/

/-- `m` changes at most the two bookkeeping fields of the volume record, whatever fails. -/
def Geo {α} (m : F α) : Prop := ∀ s, SameGeom s.vol (m s).2.vol

theorem sameGeom_refl' (v : FatVolume) : SameGeom v v := ⟨v.freeClustersCount, v.nextFreeCluster, rfl⟩
theorem sameGeom_trans' {u v w : FatVolume} (h1 : SameGeom u v) (h2 : SameGeom v w) : SameGeom u w := by
  obtain ⟨a, b, rfl⟩ := h1; obtain ⟨c, d, rfl⟩ := h2; exact ⟨c, d, rfl⟩

theorem Geo.of_eq {α} {m : F α} (h : ∀ s, (m s).2.vol = s.vol) : Geo m := fun s => by rw [h s]; exact sameGeom_refl' _

theorem Geo.pure {α} (a : α) : Geo (pure a : F α) := .of_eq fun _ => rfl
theorem Geo.lift {α} (r : Res α) : Geo (F.lift r) := .of_eq fun _ => rfl
theorem Geo.fail {α} (e : Err) : Geo (F.fail e : F α) := .of_eq fun _ => rfl
theorem Geo.panic {α} (msg : String) : Geo (F.panic msg : F α) := .of_eq fun _ => rfl
theorem Geo.diverge {α} : Geo (F.diverge : F α) := .of_eq fun _ => rfl
theorem Geo.getVol : Geo F.getVol := .of_eq fun _ => rfl
theorem Geo.cacheBlk : Geo cacheBlk := .of_eq fun _ => rfl
theorem Geo.blankMut (i : Nat) : Geo (blankMut i) := .of_eq fun _ => rfl
theorem Geo.cacheModify (f : Block → Block) : Geo (cacheModify f) := .of_eq fun _ => rfl

theorem Geo.cacheRead (idx : Nat) : Geo (cacheRead idx) :=
  .of_eq fun s => (Modes.ro_cacheRead idx s).2.2.2

theorem Geo.modifyVol (f : FatVolume → FatVolume) (hf : ∀ v, SameGeom v (f v)) : Geo (F.modifyVol f) := fun s => hf s.vol

theorem devWrite_vol (i : Nat) (s : FS) : (devWrite i s).2.vol = s.vol := by
  rcases devWrite_pre i s with ⟨_, h⟩ | ⟨_, h⟩ <;> rw [h]

theorem Geo.writeBack : Geo writeBack := by
  refine .of_eq fun s => ?_
  cases ht : s.cache.tag with
  | none => rw [writeBack_none ht]
  | some i => rw [Fault.writeBack_tagged ht, Fault.untagIfErr_vol]; exact devWrite_vol i s

theorem Geo.writeBackWithDuplicate (dup : Nat) : Geo (writeBackWithDuplicate dup) := by
  refine .of_eq fun s => ?_
  cases ht : s.cache.tag with
  | none => rw [writeBackDup_none dup ht]
  | some i =>
    rw [Fault.writeBackDup_tagged dup ht, Fault.untagIfErr_vol, Fault.F.bind_apply]
    rcases hd : devWrite i s with ⟨r, s1⟩
    have h1 := devWrite_vol i s
    rw [hd] at h1
    cases r with
    | ok a => simp only; rw [devWrite_vol]; exact h1
    | err e => exact h1
    | panic m => exact h1
    | diverged => exact h1

theorem Geo.bind {α β} {m : F α} {f : α → F β} (hm : Geo m) (hf : ∀ a, Geo (f a)) : Geo (m >>= f) := by
  intro s
  have h1 := hm s
  rcases hr : m s with ⟨r, s'⟩
  rw [hr] at h1
  cases r with
  | ok a => rw [F.bind_ok hr]; exact sameGeom_trans' h1 (hf a s')
  | err e => rw [F.bind_err hr]; exact h1
  | panic msg => rw [F.bind_panic hr]; exact h1
  | diverged => rw [F.bind_diverged hr]; exact h1

theorem Geo.attempt {α} {m : F α} (hm : Geo m) : Geo (F.attempt m) := fun s => hm s

/-- One step of decomposing a goal `Geo _`. -/
macro "geo_step" : tactic => `(tactic| first
  | with_reducible first
    | apply_hyp
    | exact Geo.pure _
    | exact Geo.lift _
    | exact Geo.fail _
    | exact Geo.panic _
    | exact Geo.diverge
    | exact Geo.getVol
    | exact Geo.cacheBlk
    | exact Geo.blankMut _
    | exact Geo.cacheModify _
    | exact Geo.cacheRead _
    | exact Geo.writeBack
    | exact Geo.writeBackWithDuplicate _
    | apply Geo.attempt
    | apply Geo.bind
  | exact Geo.modifyVol _ (fun v => ⟨_, _, rfl⟩)
  | intro_pi
  | dsimp only
  | split)

macro "geo_auto" : tactic => `(tactic| repeat geo_step)

theorem updateFat_geo (c n : Nat) : Geo (updateFat c n) := by unfold updateFat; geo_auto
theorem nextCluster_geo (c : Nat) : Geo (nextCluster c) := by unfold nextCluster; geo_auto
theorem findNextFreeCluster_geo (fuel cur endC : Nat) : Geo (findNextFreeCluster fuel cur endC) := by
  induction fuel generalizing cur with
  | zero => unfold findNextFreeCluster; geo_auto
  | succ n ih => unfold findNextFreeCluster; geo_auto
theorem findNextFree_geo (a b : Nat) : Geo (findNextFree a b) := findNextFreeCluster_geo _ _ _
theorem zeroBlocks_geo (n first : Nat) : Geo (zeroBlocks n first) := by
  induction n generalizing first with
  | zero => unfold zeroBlocks; geo_auto
  | succ n ih => unfold zeroBlocks; geo_auto

theorem allocCluster_geo (prev : Option Nat) (zero : Bool) : Geo (allocCluster prev zero) := by
  have := findNextFree_geo
  have := zeroBlocks_geo
  have := updateFat_geo
  unfold allocCluster
  geo_auto

theorem writeNewBlocks_geo (name : Bytes) (att fc : Nat) (now : Timestamp) (n b : Nat) : Geo (writeNewBlocks name att fc now n b) := by
  induction n generalizing b with
  | zero => unfold writeNewBlocks; geo_auto
  | succ n ih => unfold writeNewBlocks; geo_auto

theorem writeNewWalk_geo (name : Bytes) (att fc : Nat) (now : Timestamp) (fuel : Nat) (w : DirWalk) :
    Geo (writeNewWalk name att fc now fuel w) := by
  have := nextCluster_geo
  have := writeNewBlocks_geo
  have := allocCluster_geo
  induction fuel generalizing w with
  | zero => unfold writeNewWalk; geo_auto
  | succ n ih => unfold writeNewWalk; geo_auto

theorem writeNewDirectoryEntry_geo (d : Nat) (name : Bytes) (att fc : Nat) (now : Timestamp) :
    Geo (writeNewDirectoryEntry d name att fc now) := by
  have := writeNewWalk_geo
  unfold writeNewDirectoryEntry; geo_auto

end Sdmmc.Lemmas.FaultInv
