/-
Several open volumes: the simulation (`RunSim`) of `write` on a FILE handle whose volume is record `i`.
-/
import Sdmmc.Lemmas.VolNFile

namespace Sdmmc.Lemmas.VolN
open Sdmmc.Model Sdmmc.Model.Fat Sdmmc.Spec.Volume
open Sdmmc.Spec hiding NoFault Coherent run step
open Sdmmc.Lemmas.MHoare

section
variable {hv i : Nat} {σd σf : List (Nat × Nat)}

theorem writeLoop_simAt {file k : Nat} (hown : σf[k]? = some (file, hv)) (fuel : Nat) :
    ∀ (buf : Bytes) {s : Mgr}, Skel hv i σd σf s →
      SimAt hv i σd σf Eq (writeLoop k i fuel buf) (writeLoop (pk hv σf k) 0 fuel buf) s := by
  induction fuel with
  | zero =>
    intro buf s hs
    unfold writeLoop
    exact sim_pure hs ()
  | succ fuel ih =>
    intro buf s hs
    unfold writeLoop
    refine SimAt.ite (fun _ => sim_pure hs ()) fun _ => ?_
    refine SimAt.bind (sim_getFile hs hown) fun f f' hff _ hs => ?_
    subst hff
    refine SimAt.bind (sim_withVol hs _).attempt fun r r' hrr _ hs => ?_
    have := hrr.eq
    subst this
    refine SimAt.bind (R := Eq) ?_ fun x x' hx _ hs => ?_
    · split
      · exact sim_pure hs _
      · refine SimAt.bind (sim_withVol hs _).attempt fun ra ra' hra _ hs => ?_
        have := hra.eq
        subst this
        split
        · refine SimAt.bind (sim_withVol hs _).attempt fun r2 r2' hr2 _ hs => ?_
          have := hr2.eq
          subst this
          split
          · exact sim_pure hs _
          · exact sim_fail hs _
          · exact sim_lift hs _
          · exact sim_lift hs _
        · exact sim_fail hs _
        · exact sim_lift hs _
      · exact sim_lift hs _
      · exact sim_lift hs _
    · subst hx
      obtain ⟨cc, blockIdx, blockOffset, blockAvail⟩ := x
      refine SimAt.bind (sim_withVol hs _) fun _ _ _ _ hs => ?_
      refine SimAt.bind (sim_modifyFile hs hown _ fun f => ?_) fun _ _ _ _ hs => ?_
      · dsimp only
        split <;> rfl
      · exact ih _ hs

/-- The tail of `write` after the optional allocation of the first cluster. -/
theorem writeTail_simAt {s : Mgr} {file k : Nat} (hs : Skel hv i σd σf s) (hown : σf[k]? = some (file, hv)) (data : Bytes) :
    SimAt hv i σd σf Eq
      (do
        let volIdx ← getVolumeById hv
        modifyFile k fun f =>
          if f.curCluster < f.entry.cluster then { f with curClusterOff := 0, curCluster := f.entry.cluster } else f
        let f ← getFile k
        let bytesUntilMax := MAX_FILE_SIZE - f.currentOffset
        let bytesToWrite := min data.length bytesUntilMax
        writeLoop k volIdx (bytesToWrite + 1) (data.take bytesToWrite)
        if bytesToWrite < data.length then M.fail .DiskFull else pure ())
      (do
        let volIdx ← getVolumeById hv
        modifyFile (pk hv σf k) fun f =>
          if f.curCluster < f.entry.cluster then { f with curClusterOff := 0, curCluster := f.entry.cluster } else f
        let f ← getFile (pk hv σf k)
        let bytesUntilMax := MAX_FILE_SIZE - f.currentOffset
        let bytesToWrite := min data.length bytesUntilMax
        writeLoop (pk hv σf k) volIdx (bytesToWrite + 1) (data.take bytesToWrite)
        if bytesToWrite < data.length then M.fail .DiskFull else pure ()) s := by
  refine SimAt.bind (sim_getVolumeById hs) fun a b hab _ hs => ?_
  obtain ⟨rfl, rfl⟩ := hab
  refine SimAt.bind (sim_modifyFile hs hown _ fun f => ?_) fun _ _ _ _ hs => ?_
  · split <;> rfl
  refine SimAt.bind (sim_getFile hs hown) fun f f' hff _ hs => ?_
  subst hff
  refine SimAt.bind (writeLoop_simAt hown _ _ hs) fun _ _ _ _ hs => ?_
  exact SimAt.ite (fun _ => sim_fail hs _) (fun _ => sim_pure hs ())

theorem write_simAt {s : Mgr} {file k : Nat} (hs : Skel hv i σd σf s)
    (hk : σf.findIdx? (fun e => decide (e.1 = file)) = some k) (hown : σf[k]? = some (file, hv)) (data : Bytes) :
    SimAt hv i σd σf Eq (Model.write file data) (Model.write file data) s := by
  unfold Model.write
  refine SimAt.bind (sim_getFileById hs hk hown) fun a b hab _ hs => ?_
  obtain ⟨rfl, rfl⟩ := hab
  refine SimAt.bind (sim_getFile hs hown) fun f f' hff hget hs' => ?_
  subst hff
  obtain ⟨_, _, hfv⟩ := getFile_skel hs hown hget
  rw [hfv]
  refine SimAt.bind (sim_getVolumeById hs') fun a b hab _ hs => ?_
  obtain ⟨rfl, rfl⟩ := hab
  refine SimAt.ite (fun _ => sim_fail hs _) fun _ => ?_
  refine SimAt.get_bind ?_
  rw [projH_clock]
  refine SimAt.bind (sim_modifyFile hs hown _ fun f => rfl) fun _ _ _ _ hs => ?_
  dsimp only
  refine SimAt.ite (fun _ => ?_) (fun _ => writeTail_simAt hs hown data)
  refine SimAt.bind (sim_withVol hs _) fun c c' hc _ hs => ?_
  subst hc
  refine SimAt.bind (sim_modifyFile hs hown _ fun f => rfl) fun _ _ _ _ hs => ?_
  exact writeTail_simAt hs hown data

theorem write_runSim {s : Mgr} {file : Nat} (hvol : s.vols.findIdx? (·.rawVolume = hv) = some i)
    (ht : fileTarget s file = some i) (data : Bytes) : RunSim hv i (Model.write file data) s := by
  obtain ⟨k, hk, hown⟩ := fileTarget_spec hvol ht
  exact RunSim.of_simAt (write_simAt ⟨hvol, rfl, rfl⟩ hk hown data)

end

end Sdmmc.Lemmas.VolN
