/-
ROUTE (D) — ONE CALL AND HISTORIES WITH NO RESTRICTION ON WHERE A DEVICE CALL FAILS, continued.  `fitsOp_of_notDamaged`:
the side condition read off the medium alone (`NotDamagedOpen`, `Spec/VolumeSlack.lean`) gives the one stated with the
ghost (`FitsOp`).  `step_anyD` / `step_outD`: every covered call under every schedule, WHATEVER device call fails — the
truncating opens included —, leaves `InvFE sk'` for some `sk' ≥ sk`, and answers `Ok` or an error.  `history_anyD`: along
every covered history the invariant holds after every prefix, for some slack.
-/
import Sdmmc.Lemmas.FaultDTrunc3

namespace Sdmmc.Lemmas.VolD
open Sdmmc.Lemmas.FaultX
open Sdmmc.Lemmas.FaultHist Sdmmc.Lemmas.VolX
open Sdmmc.Model Sdmmc.Model.Fat Sdmmc.Spec.Volume
open Sdmmc.Spec hiding NoFault Coherent
open Sdmmc.Lemmas.VolApi Sdmmc.Lemmas.MHoare Sdmmc.Lemmas.FaultInv Sdmmc.Lemmas.Retry Sdmmc.Lemmas.VolMed Sdmmc.Lemmas.VolTree
open Sdmmc.Lemmas.Fault hiding resetLogs step_unlocked

variable {sk : Nat} {X : List (List Nat)}

theorem headD_of_head? {l : List Nat} {h : Nat} (hl : l.head? = some h) : l.headD 0 = h := by
  cases l with
  | nil => cases hl
  | cons a t => simpa using hl

/-- The slots of a directory of the tree as the ghost gives them are the slots read off the medium. -/
theorem isDirSlots_of_med {v : FatVolume} {d : Disk} {files : List FileInfo} {gh : Ghost} (hM : MedD sk v d files gh X)
    {c : Nat} (hv : ValidDir gh.dirs c) : IsDirSlots v d c (dirSlots v d gh.G (dirIdOf c)) := by
  obtain ⟨hid, hne⟩ := validDir_id hM hv
  unfold IsDirSlots dirSlots
  by_cases h0 : dirIdOf c = 0
  · rw [if_pos h0, if_pos h0]
    cases hft : v.fatType with
    | fat16 => rfl
    | fat32 =>
      have hf : ¬ isFixedRoot v (dirIdOf c) := fun h => by have h2 := h.2; rw [hft] at h2; cases h2
      obtain ⟨hmem, hhead⟩ := dirChain_spec hM hid hf
      have e : dirHead v (dirIdOf c) = v.firstRootDirCluster := by unfold dirHead; rw [if_pos h0]
      rw [e] at hmem hhead
      refine ⟨_, ?_, rfl⟩
      have := med_chain hM hmem
      rw [headD_of_head? hhead] at this
      exact this
  · rw [if_neg h0, if_neg h0]
    have hf : ¬ isFixedRoot v (dirIdOf c) := fun h => h0 h.1
    obtain ⟨hmem, hhead⟩ := dirChain_spec hM hid hf
    have hc : dirIdOf c = c := by
      unfold dirIdOf at h0 ⊢
      by_cases hr : c = Gen.CLUSTER_ROOT_DIR
      · rw [if_pos hr] at h0; exact absurd rfl h0
      · rw [if_neg hr]
    have e : dirHead v (dirIdOf c) = c := by unfold dirHead; rw [if_neg h0]; exact hc
    rw [e] at hmem hhead
    rw [hc]
    refine ⟨_, ?_, rfl⟩
    have := med_chain hM hmem
    rw [headD_of_head? hhead] at this
    exact this

/-- **The side condition read off the medium gives the one stated with the ghost.** -/
theorem fitsOp_of_notDamaged {s : Mgr} {gh : Ghost} (hI : VolInvD sk X s gh) {op : Op} (h : NotDamagedOpen s op) :
    FitsOp gh s op := by
  cases op with
  | openFile directory name mode =>
    intro hk hvne dir hdm hdr sfn hsfn o ho hnm hod hfree
    rcases hI.vols with h0 | ⟨vi, hvs, hvol⟩
    · exact absurd h0 hvne
    have hM := hI.med
    have hdv := hI.openDirs dir hdm
    obtain ⟨hid, _⟩ := validDir_id hM hdv
    have hoe : o ∈ entries (dirSlots gh.vol s.dev.disk gh.G (dirIdOf dir.cluster)) := by
      unfold objects at ho
      split at ho
      · exact ho
      · exact List.mem_of_mem_drop ho
    have hfit := h hk vi (by rw [hvs]; exact List.mem_singleton.2 rfl) dir hdm hdr sfn hsfn _
      (by rw [hvol]; exact isDirSlots_of_med hM hdv) o hoe hnm hod hfree
    rw [hvol] at hfit
    rcases hfit with hz | ⟨cs, hch, hle⟩
    · rw [hz]; exact Nat.zero_le _
    have hsz := hM.tree.sizes _ hid o ho hod
    rw [effCluster_of_none hfree, effSize_of_none hfree] at hsz
    rcases hsz with ⟨_, hz⟩ | ⟨_, hle'⟩
    · rw [hz]; exact Nat.zero_le _
    by_cases hnil : chainOf gh.G (sCluster gh.vol.fatType o) = []
    · rw [hnil] at hle'
      have : sSize o = 0 := by simpa using hle'
      rw [this]; exact Nat.zero_le _
    · have hGs := med_heads hM
      obtain ⟨hmem, hhead⟩ := chainOf_spec hGs ((chainOf_ne_nil_iff hGs).1 hnil)
      have hc2 := med_chain hM hmem
      rw [headD_of_head? hhead] at hc2
      rw [ChainL.chain_unique hc2 cs hch]
      exact hle
  | _ => trivial

theorem notDamaged_mclr {s : Mgr} {op : Op} (h : NotDamagedOpen s op) : NotDamagedOpen (mclr s) op := by
  cases op <;> exact h

/-- `RawAll` after a call, from the medium facts about the files open before and the table facts. -/
theorem rawAll_afterD {sk' : Nat} {s0 t : Mgr} {gh : Ghost} (hI : VolInvD sk X s0 gh) (hinv : InvF sk' gh t)
    (hD : RawAllD gh.vol.fatType t.dev.disk s0.files)
    (hT : ∀ g, g ∈ t.files → g.dirty = false ∨ ∃ f, f ∈ s0.files ∧ Desc f g) : RawAll t := by
  obtain ⟨gh', X', hI', hsg⟩ := hinv
  intro g hg vi hvi
  have hvol : vi.vol = gh'.vol := by
    rcases hI'.vols with h0 | ⟨vi', hvs, hvol⟩
    · have : t.vols = [] := h0
      rw [this] at hvi; cases hvi
    · have : t.vols = [vi'] := hvs
      rw [this] at hvi
      rw [List.mem_singleton.1 hvi]; exact hvol
  have hft : gh'.vol.fatType = gh.vol.fatType := hsg.fatType
  rw [hvol]
  rcases hT g hg with hcl | ⟨f, hf, hdesc⟩
  · exact rawBelow_of_clean hI'.med hg hcl
  · rw [hft]
    refine rawBelow_desc (hD f hf) hdesc fun hlt => ?_
    have hM := hI.med
    obtain ⟨hok, _⟩ := hI.med.fileOK f hf
    rcases hok.chain with ⟨_, h2, h3⟩ | hch
    · exact ⟨cluster_zero_of_nil hM.tree (med_heads hM) hf h2, h3⟩
    · have := (ChainL.chain_inRange hch _ (ForestBase.chain_head_mem hch)).1
      omega

/-- **One covered call under ANY schedule**, whatever device call fails. -/
theorem step_anyD {s0 : Mgr} {gh : Ghost} (hI : VolInvD sk X s0 gh) (hR : RawAll s0) (L : List Nat) (op : Op)
    (hc : FCovered s0 op) (hfit : FitsOp gh s0 op) :
    ∃ sk', sk ≤ sk' ∧ InvFE sk' gh (step (withFaults L s0) op).1 := by
  have other : classC op = true → ∃ sk', sk ≤ sk' ∧ InvFE sk' gh (step (withFaults L s0) op).1 :=
    fun hcl => ⟨sk, Nat.le_refl _, step_raw hI hR L op hc hfit fun _ => hcl⟩
  cases op with
  | openFile d name mode =>
    have hI' := volInv_resetLogs hI
    have e1 := MHoare.step_unlocked (withFaults L s0) (.openFile d name mode) hI.unlocked
    rw [resetLogs_withFaults] at e1
    have hs1 : (step (withFaults L s0) (.openFile d name mode)).1 =
        (openFileInDir d name mode (withFaults L (resetLogs s0))).2 := by
      rw [e1]
      show ((openFileInDir d name mode >>= fun b => (pure (Payload.handle b) : M Payload)) _).2 = _
      rw [map_state]
    have hT : ∀ g, g ∈ (step (withFaults L s0) (.openFile d name mode)).1.files →
        g.dirty = false ∨ ∃ f, f ∈ s0.files ∧ Desc f g := by
      have e2 := MHoare.step_unlocked (withFaults L s0) (.openFile d name mode) hI.unlocked
      rw [e2]
      exact runOp_tab _ (resetLogs (withFaults L s0))
    obtain ⟨sk', hle, hA, hD⟩ := openFile_outD hI' L d name mode hc hfit
    rw [← hs1] at hA hD
    exact ⟨sk', hle, hA, rawAll_afterD hI hA (hD (rawAllD_of hI' hR)) hT⟩
  | write f b => exact other rfl
  | delete d n => exact other rfl
  | mkdir d n => exact other rfl
  | closeFile f => exact other rfl
  | openVolume i => exact other rfl
  | closeVolume v => exact other rfl
  | openRoot v => exact other rfl
  | openDir d n => exact other rfl
  | closeDir d => exact other rfl
  | read f n => exact other rfl
  | seekStart f n => exact other rfl
  | seekCur f n => exact other rfl
  | seekEnd f n => exact other rfl
  | flush f => exact other rfl
  | find d n => exact other rfl
  | list d => exact other rfl
  | listLfn d n => exact other rfl
  | length f => exact other rfl
  | offset f => exact other rfl
  | eof f => exact other rfl
  | hasOpen => exact other rfl
  | label v => exact other rfl

theorem InvFE.mono {sk sk' : Nat} {gh : Ghost} {s : Mgr} (h : sk ≤ sk') (hi : InvFE sk gh s) : InvFE sk' gh s :=
  ⟨InvF.mono h hi.1, hi.2⟩

/-- **One call from `InvFE sk`** (any schedule pending in `s`), whatever device call fails: the invariant again, for some
slack; and the call answers `Ok` or an error. -/
theorem step_outD {s : Mgr} {gh : Ghost} (hI : InvFE sk gh s) (op : Op) (hc : FCovered s op) (hnd : NotDamagedOpen s op) :
    (∃ sk', sk ≤ sk' ∧ InvFE sk' gh (step s op).1) ∧ FaultInv.Clean (step s op).2.result := by
  obtain ⟨⟨gh1, X1, hI1, hg1⟩, hR⟩ := hI
  have e := withFaults_mclr s
  have hfit : FitsOp gh1 (mclr s) op := fitsOp_of_notDamaged hI1 (notDamaged_mclr hnd)
  refine ⟨?_, ?_⟩
  · obtain ⟨sk', hle, h⟩ := step_anyD hI1 (rawAll_mclr hR) s.dev.faults op (fcovered_mclr hc) hfit
    rw [e] at h
    exact ⟨sk', hle, h.1.sameGeom hg1, h.2⟩
  · by_cases hq : (step s op).1.dev.failed = s.dev.failed
    · have := (quiet_step_inv hI1 s.dev.faults op (fcovered_mclr hc) hfit (by rw [e]; exact hq)).1
      rw [e] at this
      rw [this]
      exact covered_call_clean hI1 op (fcovered_mclr hc) hfit
    · obtain ⟨err, he⟩ := Fault.step_reported s op hq
      rw [he]; exact clean_err _

/-- **Histories, no restriction on where device calls fail**: after every prefix the invariant holds, for some slack, and
every call so far answered `Ok` or an error. -/
theorem history_anyD : ∀ (ops : List Op) {sk : Nat} {s : Mgr} {gh : Ghost}, InvFE sk gh s → CoveredRunF s ops →
    NotDamagedRun s ops → ∀ k,
    ∃ sk', sk ≤ sk' ∧ InvFE sk' gh (run s (ops.take k)).1 ∧ ∀ o, o ∈ (run s (ops.take k)).2 → FaultInv.Clean o.result
  | [], sk, s, gh, hI, _, _, k => by
    rw [List.take_nil]
    exact ⟨sk, Nat.le_refl _, hI, fun o ho => by cases ho⟩
  | op :: ops, sk, s, gh, hI, hc, hn, 0 => ⟨sk, Nat.le_refl _, hI, fun o ho => by cases ho⟩
  | op :: ops, sk, s, gh, hI, hc, hn, k + 1 => by
    obtain ⟨⟨sk1, hle1, hI1⟩, hcl⟩ := step_outD hI op hc.1 hn.1
    obtain ⟨sk2, hle2, hI2, hcl2⟩ := history_anyD ops hI1 hc.2 hn.2 k
    rw [List.take_succ_cons, WriteSetInv.run_cons]
    refine ⟨sk2, Nat.le_trans hle1 hle2, hI2, fun o ho => ?_⟩
    rcases List.mem_cons.1 ho with rfl | ho
    · exact hcl
    · exact hcl2 o ho

end Sdmmc.Lemmas.VolD
