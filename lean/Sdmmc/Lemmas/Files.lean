/-
Lemmas for C01 (file reads return the bytes written): the statements used by `Sdmmc.Props.C01`.

`Sdmmc.Props.C01` states the cursor theorems with its own structure `SFile`; the lemmas here are
stated for an arbitrary constructor `mk : Nat → Nat → σ` of the abstract cursor (size, position),
so that the property theorems are instances.
-/
import Sdmmc.Lemmas.ListingF

namespace Sdmmc.Lemmas.Files
open Sdmmc.Model Sdmmc.Model.Fat Sdmmc.Gen
open Sdmmc.Lemmas.ListingF

/-! ### The cursor -/

theorem seek_start_refines {σ} (mk : Nat → Nat → σ) (f : FileInfo) (n : Nat) :
    (f.seekFromStart n).map (fun g => mk g.entry.size g.currentOffset) =
      if n ≤ f.entry.size then some (mk f.entry.size n) else none := by
  unfold FileInfo.seekFromStart
  by_cases h : n ≤ f.entry.size
  · have : ¬ n > f.entry.size := by omega
    simp [h, this]
  · have : n > f.entry.size := by omega
    simp [h, this]

theorem seek_end_refines {σ} (mk : Nat → Nat → σ) (f : FileInfo) (n : Nat) :
    (f.seekFromEnd n).map (fun g => mk g.entry.size g.currentOffset) =
      if n ≤ f.entry.size then some (mk f.entry.size (f.entry.size - n)) else none := by
  unfold FileInfo.seekFromEnd
  by_cases h : n ≤ f.entry.size
  · have : ¬ n > f.entry.size := by omega
    simp [h, this]
  · have : n > f.entry.size := by omega
    simp [h, this]

theorem seek_cur_refines {σ} (mk : Nat → Nat → σ) (f : FileInfo) (d : Int) :
    (f.seekFromCurrent d).map (fun g => mk g.entry.size g.currentOffset) =
      if 0 ≤ (f.currentOffset : Int) + d ∧ (f.currentOffset : Int) + d ≤ (f.entry.size : Int)
      then some (mk f.entry.size ((f.currentOffset : Int) + d).toNat) else none := by
  unfold FileInfo.seekFromCurrent
  by_cases h : 0 ≤ (f.currentOffset : Int) + d ∧ (f.currentOffset : Int) + d ≤ (f.entry.size : Int)
  · have : ¬ ((f.currentOffset : Int) + d < 0 ∨ (f.currentOffset : Int) + d > (f.entry.size : Int)) := by omega
    simp [h, this]
  · have : (f.currentOffset : Int) + d < 0 ∨ (f.currentOffset : Int) + d > (f.entry.size : Int) := by omega
    simp [h, this]

/-- A successful seek changes the offset only. -/
theorem seek_frame (f f' : FileInfo) (n : Nat) (d : Int)
    (h : f.seekFromStart n = some f' ∨ f.seekFromEnd n = some f' ∨ f.seekFromCurrent d = some f') :
    f' = { f with currentOffset := f'.currentOffset } := by
  unfold FileInfo.seekFromStart FileInfo.seekFromEnd FileInfo.seekFromCurrent at h
  rcases h with h | h | h
  · split at h
    · cases h
    · cases h; rfl
  · split at h
    · cases h
    · cases h; rfl
  · simp only at h
    split at h
    · cases h
    · cases h; rfl

/-- A successful seek lands inside `[0, size]`. -/
theorem seek_inv (f f' : FileInfo) (n : Nat) (d : Int)
    (h : f.seekFromStart n = some f' ∨ f.seekFromEnd n = some f' ∨ f.seekFromCurrent d = some f') :
    f'.currentOffset ≤ f'.entry.size := by
  unfold FileInfo.seekFromStart FileInfo.seekFromEnd FileInfo.seekFromCurrent at h
  rcases h with h | h | h
  · split at h
    · cases h
    · cases h; show n ≤ f.entry.size; omega
  · split at h
    · cases h
    · cases h; show f.entry.size - n ≤ f.entry.size; omega
  · simp only at h
    split at h
    · cases h
    · cases h
      show ((f.currentOffset : Int) + d).toNat ≤ f.entry.size
      omega

theorem eof_iff_left_zero (f : FileInfo) (h : f.currentOffset ≤ f.entry.size) :
    f.eof = true ↔ f.left = 0 := by
  unfold FileInfo.eof FileInfo.left
  simp only [decide_eq_true_eq]
  omega

/-! ### The seek calls of the API -/

theorem file_seek_start_spec (file offset i : Nat) (f : FileInfo) (s : Mgr)
    (h1 : getFileById file s = (.ok i, s)) (h2 : getFile i s = (.ok f, s)) :
    fileSeekFromStart file offset s =
      if offset ≤ f.entry.size then (.ok (), { s with files := s.files.set i { f with currentOffset := offset } })
      else (.err .InvalidOffset, s) := by
  unfold fileSeekFromStart FileInfo.seekFromStart
  simp only [bind, M.bind', h1, h2]
  by_cases h : offset ≤ f.entry.size
  · have : ¬ offset > f.entry.size := by omega
    simp [h, this, setFile, M.modify]
  · have : offset > f.entry.size := by omega
    simp [h, this, M.fail]

theorem file_seek_end_spec (file offset i : Nat) (f : FileInfo) (s : Mgr)
    (h1 : getFileById file s = (.ok i, s)) (h2 : getFile i s = (.ok f, s)) :
    fileSeekFromEnd file offset s =
      if offset ≤ f.entry.size then
        (.ok (), { s with files := s.files.set i { f with currentOffset := f.entry.size - offset } })
      else (.err .InvalidOffset, s) := by
  unfold fileSeekFromEnd FileInfo.seekFromEnd
  simp only [bind, M.bind', h1, h2]
  by_cases h : offset ≤ f.entry.size
  · have : ¬ offset > f.entry.size := by omega
    simp [h, this, setFile, M.modify]
  · have : offset > f.entry.size := by omega
    simp [h, this, M.fail]

theorem file_seek_cur_spec (file i : Nat) (d : Int) (f : FileInfo) (s : Mgr)
    (h1 : getFileById file s = (.ok i, s)) (h2 : getFile i s = (.ok f, s)) :
    fileSeekFromCurrent file d s =
      if 0 ≤ (f.currentOffset : Int) + d ∧ (f.currentOffset : Int) + d ≤ (f.entry.size : Int) then
        (.ok (), { s with files := s.files.set i { f with currentOffset := ((f.currentOffset : Int) + d).toNat } })
      else (.err .InvalidOffset, s) := by
  unfold fileSeekFromCurrent FileInfo.seekFromCurrent
  simp only [bind, M.bind', h1, h2]
  by_cases h : 0 ≤ (f.currentOffset : Int) + d ∧ (f.currentOffset : Int) + d ≤ (f.entry.size : Int)
  · have : ¬ ((f.currentOffset : Int) + d < 0 ∨ (f.currentOffset : Int) + d > (f.entry.size : Int)) := by omega
    simp [h, this, setFile, M.modify]
  · have : (f.currentOffset : Int) + d < 0 ∨ (f.currentOffset : Int) + d > (f.entry.size : Int) := by omega
    simp [h, this, M.fail]

theorem file_observers_spec (file i : Nat) (f : FileInfo) (s : Mgr)
    (h1 : getFileById file s = (.ok i, s)) (h2 : getFile i s = (.ok f, s)) :
    fileLength file s = (.ok f.entry.size, s) ∧ fileOffset file s = (.ok f.currentOffset, s) ∧
    fileEof file s = (.ok (decide (f.currentOffset = f.entry.size)), s) := by
  refine ⟨?_, ?_, ?_⟩
  · unfold fileLength; simp only [bind, M.bind', h1, h2]; rfl
  · unfold fileOffset; simp only [bind, M.bind', h1, h2]; rfl
  · unfold fileEof; simp only [bind, M.bind', h1, h2]; rfl

/-! ### `find_data_on_disk` -/

/-- A cursor beyond the wanted offset is never used: the walk restarts at the file's first cluster. -/
theorem find_backward_restart (fileStart desired o c : Nat) (h : desired < o) :
    findDataOnDisk fileStart desired (o, c) = findDataOnDisk fileStart desired (0, fileStart) := by
  funext s
  unfold findDataOnDisk
  simp [h]

theorem walk_zero (bpc : Nat) (st : Nat × Nat) (s : FS) : walkClusters bpc 0 st s = (.ok (st, .ok ()), s) := rfl

/-- One step of the walk: the FAT link of the current cluster decides. -/
theorem walk_succ (bpc n : Nat) (st : Nat × Nat) (s : FS) :
    walkClusters bpc (n + 1) st s =
      match nextCluster st.2 s with
      | (.ok c, s1) => walkClusters bpc n (st.1 + bpc, c) s1
      | (.err e, s1) => (.ok (st, .err e), s1)
      | (.panic m, s1) => (.ok (st, .panic m), s1)
      | (.diverged, s1) => (.ok (st, .diverged), s1) := by
  rw [walkClusters]
  simp only [bind, F.bind', F.attempt]
  rcases hnc : nextCluster st.2 s with ⟨r, s1⟩
  cases r <;> rfl

/-- The walk itself never fails at the `F` level: a failing link is handed back as a value. -/
theorem walk_always_ok (bpc : Nat) : ∀ (n : Nat) (st : Nat × Nat) (s : FS),
    ∃ st' r s', walkClusters bpc n st s = (.ok (st', r), s')
  | 0, st, s => ⟨st, .ok (), s, rfl⟩
  | n + 1, st, s => by
    rw [walk_succ]
    rcases hnc : nextCluster st.2 s with ⟨r, s1⟩
    cases r with
    | ok c => exact walk_always_ok bpc n _ s1
    | err e => exact ⟨_, _, _, rfl⟩
    | panic m => exact ⟨_, _, _, rfl⟩
    | diverged => exact ⟨_, _, _, rfl⟩

/-- The walk advances the byte position by one cluster size per link followed; all `n` links
when it succeeds. -/
theorem walk_offset (bpc : Nat) : ∀ (n : Nat) (st st' : Nat × Nat) (r : Res Unit) (s s' : FS),
    walkClusters bpc n st s = (.ok (st', r), s') →
    ∃ k, k ≤ n ∧ st'.1 = st.1 + k * bpc ∧ (r = .ok () → k = n)
  | 0, st, st', r, s, s', h => by
    rw [walk_zero] at h
    cases h
    exact ⟨0, Nat.le_refl _, by simp, fun _ => rfl⟩
  | n + 1, st, st', r, s, s', h => by
    rw [walk_succ] at h
    rcases hnc : nextCluster st.2 s with ⟨r1, s1⟩
    rw [hnc] at h
    cases r1 with
    | ok c =>
      obtain ⟨k, hk, hpos, hall⟩ := walk_offset bpc n _ _ _ _ _ h
      refine ⟨k + 1, by omega, ?_, fun hr => by rw [hall hr]⟩
      rw [hpos, Nat.add_mul]; simp only [Nat.one_mul]; omega
    | err e =>
      cases h
      exact ⟨0, by omega, by simp, fun hr => by cases hr⟩
    | panic m =>
      cases h
      exact ⟨0, by omega, by simp, fun hr => by cases hr⟩
    | diverged =>
      cases h
      exact ⟨0, by omega, by simp, fun hr => by cases hr⟩

/-- Walking `a + b` links is walking `a` links and then, if that succeeded, `b` more from where
the first part stopped (states threaded). -/
theorem walk_compose (bpc : Nat) : ∀ (a b : Nat) (st : Nat × Nat) (s : FS),
    walkClusters bpc (a + b) st s =
      match walkClusters bpc a st s with
      | (.ok (st1, .ok ()), s1) => walkClusters bpc b st1 s1
      | other => other
  | 0, b, st, s => by
    rw [Nat.zero_add, walk_zero]
  | a + 1, b, st, s => by
    rw [show a + 1 + b = (a + b) + 1 by omega, walk_succ, walk_succ]
    rcases hnc : nextCluster st.2 s with ⟨r, s1⟩
    cases r with
    | ok c => exact walk_compose bpc a b _ s1
    | err e => rfl
    | panic m => rfl
    | diverged => rfl

theorem div_mul_sub_lt (x bpc : Nat) (h : 0 < bpc) : x - x / bpc * bpc < bpc := by
  have h1 : x / bpc * bpc + x % bpc = x := by
    rw [Nat.mul_comm]; exact Nat.div_add_mod x bpc
  have h2 : x % bpc < bpc := Nat.mod_lt _ h
  omega

/-- The start of the walk: the cursor, unless it lies beyond the wanted offset. -/
def restart (fileStart desired : Nat) (start : Nat × Nat) : Nat × Nat :=
  if desired < start.1 then (0, fileStart) else start

theorem restart_le (fileStart desired : Nat) (start : Nat × Nat) : (restart fileStart desired start).1 ≤ desired := by
  unfold restart
  split
  · exact Nat.zero_le _
  · omega

/-- How a walk outcome becomes the outcome of `find_data_on_disk`. -/
def located (v : FatVolume) (desired : Nat) (st : Nat × Nat) (r : Res Unit) : Res (Nat × Nat × Nat) :=
  match r with
  | .ok () => .ok (clusterToBlock v st.2 + (desired - st.1) / 512, desired % 512, 512 - desired % 512)
  | .err e => .err e
  | .panic m => .panic m
  | .diverged => .diverged

/-- `find_data_on_disk` in closed form, as far as arithmetic goes: the result of the cluster walk
from the (possibly restarted) cursor over `(desired - start) / bytes_per_cluster` links, and the
block / offset / available triple computed from where the walk stopped.  The `assert!` of the
Rust function can never fire. -/
theorem find_data_eq (fileStart desired : Nat) (start : Nat × Nat) (s : FS)
    (hbpc : bytesPerCluster s.vol ≠ 0) :
    ∃ st' r s', walkClusters (bytesPerCluster s.vol)
        ((desired - (restart fileStart desired start).1) / bytesPerCluster s.vol)
        (restart fileStart desired start) s = (.ok (st', r), s') ∧
      findDataOnDisk fileStart desired start s = (.ok (st', located s.vol desired st' r), s') ∧
      (r = .ok () → st'.1 = (restart fileStart desired start).1 +
          (desired - (restart fileStart desired start).1) / bytesPerCluster s.vol * bytesPerCluster s.vol ∧
        st'.1 ≤ desired ∧ desired - st'.1 < bytesPerCluster s.vol) := by
  obtain ⟨st', r, s', hw⟩ := walk_always_ok (bytesPerCluster s.vol)
    ((desired - (restart fileStart desired start).1) / bytesPerCluster s.vol) (restart fileStart desired start) s
  obtain ⟨k, _, hpos, hall⟩ := walk_offset _ _ _ _ _ _ _ hw
  have hle := restart_le fileStart desired start
  have hok : r = .ok () → st'.1 = (restart fileStart desired start).1 +
          (desired - (restart fileStart desired start).1) / bytesPerCluster s.vol * bytesPerCluster s.vol ∧
        st'.1 ≤ desired ∧ desired - st'.1 < bytesPerCluster s.vol := by
    intro hr
    have hk := hall hr
    rw [hk] at hpos
    have h1 := div_mul_sub_lt (desired - (restart fileStart desired start).1) (bytesPerCluster s.vol)
      (Nat.pos_of_ne_zero hbpc)
    have h2 : (desired - (restart fileStart desired start).1) / bytesPerCluster s.vol * bytesPerCluster s.vol
        ≤ desired - (restart fileStart desired start).1 := Nat.div_mul_le_self _ _
    refine ⟨hpos, ?_, ?_⟩ <;> omega
  refine ⟨st', r, s', hw, ?_, hok⟩
  unfold restart at hw
  unfold findDataOnDisk
  simp only [bind, F.bind', F.getVol, hbpc, if_false, hw]
  cases r with
  | ok u =>
    have hlt := (hok rfl).2.2
    simp only [hlt, not_true_eq_false, if_false, pure, F.pure', BLOCK_LEN_U32, BLOCK_LEN]
    rfl
  | err e => rfl
  | panic m => rfl
  | diverged => rfl

theorem find_data_arith (fileStart desired : Nat) (start : Nat × Nat) (s s' : FS)
    (o' c' blk off avail : Nat)
    (h : findDataOnDisk fileStart desired start s = (.ok ((o', c'), .ok (blk, off, avail)), s')) :
    off = desired % 512 ∧ avail = 512 - desired % 512 ∧ o' ≤ desired ∧
    desired - o' < bytesPerCluster s.vol ∧
    blk = clusterToBlock s.vol c' + (desired - o') / 512 ∧
    o' = (restart fileStart desired start).1 +
      (desired - (restart fileStart desired start).1) / bytesPerCluster s.vol * bytesPerCluster s.vol ∧
    o' % bytesPerCluster s.vol = (restart fileStart desired start).1 % bytesPerCluster s.vol := by
  by_cases hbpc : bytesPerCluster s.vol = 0
  · unfold findDataOnDisk at h
    simp only [bind, F.bind', F.getVol, hbpc, if_true, F.panic] at h
    cases h
  · obtain ⟨st', r, s'', _, heq, hok⟩ := find_data_eq fileStart desired start s hbpc
    rw [heq] at h
    cases r with
    | ok u =>
      obtain ⟨hpos, hle, hlt⟩ := hok rfl
      simp only [located, Prod.mk.injEq, Res.ok.injEq] at h
      obtain ⟨⟨hst, hb, ho, ha⟩, _⟩ := h
      subst hst
      refine ⟨ho.symm, ha.symm, hle, hlt, hb.symm, hpos, ?_⟩
      show (o', c').1 % _ = _
      rw [hpos, Nat.add_mul_mod_self_right]
    | err e => simp [located] at h
    | panic m => simp [located] at h
    | diverged => simp [located] at h

/-- When the cursor `(o, c)` is where `a` links from the file's first cluster lead, walking `a + b`
links from the start is walking `b` links from the cursor. -/
theorem walk_from_cursor (bpc a b fileStart o c : Nat) (s s1 : FS)
    (h : walkClusters bpc a (0, fileStart) s = (.ok ((o, c), .ok ()), s1)) :
    walkClusters bpc (a + b) (0, fileStart) s = walkClusters bpc b (o, c) s1 := by
  rw [walk_compose, h]

/-! ### The block write of `write` -/

theorem splice_length (b src : Bytes) (off : Nat) (h : off + src.length ≤ b.length) :
    (splice b off src).length = b.length := by
  unfold splice
  simp only [List.length_append, List.length_take, List.length_drop]
  omega

theorem splice_outside (b src : Bytes) (off i : Nat) (h : off ≤ b.length)
    (hi : i < off ∨ off + src.length ≤ i) : (splice b off src).getD i 0 = b.getD i 0 := by
  unfold splice
  simp only [List.getD_eq_getElem?_getD, List.append_assoc]
  rcases hi with hi | hi
  · rw [List.getElem?_append_left (by rw [List.length_take]; omega), List.getElem?_take]
    simp [hi]
  · rw [List.getElem?_append_right (by rw [List.length_take]; omega),
      List.getElem?_append_right (by rw [List.length_take]; omega), List.getElem?_drop, List.length_take]
    congr 2
    omega

theorem splice_inside (b src : Bytes) (off i : Nat) (h : off ≤ b.length)
    (hi : off ≤ i) (hi2 : i < off + src.length) : (splice b off src).getD i 0 = src.getD (i - off) 0 := by
  unfold splice
  simp only [List.getD_eq_getElem?_getD, List.append_assoc]
  rw [List.getElem?_append_right (by rw [List.length_take]; omega), List.length_take,
    List.getElem?_append_left (by omega)]
  congr 2
  omega

theorem zeroBlock_length : zeroBlock.length = 512 := List.length_replicate

theorem splice_whole (data : Bytes) (h : data.length = 512) : splice zeroBlock 0 data = data := by
  unfold splice
  have h0 : List.drop (0 + data.length) zeroBlock = [] := by
    apply List.drop_eq_nil_of_le
    rw [zeroBlock_length]; omega
  rw [h0, List.take_zero, List.nil_append, List.append_nil]

/-- `writeBlockPart` writes exactly one block — `blockIdx` — whose payload is the spliced block:
the zero block when the whole block is replaced, what the medium held otherwise. -/
theorem write_block_part_frame (blockIdx off : Nat) (data : Bytes) (whole : Bool) (s : FS)
    (hn : NoFault s) (hc : Coherent s) :
    ∃ s', writeBlockPart blockIdx off data whole s = (.ok (), s') ∧
      s'.dev.wlog = (blockIdx, splice (if whole then zeroBlock else s.dev.disk.get blockIdx) off data) :: s.dev.wlog ∧
      s'.dev.disk = s.dev.disk.set blockIdx (splice (if whole then zeroBlock else s.dev.disk.get blockIdx) off data) ∧
      s'.vol = s.vol ∧ NoFault s' ∧ Coherent s' := by
  unfold writeBlockPart
  cases whole with
  | true =>
    have hn1 : NoFault { s with cache := { tag := some blockIdx, blk := splice zeroBlock off data } } := hn
    obtain ⟨s2, h2, _, hv2, hd2, hw2, _, hn2, hc2⟩ := writeBack_ok blockIdx _ hn1 rfl
    refine ⟨s2, ?_, hw2, hd2, hv2, hn2, hc2⟩
    simp only [bind, F.bind', if_true, blankMut_eq, cacheModify_eq]
    exact h2
  | false =>
    obtain ⟨s1, h1, hblk, htag, hd1, hw1, hv1, hn1, hc1⟩ := cacheRead_ok blockIdx s hn hc
    have hn1' : NoFault { s1 with cache := { s1.cache with blk := splice s1.cache.blk off data } } := hn1
    obtain ⟨s2, h2, _, hv2, hd2, hw2, _, hn2, hc2⟩ := writeBack_ok blockIdx _ hn1' htag
    refine ⟨s2, ?_, ?_, ?_, hv2.trans hv1, hn2, hc2⟩
    · simp only [bind, F.bind', Bool.false_eq_true, if_false, h1, cacheModify_eq]
      exact h2
    · rw [hw2]; simp only [hblk, hw1, Bool.false_eq_true, if_false]
    · rw [hd2]; simp only [hblk, hd1, Bool.false_eq_true, if_false]

theorem write_loop_whole_iff (blockOffset blockAvail n : Nat) (havail : blockAvail = 512 - blockOffset)
    (hoff : blockOffset < 512) :
    (blockOffset = 0 ∧ min blockAvail n = blockAvail) ↔ (blockOffset = 0 ∧ min blockAvail n = 512) := by
  subst havail
  constructor
  · rintro ⟨h0, h⟩; subst h0; exact ⟨rfl, by omega⟩
  · rintro ⟨h0, h⟩; subst h0; exact ⟨rfl, by omega⟩

/-! ### One iteration of the read loop -/

theorem slice_length (blk : Bytes) (off n : Nat) (h : off + n ≤ blk.length) : (slice blk off n).length = n := by
  unfold slice
  rw [List.length_take, List.length_drop]; omega

theorem slice_getD (blk : Bytes) (off n i : Nat) (hi : i < n) : (slice blk off n).getD i 0 = blk.getD (off + i) 0 := by
  unfold slice
  simp only [List.getD_eq_getElem?_getD, List.getElem?_take, hi, if_true, List.getElem?_drop]

/-- One successful iteration of the loop of `read`: the cluster cursor is updated to what
`find_data_on_disk` returned, the block is read through the cache, `toCopy` bytes of it starting
at `blockOffset` are appended to the output, the offset advances by `toCopy`, and the loop goes on
with `space - toCopy`. -/
theorem read_copies_slice (fileIdx volIdx startOffset fuel space : Nat) (acc blk : Bytes) (f : FileInfo)
    (cc : Nat × Nat) (blockIdx blockOffset blockAvail : Nat) (s s1 s3 : Mgr)
    (hf : getFile fileIdx s = (.ok f, s)) (hspace : space ≠ 0) (heof : f.eof = false)
    (hfind : withVol volIdx (findDataOnDisk f.entry.cluster f.currentOffset (f.curClusterOff, f.curCluster)) s
      = (.ok (cc, .ok (blockIdx, blockOffset, blockAvail)), s1))
    (hread : withVol volIdx (do cacheRead blockIdx; cacheBlk)
      { s1 with files := s1.files.modify fileIdx fun f => { f with curClusterOff := cc.1, curCluster := cc.2 } }
      = (.ok blk, s3))
    (hpos : min (min blockAvail space) f.left ≠ 0) :
    readLoop fileIdx volIdx startOffset (fuel + 1) space acc s =
      readLoop fileIdx volIdx startOffset fuel (space - min (min blockAvail space) f.left)
        (acc ++ slice blk blockOffset (min (min blockAvail space) f.left))
        { s3 with files := s3.files.modify fileIdx fun g =>
            { g with currentOffset := g.currentOffset + min (min blockAvail space) f.left } } := by
  rw [readLoop]
  simp only [bind] at hread
  simp only [bind, M.bind', hf, hspace, heof, false_or, Bool.false_eq_true, if_false, M.attempt, hfind,
    modifyFile, M.modify, hread, hpos]

/-- The number of bytes copied in one iteration is never more than requested, never past the end
of the file, never past the end of the block. -/
theorem read_to_copy_bounds (blockAvail space left : Nat) :
    min (min blockAvail space) left ≤ space ∧ min (min blockAvail space) left ≤ left ∧
    min (min blockAvail space) left ≤ blockAvail := by
  omega

/-- … and is positive whenever the loop body is entered with the cursor inside the file (so the
`assert!(to_copy != 0)` never fires): `blockAvail` is what `find_data_on_disk` returned. -/
theorem read_to_copy_pos (f : FileInfo) (space desired : Nat) (hinv : f.currentOffset ≤ f.entry.size)
    (hspace : space ≠ 0) (heof : f.eof = false) :
    min (min (512 - desired % 512) space) f.left ≠ 0 := by
  unfold FileInfo.eof at heof
  unfold FileInfo.left
  have : f.currentOffset ≠ f.entry.size := by simpa using heof
  have : desired % 512 < 512 := Nat.mod_lt _ (by omega)
  omega

/-! ### One iteration of the write loop (no extension needed) -/

/-- One iteration of the loop of `write` when the wanted offset lies inside the chain: the block
write gets `toCopy = min blockAvail buffer.length` bytes and the flag "whole block" exactly when
`blockOffset = 0 ∧ toCopy = blockAvail`; afterwards the cluster cursor is what
`find_data_on_disk` returned, the offset has advanced by `toCopy`, the length has grown to the new
offset if that is larger, and the loop goes on with the rest of the buffer. -/
theorem write_loop_step (fileIdx volIdx fuel : Nat) (buffer : Bytes) (f : FileInfo)
    (cc : Nat × Nat) (blockIdx blockOffset blockAvail : Nat) (s s1 s2 : Mgr)
    (hne : buffer ≠ [])
    (hf : getFile fileIdx s = (.ok f, s))
    (hfind : withVol volIdx (findDataOnDisk f.entry.cluster f.currentOffset (f.curClusterOff, f.curCluster)) s
      = (.ok (cc, .ok (blockIdx, blockOffset, blockAvail)), s1))
    (hwrite : withVol volIdx (writeBlockPart blockIdx blockOffset (buffer.take (min blockAvail buffer.length))
        (decide (blockOffset = 0 ∧ min blockAvail buffer.length = blockAvail))) s1 = (.ok (), s2)) :
    writeLoop fileIdx volIdx (fuel + 1) buffer s =
      writeLoop fileIdx volIdx fuel (buffer.drop (min blockAvail buffer.length))
        { s2 with files := s2.files.modify fileIdx fun g =>
            let newOffset := g.currentOffset + min blockAvail buffer.length
            let g := { g with curClusterOff := cc.1, curCluster := cc.2 }
            let g := if newOffset > g.entry.size then g.updateLength newOffset else g
            { g with currentOffset := newOffset } } := by
  have hne' : buffer.isEmpty = false := by cases buffer <;> simp_all
  rw [writeLoop]
  simp only [bind, M.bind', hne', Bool.false_eq_true, if_false, hf, M.attempt, hfind, pure, M.pure', hwrite,
    modifyFile, M.modify]
