/-
Volume invariant (C03), layer 1a: the elementary changes as instances of `tree_edit`, part 1 —
changes of the open-file table with the directories fixed (`tree_files_edit`): a record changes
(offset, cursor, stamps; pending cluster / size with the chains), a file is opened on an existing
entry, a file is closed.
-/
import Mathlib.Data.List.Nodup
import Sdmmc.Lemmas.VolFacts

namespace Sdmmc.Lemmas.VolTree
open Sdmmc.Model Sdmmc.Model.Fat Sdmmc.Spec Sdmmc.Spec.Volume Sdmmc.Lemmas.VolBase

/-- The positions of all objects of all directories. -/
abbrev objPos (dirs : List (Nat × Nat)) (slots : Nat → List Slot) : List (Nat × Nat) :=
  (dirIds dirs).flatMap fun x => (objects x (slots x)).map spos

theorem objects_split {h : Nat} {ss A M B : List Slot} (hE : entries ss = A ++ M ++ B) (hA : h ≠ 0 → 2 ≤ A.length) :
    objects h ss = (if h = 0 then A else A.drop 2) ++ M ++ B := by
  unfold objects
  by_cases h0 : h = 0
  · simp only [if_pos h0, hE]
  · simp only [if_neg h0, hE]
    rw [List.append_assoc, List.drop_append_of_le_length (hA h0), List.append_assoc]

/-- Splitting a `flatMap` whose result has no repetitions at one index. -/
theorem flatMap_nodup_at {α : Type} [DecidableEq α] {ids : List Nat} {g : Nat → List α} (hnd : (ids.flatMap g).Nodup) {h : Nat}
    (hh : h ∈ ids) : (g h).Nodup ∧ ∀ x, x ∈ ids → x ≠ h → ∀ a, a ∈ g x → a ∉ g h := by
  have hp := List.Perm.flatMap_right g (List.perm_cons_erase hh)
  rw [List.flatMap_cons] at hp
  have hnd' := (hp.nodup_iff).1 hnd
  rw [List.nodup_append] at hnd'
  refine ⟨hnd'.1, ?_⟩
  intro x hx hne a ha ha'
  have : a ∈ (ids.erase h).flatMap g := List.mem_flatMap.2 ⟨x, (List.mem_erase_of_ne hne).2 hx, ha⟩
  exact hnd'.2.2 a ha' a this rfl

section
variable {ft : FatType} {cb : Nat} {root : List Nat} {G G' : List (List Nat)} {dirs : List (Nat × Nat)}
  {slots : Nat → List Slot} {files files' : List FileInfo}

/-- No other object sits at the position of `o`. -/
theorem pos_ne_of_split (hpos : (objPos dirs slots).Nodup) {h : Nat} (hh : h ∈ dirIds dirs) {A B : List Slot} {o : Slot}
    (hO : objects h (slots h) = A ++ [o] ++ B) :
    ∀ x, x ∈ dirIds dirs → ∀ o', o' ∈ objects x (slots x) → (x = h → o' ∈ A ++ B) → spos o' ≠ spos o := by
  obtain ⟨h1, h2⟩ := flatMap_nodup_at hpos hh
  have ho : spos o ∈ (objects h (slots h)).map spos := by
    rw [hO]; simp
  intro x hx o' ho' hAB
  by_cases hxh : x = h
  · subst hxh
    simp only [hO, List.map_append, List.map_cons, List.map_nil] at h1
    rw [List.append_assoc, List.nodup_append] at h1
    obtain ⟨_, h12, h13⟩ := h1
    rw [List.singleton_append, List.nodup_cons] at h12
    rcases List.mem_append.1 (hAB rfl) with hm | hm
    · exact h13 _ (List.mem_map.2 ⟨o', hm, rfl⟩) _ (List.mem_append_left _ (List.mem_singleton.2 rfl))
    · intro e
      exact h12.1 (e ▸ List.mem_map.2 ⟨o', hm, rfl⟩)
  · intro e
    exact h2 x hx hxh (spos o') (List.mem_map.2 ⟨o', ho', rfl⟩) (e ▸ ho)

/-- No other file object names the chain that `o` names. -/
theorem eff_ne_of_split (hT : TreeOK ft cb root G dirs slots files) (hG : HeadsOK G) {h : Nat} (hh : h ∈ dirIds dirs)
    {A B : List Slot} {o : Slot} (hO : objects h (slots h) = A ++ [o] ++ B) (hod : isDirE o = false) :
    ∀ x, x ∈ dirIds dirs → ∀ o', o' ∈ objects x (slots x) → (x = h → o' ∈ A ++ B) → isDirE o' = false →
      effCluster ft files o' ≠ 0 → effCluster ft files o' ≠ effCluster ft files o := by
  have hnd := (List.nodup_append.1 (refList_nodup hT hG)).2.1
  obtain ⟨h1, h2⟩ := flatMap_nodup_at hnd hh
  intro x hx o' ho' hAB hd' hc' e
  have hco : effCluster ft files o ≠ 0 := e ▸ hc'
  have ho : effCluster ft files o ∈ fileRefs ft files [o] :=
    mem_fileRefs.2 ⟨hco, o, List.mem_singleton.2 rfl, hod, rfl⟩
  by_cases hxh : x = h
  · subst hxh
    simp only [hO, fileRefs_append] at h1
    rw [List.append_assoc, List.nodup_append] at h1
    obtain ⟨_, h12, h13⟩ := h1
    rw [List.nodup_append] at h12
    rcases List.mem_append.1 (hAB rfl) with hm | hm
    · exact h13 _ (mem_fileRefs.2 ⟨hc', o', hm, hd', rfl⟩) _ (List.mem_append_left _ ho) e
    · exact h12.2.2 _ ho _ (mem_fileRefs.2 ⟨hc', o', hm, hd', rfl⟩) e.symm
  · refine h2 x hx hxh _ (mem_fileRefs.2 ⟨hc', o', ho', hd', rfl⟩) ?_
    rw [e, hO, fileRefs_append, fileRefs_append]
    exact List.mem_append_left _ (List.mem_append_right _ ho)

/-- **The open-file table changes**, the directories stay: the record at one file object `o` may be
added, removed or altered (with the chains), every other slot keeps its pending state. -/
theorem tree_files_edit (hT : TreeOK ft cb root G dirs slots files) (hG : HeadsOK G)
    (hpos : (objPos dirs slots).Nodup) {h : Nat} (hh : h ∈ dirIds dirs) {A B : List Slot} {o : Slot}
    (hO : objects h (slots h) = A ++ [o] ++ B) (hod : isDirE o = false)
    (hpend : ∀ s, spos s ≠ spos o → pendOf files' s = pendOf files s)
    (hkeys : (files'.map fkey).Nodup) (hattrs : ∀ f, f ∈ files' → AttrsOK f)
    (hfs : ∀ f, f ∈ files' → FileAt ft dirs slots f)
    (hlen : ∀ c, c ∈ heads G → c ≠ effCluster ft files o → (chainOf G c).length ≤ (chainOf G' c).length)
    (hAR : ∀ a, (fileRefs ft files' [o]).count a + (heads G).count a = (fileRefs ft files [o]).count a + (heads G').count a)
    (hsize : SizeOK ft cb G' files' o) :
    TreeOK ft cb root G' dirs slots files' := by
  have hids := dirIds_nodup hT hG
  have := tree_edit (extra := []) (slots' := slots) (files' := files') (G' := G') (A := A) (X := [o]) (Y := [o]) (B := B) hT
    (by rw [List.append_nil]; exact hids) hh (fun _ _ _ => rfl) hO hO (hT.cleanTail h hh) (hT.names h hh)
    (fun p hp => hT.dots h p hp) (fun c p hcp => by cases hcp) hkeys hattrs
    (fun f hf => by rw [List.append_nil]; exact hfs f hf) ?_ ?_ ?_ ?_ ?_
  · rw [List.append_nil] at this; exact this
  · intro x hx o' ho' hAB hd'
    have hne := pos_ne_of_split hpos hh hO x hx o' ho' hAB
    have hp := hpend o' hne
    refine ⟨by unfold effCluster; rw [hp], by unfold effSize; rw [hp], ?_⟩
    intro hc'
    exact hlen _ (fileRef_mem_heads hT hx ho' hd' hc') (eff_ne_of_split hT hG hh hO hod x hx o' ho' hAB hd' hc')
  · intro o' ho' hd'
    rw [List.mem_singleton] at ho'
    subst ho'
    rw [hod] at hd'; cases hd'
  · intro a; simp
  · intro a
    have := hAR a
    simp only [List.map_nil, List.count_nil, Nat.add_zero]
    exact this
  · intro o' ho' _
    rw [List.mem_singleton] at ho'
    subst ho'
    exact hsize

end

end Sdmmc.Lemmas.VolTree
