/-
Refinement of the API to the abstract file system, part 16: every call (`fs_step_refines`) and every history
(`fs_history_refines`) of the 24 operations is a step / a run of the abstract file system.
-/
import Sdmmc.Lemmas.AbsFsLabel
import Sdmmc.Lemmas.AbsFsDelete
import Sdmmc.Lemmas.AbsFsWrite
import Sdmmc.Lemmas.AbsFsSteps3

namespace Sdmmc.Lemmas.AbsFs
open Sdmmc.Model Sdmmc.Model.Fat Sdmmc.Spec.Volume
open Sdmmc.Spec hiding NoFault Coherent
open Sdmmc.Spec.AbsFs (absStep absRun)
open Sdmmc.Lemmas.VolApi Sdmmc.Lemmas.MHoare

theorem sameGeom_symm' {v w : FatVolume} (h : SameGeom v w) : SameGeom w v := by
  obtain ⟨a, b, rfl⟩ := h; exact ⟨v.freeClustersCount, v.nextFreeCluster, rfl⟩

/-- The short form of the name does not start with byte 0xE5 (accepted deviation (a) of the crate). -/
def NameOK (name : List Nat) : Prop := ∀ sfn, Sfn.createFromStr name = .ok sfn → sfn.head? ≠ some 0xE5

/-- The calls covered in state `s`: everything, except names whose short form starts with 0xE5 in the five calls
that look a name up, and an `open_volume` issued while no volume is open that would mount a record whose geometry
is not that of `v0` (the volume the relations speak about). -/
def FsCovered (v0 : FatVolume) (s : Mgr) : Op → Prop
  | .openVolume idx => s.vols ≠ [] ∨
      ∀ h s', openRawVolume idx (resetLogs s) = (.ok h, s') → ∀ vi, vi ∈ s'.vols → SameGeom v0 vi.vol
  | .openDir _ name => NameOK name
  | .openFile _ name _ => NameOK name
  | .delete _ name => NameOK name
  | .mkdir _ name => NameOK name
  | .find _ name => NameOK name
  | _ => True

/-- A history all of whose calls are covered in the state they are issued in. -/
def FsCoveredRun (v0 : FatVolume) : Mgr → List Op → Prop
  | _, [] => True
  | s, op :: ops => FsCovered v0 s op ∧ FsCoveredRun v0 (step s op).1 ops

/-- **Every covered call is a step of the abstract file system**, and both relations hold again afterwards. -/
theorem fs_step_refines (v0 : FatVolume) {s : Mgr} {gh : Ghost} {a : AState} (hI : VolInv s gh) (hA : Abs s gh a)
    (h0 : SameGeom v0 gh.vol) (op : Op) (hc : FsCovered v0 s op) :
    ∃ gh' a', VolInv (step s op).1 gh' ∧ SameGeom v0 gh'.vol ∧ Abs (step s op).1 gh' a' ∧
      absStep a op (a', (step s op).2.result) := by
  have hI' := volInv_resetLogs hI
  have hA' := abs_resetLogs hA
  have key : Refines op (resetLogs s) gh a := by
    cases op with
    | openVolume idx =>
      refine refines_openVolume idx hI' hA' ?_
      rcases hc with h | h
      · exact .inl h
      · exact .inr fun hd s' hrun vi hvi => (sameGeom_symm' h0).trans (h hd s' hrun vi hvi)
    | closeVolume v => exact refines_closeVolume v hI' hA'
    | openRoot v => exact refines_openRoot v hI' hA'
    | openDir d name => exact refines_openDir d name hI' hA' hc
    | closeDir d => exact refines_closeDir d hI' hA'
    | openFile d name mode => exact refines_openFile d name mode hI' hA' hc
    | read f n => exact refines_read f n hI' hA'
    | write f data => exact refines_write f data hI' hA'
    | seekStart f n => exact refines_seekStart f n hI' hA'
    | seekCur f n => exact refines_seekCur f n hI' hA'
    | seekEnd f n => exact refines_seekEnd f n hI' hA'
    | flush f => exact refines_flush f hI' hA'
    | closeFile f => exact refines_closeFile f hI' hA'
    | delete d name => exact refines_delete d name hI' hA' hc
    | mkdir d name => exact refines_mkdir d name hI' hA' hc
    | find d name => exact refines_find d name hI' hA' hc
    | list d => exact refines_list d hI' hA'
    | listLfn d n => exact refines_listLfn d n hI' hA'
    | length f => exact refines_length f hI' hA'
    | offset f => exact refines_offset f hI' hA'
    | eof f => exact refines_eof f hI' hA'
    | hasOpen => exact refines_hasOpen hI' hA'
    | label v => exact refines_label v hI' hA'
  obtain ⟨gh', a', h1, h2, h3, h4⟩ := step_refines hI key
  exact ⟨gh', a', h1, h0.trans h2, h3, h4⟩

/-- **Every covered history is a run of the abstract file system** with the same answers. -/
theorem fs_history_refines (v0 : FatVolume) (ops : List Op) {s : Mgr} {gh : Ghost} {a : AState} (hI : VolInv s gh)
    (hA : Abs s gh a) (h0 : SameGeom v0 gh.vol) (hc : FsCoveredRun v0 s ops) :
    ∃ gh' a', VolInv (Model.run s ops).1 gh' ∧ SameGeom v0 gh'.vol ∧ Abs (Model.run s ops).1 gh' a' ∧
      absRun a ops ((Model.run s ops).2.map (·.result)) a' := by
  induction ops generalizing s gh a with
  | nil => exact ⟨gh, a, hI, h0, hA, rfl⟩
  | cons op ops ih =>
    obtain ⟨gh1, a1, h1, g1, hA1, hs1⟩ := fs_step_refines v0 hI hA h0 op hc.1
    obtain ⟨gh2, a2, h2, g2, hA2, hr2⟩ := ih h1 hA1 g1 hc.2
    refine ⟨gh2, a2, by unfold Model.run; exact h2, g2, by unfold Model.run; exact hA2, ?_⟩
    unfold Model.run
    exact ⟨a1, hs1, hr2⟩

end Sdmmc.Lemmas.AbsFs
