/-
`alloc_cluster` in the vocabulary of `Spec/Forest.lean`: the cluster handed out was free (so not
used), afterwards it is an end-of-chain entry, the predecessor links to it, nothing else changed;
and the failing call (volume full) changes nothing but the cache.
-/
import Sdmmc.Lemmas.ForestTrunc

namespace Sdmmc.Lemmas.ForestAlloc
open Sdmmc.Model Sdmmc.Model.Fat Sdmmc.Spec
open Sdmmc.Lemmas.FBasic hiding NoFault Coherent
open Sdmmc.Lemmas.FatOps hiding BlocksOK Mirror HintOK
open Sdmmc.Lemmas.ChainL Sdmmc.Lemmas.ForestBase Sdmmc.Lemmas.ForestTrunc

/-- A successful allocation. -/
theorem alloc_spec (s s' : FS) (prev : Option Nat) (zero : Bool) (c : Nat) (hn : NoFault s) (hc : Coherent s)
    (hb : BlocksOK s.dev.disk) (hg : WFGeom s.vol) (hh : HintOK s.vol)
    (hp : ∀ p, prev = some p → p < endCluster s.vol ∧ ¬ isFree s.vol s.dev.disk p)
    (h : allocCluster prev zero s = (.ok c, s')) :
    NoFault s' ∧ Coherent s' ∧ BlocksOK s'.dev.disk ∧ SameGeom s.vol s'.vol ∧ HintOK s'.vol ∧
    s'.vol.freeClustersCount = s.vol.freeClustersCount.map (· - 1) ∧
    InRange s.vol c ∧ isFree s.vol s.dev.disk c ∧ nextOf s.vol s'.dev.disk c = .err .EndOfFile ∧
    (∀ p, prev = some p → p ≠ c ∧ nextOf s.vol s'.dev.disk p = .ok c) ∧
    (∀ c', c' < endCluster s.vol → c' ≠ c → prev ≠ some c' → fatRaw s.vol s'.dev.disk c' = fatRaw s.vol s.dev.disk c') ∧
    (Mirror s.vol s.dev.disk → Mirror s.vol s'.dev.disk) := by
  obtain ⟨sZ, s3, s4, ch⟩ := alloc_chain s s' prev zero c hn hc h
  obtain ⟨nf, hv, hnf⟩ := ch.vol'
  have hsg : SameGeom s.vol s'.vol := ⟨_, _, hv⟩
  have hcount := alloc_count s s' prev zero c h
  have hhint : HintOK s'.vol := by
    intro n hn'
    rcases alloc_hint_in_range s s' prev zero c hn hc hh h with h0 | ⟨m, h1, h2, _⟩
    · rw [h0] at hn'; cases hn'
    · rw [h1] at hn'; cases hn'; exact h2
  cases prev with
  | none =>
    obtain ⟨h2, hE, hfree, heof, hother, hmir, hn', hc', hb'⟩ := DirFat.alloc_first_cluster s s' c zero hn hc hb hg hh h
    exact ⟨hn', hc', hb', hsg, hhint, hcount, ⟨h2, hE⟩, hfree, heof, fun p hp' => (by cases hp'),
      fun c' h1 h2 _ => hother c' h1 h2, hmir⟩
  | some p =>
    obtain ⟨hpE, hpu⟩ := hp p rfl
    obtain ⟨h2, hE, hpc, hfree, heof, hlink, hother, hmir, hn', hc', hb'⟩ :=
      DirFat.alloc_extends_chain s s' p c zero hn hc hb hg hh hpE hpu h
    refine ⟨hn', hc', hb', hsg, hhint, hcount, ⟨h2, hE⟩, hfree, heof, ?_, ?_, hmir⟩
    · intro q hq; cases hq; exact ⟨hpc, hlink⟩
    · intro c' h1 h2 h3
      exact hother c' h1 h2 (fun e => h3 (by rw [e]))

/-- Without faults an allocation either succeeds or reports `NotEnoughSpace`; the failing call
leaves the medium and the volume record alone. -/
theorem alloc_total (s : FS) (prev : Option Nat) (zero : Bool) (hn : NoFault s) (hc : Coherent s) :
    (∃ c s', allocCluster prev zero s = (.ok c, s')) ∨
    (∃ s', allocCluster prev zero s = (.err .NotEnoughSpace, s') ∧ s'.dev.disk = s.dev.disk ∧ s'.vol = s.vol ∧
      NoFault s' ∧ Coherent s') := by
  cases hp : pick s.vol s.dev.disk with
  | some c =>
    obtain ⟨_, _, _, s', ch⟩ := alloc_forward s prev zero c hn hc hp
    exact .inl ⟨c, s', ch.run⟩
  | none =>
    obtain ⟨s1, h1, ro1, hn1, hc1⟩ := allocPick_eq s hn hc
    rw [hp] at h1
    refine .inr ⟨s1, ?_, ro1.disk, ro1.vol, hn1, hc1⟩
    rw [allocCluster_seq, bind_err h1]

/-- The same classification of a cluster on two media that agree on its entry. -/
theorem isUsed_congr {v v' : FatVolume} {d d' : Disk} {c : Nat} (hs : SameGeom v v')
    (h : InRange v c → fatRaw v d' c = fatRaw v d c) : isUsed v' d' c ↔ isUsed v d c := by
  rw [hs.isUsed]
  unfold isUsed isFree isBad fatEntry
  constructor
  · rintro ⟨hr, h1⟩; rw [h hr] at h1; exact ⟨hr, h1⟩
  · rintro ⟨hr, h1⟩; rw [← h hr] at h1; exact ⟨hr, h1⟩

end Sdmmc.Lemmas.ForestAlloc
