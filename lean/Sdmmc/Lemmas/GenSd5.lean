/-
Tie of the SD-card driver to the source text, part 5: the loops of `acquire` (CMD0 with its `match`, the flush, CMD8,
ACMD41), its closure (`acquire_f_eq`).
-/
import Sdmmc.Lemmas.GenSd

namespace Sdmmc.Lemmas.GenSd
open Sdmmc.Model Sdmmc.Model.Sd Sdmmc.Gen Sdmmc.Lemmas.Sd

variable {σ : Type} (B : BusOps σ)

theorem flush_loop (n : Nat) : FunsSd.acquire_f_loop2 B n = flushBytes B n := by
  induction n with
  | zero => rfl
  | succ k ih =>
    rw [FunsSd.acquire_f_loop2, flushBytes, write_byte_eq, ih]
    rfl

theorem enter_step (n : Nat) (next : Option (S σ Unit))
    (hnext : (FunsSd.Delay_delay B n SdErr.CardNotFound >>= fun d => FunsSd.acquire_f_loop1 B n d) =
      match next with
      | none => S.fail .CardNotFound
      | some k => delayTick B >>= fun _ => k) :
    FunsSd.acquire_f_loop1 B (n + 1) n = enterSpiModeStep B next := by
  rw [FunsSd.acquire_f_loop1]
  unfold enterSpiModeStep
  simp only [card_command_eq, CMD0]
  congr 1
  funext r
  cases r with
  | panic p => rfl
  | ok r1 =>
    rcases r1 with _ | _ | m
    · simp only [hnext, pure_bind]; rfl
    · rfl
    · simp only [hnext, pure_bind]; rfl
  | err e =>
    cases e <;> try rfl
    rename_i c
    rcases c with _ | c
    · simp only [flush_loop, bind_assoc, hnext, pure_bind]; rfl
    · rfl

theorem enter_loop (n : Nat) : FunsSd.acquire_f_loop1 B (n + 1) n = enterSpiMode B n := by
  induction n with
  | zero =>
    rw [enterSpiMode]
    exact enter_step B 0 none (by rw [delay_zero]; rfl)
  | succ k ih =>
    rw [enterSpiMode]
    exact enter_step B (k + 1) (some (enterSpiMode B k)) (by rw [delay_succ, bind_assoc, pure_bind, ih])

theorem version_step (n : Nat) (next : Option (S σ (CardType × Nat)))
    (hnext : (FunsSd.Delay_delay B n (SdErr.TimeoutCommand 8) >>= fun d => FunsSd.acquire_f_loop3 B n d) =
      (match next with
      | none => S.fail (.TimeoutCommand CMD8)
      | some m => delayTick B >>= fun _ => m) >>= fun q => pure (q.2, q.1)) :
    FunsSd.acquire_f_loop3 B (n + 1) n = checkVersionStep B next >>= fun q => pure (q.2, q.1) := by
  rw [FunsSd.acquire_f_loop3]
  unfold checkVersionStep
  have e255 : UInt8.ofNat 255 = (0xFF : UInt8) := rfl
  have h45 : R1_ILLEGAL_COMMAND + R1_IDLE_STATE = 5 := rfl
  simp only [card_command_eq, CMD8, e255, transfer_bytes_eq, bind_assoc, h45]
  congr 1
  funext r
  by_cases h5 : r = 5
  · simp only [h5, if_true, pure_bind]
  · rw [if_neg h5, if_neg h5]
    simp only [bind_assoc]
    congr 1
    funext buf
    by_cases ha : FunsSd.rdByte buf 3 = 170
    · have ha' : (buf.getD 3 0).toNat = 0xAA := ha
      simp only [ha, ha', if_true, pure_bind]
    · have ha' : ¬ (buf.getD 3 0).toNat = 0xAA := ha
      rw [if_neg ha, if_neg ha']
      exact hnext

theorem version_loop (n : Nat) :
    FunsSd.acquire_f_loop3 B (n + 1) n = checkVersion B n >>= fun q => pure (q.2, q.1) := by
  induction n with
  | zero =>
    rw [checkVersion]
    exact version_step B 0 none (by rw [delay_zero]; rfl)
  | succ j ih =>
    rw [checkVersion]
    exact version_step B (j + 1) (some (checkVersion B j)) (by rw [delay_succ, bind_assoc, pure_bind, ih, bind_assoc])

theorem ready_step (arg n : Nat) (next : Option (S σ Unit))
    (hnext : (FunsSd.Delay_delay B n (SdErr.TimeoutACommand 41) >>= fun d => FunsSd.acquire_f_loop4 B arg n d) =
      match next with
      | none => S.fail (.TimeoutACommand ACMD41)
      | some m => delayTick B >>= fun _ => m) :
    FunsSd.acquire_f_loop4 B arg (n + 1) n = waitReadyStep B arg next := by
  rw [FunsSd.acquire_f_loop4]
  unfold waitReadyStep
  simp only [card_acmd_eq, ACMD41]
  congr 1
  funext r
  by_cases h0 : r = R1_READY_STATE
  · have h0' : ¬ r ≠ 0 := fun h => h h0
    rw [if_neg h0', if_pos h0]
  · have h0' : r ≠ 0 := h0
    rw [if_pos h0', if_neg h0]
    exact hnext

theorem ready_loop (arg n : Nat) : FunsSd.acquire_f_loop4 B arg (n + 1) n = waitReady B arg n := by
  induction n with
  | zero =>
    rw [waitReady]
    exact ready_step B arg 0 none (by rw [delay_zero]; rfl)
  | succ j ih =>
    rw [waitReady]
    exact ready_step B arg (j + 1) (some (waitReady B arg j)) (by rw [delay_succ, bind_assoc, pure_bind, ih])

theorem and192 : ∀ x : Nat, x < 256 → ((x &&& 192) = 192) = (x / 64 = 3) := by decide +kernel

theorem acquire_f_eq : FunsSd.acquire_f B = acquireBody B := by
  rw [acquireBody_eq]
  unfold FunsSd.acquire_f
  congr 1
  funext st0
  simp only [FunsSd.Delay_new, FunsSd.Delay_new_command, DEFAULT_COMMAND_RETRIES]
  generalize (10000 : Nat) = n
  have e255 : UInt8.ofNat 255 = (0xFF : UInt8) := rfl
  simp only [enter_loop, version_loop, ready_loop, card_command_eq, e255, transfer_bytes_eq, bind_assoc, pure_bind]
  congr 1
  funext _u
  have htail : (checkVersion B n >>= fun a => waitReady B a.snd n >>= fun _ =>
        (if a.fst = CardType.SD2 then
            cardCommand B 58 0 >>= fun _t46 =>
            (if _t46 ≠ 0 then S.fail SdErr.Cmd58Error else pure ()) >>= fun _ =>
            xferEv B (Event.dataIn 4) >>= fun buffer =>
            (if FunsSd.rdByte buffer 0 &&& 192 = 192 then pure CardType.SDHC else pure a.fst) >>= fun card_type =>
            pure card_type
          else pure a.fst) >>= fun card_type =>
        FunsSd.setCardType (some card_type) >>= fun _ => (pure () : S σ Unit)) =
      (checkVersion B n >>= fun __x => waitReady B __x.snd n >>= fun _ =>
        (if __x.fst = CardType.SD2 then
            cardCommand B CMD58 0 >>= fun r =>
            if r ≠ 0 then S.fail SdErr.Cmd58Error
            else xferEv B (Event.dataIn 4) >>= fun buf =>
              if (List.getD buf 0 0).toNat / 64 = 3 then pure CardType.SDHC else pure __x.fst
          else pure __x.fst : S σ CardType) >>= fun ct =>
        setCardType ct) := by
    congr 1; funext a; congr 1; funext _v
    have hset : ∀ ct : CardType, (FunsSd.setCardType (some ct) >>= fun _ => (pure () : S σ Unit)) = setCardType ct := fun _ => rfl
    by_cases hsd : a.fst = CardType.SD2
    · simp only [hsd, if_true, bind_assoc, pure_bind, CMD58, ite_bind, fail_bind, hset]
      congr 1; funext r
      by_cases hr : r ≠ 0
      · rw [if_pos hr, if_pos hr]
      · rw [if_neg hr, if_neg hr]
        congr 1; funext buf
        have hb : (buf.getD 0 0).toNat < 256 := UInt8.toNat_lt _
        have := and192 _ hb
        simp only [rdByte_eq, this]
    · simp only [hsd, if_false, pure_bind, hset]
  by_cases hc : st0.useCrc = true
  · simp only [hc, if_true, bind_assoc, pure_bind, CMD59]
    congr 1; funext r
    by_cases hr : r = 1
    · have h1 : ¬ r ≠ R1_IDLE_STATE := fun h => h hr
      rw [if_neg h1]
      simp only [hr, ne_eq, not_true_eq_false, decide_false, Bool.false_eq_true, if_false, pure_bind]
      exact htail
    · have h1 : r ≠ R1_IDLE_STATE := hr
      rw [if_pos h1]
      simp only [ne_eq, hr, not_false_eq_true, decide_true, if_true, fail_bind]
  · simp only [hc, if_false, pure_bind, Bool.false_eq_true]
    exact htail


end Sdmmc.Lemmas.GenSd
