/-
Volume invariant (C03), layer 3 (API): the call `write`.

Part 1 (namespace `Sdmmc.Lemmas.WriteRefines`): `write_refines_x`, the theorem `write_refines` of
`WriteRefinesCall.lean` with two more conjuncts that the invariant needs and the published statement
does not expose — the number of bytes stored stays below `MAX_FILE_SIZE - currentOffset` (so the new
size is a 32-bit size), and when the file still owns no cluster afterwards (`NotEnoughSpace`) its
`entry.cluster` field is the old one.  Same proof, the two facts threaded through.

Part 2 (namespace `Sdmmc.Lemmas.VolApi`): `write_api`, `write_step_api`.
-/
import Sdmmc.Lemmas.VolApiRO
import Sdmmc.Lemmas.WriteRefinesFrame

namespace Sdmmc.Lemmas.WriteRefines
open Sdmmc.Model Sdmmc.Model.Fat Sdmmc.Spec
open Sdmmc.Lemmas.FBasic hiding NoFault Coherent
open Sdmmc.Lemmas.FatOps hiding BlocksOK Mirror HintOK
open Sdmmc.Lemmas.ChainL Sdmmc.Lemmas.ForestBase Sdmmc.Lemmas.ForestOwns Sdmmc.Lemmas.ReadRefines

/-- `writeRest` on a state whose file slot holds `fc`, when the fixed-up record satisfies the loop
invariant: the outcome of the loop on the part of the buffer below `MAX_FILE_SIZE`, and `DiskFull`
when something was cut off. -/
theorem writeRest_spec_x (i vi : Nat) (A B : List (List Nat)) (sc : Mgr) (fc : FileInfo) (v1 : VolInfo) (cs1 : List Nat)
    (rv : Nat) (data : Bytes) (hfc : sc.files[i]? = some fc)
    (hv : sc.vols.findIdx? (·.rawVolume = rv) = some vi)
    (hinv : WInv i vi A B { sc with files := sc.files.set i (fixup fc) } (fixup fc) v1 cs1) :
    ∃ k r s' f' v' cs', writeRest rv i data sc = (r, s') ∧ k ≤ data.length ∧
      k ≤ Gen.MAX_FILE_SIZE - (fixup fc).currentOffset ∧
      ((r = .ok () ∧ k = data.length) ∨
       (r = .err .DiskFull ∧ k < data.length ∧
         (Full v'.vol s'.dev.disk ∨ Gen.MAX_FILE_SIZE ≤ (fixup fc).currentOffset + k))) ∧
      WInv i vi A B s' f' v' cs' ∧
      WProg i vi { sc with files := sc.files.set i (fixup fc) } s' (fixup fc) f' v1 v' cs1 cs' (data.take k) := by
  generalize hn : min data.length (Gen.MAX_FILE_SIZE - (fixup fc).currentOffset) = n
  have hnle : n ≤ data.length := by omega
  have hlen : (data.take n).length = n := by rw [List.length_take]; omega
  obtain ⟨k, r, s', f', v', cs', hrun, hk, hres, hinv', hprog⟩ :=
    writeLoop_spec i vi A B (n + 1) (data.take n) _ _ _ _ (by omega) hinv
  rw [hlen] at hk hres
  rw [List.take_take, Nat.min_eq_left hk] at hprog
  have hrunEq : writeRest rv i data sc =
      (writeLoop i vi (n + 1) (data.take n) >>= fun _ => if n < data.length then M.fail .DiskFull else pure ())
        { sc with files := sc.files.set i (fixup fc) } := by
    unfold writeRest
    rw [MHoare.bind_ok (MHoare.getVolumeById_ok hv)]
    show (modifyFile i fixup >>= _) sc = _
    have hmod : modifyFile i fixup sc = (.ok (), { sc with files := sc.files.set i (fixup fc) }) := by
      show (Res.ok (), ({ sc with files := sc.files.modify i fixup } : Mgr)) = _
      rw [modify_eq_set _ _ _ _ hfc]
    rw [MHoare.bind_ok hmod, MHoare.bind_ok (MHoare.getFile_ok hinv.file)]
    simp only [hn]
  rcases hres with ⟨hr, hkn⟩ | ⟨hr, hkn, hfull⟩
  · subst hr
    by_cases hcut : n < data.length
    · refine ⟨k, .err .DiskFull, s', f', v', cs', ?_, by omega, by omega, .inr ⟨rfl, by omega, .inr (by omega)⟩, hinv', hprog⟩
      rw [hrunEq, MHoare.bind_ok hrun, if_pos hcut]
      rfl
    · refine ⟨k, .ok (), s', f', v', cs', ?_, by omega, by omega, .inl ⟨rfl, by omega⟩, hinv', hprog⟩
      rw [hrunEq, MHoare.bind_ok hrun, if_neg hcut]
      rfl
  · subst hr
    refine ⟨k, .err .DiskFull, s', f', v', cs', ?_, by omega, by omega, .inr ⟨rfl, by omega, .inl hfull⟩, hinv', hprog⟩
    rw [hrunEq, MHoare.bind_err hrun]


/-- **`write` refines the byte-array model.**  See `Sdmmc.Props.C01Write.write_refines`. -/
theorem write_refines_x (s : Mgr) (h i vi : Nat) (data : Bytes) (f : FileInfo) (v : VolInfo) (cs : List Nat)
    (A B : List (List Nat)) (hs : MOK s)
    (hh : s.files.findIdx? (·.rawFile = h) = some i) (hf : s.files[i]? = some f)
    (hv : s.vols.findIdx? (·.rawVolume = f.rawVolume) = some vi) (hvi : s.vols[vi]? = some v)
    (hmode : f.mode ≠ .ReadOnly) (hg : WFGeom v.vol) (hhint : HintOK v.vol)
    (hok : FileOK v.vol s.dev.disk f cs) (hcur : cs = [] → f.curCluster < 2)
    (hown : Owns v.vol s.dev.disk (withChain A cs B)) :
    ∃ k r s' f' v' cs', Model.write h data s = (r, s') ∧ k ≤ data.length ∧
      ((r = .ok () ∧ k = data.length) ∨
       (r = .err .DiskFull ∧ k < data.length ∧ cs' ≠ [] ∧
         (Full v'.vol s'.dev.disk ∨ Gen.MAX_FILE_SIZE ≤ f.currentOffset + k)) ∨
       (r = .err .NotEnoughSpace ∧ k = 0 ∧ cs' = [] ∧ Full v'.vol s'.dev.disk)) ∧
      s' = { s with dev := s'.dev, cache := s'.cache, files := s.files.set i f', vols := s.vols.set vi v' } ∧
      v' = { v with vol := v'.vol } ∧ SameGeom v.vol v'.vol ∧
      absFile v'.vol s'.dev.disk f' cs' = (absFile v.vol s.dev.disk f cs).write (data.take k) ∧
      FileOK v'.vol s'.dev.disk f' cs' ∧ (cs' = [] → f'.curCluster < 2) ∧ cs <+: cs' ∧
      Owns v'.vol s'.dev.disk (withChain A cs' B) ∧ MOK s' ∧ HintOK v'.vol ∧ WFGeom v'.vol ∧
      Touch v.vol cs' s.dev s'.dev ∧ WriteFile s.clock f f' k ∧
      k ≤ Gen.MAX_FILE_SIZE - f.currentOffset ∧ (cs' = [] → f'.entry.cluster = f.entry.cluster) := by
  obtain ⟨hnf, hcoh, hblk, hunl⟩ := hs
  have hilt : i < s.files.length := (List.getElem?_eq_some_iff.1 hf).1
  have hvilt : vi < s.vols.length := (List.getElem?_eq_some_iff.1 hvi).1
  rw [write_run s h i vi data f hh hf hv hmode]
  generalize hfa : touchFile s.clock f = fa
  have hfa_cl : fa.entry.cluster = f.entry.cluster := by rw [← hfa]; rfl
  have hfa_cur : fa.curCluster = f.curCluster ∧ fa.curClusterOff = f.curClusterOff := by rw [← hfa]; exact ⟨rfl, rfl⟩
  have hfa_off : fa.currentOffset = f.currentOffset := by rw [← hfa]; rfl
  have hfa_size : fa.entry.size = f.entry.size := by rw [← hfa]; rfl
  have hfa_rv : fa.rawVolume = f.rawVolume := by rw [← hfa]; rfl
  -- the common end: from a loop outcome to the statement
  have hfinish : ∀ (sd : Mgr) (fd : FileInfo) (v1 : VolInfo) (cs1 : List Nat) (k : Nat) (r : Res Unit) (s' : Mgr)
      (f' : FileInfo) (v' : VolInfo) (cs' : List Nat),
      WStep i vi s sd fd v1 → cs <+: cs1 → SameGeom v.vol v1.vol → v1 = { v with vol := v1.vol } →
      fileContent v1.vol sd.dev.disk cs1 fd.entry.size = fileContent v.vol s.dev.disk cs f.entry.size →
      fd.currentOffset = f.currentOffset → fd.entry.size = f.entry.size → Touch v.vol cs1 s.dev sd.dev →
      PreFile s.clock f fd → k ≤ data.length → k ≤ Gen.MAX_FILE_SIZE - fd.currentOffset →
      ((r = .ok () ∧ k = data.length) ∨
       (r = .err .DiskFull ∧ k < data.length ∧ (Full v'.vol s'.dev.disk ∨ Gen.MAX_FILE_SIZE ≤ fd.currentOffset + k))) →
      WInv i vi A B s' f' v' cs' → WProg i vi sd s' fd f' v1 v' cs1 cs' (data.take k) →
      k ≤ data.length ∧
      ((r = .ok () ∧ k = data.length) ∨
       (r = .err .DiskFull ∧ k < data.length ∧ cs' ≠ [] ∧
         (Full v'.vol s'.dev.disk ∨ Gen.MAX_FILE_SIZE ≤ f.currentOffset + k)) ∨
       (r = .err .NotEnoughSpace ∧ k = 0 ∧ cs' = [] ∧ Full v'.vol s'.dev.disk)) ∧
      s' = { s with dev := s'.dev, cache := s'.cache, files := s.files.set i f', vols := s.vols.set vi v' } ∧
      v' = { v with vol := v'.vol } ∧ SameGeom v.vol v'.vol ∧
      absFile v'.vol s'.dev.disk f' cs' = (absFile v.vol s.dev.disk f cs).write (data.take k) ∧
      FileOK v'.vol s'.dev.disk f' cs' ∧ (cs' = [] → f'.curCluster < 2) ∧ cs <+: cs' ∧
      Owns v'.vol s'.dev.disk (withChain A cs' B) ∧ MOK s' ∧ HintOK v'.vol ∧ WFGeom v'.vol ∧
      Touch v.vol cs' s.dev s'.dev ∧ WriteFile s.clock f f' k ∧
      k ≤ Gen.MAX_FILE_SIZE - f.currentOffset ∧ (cs' = [] → f'.entry.cluster = f.entry.cluster) := by
    intro sd fd v1 cs1 k r s' f' v' cs' hstep hpre hsg hvid hcont hoff hsize htouch hprefile hk hkmax hres hinv' hprog
    have hsg' : SameGeom v.vol v'.vol := hsg.trans hprog.geom
    have htk : (data.take k).length = k := by rw [List.length_take]; omega
    refine ⟨hk, ?_, (hstep.trans hprog.step).eq, volInfo_vid_trans hvid hprog.vid, hsg', ?_, hinv'.fileOK,
      fun e => absurd e hinv'.ne, hpre.trans hprog.pre, by rw [withChain_ne hinv'.ne]; exact hinv'.owns, hinv'.ok,
      hinv'.hint, hinv'.geom, ?_, ?_, by rw [← hoff]; exact hkmax, fun e => absurd e hinv'.ne⟩
    · rcases hres with h1 | ⟨h1, h2, h3⟩
      · exact .inl h1
      · exact .inr (.inl ⟨h1, h2, hinv'.ne, by rw [← hoff]; exact h3⟩)
    · rw [sameGeom_absFile hsg', byteFile_write_eq]
      show ({ bytes := fileContent v.vol s'.dev.disk cs' f'.entry.size, pos := f'.currentOffset } : ByteFile) =
        { bytes := splice (fileContent v.vol s.dev.disk cs f.entry.size) f.currentOffset (data.take k),
          pos := f.currentOffset + (data.take k).length }
      have hc := hprog.content
      rw [hcont, sameGeom_fileContent hsg, hoff] at hc
      rw [hc, hprog.off, hoff]
    · exact (htouch.mono fun x hx => hprog.pre.mem hx).trans (Touch.sameGeom hsg hprog.touch)
    · have h1 := hprog.off
      have h2 := hprog.size
      rw [htk] at h1 h2
      exact writeFile_of s.clock f fd f' k hprefile hprog.file h1 h2
  by_cases hcl : f.entry.cluster < 2
  · -- an empty file that owns no cluster: the first cluster is allocated
    have hcs : cs = [] ∧ f.entry.size = 0 := by
      rcases hok.chain with ⟨_, h1, h2⟩ | h1
      · exact ⟨h1, h2⟩
      · have := (chain_inRange h1 _ (chain_head_mem h1)).1
        omega
    obtain ⟨hcsnil, hsize0⟩ := hcs
    subst hcsnil
    have hoff0 : f.currentOffset = 0 := by have := hok.pos_le; omega
    rw [withChain_nil] at hown
    have hcurlt := hcur rfl
    generalize hsa : ({ s with files := s.files.set i fa } : Mgr) = sa
    have hsa_vol : sa.vols[vi]? = some v := by rw [← hsa]; exact hvi
    have hfs : fsOf sa v = fsOf s v := by rw [← hsa]; rfl
    have hready : Ready (fsOf s v) := ⟨hnf, hcoh, hblk, hg, hhint⟩
    have hallocM := withVol_run vi (allocCluster none false) sa v hsa_vol
    rw [hfs] at hallocM
    have hcond : f.entry.cluster < Gen.RESERVED_ENTRIES := hcl
    rcases ForestAlloc.alloc_total (fsOf s v) none false hnf hcoh with ⟨c, fs2, ha⟩ | ⟨fs2, ha, hd2, hv2, hn2, hc2⟩
    · -- the allocation succeeded
      obtain ⟨hready2, hown2, hsg, hrc⟩ := owns_insert (fsOf s v) fs2 A B c hready hown ha
      simp only [fsOf_vol] at hsg hrc
      obtain ⟨_, _, _, _, _, hframe⟩ := DirFat.alloc_frame (fsOf s v) fs2 none false c hnf hcoh hblk hg hhint
        (fun q hq => by cases hq) ha
      obtain ⟨sZ, s3, s4, ch⟩ := alloc_chain (fsOf s v) fs2 none false c hnf hcoh ha
      rw [ha] at hallocM
      simp only at hallocM
      generalize hv1def : ({ v with vol := fs2.vol } : VolInfo) = v1 at hallocM
      have hv1vol : v1.vol = fs2.vol := by rw [← hv1def]
      have hsg' : SameGeom v.vol v1.vol := by rw [hv1vol]; exact hsg
      -- the record before the loop
      generalize hfcdef : ({ fa with entry := { fa.entry with cluster := c } } : FileInfo) = fc
      have hfix : fixup fc = { fc with curClusterOff := 0, curCluster := c } := by
        unfold fixup
        have h1 : fc.curCluster < fc.entry.cluster := by
          rw [← hfcdef]; show fa.curCluster < c; rw [hfa_cur.1]; have := hrc.1; omega
        rw [if_pos h1, ← hfcdef]
      generalize hfddef : fixup fc = fd at hfix
      generalize hscdef : ({ sa with dev := fs2.dev, cache := fs2.cache, vols := sa.vols.set vi v1, files := (s.files.set i fa).set i fc } : Mgr) = sc
      have hsc_files : sc.files = s.files.set i fc := by rw [← hscdef, ← hsa]; simp only [List.set_set]
      have hsc_vols : sc.vols = s.vols.set vi v1 := by rw [← hscdef, ← hsa]
      have hfc : sc.files[i]? = some fc := by rw [hsc_files]; exact List.getElem?_set_self hilt
      have hvfind : sc.vols.findIdx? (·.rawVolume = f.rawVolume) = some vi := by
        rw [hsc_vols, findIdx?_set_same _ s.vols vi v v1 hvi (by rw [← hv1def])]; exact hv
      generalize hsddef : ({ sc with files := sc.files.set i fd } : Mgr) = sd
      have hsd_eq : sd = { s with dev := fs2.dev, cache := fs2.cache, files := s.files.set i fd, vols := s.vols.set vi v1 } := by
        rw [← hsddef, hsc_files, List.set_set, ← hscdef, ← hsa]
      have hfd_fields : fd.entry.cluster = c ∧ fd.curCluster = c ∧ fd.curClusterOff = 0 ∧ fd.currentOffset = 0 ∧
          fd.entry.size = 0 := by
        rw [hfix, ← hfcdef]
        exact ⟨rfl, rfl, rfl, by show fa.currentOffset = 0; rw [hfa_off, hoff0], by show fa.entry.size = 0; rw [hfa_size, hsize0]⟩
      obtain ⟨hd_cl, hd_cur, hd_co, hd_off, hd_size⟩ := hfd_fields
      have hchain1 : Chain v1.vol fs2.dev.disk c [c] := by
        have := hown2.1 [c] (List.mem_append_left _ (List.mem_append_right _ (List.mem_singleton.2 rfl)))
        rw [hv1vol]; exact this
      have hinv : WInv i vi A B sd fd v1 [c] := by
        rw [hsd_eq]
        refine ⟨⟨hready2.noFault, hready2.coherent, hready2.blocksOK, hunl⟩, List.getElem?_set_self hilt,
          List.getElem?_set_self hvilt, by rw [hv1vol]; exact hready2.geom, by rw [hv1vol]; exact hready2.hint, ?_,
          by simp, by rw [hv1vol]; exact hown2⟩
        refine ⟨.inr (by rw [hd_cl]; exact hchain1), by rw [hd_size]; exact Nat.zero_le _, by rw [hd_off, hd_size]; exact Nat.le_refl _,
          .inr ⟨0, by simp, by rw [hd_co, Nat.zero_mul], by rw [hd_cur]; rfl⟩⟩
      have hrest := writeRest_spec_x i vi A B sc fc v1 [c] f.rawVolume data hfc hvfind
        (by rw [hfddef, hsddef]; exact hinv)
      rw [hfddef, hsddef] at hrest
      obtain ⟨k, r, s', f', v', cs', hrun, hk, hkmax, hres, hinv', hprog⟩ := hrest
      refine ⟨k, r, s', f', v', cs', ?_, ?_⟩
      · unfold writeTail
        rw [if_pos hcond]
        rw [MHoare.bind_ok hallocM]
        have hmodc : modifyFile i (fun f => { f with entry := { f.entry with cluster := c } })
            { sa with dev := fs2.dev, cache := fs2.cache, vols := sa.vols.set vi v1 } = (.ok (), sc) := by
          show (Res.ok (), _) = _
          congr 1
          rw [← hscdef, ← hsa, ← hfcdef]
          show ({ s with dev := fs2.dev, cache := fs2.cache, vols := s.vols.set vi v1, files := (s.files.set i fa).modify i _ } : Mgr) = _
          rw [modify_eq_set _ _ _ _ (List.getElem?_set_self hilt)]
        rw [MHoare.bind_ok hmodc]
        exact hrun
      · refine hfinish sd fd v1 [c] k r s' f' v' cs' ⟨by rw [hsd_eq]⟩ (List.nil_prefix) hsg' (by rw [← hv1def]) ?_
          (by rw [hd_off, hoff0]) (by rw [hd_size, hsize0]) ?_ ?_ hk hkmax hres hinv' hprog
        · rw [hd_size, hsize0, fileContent_zero, fileContent_zero]
        · have hcE : c < endCluster v.vol := hrc.2
          refine ⟨fun b hb1 _ => ?_, ?_⟩
          · rw [hsd_eq]
            show fs2.dev.disk.get b = s.dev.disk.get b
            exact hframe b (fun hm => hb1 (isFatBlock_of_mem hcE hm)) (fun p hp => by cases hp) (fun hz => by cases hz.1)
          · have hlink : s4 = s3 := ch.link
            refine ⟨fatWriteLog v.vol c (fatPayload sZ c Gen.CLUSTER_END_OF_FILE), ?_, fun w hw => .inl ?_⟩
            · rw [hsd_eq]
              show fs2.dev.wlog = _
              rw [ch.wlog', hlink, ch.wlog3, ch.wlogZ]
              simp only [zeroLog, Bool.false_eq_true, if_false, List.nil_append]
              rfl
            · exact isFatBlock_of_mem hcE (mem_fatWriteLog hw)
        · unfold PreFile
          rw [hfix, ← hfcdef, ← hfa]
          rfl
    · -- the volume is full: `NotEnoughSpace`, nothing written
      rw [ha] at hallocM
      simp only at hallocM
      have hvself : ({ v with vol := fs2.vol } : VolInfo) = v := by rw [hv2]; rfl
      rw [hvself, list_set_self _ _ _ hsa_vol] at hallocM
      have hfull : Full v.vol s.dev.disk := by
        intro c hc hfree
        obtain ⟨c', fs', ha'⟩ := alloc_succeeds_if_free (fsOf s v) none false hnf hcoh hhint ⟨c, hc.1, hc.2, hfree⟩
        rw [ha] at ha'; cases ha'
      have hwl : fs2.dev.wlog = s.dev.wlog := by
        have := (alloc_fails_if_full (fsOf s v) none false hnf hcoh hhint ?_).2
        · rw [ha] at this; exact this
        · intro c h2 hE hfree
          exact hfull c ⟨h2, hE⟩ hfree
      refine ⟨0, .err .NotEnoughSpace, { sa with dev := fs2.dev, cache := fs2.cache }, fa, v, [], ?_, Nat.zero_le _,
        .inr (.inr ⟨rfl, rfl, rfl, by show Full v.vol fs2.dev.disk; rw [hd2]; exact hfull⟩), ?_, rfl, SameGeom.refl _, ?_, ?_,
        fun _ => by rw [hfa_cur.1]; exact hcurlt, List.prefix_refl _, ?_, ⟨hn2, hc2, ?_, ?_⟩, hhint, hg,
        Touch.of_eq (by show fs2.dev.disk = _; rw [hd2]; rfl) hwl, ?_, Nat.zero_le _, fun _ => hfa_cl⟩
      · unfold writeTail
        rw [if_pos hcond]
        rw [MHoare.bind_err hallocM]
      · rw [← hsa]
        show _ = ({ s with dev := fs2.dev, cache := fs2.cache, files := s.files.set i fa, vols := s.vols.set vi v } : Mgr)
        rw [list_set_self _ _ _ hvi]
      · rw [List.take_zero, byteFile_write_eq, splice_nil]
        show ({ bytes := fileContent v.vol fs2.dev.disk [] fa.entry.size, pos := fa.currentOffset } : ByteFile) =
          { bytes := fileContent v.vol s.dev.disk [] f.entry.size, pos := f.currentOffset + 0 }
        rw [hfa_size, hfa_off, hd2]; rfl
      · show FileOK v.vol fs2.dev.disk fa []
        exact ⟨.inl ⟨by rw [hfa_cl]; exact hcl, rfl, by rw [hfa_size]; exact hsize0⟩, by rw [hfa_size, hsize0]; exact Nat.zero_le _,
          by rw [hfa_off, hfa_size]; exact hok.pos_le, .inl rfl⟩
      · rw [withChain_nil]
        show Owns v.vol fs2.dev.disk _
        rw [hd2]; exact hown
      · intro j; show (fs2.dev.disk.get j).length = 512; rw [hd2]; exact hblk j
      · rw [← hsa]; exact hunl
      · unfold WriteFile
        rw [← hfa]
        show touchFile s.clock f = _
        unfold touchFile
        rw [Nat.add_zero, Nat.max_eq_left hok.pos_le]
  · -- the file owns clusters
    have hch : Chain v.vol s.dev.disk f.entry.cluster cs := by
      rcases hok.chain with ⟨h1, _, _⟩ | h1
      · exact absurd h1 hcl
      · exact h1
    have hne : cs ≠ [] := chain_ne_nil hch
    rw [withChain_ne hne] at hown
    have hcond : ¬ f.entry.cluster < Gen.RESERVED_ENTRIES := hcl
    generalize hsa : ({ s with files := s.files.set i fa } : Mgr) = sa
    have hfc : sa.files[i]? = some fa := by rw [← hsa]; exact List.getElem?_set_self hilt
    have hvfind : sa.vols.findIdx? (·.rawVolume = f.rawVolume) = some vi := by rw [← hsa]; exact hv
    generalize hfddef : fixup fa = fd
    have hfd_fields : fd.entry = fa.entry ∧ fd.currentOffset = fa.currentOffset := by
      rw [← hfddef]; unfold fixup; split <;> exact ⟨rfl, rfl⟩
    obtain ⟨hd_entry, hd_off⟩ := hfd_fields
    have hd_cursor : ∃ k, k < cs.length ∧ fd.curClusterOff = k * clusterBytesLen v.vol ∧ cs[k]? = some fd.curCluster := by
      rcases hok.cursor with hnil | ⟨k0, hk0, hk0off, hk0c⟩
      · exact absurd hnil hne
      · rw [← hfddef]
        unfold fixup
        split
        · exact ⟨0, chain_length_pos hch, by show 0 = _; rw [Nat.zero_mul], by
            show cs[0]? = some fa.entry.cluster; rw [hfa_cl]; exact chain_get_zero hch⟩
        · exact ⟨k0, hk0, by rw [hfa_cur.2]; exact hk0off, by rw [hfa_cur.1]; exact hk0c⟩
    generalize hsddef : ({ sa with files := sa.files.set i fd } : Mgr) = sd
    have hsd_eq : sd = { s with files := s.files.set i fd } := by
      rw [← hsddef, ← hsa]
      show ({ s with files := (s.files.set i fa).set i fd } : Mgr) = _
      rw [List.set_set]
    have hinv : WInv i vi A B sd fd v cs := by
      rw [hsd_eq]
      refine ⟨⟨hnf, hcoh, hblk, hunl⟩, List.getElem?_set_self hilt, hvi, hg, hhint, ?_, hne, hown⟩
      refine ⟨.inr (by rw [hd_entry, hfa_cl]; exact hch), by rw [hd_entry, hfa_size]; exact hok.size_fits,
        by rw [hd_off, hd_entry, hfa_off, hfa_size]; exact hok.pos_le, .inr hd_cursor⟩
    have hrest := writeRest_spec_x i vi A B sa fa v cs f.rawVolume data hfc hvfind
      (by rw [hfddef, hsddef]; exact hinv)
    rw [hfddef, hsddef] at hrest
    obtain ⟨k, r, s', f', v', cs', hrun, hk, hkmax, hres, hinv', hprog⟩ := hrest
    refine ⟨k, r, s', f', v', cs', ?_, ?_⟩
    · unfold writeTail
      rw [if_neg hcond]
      exact hrun
    · refine hfinish sd fd v cs k r s' f' v' cs' ⟨?_⟩ (List.prefix_refl _) (SameGeom.refl _) rfl ?_
        (by rw [hd_off, hfa_off]) (by rw [hd_entry, hfa_size]) (Touch.of_eq (by rw [hsd_eq]) (by rw [hsd_eq])) ?_ hk hkmax hres hinv' hprog
      · rw [hsd_eq]
        show _ = ({ s with files := s.files.set i fd, vols := s.vols.set vi v } : Mgr)
        rw [list_set_self _ _ _ hvi]
      · rw [hsd_eq, hd_entry, hfa_size]
      · unfold PreFile
        rw [← hfddef, ← hfa]
        unfold fixup
        split <;> rfl


end Sdmmc.Lemmas.WriteRefines

/-! ## Part 2: the invariant -/

namespace Sdmmc.Lemmas.VolApi
open Sdmmc.Model Sdmmc.Model.Fat Sdmmc.Spec.Volume Sdmmc.Lemmas.VolBase Sdmmc.Lemmas.VolTree
open Sdmmc.Spec hiding NoFault Coherent
open Sdmmc.Lemmas.VolDisk Sdmmc.Lemmas.VolMed Sdmmc.Lemmas.VolEng
open Sdmmc.Lemmas.FBasic (NoFault Coherent)
open Sdmmc.Lemmas.MHoare

/-! ### Small facts -/

/-- Setting the archive bit keeps an attribute byte of a plain file one. -/
theorem setArchive_ok {a : Nat} (h1 : a < 256) (h2 : a % 16 ≠ 15) (h3 : a / 16 % 2 = 0) :
    Attr.setArchive a < 256 ∧ Attr.setArchive a % 16 ≠ 15 ∧ Attr.setArchive a / 16 % 2 = 0 := by
  unfold Attr.setArchive
  have : Gen.ATTR_ARCHIVE = 32 := rfl
  rw [this]
  split
  · exact ⟨h1, h2, h3⟩
  · refine ⟨by omega, by omega, by omega⟩

theorem bind_pure_state {α β : Type} (m : M α) (b : β) (s : Mgr) :
    ((m >>= fun _ => (pure b : M β)) s).2 = (m s).2 := by
  rw [bind_def]
  rcases m s with ⟨r, s'⟩
  cases r <;> rfl

/-! ### Chains next to the written one -/

theorem mem_withChain {A B : List (List Nat)} {cs Y : List Nat} (h : Y ∈ withChain A cs B) :
    Y ∈ A ++ B ∨ (cs ≠ [] ∧ Y = cs) := by
  unfold withChain at h
  rcases List.mem_append.1 h with h | h
  · rcases List.mem_append.1 h with h | h
    · exact .inl (List.mem_append_left _ h)
    · by_cases hc : cs = []
      · rw [if_pos hc] at h; cases h
      · rw [if_neg hc, List.mem_singleton] at h; exact .inr ⟨hc, h⟩
  · exact .inl (List.mem_append_right _ h)

theorem self_mem_withChain {A B : List (List Nat)} {cs : List Nat} (h : cs ≠ []) : cs ∈ withChain A cs B := by
  rw [WriteRefines.withChain_ne h]
  exact List.mem_append_left _ (List.mem_append_right _ (List.mem_singleton.2 rfl))

/-- A chain of `withChain A cs B` whose first cluster is not that of `cs` is one of `A ++ B`. -/
theorem mem_rest {A B : List (List Nat)} {cs Y : List Nat} {c c0 : Nat} (hY : Y ∈ withChain A cs B)
    (hcs : cs ≠ [] → cs.head? = some c0) (hYh : Y.head? = some c) (hne : c ≠ c0) : Y ∈ A ++ B := by
  rcases mem_withChain hY with h | ⟨h1, h2⟩
  · exact h
  · exfalso
    have := hcs h1
    rw [← h2, hYh] at this
    exact hne (Option.some.inj this)

section
variable {ft : FatType} {cb : Nat} {root : List Nat} {G : List (List Nat)} {dirs : List (Nat × Nat)}
  {slots : Nat → List Slot} {files : List FileInfo}

/-- An open file whose first cluster names no chain has no first cluster. -/
theorem cluster_zero_of_nil (hT : TreeOK ft cb root G dirs slots files) (hG : HeadsOK G) {f : FileInfo} (hf : f ∈ files)
    (hnil : chainOf G f.entry.cluster = []) : f.entry.cluster = 0 := by
  by_contra hne
  obtain ⟨h, hh, A, o, B, hO, _, hod, _, _, hp⟩ := file_object hT hf
  have ho : o ∈ objects h (slots h) := by rw [hO]; simp
  have := fileRef_mem_heads hT hh ho hod (by rw [effCluster_of_pend hp]; exact hne)
  rw [effCluster_of_pend hp] at this
  exact (chainOf_ne_nil_iff hG).2 this hnil

/-- The first cluster of an open file is not the first cluster of a directory. -/
theorem file_cluster_not_dir (hT : TreeOK ft cb root G dirs slots files) (hG : HeadsOK G) {f : FileInfo} (hf : f ∈ files)
    (hne : f.entry.cluster ≠ 0) : f.entry.cluster ∉ root ∧ f.entry.cluster ∉ dirs.map Prod.fst := by
  obtain ⟨h, hh, A, o, B, hO, _, hod, _, _, hp⟩ := file_object hT hf
  have ho : o ∈ objects h (slots h) := by rw [hO]; simp
  have := fileRef_not_dir hT hG hh ho hod (by rw [effCluster_of_pend hp]; exact hne)
  rw [effCluster_of_pend hp] at this
  exact this

/-- Two open files at different slots name different chains. -/
theorem files_cluster_ne (hT : TreeOK ft cb root G dirs slots files) (hG : HeadsOK G) {f g : FileInfo} (hf : f ∈ files)
    (hg : g ∈ files) (hk : fkey g ≠ fkey f) (hc : g.entry.cluster ≠ 0) : g.entry.cluster ≠ f.entry.cluster := by
  obtain ⟨h, hh, A, o, B, hO, hpo, hod, _, _, hp⟩ := file_object hT hf
  obtain ⟨h2, hh2, A2, o2, B2, hO2, hpo2, hod2, _, _, hp2⟩ := file_object hT hg
  have ho2 : o2 ∈ objects h2 (slots h2) := by rw [hO2]; simp
  have := eff_ne_of_split hT hG hh hO hod h2 hh2 o2 ho2 ?_ hod2 (by rw [effCluster_of_pend hp2]; exact hc)
  · rw [effCluster_of_pend hp2, effCluster_of_pend hp] at this
    exact this
  · intro e
    subst e
    rw [hO] at ho2
    simp only [List.mem_append, List.mem_singleton] at ho2 ⊢
    rcases ho2 with (h1 | h1) | h1
    · exact .inl h1
    · exfalso
      rw [h1] at hpo2
      exact hk (hpo2.symm.trans hpo)
    · exact .inr h1

end

/-- The members of a table with one record replaced: the new record, or an old one at another slot. -/
theorem mem_set_cases {files : List FileInfo} (hnd : (files.map fkey).Nodup) {i : Nat} {f f' g : FileInfo}
    (hi : files[i]? = some f) (hg : g ∈ files.set i f') : g = f' ∨ (g ∈ files ∧ fkey g ≠ fkey f) := by
  obtain ⟨j, hj⟩ := List.mem_iff_getElem?.1 hg
  rw [List.getElem?_set] at hj
  by_cases hij : i = j
  · rw [if_pos hij] at hj
    split at hj
    · exact .inl (Option.some.inj hj).symm
    · cases hj
  · rw [if_neg hij] at hj
    refine .inr ⟨List.mem_of_getElem? hj, ?_⟩
    intro hge
    have hkj : (files.map fkey)[j]? = some (fkey g) := by rw [List.getElem?_map, hj]; rfl
    have hki : (files.map fkey)[i]? = some (fkey f) := by rw [List.getElem?_map, hi]; rfl
    have hlj := (List.getElem?_eq_some_iff.1 hkj).1
    have hli := (List.getElem?_eq_some_iff.1 hki).1
    have := (List.Nodup.getElem_inj_iff hnd (hi := hlj) (hj := hli)).1
      (by rw [(List.getElem?_eq_some_iff.1 hkj).2, (List.getElem?_eq_some_iff.1 hki).2, hge])
    exact hij this.symm

/-- The first cluster of a directory other than the FAT16 root is the FAT32 root or a sub-directory. -/
theorem dirHead_cases' {v : FatVolume} {dirs : List (Nat × Nat)} {h : Nat} (hh : h ∈ dirIds dirs) (hf : ¬ isFixedRoot v h) :
    dirHead v h ∈ rootHead v ∨ dirHead v h ∈ dirs.map Prod.fst := by
  unfold dirHead
  by_cases h0 : h = 0
  · rw [if_pos h0]
    have h32 : v.fatType = .fat32 := by
      cases hft : v.fatType with
      | fat16 => exact absurd ⟨h0, hft⟩ hf
      | fat32 => rfl
    left; unfold rootHead; rw [h32]; exact List.mem_singleton.2 rfl
  · rw [if_neg h0]
    rcases mem_dirIds.1 hh with h0' | ⟨p, hp⟩
    · exact absurd h0' h0
    · exact .inr (List.mem_map.2 ⟨(h, p), hp, rfl⟩)

/-! ### `write` on a writable file -/

theorem write_core {s : Mgr} {gh : Ghost} (hI : VolInv s gh) {file i : Nat} {f : FileInfo}
    (hidx : s.files.findIdx? (·.rawFile = file) = some i) (hf : s.files[i]? = some f) (hmode : f.mode ≠ .ReadOnly)
    (data : Bytes) : ∃ gh', VolInv (Model.write file data s).2 gh' ∧ SameGeom gh.vol gh'.vol := by
  have hfm : f ∈ s.files := List.mem_of_getElem? hf
  obtain ⟨vi, hv, hvol, hrv, _⟩ := vol_of_file hI hfm
  have hvfind : s.vols.findIdx? (·.rawVolume = f.rawVolume) = some 0 := by rw [hv]; simp [hrv]
  have hvi : s.vols[0]? = some vi := by rw [hv]; rfl
  have hM := medX_of_med hI.med
  have hG : HeadsOK gh.G := med_heads hM
  have hT := hI.med.tree
  obtain ⟨hok, hcur⟩ := hI.med.fileOK f hfm
  generalize hcsdef : chainOf gh.G f.entry.cluster = cs at hok hcur
  -- the chain list, split around the chain of the file
  have hhead : cs ≠ [] → cs ∈ gh.G ∧ cs.head? = some f.entry.cluster := by
    intro hne
    rw [← hcsdef] at hne ⊢
    exact chainOf_spec hG ((chainOf_ne_nil_iff hG).1 hne)
  obtain ⟨A, B, hGeq⟩ : ∃ A B, gh.G = withChain A cs B := by
    by_cases hne : cs = []
    · exact ⟨[], gh.G, by rw [hne, WriteRefines.withChain_nil]; rfl⟩
    · obtain ⟨A, B, h⟩ := List.append_of_mem (hhead hne).1
      exact ⟨A, B, by rw [WriteRefines.withChain_ne hne, h]; simp⟩
  have hmok : WriteRefines.MOK s := by
    show _ ∧ _ ∧ _ ∧ _
    exact ⟨hI.noFault, hI.coherent, hI.med.blocksOK, hI.unlocked⟩
  obtain ⟨k, r, s', f', v', cs', hrun, hk, hres, heq, hvid, hsg, habs, hok', hcur', hpre, hown', hs', hhint', hg', htouch,
      hwf, hkmax, hclkeep⟩ :=
    WriteRefines.write_refines_x s file i 0 data f vi cs A B hmok hidx hf hvfind hvi hmode (by rw [hvol]; exact hI.med.geom)
      (by rw [hvol]; exact hI.med.hint) (by rw [hvol]; exact hok) hcur (by rw [hvol, ← hGeq]; exact hI.med.owns)
  rw [hvol] at hsg htouch
  obtain ⟨hnf', hcoh', hblk', hunl'⟩ := hs'
  rw [hrun]
  show ∃ gh', VolInv s' gh' ∧ SameGeom gh.vol gh'.vol
  -- the record
  unfold WriteRefines.WriteFile at hwf
  have e_key : fkey f' = fkey f := by rw [hwf]
  have e_name : f'.entry.name = f.entry.name := by rw [hwf]
  have e_attr : f'.entry.attributes = Attr.setArchive f.entry.attributes := by rw [hwf]
  have e_size : f'.entry.size = max f.entry.size (f.currentOffset + k) := by rw [hwf]
  have e_dirty : f'.dirty = true := by rw [hwf]
  have e_rv : f'.rawVolume = f.rawVolume := by rw [hwf]
  have hcs'r : ∀ x, x ∈ cs' → InRange gh.vol x := fun x hx => (hsg.inRange x).1 (WriteRefines.fileOK_inRange hok' x hx)
  have hG' : HeadsOK (withChain A cs' B) := heads_of_owns hown'
  -- the chain of the file, before and after
  have hcl0 : cs = [] → f.entry.cluster = 0 := fun e => cluster_zero_of_nil hT hG hfm (by rw [hcsdef]; exact e)
  have hhead' : cs' ≠ [] → cs'.head? = some f'.entry.cluster ∧ 2 ≤ f'.entry.cluster := by
    intro hne
    rcases hok'.chain with ⟨_, h2, _⟩ | hch
    · exact absurd h2 hne
    · have h1 := ForestBase.chain_head_eq hch
      refine ⟨by rw [head?_of_ne hne, h1], ?_⟩
      have := hG'.ge cs' (self_mem_withChain hne)
      rwa [h1] at this
  have hcs'nil : cs' = [] → cs = [] ∧ f'.entry.cluster = 0 := by
    intro e
    have h1 : cs = [] := by rw [e] at hpre; exact List.prefix_nil.1 hpre
    exact ⟨h1, by rw [hclkeep e]; exact hcl0 h1⟩
  have hsame : cs ≠ [] → cs' ≠ [] ∧ f'.entry.cluster = f.entry.cluster := by
    intro hne
    have hne' : cs' ≠ [] := fun e => hne (hcs'nil e).1
    refine ⟨hne', ?_⟩
    obtain ⟨t, ht⟩ := hpre
    have h1 := (hhead hne).2
    have h2 := (hhead' hne').1
    rw [← ht, List.head?_append_of_ne_nil _ hne, h1] at h2
    exact (Option.some.inj h2).symm
  have hch' : chainOf (withChain A cs' B) f'.entry.cluster = cs' := by
    by_cases hne : cs' = []
    · rw [(hcs'nil hne).2, chainOf_lt_two (h := 0) hG' (by decide)]; exact hne.symm
    · exact chainOf_of_mem hG' (self_mem_withChain hne) (hhead' hne).1
  -- every other chain is still there
  have hrest : ∀ Y c, Y ∈ gh.G → Y.head? = some c → c ≠ f.entry.cluster →
      Y ∈ A ++ B ∧ chainOf (withChain A cs' B) c = Y := by
    intro Y c hY hYh hne
    have hm : Y ∈ A ++ B := mem_rest (by rw [← hGeq]; exact hY) (fun h => (hhead h).2) hYh hne
    exact ⟨hm, chainOf_of_mem hG' (WriteRefines.mem_withChain_of_mem cs' hm) hYh⟩
  -- the directories
  have hdirne : ∀ h, h ∈ dirIds gh.dirs → ¬ isFixedRoot gh.vol h → dirHead gh.vol h ≠ f.entry.cluster := by
    intro h hh hfx e
    have h2 : 2 ≤ dirHead gh.vol h := by
      obtain ⟨Y, hY, hYe⟩ := List.mem_map.1 (dirHead_mem hM hh hfx)
      have := hG.ge Y hY
      rw [hYe] at this; exact this
    obtain ⟨n1, n2⟩ := file_cluster_not_dir hT hG hfm (by omega)
    rcases dirHead_cases' (dirs := gh.dirs) hh hfx with h1 | h1
    · exact n1 (e ▸ h1)
    · exact n2 (e ▸ h1)
  have hdir : ∀ h, h ∈ dirIds gh.dirs → ¬ isFixedRoot gh.vol h →
      chainOf (withChain A cs' B) (dirHead gh.vol h) = chainOf gh.G (dirHead gh.vol h) := by
    intro h hh hfx
    obtain ⟨hm, hhd⟩ := dirChain_spec hM hh hfx
    exact (hrest _ _ hm hhd (hdirne h hh hfx)).2
  have hblocks : ∀ h, h ∈ dirIds gh.dirs → ∀ sl, sl ∈ dirSlots gh.vol s.dev.disk gh.G h →
      s'.dev.disk.get sl.1 = s.dev.disk.get sl.1 := by
    intro h hh sl hsl
    apply htouch.disk
    · intro hfat
      have := WriteRefines.isFatBlock_region hI.med.geom hfat
      rcases dirSlot_not_fat hM hh hsl with h1 | h1 <;> rw [this] at h1 <;> cases h1
    · intro hcb
      have hreg := WriteRefines.isClusterBlock_region hI.med.geom hcs'r hcb
      by_cases hfx : isFixedRoot gh.vol h
      · rw [dirSlots_fixed hfx] at hsl
        have := fixedRootSlots_region hI.med.geom hfx.2 hsl
        rw [hreg] at this; cases this
      · rw [dirSlots_chain hfx] at hsl
        obtain ⟨hm, hhd⟩ := dirChain_spec hM hh hfx
        obtain ⟨c, hc, hrunS⟩ := mem_chainSlots.1 hsl
        obtain ⟨j, q, hj, _, rfl⟩ := mem_runSlots.1 hrunS
        have hmAB := (hrest _ _ hm hhd (hdirne h hh hfx)).1
        exact WriteRefines.clusterBlock_not_of_not_mem hI.med.geom hcs'r (med_inRange hM hm hc) hj
          (WriteRefines.withChain_disjoint hown' hmAB c hc) hcb
  -- the tree
  have hattr : AttrsOK f' := by
    obtain ⟨a1, a2, a3, a4⟩ := hT.fileAttrs f hfm
    obtain ⟨b1, b2, b3⟩ := setArchive_ok a1 a2 a3
    unfold AttrsOK
    rw [e_attr, e_size]
    refine ⟨b1, b2, b3, ?_⟩
    have := hok.pos_le
    omega
  have htree : TreeOK gh.vol.fatType (clusterBytesLen gh.vol) (rootHead gh.vol) (withChain A cs' B) gh.dirs
      (dirSlots gh.vol s.dev.disk gh.G) (s.files.set i f') := by
    apply tree_file_set hT hG (objPos_nodup hM) hf e_key e_name hattr
    · intro hd; rw [e_dirty] at hd; cases hd
    · intro c hc hne
      obtain ⟨hm, hhd⟩ := chainOf_spec hG hc
      rw [(hrest _ _ hm hhd hne).2]; exact Nat.le_refl _
    · intro a
      by_cases hne : cs = []
      · by_cases hne' : cs' = []
        · rw [(hcs'nil hne').2, hcl0 hne, hGeq, hne, hne']
        · have hc' := hhead' hne'
          have hf'0 : f'.entry.cluster ≠ 0 := by omega
          rw [if_pos hf'0, hcl0 hne, hGeq, hne, WriteRefines.withChain_nil, WriteRefines.withChain_ne hne']
          simp only [heads, List.map_append, List.count_append, List.map_cons, List.map_nil, List.append_nil,
            headD_of_head? hc'.1, List.count_nil, ne_eq, not_true_eq_false, if_false]
          omega
      · obtain ⟨hne', hcl⟩ := hsame hne
        have : heads (withChain A cs' B) = heads gh.G := by
          rw [hGeq, WriteRefines.withChain_ne hne, WriteRefines.withChain_ne hne']
          simp only [heads, List.map_append, List.map_cons, List.map_nil]
          rw [headD_of_head? (hhead' hne').1, headD_of_head? (hhead hne).2, hcl]
        rw [hcl, this]
    · by_cases hne' : cs' = []
      · left
        refine ⟨(hcs'nil hne').2, ?_⟩
        rcases hok'.chain with ⟨_, _, h3⟩ | hch
        · exact h3
        · exact absurd hne' (ChainL.chain_ne_nil hch)
      · right
        refine ⟨by have := (hhead' hne').2; omega, ?_⟩
        rw [hch', ← WriteRefines.sameGeom_clusterBytesLen hsg]
        exact hok'.size_fits
  -- the open files
  have hfilesOK : ∀ g, g ∈ s.files.set i f' →
      FileOK v'.vol s'.dev.disk g (chainOf (withChain A cs' B) g.entry.cluster) ∧
      (chainOf (withChain A cs' B) g.entry.cluster = [] → g.curCluster < 2) := by
    intro g hg
    rcases mem_set_cases hT.filesDistinct hf hg with hgeq | ⟨hgm, hgk⟩
    · rw [hgeq, hch']; exact ⟨hok', hcur'⟩
    · obtain ⟨hokg, hcurg⟩ := hI.med.fileOK g hgm
      by_cases hgn : chainOf gh.G g.entry.cluster = []
      · have hg0 := cluster_zero_of_nil hT hG hgm hgn
        have h1 : chainOf (withChain A cs' B) g.entry.cluster = [] := chainOf_lt_two hG' (by omega)
        rw [h1]; rw [hgn] at hokg
        exact ⟨fileOK_of_owns hsg hokg hown' (.inl rfl), fun _ => hcurg hgn⟩
      · obtain ⟨hm, hhd⟩ := chainOf_spec hG ((chainOf_ne_nil_iff hG).1 hgn)
        have hg0 : g.entry.cluster ≠ 0 := by
          intro e; exact hgn (chainOf_lt_two hG (by omega))
        obtain ⟨hmAB, hce⟩ := hrest _ _ hm hhd (files_cluster_ne hT hG hfm hgm hgk hg0)
        rw [hce]
        exact ⟨fileOK_of_owns hsg hokg hown' (.inr (WriteRefines.mem_withChain_of_mem cs' hmAB)), fun e => absurd e hgn⟩
  have hMX := medX_fat_update (X' := []) (G' := withChain A cs' B) hM hsg hhint' hblk'
    (by rw [List.append_nil]; exact hown') hdir hblocks rfl htree hfilesOK
  -- the tables
  have hfiles' : s'.files = s.files.set i f' := congrArg Mgr.files heq
  have hvols' : s'.vols = [v'] := by
    have : s'.vols = s.vols.set 0 v' := congrArg Mgr.vols heq
    rw [this, hv]; rfl
  refine ⟨{ vol := v'.vol, G := withChain A cs' B, dirs := gh.dirs },
    ⟨hnf', hcoh', hunl', ?_, .inr ⟨v', hvols', rfl⟩, ?_, ?_, ?_⟩, hsg⟩
  · have : s'.maxVols = s.maxVols := by rw [heq]
    rw [this]; exact hI.maxVols
  · rw [hfiles']; exact med_of_medX hMX
  · intro g hg
    rw [hfiles'] at hg
    refine ⟨v', hvols', ?_⟩
    have hv'rv : v'.rawVolume = vi.rawVolume := by rw [hvid]
    rw [hv'rv]
    rcases List.mem_or_eq_of_mem_set hg with hg | hg
    · obtain ⟨vi2, hv2, he2⟩ := hI.fileVols g hg
      rw [hv] at hv2; cases hv2; exact he2
    · rw [hg, e_rv]; exact hrv
  · intro di hdi
    have : s'.dirs = s.dirs := by rw [heq]
    rw [this] at hdi; exact hI.openDirs di hdi

/-- **`write`** keeps the volume invariant, whatever it answers: an unknown handle and a read-only file
change nothing; otherwise the chain of the file may have grown (or been created), its record carries the
new size / first cluster (not yet on the medium: `dirty`), every directory and every other chain is as
before. -/
theorem write_api {s : Mgr} {gh : Ghost} (hI : VolInv s gh) (file : Nat) (data : Bytes) :
    ∃ gh', VolInv (Model.write file data s).2 gh' ∧ SameGeom gh.vol gh'.vol := by
  cases hidx : s.files.findIdx? (·.rawFile = file) with
  | none =>
    have : Model.write file data s = (.err .BadHandle, s) := by
      unfold Model.write
      rw [bind_err (getFileById_bad hidx)]
    rw [this]; exact ⟨gh, hI, SameGeom.refl _⟩
  | some i =>
    obtain ⟨f, hf, _⟩ := findIdx?_some_get hidx
    by_cases hmode : f.mode = .ReadOnly
    · obtain ⟨vi, hv, _, hrv, _⟩ := vol_of_file hI (List.mem_of_getElem? hf)
      have hvfind : s.vols.findIdx? (·.rawVolume = f.rawVolume) = some 0 := by rw [hv]; simp [hrv]
      rw [WriteRefines.write_readOnly s file i 0 data f hidx hf hvfind hmode]
      exact ⟨gh, hI, SameGeom.refl _⟩
    · exact write_core hI hidx hf hmode data

/-- The same through the transition function `step`. -/
theorem write_step_api {s : Mgr} {gh : Ghost} (hI : VolInv s gh) (file : Nat) (data : Bytes) :
    ∃ gh', VolInv (step s (.write file data)).1 gh' ∧ SameGeom gh.vol gh'.vol := by
  rw [step_unlocked s _ hI.unlocked]
  show ∃ gh', VolInv ((Model.write file data >>= fun _ => pure Payload.unit) (resetLogs s)).2 gh' ∧ SameGeom gh.vol gh'.vol
  rw [bind_pure_state]
  exact write_api (volInv_resetLogs hI) file data

end Sdmmc.Lemmas.VolApi
