/-
C10 over whole API calls, STRENGTHENED (`Props/C10InvX.lean`): the crash-point predicate `CIX` — crash-consistent, the
lost clusters forming chains (`Owns (gh.G ++ X)`), file entries without a cluster empty (`EmptyNoCluster`) — i.e.
`CrashInvX` of `Spec/VolumeResidue.lean` up to block lengths, for SOME ghost and SOME lost chains; and the clause the
invariant of API histories needs for it, `RawEmptyOK`: the on-disk slot of every open file stores size 0 when it names
no cluster (`RawOKX` = `RawOK` ∧ `RawEmptyOK`).

This file restates `VolCrashBase.lean` / the first half of `VolCrashStep.lean` for `CIX`:
* `emptyNoCluster_of_medX`, `cix_of_medX` — **the bridge**: a state of the invariant of C03 (open files, lost chains
  `X`) with `RawOKX` is `CIX`; the crash ghost keeps the chains the raw medium references, the others are lost chains;
* `cix_of_record` — the interior lemma, from an EXACT record `R` (`Owns v d R`) of the crashed medium;
* `cix_view`, `CIX.sameGeom`, `CIX.ci`, `CIX.crashInvX`;
* `rawE_*` / `rawOKX_*` — `RawEmptyOK` / `RawOKX` across changes of the medium and of the table of open files.
-/
import Sdmmc.Spec.VolumeCrashX
import Sdmmc.Lemmas.VolCrashApi

namespace Sdmmc.Lemmas.VolCrashX
open Sdmmc.Model Sdmmc.Model.Fat Sdmmc.Spec.Volume
open Sdmmc.Spec hiding NoFault Coherent run step
open Sdmmc.Lemmas.VolBase Sdmmc.Lemmas.VolTree Sdmmc.Lemmas.VolMed Sdmmc.Lemmas.VolDisk
open Sdmmc.Lemmas.CrashBase Sdmmc.Lemmas.VolCrash

/-! ### Vocabulary -/

/-- `RawOK` together with `RawEmptyOK`. -/
structure RawOKX (ft : FatType) (d : Disk) (files : List FileInfo) : Prop where
  raw : RawOK ft d files
  empty : RawEmptyOK ft d files

/-- The medium is crash-consistent (up to block lengths) for SOME ghost, its lost clusters form chains `X`, and its file
entries without a cluster are empty. -/
def CIX (v : FatVolume) (d : Disk) : Prop :=
  ∃ gh X, CrashCore v d gh ∧ Owns v d (gh.G ++ X) ∧ EmptyNoCluster v.fatType gh.dirs (dirSlots v d gh.G)

theorem CIX.ci {v : FatVolume} {d : Disk} (h : CIX v d) : CI v d := by
  obtain ⟨gh, X, hC, hO, _⟩ := h
  exact ⟨⟨gh, hC⟩, fatOK_of_owns hO⟩

theorem CIX.crashInvX {v : FatVolume} {d : Disk} (h : CIX v d) (hb : BlocksOK d) : ∃ gh X, CrashInvX v d gh X := by
  obtain ⟨gh, X, hC, hO, hE⟩ := h
  exact ⟨gh, X, crashInv_iff.2 ⟨hb, hC⟩, hO, hE⟩

theorem filter_perm_append {α : Type} (p : α → Bool) (l : List α) : l.Perm (l.filter p ++ l.filter fun x => !p x) := by
  induction l with
  | nil => exact List.Perm.refl _
  | cons a l ih =>
    by_cases h : p a = true
    · rw [List.filter_cons_of_pos h, List.filter_cons_of_neg (by simp [h])]
      exact List.Perm.cons a ih
    · rw [List.filter_cons_of_neg h, List.filter_cons_of_pos (by simpa using h)]
      exact (List.Perm.cons a ih).trans List.perm_middle.symm

/-! ### `RawEmptyOK` -/

section RawE
variable {ft : FatType} {d d' : Disk} {files files' : List FileInfo}

theorem rawE_blocks (hE : RawEmptyOK ft d files)
    (h : ∀ f, f ∈ files → d'.get f.entry.entryBlock = d.get f.entry.entryBlock) : RawEmptyOK ft d' files := by
  intro f hf
  have : slotAt d' f.entry.entryBlock f.entry.entryOffset = slotAt d f.entry.entryBlock f.entry.entryOffset := by
    unfold slotAt; rw [h f hf]
  rw [this]
  exact hE f hf

theorem rawE_files (hE : RawEmptyOK ft d files)
    (h : ∀ g, g ∈ files' → ∃ f, f ∈ files ∧ g.entry.entryBlock = f.entry.entryBlock ∧
      g.entry.entryOffset = f.entry.entryOffset) : RawEmptyOK ft d files' := by
  intro g hg
  obtain ⟨f, hf, h1, h2⟩ := h g hg
  rw [h1, h2]
  exact hE f hf

theorem rawE_sub (hE : RawEmptyOK ft d files) (h : ∀ g, g ∈ files' → g ∈ files) : RawEmptyOK ft d files' :=
  fun g hg => hE g (h g hg)

theorem rawE_set (hE : RawEmptyOK ft d files) {i : Nat} {f f' : FileInfo} (hi : files[i]? = some f)
    (hb : f'.entry.entryBlock = f.entry.entryBlock) (ho : f'.entry.entryOffset = f.entry.entryOffset) :
    RawEmptyOK ft d (files.set i f') := by
  refine rawE_files hE fun g hg => ?_
  rcases List.mem_or_eq_of_mem_set hg with hg | rfl
  · exact ⟨g, hg, rfl, rfl⟩
  · exact ⟨f, List.mem_of_getElem? hi, hb, ho⟩

theorem rawOKX_blocks (hR : RawOKX ft d files)
    (h : ∀ f, f ∈ files → d'.get f.entry.entryBlock = d.get f.entry.entryBlock) : RawOKX ft d' files :=
  ⟨rawOK_blocks hR.raw h, rawE_blocks hR.empty h⟩

theorem rawOKX_files (hR : RawOKX ft d files)
    (h : ∀ g, g ∈ files' → ∃ f, f ∈ files ∧ g.entry.entryBlock = f.entry.entryBlock ∧
      g.entry.entryOffset = f.entry.entryOffset ∧ g.entry.cluster = f.entry.cluster) : RawOKX ft d files' :=
  ⟨rawOK_files hR.raw h, rawE_files hR.empty fun g hg => by
    obtain ⟨f, hf, h1, h2, _⟩ := h g hg
    exact ⟨f, hf, h1, h2⟩⟩

theorem rawOKX_sub (hR : RawOKX ft d files) (h : ∀ g, g ∈ files' → g ∈ files) : RawOKX ft d files' :=
  ⟨rawOK_sub hR.raw h, rawE_sub hR.empty h⟩

theorem rawOKX_set (hR : RawOKX ft d files) {i : Nat} {f f' : FileInfo} (hi : files[i]? = some f)
    (hb : f'.entry.entryBlock = f.entry.entryBlock) (ho : f'.entry.entryOffset = f.entry.entryOffset)
    (hc : f'.entry.cluster = f.entry.cluster) : RawOKX ft d (files.set i f') :=
  ⟨rawOK_set hR.raw hi hb ho hc, rawE_set hR.empty hi hb ho⟩

theorem rawOKX_nil (ft : FatType) (d : Disk) : RawOKX ft d [] :=
  ⟨fun f hf => absurd hf List.not_mem_nil, fun f hf => absurd hf List.not_mem_nil⟩

end RawE

section Bridge
variable {v : FatVolume} {d : Disk} {files : List FileInfo} {gh : Ghost} {X : List (List Nat)}

theorem rawE_dirBlocks (hM : MedX v d files gh X) (hE : RawEmptyOK v.fatType d files) {d' : Disk}
    (hblk : ∀ h, h ∈ dirIds gh.dirs → ∀ s, s ∈ dirSlots v d gh.G h → d'.get s.1 = d.get s.1) : RawEmptyOK v.fatType d' files := by
  refine rawE_blocks hE fun f hf => ?_
  obtain ⟨h, hh, o, ho, h1, _⟩ := file_dirSlot hM hf
  rw [← h1]
  exact hblk h hh o ho

theorem rawOKX_dirBlocks (hM : MedX v d files gh X) (hR : RawOKX v.fatType d files) {d' : Disk}
    (hblk : ∀ h, h ∈ dirIds gh.dirs → ∀ s, s ∈ dirSlots v d gh.G h → d'.get s.1 = d.get s.1) : RawOKX v.fatType d' files :=
  ⟨rawOK_dirBlocks hM hR.raw hblk, rawE_dirBlocks hM hR.empty hblk⟩

theorem rawOKX_within (hM : MedX v d files gh X) (hR : RawOKX v.fatType d files) {d' : Disk} {t : List Nat}
    {dirty : Nat → Prop} (hW : Within v d d' t dirty) (hd : DirClean v d gh dirty) : RawOKX v.fatType d' files := by
  refine rawOKX_dirBlocks hM hR fun h hh s hs => hW.nonFat s.1 ?_ (hd h hh s hs)
  rcases dirSlot_not_fat hM hh hs with e | e <;> rw [e] <;> decide

/-- `RawEmptyOK` across the rewriting of one slot (cf. `VolCrash.rawOK_edit`). -/
theorem rawE_edit {d' : Disk} {G' : List (List Nat)} (hM : MedX v d files gh X) (hE : RawEmptyOK v.fatType d files)
    {h : Nat} {pre post : List Slot} {old new : Slot}
    (hsp : dirSlots v d gh.G h = pre ++ old :: post) (hsp' : dirSlots v d' G' h = pre ++ new :: post)
    (hpos : new.1 = old.1 ∧ new.2.1 = old.2.1)
    (hother : ∀ x, x ∈ dirIds gh.dirs → x ≠ h → dirSlots v d' G' x = dirSlots v d gh.G x)
    (hf : ∀ f, f ∈ files → f.entry.entryBlock = old.1 → f.entry.entryOffset = old.2.1 →
      sCluster v.fatType new = 0 → sSize new = 0) : RawEmptyOK v.fatType d' files := by
  intro f hfm
  obtain ⟨x, hx, o, ho, h1, h2⟩ := file_dirSlot hM hfm
  have hnew : new ∈ dirSlots v d' G' h := by rw [hsp']; simp
  by_cases hat : f.entry.entryBlock = old.1 ∧ f.entry.entryOffset = old.2.1
  · rw [hat.1, hat.2, ← hpos.1, ← hpos.2, ← slotAt_of_mem hnew]
    exact hf f hfm hat.1 hat.2
  · have ho' : ∃ y, o ∈ dirSlots v d' G' y := by
      by_cases hxh : x = h
      · subst hxh
        rw [hsp] at ho
        rcases List.mem_append.1 ho with hp | hp
        · exact ⟨x, by rw [hsp']; exact List.mem_append_left _ hp⟩
        · rcases List.mem_cons.1 hp with e | hp
          · exact absurd ⟨by rw [← h1, e], by rw [← h2, e]⟩ hat
          · exact ⟨x, by rw [hsp']; exact List.mem_append_right _ (List.mem_cons_of_mem _ hp)⟩
      · exact ⟨x, by rw [hother x hx hxh]; exact ho⟩
    obtain ⟨y, hy⟩ := ho'
    have e1 := slotAt_of_mem hy
    have e2 := slotAt_of_mem ho
    have := hE f hfm
    rw [← h1, ← h2, ← e2] at this
    rw [← h1, ← h2, ← e1]
    exact this

/-- `RawOKX` across the rewriting of one slot: the open file sitting at that slot — if any — is named by the new slot,
and the new slot is empty when it names no cluster. -/
theorem rawOKX_edit {d' : Disk} {G' : List (List Nat)} (hM : MedX v d files gh X) (hR : RawOKX v.fatType d files)
    {h : Nat} {pre post : List Slot} {old new : Slot}
    (hsp : dirSlots v d gh.G h = pre ++ old :: post) (hsp' : dirSlots v d' G' h = pre ++ new :: post)
    (hpos : new.1 = old.1 ∧ new.2.1 = old.2.1)
    (hother : ∀ x, x ∈ dirIds gh.dirs → x ≠ h → dirSlots v d' G' x = dirSlots v d gh.G x)
    (hf : ∀ f, f ∈ files → f.entry.entryBlock = old.1 → f.entry.entryOffset = old.2.1 →
      (sCluster v.fatType new = 0 ∨ sCluster v.fatType new = f.entry.cluster) ∧
      (sCluster v.fatType new = 0 → sSize new = 0)) : RawOKX v.fatType d' files :=
  ⟨rawOK_edit hM hR.raw hsp hsp' hpos hother fun f hfm h1 h2 => (hf f hfm h1 h2).1,
   rawE_edit hM hR.empty hsp hsp' hpos hother fun f hfm h1 h2 => (hf f hfm h1 h2).2⟩

theorem rawE_keep {d' : Disk} {G' : List (List Nat)} (hM : MedX v d files gh X) (hE : RawEmptyOK v.fatType d files)
    (hkeep : ∀ x, x ∈ dirIds gh.dirs → ∀ o, o ∈ dirSlots v d gh.G x → ∃ y, o ∈ dirSlots v d' G' y) :
    RawEmptyOK v.fatType d' files := by
  intro f hfm
  obtain ⟨x, hx, o, ho, h1, h2⟩ := file_dirSlot hM hfm
  obtain ⟨y, hy⟩ := hkeep x hx o ho
  have e1 := slotAt_of_mem hy
  have e2 := slotAt_of_mem ho
  have := hE f hfm
  rw [← h1, ← h2, ← e2] at this
  rw [← h1, ← h2, ← e1]
  exact this

theorem rawOKX_keep {d' : Disk} {G' : List (List Nat)} (hM : MedX v d files gh X) (hR : RawOKX v.fatType d files)
    (hkeep : ∀ x, x ∈ dirIds gh.dirs → ∀ o, o ∈ dirSlots v d gh.G x → ∃ y, o ∈ dirSlots v d' G' y) :
    RawOKX v.fatType d' files :=
  ⟨rawOK_keep hM hR.raw hkeep, rawE_keep hM hR.empty hkeep⟩

/-! ### The bridge -/

/-- **File entries without a cluster are empty** on the medium of a state of the invariant of C03 whose open files
satisfy `RawEmptyOK`: an entry no open file sits at reads as its effective fields do (`TreeOK.sizes`). -/
theorem emptyNoCluster_of_medX (hM : MedX v d files gh X) (hE : RawEmptyOK v.fatType d files) :
    EmptyNoCluster v.fatType gh.dirs (dirSlots v d gh.G) := by
  intro h hh o ho hd hc
  cases hp : pendOf files o with
  | none =>
    have e1 : effCluster v.fatType files o = sCluster v.fatType o := by unfold effCluster; rw [hp]
    have e2 : effSize files o = sSize o := by unfold effSize; rw [hp]
    rcases hM.tree.sizes h hh o ho hd with ⟨_, h2⟩ | ⟨h1, _⟩
    · rw [← e2]; exact h2
    · exact absurd (e1.trans hc) h1
  | some f =>
    obtain ⟨hf, hk⟩ := (pendOf_some_iff hM.tree.filesDistinct o f).1 hp
    have hk' : f.entry.entryBlock = o.1 ∧ f.entry.entryOffset = o.2.1 := Prod.mk.inj hk
    have := hE f hf
    rw [hk'.1, hk'.2, ← slotAt_of_mem (mem_of_mem_objects ho)] at this
    exact this hc

/-- The chains of the record that the raw medium does not reference: lost chains of the crashed medium. -/
def unrefChains (v : FatVolume) (d : Disk) (gh : Ghost) : List (List Nat) :=
  gh.G.filter fun cs => !decide (cs.headD 0 ∈ rawRefs v d gh)

/-- **The bridge.** -/
theorem cix_of_medX (hM : MedX v d files gh X) (hR : RawOKX v.fatType d files) : CIX v d := by
  refine ⟨crashGhost v d gh, unrefChains v d gh ++ X, core_of_medX hM hR.raw, ?_, ?_⟩
  · show Owns v d (rawChains v d gh ++ (unrefChains v d gh ++ X))
    rw [← List.append_assoc]
    exact owns_perm ((filter_perm_append _ gh.G).append_right X) hM.owns
  · show EmptyNoCluster v.fatType gh.dirs (dirSlots v d (rawChains v d gh))
    have := emptyNoCluster_of_medX hM hR.empty
    intro h hh o ho
    rw [dirSlots_rawChains hM hR.raw hh] at ho
    exact this h hh o ho

/-! ### A crashed medium with an exact record -/

/-- **The interior lemma** (cf. `VolCrash.core_of_record`), from an EXACT record `R` of the crashed medium `d`: the crash
ghost keeps the chains of `R` the raw medium `d0` references; the other chains of `R` are the lost chains. -/
theorem cix_of_record {d0 : Disk} (hM : MedX v d0 files gh X) (hR : RawOKX v.fatType d0 files) {R : List (List Nat)}
    (hO : Owns v d R)
    (hrefs : ∀ x, x ∈ rawRefs v d0 gh → x ∈ heads R)
    (hdirs : ∀ h, h ∈ dirIds gh.dirs → ¬ isFixedRoot v h → chainOf gh.G (dirHead v h) ∈ R)
    (hblk : ∀ h, h ∈ dirIds gh.dirs → ∀ s, s ∈ dirSlots v d0 gh.G h → d.get s.1 = d0.get s.1) : CIX v d := by
  have hOL := ownsLoose_of_owns hO
  have hHR := headsOK_of_ownsLoose hOL
  let p : Nat → Bool := fun x => decide (x ∈ rawRefs v d0 gh)
  let G' := R.filter fun cs => p (cs.headD 0)
  have hO' : OwnsLoose v d G' := ownsLoose_sublist hOL List.filter_sublist
  have hslots : ∀ h, h ∈ dirIds gh.dirs → dirSlots v d G' h = dirSlots v d0 gh.G h := by
    intro h hh
    by_cases hf : isFixedRoot v h
    · have := dirSlots_congr (v := v) (d := d0) (G := gh.G) (hblk h hh)
      rw [dirSlots_fixed hf, dirSlots_fixed hf] at this
      rw [dirSlots_fixed hf, dirSlots_fixed hf]
      exact this
    · have hx := dirHead_rawRefs (d := d0) hh hf
      obtain ⟨_, hhd⟩ := dirChain_spec hM hh hf
      have hc : chainOf G' (dirHead v h) = chainOf gh.G (dirHead v h) := by
        rw [chainOf_filter hHR p (hrefs _ hx) (decide_eq_true hx)]
        exact chainOf_of_mem hHR (hdirs h hh hf) hhd
      have := dirSlots_congr (v := v) (d := d0) (G := gh.G) (hblk h hh)
      rw [dirSlots_chain hf, dirSlots_chain hf] at this
      rw [dirSlots_chain hf, dirSlots_chain hf, hc]
      exact this
  have hheads : heads G' = (heads R).filter fun x => p x := by
    show List.map _ (List.filter _ R) = _
    rw [List.filter_map]
    rfl
  have hperm : List.Perm (rawRefs v d0 gh) (heads G') := by
    rw [hheads]
    refine (List.perm_ext_iff_of_nodup (rawRefs_nodup hM hR.raw) (hHR.nodup.filter _)).2 fun a => ?_
    rw [List.mem_filter, decide_eq_true_eq]
    exact ⟨fun h => ⟨hrefs a h, h⟩, fun h => h.2⟩
  have hT := hM.tree
  have hbase : TreeLoose v.fatType (rootHead v) G' gh.dirs (dirSlots v d0 gh.G) :=
    ⟨hT.cleanTail, hT.names, hT.order, hT.dots, hT.subdirs, hT.dirRefs, hperm⟩
  refine ⟨{ vol := v, G := G', dirs := gh.dirs }, R.filter fun cs => !p (cs.headD 0),
    ⟨hM.geom, hO', treeLoose_congr hbase hslots⟩, owns_perm (filter_perm_append _ R) hO, ?_⟩
  have := emptyNoCluster_of_medX hM hR.empty
  intro h hh o ho
  rw [show dirSlots v d G' h = dirSlots v d0 gh.G h from hslots h hh] at ho
  exact this h hh o ho

end Bridge

/-! ### Congruences -/

/-- `Owns` reads FAT copy 1 only. -/
theorem owns_view {v : FatVolume} {d d' : Disk} {L : List (List Nat)} (h : Owns v d L) (hv : View v d d') : Owns v d' L :=
  WriteRefines.owns_of_fat_eq hv.fat h

/-- A directory slot of a crash-consistent medium does not live in the FAT. -/
theorem crashSlot_not_fat {v : FatVolume} {d : Disk} {gh : Ghost} (hC : CrashCore v d gh) {h : Nat} (hh : h ∈ dirIds gh.dirs)
    {s : Slot} (hs : s ∈ dirSlots v d gh.G h) : regionOf v s.1 ≠ .fat := by
  by_cases hf : isFixedRoot v h
  · rw [dirSlots_fixed hf] at hs
    rw [fixedRootSlots_region hC.geom hf.2 hs]; decide
  · rw [dirSlots_chain hf] at hs
    have hx : dirHead v h ∈ heads gh.G := by
      refine hC.tree.allRefs.subset (List.mem_append_left _ ?_)
      unfold dirHead
      by_cases h0 : h = 0
      · rw [if_pos h0]
        have h32 : v.fatType = .fat32 := by
          cases hft : v.fatType with
          | fat16 => exact absurd ⟨h0, hft⟩ hf
          | fat32 => rfl
        refine List.mem_append_left _ ?_
        unfold rootHead; rw [h32]; exact List.mem_singleton.2 rfl
      · rw [if_neg h0]
        rcases mem_dirIds.1 hh with e | ⟨p, hp⟩
        · exact absurd e h0
        · exact List.mem_append_right _ (List.mem_map.2 ⟨(h, p), hp, rfl⟩)
    obtain ⟨hm, _⟩ := chainOf_spec (headsOK_of_ownsLoose hC.owns) hx
    have hch := hC.owns.1 _ hm
    obtain ⟨c, hc, hsc⟩ := List.mem_flatMap.1 (show s ∈ chainSlots v d (chainOf gh.G (dirHead v h)) from hs)
    obtain ⟨j, i, hj, _, rfl⟩ := mem_runSlots.1 hsc
    have hr := ChainL.chain_inRange hch c hc
    rw [FatLens.cluster_blocks_in_data_region v hC.geom c j hr.1 hr.2 hj]
    decide

/-- A medium that looks like a `CIX` one (same FAT copy 1, same blocks outside the FAT). -/
theorem cix_view {v : FatVolume} {d d' : Disk} (h : CIX v d) (hv : View v d d') : CIX v d' := by
  obtain ⟨gh, X, hC, hO, hE⟩ := h
  have hblk : ∀ h, h ∈ dirIds gh.dirs → ∀ s, s ∈ dirSlots v d gh.G h → d'.get s.1 = d.get s.1 :=
    fun h hh s hs => hv.nonFat s.1 (crashSlot_not_fat hC hh hs)
  refine ⟨gh, X, core_congr hC (ownsLoose_view hC.owns hv) hblk, owns_view hO hv, ?_⟩
  intro h hh o ho
  rw [dirSlots_congr (hblk h hh)] at ho
  exact hE h hh o ho

theorem CIX.sameGeom {v v' : FatVolume} {d : Disk} (hs : SameGeom v v') (h : CIX v d) : CIX v' d := by
  obtain ⟨gh, X, hC, hO, hE⟩ := h
  refine ⟨gh, X, core_sameGeom hs hC, WriteRefines.owns_sameGeom hs hO, ?_⟩
  rw [hs.fatType]
  intro h hh o ho
  rw [dirSlots_sameGeom hs] at ho
  exact hE h hh o ho

end Sdmmc.Lemmas.VolCrashX
