/-
Clause 5 of C10 at API level: `VolCrashXRO.lean` restated for `CIXP P` (the calls that write nothing, and `closeVolume`).
-/
import Sdmmc.Lemmas.VolCrashDApi
import Sdmmc.Lemmas.VolCrashXRO

namespace Sdmmc.Lemmas.VolCrashD
open Sdmmc.Lemmas.VolCrash Sdmmc.Lemmas.VolCrashX
open Sdmmc.Model Sdmmc.Model.Fat Sdmmc.Spec.Volume
open Sdmmc.Spec hiding NoFault Coherent run step
open Sdmmc.Lemmas.FBasic
open Sdmmc.Lemmas.VolBase Sdmmc.Lemmas.VolTree Sdmmc.Lemmas.VolMed Sdmmc.Lemmas.VolDisk Sdmmc.Lemmas.VolEng
open Sdmmc.Lemmas.VolApi Sdmmc.Lemmas.CrashBase Sdmmc.Lemmas.CrashMgr Sdmmc.Lemmas.MHoare
open Sdmmc.Lemmas.Fault

/-! ### The relation -/

/-! ### Combinators -/

/-! ### The methods -/

/-! ### The calls -/

/-- C10 for the operations that never write: the one crash point is the medium between two calls, and the open files
afterwards sit where open files sat before and name the same clusters. -/
theorem readonly_callCXP {s : Mgr} {gh : Ghost} (hI : VolInv s gh) (hR : RawOKX gh.vol.fatType s.dev.disk s.files) (hU : ∀ c, isUsed gh.vol s.dev.disk c → P c)
    (op : Op) (h : Sdmmc.Lemmas.Fault.readOnlyOp op = true) : CallCXP P gh.vol s (runOp op s).2 := by
  obtain ⟨hw, hd⟩ := Sdmmc.Lemmas.Fault.runOp_readonly_inv (R := MNoWrite) op h s
  exact callCXP_same hw hd (cixp_start hI hR hU) (VolCrashX.rawOKX_filesKeep hR (VolCrashX.runOp_readonly_keep op h s))

end Sdmmc.Lemmas.VolCrashD
