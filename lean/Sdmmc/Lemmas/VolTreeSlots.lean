/-
Volume invariant (C03), layer 1a: one slot of one directory changes — shared preparations
(`entries_edit`, `cleanTail_edit`, `dots_edit`, `SlotEdit`) and the instance "an existing file entry is
rewritten" (`tree_replace`: flush, truncation of a closed file).
-/
import Sdmmc.Lemmas.VolTreeFiles

namespace Sdmmc.Lemmas.VolTree
open Sdmmc.Model Sdmmc.Model.Fat Sdmmc.Spec Sdmmc.Spec.Volume Sdmmc.Lemmas.VolBase

theorem entries_edit {pre post : List Slot} {old new : Slot} (hpre : ∀ s, s ∈ pre → first s ≠ 0) (hnew : first new ≠ 0)
    (hold : first old = 0 → ∀ t, t ∈ post → first t = 0) :
    entries (pre ++ old :: post) =
      pre.filter keep ++ (if first old ≠ 0 ∧ keep old = true then [old] else []) ++ entries post ∧
    entries (pre ++ new :: post) = pre.filter keep ++ (if keep new = true then [new] else []) ++ entries post := by
  rw [entries_split pre post old hpre, entries_split pre post new hpre, if_neg hnew]
  constructor
  · by_cases h0 : first old = 0
    · rw [if_pos h0, entries_zeros post (hold h0)]
      simp [h0]
    · rw [if_neg h0]
      by_cases hk : keep old = true <;> simp [h0, hk]
  · by_cases hk : keep new = true <;> simp [hk]

theorem cleanTail_edit {pre post : List Slot} {old new : Slot} (hpre : ∀ s, s ∈ pre → first s ≠ 0) (hnew : first new ≠ 0)
    (h : CleanTail (pre ++ old :: post)) : CleanTail (pre ++ new :: post) := by
  rw [cleanTail_split pre post _ hpre] at h ⊢
  rw [if_neg hnew]
  by_cases h0 : first old = 0
  · rw [if_pos h0] at h; exact cleanTail_zeros post h
  · rw [if_neg h0] at h; exact h

theorem dots_edit {ft : FatType} {h p : Nat} {pre post : List Slot} {old new : Slot} (hlen : 2 ≤ pre.length)
    (hd : DotsOK ft h p (pre ++ old :: post)) : DotsOK ft h p (pre ++ new :: post) := by
  obtain ⟨s0, s1, rest, he, h0, h1⟩ := hd
  match pre, hlen with
  | a :: b :: pre', _ =>
    simp only [List.cons_append, List.cons.injEq] at he
    obtain ⟨rfl, rfl, _⟩ := he
    exact ⟨a, b, pre' ++ new :: post, rfl, h0, h1⟩

theorem isDot_keep {ft : FatType} {name : Bytes} {c : Nat} {s : Slot} (h : IsDot ft name c s) (hn : byteAt name 0 = 0x2E)
    : first s ≠ 0 ∧ keep s = true := by
  obtain ⟨h1, _, h3, _⟩ := h
  have hf : first s = 0x2E := by
    unfold first byteAt
    unfold sName at h1
    have : (s.2.2.take 11).getD 0 0 = name.getD 0 0 := by rw [h1]
    rw [← hn]
    unfold byteAt
    rw [← this]
    cases hs : s.2.2 with
    | nil => simp
    | cons a l => simp
  refine ⟨by rw [hf]; decide, ?_⟩
  unfold keep
  rw [hf, h3]; decide

theorem thisDir_first : byteAt Sfn.thisDir 0 = 0x2E := by decide
theorem parentDir_first : byteAt Sfn.parentDir 0 = 0x2E := by decide

/-- In a sub-directory whose slot list splits behind the dot entries, at least two entries precede the split. -/
theorem filter_keep_length {ft : FatType} {h p : Nat} {pre post : List Slot} {x : Slot} (hlen : 2 ≤ pre.length)
    (hd : DotsOK ft h p (pre ++ x :: post)) : 2 ≤ (pre.filter keep).length := by
  obtain ⟨s0, s1, rest, he, h0, h1⟩ := hd
  match pre, hlen with
  | a :: b :: pre', _ =>
    simp only [List.cons_append, List.cons.injEq] at he
    obtain ⟨rfl, rfl, _⟩ := he
    rw [List.filter_cons, if_pos (isDot_keep h0 thisDir_first).2, List.filter_cons, if_pos (isDot_keep h1 parentDir_first).2]
    simp

section
variable {ft : FatType} {cb : Nat} {root : List Nat} {G G' : List (List Nat)} {dirs : List (Nat × Nat)}
  {slots slots' : Nat → List Slot} {files : List FileInfo}

/-- The data of "slot `old` of directory `h` becomes `new`" and what it means for the entry lists. -/
structure SlotEdit (dirs : List (Nat × Nat)) (slots slots' : Nat → List Slot) (h : Nat) (pre post : List Slot)
    (old new : Slot) : Prop where
  mem : h ∈ dirIds dirs
  other : ∀ x, x ∈ dirIds dirs → x ≠ h → slots' x = slots x
  before : slots h = pre ++ old :: post
  after : slots' h = pre ++ new :: post
  pre_nz : ∀ s, s ∈ pre → first s ≠ 0
  pre_len : h ≠ 0 → 2 ≤ pre.length
  new_nz : first new ≠ 0

theorem SlotEdit.objects_eq (hT : TreeOK ft cb root G dirs slots files) {h : Nat} {pre post : List Slot} {old new : Slot}
    (hE : SlotEdit dirs slots slots' h pre post old new) (hold : first old = 0 → ∀ t, t ∈ post → first t = 0) :
    ∃ A, objects h (slots h) = A ++ (if first old ≠ 0 ∧ keep old = true then [old] else []) ++ entries post ∧
      objects h (slots' h) = A ++ (if keep new = true then [new] else []) ++ entries post ∧
      entries (slots h) = pre.filter keep ++ (if first old ≠ 0 ∧ keep old = true then [old] else []) ++ entries post ∧
      entries (slots' h) = pre.filter keep ++ (if keep new = true then [new] else []) ++ entries post := by
  obtain ⟨e1, e2⟩ := entries_edit hE.pre_nz hE.new_nz hold
  rw [← hE.before] at e1
  rw [← hE.after] at e2
  have hA : h ≠ 0 → 2 ≤ (pre.filter keep).length := by
    intro h0
    rcases mem_dirIds.1 hE.mem with h0' | ⟨p, hp⟩
    · exact absurd h0' h0
    · have := hT.dots h p hp
      rw [hE.before] at this
      exact filter_keep_length (hE.pre_len h0) this
  exact ⟨_, objects_split e1 hA, objects_split e2 hA, e1, e2⟩

theorem SlotEdit.cleanTail (hT : TreeOK ft cb root G dirs slots files) {h : Nat} {pre post : List Slot} {old new : Slot}
    (hE : SlotEdit dirs slots slots' h pre post old new) : CleanTail (slots' h) := by
  rw [hE.after]
  have := hT.cleanTail h hE.mem
  rw [hE.before] at this
  exact cleanTail_edit hE.pre_nz hE.new_nz this

theorem SlotEdit.post_zero (hT : TreeOK ft cb root G dirs slots files) {h : Nat} {pre post : List Slot} {old new : Slot}
    (hE : SlotEdit dirs slots slots' h pre post old new) : first old = 0 → ∀ t, t ∈ post → first t = 0 := by
  intro h0
  have := hT.cleanTail h hE.mem
  rw [hE.before, cleanTail_split pre post _ hE.pre_nz, if_pos h0] at this
  exact this

theorem SlotEdit.dots (hT : TreeOK ft cb root G dirs slots files) (hG : HeadsOK G) {h : Nat} {pre post : List Slot} {old new : Slot}
    (hE : SlotEdit dirs slots slots' h pre post old new) : ∀ p, (h, p) ∈ dirs → DotsOK ft h p (slots' h) := by
  intro p hp
  have h0 : h ≠ 0 := by have := dir_ge_two hT hG hp; omega
  have := hT.dots h p hp
  rw [hE.before] at this
  rw [hE.after]
  exact dots_edit (hE.pre_len h0) this

/-- **A file entry is rewritten in place** (same position, same name, still a plain file entry).  The
chains may change along: `hAR` balances the first clusters, `hlen` says the other chains do not
shrink, `hsize` that the rewritten entry fits; an unmodified open file sitting there must agree with
what was written (`hclean`). -/
theorem tree_replace (hT : TreeOK ft cb root G dirs slots files) (hG : HeadsOK G) {h : Nat} {pre post : List Slot}
    {old new : Slot} (hE : SlotEdit dirs slots slots' h pre post old new)
    (hold : first old ≠ 0 ∧ keep old = true) (hod : isDirE old = false)
    (hnew : keep new = true) (hnd : isDirE new = false) (hpos : spos new = spos old) (hname : sName new = sName old)
    (hlen : ∀ c, c ∈ heads G → c ≠ effCluster ft files old → (chainOf G c).length ≤ (chainOf G' c).length)
    (hAR : ∀ a, (fileRefs ft files [new]).count a + (heads G).count a = (fileRefs ft files [old]).count a + (heads G').count a)
    (hsize : SizeOK ft cb G' files new)
    (hclean : ∀ f, pendOf files old = some f → f.dirty = false → sCluster ft new = f.entry.cluster ∧ sSize new = f.entry.size) :
    TreeOK ft cb root G' dirs slots' files := by
  obtain ⟨A, hO, hO', hEn, hEn'⟩ := hE.objects_eq hT (fun h0 => absurd h0 hold.1)
  rw [if_pos hold] at hO hEn
  rw [if_pos hnew] at hO' hEn'
  have hids := dirIds_nodup hT hG
  have := tree_edit (extra := []) (slots' := slots') (files' := files) (G' := G') (A := A) (X := [old]) (Y := [new])
    (B := entries post) hT (by rw [List.append_nil]; exact hids) hE.mem hE.other hO hO' (hE.cleanTail hT) ?_ (hE.dots hT hG)
    (fun c p hcp => by cases hcp) hT.filesDistinct hT.fileAttrs ?_ ?_ ?_ ?_ ?_ ?_
  · rw [List.append_nil] at this; exact this
  · -- names
    have := hT.names h hE.mem
    rw [hEn] at this
    rw [hEn']
    simp only [List.map_append, List.map_cons, List.map_nil] at this ⊢
    rw [hname]; exact this
  · -- fileSlots
    intro f hf
    rw [List.append_nil]
    obtain ⟨x, hx, o, ho, h1, h2, h3, h4, h5⟩ := hT.fileSlots f hf
    by_cases hxh : x = h
    · subst hxh
      rw [hO] at ho
      have hcase : o ∈ A ++ entries post ∨ o = old := by
        simp only [List.mem_append, List.mem_singleton] at ho ⊢
        tauto
      rcases hcase with hm | rfl
      · refine ⟨x, hx, o, ?_, h1, h2, h3, h4, h5⟩
        rw [hO']
        simp only [List.mem_append, List.mem_singleton] at hm ⊢
        tauto
      · obtain ⟨hp1, hp2⟩ := Prod.mk.inj hpos
        refine ⟨x, hx, new, by rw [hO']; simp, hp1.trans h1, hp2.trans h2, hnd, hname.trans h4, ?_⟩
        intro hd
        have hp : pendOf files o = some f :=
          (pendOf_some_iff hT.filesDistinct o f).2 ⟨hf, (Prod.ext h1 h2).symm⟩
        exact hclean f hp hd
    · refine ⟨x, hx, o, ?_, h1, h2, h3, h4, h5⟩
      rw [hE.other x hx hxh]; exact ho
  · -- unaffected objects
    intro x hx o ho hAB hd
    refine ⟨rfl, rfl, fun hc => ?_⟩
    exact hlen _ (fileRef_mem_heads hT hx ho hd hc) (eff_ne_of_split hT hG hE.mem hO hod x hx o ho hAB hd hc)
  · intro o ho hd
    rw [List.mem_singleton] at ho; subst ho
    rw [hnd] at hd; cases hd
  · intro a
    rw [subdirRefs_single, subdirRefs_single, hnd, hod]
    simp
  · intro a
    have := hAR a
    simp only [List.map_nil, List.count_nil, Nat.add_zero]
    exact this
  · intro o ho _
    rw [List.mem_singleton] at ho; subst ho
    exact hsize

end

end Sdmmc.Lemmas.VolTree
