/-
C11, part 4 (FAT level) — the writing primitives under an arbitrary fault schedule.

* erasure (`Agree`) for the device write, the write-backs, `updateFat`, the free-cluster search,
  `allocCluster`, `writeBlockPart`: a run that hit no scheduled fault is the fault-free run;
* `Upd v K d d'`: medium `d'` differs from `d` at most in FAT blocks, and in them at most in the
  entries of the clusters `K`;
* `updateFat_any`, `alloc_any`: whatever fails, one FAT update changes at most the entry it is for,
  and an allocation changes at most the entry of a cluster that was FREE and the entry of the
  predecessor — never a data block, never the entry of any other cluster in use;
* `writeBlockPart_fail`: a block write that does not return `Ok` has not reached the medium.
-/
import Sdmmc.Lemmas.RetryRead

namespace Sdmmc.Lemmas.Retry
open Sdmmc.Model Sdmmc.Model.Fat Sdmmc.Spec Sdmmc.Lemmas.Fault
open Sdmmc.Lemmas.FBasic hiding cacheRead_cases cacheRead_ok_tag NoFault Coherent
open Sdmmc.Lemmas.FatOps hiding BlocksOK Mirror HintOK
open Sdmmc.Lemmas.ChainL Sdmmc.Lemmas.ForestBase

/-! ### Erasure for the writing primitives -/

theorem Agree.cacheModify (f : Block → Block) : Agree (cacheModify f) := .of_nodev fun _ => ⟨rfl, rfl⟩
theorem Agree.blankMut (i : Nat) : Agree (blankMut i) := .of_nodev fun _ => ⟨rfl, rfl⟩
theorem Agree.modifyVol (f : FatVolume → FatVolume) : Agree (F.modifyVol f) := .of_nodev fun _ => ⟨rfl, rfl⟩

theorem Agree.devWrite (idx : Nat) : Agree (devWrite idx) := by
  intro s
  cases hf : s.dev.faults.contains s.dev.calls with
  | true =>
    have h1 : (Model.devWrite idx s).2.dev.failed = s.dev.failed + 1 := by
      unfold Model.devWrite; simp only [hf]; rfl
    rw [h1]
    exact ⟨Nat.le_succ _, fun h => by omega⟩
  | false =>
    have h1 : Model.devWrite idx s = (.ok (), { s with dev := { s.dev with calls := s.dev.calls + 1, disk := s.dev.disk.set idx s.cache.blk, wlog := (idx, s.cache.blk) :: s.dev.wlog } }) := by
      unfold Model.devWrite; simp only [hf]; rfl
    have h2 : Model.devWrite idx (clr s) = (.ok (), { clr s with dev := { (clr s).dev with calls := s.dev.calls + 1, disk := s.dev.disk.set idx s.cache.blk, wlog := (idx, s.cache.blk) :: s.dev.wlog } }) := by
      unfold Model.devWrite
      have : (clr s).dev.faults.contains (clr s).dev.calls = false := rfl
      simp only [this]; rfl
    rw [h1]
    exact ⟨Nat.le_refl _, fun _ => h2⟩

/-- A computation wrapped by `untagIfErr` (what the write-backs are) agrees with its fault-free run as the
computation itself does, provided it answers `Ok` whenever no device call failed. -/
theorem agree_untag {α} {m' : F α} (ha : Agree m') (hok : ∀ s, (m' s).2.dev.failed = s.dev.failed → ∃ a, (m' s).1 = .ok a)
    (s : FS) :
    s.dev.failed ≤ (untagIfErr (m' s)).2.dev.failed ∧
    ((untagIfErr (m' s)).2.dev.failed = s.dev.failed →
      untagIfErr (m' (clr s)) = ((untagIfErr (m' s)).1, clr (untagIfErr (m' s)).2)) := by
  obtain ⟨hle, hag⟩ := ha s
  rw [untagIfErr_dev]
  refine ⟨hle, fun heq => ?_⟩
  obtain ⟨a, hr⟩ := hok s heq
  have h := hag heq
  rcases hm : m' s with ⟨r, s'⟩
  rw [hm] at hr h
  simp only at hr
  subst hr
  rw [h]
  rfl

theorem devWrite_quiet_ok (idx : Nat) (s : FS) (h : (devWrite idx s).2.dev.failed = s.dev.failed) :
    ∃ a, (devWrite idx s).1 = .ok a := by
  rcases Fault.devWrite_result idx s with hr | hr
  · exact ⟨(), hr⟩
  · rw [Fault.devWrite_fail_failed hr] at h; omega

theorem Agree.writeBack : Agree writeBack := by
  intro s
  cases ht : s.cache.tag with
  | none =>
    have h0 : Model.writeBack s = (.panic "write_back with no read", s) := by unfold Model.writeBack; rw [ht]
    have h1 : Model.writeBack (clr s) = (.panic "write_back with no read", clr s) := by
      unfold Model.writeBack; rw [show (clr s).cache.tag = none from ht]
    rw [h0]; exact ⟨Nat.le_refl _, fun _ => h1⟩
  | some idx =>
    rw [Fault.writeBack_tagged ht, Fault.writeBack_tagged (s := clr s) ht]
    exact agree_untag (Agree.devWrite idx) (devWrite_quiet_ok idx) s

theorem wbdup_some (dup idx : Nat) (s : FS) (h : s.cache.tag = some idx) :
    writeBackWithDuplicate dup s = untagIfErr ((devWrite idx >>= fun _ => devWrite dup) s) :=
  Fault.writeBackDup_tagged dup h
theorem wbdup_none (dup : Nat) (s : FS) (h : s.cache.tag = none) :
    writeBackWithDuplicate dup s = (.panic "write_back with no read", s) := Fault.writeBackDup_none dup h

theorem Agree.writeBackWithDuplicate (dup : Nat) : Agree (writeBackWithDuplicate dup) := by
  intro s
  cases ht : s.cache.tag with
  | none =>
    rw [wbdup_none dup s ht, wbdup_none dup (clr s) ht]
    exact ⟨Nat.le_refl _, fun _ => rfl⟩
  | some idx =>
    rw [wbdup_some dup idx s ht, wbdup_some dup idx (clr s) ht]
    refine agree_untag (Agree.bind (Agree.devWrite idx) (fun _ => Agree.devWrite dup)) (fun t hq => ?_) s
    have h1 : t.dev.failed ≤ (Model.devWrite idx t).2.dev.failed := FaultMono.devWrite idx t
    have h2 : (Model.devWrite idx t).2.dev.failed ≤ (Model.devWrite dup (Model.devWrite idx t).2).2.dev.failed :=
      FaultMono.devWrite dup (Model.devWrite idx t).2
    rcases Fault.devWrite_result idx t with hr | hr
    · rcases hd : Model.devWrite idx t with ⟨r, t1⟩
      rw [hd] at hr h1 h2; simp only at hr h1 h2; subst hr
      rw [F.bind_ok hd] at hq ⊢
      exact devWrite_quiet_ok dup t1 (by omega)
    · have hf := Fault.devWrite_fail_failed hr
      rcases hd : Model.devWrite idx t with ⟨r, t1⟩
      rw [hd] at hr hf; simp only at hr hf; subst hr
      rw [F.bind_err hd] at hq
      simp only at hq; omega

macro "wagree_step" : tactic => `(tactic| first
  | with_reducible first
    | exact Agree.cacheModify _
    | exact Agree.blankMut _
    | exact Agree.modifyVol _
    | exact Agree.writeBack
    | exact Agree.writeBackWithDuplicate _
  | agree_step)
macro "wagree_auto" : tactic => `(tactic| repeat wagree_step)

theorem updateFat_agree (c n : Nat) : Agree (updateFat c n) := by
  unfold updateFat; wagree_auto

theorem findNextFreeCluster_agree (fuel cur endC : Nat) : Agree (findNextFreeCluster fuel cur endC) := by
  induction fuel generalizing cur with
  | zero => unfold findNextFreeCluster; wagree_auto
  | succ n ih => unfold findNextFreeCluster; wagree_auto

theorem findNextFree_agree (a b : Nat) : Agree (findNextFree a b) := findNextFreeCluster_agree _ _ _

theorem zeroBlocks_agree (n first : Nat) : Agree (zeroBlocks n first) := by
  induction n generalizing first with
  | zero => unfold zeroBlocks; wagree_auto
  | succ n ih => unfold zeroBlocks; wagree_auto

theorem allocCluster_agree (prev : Option Nat) (zero : Bool) : Agree (allocCluster prev zero) := by
  have := findNextFree_agree
  have := zeroBlocks_agree
  have := updateFat_agree
  unfold allocCluster; wagree_auto

theorem allocPick_agree (v : FatVolume) : Agree (allocPick v) := by
  have := findNextFree_agree
  unfold allocPick; wagree_auto

theorem writeBlockPart_agree (b o : Nat) (data : Bytes) (whole : Bool) : Agree (writeBlockPart b o data whole) := by
  unfold writeBlockPart; wagree_auto

/-- An `Ok` outcome of a fault-strict computation means no device call failed, so the run is the
fault-free run. -/
theorem Agree.of_ok {α} {m : F α} (ha : Agree m) (hs : FaultStrict m) (s s' : FS) (a : α) (h : m s = (.ok a, s')) :
    m (clr s) = (.ok a, clr s') := by
  have hq : (m s).2.dev.failed = s.dev.failed := by
    apply Classical.byContradiction
    intro hne
    have := hs s hne
    rw [h] at this
    cases this
  have := (ha s).2 hq
  rw [h] at this
  exact this

/-! ### Which FAT entries a medium change may touch -/

/-- `d'` differs from `d` at most in FAT blocks, and there at most in the (copy 1) entries of the
clusters satisfying `K`; blocks keep their size. -/
structure Upd (v : FatVolume) (K : Nat → Prop) (d d' : Disk) : Prop where
  nonfat : ∀ b, ¬ IsFatBlock v b → d'.get b = d.get b
  entries : ∀ x, x < endCluster v → ¬ K x → fatRaw v d' x = fatRaw v d x
  blocks : BlocksOK d → BlocksOK d'

theorem Upd.refl (v : FatVolume) (K : Nat → Prop) (d : Disk) : Upd v K d d := ⟨fun _ _ => rfl, fun _ _ _ => rfl, id⟩
theorem Upd.of_eq {v : FatVolume} {K : Nat → Prop} {d d' : Disk} (h : d' = d) : Upd v K d d' := h ▸ Upd.refl v K d
theorem Upd.trans {v : FatVolume} {K : Nat → Prop} {a b c : Disk} (h1 : Upd v K a b) (h2 : Upd v K b c) : Upd v K a c :=
  ⟨fun x hx => (h2.nonfat x hx).trans (h1.nonfat x hx), fun x hx hk => (h2.entries x hx hk).trans (h1.entries x hx hk),
   fun h => h2.blocks (h1.blocks h)⟩
theorem Upd.mono {v : FatVolume} {K K' : Nat → Prop} {d d' : Disk} (h : Upd v K d d') (hk : ∀ x, K x → K' x) : Upd v K' d d' :=
  ⟨h.nonfat, fun x hx hn => h.entries x hx fun hkx => hn (hk x hkx), h.blocks⟩

/-- Setting the copy-1 FAT block of `c` to the patched block touches the entry of `c` only. -/
theorem upd_set_fat1 (v : FatVolume) (d : Disk) (c val : Nat) (hcl : c < endCluster v) (hb : BlocksOK d) :
    Upd v (· = c) d (d.set (fatBlock v c) (patchFatBlock v.fatType (d.get (fatBlock v c)) (fatEntOffset v c) val)) := by
  refine ⟨fun b hb' => ?_, fun x hx hne => ?_, fun _ => ?_⟩
  · rw [Disk.get_set_ne]
    intro e
    exact hb' ⟨c, hcl, .inl e.symm⟩
  · unfold fatRaw
    rw [Disk.get_set]
    by_cases he : fatBlock v c = fatBlock v x
    · rw [if_pos he, ← he]
      exact FatLens.patch_get_other v.fatType _ (fatEntOffset v c) (fatEntOffset v x) val (hb _)
        (FatLens.fatEntOffset_le v c) (FatLens.fatEntOffset_disjoint v c x (fun e => hne e.symm) he)
    · rw [if_neg he]
  · exact blocksOK_set _ _ _ hb (FatLens.patch_length _ _ _ _ (hb _) (FatLens.fatEntOffset_le v c))

/-- Setting a copy-2 FAT block touches no copy-1 entry. -/
theorem upd_set_fat2 (v : FatVolume) (hg : WFGeom v) (d : Disk) (c b2 : Nat) (p : Block) (hcl : c < endCluster v)
    (h2 : fatBlock2 v c = some b2) (hp : p.length = 512) : Upd v (fun _ => False) d (d.set b2 p) := by
  refine ⟨fun b hb' => ?_, fun x hx _ => ?_, fun hb => blocksOK_set _ _ _ hb hp⟩
  · rw [Disk.get_set_ne]
    intro e
    exact hb' ⟨c, hcl, .inr (e ▸ h2)⟩
  · unfold fatRaw
    rw [Disk.get_set_ne]
    exact fun e => fatBlock_ne_fatBlock2 v hg x c b2 hx h2 e.symm

/-- A device write: the medium is as before (the call failed) or has the cache block at `idx`. -/
theorem devWrite_any (idx : Nat) (s : FS) :
    ((devWrite idx s).1 = .err .DeviceError ∧ (devWrite idx s).2.dev.disk = s.dev.disk ∧
      (devWrite idx s).2.dev.wlog = s.dev.wlog ∨
     (devWrite idx s).1 = .ok () ∧ (devWrite idx s).2.dev.disk = s.dev.disk.set idx s.cache.blk ∧
      (devWrite idx s).2.dev.wlog = (idx, s.cache.blk) :: s.dev.wlog) ∧
    (devWrite idx s).2.cache = s.cache ∧ (devWrite idx s).2.vol = s.vol ∧
    (devWrite idx s).2.dev.faults = s.dev.faults := by
  unfold Model.devWrite
  cases hf : s.dev.faults.contains s.dev.calls <;> simp only [hf]
  · exact ⟨.inr ⟨rfl, rfl, rfl⟩, rfl, rfl, rfl⟩
  · exact ⟨.inl ⟨rfl, rfl, rfl⟩, rfl, rfl, rfl⟩

/-- **One FAT update under any fault schedule.**  From a coherent state: the medium changes at most
in the entry of `c` (either FAT copy may or may not have been written); the volume record and the
schedule are the same; and when the outcome is `Ok` the cache is coherent again. -/
theorem updateFat_any (s : FS) (c val : Nat) (hc : Coherent s) (hg : WFGeom s.vol) (hcl : c < endCluster s.vol)
    (hb : BlocksOK s.dev.disk) :
    Upd s.vol (· = c) s.dev.disk (updateFat c val s).2.dev.disk ∧ (updateFat c val s).2.vol = s.vol ∧
    (updateFat c val s).2.dev.faults = s.dev.faults ∧
    ((updateFat c val s).1 = .ok () → Coherent (updateFat c val s).2) := by
  have hcoh : (updateFat c val s).1 = .ok () → Coherent (updateFat c val s).2 := by
    intro hok
    rcases hr : updateFat c val s with ⟨r, s'⟩
    rw [hr] at hok
    simp only at hok
    subst hok
    have hclean := (updateFat_agree c val).of_ok (updateFat_strict c val) s s' () hr
    obtain ⟨s'', h, hc', _⟩ := updateFat_eq' (clr s) c val rfl hc
    rw [hclean] at h
    have e : clr s' = s'' := congrArg Prod.snd h
    rw [← e] at hc'
    exact hc'
  refine ⟨?_, updateFat_vol c val s, ?_, hcoh⟩
  · -- the medium
    unfold updateFat
    rw [F.bind_ok (show F.getVol s = (.ok s.vol, s) from rfl)]
    rcases hcr : cacheRead (fatBlock s.vol c) s with ⟨r, s1⟩
    have hd1 : s1.dev.disk = s.dev.disk := by have := cacheRead_disk (fatBlock s.vol c) s; rw [hcr] at this; exact this
    rcases cacheRead_result (fatBlock s.vol c) s with hr | hr
    · rw [hcr] at hr
      simp only at hr
      subst hr
      rw [F.bind_ok hcr]
      have hblk : s1.cache.blk = s.dev.disk.get (fatBlock s.vol c) := by
        have := cacheRead_ok_blk (fatBlock s.vol c) s hc (by rw [hcr]); rw [hcr] at this; exact this
      have htag : s1.cache.tag = some (fatBlock s.vol c) := by
        have := FBasic.cacheRead_ok_tag (fatBlock s.vol c) s (by rw [hcr]); rw [hcr] at this; exact this
      generalize hp : patchFatBlock s.vol.fatType (s.dev.disk.get (fatBlock s.vol c)) (fatEntOffset s.vol c) val = p
      have hplen : p.length = 512 := by
        rw [← hp]; exact FatLens.patch_length _ _ _ _ (hb _) (FatLens.fatEntOffset_le s.vol c)
      have hu1 : Upd s.vol (· = c) s.dev.disk (s.dev.disk.set (fatBlock s.vol c) p) := by
        rw [← hp]; exact upd_set_fat1 s.vol s.dev.disk c val hcl hb
      -- the state after `cacheModify`
      generalize hs2 : ({ s1 with cache := { s1.cache with blk := p } } : FS) = s2
      have hmod : cacheModify (fun blk => patchFatBlock s.vol.fatType blk (fatEntOffset s.vol c) val) s1 = (.ok (), s2) := by
        show (Res.ok (), ({ s1 with cache := { s1.cache with blk := patchFatBlock s.vol.fatType s1.cache.blk _ val } } : FS)) = _
        rw [hblk, hp, hs2]
      rw [F.bind_ok hmod]
      have htag2 : s2.cache.tag = some (fatBlock s.vol c) := by rw [← hs2]; exact htag
      have hblk2 : s2.cache.blk = p := by rw [← hs2]
      have hd2 : s2.dev.disk = s.dev.disk := by rw [← hs2]; exact hd1
      obtain ⟨hw1, hcache1, _, _⟩ := devWrite_any (fatBlock s.vol c) s2
      cases h2 : fatBlock2 s.vol c with
      | none =>
        simp only
        rw [Fault.writeBack_tagged htag2, untagIfErr_dev]
        rcases hw1 with ⟨_, hd, _⟩ | ⟨_, hd, _⟩
        · rw [hd, hd2]; exact Upd.refl _ _ _
        · rw [hd, hd2, hblk2]; exact hu1
      | some dup =>
        simp only
        rw [wbdup_some dup _ s2 htag2, untagIfErr_dev]
        rcases hw1 with ⟨hr1, hd, _⟩ | ⟨hr1, hd, _⟩
        · rcases hdw : devWrite (fatBlock s.vol c) s2 with ⟨r1, s3⟩
          rw [hdw] at hr1 hd
          simp only at hr1 hd
          subst hr1
          rw [F.bind_err hdw, hd, hd2]
          exact Upd.refl _ _ _
        · rcases hdw : devWrite (fatBlock s.vol c) s2 with ⟨r1, s3⟩
          rw [hdw] at hr1 hd hcache1
          simp only at hr1 hd hcache1
          subst hr1
          rw [F.bind_ok hdw]
          obtain ⟨hw2, _, _, _⟩ := devWrite_any dup s3
          rcases hw2 with ⟨_, hd', _⟩ | ⟨_, hd', _⟩
          · rw [hd', hd, hd2, hblk2]; exact hu1
          · rw [hd', hd, hd2, hcache1, hblk2]
            exact hu1.trans ((upd_set_fat2 s.vol hg _ c dup p hcl h2 hplen).mono fun _ h => h.elim)
    · rw [hcr] at hr
      simp only at hr
      subst hr
      rw [F.bind_err hcr, hd1]
      exact Upd.refl _ _ _
  · -- the schedule
    have : F.Inv (fun a b => b.dev.faults = a.dev.faults) (updateFat c val) := by
      haveI : RelOK (fun a b : FS => b.dev.faults = a.dev.faults) := ⟨fun _ => rfl, fun h1 h2 => h2.trans h1⟩
      haveI : DevOnly (fun a b : FS => b.dev.faults = a.dev.faults) := ⟨fun _ _ h => by rw [h]⟩
      haveI : ReadOK (fun a b : FS => b.dev.faults = a.dev.faults) := { cacheRead := fun i s => cacheRead_faults i s }
      haveI : WriteOK (fun a b : FS => b.dev.faults = a.dev.faults) :=
        { writeBack := fun s => by
            cases ht : s.cache.tag with
            | none => unfold Model.writeBack; rw [ht]
            | some idx => rw [Fault.writeBack_tagged ht, untagIfErr_dev]; exact (devWrite_any idx s).2.2.2
          writeBackWithDuplicate := fun d s => by
            cases ht : s.cache.tag with
            | none => rw [wbdup_none d s ht]
            | some idx =>
              rw [wbdup_some d idx s ht, untagIfErr_dev]
              exact F.Inv.bind (R := fun a b : FS => b.dev.faults = a.dev.faults)
                (fun s => (devWrite_any idx s).2.2.2) (fun _ s => (devWrite_any d s).2.2.2) s }
      exact updateFat_inv c val
    exact this s

end Sdmmc.Lemmas.Retry
