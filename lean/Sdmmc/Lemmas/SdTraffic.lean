/-
Lemmas for C13, part 2: traffic and delay bounds of every function of the SD driver model.
-/
import Sdmmc.Lemmas.SdBasic

namespace Sdmmc.Lemmas.Sd
open Sdmmc.Model Sdmmc.Model.Sd Sdmmc.Gen

variable {σ : Type} {α β : Type} (B : BusOps σ)

/-! ### Closed-form bounds (same bodies as in `Sdmmc.Props.C13`) -/

/-- bytes of one `card_command`: busy wait, frame, stuff byte, response wait -/
def cmdB : Nat := (DEFAULT_COMMAND_RETRIES + 1) + 6 + 1 + (DEFAULT_COMMAND_RETRIES + 1)
/-- delay calls of one `card_command` -/
def cmdD : Nat := DEFAULT_COMMAND_RETRIES + DEFAULT_COMMAND_RETRIES
/-- bytes of one `read_data` of `len` bytes -/
def rdB (len : Nat) : Nat := (DEFAULT_READ_RETRIES + 1) + len + 2
/-- bytes of one `write_data` of `len` bytes -/
def wrB (len : Nat) : Nat := 1 + len + 2 + 1
/-- bytes of `acquire` with `r` acquire retries -/
def acqB (r : Nat) : Nat :=
  (r + 1) * (cmdB + 255) + cmdB + (DEFAULT_COMMAND_RETRIES + 1) * (cmdB + 4)
    + (DEFAULT_COMMAND_RETRIES + 1) * (cmdB + cmdB) + (cmdB + 4) + 1
/-- delay calls of `acquire` with `r` acquire retries -/
def acqD (r : Nat) : Nat :=
  (r + 1) * (cmdD + 1) + cmdD + (DEFAULT_COMMAND_RETRIES + 1) * (cmdD + 1)
    + (DEFAULT_COMMAND_RETRIES + 1) * (cmdD + cmdD + 1) + cmdD
/-- bytes of `read` of `n` blocks -/
def readB (n : Nat) : Nat := cmdB + n * rdB 512 + cmdB
def readD (n : Nat) : Nat := cmdD + n * DEFAULT_READ_RETRIES + cmdD
/-- total payload of the blocks handed to `write` (`512 * blocks.length` for real blocks) -/
def payload (blocks : List Bytes) : Nat := (blocks.map List.length).sum
/-- bytes of `write` -/
def writeB (blocks : List Bytes) : Nat :=
  cmdB + cmdB + cmdB + (DEFAULT_WRITE_RETRIES + 1) + (DEFAULT_WRITE_RETRIES + 1) + 1 + 1 + (DEFAULT_WRITE_RETRIES + 1)
    + blocks.length * ((DEFAULT_WRITE_RETRIES + 1) + 4) + payload blocks
def writeD (blocks : List Bytes) : Nat :=
  cmdD + cmdD + cmdD + DEFAULT_WRITE_RETRIES + DEFAULT_WRITE_RETRIES + DEFAULT_WRITE_RETRIES
    + blocks.length * DEFAULT_WRITE_RETRIES
/-- bytes of `read_csd` -/
def csdB : Nat := cmdB + rdB 16
def csdD : Nat := cmdD + DEFAULT_READ_RETRIES

/-- Unfold the closed forms down to numerals, for `omega`. -/
macro "sd_bounds" : tactic =>
  `(tactic| try simp only [cmdB, cmdD, rdB, wrB, acqB, acqD, readB, readD, writeB, writeD, csdB, csdD,
      DEFAULT_COMMAND_RETRIES, DEFAULT_READ_RETRIES, DEFAULT_WRITE_RETRIES, payload, List.map_cons, List.map_nil,
      List.sum_cons, List.sum_nil, List.length_cons, List.length_nil] at *)

/-- Apply the structural rules of `Bounded`, and the given bounds of sub-computations, until
only arithmetic is left. -/
syntax "bounded_steps" "[" term,* "]" : tactic
macro_rules
  | `(tactic| bounded_steps [$ts,*]) =>
    `(tactic| repeat (with_reducible first
      | exact Bounded.pure _ | exact Bounded.fail _ | exact Bounded.failUninit _ | exact Bounded.lift _ | exact Bounded.get
      $[| exact $ts]*
      | apply Bounded.bind
      | apply Bounded.ite
      | apply Bounded.attempt
      | intro _
      | split))

/-- `Bounded m b d` from the structural rules, the given sub-bounds and `omega`. -/
syntax "bounded" "[" term,* "]" : tactic
macro_rules
  | `(tactic| bounded [$ts,*]) =>
    `(tactic| (
        try dsimp only
        apply Bounded.mono
        case h => bounded_steps [$ts,*]
        all_goals (sd_bounds; omega)))

theorem xferEv_bounded (ev : Event) : Bounded (xferEv B ev) ev.bytes.length 0 := by
  intro s
  unfold xferEv
  rcases h : B.xfer s.bus ev.bytes with ⟨b', r⟩
  cases r <;> simp <;> omega

theorem xferEv_bounded' (ev : Event) (n : Nat) (h : ev.bytes.length = n) : Bounded (xferEv B ev) n 0 :=
  h ▸ xferEv_bounded B ev

theorem readByte_bounded : Bounded (readByte B) 1 0 := by
  intro s
  unfold readByte
  rcases h : B.xfer s.bus [0xFF] with ⟨b', r⟩
  cases r <;> simp [Event.bytes] <;> omega

theorem delayTick_bounded : Bounded (delayTick B) 0 1 := by
  intro s; simp [delayTick, traffic]

theorem writeByte_bounded (x : UInt8) : Bounded (writeByte B x) 1 0 := by
  unfold writeByte
  bounded [xferEv_bounded' B _ 1 rfl]

theorem waitNotBusy_bounded (n : Nat) : Bounded (waitNotBusy B n) (n + 1) n := by
  induction n with
  | zero => unfold waitNotBusy; bounded [readByte_bounded B]
  | succ n ih => unfold waitNotBusy; bounded [readByte_bounded B, delayTick_bounded B, ih]

theorem waitResponse_bounded (c n : Nat) : Bounded (waitResponse B c n) (n + 1) n := by
  induction n with
  | zero => unfold waitResponse; bounded [readByte_bounded B]
  | succ n ih => unfold waitResponse; bounded [readByte_bounded B, delayTick_bounded B, ih]

theorem waitToken_bounded (n : Nat) : Bounded (waitToken B n) (n + 1) n := by
  induction n with
  | zero => unfold waitToken; bounded [readByte_bounded B]
  | succ n ih => unfold waitToken; bounded [readByte_bounded B, delayTick_bounded B, ih]

theorem frame_length (c arg : Nat) : (frame c arg).length = 6 := by simp [frame]

theorem cmdEv_bounded (c arg : Nat) : Bounded (xferEv B (.cmd (frame c arg))) 6 0 :=
  xferEv_bounded' B _ 6 (frame_length _ _)

theorem cardCommand_bounded (c arg : Nat) : Bounded (cardCommand B c arg) cmdB cmdD := by
  unfold cardCommand
  bounded [waitNotBusy_bounded B _, waitResponse_bounded B _ _, readByte_bounded B,
    cmdEv_bounded B _ _]

theorem cardAcmd_bounded (c arg : Nat) : Bounded (cardAcmd B c arg) (cmdB + cmdB) (cmdD + cmdD) := by
  unfold cardAcmd
  bounded [cardCommand_bounded B _ _]

theorem readData_bounded (len : Nat) : Bounded (readData B len) (rdB len) DEFAULT_READ_RETRIES := by
  unfold readData
  bounded [waitToken_bounded B _, xferEv_bounded' B (.dataIn len) len (by simp [Event.bytes]),
    xferEv_bounded' B (.dataIn 2) 2 rfl]

theorem crcOut_bounded (c : Bool) (x y : UInt8) :
    Bounded (xferEv B (.dataOut (if c = true then [x, y] else [0xFF, 0xFF]))) 2 0 :=
  xferEv_bounded' B _ 2 (by cases c <;> rfl)

theorem writeData_bounded (tok : Nat) (buf : Bytes) : Bounded (writeData B tok buf) (wrB buf.length) 0 := by
  unfold writeData
  bounded [writeByte_bounded B _, xferEv_bounded' B (.dataOut buf) buf.length rfl, crcOut_bounded B _ _ _,
    readByte_bounded B]

theorem flushBytes_bounded (n : Nat) : Bounded (flushBytes B n) n 0 := by
  induction n with
  | zero => unfold flushBytes; bounded []
  | succ n ih => unfold flushBytes; bounded [writeByte_bounded B _, ih]

theorem enterSpiModeStep_bounded (next : Option (S σ Unit)) (bn dn : Nat)
    (hn : ∀ k, next = some k → Bounded k bn dn) :
    Bounded (enterSpiModeStep B next) (cmdB + 255 + bn) (cmdD + 1 + dn) := by
  unfold enterSpiModeStep
  apply Bounded.mono
  case h =>
    refine Bounded.bind (Bounded.attempt (cardCommand_bounded B _ _)) fun r =>
      Bounded.bind (b1 := 255) (d1 := 0) ?_ fun again => Bounded.ite (Bounded.pure _) (b2 := 0 + bn) (d2 := 1 + dn) ?_
    · split <;> bounded [flushBytes_bounded B _]
    · cases next with
      | none => exact (Bounded.fail _).mono (by omega) (by omega)
      | some k => exact Bounded.bind (delayTick_bounded B) fun _ => hn k rfl
  all_goals omega

theorem enterSpiMode_bounded (n : Nat) :
    Bounded (enterSpiMode B n) ((n + 1) * (cmdB + 255)) ((n + 1) * (cmdD + 1)) := by
  induction n with
  | zero =>
    unfold enterSpiMode
    exact (enterSpiModeStep_bounded B none 0 0 (by simp)).mono (by omega) (by omega)
  | succ n ih =>
    unfold enterSpiMode
    refine (enterSpiModeStep_bounded B _ _ _ (fun k hk => by cases hk; exact ih)).mono ?_ ?_
    all_goals (sd_bounds; omega)

theorem checkVersionStep_bounded (next : Option (S σ (CardType × Nat))) (bn dn : Nat)
    (hn : ∀ k, next = some k → Bounded k bn dn) :
    Bounded (checkVersionStep B next) (cmdB + 4 + bn) (cmdD + 1 + dn) := by
  cases next with
  | none =>
    unfold checkVersionStep
    bounded [cardCommand_bounded B _ _, xferEv_bounded' B (.dataIn 4) 4 rfl]
  | some k =>
    have := hn k rfl
    unfold checkVersionStep
    bounded [cardCommand_bounded B _ _, xferEv_bounded' B (.dataIn 4) 4 rfl, delayTick_bounded B, this]

theorem checkVersion_bounded (n : Nat) :
    Bounded (checkVersion B n) ((n + 1) * (cmdB + 4)) ((n + 1) * (cmdD + 1)) := by
  induction n with
  | zero =>
    unfold checkVersion
    exact (checkVersionStep_bounded B none 0 0 (by simp)).mono (by omega) (by omega)
  | succ n ih =>
    unfold checkVersion
    refine (checkVersionStep_bounded B _ _ _ (fun k hk => by cases hk; exact ih)).mono ?_ ?_
    all_goals (sd_bounds; omega)

theorem waitReadyStep_bounded (arg : Nat) (next : Option (S σ Unit)) (bn dn : Nat)
    (hn : ∀ k, next = some k → Bounded k bn dn) :
    Bounded (waitReadyStep B arg next) (cmdB + cmdB + bn) (cmdD + cmdD + 1 + dn) := by
  cases next with
  | none =>
    unfold waitReadyStep
    bounded [cardAcmd_bounded B _ _]
  | some k =>
    have := hn k rfl
    unfold waitReadyStep
    bounded [cardAcmd_bounded B _ _, delayTick_bounded B, this]

theorem waitReady_bounded (arg n : Nat) :
    Bounded (waitReady B arg n) ((n + 1) * (cmdB + cmdB)) ((n + 1) * (cmdD + cmdD + 1)) := by
  induction n with
  | zero =>
    unfold waitReady
    exact (waitReadyStep_bounded B arg none 0 0 (by simp)).mono (by omega) (by omega)
  | succ n ih =>
    unfold waitReady
    refine (waitReadyStep_bounded B arg _ _ _ (fun k hk => by cases hk; exact ih)).mono ?_ ?_
    all_goals (sd_bounds; omega)

/-- Pointwise version of `Bounded`, for the functions whose budget is read from the state. -/
def BoundedAt (m : S σ α) (s : St σ) (b d : Nat) : Prop :=
  traffic (m s).2 ≤ traffic s + b ∧ (m s).2.delays ≤ s.delays + d

theorem BoundedAt.bind_left {m : S σ α} {f : α → S σ β} {s : St σ} {b1 d1 b2 d2 : Nat}
    (hm : BoundedAt m s b1 d1) (hf : ∀ a, Bounded (f a) b2 d2) :
    BoundedAt (m >>= f) s (b1 + b2) (d1 + d2) := by
  unfold BoundedAt at *
  rw [bind_apply]
  rcases hms : m s with ⟨r, s'⟩
  rw [hms] at hm
  cases r with
  | ok a => have h2 := hf a s'; simp only at hm ⊢; omega
  | err e => simp only at hm ⊢; omega
  | panic p => simp only at hm ⊢; omega

theorem BoundedAt.mono {m : S σ α} {s : St σ} {b d b' d' : Nat} (h : BoundedAt m s b d)
    (hb : b ≤ b') (hd : d ≤ d') : BoundedAt m s b' d' := by
  unfold BoundedAt at *; omega

theorem setCardType_bounded (ct : CardType) :
    Bounded (setCardType ct : S σ Unit) 0 0 :=
  fun s => by simp [traffic, setCardType]

theorem acquireBody_boundedAt (s : St σ) :
    BoundedAt (acquireBody B) s (acqB s.acquireRetries - 1) (acqD s.acquireRetries) := by
  rw [acquireBody_eq]
  unfold BoundedAt
  rw [bind_ok (get_apply s)]
  generalize s.acquireRetries = R
  generalize s.useCrc = u
  revert s
  show Bounded _ _ _
  bounded [enterSpiMode_bounded B _, cardCommand_bounded B _ _, checkVersion_bounded B _, waitReady_bounded B _ _,
    xferEv_bounded' B (.dataIn 4) 4 rfl, setCardType_bounded _]

theorem BoundedAt.attempt {m : S σ α} {s : St σ} {b d : Nat} (h : BoundedAt m s b d) :
    BoundedAt (S.attempt m) s b d := h

theorem acquire_boundedAt (s : St σ) :
    BoundedAt (acquire B) s (acqB s.acquireRetries) (acqD s.acquireRetries) := by
  rw [acquire_eq]
  refine ((acquireBody_boundedAt B s).attempt.bind_left (b2 := 1) (d2 := 0) fun r => ?_).mono ?_ ?_
  · bounded [readByte_bounded B]
  all_goals (sd_bounds; omega)

theorem checkInit_boundedAt (s : St σ) :
    BoundedAt (checkInit B) s (acqB s.acquireRetries) (acqD s.acquireRetries) := by
  unfold checkInit BoundedAt
  rw [bind_ok (get_apply s)]
  split
  · exact acquire_boundedAt B s
  · simp

theorem readBlocks_bounded (n : Nat) : Bounded (readBlocks B n) (n * rdB 512) (n * DEFAULT_READ_RETRIES) := by
  induction n with
  | zero => unfold readBlocks; bounded []
  | succ n ih => unfold readBlocks; bounded [readData_bounded B _, ih]

theorem read_bounded (n idx : Nat) : Bounded (Sd.read B n idx) (readB n) (readD n) := by
  unfold Sd.read
  refine Bounded.mono (Bounded.bind Bounded.get fun s => Bounded.bind (Bounded.lift _) fun start =>
    (?_ : Bounded _ (readB n) (readD n))) (by omega) (by omega)
  split
  · subst n
    bounded [cardCommand_bounded B _ _, readData_bounded B _]
  · refine Bounded.mono (Bounded.bind (cardCommand_bounded B _ _) fun _ =>
      Bounded.bind (Bounded.attempt (readBlocks_bounded B n)) fun r => (?_ : Bounded _ cmdB cmdD)) ?_ ?_
    · split
      · bounded []
      · bounded [cardCommand_bounded B _ _]
    all_goals (sd_bounds; omega)

theorem writeBlocks_bounded (l : List Bytes) :
    Bounded (writeBlocks B l) (l.length * ((DEFAULT_WRITE_RETRIES + 1) + 4) + payload l)
      (l.length * DEFAULT_WRITE_RETRIES) := by
  induction l with
  | nil => unfold writeBlocks; bounded []
  | cons b rest ih =>
    unfold writeBlocks
    simp only [payload, List.map_cons, List.sum_cons, List.length_cons] at ih ⊢
    bounded [waitNotBusy_bounded B _, writeData_bounded B _ _, ih]

theorem write_bounded (blocks : List Bytes) (idx : Nat) :
    Bounded (write B blocks idx) (writeB blocks) (writeD blocks) := by
  unfold write
  refine Bounded.mono (Bounded.bind Bounded.get fun s => Bounded.bind (Bounded.lift _) fun start =>
    (?_ : Bounded _ (writeB blocks) (writeD blocks))) (by omega) (by omega)
  split
  · bounded [cardCommand_bounded B _ _, waitNotBusy_bounded B _, writeData_bounded B _ _, readByte_bounded B]
  · have hstop : Bounded (stopWrite B) ((DEFAULT_WRITE_RETRIES + 1) + 1 + 1 + (DEFAULT_WRITE_RETRIES + 1))
        (DEFAULT_WRITE_RETRIES + DEFAULT_WRITE_RETRIES) := by
      unfold stopWrite
      bounded [waitNotBusy_bounded B _, writeByte_bounded B _, readByte_bounded B]
    refine Bounded.mono (Bounded.bind (cardAcmd_bounded B _ _) fun _ => Bounded.bind (waitNotBusy_bounded B _) fun _ =>
      Bounded.bind (cardCommand_bounded B _ _) fun _ =>
      Bounded.bind (Bounded.attempt (writeBlocks_bounded B blocks)) fun r =>
        (?_ : Bounded _ ((DEFAULT_WRITE_RETRIES + 1) + 1 + 1 + (DEFAULT_WRITE_RETRIES + 1))
          (DEFAULT_WRITE_RETRIES + DEFAULT_WRITE_RETRIES))) ?_ ?_
    · split
      · bounded []
      · exact Bounded.mono (Bounded.bind (Bounded.attempt hstop) fun st =>
          (by split <;> bounded [] : Bounded _ 0 0)) (by omega) (by omega)
    all_goals (sd_bounds; omega)

theorem readCsd_bounded : Bounded (readCsd B) csdB csdD := by
  unfold readCsd
  refine Bounded.mono (Bounded.bind Bounded.get fun s => (?_ : Bounded _ csdB csdD)) (by omega) (by omega)
  cases s.cardType with
  | none => exact (Bounded.fail _).mono (by omega) (by omega)
  | some ct => bounded [cardCommand_bounded B _ _, readData_bounded B _]

theorem numBlocks_bounded : Bounded (numBlocks B) csdB csdD := by
  unfold numBlocks
  bounded [readCsd_bounded B]

theorem numBytes_bounded : Bounded (numBytes B) csdB csdD := by
  unfold numBytes
  bounded [readCsd_bounded B]

/-- bytes of the operation part of a call (after `check_init`) -/
def opB : Call → Nat
  | .read n _ => readB n
  | .write blocks _ => writeB blocks
  | .numBlocks => csdB
  | .numBytes => csdB
  | .cardType => 0
  | .markUninit => 0

def opD : Call → Nat
  | .read n _ => readD n
  | .write blocks _ => writeD blocks
  | .numBlocks => csdD
  | .numBytes => csdD
  | .cardType => 0
  | .markUninit => 0

/-- Same body as `Sdmmc.Props.C13.callBound`. -/
def callBound (c : Call) (acquireRetries : Nat) : Nat := acqB acquireRetries + opB c
def callDelayBound (c : Call) (acquireRetries : Nat) : Nat := acqD acquireRetries + opD c

theorem call_boundedAt (c : Call) (s : St σ) :
    BoundedAt (call B c) s (callBound c s.acquireRetries) (callDelayBound c s.acquireRetries) := by
  cases c with
  | read n idx =>
    unfold call
    simp only [callBound, callDelayBound, opB, opD]
    exact (checkInit_boundedAt B s).bind_left fun _ => by bounded [read_bounded B _ _]
  | write blocks idx =>
    unfold call
    simp only [callBound, callDelayBound, opB, opD]
    exact (checkInit_boundedAt B s).bind_left fun _ => by bounded [write_bounded B _ _]
  | numBlocks =>
    unfold call
    simp only [callBound, callDelayBound, opB, opD]
    exact (checkInit_boundedAt B s).bind_left fun _ => by bounded [numBlocks_bounded B]
  | numBytes =>
    unfold call
    simp only [callBound, callDelayBound, opB, opD]
    exact (checkInit_boundedAt B s).bind_left fun _ => by bounded [numBytes_bounded B]
  | cardType =>
    unfold call
    simp only [callBound, callDelayBound, opB, opD]
    exact (checkInit_boundedAt B s).attempt.bind_left fun _ => by bounded []
  | markUninit =>
    unfold call BoundedAt
    simp [traffic]

end Sdmmc.Lemmas.Sd
