/-
Volume invariant (C03), layer 3 (API): the calls that do not write to the medium — seeks, observers,
directory handles, lookups and listings, `read` — and the `step` wrapper.
-/
import Sdmmc.Lemmas.VolApi3
import Sdmmc.Lemmas.ReadRefines

namespace Sdmmc.Lemmas.VolApi
open Sdmmc.Model Sdmmc.Model.Fat Sdmmc.Spec.Volume Sdmmc.Lemmas.VolBase Sdmmc.Lemmas.VolTree
open Sdmmc.Spec hiding NoFault Coherent
open Sdmmc.Lemmas.VolDisk Sdmmc.Lemmas.VolMed Sdmmc.Lemmas.VolEng
open Sdmmc.Lemmas.FBasic (NoFault Coherent)
open Sdmmc.Lemmas.MHoare

/-! ### The `step` wrapper -/

/-- Clearing the per-call logs keeps the invariant. -/
theorem volInv_resetLogs {s : Mgr} {gh : Ghost} (hI : VolInv s gh) : VolInv (resetLogs s) gh :=
  volInv_ro (s' := resetLogs s) hI rfl hI.noFault hI.coherent rfl rfl rfl rfl hI.openDirs

/-- Mapping the payload of a call does not change the final state. -/
theorem map_state {α β : Type} (m : M α) (g : α → β) (s : Mgr) :
    ((m >>= fun x => (pure (g x) : M β)) s).2 = (m s).2 := by
  rw [bind_def]
  rcases m s with ⟨r, s'⟩
  cases r <;> rfl

/-- The same for calls that return `()`. -/
theorem seq_state {α β : Type} (m : M α) (b : β) (s : Mgr) :
    ((m >>= fun _ => (pure b : M β)) s).2 = (m s).2 := map_state m (fun _ => b) s

/-- One API call keeps the invariant as soon as the call proper does. -/
theorem step_keeps_of {op : Op} (h : ∀ s gh, VolInv s gh → ∃ gh', VolInv (runOp op s).2 gh' ∧ SameGeom gh.vol gh'.vol) :
    ∀ s gh, VolInv s gh → ∃ gh', VolInv (step s op).1 gh' ∧ SameGeom gh.vol gh'.vol := by
  intro s gh hI
  rw [step_unlocked s op hI.unlocked]
  exact h _ gh (volInv_resetLogs hI)

/-! ### Seeks -/

/-- A record of an open file whose offset alone changes, staying inside the file. -/
theorem volInv_seek {s : Mgr} {gh : Ghost} (hI : VolInv s gh) {i : Nat} {f : FileInfo} (hi : s.files[i]? = some f)
    (off : Nat) (hle : off ≤ f.entry.size) :
    VolInv { s with files := s.files.set i { f with currentOffset := off } } gh := by
  have hfm : f ∈ s.files := List.mem_of_getElem? hi
  obtain ⟨hok, hcur⟩ := hI.med.fileOK f hfm
  exact volInv_file_set hI hi rfl rfl rfl rfl rfl (fun h => h) rfl
    ⟨hok.chain, hok.size_fits, hle, hok.cursor⟩ hcur

theorem seekStart_api {s : Mgr} {gh : Ghost} (hI : VolInv s gh) (file offset : Nat) :
    ∃ gh', VolInv (fileSeekFromStart file offset s).2 gh' ∧ SameGeom gh.vol gh'.vol := by
  unfold fileSeekFromStart
  cases hidx : s.files.findIdx? (·.rawFile = file) with
  | none => rw [bind_err (getFileById_bad hidx)]; exact ⟨gh, hI, SameGeom.refl _⟩
  | some i =>
    obtain ⟨f, hf, _⟩ := findIdx?_some_get hidx
    rw [bind_ok (getFileById_ok hidx), bind_ok (getFile_ok hf)]
    unfold FileInfo.seekFromStart
    by_cases hgt : offset > f.entry.size
    · rw [if_pos hgt]; exact ⟨gh, hI, SameGeom.refl _⟩
    · rw [if_neg hgt]
      exact ⟨gh, volInv_seek hI hf offset (by omega), SameGeom.refl _⟩

theorem seekEnd_api {s : Mgr} {gh : Ghost} (hI : VolInv s gh) (file offset : Nat) :
    ∃ gh', VolInv (fileSeekFromEnd file offset s).2 gh' ∧ SameGeom gh.vol gh'.vol := by
  unfold fileSeekFromEnd
  cases hidx : s.files.findIdx? (·.rawFile = file) with
  | none => rw [bind_err (getFileById_bad hidx)]; exact ⟨gh, hI, SameGeom.refl _⟩
  | some i =>
    obtain ⟨f, hf, _⟩ := findIdx?_some_get hidx
    rw [bind_ok (getFileById_ok hidx), bind_ok (getFile_ok hf)]
    unfold FileInfo.seekFromEnd
    by_cases hgt : offset > f.entry.size
    · rw [if_pos hgt]; exact ⟨gh, hI, SameGeom.refl _⟩
    · rw [if_neg hgt]
      exact ⟨gh, volInv_seek hI hf (f.entry.size - offset) (by omega), SameGeom.refl _⟩

theorem seekCur_api {s : Mgr} {gh : Ghost} (hI : VolInv s gh) (file : Nat) (offset : Int) :
    ∃ gh', VolInv (fileSeekFromCurrent file offset s).2 gh' ∧ SameGeom gh.vol gh'.vol := by
  unfold fileSeekFromCurrent
  cases hidx : s.files.findIdx? (·.rawFile = file) with
  | none => rw [bind_err (getFileById_bad hidx)]; exact ⟨gh, hI, SameGeom.refl _⟩
  | some i =>
    obtain ⟨f, hf, _⟩ := findIdx?_some_get hidx
    rw [bind_ok (getFileById_ok hidx), bind_ok (getFile_ok hf)]
    unfold FileInfo.seekFromCurrent
    by_cases hbad : (f.currentOffset : Int) + offset < 0 ∨ (f.currentOffset : Int) + offset > (f.entry.size : Int)
    · simp only [if_pos hbad]; exact ⟨gh, hI, SameGeom.refl _⟩
    · simp only [if_neg hbad]
      exact ⟨gh, volInv_seek hI hf ((f.currentOffset : Int) + offset).toNat (by omega), SameGeom.refl _⟩

/-! ### Observers -/

theorem observer_state {α : Type} (g : FileInfo → α) (file : Nat) (s : Mgr) :
    ((getFileById file >>= fun i => getFile i >>= fun f => (pure (g f) : M α)) s).2 = s := by
  cases hidx : s.files.findIdx? (·.rawFile = file) with
  | none => rw [bind_err (getFileById_bad hidx)]
  | some i =>
    obtain ⟨f, hf, _⟩ := findIdx?_some_get hidx
    rw [bind_ok (getFileById_ok hidx), bind_ok (getFile_ok hf)]
    rfl

theorem fileEof_state (file : Nat) (s : Mgr) : (fileEof file s).2 = s := observer_state _ file s
theorem fileLength_state (file : Nat) (s : Mgr) : (fileLength file s).2 = s := observer_state _ file s
theorem fileOffset_state (file : Nat) (s : Mgr) : (fileOffset file s).2 = s := observer_state _ file s

theorem eof_api {s : Mgr} {gh : Ghost} (hI : VolInv s gh) (file : Nat) : ∃ gh', VolInv (fileEof file s).2 gh' ∧ SameGeom gh.vol gh'.vol := by
  rw [fileEof_state]; exact ⟨gh, hI, SameGeom.refl _⟩
theorem length_api {s : Mgr} {gh : Ghost} (hI : VolInv s gh) (file : Nat) : ∃ gh', VolInv (fileLength file s).2 gh' ∧ SameGeom gh.vol gh'.vol := by
  rw [fileLength_state]; exact ⟨gh, hI, SameGeom.refl _⟩
theorem offset_api {s : Mgr} {gh : Ghost} (hI : VolInv s gh) (file : Nat) : ∃ gh', VolInv (fileOffset file s).2 gh' ∧ SameGeom gh.vol gh'.vol := by
  rw [fileOffset_state]; exact ⟨gh, hI, SameGeom.refl _⟩
theorem hasOpen_api {s : Mgr} {gh : Ghost} (hI : VolInv s gh) :
    ∃ gh', VolInv (runOp .hasOpen s).2 gh' ∧ SameGeom gh.vol gh'.vol := ⟨gh, hI, SameGeom.refl _⟩

/-! ### Directory handles -/

/-- The directory table changes (and the handle counter): the invariant asks only that every handle
designates a directory. -/
theorem volInv_dirs {s : Mgr} {gh : Ghost} (hI : VolInv s gh) (dirs' : List DirInfo) (nid : Nat)
    (h : ∀ di, di ∈ dirs' → ValidDir gh.dirs di.cluster) : VolInv { s with dirs := dirs', nextId := nid } gh :=
  volInv_ro (s' := { s with dirs := dirs', nextId := nid }) hI rfl hI.noFault hI.coherent rfl rfl rfl rfl h

theorem mem_of_mem_swapRemove {α : Type} {l : List α} {i : Nat} {x : α} (h : x ∈ swapRemove l i) : x ∈ l := by
  cases hi : l[i]? with
  | none =>
    have : swapRemove l i = l := by
      unfold swapRemove
      rw [hi]
      cases l.getLast? <;> rfl
    rw [this] at h; exact h
  | some y =>
    exact (List.eraseIdx_sublist l i).subset ((swapRemove_perm l i y hi).subset h)

theorem closeDir_api {s : Mgr} {gh : Ghost} (hI : VolInv s gh) (directory : Nat) :
    ∃ gh', VolInv (closeDir directory s).2 gh' ∧ SameGeom gh.vol gh'.vol := by
  unfold closeDir
  rw [get_bind]
  cases hidx : s.dirs.findIdx? (·.rawDirectory = directory) with
  | none => exact ⟨gh, hI, SameGeom.refl _⟩
  | some i =>
    refine ⟨gh, ?_, SameGeom.refl _⟩
    show VolInv { s with dirs := swapRemove s.dirs i } gh
    exact volInv_dirs hI _ s.nextId fun di hdi => hI.openDirs di (mem_of_mem_swapRemove hdi)

theorem openRoot_api {s : Mgr} {gh : Ghost} (hI : VolInv s gh) (volume : Nat) :
    ∃ gh', VolInv (openRootDir volume s).2 gh' ∧ SameGeom gh.vol gh'.vol := by
  unfold openRootDir
  rw [generate_bind, get_bind]
  have h1 : VolInv { s with nextId := (s.nextId + 1) % 4294967296 } gh := volInv_dirs hI s.dirs _ hI.openDirs
  by_cases hfull : s.dirs.length ≥ s.maxDirs
  · rw [if_pos hfull]; exact ⟨gh, h1, SameGeom.refl _⟩
  · rw [if_neg hfull, modify_bind]
    refine ⟨gh, ?_, SameGeom.refl _⟩
    refine volInv_dirs hI _ _ fun di hdi => ?_
    rcases List.mem_append.1 hdi with hdi | hdi
    · exact hI.openDirs di hdi
    · rw [List.mem_singleton.1 hdi]; exact .inl rfl

/-! ### `read` -/

/-- One open-file record changes as in `volInv_file_set`, and so do the device bookkeeping and the cache,
the medium staying the same. -/
theorem volInv_file_set' {s : Mgr} {gh : Ghost} (hI : VolInv s gh) {i : Nat} {f f' : FileInfo} (hi : s.files[i]? = some f)
    (hkey : fkey f' = fkey f) (hname : f'.entry.name = f.entry.name) (hattr : f'.entry.attributes = f.entry.attributes)
    (hcl : f'.entry.cluster = f.entry.cluster) (hsz : f'.entry.size = f.entry.size)
    (hdirty : f'.dirty = false → f.dirty = false) (hvol : f'.rawVolume = f.rawVolume)
    (hok : FileOK gh.vol s.dev.disk f' (chainOf gh.G f.entry.cluster))
    (hcur : chainOf gh.G f.entry.cluster = [] → f'.curCluster < 2)
    (dev' : Dev) (cache' : Cache) (hd : dev'.disk = s.dev.disk) (hnf : dev'.faults = [])
    (hc : ∀ j, cache'.tag = some j → cache'.blk = dev'.disk.get j) :
    VolInv { s with dev := dev', cache := cache', files := s.files.set i f' } gh := by
  have h1 := volInv_file_set hI hi hkey hname hattr hcl hsz hdirty hvol hok hcur
  exact volInv_ro (s' := { s with dev := dev', cache := cache', files := s.files.set i f' }) h1 hd hnf hc rfl rfl rfl rfl
    hI.openDirs

theorem read_api {s : Mgr} {gh : Ghost} (hI : VolInv s gh) (file n : Nat) :
    ∃ gh', VolInv (Model.read file n s).2 gh' ∧ SameGeom gh.vol gh'.vol := by
  cases hidx : s.files.findIdx? (·.rawFile = file) with
  | none =>
    unfold Model.read
    rw [bind_err (getFileById_bad hidx)]; exact ⟨gh, hI, SameGeom.refl _⟩
  | some i =>
    obtain ⟨f, hf, _⟩ := findIdx?_some_get hidx
    have hfm : f ∈ s.files := List.mem_of_getElem? hf
    obtain ⟨vi, hv, hvol, hrv, _⟩ := vol_of_file hI hfm
    have hvidx : s.vols.findIdx? (·.rawVolume = f.rawVolume) = some 0 := by
      rw [hv]; simp [hrv]
    have hvi : s.vols[0]? = some vi := by rw [hv]; rfl
    obtain ⟨hok, hcur⟩ := hI.med.fileOK f hfm
    by_cases heof : f.currentOffset = f.entry.size
    · rw [ReadRefines.read_at_eof s file n i 0 f hidx hf hvidx heof]
      exact ⟨gh, hI, SameGeom.refl _⟩
    · have hne : chainOf gh.G f.entry.cluster ≠ [] := by
        intro he
        rcases hok.chain with ⟨_, _, h0⟩ | hch
        · have := hok.pos_le; omega
        · exact ChainL.chain_ne_nil hch he
      have hg : WFGeom vi.vol := by rw [hvol]; exact hI.med.geom
      have hok' : FileOK vi.vol s.dev.disk f (chainOf gh.G f.entry.cluster) := by rw [hvol]; exact hok
      obtain ⟨s', f', hrun, hdisk, _, hstep, hf', _, hok2, hM'⟩ :=
        ReadRefines.read_refines s file n i 0 f vi _ ⟨hI.noFault, hI.coherent, hI.med.blocksOK, hI.unlocked⟩ hidx hf
          hvidx hvi hg hok'
      rw [hrun]
      refine ⟨gh, ?_, SameGeom.refl _⟩
      show VolInv s' gh
      have hent : f'.entry = f.entry := by rw [hf']
      have hdy : f'.dirty = f.dirty := by rw [hf']
      have hrv' : f'.rawVolume = f.rawVolume := by rw [hf']
      rw [hstep]
      refine volInv_file_set' hI hf ?_ ?_ ?_ ?_ ?_ ?_ hrv' ?_ (fun he => absurd he hne) s'.dev s'.cache hdisk hM'.1 hM'.2.1
      · show (f'.entry.entryBlock, f'.entry.entryOffset) = _
        rw [hent]
      · rw [hent]
      · rw [hent]
      · rw [hent]
      · rw [hent]
      · rw [hdy]; exact fun h => h
      · rw [← hvol, ← hdisk]; exact hok2

/-! ### Read-only walks on the volume -/

open Sdmmc.Lemmas.FatOps (ReadOnly) in
theorem iterateBlocks_readOnly : ∀ (n b : Nat), ReadOnly (iterateBlocks n b)
  | 0, _ => ReadOnly.pure _
  | n + 1, b => by
    unfold iterateBlocks
    refine ReadOnly.bind ReadOnly.getVol fun v => ?_
    refine ReadOnly.bind (ReadOnly.cacheRead _) fun _ => ?_
    refine ReadOnly.bind ReadOnly.cacheBlk fun blk => ?_
    rcases iterateBlockSlots v.fatType b (slotsOf blk) with ⟨es, fin⟩
    cases fin with
    | true => exact ReadOnly.pure _
    | false =>
      refine ReadOnly.bind (iterateBlocks_readOnly n (b + 1)) fun r => ?_
      exact ReadOnly.pure _

open Sdmmc.Lemmas.FatOps (ReadOnly nextCluster_readOnly) in
theorem iterateWalk_readOnly : ∀ (fuel : Nat) (w : DirWalk), ReadOnly (iterateWalk fuel w)
  | 0, _ => ReadOnly.diverge
  | fuel + 1, w => by
    unfold iterateWalk
    refine ReadOnly.bind ReadOnly.getVol fun v => ?_
    refine ReadOnly.bind (iterateBlocks_readOnly _ _) fun r => ?_
    rcases r with ⟨es, fin⟩
    refine ReadOnly.ite _ (ReadOnly.pure _) ?_
    refine ReadOnly.ite _ (ReadOnly.pure _) ?_
    refine ReadOnly.bind (ReadOnly.attempt (nextCluster_readOnly _)) fun r => ?_
    cases r with
    | ok n => exact ReadOnly.bind (iterateWalk_readOnly fuel _) fun _ => ReadOnly.pure _
    | err e =>
      cases e
      case EndOfFile => exact ReadOnly.pure _
      all_goals exact ReadOnly.lift _
    | panic m => exact ReadOnly.lift _
    | diverged => exact ReadOnly.lift _

theorem iterateRaw_readOnly (dc : Nat) : FatOps.ReadOnly (iterateRaw dc) := by
  unfold iterateRaw
  exact FatOps.ReadOnly.bind FatOps.ReadOnly.getVol fun v => iterateWalk_readOnly _ _

/-- A read-only FAT computation run on any volume slot changes the device bookkeeping and the cache only. -/
theorem withVol_ro_state {α : Type} (volIdx : Nat) (f : F α) (hf : FatOps.ReadOnly f) (s : Mgr) :
    ∃ dev' cache', (withVol volIdx f s).2 = { s with dev := dev', cache := cache' } ∧ dev'.disk = s.dev.disk ∧
      dev'.faults = s.dev.faults ∧
      ((∀ i, s.cache.tag = some i → s.cache.blk = s.dev.disk.get i) →
        ∀ i, cache'.tag = some i → cache'.blk = dev'.disk.get i) := by
  cases h : s.vols[volIdx]? with
  | none =>
    rw [DirMgr.withVol_none volIdx f s h]
    exact ⟨s.dev, s.cache, rfl, rfl, rfl, fun hc => hc⟩
  | some vi =>
    rw [DirMgr.withVol_eq volIdx f s vi h]
    have hro := hf { dev := s.dev, cache := s.cache, vol := vi.vol }
    refine ⟨_, _, ?_, hro.disk, hro.faults, fun hc => hro.coherent hc⟩
    have : s.vols.set volIdx { vi with vol := (f { dev := s.dev, cache := s.cache, vol := vi.vol }).2.vol } = s.vols := by
      rw [hro.vol]
      exact ReadRefines.list_set_self _ _ _ h
    simp only [this]

/-- … and therefore keeps the invariant (and the tables). -/
theorem withVol_ro_inv {α : Type} (volIdx : Nat) (f : F α) (hf : FatOps.ReadOnly f) {s : Mgr} {gh : Ghost} (hI : VolInv s gh) :
    VolInv (withVol volIdx f s).2 gh := by
  obtain ⟨dev', cache', he, hd, hfl, hc⟩ := withVol_ro_state volIdx f hf s
  rw [he]
  exact volInv_ro (s' := { s with dev := dev', cache := cache' }) hI hd (hfl.trans hI.noFault) (hc hI.coherent) rfl rfl rfl rfl
    hI.openDirs

/-- The common prologue of the directory calls: the handle, its record, the volume slot, the short name.
Whenever it fails the state is the start state. -/
theorem dirPrologue_state {α : Type} (directory : Nat) (name : List Nat) (k : DirInfo → Nat → Bytes → M α)
    {s : Mgr} {gh : Ghost} (hI : VolInv s gh)
    (hk : ∀ d volIdx sfn, d ∈ s.dirs → s.vols.findIdx? (·.rawVolume = d.rawVolume) = some volIdx →
      Sfn.createFromStr name = .ok sfn → ∃ gh', VolInv (k d volIdx sfn s).2 gh' ∧ SameGeom gh.vol gh'.vol) :
    ∃ gh', VolInv ((getDirById directory >>= fun dirIdx => getDir dirIdx >>= fun d =>
      getVolumeById d.rawVolume >>= fun volIdx => toSfn name >>= fun sfn => k d volIdx sfn) s).2 gh' ∧ SameGeom gh.vol gh'.vol := by
  cases hidx : s.dirs.findIdx? (·.rawDirectory = directory) with
  | none => rw [bind_err (getDirById_bad hidx)]; exact ⟨gh, hI, SameGeom.refl _⟩
  | some i =>
    obtain ⟨d, hd, _⟩ := findIdx?_some_get hidx
    rw [bind_ok (getDirById_ok hidx), bind_ok (getDir_ok hd)]
    cases hv : s.vols.findIdx? (·.rawVolume = d.rawVolume) with
    | none => rw [bind_err (getVolumeById_bad hv)]; exact ⟨gh, hI, SameGeom.refl _⟩
    | some volIdx =>
      rw [bind_ok (getVolumeById_ok hv)]
      unfold toSfn
      cases hs : Sfn.createFromStr name with
      | ok sfn => exact hk d volIdx sfn (List.mem_of_getElem? hd) hv hs
      | error e => exact ⟨gh, hI, SameGeom.refl _⟩

theorem find_api {s : Mgr} {gh : Ghost} (hI : VolInv s gh) (directory : Nat) (name : List Nat) :
    ∃ gh', VolInv (Model.findDirectoryEntry directory name s).2 gh' ∧ SameGeom gh.vol gh'.vol := by
  unfold Model.findDirectoryEntry
  exact dirPrologue_state directory name _ hI fun d volIdx sfn _ _ _ =>
    ⟨gh, withVol_ro_inv volIdx _ (DirMgr.findDirectoryEntry_readOnly d.cluster sfn) hI, SameGeom.refl _⟩

/-- The prologue of the listing calls. -/
theorem listPrologue_state {α : Type} (directory : Nat) (k : DirInfo → Nat → M α)
    {s : Mgr} {gh : Ghost} (hI : VolInv s gh)
    (hk : ∀ d volIdx, d ∈ s.dirs → ∃ gh', VolInv (k d volIdx s).2 gh' ∧ SameGeom gh.vol gh'.vol) :
    ∃ gh', VolInv ((getDirById directory >>= fun dirIdx => getDir dirIdx >>= fun d =>
      getVolumeById d.rawVolume >>= fun volIdx => k d volIdx) s).2 gh' ∧ SameGeom gh.vol gh'.vol := by
  cases hidx : s.dirs.findIdx? (·.rawDirectory = directory) with
  | none => rw [bind_err (getDirById_bad hidx)]; exact ⟨gh, hI, SameGeom.refl _⟩
  | some i =>
    obtain ⟨d, hd, _⟩ := findIdx?_some_get hidx
    rw [bind_ok (getDirById_ok hidx), bind_ok (getDir_ok hd)]
    cases hv : s.vols.findIdx? (·.rawVolume = d.rawVolume) with
    | none => rw [bind_err (getVolumeById_bad hv)]; exact ⟨gh, hI, SameGeom.refl _⟩
    | some volIdx =>
      rw [bind_ok (getVolumeById_ok hv)]
      exact hk d volIdx (List.mem_of_getElem? hd)

/-- Whatever follows a computation without touching the state (`pure`, `M.lift`) keeps its final state. -/
theorem bind_lift_state {α β : Type} (m : M α) (g : α → Res β) (s : Mgr) :
    ((m >>= fun x => M.lift (g x)) s).2 = (m s).2 := by
  rw [bind_def]
  rcases m s with ⟨r, s'⟩
  cases r <;> rfl

theorem list_api {s : Mgr} {gh : Ghost} (hI : VolInv s gh) (directory : Nat) :
    ∃ gh', VolInv (iterateDir directory s).2 gh' ∧ SameGeom gh.vol gh'.vol := by
  unfold iterateDir
  refine listPrologue_state directory _ hI fun d volIdx _ => ⟨gh, ?_, SameGeom.refl _⟩
  rw [map_state]
  exact withVol_ro_inv volIdx _ (iterateRaw_readOnly d.cluster) hI

theorem listLfn_api {s : Mgr} {gh : Ghost} (hI : VolInv s gh) (directory bufSize : Nat) :
    ∃ gh', VolInv (iterateDirLfn directory bufSize s).2 gh' ∧ SameGeom gh.vol gh'.vol := by
  unfold iterateDirLfn
  refine listPrologue_state directory _ hI fun d volIdx _ => ⟨gh, ?_, SameGeom.refl _⟩
  rw [bind_lift_state]
  exact withVol_ro_inv volIdx _ (iterateRaw_readOnly d.cluster) hI

theorem label_api {s : Mgr} {gh : Ghost} (hI : VolInv s gh) (volume : Nat) :
    ∃ gh', VolInv (getRootVolumeLabel volume s).2 gh' ∧ SameGeom gh.vol gh'.vol := by
  unfold getRootVolumeLabel
  cases hv : s.vols.findIdx? (·.rawVolume = volume) with
  | none => rw [bind_err (getVolumeById_bad hv)]; exact ⟨gh, hI, SameGeom.refl _⟩
  | some volIdx =>
    obtain ⟨vi, hvi, _⟩ := findIdx?_some_get hv
    rw [bind_ok (getVolumeById_ok hv), bind_ok (getVolInfo_ok hvi)]
    by_cases hl : (!(volumeNameTrim vi.vol.name).isEmpty) = true
    · rw [if_pos hl]; exact ⟨gh, hI, SameGeom.refl _⟩
    · rw [if_neg hl]
      obtain ⟨gh1, h1, g1⟩ := openRoot_api hI volume
      rw [bind_def]
      rcases hop : openRootDir volume s with ⟨r, s1⟩
      rw [hop] at h1
      cases r with
      | ok dir =>
        simp only
        rw [attempt_bind, attempt_bind]
        obtain ⟨gh2, h2, g2⟩ := list_api h1 dir
        obtain ⟨gh3, h3, g3⟩ := closeDir_api h2 dir
        rw [map_state]
        exact ⟨gh3, h3, (g1.trans g2).trans g3⟩
      | err e => exact ⟨gh1, h1, g1⟩
      | panic m => exact ⟨gh1, h1, g1⟩
      | diverged => exact ⟨gh1, h1, g1⟩

/-! ### `close_volume`, `open_volume` while a volume is open -/

/-- A handle found in the volume table: it is the open volume's, in slot 0. -/
theorem vol_of_handle {s : Mgr} {gh : Ghost} (hI : VolInv s gh) {raw volIdx : Nat}
    (hv : s.vols.findIdx? (·.rawVolume = raw) = some volIdx) :
    volIdx = 0 ∧ ∃ vi, s.vols = [vi] ∧ vi.vol = gh.vol ∧ vi.rawVolume = raw := by
  obtain ⟨vi', hvi', hp⟩ := findIdx?_some_get hv
  rcases hI.vols with h0 | ⟨vi, hvs, hvol⟩
  · rw [h0] at hvi'; cases hvi'
  · rw [hvs] at hvi'
    have hlt := (List.getElem?_eq_some_iff.1 hvi').1
    have h0 : volIdx = 0 := by simpa using hlt
    subst h0
    have : vi = vi' := by simpa using hvi'
    subst this
    exact ⟨rfl, vi, hvs, hvol, by simpa using hp⟩

theorem closeVolume_api {s : Mgr} {gh : Ghost} (hI : VolInv s gh) (volume : Nat) :
    ∃ gh', VolInv (closeVolume volume s).2 gh' ∧ SameGeom gh.vol gh'.vol := by
  unfold closeVolume
  rw [get_bind]
  by_cases hfa : (s.files.any (·.rawVolume = volume)) = true
  · rw [if_pos hfa]; exact ⟨gh, hI, SameGeom.refl _⟩
  rw [if_neg hfa]
  by_cases hda : (s.dirs.any (·.rawVolume = volume)) = true
  · rw [if_pos hda]; exact ⟨gh, hI, SameGeom.refl _⟩
  rw [if_neg hda]
  cases hv : s.vols.findIdx? (·.rawVolume = volume) with
  | none => rw [bind_err (getVolumeById_bad hv)]; exact ⟨gh, hI, SameGeom.refl _⟩
  | some volIdx =>
    obtain ⟨h0, vi, hvs, hvol, hraw⟩ := vol_of_handle hI hv
    subst h0
    rw [bind_ok (getVolumeById_ok hv)]
    have hnofile : ∀ f, f ∈ s.files → False := by
      intro f hf
      apply hfa
      rw [List.any_eq_true]
      obtain ⟨vi', hv', he⟩ := hI.fileVols f hf
      rw [hvs] at hv'
      cases hv'
      exact ⟨f, hf, by simp [he, hraw]⟩
    obtain ⟨hn, hc, hM⟩ := volInv_fs hI
    obtain ⟨fs1, hr1, hn1, hc1, hv1, hM1⟩ := updateInfo_med hM hn hc
    have hw := withVol_one updateInfoSector hvs hvol
    rw [hr1] at hw
    rw [bind_ok hw]
    refine ⟨gh, ?_, SameGeom.refl _⟩
    show VolInv { afterVol s vi fs1 with vols := swapRemove (afterVol s vi fs1).vols 0 } gh
    have hvg : fs1.vol = gh.vol := hv1
    refine ⟨hn1, hc1, hI.unlocked, hI.maxVols, .inl rfl, ?_, fun f hf => (hnofile f hf).elim, hI.openDirs⟩
    have := med_of_medX hM1
    rw [hvg] at this
    exact this

theorem openVolume_api_open {s : Mgr} {gh : Ghost} (hI : VolInv s gh) (hv : s.vols ≠ []) (idx : Nat) :
    openRawVolume idx s = (.err .TooManyOpenVolumes, s) := by
  unfold openRawVolume
  rw [get_bind]
  have : s.vols.length ≥ s.maxVols := by
    rw [hI.maxVols]
    cases hvs : s.vols with
    | nil => exact absurd hvs hv
    | cons a l => simp
  rw [if_pos this]
  rfl

/-! ### `open_dir` -/

/-- A live short entry with the directory bit, found in a directory of a sound volume, names a directory:
decoded, its cluster field is the root marker or the first cluster of a sub-directory. -/
theorem dirEntry_valid {v : FatVolume} {d : Disk} {files : List FileInfo} {gh : Ghost} {X : List (List Nat)}
    (hM : MedX v d files gh X) {h : Nat} (hh : h ∈ dirIds gh.dirs) {o : Slot}
    (ho : o ∈ entries (dirSlots v d gh.G h)) (hd : isDirE o = true) :
    ValidDir gh.dirs (Listing.decode v.fatType o).cluster := by
  have hT := hM.tree
  have hcase : sCluster v.fatType o = 0 ∨ sCluster v.fatType o ∈ gh.dirs.map Prod.fst := by
    by_cases h0 : h = 0
    · right
      have ho' : o ∈ objects h (dirSlots v d gh.G h) := by unfold objects; rw [if_pos h0]; exact ho
      exact List.mem_map.2 ⟨_, hT.subdirs h hh o ho' hd, rfl⟩
    · rcases mem_dirIds.1 hh with e | ⟨p, hp⟩
      · exact absurd e h0
      · obtain ⟨s0, s1, rest, hss, hd0, hd1⟩ := hT.dots h p hp
        have hk0 := isDot_keep hd0 thisDir_first
        have hk1 := isDot_keep hd1 parentDir_first
        have e1 : entries (s0 :: s1 :: rest) = s0 :: s1 :: entries rest := by
          have := entries_split [] (s1 :: rest) s0 (fun _ h => by cases h)
          rw [List.nil_append] at this
          rw [this, if_neg hk0.1, if_pos hk0.2]
          have := entries_split [] rest s1 (fun _ h => by cases h)
          rw [List.nil_append] at this
          rw [this, if_neg hk1.1, if_pos hk1.2]
          rfl
        have ho2 := ho
        rw [hss, e1] at ho2
        rcases List.mem_cons.1 ho2 with rfl | ho2
        · right
          rw [hd0.2.2.2]
          exact List.mem_map.2 ⟨_, hp, rfl⟩
        rcases List.mem_cons.1 ho2 with rfl | ho2
        · rw [hd1.2.2.2]
          obtain ⟨i, hi⟩ := List.getElem?_of_mem hp
          rcases hT.order i h p hi with hz | hm
          · exact .inl hz
          · right
            obtain ⟨x, hx, hxp⟩ := List.mem_map.1 hm
            exact List.mem_map.2 ⟨x, List.mem_of_mem_take hx, hxp⟩
        · right
          have ho' : o ∈ objects h (dirSlots v d gh.G h) := by
            unfold objects
            rw [if_neg h0, hss, e1]
            exact ho2
          exact List.mem_map.2 ⟨_, hT.subdirs h hh o ho' hd, rfl⟩
  have hattr : sAttr o / 16 % 2 = 1 := by
    unfold isDirE at hd
    exact of_decide_eq_true hd
  have hdec := (decode_fields v.fatType o).2.2.2.2.2
  rcases hcase with hz | hm
  · left
    rw [hdec, if_pos ⟨hz, hattr⟩]
    rfl
  · right
    obtain ⟨⟨c, p⟩, hcp, hc⟩ := List.mem_map.1 hm
    have hge := dir_ge_two hT (med_heads hM) hcp
    have hne : ¬ (sCluster v.fatType o = 0 ∧ sAttr o / 16 % 2 = 1) := by
      intro hh
      have : c = sCluster v.fatType o := hc
      omega
    rw [hdec, if_neg hne]
    exact hm

theorem openDir_api {s : Mgr} {gh : Ghost} (hI : VolInv s gh) (parentDir : Nat) (name : List Nat)
    (hname : ∀ sfn, Sfn.createFromStr name = .ok sfn → sfn.head? ≠ some 0xE5) :
    ∃ gh', VolInv (openDir parentDir name s).2 gh' ∧ SameGeom gh.vol gh'.vol := by
  unfold openDir
  rw [get_bind]
  by_cases hfull : s.dirs.length ≥ s.maxDirs
  · rw [if_pos hfull]; exact ⟨gh, hI, SameGeom.refl _⟩
  rw [if_neg hfull]
  refine dirPrologue_state parentDir name _ hI fun parent volIdx sfn hpm hv hsfn => ?_
  obtain ⟨h0, vi, hvs, hvol, _⟩ := vol_of_handle hI hv
  subst h0
  have hvi : s.vols[0]? = some vi := by rw [hvs]; rfl
  rw [bind_ok (getVolInfo_ok hvi)]
  have hpv := hI.openDirs parent hpm
  by_cases hthis : sfn = Sfn.thisDir
  · rw [if_pos hthis, generate_bind, modify_bind]
    refine ⟨gh, volInv_dirs hI _ _ fun di hdi => ?_, SameGeom.refl _⟩
    rcases List.mem_append.1 hdi with hdi | hdi
    · exact hI.openDirs di hdi
    · rw [List.mem_singleton.1 hdi]; exact hpv
  · rw [if_neg hthis]
    have hro := DirMgr.findDirectoryEntry_readOnly parent.cluster sfn
    have h1 := withVol_ro_inv 0 _ hro hI
    have hw := withVol_one (Fat.findDirectoryEntry parent.cluster sfn) hvs hvol
    obtain ⟨hn, hc, hM⟩ := volInv_fs hI
    obtain ⟨fs', hfind, _⟩ := find_spec hM hn hc hpv sfn (hname sfn hsfn)
    rw [hfind] at hw
    rw [bind_def]
    rcases hrun : withVol 0 (Fat.findDirectoryEntry parent.cluster sfn) s with ⟨r, s1⟩
    rw [hrun] at h1 hw
    have hr : r = _ := congrArg Prod.fst hw
    cases r with
    | ok e =>
      simp only
      by_cases hdir : (!Attr.isDirectory e.attributes) = true
      · rw [if_pos hdir]; exact ⟨gh, h1, SameGeom.refl _⟩
      · rw [if_neg hdir, generate_bind, modify_bind]
        refine ⟨gh, volInv_dirs h1 _ _ fun di hdi => ?_, SameGeom.refl _⟩
        rcases List.mem_append.1 hdi with hdi | hdi
        · exact h1.openDirs di hdi
        · rw [List.mem_singleton.1 hdi]
          show ValidDir gh.dirs e.cluster
          simp only at hr
          cases hfo : (entries (dirSlots (fsOf s gh).vol (fsOf s gh).dev.disk gh.G (dirIdOf parent.cluster))).find?
              fun s => decide (sName s = sfn) with
          | none => rw [hfo] at hr; cases hr
          | some o =>
            rw [hfo] at hr
            have he : e = Listing.decode (fsOf s gh).vol.fatType o := Res.ok.inj hr
            have hom := List.mem_of_find?_eq_some hfo
            have hid := (validDir_id hM hpv).1
            have hde : isDirE o = true := by
              have : Attr.isDirectory (sAttr o) = true := by
                rw [← (decode_fields (fsOf s gh).vol.fatType o).2.1, ← he]
                simpa using hdir
              exact this
            rw [he]
            exact dirEntry_valid hM hid hom hde
    | err e => exact ⟨gh, h1, SameGeom.refl _⟩
    | panic m => exact ⟨gh, h1, SameGeom.refl _⟩
    | diverged => exact ⟨gh, h1, SameGeom.refl _⟩

/-! ### `flush_file`, total -/

theorem flushFile_api {s : Mgr} {gh : Ghost} (hI : VolInv s gh) (file : Nat) :
    ∃ gh', VolInv (flushFile file s).2 gh' ∧ SameGeom gh.vol gh'.vol := by
  cases hidx : s.files.findIdx? (·.rawFile = file) with
  | none =>
    unfold flushFile
    rw [bind_err (getFileById_bad hidx)]; exact ⟨gh, hI, SameGeom.refl _⟩
  | some i =>
    obtain ⟨f, hf, _⟩ := findIdx?_some_get hidx
    obtain ⟨s', hrun, _, _, _, gh', hI', hsg, _⟩ := flush_api hI hidx hf
    rw [hrun]; exact ⟨gh', hI', hsg⟩

/-! ### The calls through `step` -/

theorem step_seekStart_api {s : Mgr} {gh : Ghost} (hI : VolInv s gh) (f n : Nat) :
    ∃ gh', VolInv (step s (.seekStart f n)).1 gh' ∧ SameGeom gh.vol gh'.vol :=
  step_keeps_of (op := .seekStart f n) (fun s gh hI => by
    show ∃ gh', VolInv ((fileSeekFromStart f n >>= fun _ => (pure Payload.unit : M Payload)) s).2 gh' ∧ SameGeom gh.vol gh'.vol
    rw [seq_state]; exact seekStart_api hI f n) s gh hI

theorem step_seekCur_api {s : Mgr} {gh : Ghost} (hI : VolInv s gh) (f : Nat) (n : Int) :
    ∃ gh', VolInv (step s (.seekCur f n)).1 gh' ∧ SameGeom gh.vol gh'.vol :=
  step_keeps_of (op := .seekCur f n) (fun s gh hI => by
    show ∃ gh', VolInv ((fileSeekFromCurrent f n >>= fun _ => (pure Payload.unit : M Payload)) s).2 gh' ∧ SameGeom gh.vol gh'.vol
    rw [seq_state]; exact seekCur_api hI f n) s gh hI

theorem step_seekEnd_api {s : Mgr} {gh : Ghost} (hI : VolInv s gh) (f n : Nat) :
    ∃ gh', VolInv (step s (.seekEnd f n)).1 gh' ∧ SameGeom gh.vol gh'.vol :=
  step_keeps_of (op := .seekEnd f n) (fun s gh hI => by
    show ∃ gh', VolInv ((fileSeekFromEnd f n >>= fun _ => (pure Payload.unit : M Payload)) s).2 gh' ∧ SameGeom gh.vol gh'.vol
    rw [seq_state]; exact seekEnd_api hI f n) s gh hI

theorem step_eof_api {s : Mgr} {gh : Ghost} (hI : VolInv s gh) (f : Nat) :
    ∃ gh', VolInv (step s (.eof f)).1 gh' ∧ SameGeom gh.vol gh'.vol :=
  step_keeps_of (op := .eof f) (fun s gh hI => by
    show ∃ gh', VolInv ((fileEof f >>= fun b => (pure (Payload.bool b) : M Payload)) s).2 gh' ∧ SameGeom gh.vol gh'.vol
    rw [map_state]; exact eof_api hI f) s gh hI

theorem step_length_api {s : Mgr} {gh : Ghost} (hI : VolInv s gh) (f : Nat) :
    ∃ gh', VolInv (step s (.length f)).1 gh' ∧ SameGeom gh.vol gh'.vol :=
  step_keeps_of (op := .length f) (fun s gh hI => by
    show ∃ gh', VolInv ((fileLength f >>= fun n => (pure (Payload.num n) : M Payload)) s).2 gh' ∧ SameGeom gh.vol gh'.vol
    rw [map_state]; exact length_api hI f) s gh hI

theorem step_offset_api {s : Mgr} {gh : Ghost} (hI : VolInv s gh) (f : Nat) :
    ∃ gh', VolInv (step s (.offset f)).1 gh' ∧ SameGeom gh.vol gh'.vol :=
  step_keeps_of (op := .offset f) (fun s gh hI => by
    show ∃ gh', VolInv ((fileOffset f >>= fun n => (pure (Payload.num n) : M Payload)) s).2 gh' ∧ SameGeom gh.vol gh'.vol
    rw [map_state]; exact offset_api hI f) s gh hI

theorem step_hasOpen_api {s : Mgr} {gh : Ghost} (hI : VolInv s gh) :
    ∃ gh', VolInv (step s .hasOpen).1 gh' ∧ SameGeom gh.vol gh'.vol :=
  step_keeps_of (op := .hasOpen) (fun _ _ hI => hasOpen_api hI) s gh hI

theorem step_closeDir_api {s : Mgr} {gh : Ghost} (hI : VolInv s gh) (d : Nat) :
    ∃ gh', VolInv (step s (.closeDir d)).1 gh' ∧ SameGeom gh.vol gh'.vol :=
  step_keeps_of (op := .closeDir d) (fun s gh hI => by
    show ∃ gh', VolInv ((closeDir d >>= fun _ => (pure Payload.unit : M Payload)) s).2 gh' ∧ SameGeom gh.vol gh'.vol
    rw [seq_state]; exact closeDir_api hI d) s gh hI

theorem step_openRoot_api {s : Mgr} {gh : Ghost} (hI : VolInv s gh) (v : Nat) :
    ∃ gh', VolInv (step s (.openRoot v)).1 gh' ∧ SameGeom gh.vol gh'.vol :=
  step_keeps_of (op := .openRoot v) (fun s gh hI => by
    show ∃ gh', VolInv ((openRootDir v >>= fun h => (pure (Payload.handle h) : M Payload)) s).2 gh' ∧ SameGeom gh.vol gh'.vol
    rw [map_state]; exact openRoot_api hI v) s gh hI

theorem step_openDir_api {s : Mgr} {gh : Ghost} (hI : VolInv s gh) (d : Nat) (name : List Nat)
    (hname : ∀ sfn, Sfn.createFromStr name = .ok sfn → sfn.head? ≠ some 0xE5) :
    ∃ gh', VolInv (step s (.openDir d name)).1 gh' ∧ SameGeom gh.vol gh'.vol :=
  step_keeps_of (op := .openDir d name) (fun s gh hI => by
    show ∃ gh', VolInv ((openDir d name >>= fun h => (pure (Payload.handle h) : M Payload)) s).2 gh' ∧ SameGeom gh.vol gh'.vol
    rw [map_state]; exact openDir_api hI d name hname) s gh hI

theorem step_read_api {s : Mgr} {gh : Ghost} (hI : VolInv s gh) (f n : Nat) :
    ∃ gh', VolInv (step s (.read f n)).1 gh' ∧ SameGeom gh.vol gh'.vol :=
  step_keeps_of (op := .read f n) (fun s gh hI => by
    show ∃ gh', VolInv ((Model.read f n >>= fun b => (pure (Payload.bytes b) : M Payload)) s).2 gh' ∧ SameGeom gh.vol gh'.vol
    rw [map_state]; exact read_api hI f n) s gh hI

theorem step_find_api {s : Mgr} {gh : Ghost} (hI : VolInv s gh) (d : Nat) (name : List Nat) :
    ∃ gh', VolInv (step s (.find d name)).1 gh' ∧ SameGeom gh.vol gh'.vol :=
  step_keeps_of (op := .find d name) (fun s gh hI => by
    show ∃ gh', VolInv ((Model.findDirectoryEntry d name >>= fun e => (pure (Payload.entry e) : M Payload)) s).2 gh' ∧ SameGeom gh.vol gh'.vol
    rw [map_state]; exact find_api hI d name) s gh hI

theorem step_list_api {s : Mgr} {gh : Ghost} (hI : VolInv s gh) (d : Nat) :
    ∃ gh', VolInv (step s (.list d)).1 gh' ∧ SameGeom gh.vol gh'.vol :=
  step_keeps_of (op := .list d) (fun s gh hI => by
    show ∃ gh', VolInv ((iterateDir d >>= fun es => (pure (Payload.entries es) : M Payload)) s).2 gh' ∧ SameGeom gh.vol gh'.vol
    rw [map_state]; exact list_api hI d) s gh hI

theorem step_listLfn_api {s : Mgr} {gh : Ghost} (hI : VolInv s gh) (d bufSize : Nat) :
    ∃ gh', VolInv (step s (.listLfn d bufSize)).1 gh' ∧ SameGeom gh.vol gh'.vol :=
  step_keeps_of (op := .listLfn d bufSize) (fun s gh hI => by
    show ∃ gh', VolInv ((iterateDirLfn d bufSize >>= fun es => (pure (Payload.lfnEntries es) : M Payload)) s).2 gh' ∧ SameGeom gh.vol gh'.vol
    rw [map_state]; exact listLfn_api hI d bufSize) s gh hI

theorem step_label_api {s : Mgr} {gh : Ghost} (hI : VolInv s gh) (v : Nat) :
    ∃ gh', VolInv (step s (.label v)).1 gh' ∧ SameGeom gh.vol gh'.vol :=
  step_keeps_of (op := .label v) (fun s gh hI => by
    show ∃ gh', VolInv ((getRootVolumeLabel v >>= fun l => (pure (Payload.label l) : M Payload)) s).2 gh' ∧ SameGeom gh.vol gh'.vol
    rw [map_state]; exact label_api hI v) s gh hI

theorem step_closeVolume_api {s : Mgr} {gh : Ghost} (hI : VolInv s gh) (v : Nat) :
    ∃ gh', VolInv (step s (.closeVolume v)).1 gh' ∧ SameGeom gh.vol gh'.vol :=
  step_keeps_of (op := .closeVolume v) (fun s gh hI => by
    show ∃ gh', VolInv ((closeVolume v >>= fun _ => (pure Payload.unit : M Payload)) s).2 gh' ∧ SameGeom gh.vol gh'.vol
    rw [seq_state]; exact closeVolume_api hI v) s gh hI

theorem step_flush_api {s : Mgr} {gh : Ghost} (hI : VolInv s gh) (f : Nat) :
    ∃ gh', VolInv (step s (.flush f)).1 gh' ∧ SameGeom gh.vol gh'.vol :=
  step_keeps_of (op := .flush f) (fun s gh hI => by
    show ∃ gh', VolInv ((flushFile f >>= fun _ => (pure Payload.unit : M Payload)) s).2 gh' ∧ SameGeom gh.vol gh'.vol
    rw [seq_state]; exact flushFile_api hI f) s gh hI

theorem step_closeFile_api {s : Mgr} {gh : Ghost} (hI : VolInv s gh) (f : Nat) :
    ∃ gh', VolInv (step s (.closeFile f)).1 gh' ∧ SameGeom gh.vol gh'.vol :=
  step_keeps_of (op := .closeFile f) (fun s gh hI => by
    show ∃ gh', VolInv ((closeFile f >>= fun _ => (pure Payload.unit : M Payload)) s).2 gh' ∧ SameGeom gh.vol gh'.vol
    rw [seq_state]; exact close_api hI f) s gh hI

/-- `open_volume` while a volume is open: refused, nothing changes but the per-call logs. -/
theorem step_openVolume_api_open {s : Mgr} {gh : Ghost} (hI : VolInv s gh) (hv : s.vols ≠ []) (idx : Nat) :
    ∃ gh', VolInv (step s (.openVolume idx)).1 gh' ∧ SameGeom gh.vol gh'.vol := by
  rw [step_unlocked s _ hI.unlocked]
  have hI' := volInv_resetLogs hI
  show ∃ gh', VolInv ((openRawVolume idx >>= fun h => (pure (Payload.handle h) : M Payload)) (resetLogs s)).2 gh' ∧ SameGeom gh.vol gh'.vol
  rw [map_state, openVolume_api_open hI' (by exact hv) idx]
  exact ⟨gh, hI', SameGeom.refl _⟩

end Sdmmc.Lemmas.VolApi
