/-
Refinement of the API to the abstract file system, part 10a: `VolEng.writeNew_stage` with one more fact
exported (`writeNew_stage_x`) — in the state the entry is written into, every directory has the same slots
before its end marker as at the start (the proof is the one of `Sdmmc.Lemmas.VolEng5`, copied).
-/
import Sdmmc.Lemmas.VolEng5

namespace Sdmmc.Lemmas.VolEng
open Sdmmc.Model Sdmmc.Model.Fat Sdmmc.Spec.Volume Sdmmc.Lemmas.VolBase Sdmmc.Lemmas.VolTree
open Sdmmc.Spec hiding NoFault Coherent
open Sdmmc.Lemmas.VolDisk Sdmmc.Lemmas.VolMed Sdmmc.Lemmas.VolWalk
open Sdmmc.Lemmas.FBasic
open Sdmmc.Lemmas.FatOps hiding BlocksOK Mirror HintOK

section
variable {files : List FileInfo} {gh : Ghost} {X : List (List Nat)}

theorem writeNew_stage_x {fs : FS} (hM : MedX fs.vol fs.dev.disk files gh X) (hn : NoFault fs) (hc : Coherent fs) {dc : Nat}
    (hv : ValidDir gh.dirs dc) (name : Bytes) (att fc : Nat) (now : Timestamp) :
    ∃ r fs', writeNewDirectoryEntry dc name att fc now fs = (r, fs') ∧ NoFault fs' ∧ Coherent fs' ∧
      ((r = .err .NotEnoughSpace ∧ fs'.dev.disk = fs.dev.disk ∧ fs'.vol = fs.vol) ∨
       (∃ v1 d1 G1 pre post old, Staged fs fs' files gh X (dirIdOf dc) (fun _ => True) r v1 d1 G1 pre post old ∧
          r = .ok (DirEntry.new name att fc now old.1 old.2.1) ∧
          fs'.dev.disk = d1.set old.1 (splice (d1.get old.1) old.2.1
            (DirEntry.serialize v1.fatType (DirEntry.new name att fc now old.1 old.2.1))) ∧
          (∀ x, x ∈ dirIds gh.dirs → beforeEnd (dirSlots v1 d1 G1 x) = beforeEnd (dirSlots fs.vol fs.dev.disk gh.G x)) ∧
          (∀ t, t ∈ pre → first t ≠ 0xE5))) := by
  obtain ⟨hh, hcase⟩ := dir_walk_facts hM hv
  have hgh : MedX fs.vol fs.dev.disk files { vol := fs.vol, G := gh.G, dirs := gh.dirs } X :=
    ⟨hM.blocksOK, hM.geom, hM.hint, hM.owns, hM.tree, hM.fileOK⟩
  -- the outcome when a free slot exists in the present slot list
  have hfound : ∀ slot, (dirSlots fs.vol fs.dev.disk gh.G (dirIdOf dc)).find? isFreeSlot = some slot →
      ∀ fs', NoFault fs' → Coherent fs' → fs'.vol = fs.vol →
        fs'.dev.disk = fs.dev.disk.set slot.1 (splice (fs.dev.disk.get slot.1) slot.2.1
          (DirEntry.serialize fs.vol.fatType (DirEntry.new name att fc now slot.1 slot.2.1))) →
        ∃ v1 d1 G1 pre post old, Staged fs fs' files gh X (dirIdOf dc) (fun _ => True)
            (.ok (DirEntry.new name att fc now slot.1 slot.2.1)) v1 d1 G1 pre post old ∧
          (Res.ok (DirEntry.new name att fc now slot.1 slot.2.1) : Res DirEntry) =
            .ok (DirEntry.new name att fc now old.1 old.2.1) ∧
          fs'.dev.disk = d1.set old.1 (splice (d1.get old.1) old.2.1
            (DirEntry.serialize v1.fatType (DirEntry.new name att fc now old.1 old.2.1))) ∧
          (∀ x, x ∈ dirIds gh.dirs → beforeEnd (dirSlots v1 d1 G1 x) = beforeEnd (dirSlots fs.vol fs.dev.disk gh.G x)) ∧
          (∀ t, t ∈ pre → first t ≠ 0xE5) := by
    intro slot hfs fs' _ _ hv' hd'
    obtain ⟨pre, post, hsp, hpre, hlen, hfree⟩ := free_split hM hh hfs
    refine ⟨fs.vol, fs.dev.disk, gh.G, pre, post, slot,
      ⟨SameGeom.refl _, hgh, fun _ _ => rfl, fun _ _ _ _ _ _ => rfl, hsp, hpre, hlen, hfree, hv', rfl, fun _ _ _ _ => rfl⟩,
      rfl, hd', fun _ _ => rfl, ?_⟩
    intro t ht hE
    have hfree_t : isFreeSlot t = true := by unfold isFreeSlot; simp [hE]
    rw [hsp, List.find?_append] at hfs
    cases hfp : List.find? isFreeSlot pre with
    | none => exact absurd hfree_t (by simpa using List.find?_eq_none.1 hfp t ht)
    | some s0 =>
      rw [hfp] at hfs
      simp only [Option.some_or, Option.some.injEq] at hfs
      have hs0 : s0 ∈ pre := List.mem_of_find?_eq_some hfp
      have hnd := dirSlots_pos_nodup hM hh fs.dev.disk
      rw [hsp] at hnd
      rw [hfs] at hs0
      rw [List.map_append, List.map_cons] at hnd
      have := (List.nodup_append.1 hnd).2.2 (spos slot) (List.mem_map.2 ⟨slot, hs0, rfl⟩) (spos slot) List.mem_cons_self
      exact this rfl
  rcases hcase with ⟨hdc, h16, hsl⟩ | ⟨hkind, hnf, cs, hchain, hstart, hch, hlen, hsl⟩
  · -- the FAT16 fixed root
    subst hdc
    have := writeNew_fixedRoot fs name att fc now hn hc h16
    rw [← hsl] at this
    cases hfs : (dirSlots fs.vol fs.dev.disk gh.G (dirIdOf 4294967292)).find? isFreeSlot with
    | none =>
      rw [hfs] at this
      obtain ⟨fs', hr, hd', hv', hn', hc'⟩ := this
      exact ⟨_, fs', hr, hn', hc', .inl ⟨rfl, hd', hv'⟩⟩
    | some slot =>
      rw [hfs] at this
      obtain ⟨fs', hr, hd', hv', hn', hc', _⟩ := this
      exact ⟨_, fs', hr, hn', hc', .inr (hfound slot hfs fs' hn' hc' hv' hd')⟩
  · -- a chained directory
    cases hfs : (dirSlots fs.vol fs.dev.disk gh.G (dirIdOf dc)).find? isFreeSlot with
    | some slot =>
      obtain ⟨fs', hr, hd', hv', hn', hc', _⟩ :=
        writeNew_chain_found fs dc cs name att fc now hn hc hkind hch (by omega) slot (by rw [← hsl]; exact hfs)
      exact ⟨_, fs', hr, hn', hc', .inr (hfound slot hfs fs' hn' hc' hv' hd')⟩
    | none =>
      obtain ⟨s1, hd1, hv1, hn1, hc1, _, hall⟩ :=
        writeNew_chain_full fs dc cs name att fc now hn hc hkind hch (by omega) (by rw [← hsl]; exact hfs)
      have hM1 : MedX s1.vol s1.dev.disk files gh X := by rw [hd1, hv1]; exact hM
      -- the last cluster of the chain
      have hne : (Listing.startCluster fs.vol dc :: cs) ≠ [] := by simp
      obtain ⟨pre, hpre⟩ : ∃ pre, Listing.startCluster fs.vol dc :: cs =
          pre ++ [(Listing.startCluster fs.vol dc :: cs).getLast hne] :=
        ⟨_, (List.dropLast_append_getLast hne).symm⟩
      generalize hp : (Listing.startCluster fs.vol dc :: cs).getLast hne = p at hpre hall
      rcases ForestAlloc.alloc_total s1 (some p) true hn1 hc1 with ⟨c, s2, ha⟩ | ⟨s2, ha, hd2, hv2, hn2, hc2⟩
      · -- the directory grows
        have hcs1 : chainOf gh.G (dirHead s1.vol (dirIdOf dc)) = pre ++ [p] := by rw [hv1, hchain, hpre]
        obtain ⟨hn2, hc2, hsg, G1, hM2, hch1, hsl1, hzero, hoth, hkeep, hcR, hcnot, hheads1, hchains1⟩ :=
          grow_med hM1 hn1 hc1 hh (by rw [hv1]; exact hnf) hcs1 ha
        rw [hv1, hd1] at hsl1 hoth hkeep
        rw [hv1] at hsg hzero hcR hchains1
        have hbpc : s2.vol.blocksPerCluster = fs.vol.blocksPerCluster := WriteRefines.sameGeom_bpc hsg
        have hctb : clusterToBlock s2.vol c = clusterToBlock fs.vol c := WriteRefines.sameGeom_clusterToBlock hsg c
        have hpos : 0 < fs.vol.blocksPerCluster := hM.geom.bpc_pos
        have hfirst := find?_isFreeSlot_first s2.dev.disk (clusterToBlock fs.vol c) fs.vol.blocksPerCluster hpos (by
          have := hzero 0 hpos
          rw [Nat.add_zero] at this
          rw [this]; decide)
        obtain ⟨r, fs', hrun⟩ : ∃ r fs', writeNewDirectoryEntry dc name att fc now fs = (r, fs') := ⟨_, _, rfl⟩
        rcases hall r fs' hrun with ⟨e, s2', ha', _, _⟩ | ⟨m, s2', ha', _, _⟩ | ⟨s2', ha', _, _⟩ | ⟨c', s2', ha', _, hslot⟩
        · rw [ha] at ha'; cases ha'
        · rw [ha] at ha'; cases ha'
        · rw [ha] at ha'; cases ha'
        · rw [ha] at ha'
          obtain ⟨rfl, rfl⟩ : c = c' ∧ s2 = s2' := by
            have := Prod.mk.inj ha'
            exact ⟨by injection this.1, this.2⟩
          obtain ⟨hr, hd', hv', hn', hc', _, _, _⟩ := hslot _ (by rw [hbpc, hctb]; exact hfirst) hn2 hc2
          refine ⟨r, fs', hrun, hn', hc', .inr ?_⟩
          -- the split of the grown directory
          have hall_nz : ∀ s, s ∈ dirSlots fs.vol fs.dev.disk gh.G (dirIdOf dc) → first s ≠ 0 := by
            intro s hs h0
            have := List.find?_eq_none.1 hfs s hs
            unfold isFreeSlot at this
            simp [h0] at this
          obtain ⟨hfree, as, bs, hrun2, has⟩ := List.find?_eq_some_iff_append.1 hfirst
          have has_nil : as = [] := by
            cases as with
            | nil => rfl
            | cons a l =>
              exfalso
              have hmem : a ∈ runSlots s2.dev.disk (clusterToBlock fs.vol c) fs.vol.blocksPerCluster := by
                rw [hrun2]; exact List.mem_append_left _ List.mem_cons_self
              have h0 := runSlots_zero hzero a hmem
              have := has a List.mem_cons_self
              unfold isFreeSlot at this
              simp [h0] at this
          rw [has_nil, List.nil_append] at hrun2
          refine ⟨s2.vol, s2.dev.disk, G1, dirSlots fs.vol fs.dev.disk gh.G (dirIdOf dc), bs, _,
            ⟨hsg, hM2, ?_, ?_, ?_, hall_nz, ?_, ?_, hv', ?_, ?_⟩, hr, hd', ?_, ?_⟩
          · intro x hx
            by_cases hxh : x = dirIdOf dc
            · rw [hxh, hsl1, entries_append_zeros _ _ (runSlots_zero hzero)]
            · rw [hoth x hx hxh]
          · intro c' j h2 hE hex hj
            obtain ⟨cs', hcs', hc'⟩ := hex
            exact hkeep c' j h2 hE (fun e => hcnot cs' hcs' (e ▸ hc')) hj
          · rw [hsl1, hrun2]
          · intro h0
            rcases mem_dirIds.1 hh with e | ⟨q, hq⟩
            · exact absurd e h0
            · obtain ⟨s0, s1', rest, hss, _, _⟩ := hM.tree.dots _ q hq
              rw [hss]; simp
          · unfold isFreeSlot at hfree
            simpa [freeSlot] using hfree
          · exact hheads1
          · intro x _ hxr hxd
            apply hchains1
            intro e
            rcases dirHead_cases hh hnf with h1 | h1
            · exact hxr (e ▸ h1)
            · exact hxd (e ▸ h1)
          · intro x hx
            by_cases hxh : x = dirIdOf dc
            · rw [hxh, hsl1, beforeEnd_append_zeros _ _ (runSlots_zero hzero)]
            · rw [hoth x hx hxh]
          · intro t ht hE
            have := List.find?_eq_none.1 hfs t ht
            unfold isFreeSlot at this
            simp [hE] at this
      · -- the volume is full
        obtain ⟨r, fs', hrun⟩ : ∃ r fs', writeNewDirectoryEntry dc name att fc now fs = (r, fs') := ⟨_, _, rfl⟩
        rcases hall r fs' hrun with ⟨e, s2', ha', hr, hs'⟩ | ⟨m, s2', ha', _, _⟩ | ⟨s2', ha', _, _⟩ | ⟨c', s2', ha', _, _⟩
        · rw [ha] at ha'
          obtain ⟨rfl, rfl⟩ : Err.NotEnoughSpace = e ∧ s2 = s2' := by
            have := Prod.mk.inj ha'
            exact ⟨by injection this.1, this.2⟩
          subst hs'
          exact ⟨r, fs', hrun, hn2, hc2, .inl ⟨hr, hd2.trans hd1, hv2.trans hv1⟩⟩
        · rw [ha] at ha'; cases ha'
        · rw [ha] at ha'; cases ha'
        · rw [ha] at ha'; cases ha'


end

end Sdmmc.Lemmas.VolEng
