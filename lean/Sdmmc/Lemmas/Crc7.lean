import Sdmmc.Lemmas.Crc16Poly

namespace Sdmmc.Lemmas.Crc
open Sdmmc.Model Sdmmc.Spec Sdmmc.Gen

/-! ## The CRC-7 LFSR on `BitVec 7` -/

/-- The low seven coefficients of `x^7 + x^3 + 1`. -/
def P7 : BitVec 7 := 0x09#7

def pmask7 (b : Bool) : BitVec 7 := if b then P7 else 0#7
def one7 (b : Bool) : BitVec 7 := if b then 1#7 else 0#7

/-- Multiplication by `x` modulo `G7`. -/
def mulX7 (r : BitVec 7) : BitVec 7 := (r <<< 1) ^^^ pmask7 r.msb

/-- Direct-form bit step. -/
def D7 (r : BitVec 7) (b : Bool) : BitVec 7 := mulX7 r ^^^ pmask7 b

/-- Zero-append-form bit step. -/
def A7 (r : BitVec 7) (b : Bool) : BitVec 7 := mulX7 r ^^^ one7 b

theorem pmask7_xor (a b : Bool) : pmask7 (a != b) = pmask7 a ^^^ pmask7 b := by
  cases a <;> cases b <;> simp [pmask7]

theorem mulX7_xor (a b : BitVec 7) : mulX7 (a ^^^ b) = mulX7 a ^^^ mulX7 b := by
  simp only [mulX7, BitVec.msb_xor, pmask7_xor, BitVec.shiftLeft_xor_distrib]
  ac_rfl

/-! ## The implementation's bit step, seen on the low seven bits of its register -/

/-- `crc7BitStep` with the data bit abstracted to a `Bool`. -/
def crc7Bit' (crc : BitVec 8) (b : Bool) : BitVec 8 :=
  let crc := crc <<< 1
  if ((if b then 0x80#8 else 0#8) ^^^ (crc &&& 0x80#8)) != 0#8 then crc ^^^ BitVec.ofNat 8 crc7Poly
  else crc

theorem and_0x80 : ∀ d : BitVec 8, d &&& 0x80#8 = if d.msb then 0x80#8 else 0#8 := by
  decide +kernel

theorem crc7BitStep_eq (st : BitVec 8 × BitVec 8) :
    crc7BitStep st = (crc7Bit' st.1 st.2.msb, st.2 <<< 1) := by
  simp only [crc7BitStep, crc7Bit', and_0x80 st.2]

theorem crc7Bit'_setWidth : ∀ (crc : BitVec 8) (b : Bool),
    (crc7Bit' crc b).setWidth 7 = D7 (crc.setWidth 7) b := by
  decide +kernel

theorem msb_shl : ∀ d : BitVec 8,
    [d.msb, (d <<< 1).msb, (d <<< 1 <<< 1).msb, (d <<< 1 <<< 1 <<< 1).msb,
     (d <<< 1 <<< 1 <<< 1 <<< 1).msb, (d <<< 1 <<< 1 <<< 1 <<< 1 <<< 1).msb,
     (d <<< 1 <<< 1 <<< 1 <<< 1 <<< 1 <<< 1).msb,
     (d <<< 1 <<< 1 <<< 1 <<< 1 <<< 1 <<< 1 <<< 1).msb] = byteBits d := by
  decide +kernel

theorem crc7ByteStep_setWidth (crc d : BitVec 8) :
    (crc7ByteStep crc d).setWidth 7 = (byteBits d).foldl D7 (crc.setWidth 7) := by
  rw [← msb_shl d]
  simp only [crc7ByteStep, crc7BitStep_eq, crc7Bit'_setWidth, List.foldl_cons, List.foldl_nil]

theorem crc7Raw_setWidth (m : List (BitVec 8)) : ∀ s : BitVec 8,
    (m.foldl crc7ByteStep s).setWidth 7 = (msgBits m).foldl D7 (s.setWidth 7) := by
  induction m with
  | nil => intro s; rfl
  | cons d m ih =>
    intro s
    rw [List.foldl_cons, ih, crc7ByteStep_setWidth]
    simp only [msgBits, List.flatMap_cons, List.foldl_append]

/-! ## Long division by `G7` -/

/-- MSB-first bits of a 7-bit register. -/
def bits7 (r : BitVec 7) : List Bool :=
  [r.getLsbD 6, r.getLsbD 5, r.getLsbD 4, r.getLsbD 3, r.getLsbD 2, r.getLsbD 1, r.getLsbD 0]

theorem bits7_A7_true (a : BitVec 7) (b : Bool) (rest : List Bool) (h : a.getLsbD 6 = true) :
    xorPrefix G7.tail ([a.getLsbD 5, a.getLsbD 4, a.getLsbD 3, a.getLsbD 2, a.getLsbD 1,
      a.getLsbD 0, b] ++ rest) = bits7 (A7 a b) ++ rest := by
  have hm : a.msb = true := by rw [BitVec.msb_eq_getLsbD_last]; exact h
  cases b <;>
  simp [G7, xorPrefix, bits7, A7, mulX7, hm, pmask7, one7, P7]

theorem bits7_A7_false (a : BitVec 7) (b : Bool) (h : a.getLsbD 6 = false) :
    [a.getLsbD 5, a.getLsbD 4, a.getLsbD 3, a.getLsbD 2, a.getLsbD 1, a.getLsbD 0, b]
      = bits7 (A7 a b) := by
  have hm : a.msb = false := by rw [BitVec.msb_eq_getLsbD_last]; exact h
  cases b <;>
  simp [bits7, A7, mulX7, hm, pmask7, one7]

theorem polyRem_bits7 (rest : List Bool) : ∀ a : BitVec 7,
    polyRem G7 (bits7 a ++ rest) = bits7 (rest.foldl A7 a) := by
  induction rest with
  | nil => intro a; simp [polyRem_short, bits7, G7]
  | cons b rest ih =>
    intro a
    rw [List.foldl_cons, ← ih (A7 a b)]
    have hl : G7.length ≤ ([a.getLsbD 5, a.getLsbD 4, a.getLsbD 3, a.getLsbD 2, a.getLsbD 1,
      a.getLsbD 0, b] ++ rest).length + 1 := by
      simp [G7]
    have e : bits7 a ++ b :: rest = a.getLsbD 6 :: ([a.getLsbD 5, a.getLsbD 4, a.getLsbD 3,
      a.getLsbD 2, a.getLsbD 1, a.getLsbD 0, b] ++ rest) := by simp [bits7]
    rw [e, polyRem_cons _ _ _ hl]
    cases h : a.getLsbD 6
    · rw [if_neg (by simp), ← bits7_A7_false a b h]
    · rw [if_pos rfl, bits7_A7_true a b rest h]

theorem bitsToBV_bits7 : ∀ a : BitVec 7, bitsToBV 8 (bits7 a) = a.setWidth 8 := by
  decide +kernel

theorem polyRem7_false (bs : List Bool) (h : 7 ≤ bs.length) :
    polyRem G7 (false :: bs) = polyRem G7 bs := by
  rw [polyRem_cons _ _ _ (by simp [G7]; omega)]; simp

theorem polyRem_eq_A7 (l : List Bool) (h : 7 ≤ l.length) :
    polyRem G7 l = bits7 (l.foldl A7 0#7) := by
  rw [← polyRem_bits7]
  have : bits7 0#7 = List.replicate 7 false := by decide
  rw [this]
  simp only [List.replicate, List.cons_append, List.nil_append]
  repeat rw [polyRem7_false _ (by first | exact h | (simp only [List.length_cons]; omega))]

/-- `mulX7` iterated. -/
def mulXpow7 : Nat → BitVec 7 → BitVec 7
  | 0, r => r
  | n + 1, r => mulXpow7 n (mulX7 r)

theorem mulXpow7_xor (n : Nat) : ∀ a b, mulXpow7 n (a ^^^ b) = mulXpow7 n a ^^^ mulXpow7 n b := by
  induction n with
  | zero => intro a b; rfl
  | succ n ih => intro a b; simp only [mulXpow7, mulX7_xor, ih]

theorem mulXpow7_mulX7 (n : Nat) : ∀ a, mulXpow7 n (mulX7 a) = mulX7 (mulXpow7 n a) := by
  induction n with
  | zero => intro a; rfl
  | succ n ih => intro a; simp only [mulXpow7, ih]

theorem mulXpow7_one7 (b : Bool) : mulXpow7 7 (one7 b) = pmask7 b := by
  cases b <;> decide

theorem foldl_A7_zeros (n : Nat) : ∀ a, (List.replicate n false).foldl A7 a = mulXpow7 n a := by
  induction n with
  | zero => intro a; rfl
  | succ n ih => intro a; simp [List.replicate, ih, mulXpow7, A7, one7]

theorem foldl_D7_eq (bits : List Bool) : ∀ a,
    bits.foldl D7 (mulXpow7 7 a) = mulXpow7 7 (bits.foldl A7 a) := by
  induction bits with
  | nil => intro a; rfl
  | cons b bits ih =>
    intro a
    rw [List.foldl_cons, List.foldl_cons, ← ih]
    congr 1
    rw [A7, mulXpow7_xor, mulXpow7_mulX7, mulXpow7_one7, D7]

theorem foldl_D7_zero (bits : List Bool) :
    bits.foldl D7 0#7 = (bits ++ List.replicate 7 false).foldl A7 0#7 := by
  rw [List.foldl_append, foldl_A7_zeros, ← foldl_D7_eq]
  rfl

theorem shl_setWidth7 : ∀ r : BitVec 8, (r.setWidth 7).setWidth 8 <<< 1 = r <<< 1 := by
  decide +kernel

theorem crc7_eq_spec (m : List (BitVec 8)) : crc7 m = specCrc7 m := by
  rw [specCrc7, polyRem_eq_A7 _ (by simp), bitsToBV_bits7, ← foldl_D7_zero]
  have := crc7Raw_setWidth m 0#8
  rw [show (0#8).setWidth 7 = 0#7 from rfl] at this
  rw [← this, shl_setWidth7]
  rfl

end Sdmmc.Lemmas.Crc
