/-
Volume invariant (C03), layer 1b: the slot lists of `Sdmmc.Spec.Volume` (`blockSlots`, `runSlots`,
`chainSlots`, `fixedRootSlots`) and the medium —

1. membership and shape;
2. congruence (media that agree on the blocks read, volume records with the same geometry);
3. in which region of the volume the slots live;
4. the positions of the slots of a directory are distinct, those of distinct directories disjoint;
5. one slot rewritten (`upd`) resp. its first byte set (`updFirst`);
6. blank blocks;
7. the field readers of a serialised entry, and `Listing.decode` vs. the readers.
-/
import Mathlib.Data.List.Nodup
import Sdmmc.Lemmas.VolTree
import Sdmmc.Lemmas.FatLens
import Sdmmc.Lemmas.WriteRefinesBytes
import Sdmmc.Lemmas.DirSlots
import Sdmmc.Lemmas.C18

namespace Sdmmc.Lemmas.VolDisk
open Sdmmc.Model Sdmmc.Model.Fat Sdmmc.Spec Sdmmc.Spec.Volume Sdmmc.Lemmas.VolTree

/-! ### 1. Membership and shape -/

theorem mem_blockSlots {b : Nat} {blk : Block} {s : Slot} :
    s ∈ blockSlots b blk ↔ ∃ i, i < 16 ∧ s = (b, 32 * i, (blk.drop (32 * i)).take 32) := by
  unfold blockSlots
  simp only [List.mem_map, List.mem_range]
  constructor
  · rintro ⟨i, hi, rfl⟩; exact ⟨i, hi, rfl⟩
  · rintro ⟨i, hi, rfl⟩; exact ⟨i, hi, rfl⟩

theorem mem_runSlots {d : Disk} {b n : Nat} {s : Slot} :
    s ∈ runSlots d b n ↔
      ∃ j i, j < n ∧ i < 16 ∧ s = (b + j, 32 * i, ((d.get (b + j)).drop (32 * i)).take 32) := by
  unfold runSlots
  simp only [List.mem_flatMap, List.mem_range, mem_blockSlots]
  constructor
  · rintro ⟨j, hj, i, hi, rfl⟩; exact ⟨j, i, hj, hi, rfl⟩
  · rintro ⟨j, i, hj, hi, rfl⟩; exact ⟨j, hj, i, hi, rfl⟩

theorem mem_chainSlots {v : FatVolume} {d : Disk} {cs : List Nat} {s : Slot} :
    s ∈ chainSlots v d cs ↔ ∃ c, c ∈ cs ∧ s ∈ runSlots d (clusterToBlock v c) v.blocksPerCluster := by
  unfold chainSlots
  simp only [List.mem_flatMap]

theorem slot_length_of_mem_runSlots {d : Disk} {b n : Nat} {s : Slot} (hb : BlocksOK d)
    (h : s ∈ runSlots d b n) : s.2.2.length = 32 := by
  obtain ⟨j, i, _, hi, rfl⟩ := mem_runSlots.1 h
  exact (Listing.slot_bytes (d.get (b + j)) (hb (b + j)) i hi).1

theorem blockSlots_length (b : Nat) (blk : Block) : (blockSlots b blk).length = 16 := by
  unfold blockSlots
  rw [List.length_map, List.length_range]

theorem runSlots_zero_len (d : Disk) (b : Nat) : runSlots d b 0 = [] := rfl

theorem runSlots_one (d : Disk) (b : Nat) : runSlots d b 1 = blockSlots b (d.get b) := by
  show ([0].flatMap fun j => blockSlots (b + j) (d.get (b + j))) = _
  rw [List.flatMap_cons, List.flatMap_nil, List.append_nil, Nat.add_zero]

theorem runSlots_append (d : Disk) (b n m : Nat) :
    runSlots d b (n + m) = runSlots d b n ++ runSlots d (b + n) m := by
  unfold runSlots
  rw [List.range_add, List.flatMap_append, List.flatMap_map]
  congr 1
  apply List.flatMap_congr
  intro j _
  rw [Nat.add_assoc]

theorem runSlots_succ (d : Disk) (b n : Nat) :
    runSlots d b (n + 1) = runSlots d b n ++ blockSlots (b + n) (d.get (b + n)) := by
  rw [runSlots_append, runSlots_one]

theorem runSlots_length (d : Disk) (b n : Nat) : (runSlots d b n).length = 16 * n := by
  induction n with
  | zero => rfl
  | succ n ih => rw [runSlots_succ, List.length_append, ih, blockSlots_length]; omega

theorem chainSlots_nil (v : FatVolume) (d : Disk) : chainSlots v d [] = [] := rfl

theorem chainSlots_cons (v : FatVolume) (d : Disk) (c : Nat) (cs : List Nat) :
    chainSlots v d (c :: cs) = runSlots d (clusterToBlock v c) v.blocksPerCluster ++ chainSlots v d cs := by
  unfold chainSlots
  rw [List.flatMap_cons]

theorem chainSlots_append (v : FatVolume) (d : Disk) (cs cs' : List Nat) :
    chainSlots v d (cs ++ cs') = chainSlots v d cs ++ chainSlots v d cs' := by
  unfold chainSlots
  rw [List.flatMap_append]

theorem chainSlots_length (v : FatVolume) (d : Disk) (cs : List Nat) :
    (chainSlots v d cs).length = 16 * v.blocksPerCluster * cs.length := by
  induction cs with
  | nil => rfl
  | cons c cs ih =>
    rw [chainSlots_cons, List.length_append, ih, runSlots_length, List.length_cons, Nat.mul_succ]
    omega

theorem slot_length_of_mem_chainSlots {v : FatVolume} {d : Disk} {cs : List Nat} {s : Slot} (hb : BlocksOK d)
    (h : s ∈ chainSlots v d cs) : s.2.2.length = 32 := by
  obtain ⟨c, _, hs⟩ := mem_chainSlots.1 h
  exact slot_length_of_mem_runSlots hb hs

theorem slot_length_of_mem_fixedRootSlots {v : FatVolume} {d : Disk} {s : Slot} (hb : BlocksOK d)
    (h : s ∈ fixedRootSlots v d) : s.2.2.length = 32 :=
  slot_length_of_mem_runSlots hb h

/-! ### 2. Congruence -/

theorem runSlots_congr {d d' : Disk} {b n : Nat} (h : ∀ j, j < n → d'.get (b + j) = d.get (b + j)) :
    runSlots d' b n = runSlots d b n := by
  unfold runSlots
  apply List.flatMap_congr
  intro j hj
  rw [h j (List.mem_range.1 hj)]

theorem chainSlots_congr {v : FatVolume} {d d' : Disk} {cs : List Nat}
    (h : ∀ c, c ∈ cs → ∀ j, j < v.blocksPerCluster →
      d'.get (clusterToBlock v c + j) = d.get (clusterToBlock v c + j)) :
    chainSlots v d' cs = chainSlots v d cs := by
  unfold chainSlots
  apply List.flatMap_congr
  intro c hc
  exact runSlots_congr (h c hc)

theorem chainSlots_of_not_clusterBlock {v : FatVolume} {d d' : Disk} {cs : List Nat}
    (h : ∀ b, IsClusterBlock v cs b → d'.get b = d.get b) : chainSlots v d' cs = chainSlots v d cs :=
  chainSlots_congr fun c hc _ hj => h _ ⟨c, hc, Nat.le_add_right _ _, Nat.add_lt_add_left hj _⟩

theorem chainSlots_sameGeom {v v' : FatVolume} (h : SameGeom v v') (d : Disk) (cs : List Nat) :
    chainSlots v' d cs = chainSlots v d cs := by
  unfold chainSlots
  rw [WriteRefines.sameGeom_bpc h]
  apply List.flatMap_congr
  intro c _
  rw [WriteRefines.sameGeom_clusterToBlock h]

theorem fixedRootSlots_sameGeom {v v' : FatVolume} (h : SameGeom v v') (d : Disk) :
    fixedRootSlots v' d = fixedRootSlots v d := by
  obtain ⟨cnt, hint, rfl⟩ := h
  rfl

theorem fixedRootSlots_congr {v : FatVolume} {d d' : Disk}
    (h : ∀ b, v.lbaStart + v.firstRootDirBlock ≤ b →
      b < v.lbaStart + v.firstRootDirBlock + blockCountFromBytes (v.rootEntriesCount * 32) →
      d'.get b = d.get b) :
    fixedRootSlots v d' = fixedRootSlots v d :=
  runSlots_congr fun _ hj => h _ (Nat.le_add_right _ _) (Nat.add_lt_add_left hj _)

/-! ### 3. Where the slots live -/

theorem runSlots_block {d : Disk} {b n : Nat} {s : Slot} (h : s ∈ runSlots d b n) : b ≤ s.1 ∧ s.1 < b + n := by
  obtain ⟨j, i, hj, _, rfl⟩ := mem_runSlots.1 h
  exact ⟨Nat.le_add_right _ _, Nat.add_lt_add_left hj _⟩

theorem chainSlots_block {v : FatVolume} {d : Disk} {cs : List Nat} {s : Slot} (h : s ∈ chainSlots v d cs) :
    IsClusterBlock v cs s.1 := by
  obtain ⟨c, hc, hs⟩ := mem_chainSlots.1 h
  exact ⟨c, hc, runSlots_block hs⟩

theorem chainSlots_region {v : FatVolume} {d : Disk} {cs : List Nat} {s : Slot} (hg : WFGeom v)
    (hr : ∀ c, c ∈ cs → InRange v c) (h : s ∈ chainSlots v d cs) : regionOf v s.1 = .data :=
  WriteRefines.isClusterBlock_region hg hr (chainSlots_block h)

theorem fixedRootSlots_block {v : FatVolume} {d : Disk} {s : Slot} (h : s ∈ fixedRootSlots v d) :
    v.lbaStart + v.firstRootDirBlock ≤ s.1 ∧
    s.1 < v.lbaStart + v.firstRootDirBlock + blockCountFromBytes (v.rootEntriesCount * 32) :=
  runSlots_block h

theorem fixedRootSlots_region {v : FatVolume} {d : Disk} {s : Slot} (hg : WFGeom v) (h16 : v.fatType = .fat16)
    (h : s ∈ fixedRootSlots v d) : regionOf v s.1 = .root := by
  obtain ⟨j, i, hj, _, rfl⟩ := mem_runSlots.1 h
  exact FatLens.root_blocks_in_root_region v hg h16 j hj

theorem slot_offset {d : Disk} {b n : Nat} {s : Slot} (h : s ∈ runSlots d b n) : ∃ i, i < 16 ∧ s.2.1 = 32 * i := by
  obtain ⟨j, i, _, hi, rfl⟩ := mem_runSlots.1 h
  exact ⟨i, hi, rfl⟩

theorem slot_offset_chain {v : FatVolume} {d : Disk} {cs : List Nat} {s : Slot} (h : s ∈ chainSlots v d cs) :
    ∃ i, i < 16 ∧ s.2.1 = 32 * i := by
  obtain ⟨c, _, hs⟩ := mem_chainSlots.1 h
  exact slot_offset hs

theorem slot_offset_fixedRoot {v : FatVolume} {d : Disk} {s : Slot} (h : s ∈ fixedRootSlots v d) :
    ∃ i, i < 16 ∧ s.2.1 = 32 * i :=
  slot_offset h

/-- The bytes of a slot are what the medium holds at its position. -/
theorem slot_bytes_of_mem_runSlots {d : Disk} {b n : Nat} {s : Slot} (h : s ∈ runSlots d b n) :
    s.2.2 = ((d.get s.1).drop s.2.1).take 32 := by
  obtain ⟨j, i, _, _, rfl⟩ := mem_runSlots.1 h
  rfl

theorem slot_bytes_of_mem_chainSlots {v : FatVolume} {d : Disk} {cs : List Nat} {s : Slot}
    (h : s ∈ chainSlots v d cs) : s.2.2 = ((d.get s.1).drop s.2.1).take 32 := by
  obtain ⟨c, _, hs⟩ := mem_chainSlots.1 h
  exact slot_bytes_of_mem_runSlots hs

theorem slot_bytes_of_mem_fixedRootSlots {v : FatVolume} {d : Disk} {s : Slot}
    (h : s ∈ fixedRootSlots v d) : s.2.2 = ((d.get s.1).drop s.2.1).take 32 :=
  slot_bytes_of_mem_runSlots h

/-! ### 4. Positions are distinct -/

theorem blockSlots_pos_nodup (b : Nat) (blk : Block) : ((blockSlots b blk).map spos).Nodup := by
  unfold blockSlots
  rw [List.map_map]
  apply List.Nodup.map _ List.nodup_range
  intro i i' h
  have h2 : 32 * i = 32 * i' := (Prod.mk.inj h).2
  omega

theorem runSlots_pos_nodup (d : Disk) (b n : Nat) : ((runSlots d b n).map spos).Nodup := by
  induction n with
  | zero => exact List.nodup_nil
  | succ n ih =>
    rw [runSlots_succ, List.map_append, List.nodup_append]
    refine ⟨ih, blockSlots_pos_nodup _ _, ?_⟩
    intro p hp q hq hpq
    obtain ⟨s, hs, rfl⟩ := List.mem_map.1 hp
    obtain ⟨t, ht, rfl⟩ := List.mem_map.1 hq
    have h1 := (runSlots_block hs).2
    obtain ⟨i, _, rfl⟩ := mem_blockSlots.1 ht
    have h2 : s.1 = b + n := (Prod.mk.inj hpq).1
    omega

theorem chainSlots_pos_disjoint {v : FatVolume} {d d' : Disk} {cs cs' : List Nat} (hg : WFGeom v)
    (hr : ∀ c, c ∈ cs → InRange v c) (hr' : ∀ c, c ∈ cs' → InRange v c)
    (hdis : ∀ c, c ∈ cs → c ∉ cs') {s t : Slot} (hs : s ∈ chainSlots v d cs) (ht : t ∈ chainSlots v d' cs') :
    spos s ≠ spos t := by
  intro he
  obtain ⟨c, hc, hs⟩ := mem_chainSlots.1 hs
  obtain ⟨c', hc', ht⟩ := mem_chainSlots.1 ht
  obtain ⟨j, i, hj, _, rfl⟩ := mem_runSlots.1 hs
  obtain ⟨j', i', hj', _, rfl⟩ := mem_runSlots.1 ht
  have h1 : clusterToBlock v c + j = clusterToBlock v c' + j' := (Prod.mk.inj he).1
  obtain ⟨e, _⟩ := FatLens.cluster_blocks_disjoint_of_lt v hg c c' j j' (hr c hc).1 (hr' c' hc').1
    (hr c hc).2 (hr' c' hc').2 hj hj' h1
  exact hdis c hc (e ▸ hc')

theorem chainSlots_pos_nodup {v : FatVolume} {d : Disk} {cs : List Nat} (hg : WFGeom v) (hnd : cs.Nodup)
    (hr : ∀ c, c ∈ cs → InRange v c) : ((chainSlots v d cs).map spos).Nodup := by
  induction cs with
  | nil => exact List.nodup_nil
  | cons c cs ih =>
    rw [List.nodup_cons] at hnd
    rw [chainSlots_cons, List.map_append, List.nodup_append]
    refine ⟨runSlots_pos_nodup _ _ _, ih hnd.2 fun x hx => hr x (List.mem_cons_of_mem _ hx), ?_⟩
    intro p hp q hq hpq
    obtain ⟨s, hs, rfl⟩ := List.mem_map.1 hp
    obtain ⟨t, ht, rfl⟩ := List.mem_map.1 hq
    have hs' : s ∈ chainSlots v d [c] := by
      rw [chainSlots_cons, chainSlots_nil, List.append_nil]; exact hs
    refine chainSlots_pos_disjoint (cs := [c]) (cs' := cs) hg ?_ (fun x hx => hr x (List.mem_cons_of_mem _ hx)) ?_
      hs' ht hpq
    · intro x hx
      rw [List.mem_singleton] at hx
      subst hx
      exact hr x List.mem_cons_self
    · intro x hx
      rw [List.mem_singleton] at hx
      subst hx
      exact hnd.1

theorem fixedRoot_chain_pos_disjoint {v : FatVolume} {d d' : Disk} {cs : List Nat} (hg : WFGeom v)
    (h16 : v.fatType = .fat16) (hr : ∀ c, c ∈ cs → InRange v c)
    {s t : Slot} (hs : s ∈ fixedRootSlots v d) (ht : t ∈ chainSlots v d' cs) : spos s ≠ spos t := by
  intro he
  have h1 := fixedRootSlots_region hg h16 hs
  have h2 := chainSlots_region hg hr ht
  have h3 : s.1 = t.1 := (Prod.mk.inj he).1
  rw [h3, h2] at h1
  cases h1

/-! ### 5. One slot rewritten, resp. its first byte set -/

/-- replace the bytes of the slot at position `k` -/
def upd (k : Nat × Nat) (bytes : Bytes) (s : Slot) : Slot := if spos s = k then (s.1, s.2.1, bytes) else s
/-- set the first byte of the slot at position `k` -/
def updFirst (k : Nat × Nat) (x : UInt8) (s : Slot) : Slot :=
  if spos s = k then (s.1, s.2.1, s.2.2.set 0 x) else s

theorem upd_of_eq {k : Nat × Nat} {bytes : Bytes} {s : Slot} (h : spos s = k) :
    upd k bytes s = (s.1, s.2.1, bytes) := if_pos h
theorem upd_of_ne {k : Nat × Nat} {bytes : Bytes} {s : Slot} (h : spos s ≠ k) : upd k bytes s = s := if_neg h
theorem updFirst_of_eq {k : Nat × Nat} {x : UInt8} {s : Slot} (h : spos s = k) :
    updFirst k x s = (s.1, s.2.1, s.2.2.set 0 x) := if_pos h
theorem updFirst_of_ne {k : Nat × Nat} {x : UInt8} {s : Slot} (h : spos s ≠ k) : updFirst k x s = s := if_neg h

theorem upd_pos (k : Nat × Nat) (bytes : Bytes) (s : Slot) : spos (upd k bytes s) = spos s := by
  unfold upd; split <;> rfl
theorem updFirst_pos (k : Nat × Nat) (x : UInt8) (s : Slot) : spos (updFirst k x s) = spos s := by
  unfold updFirst; split <;> rfl

theorem map_upd_pos (k : Nat × Nat) (bytes : Bytes) (ss : List Slot) : (ss.map (upd k bytes)).map spos = ss.map spos := by
  rw [List.map_map]
  exact List.map_congr_left fun s _ => upd_pos k bytes s
theorem map_updFirst_pos (k : Nat × Nat) (x : UInt8) (ss : List Slot) :
    (ss.map (updFirst k x)).map spos = ss.map spos := by
  rw [List.map_map]
  exact List.map_congr_left fun s _ => updFirst_pos k x s

theorem map_upd_id {ss : List Slot} {k : Nat × Nat} {bytes : Bytes} (h : ∀ s, s ∈ ss → spos s ≠ k) :
    ss.map (upd k bytes) = ss := by
  have : ss.map (upd k bytes) = ss.map id := List.map_congr_left fun s hs => upd_of_ne (h s hs)
  rw [this, List.map_id]

theorem map_updFirst_id {ss : List Slot} {k : Nat × Nat} {x : UInt8} (h : ∀ s, s ∈ ss → spos s ≠ k) :
    ss.map (updFirst k x) = ss := by
  have : ss.map (updFirst k x) = ss.map id := List.map_congr_left fun s hs => updFirst_of_ne (h s hs)
  rw [this, List.map_id]

/-- In a list with distinct positions, the slots around `old` sit elsewhere. -/
theorem split_pos_ne {pre post : List Slot} {old : Slot} (hnd : ((pre ++ old :: post).map spos).Nodup) :
    (∀ s, s ∈ pre → spos s ≠ spos old) ∧ (∀ s, s ∈ post → spos s ≠ spos old) := by
  rw [List.map_append, List.map_cons, List.nodup_append] at hnd
  obtain ⟨_, h2, h3⟩ := hnd
  rw [List.nodup_cons] at h2
  constructor
  · intro s hs he
    exact h3 _ (List.mem_map.2 ⟨s, hs, rfl⟩) _ List.mem_cons_self he
  · intro s hs he
    exact h2.1 (List.mem_map.2 ⟨s, hs, he⟩)

theorem map_upd_split {ss pre post : List Slot} {old : Slot} {k : Nat × Nat} {bytes : Bytes}
    (hnd : (ss.map spos).Nodup) (hs : ss = pre ++ old :: post) (hk : spos old = k) :
    ss.map (upd k bytes) = pre ++ (old.1, old.2.1, bytes) :: post := by
  subst hs
  obtain ⟨h1, h2⟩ := split_pos_ne hnd
  rw [hk] at h1 h2
  rw [List.map_append, List.map_cons, upd_of_eq hk, map_upd_id h1, map_upd_id h2]

theorem map_updFirst_split {ss pre post : List Slot} {old : Slot} {k : Nat × Nat} {x : UInt8}
    (hnd : (ss.map spos).Nodup) (hs : ss = pre ++ old :: post) (hk : spos old = k) :
    ss.map (updFirst k x) = pre ++ (old.1, old.2.1, old.2.2.set 0 x) :: post := by
  subst hs
  obtain ⟨h1, h2⟩ := split_pos_ne hnd
  rw [hk] at h1 h2
  rw [List.map_append, List.map_cons, updFirst_of_eq hk, map_updFirst_id h1, map_updFirst_id h2]

theorem blockSlots_block {b : Nat} {blk : Block} {s : Slot} (h : s ∈ blockSlots b blk) : s.1 = b := by
  obtain ⟨i, _, rfl⟩ := mem_blockSlots.1 h
  rfl

/-- One block of the medium replaced, in terms of a slot map `f` that describes the new block and
leaves the slots of all other blocks alone. -/
theorem runSlots_set_gen {d : Disk} {blk : Nat} {B' : Block} {f : Slot → Slot} (b n : Nat)
    (hblk : blockSlots blk B' = (blockSlots blk (d.get blk)).map f)
    (hother : ∀ s : Slot, s.1 ≠ blk → f s = s) :
    runSlots (d.set blk B') b n = (runSlots d b n).map f := by
  unfold runSlots
  rw [List.map_flatMap]
  apply List.flatMap_congr
  intro j _
  by_cases hj : blk = b + j
  · rw [← hj, FBasic.Disk.get_set_self, hblk]
  · rw [FBasic.Disk.get_set_ne _ _ _ _ hj]
    have : (blockSlots (b + j) (d.get (b + j))).map f = (blockSlots (b + j) (d.get (b + j))).map id :=
      List.map_congr_left fun s hs => hother s (by rw [blockSlots_block hs]; exact fun e => hj e.symm)
    rw [this, List.map_id]

theorem chainSlots_set_gen {v : FatVolume} {d : Disk} {blk : Nat} {B' : Block} {f : Slot → Slot} (cs : List Nat)
    (hblk : blockSlots blk B' = (blockSlots blk (d.get blk)).map f)
    (hother : ∀ s : Slot, s.1 ≠ blk → f s = s) :
    chainSlots v (d.set blk B') cs = (chainSlots v d cs).map f := by
  unfold chainSlots
  rw [List.map_flatMap]
  apply List.flatMap_congr
  intro c _
  exact runSlots_set_gen _ _ hblk hother

theorem upd_other {blk o : Nat} {bytes : Bytes} (s : Slot) (h : s.1 ≠ blk) : upd (blk, o) bytes s = s :=
  upd_of_ne fun e => h (Prod.mk.inj e).1
theorem updFirst_other {blk o : Nat} {x : UInt8} (s : Slot) (h : s.1 ≠ blk) : updFirst (blk, o) x s = s :=
  updFirst_of_ne fun e => h (Prod.mk.inj e).1

/-- The slots of a block after 32 bytes were spliced in at slot `i`. -/
theorem blockSlots_splice (blk : Nat) (B bytes : Bytes) (i : Nat) (hl : B.length = 512) (hi : i < 16)
    (hbytes : bytes.length = 32) :
    blockSlots blk (splice B (32 * i) bytes) = (blockSlots blk B).map (upd (blk, 32 * i) bytes) := by
  unfold blockSlots
  rw [List.map_map]
  apply List.map_congr_left
  intro i' _
  show (blk, 32 * i', _) = upd (blk, 32 * i) bytes (blk, 32 * i', _)
  have hfit : 32 * i + bytes.length ≤ B.length := by omega
  by_cases he : i' = i
  · subst he
    rw [upd_of_eq (k := (blk, 32 * i')) (s := (blk, 32 * i', (B.drop (32 * i')).take 32)) rfl]
    have := FatLens.slice_splice B bytes (32 * i') hfit
    rw [hbytes] at this
    unfold slice at this
    rw [this]
  · have hne : spos ((blk, 32 * i', (B.drop (32 * i')).take 32) : Slot) ≠ (blk, 32 * i) := by
      intro e
      have : 32 * i' = 32 * i := (Prod.mk.inj e).2
      omega
    rw [upd_of_ne hne]
    have := DirSlots.slice_congr (splice B (32 * i) bytes) B (32 * i') 32 (FatLens.splice_length B bytes _ hfit)
      (fun k h1 h2 => FatLens.splice_getD_outside B bytes (32 * i) k hfit (by omega))
    unfold slice at this
    rw [this]

/-- A slot of a block after the first byte of slot `i` was set. -/
theorem slot_set (B : Bytes) (i i' : Nat) (x : UInt8) :
    ((B.set (32 * i) x).drop (32 * i')).take 32 =
      if i' = i then ((B.drop (32 * i)).take 32).set 0 x else (B.drop (32 * i')).take 32 := by
  rw [List.drop_set]
  by_cases he : i' = i
  · subst he
    rw [if_pos rfl, if_neg (Nat.lt_irrefl _), Nat.sub_self, List.take_set]
  · rw [if_neg he]
    by_cases hlt : 32 * i < 32 * i'
    · rw [if_pos hlt]
    · rw [if_neg hlt, List.take_set, List.set_eq_of_length_le]
      rw [List.length_take]
      omega

theorem blockSlots_set_first (blk : Nat) (B : Bytes) (i : Nat) (x : UInt8) :
    blockSlots blk (B.set (32 * i) x) = (blockSlots blk B).map (updFirst (blk, 32 * i) x) := by
  unfold blockSlots
  rw [List.map_map]
  apply List.map_congr_left
  intro i' _
  show (blk, 32 * i', _) = updFirst (blk, 32 * i) x (blk, 32 * i', _)
  rw [slot_set]
  by_cases he : i' = i
  · subst he
    rw [if_pos rfl, updFirst_of_eq (k := (blk, 32 * i')) (s := (blk, 32 * i', (B.drop (32 * i')).take 32)) rfl]
  · have hne : spos ((blk, 32 * i', (B.drop (32 * i')).take 32) : Slot) ≠ (blk, 32 * i) := by
      intro e
      have : 32 * i' = 32 * i := (Prod.mk.inj e).2
      omega
    rw [if_neg he, updFirst_of_ne hne]

theorem runSlots_set_splice {d : Disk} {blk i : Nat} {bytes : Bytes} (b n : Nat)
    (hl : (d.get blk).length = 512) (hi : i < 16) (hbytes : bytes.length = 32) :
    runSlots (d.set blk (splice (d.get blk) (32 * i) bytes)) b n =
      (runSlots d b n).map (upd (blk, 32 * i) bytes) :=
  runSlots_set_gen b n (blockSlots_splice blk _ bytes i hl hi hbytes) upd_other

theorem chainSlots_set_splice {v : FatVolume} {d : Disk} {blk i : Nat} {bytes : Bytes} (cs : List Nat)
    (hl : (d.get blk).length = 512) (hi : i < 16) (hbytes : bytes.length = 32) :
    chainSlots v (d.set blk (splice (d.get blk) (32 * i) bytes)) cs =
      (chainSlots v d cs).map (upd (blk, 32 * i) bytes) :=
  chainSlots_set_gen cs (blockSlots_splice blk _ bytes i hl hi hbytes) upd_other

theorem fixedRootSlots_set_splice {v : FatVolume} {d : Disk} {blk i : Nat} {bytes : Bytes}
    (hl : (d.get blk).length = 512) (hi : i < 16) (hbytes : bytes.length = 32) :
    fixedRootSlots v (d.set blk (splice (d.get blk) (32 * i) bytes)) =
      (fixedRootSlots v d).map (upd (blk, 32 * i) bytes) :=
  runSlots_set_splice _ _ hl hi hbytes

theorem runSlots_set_first {d : Disk} {blk i : Nat} {x : UInt8} (b n : Nat)
    (hl : (d.get blk).length = 512) (hi : i < 16) :
    runSlots (d.set blk ((d.get blk).set (32 * i) x)) b n = (runSlots d b n).map (updFirst (blk, 32 * i) x) := by
  have _ := hl
  have _ := hi
  exact runSlots_set_gen b n (blockSlots_set_first blk _ i x) updFirst_other

theorem chainSlots_set_first {v : FatVolume} {d : Disk} {blk i : Nat} {x : UInt8} (cs : List Nat)
    (hl : (d.get blk).length = 512) (hi : i < 16) :
    chainSlots v (d.set blk ((d.get blk).set (32 * i) x)) cs =
      (chainSlots v d cs).map (updFirst (blk, 32 * i) x) := by
  have _ := hl
  have _ := hi
  exact chainSlots_set_gen cs (blockSlots_set_first blk _ i x) updFirst_other

theorem fixedRootSlots_set_first {v : FatVolume} {d : Disk} {blk i : Nat} {x : UInt8}
    (hl : (d.get blk).length = 512) (hi : i < 16) :
    fixedRootSlots v (d.set blk ((d.get blk).set (32 * i) x)) =
      (fixedRootSlots v d).map (updFirst (blk, 32 * i) x) :=
  runSlots_set_first _ _ hl hi

/-! ### 6. Blank blocks -/

theorem zeroBlock_slot_first (i : Nat) (hi : i < 16) : byteAt ((zeroBlock.drop (32 * i)).take 32) 0 = 0 := by
  have hz : zeroBlock.length = 512 := List.length_replicate
  unfold byteAt
  rw [(Listing.slot_bytes zeroBlock hz i hi).2 0 (by omega), List.getD_eq_getElem?_getD]
  unfold zeroBlock zeros
  rw [List.getElem?_replicate]
  split <;> rfl

theorem runSlots_zero {d : Disk} {b n : Nat} (h : ∀ j, j < n → d.get (b + j) = zeroBlock) :
    ∀ t, t ∈ runSlots d b n → first t = 0 := by
  intro t ht
  obtain ⟨j, i, hj, hi, rfl⟩ := mem_runSlots.1 ht
  unfold first
  show byteAt (((d.get (b + j)).drop (32 * i)).take 32) 0 = 0
  rw [h j hj]
  exact zeroBlock_slot_first i hi

theorem chainSlots_zero {v : FatVolume} {d : Disk} {cs : List Nat}
    (h : ∀ c, c ∈ cs → ∀ j, j < v.blocksPerCluster → d.get (clusterToBlock v c + j) = zeroBlock) :
    ∀ t, t ∈ chainSlots v d cs → first t = 0 := by
  intro t ht
  obtain ⟨c, hc, ht⟩ := mem_chainSlots.1 ht
  exact runSlots_zero (h c hc) t ht

/-! ### 7. Field readers of a rewritten slot -/

theorem serialize_length (ft : FatType) (e : DirEntry) (hname : e.name.length = 11) :
    (DirEntry.serialize ft e).length = 32 := FatOps.serialize_length ft e hname

theorem serialize_sName (ft : FatType) (e : DirEntry) (b off : Nat) (hname : e.name.length = 11) :
    sName (b, off, DirEntry.serialize ft e) = e.name := by
  obtain ⟨a0, a1, a2, a3, a4, a5, a6, a7, a8, a9, a10, hn⟩ := C18.list_len11 e.name hname
  show (DirEntry.serialize ft e).take 11 = e.name
  rw [C18.serialize_eq ft e a0 a1 a2 a3 a4 a5 a6 a7 a8 a9 a10 hn, hn]
  rfl

theorem serialize_first (ft : FatType) (e : DirEntry) (b off : Nat) (hname : e.name.length = 11) :
    first (b, off, DirEntry.serialize ft e) = byteAt e.name 0 :=
  DirSlots.serialize_first_byte ft e hname

theorem serialize_sAttr (ft : FatType) (e : DirEntry) (b off : Nat) (hname : e.name.length = 11)
    (ha : e.attributes < 256) : sAttr (b, off, DirEntry.serialize ft e) = e.attributes := by
  obtain ⟨a0, a1, a2, a3, a4, a5, a6, a7, a8, a9, a10, hn⟩ := C18.list_len11 e.name hname
  show byteAt (DirEntry.serialize ft e) 11 = e.attributes
  rw [C18.serialize_eq ft e a0 a1 a2 a3 a4 a5 a6 a7 a8 a9 a10 hn]
  show (UInt8.ofNat e.attributes).toNat = _
  rw [UInt8.toNat_ofNat']
  omega

theorem serialize_sSize (ft : FatType) (e : DirEntry) (b off : Nat) (hname : e.name.length = 11)
    (hs : e.size < 4294967296) : sSize (b, off, DirEntry.serialize ft e) = e.size := by
  obtain ⟨a0, a1, a2, a3, a4, a5, a6, a7, a8, a9, a10, hn⟩ := C18.list_len11 e.name hname
  show readU32 (DirEntry.serialize ft e) 28 = e.size
  rw [C18.serialize_eq ft e a0 a1 a2 a3 a4 a5 a6 a7 a8 a9 a10 hn]
  exact C18.le32_read _ hs

theorem serialize_sCluster (ft : FatType) (e : DirEntry) (b off : Nat) (hname : e.name.length = 11)
    (hc : match ft with | .fat16 => e.cluster < 65536 | .fat32 => e.cluster < 4294967296) :
    sCluster ft (b, off, DirEntry.serialize ft e) = e.cluster := by
  obtain ⟨a0, a1, a2, a3, a4, a5, a6, a7, a8, a9, a10, hn⟩ := C18.list_len11 e.name hname
  cases ft
  · have hc' : e.cluster < 65536 := hc
    show readU16 (DirEntry.serialize .fat16 e) 26 = e.cluster
    rw [C18.serialize_eq .fat16 e a0 a1 a2 a3 a4 a5 a6 a7 a8 a9 a10 hn]
    exact (C18.le16_read (e.cluster % 65536) (by omega)).trans (by omega)
  · have hc' : e.cluster < 4294967296 := hc
    show readU16 (DirEntry.serialize .fat32 e) 20 * 65536 + readU16 (DirEntry.serialize .fat32 e) 26 = e.cluster
    rw [C18.serialize_eq .fat32 e a0 a1 a2 a3 a4 a5 a6 a7 a8 a9 a10 hn]
    have h20 := C18.le16_read (e.cluster / 65536 % 65536) (by omega)
    have h26 := C18.le16_read (e.cluster % 65536) (by omega)
    refine Eq.trans (congrArg₂ (fun x y => x * 65536 + y) h20 h26) ?_
    omega

/-- The first byte of a slot set (deletion puts 0xE5 there). -/
theorem first_set (s : Slot) (x : UInt8) (h : 0 < s.2.2.length) : first (s.1, s.2.1, s.2.2.set 0 x) = x.toNat := by
  show byteAt (s.2.2.set 0 x) 0 = x.toNat
  rw [DirSlots.byteAt_set, if_pos ⟨rfl, h⟩]

/-- Setting the first byte leaves every byte but the first alone. -/
theorem byteAt_set0 (l : Bytes) (x : UInt8) (m : Nat) (hm : 0 < m) : byteAt (l.set 0 x) m = byteAt l m := by
  rw [DirSlots.byteAt_set, if_neg (by omega)]

theorem set0_sAttr (s : Slot) (x : UInt8) : sAttr (s.1, s.2.1, s.2.2.set 0 x) = sAttr s :=
  byteAt_set0 s.2.2 x 11 (by omega)

theorem set0_isFrag (s : Slot) (x : UInt8) : isFrag (s.1, s.2.1, s.2.2.set 0 x) = isFrag s := by
  unfold isFrag; rw [set0_sAttr]

theorem set0_isDirE (s : Slot) (x : UInt8) : isDirE (s.1, s.2.1, s.2.2.set 0 x) = isDirE s := by
  unfold isDirE; rw [set0_sAttr]

theorem set0_sSize (s : Slot) (x : UInt8) : sSize (s.1, s.2.1, s.2.2.set 0 x) = sSize s := by
  show readU32 (s.2.2.set 0 x) 28 = readU32 s.2.2 28
  unfold readU32
  rw [byteAt_set0 _ _ _ (by omega), byteAt_set0 _ _ _ (by omega), byteAt_set0 _ _ _ (by omega),
    byteAt_set0 _ _ _ (by omega)]

theorem set0_sCluster (ft : FatType) (s : Slot) (x : UInt8) :
    sCluster ft (s.1, s.2.1, s.2.2.set 0 x) = sCluster ft s := by
  have h16 : ∀ off, 0 < off → readU16 (s.2.2.set 0 x) off = readU16 s.2.2 off := by
    intro off ho
    unfold readU16
    rw [byteAt_set0 _ _ _ ho, byteAt_set0 _ _ _ (by omega)]
  cases ft
  · exact h16 26 (by omega)
  · show readU16 (s.2.2.set 0 x) 20 * 65536 + readU16 (s.2.2.set 0 x) 26 = _
    rw [h16 20 (by omega), h16 26 (by omega)]
    rfl

/-- `Listing.decode` (the entry C06 lists for a slot) in terms of the field readers. -/
theorem decode_fields (ft : FatType) (s : Slot) :
    (Listing.decode ft s).name = sName s ∧ (Listing.decode ft s).attributes = sAttr s ∧
    (Listing.decode ft s).size = sSize s ∧ (Listing.decode ft s).entryBlock = s.1 ∧
    (Listing.decode ft s).entryOffset = s.2.1 ∧
    (Listing.decode ft s).cluster =
      (if sCluster ft s = 0 ∧ sAttr s / 16 % 2 = 1 then 0xFFFFFFFC else sCluster ft s) := by
  cases ft <;> exact ⟨rfl, rfl, rfl, rfl, rfl, rfl⟩

end Sdmmc.Lemmas.VolDisk
