/-
The statements of `Props/C05Forest.lean`, assembled from `ForestTrunc`, `ForestAlloc`, `ForestStep`.
-/
import Sdmmc.Lemmas.ForestStep

namespace Sdmmc.Lemmas.ForestFinal
open Sdmmc.Model Sdmmc.Model.Fat Sdmmc.Spec
open Sdmmc.Lemmas.FBasic hiding NoFault Coherent
open Sdmmc.Lemmas.FatOps hiding BlocksOK Mirror HintOK
open Sdmmc.Lemmas.ChainL Sdmmc.Lemmas.ForestBase Sdmmc.Lemmas.ForestTrunc Sdmmc.Lemmas.ForestAlloc
open Sdmmc.Lemmas.ForestOwns Sdmmc.Lemmas.ForestStep

/-! ### The next-free hint, spelled out -/

theorem volAfterTruncate_hint (tail : List Nat) (v : FatVolume) :
    (volAfterTruncate tail v).nextFreeCluster = hintAfterTruncate v.nextFreeCluster tail := by
  cases tail with
  | nil => rfl
  | cons y t =>
    show (match v.nextFreeCluster with | some nf => if nf > y then some y else some nf | none => some y) = _
    unfold hintAfterTruncate
    cases v.nextFreeCluster with
    | none => rfl
    | some nf =>
      simp only
      split
      · rw [Nat.min_eq_right (by omega)]
      · rw [Nat.min_eq_left (by omega)]

theorem volAfterFree_hint (c : Nat) (tail : List Nat) (v : FatVolume) :
    (volAfterFree c tail v).nextFreeCluster = hintAfterFree v.nextFreeCluster c tail := by
  show (match (volAfterTruncate tail v).nextFreeCluster with
    | some nf => if nf ≤ c then some nf else some c | none => some c) = _
  rw [volAfterTruncate_hint]
  unfold hintAfterFree
  cases hintAfterTruncate v.nextFreeCluster tail with
  | none => rfl
  | some nf =>
    simp only
    split
    · rw [Nat.min_eq_left (by omega)]
    · rw [Nat.min_eq_right (by omega)]

/-! ### 1, 2: truncation and deletion free exactly the tail / the chain -/

theorem truncate_frees_exactly_tail (s : FS) (c x : Nat) (pre tail : List Nat) (hn : NoFault s) (hc : Coherent s)
    (hb : BlocksOK s.dev.disk) (hg : WFGeom s.vol) (hch : Chain s.vol s.dev.disk c (pre ++ [x] ++ tail)) :
    ∃ s', truncateClusterChain x s = (.ok (), s') ∧
      Chain s'.vol s'.dev.disk c (pre ++ [x]) ∧
      (∀ y, y ∈ tail → isFree s'.vol s'.dev.disk y) ∧
      (∀ z, z < endCluster s.vol → z ≠ x → z ∉ tail → fatRaw s'.vol s'.dev.disk z = fatRaw s.vol s.dev.disk z) ∧
      (tail = [] → s'.dev.disk = s.dev.disk) ∧
      (∀ i, regionOf s.vol i ≠ .fat → s'.dev.disk.get i = s.dev.disk.get i) ∧
      (Mirror s.vol s.dev.disk → Mirror s'.vol s'.dev.disk) ∧
      SameGeom s.vol s'.vol ∧
      s'.vol.freeClustersCount = s.vol.freeClustersCount.map (fun n => satAdd n tail.length) ∧
      s'.vol.nextFreeCluster = hintAfterTruncate s.vol.nextFreeCluster tail ∧
      NoFault s' ∧ Coherent s' ∧ BlocksOK s'.dev.disk ∧ WFGeom s'.vol := by
  rw [List.append_assoc, List.singleton_append] at hch
  obtain ⟨s', ht, hn', hc', hb', hv', hch', hfree', hfr', hnil⟩ := truncate_spec s c x pre tail hn hc hb hg hch
  have hsg : SameGeom s.vol s'.vol := by rw [hv']; exact volAfterTruncate_sameGeom tail s.vol
  refine ⟨s', ht, chain_sameGeom hsg hch', fun y hy => (hsg.isFree _ _).2 (hfree' y hy), ?_, hnil, hfr'.nonFat,
    fun hm => (hsg.mirror _).2 (hfr'.mirror hm), hsg, ?_, ?_, hn', hc', hb', hsg.wfGeom hg⟩
  · intro z hz hzx hzt
    rw [hsg.fatRaw]
    exact hfr'.other z hz (fun hm => (List.mem_cons.1 hm).elim hzx hzt)
  · rw [hv']; exact volAfterTruncate_count tail s.vol
  · rw [hv']; exact volAfterTruncate_hint tail s.vol

theorem free_chain_frees_exactly_chain (s : FS) (c : Nat) (cs : List Nat) (hn : NoFault s) (hc : Coherent s)
    (hb : BlocksOK s.dev.disk) (hg : WFGeom s.vol) (hch : Chain s.vol s.dev.disk c cs) :
    ∃ s', freeClusterChain c s = (.ok (), s') ∧
      (∀ y, y ∈ cs → isFree s'.vol s'.dev.disk y) ∧
      (∀ z, z < endCluster s.vol → z ∉ cs → fatRaw s'.vol s'.dev.disk z = fatRaw s.vol s.dev.disk z) ∧
      (∀ i, regionOf s.vol i ≠ .fat → s'.dev.disk.get i = s.dev.disk.get i) ∧
      (Mirror s.vol s.dev.disk → Mirror s'.vol s'.dev.disk) ∧
      SameGeom s.vol s'.vol ∧
      s'.vol.freeClustersCount = s.vol.freeClustersCount.map (fun n => satAdd n cs.length) ∧
      s'.vol.nextFreeCluster = hintAfterFree s.vol.nextFreeCluster c cs.tail ∧
      NoFault s' ∧ Coherent s' ∧ BlocksOK s'.dev.disk ∧ WFGeom s'.vol := by
  obtain ⟨tail, rfl⟩ : ∃ tail, cs = c :: tail := by
    cases hch with
    | last _ _ _ => exact ⟨[], rfl⟩
    | link _ n rest _ _ _ _ => exact ⟨rest, rfl⟩
  obtain ⟨s', hf, hn', hc', hb', hv', hfree', hfr'⟩ := free_spec s c tail hn hc hb hg hch
  have hsg : SameGeom s.vol s'.vol := by rw [hv']; exact volAfterFree_sameGeom c tail s.vol
  refine ⟨s', hf, fun y hy => (hsg.isFree _ _).2 (hfree' y hy), ?_, hfr'.nonFat,
    fun hm => (hsg.mirror _).2 (hfr'.mirror hm), hsg, ?_, ?_, hn', hc', hb', hsg.wfGeom hg⟩
  · intro z hz hzc
    rw [hsg.fatRaw]
    exact hfr'.other z hz hzc
  · rw [hv']; exact volAfterFree_count c tail s.vol
  · rw [hv']; exact volAfterFree_hint c tail s.vol

/-- Fuel adequacy: the loop fuel of the model exceeds the length of every chain of the volume. -/
theorem chain_fits_fuel (v : FatVolume) (d : Disk) (c : Nat) (cs : List Nat) (h : Chain v d c cs) :
    cs.length ≤ v.clusterCount ∧ cs.length < chainFuel v := by
  have := chain_length_le h
  unfold chainFuel
  omega

/-! ### 6: allocation never hands out a used cluster -/

theorem alloc_never_returns_used (s s' : FS) (prev : Option Nat) (zero : Bool) (c : Nat) (hn : NoFault s) (hc : Coherent s)
    (hh : HintOK s.vol) (h : allocCluster prev zero s = (.ok c, s')) :
    InRange s.vol c ∧ isFree s.vol s.dev.disk c ∧ ¬ isUsed s.vol s.dev.disk c ∧
    (∀ G, Owns s.vol s.dev.disk G → c ∉ G.flatten) ∧
    (∀ roots, Forest s.vol s.dev.disk roots → ∀ r cs, r ∈ roots → Chain s.vol s.dev.disk r cs → c ∉ cs) := by
  obtain ⟨h2, hE, hfree⟩ := alloc_in_range_and_free s s' prev zero c hn hc hh h
  have hf : isFree s.vol s.dev.disk c := hfree
  refine ⟨⟨h2, hE⟩, hf, free_not_used hf, fun G ho hx => free_not_used hf (owns_mem_used ho hx), ?_⟩
  intro roots _ r cs _ hch hx
  exact free_not_used hf (chain_mem_used hch c hx)

/-! ### 3: allocation preserves the forest -/

theorem alloc_new_preserves (s s' : FS) (G : List (List Nat)) (zero : Bool) (c : Nat) (h : Exact (s, G))
    (ha : allocCluster none zero s = (.ok c, s')) : Exact (s', G ++ [[c]]) := by
  obtain ⟨r1, o1, _⟩ := owns_newChain s s' G zero c h.1 h.2 ha
  exact ⟨r1, o1⟩

theorem alloc_extend_preserves (s s' : FS) (G : List (List Nat)) (i : Nat) (cs : List Nat) (p : Nat) (zero : Bool) (c : Nat)
    (h : Exact (s, G)) (hi : G[i]? = some cs) (hp : cs.getLast? = some p)
    (ha : allocCluster (some p) zero s = (.ok c, s')) : Exact (s', G.set i (cs ++ [c])) := by
  have hcs : cs.dropLast ++ [p] = cs := getLast?_split hp
  obtain ⟨hsplit, _⟩ := split_at hi
  have ho2 : Owns s.vol s.dev.disk (G.take i ++ [cs.dropLast ++ [p]] ++ G.drop (i + 1)) := by
    rw [hcs, ← hsplit]; exact h.2
  obtain ⟨r1, o1, _⟩ := owns_extend s s' _ _ cs.dropLast p zero c h.1 ho2 ha
  rw [set_at hi, ← hcs]
  exact ⟨r1, o1⟩

/-! ### 4, 5: steps and histories -/

theorem forest_step (st : FS × List (List Nat)) (op : FatOp) (h : Exact st) :
    Exact (Spec.step st op) ∧ Forest (Spec.step st op).1.vol (Spec.step st op).1.dev.disk (rootsOf (Spec.step st op).2) ∧
    SameGeom st.1.vol (Spec.step st op).1.vol ∧
    (Mirror st.1.vol st.1.dev.disk → Mirror (Spec.step st op).1.vol (Spec.step st op).1.dev.disk) ∧
    (CountExact st.1 → CountExact (Spec.step st op).1) := by
  obtain ⟨h1, h2, h3, h4⟩ := step_ok st op h
  exact ⟨h1, forest_of_owns h1.2, h2, h3, h4⟩

theorem forest_history (st : FS × List (List Nat)) (ops : List FatOp) (h : Exact st) :
    Exact (Spec.run st ops) ∧ Forest (Spec.run st ops).1.vol (Spec.run st ops).1.dev.disk (rootsOf (Spec.run st ops).2) ∧
    SameGeom st.1.vol (Spec.run st ops).1.vol ∧
    (Mirror st.1.vol st.1.dev.disk → Mirror (Spec.run st ops).1.vol (Spec.run st ops).1.dev.disk) ∧
    (CountExact st.1 → CountExact (Spec.run st ops).1) := by
  obtain ⟨h1, h2, h3, h4⟩ := run_ok ops st h
  exact ⟨h1, forest_of_owns h1.2, h2, h3, h4⟩

/-- In an exact state every used cluster lies in the chain of a root. -/
theorem exact_no_leak (st : FS × List (List Nat)) (h : Exact st) (c : Nat) (hu : isUsed st.1.vol st.1.dev.disk c) :
    ∃ cs, cs ∈ st.2 ∧ c ∈ cs ∧ Chain st.1.vol st.1.dev.disk (cs.headD 0) cs := by
  obtain ⟨cs, hcs, hc⟩ := List.mem_flatten.1 ((h.2.2.2 c).1 hu)
  exact ⟨cs, hcs, hc, h.2.1 cs hcs⟩

/-- Positions in a repetition-free concatenation are unique. -/
theorem flatten_pos_unique : ∀ (G : List (List Nat)), G.flatten.Nodup → ∀ (i j a b : Nat) (cs cs' : List Nat) (c : Nat),
    G[i]? = some cs → G[j]? = some cs' → cs[a]? = some c → cs'[b]? = some c → i = j ∧ a = b := by
  intro G
  induction G with
  | nil => intro _ i j a b cs cs' c hi; simp at hi
  | cons g G ih =>
    intro hnd i j a b cs cs' c hi hj ha hb
    rw [List.flatten_cons, List.nodup_append] at hnd
    obtain ⟨ng, nG, hdis⟩ := hnd
    cases i with
    | zero =>
      cases j with
      | zero =>
        simp only [List.getElem?_cons_zero, Option.some.injEq] at hi hj
        subst hi; subst hj
        have hlt := (List.getElem?_eq_some_iff.1 ha).1
        exact ⟨rfl, (List.getElem?_inj hlt ng).1 (ha.trans hb.symm)⟩
      | succ j =>
        simp only [List.getElem?_cons_zero, Option.some.injEq, List.getElem?_cons_succ] at hi hj
        subst hi
        exact absurd rfl (hdis c (List.mem_of_getElem? ha) c
          (List.mem_flatten_of_mem (List.mem_of_getElem? hj) (List.mem_of_getElem? hb)))
    | succ i =>
      cases j with
      | zero =>
        simp only [List.getElem?_cons_zero, Option.some.injEq, List.getElem?_cons_succ] at hi hj
        subst hj
        exact absurd rfl (hdis c (List.mem_of_getElem? hb) c
          (List.mem_flatten_of_mem (List.mem_of_getElem? hi) (List.mem_of_getElem? ha)))
      | succ j =>
        simp only [List.getElem?_cons_succ] at hi hj
        obtain ⟨e1, e2⟩ := ih nG i j a b cs cs' c hi hj ha hb
        exact ⟨by rw [e1], e2⟩

theorem no_leak (st : FS × List (List Nat)) (ops : List FatOp) (h : Exact st) (c : Nat)
    (hu : isUsed (Spec.run st ops).1.vol (Spec.run st ops).1.dev.disk c) :
    ∃ cs, cs ∈ (Spec.run st ops).2 ∧ c ∈ cs ∧
      Chain (Spec.run st ops).1.vol (Spec.run st ops).1.dev.disk (cs.headD 0) cs :=
  exact_no_leak _ (run_ok ops st h).1 c hu

theorem no_sharing (st : FS × List (List Nat)) (ops : List FatOp) (h : Exact st) (i j a b : Nat) (cs cs' : List Nat) (c : Nat)
    (hi : (Spec.run st ops).2[i]? = some cs) (hj : (Spec.run st ops).2[j]? = some cs')
    (ha : cs[a]? = some c) (hb : cs'[b]? = some c) : i = j ∧ a = b :=
  flatten_pos_unique _ (run_ok ops st h).1.2.2.1 i j a b cs cs' c hi hj ha hb

/-- The record is determined by the roots and the medium: two exact records with the same first
clusters are the same record (`chain_unique`). -/
theorem chains_determined {v : FatVolume} {d : Disk} {G G' : List (List Nat)} (h : Owns v d G) (h' : Owns v d G')
    (hr : rootsOf G = rootsOf G') : G = G' := by
  apply List.ext_getElem?
  intro i
  have hi := congrArg (fun l => l[i]?) hr
  simp only [rootsOf, List.getElem?_map] at hi
  cases hg : G[i]? with
  | none =>
    cases hg' : G'[i]? with
    | none => rfl
    | some cs' => rw [hg, hg'] at hi; cases hi
  | some cs =>
    cases hg' : G'[i]? with
    | none => rw [hg, hg'] at hi; cases hi
    | some cs' =>
      rw [hg, hg'] at hi
      simp only [Option.map_some, Option.some.injEq] at hi
      have h1 := h.1 cs (List.mem_of_getElem? hg)
      have h2 := h'.1 cs' (List.mem_of_getElem? hg')
      rw [hi] at h1
      rw [chain_unique h1 cs' h2]

/-- The count field is exact arithmetic as long as it fits `u32`. -/
theorem satAdd_exact (n k : Nat) (h : n + k ≤ U32_MAX) : satAdd n k = n + k := satAdd_eq n k h

end Sdmmc.Lemmas.ForestFinal
