/-
THE EXCLUDED CALL ITSELF: a size-keeping `open_file_in_dir` (`ReadOnly`, `ReadWriteAppend`, `ReadWriteCreateOrAppend`; also
`ReadWriteCreate`) under ANY fault schedule, from the invariant with slack, WITHOUT the side condition `FitsName`: the outcome
is the invariant again (`InvF`) — every failing path, a new file, a refused open — or, when an existing closed file is opened,
THE HYBRID INVARIANT `VolInvH sk h` of `Lemmas/LooseHyb.lean` with `h` the new handle: the table is the old table with the new,
unmodified record appended, whose size may exceed its chain.  (`FaultDOpen.openFile_faulted` with the three
`volInv_open_existing` sites replaced by `medH_open`.)
-/
import Sdmmc.Lemmas.LooseHyb
import Sdmmc.Lemmas.FaultDOpen
import Sdmmc.Lemmas.FaultDRawRun

namespace Sdmmc.Lemmas.VolD
open Sdmmc.Lemmas.FaultX
open Sdmmc.Model Sdmmc.Model.Fat Sdmmc.Spec.Volume Sdmmc.Lemmas.VolBase Sdmmc.Lemmas.VolTree
open Sdmmc.Spec hiding NoFault Coherent
open Sdmmc.Lemmas.VolDisk Sdmmc.Lemmas.VolMed Sdmmc.Lemmas.VolEng Sdmmc.Lemmas.VolX Sdmmc.Lemmas.VolApi
open Sdmmc.Lemmas.FBasic (NoFault Coherent)
open Sdmmc.Lemmas.CrashBase Sdmmc.Lemmas.Retry Sdmmc.Lemmas.FaultPre Sdmmc.Lemmas.FaultInv Sdmmc.Lemmas.FaultCoh Sdmmc.Lemmas.MHoare
open Sdmmc.Lemmas.Fault (Coh)

variable {sk : Nat} {X : List (List Nat)}

/-- What the open leaves, relative to the state `s0` it was issued in: the invariant up to the schedule and lost chains, or
the hybrid invariant for the fresh handle `s0.nextId`, which is in the table; the medium is the medium of `s0`; and no entry
of an open file is ahead of its record if none was. -/
def OpenOut (sk : Nat) (X : List (List Nat)) (gh : Ghost) (s0 : Mgr) (out : Res Nat × Mgr) : Prop :=
  InvF sk gh out.2 ∨
  (out.1 = .ok s0.nextId ∧ VolInvH sk s0.nextId X out.2 gh ∧ s0.nextId ∈ out.2.files.map (·.rawFile) ∧
    out.2.dev.disk = s0.dev.disk ∧ (RawAll s0 → RawAll out.2))

/-- The hybrid invariant does not look at the schedule. -/
theorem volInvH_withFaults {h : Nat} {s : Mgr} {gh : Ghost} (hI : VolInvH sk h X s gh) (L : List Nat) :
    VolInvH sk h X (withFaults L s) gh :=
  ⟨hI.coherent, hI.unlocked, hI.maxVols, hI.vols, hI.med, hI.fileVols, hI.openDirs⟩

/-- The record built from the entry found is entered in the table — whatever size it stores. -/
theorem openOut_existing {s0 s : Mgr} {gh : Ghost} (hI0 : VolInvD sk X s0 gh) (hI : VolInvD sk X s gh)
    (hid : s.nextId = s0.nextId) (hfiles : s.files = s0.files) (hdisk : s.dev.disk = s0.dev.disk)
    {vi : VolInfo} (hv : s.vols = [vi]) {d : DirInfo}
    (hdv : ValidDir gh.dirs d.cluster) (hraw : vi.rawVolume = d.rawVolume) {sfn : Bytes} {e : DirEntry} {o : Slot}
    (h : Found s gh d sfn e o) (hdir : Attr.isDirectory e.attributes = false) (hopen : fileIsOpen s d.rawVolume e = false)
    (mode : Mode) (off : Nat) (hoff : off ≤ e.size) (hfresh : s0.nextId ∉ s0.files.map (·.rawFile)) (L : List Nat) :
    OpenOut sk X gh s0 (.ok s.nextId,
      withFaults L { s with nextId := (s.nextId + 1) % 4294967296, files := s.files ++ [Modes.openedFile d s.nextId e mode off] }) := by
  obtain ⟨ho, hod, hfree⟩ := Found_object hI hv hdv hraw h hdir hopen
  obtain ⟨hn, ha, hsz, hb, hoo, hnd⟩ := h.fields
  obtain ⟨_, hcl⟩ := hnd hdir
  have hM := hI.med
  obtain ⟨hidd, _⟩ := validDir_id hM hdv
  have hfr : ∀ g, g ∈ s.files → g.rawFile ≠ s0.nextId := by
    intro g hg he
    rw [hfiles] at hg
    exact hfresh (List.mem_map.2 ⟨g, hg, he⟩)
  have hmed : MedH sk s0.nextId gh.vol s.dev.disk (s.files ++ [Modes.openedFile d s.nextId e mode off]) gh X :=
    medH_open hM hidd ho hod hfree (f := Modes.openedFile d s.nextId e mode off) (Prod.ext hb hoo) hn ha hcl hsz hoff rfl rfl
      hid rfl hfr
  right
  have hH : VolInvH sk s0.nextId X
      { s with nextId := (s.nextId + 1) % 4294967296, files := s.files ++ [Modes.openedFile d s.nextId e mode off] } gh := by
    refine ⟨hI.coherent, hI.unlocked, hI.maxVols, hI.vols, hmed, fun g hg => ?_, hI.openDirs⟩
    rcases List.mem_append.1 hg with hg | hg
    · exact hI.fileVols g hg
    · rw [List.mem_singleton.1 hg]; exact ⟨vi, hv, hraw.symm⟩
  refine ⟨by rw [hid], volInvH_withFaults hH L, ?_, hdisk, ?_⟩
  · show s0.nextId ∈ (s.files ++ [Modes.openedFile d s.nextId e mode off]).map (·.rawFile)
    rw [List.map_append]
    exact List.mem_append_right _ (List.mem_singleton.2 hid.symm)
  · intro hR g hg vj hvj
    have hvj' : vj ∈ s.vols := hvj
    have hft : vj.vol.fatType = gh.vol.fatType := by
      rcases hI.vols with h0 | ⟨vi', hvs', hvol'⟩
      · rw [h0] at hvj'; cases hvj'
      · rw [hvs'] at hvj'; rw [List.mem_singleton.1 hvj', hvol']
    have hg' : g ∈ s.files ++ [Modes.openedFile d s.nextId e mode off] := hg
    rw [hft]
    show VolX.RawBelow gh.vol.fatType s.dev.disk g
    rcases List.mem_append.1 hg' with hg' | hg'
    · have := rawAllD_of hI0 hR g (by rw [← hfiles]; exact hg')
      rw [hdisk]; exact this
    · rw [List.mem_singleton.1 hg']
      have hor := object_eq_rawSlot hM hidd ho (f := Modes.openedFile d s.nextId e mode off) (Prod.ext hb hoo).symm
      unfold VolX.RawBelow
      rw [← hor]
      exact .inr ⟨hcl.symm, Nat.le_of_eq hsz.symm⟩

/-- **`open_file_in_dir` under any fault schedule, modes that do not truncate, NO side condition.** -/
theorem openFile_hybD {X : List (List Nat)} {s0 : Mgr} {gh : Ghost} (hI : VolInvD sk X s0 gh) (L : List Nat) (directory : Nat)
    (name : List Nat) (mode : Mode) (hmode : nonTruncating mode = true)
    (hname : ∀ sfn, Sfn.createFromStr name = .ok sfn → sfn.head? ≠ some 0xE5)
    (hfresh : s0.nextId ∉ s0.files.map (·.rawFile)) :
    OpenOut sk X gh s0 (openFileInDir directory name mode (withFaults L s0)) := by
  have h0 : ∀ r, OpenOut sk X gh s0 (r, withFaults L s0) := fun _ => .inl (invF_of hI L)
  rw [Modes.openFileInDir_eq]
  unfold Modes.openFileInDirAlt
  rw [get_bind]
  by_cases hroom : (withFaults L s0).files.length ≥ (withFaults L s0).maxFiles
  · rw [if_pos hroom]; exact h0 _
  rw [if_neg hroom]
  cases hidx : s0.dirs.findIdx? (·.rawDirectory = directory) with
  | none => rw [bind_err (getDirById_bad (s := withFaults L s0) hidx)]; exact h0 _
  | some i =>
    obtain ⟨d, hdi, hdp⟩ := findIdx?_some_get hidx
    have hdr : d.rawDirectory = directory := by simpa using hdp
    have hdm : d ∈ s0.dirs := List.mem_of_getElem? hdi
    rw [bind_ok (getDirById_ok (s := withFaults L s0) hidx), bind_ok (getDir_ok (s := withFaults L s0) hdi)]
    cases hv : s0.vols.findIdx? (·.rawVolume = d.rawVolume) with
    | none => rw [bind_err (getVolumeById_bad (s := withFaults L s0) hv)]; exact h0 _
    | some volIdx =>
      obtain ⟨hz, vi, hvs, hvol, hraw⟩ := vol_of_handle hI hv
      subst hz
      rw [bind_ok (getVolumeById_ok (s := withFaults L s0) hv)]
      cases hs : Sfn.createFromStr name with
      | error e => rw [bind_err (Modes.toSfn_err hs _)]; exact h0 _
      | ok sfn =>
        rw [bind_ok (Modes.toSfn_ok hs _), attempt_bind]
        have hdv := hI.openDirs d hdm
        obtain ⟨hn, hc, hM⟩ := volInv_fs hI
        obtain ⟨r, fs', hlk, hdisk, hvol', h1, hcase⟩ := lookup_found hI hvs hvol hdv sfn (hname sfn hs)
        obtain ⟨hinvL, _, _, hdich⟩ := withVol_F hI hvs hvol L (findDirectoryEntry_pre d.cluster sfn)
          (Fault.findDirectoryEntry_inv d.cluster sfn) (findDirectoryEntry_len _ _) (findDirectoryEntry_geo _ _)
          (findDirectoryEntry_coh _ _) (findDirectoryEntry_vk (K := HintOK) _ _ _ hM.hint) (fun _ h => h)
          (CrashAll.of_ro (DirMgr.findDirectoryEntry_readOnly d.cluster sfn (fsOf s0 gh)) (mx_of_med hM))
        rcases hdich with hq | he
        swap
        · rcases hrun : withVol 0 (Fat.findDirectoryEntry d.cluster sfn) (withFaults L s0) with ⟨r', s'⟩
          rw [hrun] at he hinvL
          simp only at he
          subst he
          show OpenOut sk X gh s0 (Modes.openFileTail d 0 sfn mode (.err .DeviceError) s')
          rw [Modes.tail_err d 0 sfn s' mode .DeviceError (by intro h; cases h)]
          exact .inl hinvL
        rw [hlk] at hq
        rw [hq]
        set s1 := afterVol s0 vi fs' with hs1
        show OpenOut sk X gh s0 (Modes.openFileTail d 0 sfn mode r (withFaults L s1))
        have hvs1 : s1.vols = [{ vi with vol := fs'.vol }] := rfl
        have hraw1 : ({ vi with vol := fs'.vol } : VolInfo).rawVolume = d.rawVolume := hraw
        have h01 : ∀ r, OpenOut sk X gh s0 (r, withFaults L s1) := fun _ => .inl (invF_of h1 L)
        rcases hcase with ⟨hr, hfresh⟩ | ⟨e, o, hr, hF⟩
        · subst hr
          by_cases hm : mode = .ReadWriteCreate ∨ mode = .ReadWriteCreateOrTruncate ∨ mode = .ReadWriteCreateOrAppend
          · rw [Modes.tail_create_eq d 0 sfn _ mode hm]
            obtain ⟨hlen, hz⟩ := VolSfn.sfn_facts hs
            refine .inl (createRun_faulted h1 hvs1 hvol' hdv hraw1 sfn hlen hz (VolSfn.sfn_first_ne_e5 (hname sfn hs)) ?_ _ L)
            rw [hdisk]; exact hfresh
          · have hm' : mode = .ReadOnly ∨ mode = .ReadWriteAppend ∨ mode = .ReadWriteTruncate := by
              cases mode <;> simp at hm ⊢
            rw [Modes.tail_notFound d 0 sfn _ mode hm']
            exact h01 _
        · subst hr
          have hfo : fileIsOpen (withFaults L s1) d.rawVolume e = fileIsOpen s1 d.rawVolume e := rfl
          by_cases hopen : fileIsOpen s1 d.rawVolume e = true
          · rw [Modes.tail_open d 0 sfn _ mode e (by rw [hfo]; exact hopen)]; exact h01 _
          have hopen' : fileIsOpen s1 d.rawVolume e = false := by simpa using hopen
          have hopenF : fileIsOpen (withFaults L s1) d.rawVolume e = false := by rw [hfo]; exact hopen'
          by_cases hcreate : mode = .ReadWriteCreate
          · subst hcreate
            rw [Modes.tail_exists d 0 sfn _ e hopenF]; exact h01 _
          by_cases hro : Attr.isReadOnly e.attributes = true ∧ mode ≠ .ReadOnly
          · rw [Modes.tail_readOnlyAttr d 0 sfn _ mode e hopenF hcreate hro.2 hro.1]; exact h01 _
          have hro' : Attr.isReadOnly e.attributes = false ∨ mode = .ReadOnly := by
            by_cases h : mode = .ReadOnly
            · exact .inr h
            · left
              by_cases h2 : Attr.isReadOnly e.attributes = true
              · exact absurd ⟨h2, h⟩ hro
              · simpa using h2
          by_cases hdir : Attr.isDirectory e.attributes = true
          · rw [Modes.tail_dirAsFile d 0 sfn _ mode e hopenF hcreate hro' hdir]; exact h01 _
          have hdir' : Attr.isDirectory e.attributes = false := by simpa using hdir
          cases mode with
          | ReadOnly =>
            rw [Modes.tail_readOnly d 0 sfn _ e hopenF hdir']
            exact openOut_existing hI h1 rfl rfl hdisk hvs1 hdv hraw1 hF hdir' hopen' .ReadOnly 0 (Nat.zero_le _) hfresh L
          | ReadWriteCreate => exact absurd rfl hcreate
          | ReadWriteAppend =>
            have hron : Attr.isReadOnly e.attributes = false := hro'.elim id (fun h => by cases h)
            rw [Modes.tail_append d 0 sfn _ .ReadWriteAppend e (.inl rfl) hopenF hron hdir']
            exact openOut_existing hI h1 rfl rfl hdisk hvs1 hdv hraw1 hF hdir' hopen' .ReadWriteAppend e.size (Nat.le_refl _) hfresh L
          | ReadWriteCreateOrAppend =>
            have hron : Attr.isReadOnly e.attributes = false := hro'.elim id (fun h => by cases h)
            rw [Modes.tail_append d 0 sfn _ .ReadWriteCreateOrAppend e (.inr rfl) hopenF hron hdir']
            exact openOut_existing hI h1 rfl rfl hdisk hvs1 hdv hraw1 hF hdir' hopen' .ReadWriteAppend e.size (Nat.le_refl _) hfresh L
          | ReadWriteTruncate => cases hmode
          | ReadWriteCreateOrTruncate => cases hmode


end Sdmmc.Lemmas.VolD
