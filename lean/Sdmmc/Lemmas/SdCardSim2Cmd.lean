/-
Lemmas for C12, part 20 (end-to-end, continued): `card_command` against the specification card,
for every command the data path uses, and what each command does to a ready card.
-/
import Sdmmc.Lemmas.SdCardSim2

namespace Sdmmc.Lemmas.SdCardSim2
open Sdmmc.Model Sdmmc.Spec.Card Sdmmc.Model.Sd Sdmmc.Lemmas.Sd Sdmmc.Gen Sdmmc.Lemmas.SdCardSim

/-- `card_command(cmd, arg)` (any command that waits for the card first) against a card that is
between commands and busy for at most `DEFAULT_COMMAND_RETRIES` more bytes: the busy bytes are
polled away, the frame is accepted and executed, and the response byte is found within the
retry budget. -/
theorem cardCommand_card2 (cmd arg : Nat) (hc : cmd < 64) (h0 : cmd ≠ CMD0) (h12 : cmd ≠ CMD12)
    (ha : arg < 4294967296) (s : St Card) (hcb : s.bus.cmdBuf = []) (hp : s.bus.phase = .ready)
    (hst : s.bus.streaming = none) (ho : s.bus.out = []) (hb : s.bus.busyLeft ≤ DEFAULT_COMMAND_RETRIES)
    (c1 : Card) (hex : execCommand (setBusy s.bus 0) cmd arg = c1) (hL : Listening c1)
    (k : Nat) (r : UInt8) (rest : List UInt8) (hout : c1.out = List.replicate k 0xFF ++ r :: rest)
    (hk : k ≤ DEFAULT_COMMAND_RETRIES) (hr : r.toNat / 128 % 2 = 0) :
    ∃ s', cardCommand cardBus cmd arg s = (.ok r.toNat, s') ∧ StAt s (popTo c1 rest) s' := by
  obtain ⟨s1, h1, a1⟩ := waitNotBusy_card2 DEFAULT_COMMAND_RETRIES s ⟨hcb, by rw [hp]; rfl⟩ ho hb
  have hq1 : Quiet s1.bus := by rw [a1.1]; exact ⟨hcb, hp, hst, rfl⟩
  obtain ⟨s2, h2, a2⟩ := xferEv_cmd_card cmd arg hc ha s1 hq1 (by rw [a1.1]; exact ho)
  rw [a1.1, hex] at a2
  obtain ⟨s3, h3, a3⟩ := waitResponse_card2 cmd DEFAULT_COMMAND_RETRIES k s2 (by rw [a2.1]; exact hL) r rest
    (by rw [a2.1]; exact hout) hr hk
  refine ⟨s3, ?_, (a1.trans a2).trans (by rw [a2.1] at a3; exact a3)⟩
  unfold cardCommand
  dsimp only
  rw [if_pos ⟨h0, h12⟩, bind_ok h1, bind_ok h2, if_neg h12]
  exact h3

/-! ### What the data-path commands do to an initialised card -/

theorem exec17 (c : Card) (hi : c.initialised = true) (hs : c.streaming = none) (arg n : Nat)
    (hblk : blockOfArg c arg = some n) (hn : n < c.capacity) :
    execCommand c 17 arg =
      { c with commands := c.commands + 1, appCmd := false,
               out := List.replicate c.ncr 0xFF ++ 0x00 :: dataBlock c (getBlock c n) } := by
  rcases c with ⟨kind, mem, csd, cap, ncr, nac, busy, initPolls, idle, spiMode, crcOn, appCmd, cmd8Seen,
    initLeft, initialised, out, busyLeft, cmdBuf, phase, streaming, preErase, violations, commands⟩
  simp only at hi hs hn
  subst hi hs
  unfold execCommand
  cases kind <;> simp [blockOfArg] at hblk <;> simp [blockOfArg, hblk, hn, dataBlock, getBlock]

theorem exec18 (c : Card) (hi : c.initialised = true) (hs : c.streaming = none) (arg n : Nat)
    (hblk : blockOfArg c arg = some n) (hn : n < c.capacity) :
    execCommand c 18 arg =
      { c with commands := c.commands + 1, appCmd := false, streaming := some (n + 1),
               out := List.replicate c.ncr 0xFF ++ 0x00 :: dataBlock c (getBlock c n) } := by
  rcases c with ⟨kind, mem, csd, cap, ncr, nac, busy, initPolls, idle, spiMode, crcOn, appCmd, cmd8Seen,
    initLeft, initialised, out, busyLeft, cmdBuf, phase, streaming, preErase, violations, commands⟩
  simp only at hi hs hn
  subst hi hs
  unfold execCommand
  cases kind <;> simp [blockOfArg] at hblk <;> simp [blockOfArg, hblk, hn, dataBlock, getBlock]

theorem exec24 (c : Card) (hi : c.initialised = true) (hs : c.streaming = none) (arg n : Nat)
    (hblk : blockOfArg c arg = some n) (hn : n < c.capacity) :
    execCommand c 24 arg =
      { c with commands := c.commands + 1, appCmd := false, phase := .recvToken false n,
               out := List.replicate c.ncr 0xFF ++ [0x00] } := by
  rcases c with ⟨kind, mem, csd, cap, ncr, nac, busy, initPolls, idle, spiMode, crcOn, appCmd, cmd8Seen,
    initLeft, initialised, out, busyLeft, cmdBuf, phase, streaming, preErase, violations, commands⟩
  simp only at hi hs hn
  subst hi hs
  unfold execCommand
  cases kind <;> simp [blockOfArg] at hblk <;> simp [blockOfArg, hblk, hn, respond]

theorem exec25 (c : Card) (hi : c.initialised = true) (hs : c.streaming = none) (arg n : Nat)
    (hblk : blockOfArg c arg = some n) (hn : n < c.capacity) :
    execCommand c 25 arg =
      { c with commands := c.commands + 1, appCmd := false, phase := .recvToken true n,
               out := List.replicate c.ncr 0xFF ++ [0x00] } := by
  rcases c with ⟨kind, mem, csd, cap, ncr, nac, busy, initPolls, idle, spiMode, crcOn, appCmd, cmd8Seen,
    initLeft, initialised, out, busyLeft, cmdBuf, phase, streaming, preErase, violations, commands⟩
  simp only at hi hs hn
  subst hi hs
  unfold execCommand
  cases kind <;> simp [blockOfArg] at hblk <;> simp [blockOfArg, hblk, hn, respond]

theorem exec13 (c : Card) (hi : c.initialised = true) (hs : c.streaming = none) (hidle : c.idle = false)
    (arg : Nat) :
    execCommand c 13 arg =
      { c with commands := c.commands + 1, appCmd := false,
               out := List.replicate c.ncr 0xFF ++ [0x00, 0x00] } := by
  rcases c with ⟨kind, mem, csd, cap, ncr, nac, busy, initPolls, idle, spiMode, crcOn, appCmd, cmd8Seen,
    initLeft, initialised, out, busyLeft, cmdBuf, phase, streaming, preErase, violations, commands⟩
  simp only at hi hs hidle
  subst hi hs hidle
  unfold execCommand
  simp [respond, r1]

theorem exec55 (c : Card) (hs : c.streaming = none) (hidle : c.idle = false) (arg : Nat) :
    execCommand c 55 arg =
      { c with commands := c.commands + 1, appCmd := true,
               out := List.replicate c.ncr 0xFF ++ [0x00] } := by
  rcases c with ⟨kind, mem, csd, cap, ncr, nac, busy, initPolls, idle, spiMode, crcOn, appCmd, cmd8Seen,
    initLeft, initialised, out, busyLeft, cmdBuf, phase, streaming, preErase, violations, commands⟩
  simp only at hs hidle
  subst hs hidle
  unfold execCommand
  simp [respond, r1]

theorem exec23 (c : Card) (hi : c.initialised = true) (hs : c.streaming = none) (hidle : c.idle = false)
    (happ : c.appCmd = true) (arg : Nat) :
    execCommand c 23 arg =
      { c with commands := c.commands + 1, appCmd := false, preErase := arg,
               out := List.replicate c.ncr 0xFF ++ [0x00] } := by
  rcases c with ⟨kind, mem, csd, cap, ncr, nac, busy, initPolls, idle, spiMode, crcOn, appCmd, cmd8Seen,
    initLeft, initialised, out, busyLeft, cmdBuf, phase, streaming, preErase, violations, commands⟩
  simp only at hi hs hidle happ
  subst hi hs hidle happ
  unfold execCommand
  simp [respond, r1]

theorem exec9 (c : Card) (hi : c.initialised = true) (hs : c.streaming = none) (arg : Nat) :
    execCommand c 9 arg =
      { c with commands := c.commands + 1, appCmd := false,
               out := List.replicate c.ncr 0xFF ++ 0x00 :: dataBlock c c.csd } := by
  rcases c with ⟨kind, mem, csd, cap, ncr, nac, busy, initPolls, idle, spiMode, crcOn, appCmd, cmd8Seen,
    initLeft, initialised, out, busyLeft, cmdBuf, phase, streaming, preErase, violations, commands⟩
  simp only at hi hs
  subst hi hs
  unfold execCommand
  simp [dataBlock]

/-- STOP_TRANSMISSION, whether or not a streaming read is (still) pending. -/
theorem exec12 (c : Card) (hidle : c.idle = false) (arg : Nat) :
    execCommand c 12 arg =
      { c with commands := c.commands + 1, appCmd := false, streaming := none, busyLeft := c.busy,
               out := 0xFF :: (List.replicate c.ncr 0xFF ++ [0x00]) } := by
  rcases c with ⟨kind, mem, csd, cap, ncr, nac, busy, initPolls, idle, spiMode, crcOn, appCmd, cmd8Seen,
    initLeft, initialised, out, busyLeft, cmdBuf, phase, streaming, preErase, violations, commands⟩
  simp only at hidle
  subst hidle
  unfold execCommand
  cases streaming <;> simp [r1]

end Sdmmc.Lemmas.SdCardSim2
