/-
C02 over arbitrary histories: the independent reader (`Sdmmc.Spec.Fs`, the executable reference reader that
shares no code with the model) sees the same tree (`independent_reader_agrees`): for every file slot of the
abstract tree of a state without open files, the reader's directory walk has the entry at the same index
before the end marker, with the same name, attribute byte and size, and `Fs.chain` / `Fs.fileBytes` return
the slot's bytes.
-/
import Sdmmc.Lemmas.AbsFsRemount2
import Sdmmc.Lemmas.VolFsck8

namespace Sdmmc.Lemmas.AbsFs
open Sdmmc.Model Sdmmc.Model.Fat Sdmmc.Spec.Volume Sdmmc.Lemmas.VolBase Sdmmc.Lemmas.VolTree
open Sdmmc.Spec hiding NoFault Coherent
open Sdmmc.Spec.AbsFs (Meta view)
open Sdmmc.Lemmas.VolDisk Sdmmc.Lemmas.VolMed Sdmmc.Lemmas.VolApi Sdmmc.Lemmas.VolEng
open Sdmmc.Lemmas.VolFsck (cv refOf fsDirSlots dirSlotsT_ok fatIs_loadFat chainT_of_chain clusterOf_cv sizeOf_cv)

theorem getElem?_map_inv {α β : Type} {f : α → β} {l : List α} {j : Nat} {y : β} (h : (l.map f)[j]? = some y) :
    ∃ x, l[j]? = some x ∧ f x = y := by
  rw [List.getElem?_map] at h
  cases hx : l[j]? with
  | none => rw [hx] at h; cases h
  | some x => rw [hx] at h; exact ⟨x, rfl, Option.some.inj h⟩

theorem geomOf_reopen {v : FatVolume} {g : Fs.Geom} (hg : GeomOf v g) : Sdmmc.Lemmas.Reopen.GeomOf v g := by
  refine ⟨?_, hg.fatStart, hg.firstData, hg.bpc, hg.clusters⟩
  cases hf : g.fat32 with
  | true => rw [hg.fat32.1 hf]; rfl
  | false =>
    have : v.fatType ≠ .fat32 := fun e => by rw [hg.fat32.2 e] at hf; cases hf
    simp [this]

/-- **The independent reader agrees.** -/
theorem independent_reader_agrees {s : Mgr} {gh : Ghost} {a : AState} (hI : VolInv s gh) (hA : Abs s gh a) (hs : s.files = [])
    (g : Fs.Geom) (hg : GeomOf gh.vol g) (h1 : NoOne gh.vol s.dev.disk) {h j : Nat} {m : Meta} {bytes : Bytes}
    (hh : h ∈ a.ids) (hsl : (a.slots h)[j]? = some (.file m bytes)) :
    ∃ ss dcs sl cs, Fs.dirSlots g s.dev.disk (refOf gh.vol h) = .ok (ss, dcs) ∧
      (ss.takeWhile fun x => decide (Fs.firstByte x ≠ 0))[j]? = some sl ∧
      Fs.nameOf sl = m.name ∧ Fs.attrOf sl = m.attr ∧ Fs.sizeOf sl = m.size ∧
      ((Fs.clusterOf g sl = 0 ∧ cs = []) ∨ Fs.chain g s.dev.disk (Fs.clusterOf g sl) = .ok cs) ∧
      Fs.fileBytes g s.dev.disk cs (Fs.sizeOf sl) = bytes := by
  have hM := medX_of_med hI.med
  have hG := med_heads hM
  rw [hA.ids] at hh
  have hfat := fatIs_loadFat hg hI.med.blocksOK
  obtain ⟨hds, hcv⟩ := dirSlotsT_ok hI hg hfat h1 hh
  rw [hA.slots h hh] at hsl
  obtain ⟨o, ho, he⟩ := absSlots_get hsl
  obtain ⟨hk, hd, rfl, rfl⟩ := absSlot_file_inv he.symm
  -- the reader's slot at the same index
  have hbe : beforeEnd (dirSlots gh.vol s.dev.disk gh.G h) =
      ((fsDirSlots gh.vol g s.dev.disk gh.G h).takeWhile fun x => decide (Fs.firstByte x ≠ 0)).map cv := by
    rw [← hcv]
    unfold beforeEnd
    rw [List.takeWhile_map]
    rfl
  rw [hbe] at ho
  obtain ⟨sl, hsl', hcvsl⟩ := getElem?_map_inv ho
  -- the object
  have hoe : o ∈ entries (dirSlots gh.vol s.dev.disk gh.G h) := by
    rw [entries_eq, hbe]
    exact List.mem_filter.2 ⟨by rw [← hcvsl]; exact List.mem_map_of_mem (List.mem_of_getElem? hsl'), hk⟩
  have hobj : o ∈ objects h (dirSlots gh.vol s.dev.disk gh.G h) := by
    refine entry_object (ft := gh.vol.fatType) hoe hd ?_
    intro hx0
    rcases mem_dirIds.1 hh with e | ⟨p, hp⟩
    · exact absurd e hx0
    · obtain ⟨s0, s1, rest, hss, hd0, hd1⟩ := hI.med.tree.dots h p hp
      exact ⟨p, s0, s1, rest, hss, hd0, hd1⟩
  have hfld := decode_fields gh.vol.fatType o
  have heffc : effCluster gh.vol.fatType s.files o = sCluster gh.vol.fatType o := by unfold effCluster pendOf; rw [hs]; rfl
  have heffs : effSize s.files o = sSize o := by unfold effSize pendOf; rw [hs]; rfl
  have hcl : Fs.clusterOf g sl = sCluster gh.vol.fatType o := by rw [clusterOf_cv hg, hcvsl]
  have hsz : Fs.sizeOf sl = sSize o := by rw [sizeOf_cv, hcvsl]
  have hcont : contentOf gh.vol s.dev.disk gh.G s.files o =
      fileContent gh.vol s.dev.disk (chainOf gh.G (sCluster gh.vol.fatType o)) (sSize o) := by
    unfold contentOf; rw [heffc, heffs]
  have hsizes := hI.med.tree.sizes h hh o hobj hd
  rw [heffc, heffs] at hsizes
  refine ⟨fsDirSlots gh.vol g s.dev.disk gh.G h, _, sl, chainOf gh.G (sCluster gh.vol.fatType o), hds, hsl', ?_, ?_, ?_, ?_, ?_⟩
  · show sName (cv sl) = (metaOf gh.vol.fatType o).name
    rw [hcvsl]; exact hfld.1.symm
  · show sAttr (cv sl) = (metaOf gh.vol.fatType o).attr
    rw [hcvsl]; exact hfld.2.1.symm
  · rw [hsz]; exact hfld.2.2.1.symm
  · by_cases hc0 : sCluster gh.vol.fatType o = 0
    · left
      refine ⟨by rw [hcl]; exact hc0, ?_⟩
      rw [hc0]
      exact chainOf_lt_two hG (by decide)
    · right
      have hmem : sCluster gh.vol.fatType o ∈ heads gh.G := by
        have := fileRef_mem_heads hI.med.tree hh hobj hd (by rw [heffc]; exact hc0)
        rw [heffc] at this; exact this
      obtain ⟨hin, hhd⟩ := chainOf_spec hG hmem
      have hch := med_chain hM hin
      have hhead : (chainOf gh.G (sCluster gh.vol.fatType o)).headD 0 = sCluster gh.vol.fatType o := by
        cases hc : chainOf gh.G (sCluster gh.vol.fatType o) with
        | nil => rw [hc] at hhd; cases hhd
        | cons x l => rw [hc] at hhd; exact Option.some.inj hhd
      rw [hhead] at hch
      rw [hcl]
      exact chainT_of_chain hg hI.med.geom hfat h1 hch
  · rw [hcont, hsz]
    by_cases hc0 : sCluster gh.vol.fatType o = 0
    · rw [hc0, chainOf_lt_two hG (by decide : (0 : Nat) < 2)]
      rfl
    · have hmem : sCluster gh.vol.fatType o ∈ heads gh.G := by
        have := fileRef_mem_heads hI.med.tree hh hobj hd (by rw [heffc]; exact hc0)
        rw [heffc] at this; exact this
      obtain ⟨hin, _⟩ := chainOf_spec hG hmem
      exact Sdmmc.Lemmas.Reopen.spec_fileBytes_agrees gh.vol hI.med.geom g (geomOf_reopen hg) s.dev.disk _
        (fun c hc => med_inRange hM hin hc) _

end Sdmmc.Lemmas.AbsFs
