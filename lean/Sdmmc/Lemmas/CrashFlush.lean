/-
Crash points of the API calls `flush_file` / `close_file` of a dirty file (`Model.flushFile`,
`Model.closeFile`): they run `DirEntryIO.flushF entry` (info sector, then the directory slot) on the file's
volume — at most two device writes.  `CrashData.flushF_crash` gives the frame at every crash point; here
also: the directory block of the slot is, at every crash point, the old block or the new block (one block
write is atomic), and the lift through `withVol`.
-/
import Sdmmc.Lemmas.CrashMgr
import Sdmmc.Lemmas.CrashData
import Sdmmc.Lemmas.ReopenFlush

namespace Sdmmc.Lemmas.CrashFlush
open Sdmmc.Model Sdmmc.Model.Fat Sdmmc.Spec
open Sdmmc.Lemmas.FBasic hiding NoFault Coherent
open Sdmmc.Lemmas.FatOps hiding BlocksOK Mirror HintOK
open Sdmmc.Lemmas.ReadRefines Sdmmc.Lemmas.CrashBase Sdmmc.Lemmas.CrashMgr Sdmmc.Lemmas.DirEntryIO

/-- Two statements about all crash points of the same call hold together. -/
theorem CrashAll.and {P Q : Disk → Prop} {s s' : FS} (h1 : CrashAll P s s') (h2 : CrashAll Q s s') :
    CrashAll (fun d => P d ∧ Q d) s s' := by
  obtain ⟨ws1, t1, p1⟩ := h1
  obtain ⟨ws2, t2, p2⟩ := h2
  have : ws2 = ws1 := by rw [← t2.newWrites, ← t1.newWrites]
  subst this
  exact ⟨ws2, t1, fun k => ⟨p1 k, p2 k⟩⟩

/-- The directory block of the slot at the crash points of `flushF`: the block before or the block after
the call (when it is not the info sector). -/
theorem flushF_block_crash (s : FS) (e : DirEntry) (hn : NoFault s) (hc : Coherent s) (hb : BlocksOK s.dev.disk)
    (ho : e.entryOffset + 32 ≤ 512) (hname : e.name.length = 11) :
    ∃ s', flushF e s = (.ok (), s') ∧
      CrashAll (fun d => e.entryBlock ≠ s.vol.infoLocation →
        d.get e.entryBlock = s.dev.disk.get e.entryBlock ∨ d.get e.entryBlock = s'.dev.disk.get e.entryBlock) s s' := by
  obtain ⟨s1, h1, hn1, hc1, hv1, hb1, hoth, _, hcase⟩ := updateInfoSector_state s hn hc hb
  obtain ⟨s', h2, _, _, _, _, ⟨p, hw2, hd2⟩, _, _, _⟩ := writeEntry_frame s1 e hn1 hc1 hb1 ho hname
  have hrun : flushF e s = (.ok (), s') := by
    unfold flushF
    rw [bind_ok h1, h2]
  refine ⟨s', hrun, ?_⟩
  have c12 : CrashAll (fun d => e.entryBlock ≠ s.vol.infoLocation →
      d.get e.entryBlock = s.dev.disk.get e.entryBlock ∨ d.get e.entryBlock = s'.dev.disk.get e.entryBlock) s1 s' :=
    (CrashData.single_write_crash hw2 hd2).mono fun d hd hne => by
      rcases hd with rfl | rfl
      · exact .inl (hoth _ hne)
      · exact .inr rfl
  rcases hcase with ⟨hw, hd⟩ | ⟨hft, hw⟩
  · exact (CrashAll.same hw hd (fun _ => .inl rfl)).trans c12
  · have hd1 : s1.dev.disk = s.dev.disk.set s.vol.infoLocation (infoPatch s.vol (s.dev.disk.get s.vol.infoLocation)) := by
      by_cases hidle : s.vol.fatType = .fat16 ∨ (s.vol.freeClustersCount = none ∧ s.vol.nextFreeCluster = none)
      · have := updateInfoSector_idle s hidle
        rw [h1] at this
        have e1 : s1 = s := congrArg Prod.snd this
        rw [e1] at hw
        exact absurd (congrArg List.length hw) (by simp)
      · obtain ⟨s1', h1', _, _, _, hd1', _⟩ := updateInfoSector_state32 s hn hc hft (fun h' => hidle (.inr h'))
        rw [h1] at h1'
        have e1 : s1 = s1' := congrArg Prod.snd h1'
        rw [e1]; exact hd1'
    refine ((CrashData.single_write_crash hw hd1).mono fun d hd hne => ?_).trans c12
    rcases hd with rfl | rfl
    · exact .inl rfl
    · exact .inl (hoth _ hne)

/-- What holds of every crash medium `d` of flushing the entry `e` (medium `d0` before, `d1` after). -/
structure FlushCrash (v : FatVolume) (e : DirEntry) (d0 d1 d : Disk) : Prop where
  others : ∀ i, i ≠ e.entryBlock → (v.fatType = .fat32 → i ≠ v.infoLocation) → d.get i = d0.get i
  slots : e.entryBlock ≠ v.infoLocation → ∀ k, k < e.entryOffset ∨ e.entryOffset + 32 ≤ k →
    (d.get e.entryBlock).getD k 0 = (d0.get e.entryBlock).getD k 0
  info : e.entryBlock ≠ v.infoLocation → ∀ k, k < 488 ∨ 496 ≤ k →
    (d.get v.infoLocation).getD k 0 = (d0.get v.infoLocation).getD k 0
  atomic : e.entryBlock ≠ v.infoLocation → d.get e.entryBlock = d0.get e.entryBlock ∨ d.get e.entryBlock = d1.get e.entryBlock

/-- **`flush_file` of a dirty file**, every crash point. -/
theorem flushFile_crash (s : Mgr) (h i vi : Nat) (f : FileInfo) (v : VolInfo)
    (hs : MgrOK s) (hh : s.files.findIdx? (·.rawFile = h) = some i) (hf : s.files[i]? = some f)
    (hv : s.vols.findIdx? (·.rawVolume = f.rawVolume) = some vi) (hvi : s.vols[vi]? = some v)
    (hd : f.dirty = true) (hassert : ¬ (f.entry.size ≠ 0 ∧ f.entry.cluster = 0))
    (ho : f.entry.entryOffset + 32 ≤ 512) (hname : f.entry.name.length = 11) :
    ∃ s1, flushFile h s = (.ok (), s1) ∧ closeFile h s = (.ok (), { s1 with files := swapRemove s.files i }) ∧
      slice (s1.dev.disk.get f.entry.entryBlock) f.entry.entryOffset 32 = f.entry.serialize v.vol.fatType ∧
      MCrash (FlushCrash v.vol f.entry s.dev.disk s1.dev.disk) s s1 := by
  obtain ⟨s1, hfl, hcl, _, _, hslot, _, _⟩ := Reopen.closeFile_spec s h i vi f v hs hh hf hv hvi hd hassert ho hname
  refine ⟨s1, hfl, hcl, hslot, ?_⟩
  obtain ⟨hnf, hcoh, hblk, _⟩ := hs
  obtain ⟨fs', hrun, _, hcr⟩ := CrashData.flushF_crash (fsOf s v) f.entry hnf hcoh hblk ho hname
  obtain ⟨fs'', hrun', hcr'⟩ := flushF_block_crash (fsOf s v) f.entry hnf hcoh hblk ho hname
  rw [hrun] at hrun'
  have e' : fs' = fs'' := congrArg Prod.snd hrun'
  subst e'
  have hflw := DirMgr.flushFile_dirty h i vi f s (MHoare.getFileById_ok hh) (MHoare.getFile_ok hf) hd
    (MHoare.getVolumeById_ok hv) hassert
  have hdev : s1.dev = fs'.dev := by
    rw [hfl, WriteRefines.withVol_run vi _ s v hvi, hrun] at hflw
    have := congrArg (fun p => p.2.dev) hflw
    exact this
  refine MCrash.of_fs ((CrashAll.and hcr hcr').mono fun d hd => ?_) rfl hdev.symm
  obtain ⟨⟨a, b, c⟩, e⟩ := hd
  exact ⟨a, b, c, by rw [hdev]; exact e⟩

end Sdmmc.Lemmas.CrashFlush
