/-
Per-write frame lemmas in the uniform shape `SameOn P before after` (used by `Props/C09.lean` and
`Props/C02.lean`): for each primitive that writes the medium, the set of (block, byte) positions it
may change, and the statement that any set `P` of positions disjoint from it is byte-identical
afterwards.

* `slotPos b off` — the 32 bytes of a directory slot: `writeEntry_sameOn`, `writeNewBlocks_sameOn`;
* one byte: `deleteBlocks_sameOn`;
* `fatPos v c` — the bytes of the FAT entry of `c` in both copies: `updateFat_sameOn`;
* `clusterPos v c` — the blocks of a data cluster: `zeroBlocks_sameOn`, `writeBlockPart_sameOn`;
* all of an allocation: `alloc_sameOn`.
-/
import Sdmmc.Lemmas.DirFat
import Sdmmc.Lemmas.DirEntryIO

namespace Sdmmc.Lemmas.DirFrames
open Sdmmc.Model Sdmmc.Model.Fat Sdmmc.Spec Sdmmc.Lemmas.FBasic Sdmmc.Lemmas.FatOps Sdmmc.Lemmas.DirOps
open Sdmmc.Lemmas.DirSlots Sdmmc.Lemmas.DirFat Sdmmc.Lemmas.DirEntryIO

/-! ### Sets of positions -/

/-- The 32 bytes of the directory slot at offset `off` of block `b`. -/
def slotPos (b off : Nat) : Nat → Nat → Prop := fun b' i => b' = b ∧ off ≤ i ∧ i < off + 32

/-- The bytes of the FAT entry of cluster `c`, in the first and (if any) the second FAT copy. -/
def fatPos (v : FatVolume) (c : Nat) : Nat → Nat → Prop := fun b i =>
  (b = fatBlock v c ∨ fatBlock2 v c = some b) ∧ fatEntOffset v c ≤ i ∧ i < fatEntOffset v c + entryWidth v.fatType

/-- Every byte of every block of data cluster `c`. -/
def clusterPos (v : FatVolume) (c : Nat) : Nat → Nat → Prop := fun b _ =>
  clusterToBlock v c ≤ b ∧ b < clusterToBlock v c + v.blocksPerCluster

/-- No position of `P` is a position of `Q`. -/
def Avoids (P Q : Nat → Nat → Prop) : Prop := ∀ b i, P b i → ¬ Q b i

/-! ### Directory slots -/

/-- `writeEntryToDisk e`: positions outside the slot of `e` are untouched. -/
theorem writeEntry_sameOn (s : FS) (e : DirEntry) (hn : NoFault s) (hc : Coherent s) (hb : BlocksOK s.dev.disk)
    (ho : e.entryOffset + 32 ≤ 512) (hname : e.name.length = 11)
    (P : Nat → Nat → Prop) (hP : Avoids P (slotPos e.entryBlock e.entryOffset)) :
    SameOn P s.dev.disk (writeEntryToDisk e s).2.dev.disk := by
  obtain ⟨s', h, _, _, _, _, _, hob, hout, _⟩ := writeEntry_frame s e hn hc hb ho hname
  rw [h]
  intro b i hp
  show (s'.dev.disk.get b).getD i 0 = _
  by_cases hbe : b = e.entryBlock
  · subst hbe
    apply hout i
    have := hP _ i hp
    unfold slotPos at this
    omega
  · rw [hob b hbe]

/-- A successful `writeNewBlocks`: the slot it overwrote was free (first byte `0x00` or `0xE5`), it
is the slot recorded in the returned entry, and positions outside that slot are untouched. -/
theorem writeNewBlocks_sameOn (name : Bytes) (att fc : Nat) (now : Timestamp) (n blockIdx : Nat) (s s' : FS)
    (e : DirEntry) (hn : NoFault s) (hc : Coherent s) (hb : BlocksOK s.dev.disk) (hname : name.length = 11)
    (h : writeNewBlocks name att fc now n blockIdx s = (.ok (some e), s')) :
    e = DirEntry.new name att fc now e.entryBlock e.entryOffset ∧
    blockIdx ≤ e.entryBlock ∧ e.entryBlock < blockIdx + n ∧ e.entryOffset + 32 ≤ 512 ∧ e.entryOffset % 32 = 0 ∧
    (byteAt (s.dev.disk.get e.entryBlock) e.entryOffset = 0 ∨ byteAt (s.dev.disk.get e.entryBlock) e.entryOffset = 0xE5) ∧
    (∀ b, b ≠ e.entryBlock → s'.dev.disk.get b = s.dev.disk.get b) ∧
    slice (s'.dev.disk.get e.entryBlock) e.entryOffset 32 = e.serialize s.vol.fatType ∧
    BlocksOK s'.dev.disk ∧
    ∀ P : Nat → Nat → Prop, Avoids P (slotPos e.entryBlock e.entryOffset) → SameOn P s.dev.disk s'.dev.disk := by
  obtain ⟨r, s'', h', _, _, _, hcase⟩ := writeNewBlocks_spec name att fc now n blockIdx s hn hc
  rw [h] at h'
  have er : Res.ok (some e) = r := congrArg Prod.fst h'
  have es : s' = s'' := congrArg Prod.snd h'
  subst es
  rcases hcase with ⟨h1, _⟩ | ⟨b, off, hb1, hb2, _, hf, hr, hd, _⟩
  · rw [← er] at h1; cases h1
  · rw [← er] at hr
    have he : e = DirEntry.new name att fc now b off := Option.some.inj (Res.ok.inj hr)
    obtain ⟨i, hi, hoff, hfree, _⟩ := firstFreeSlot_some _ off hf
    have heb : e.entryBlock = b := by rw [he]; rfl
    have heo : e.entryOffset = off := by rw [he]; rfl
    have hser : (DirEntry.serialize s.vol.fatType (DirEntry.new name att fc now b off)).length = 32 :=
      serialize_length _ _ hname
    have hfit : off + (DirEntry.serialize s.vol.fatType (DirEntry.new name att fc now b off)).length ≤
        (s.dev.disk.get b).length := by rw [hser, hb b]; omega
    rw [heb, heo]
    refine ⟨he, hb1, hb2, by omega, by omega, by rw [hoff]; exact hfree, ?_, ?_, ?_, ?_⟩
    · intro b' hne; rw [hd, Disk.get_set_ne _ _ _ _ (fun e' => hne e'.symm)]
    · rw [hd, Disk.get_set_self, he]
      have := FatLens.slice_splice (s.dev.disk.get b) _ off hfit
      rw [hser] at this
      exact this
    · rw [hd]
      exact blocksOK_set _ _ _ hb (by rw [FatLens.splice_length _ _ _ hfit]; exact hb b)
    · intro P hP
      rw [hd]
      apply sameOn_set
      intro j hj
      apply FatLens.splice_getD_outside _ _ _ j hfit
      have := hP b j hj
      unfold slotPos at this
      rw [hser]
      omega

/-- A successful `deleteBlocks`: exactly one byte of one block is written — the first byte of the
first slot that matches the name; every other byte of the medium is untouched. -/
theorem deleteBlocks_sameOn (name : Bytes) (n blockIdx : Nat) (s s' : FS) (hn : NoFault s) (hc : Coherent s)
    (h : deleteBlocks name n blockIdx s = (.ok true, s')) :
    ∃ b off, blockIdx ≤ b ∧ b < blockIdx + n ∧ off + 32 ≤ 512 ∧ off % 32 = 0 ∧
      OnDisk.matches (slice (s.dev.disk.get b) off 32) name = true ∧ byteAt (s.dev.disk.get b) off ≠ 0 ∧
      s'.dev.disk = s.dev.disk.set b ((s.dev.disk.get b).set off (UInt8.ofNat 0xE5)) ∧
      (∀ b' i, (b' ≠ b ∨ i ≠ off) → (s'.dev.disk.get b').getD i 0 = (s.dev.disk.get b').getD i 0) ∧
      ∀ P : Nat → Nat → Prop, ¬ P b off → SameOn P s.dev.disk s'.dev.disk := by
  obtain ⟨r, s'', h', _, _, _, hcase⟩ := deleteBlocks_spec name n blockIdx s hn hc
  rw [h] at h'
  have er : Res.ok true = r := congrArg Prod.fst h'
  have es : s' = s'' := congrArg Prod.snd h'
  subst es
  rcases hcase with ⟨h1, _⟩ | ⟨b, off, hb1, hb2, hf, _, hd, _⟩
  · rw [← er] at h1; cases h1
  · obtain ⟨i, hi, hoff, hne, hm, _⟩ := deleteInSlots_some name _ off hf
    have hbyte : ∀ b' j, (b' ≠ b ∨ j ≠ off) → (s'.dev.disk.get b').getD j 0 = (s.dev.disk.get b').getD j 0 := by
      intro b' j hj
      rw [hd, Disk.get_set]
      by_cases hbb : b = b'
      · subst hbb
        rw [if_pos rfl, getD_set, if_neg]
        rintro ⟨e, _⟩
        rcases hj with hj | hj
        · exact hj rfl
        · exact hj e.symm
      · rw [if_neg hbb]
    refine ⟨b, off, hb1, hb2, by omega, by omega, hm, by rw [hoff]; exact hne, hd, hbyte, fun P hP b' j hp => ?_⟩
    apply hbyte
    by_cases hbb : b' = b
    · right; intro e; subst hbb; subst e; exact hP hp
    · exact .inl hbb

/-! ### FAT entries -/

/-- `rawFatEntry` only looks at the bytes of the entry. -/
theorem rawFatEntry_congr (ft : FatType) (p q : Block) (off : Nat)
    (h : ∀ i, off ≤ i → i < off + entryWidth ft → p.getD i 0 = q.getD i 0) :
    rawFatEntry ft p off = rawFatEntry ft q off := by
  cases ft
  · show readU16 p off = readU16 q off
    unfold readU16 byteAt
    rw [h off (by omega) (by show _ < off + 2; omega), h (off + 1) (by omega) (by show _ < off + 2; omega)]
  · show readU32 p off = readU32 q off
    unfold readU32 byteAt
    rw [h off (by omega) (by show _ < off + 4; omega), h (off + 1) (by omega) (by show _ < off + 4; omega),
      h (off + 2) (by omega) (by show _ < off + 4; omega), h (off + 3) (by omega) (by show _ < off + 4; omega)]

/-- If the positions of `c`'s FAT entry are protected, its raw entry (both copies) is preserved. -/
theorem rawEntry_of_sameOn (v : FatVolume) (d d' : Disk) (c : Nat) (P : Nat → Nat → Prop)
    (hP : ∀ b i, fatPos v c b i → P b i) (h : SameOn P d d') :
    rawEntry v d' c = rawEntry v d c ∧ rawEntry2 v d' c = rawEntry2 v d c := by
  constructor
  · unfold rawEntry
    exact rawFatEntry_congr _ _ _ _ fun i h1 h2 => h _ i (hP _ i ⟨.inl rfl, h1, h2⟩)
  · unfold rawEntry2
    cases h2 : fatBlock2 v c with
    | none => rfl
    | some b2 =>
      simp only [Option.map_some]
      congr 1
      exact rawFatEntry_congr _ _ _ _ fun i h1 h3 => h _ i (hP _ i ⟨.inr h2, h1, h3⟩)

/-- One FAT update (pure form): positions outside the entry's bytes in its two blocks are
untouched, provided the two copies were identical. -/
theorem fatDisk_sameOn (v : FatVolume) (d : Disk) (c val : Nat) (hcl : c < endCluster v)
    (hb : BlocksOK d) (hm : Mirror v d) (P : Nat → Nat → Prop) (hP : Avoids P (fatPos v c)) :
    SameOn P d (fatDisk v d c (patchFatBlock v.fatType (d.get (fatBlock v c)) (fatEntOffset v c) val)) := by
  intro b i hp
  rw [fatDisk_get]
  by_cases hmem : b ∈ fatWrites v c
  · rw [if_pos hmem]
    have hmem' := (mem_fatWrites v c b).mp hmem
    have hout : i < fatEntOffset v c ∨ fatEntOffset v c + entryWidth v.fatType ≤ i := by
      have := hP b i hp
      unfold fatPos at this
      by_cases h1 : i < fatEntOffset v c
      · exact .inl h1
      · by_cases h2 : fatEntOffset v c + entryWidth v.fatType ≤ i
        · exact .inr h2
        · exact absurd ⟨hmem', by omega, by omega⟩ this
    rw [FatLens.patch_frame v.fatType _ _ val i (hb _) (FatLens.fatEntOffset_le v c) hout]
    rcases hmem' with heq | h2
    · rw [heq]
    · rw [hm c hcl b h2]
  · rw [if_neg hmem]

theorem updateFat_sameOn (s : FS) (c val : Nat) (hn : NoFault s) (hc : Coherent s)
    (hcl : c < endCluster s.vol) (hb : BlocksOK s.dev.disk) (hm : Mirror s.vol s.dev.disk)
    (P : Nat → Nat → Prop) (hP : Avoids P (fatPos s.vol c)) :
    SameOn P s.dev.disk (updateFat c val s).2.dev.disk := by
  obtain ⟨s', h, _, _, _, _, hd⟩ := updateFat_eq' s c val hn hc
  rw [h]
  show SameOn P s.dev.disk s'.dev.disk
  rw [hd]
  exact fatDisk_sameOn s.vol s.dev.disk c val hcl hb hm P hP

/-! ### Data blocks -/

theorem zeroBlocks_sameOn (s : FS) (n first : Nat) (hn : NoFault s) (P : Nat → Nat → Prop)
    (hP : ∀ b i, P b i → ¬ (first ≤ b ∧ b < first + n)) :
    SameOn P s.dev.disk (zeroBlocks n first s).2.dev.disk := by
  intro b i hp
  rw [zeroBlocks_disk s n first hn b, if_neg (hP b i hp)]

/-- The block write of `write`: only block `blockIdx` is written; positions in other blocks, and —
when the block is patched rather than replaced — positions outside the written range, are untouched. -/
theorem writeBlockPart_sameOn (blockIdx off : Nat) (data : Bytes) (whole : Bool) (s : FS)
    (hn : NoFault s) (hc : Coherent s) (P : Nat → Nat → Prop)
    (hP : ∀ i, P blockIdx i → whole = false ∧ off + data.length ≤ (s.dev.disk.get blockIdx).length ∧
      (i < off ∨ off + data.length ≤ i)) :
    (writeBlockPart blockIdx off data whole s).1 = .ok () ∧
    (∀ b, b ≠ blockIdx → (writeBlockPart blockIdx off data whole s).2.dev.disk.get b = s.dev.disk.get b) ∧
    SameOn P s.dev.disk (writeBlockPart blockIdx off data whole s).2.dev.disk := by
  obtain ⟨s', h, _, hd, _, _, _⟩ := Files.write_block_part_frame blockIdx off data whole s hn hc
  rw [h]
  refine ⟨rfl, fun b hne => ?_, ?_⟩
  · show s'.dev.disk.get b = _
    rw [hd, Disk.get_set_ne _ _ _ _ (fun e => hne e.symm)]
  · show SameOn P s.dev.disk s'.dev.disk
    rw [hd]
    apply sameOn_set
    intro i hi
    obtain ⟨hw, hfit, hout⟩ := hP i hi
    rw [hw]
    simp only [Bool.false_eq_true, if_false]
    exact FatLens.splice_getD_outside _ _ _ i hfit hout

/-! ### A whole allocation -/

/-- Positions that are not bytes of the FAT entry of the new cluster or of the predecessor, and —
when the cluster is zeroed — not in the new cluster's blocks, are untouched by an allocation. -/
theorem alloc_sameOn (s s' : FS) (prev : Option Nat) (zero : Bool) (c : Nat) (hn : NoFault s) (hc : Coherent s)
    (hb : BlocksOK s.dev.disk) (hg : WFGeom s.vol) (hh : HintOK s.vol) (hm : Mirror s.vol s.dev.disk)
    (hp : ∀ p, prev = some p → p < endCluster s.vol)
    (h : allocCluster prev zero s = (.ok c, s'))
    (P : Nat → Nat → Prop) (hPc : Avoids P (fatPos s.vol c)) (hPp : ∀ p, prev = some p → Avoids P (fatPos s.vol p))
    (hPz : zero = true → Avoids P (clusterPos s.vol c)) :
    SameOn P s.dev.disk s'.dev.disk := by
  obtain ⟨hc2, hcE, _⟩ := alloc_in_range_and_free s s' prev zero c hn hc hh h
  obtain ⟨sZ, s3, s4, hnZ, hcZ, hvZ, hbZ, hdZ, h3, h4, hd', _⟩ := alloc_steps s s' prev zero c hn hc hb h
  -- zeroing
  have sameZ : SameOn P s.dev.disk sZ.dev.disk := by
    intro b i hpb
    rw [hdZ b]
    rintro ⟨hz, hr⟩
    exact hPz hz b i hpb hr
  have hfatZ : ∀ i, regionOf s.vol i = .fat → sZ.dev.disk.get i = s.dev.disk.get i := by
    intro i hr
    exact hdZ i (fun hh => fat_ne_cluster_block s.vol hg c i hc2 hcE hr hh.2)
  have hmZ : Mirror s.vol sZ.dev.disk := by
    intro c' hc' b2 hb2
    obtain ⟨r1, r2⟩ := FatLens.fat_blocks_in_fat_region s.vol hg c' hc'
    rw [hfatZ _ (r2 b2 hb2), hfatZ _ r1]
    exact hm c' hc' b2 hb2
  -- the end-of-chain mark
  obtain ⟨s3', e3, hc3, hn3, hv3, hb3, _, _, _, _, hmir3, _⟩ :=
    updateFat_frame sZ c Gen.CLUSTER_END_OF_FILE hnZ hcZ (by rw [hvZ]; exact hg) (by rw [hvZ]; exact hcE) hbZ
  have same3 : SameOn P sZ.dev.disk s3.dev.disk := by
    have := updateFat_sameOn sZ c Gen.CLUSTER_END_OF_FILE hnZ hcZ (by rw [hvZ]; exact hcE) hbZ
      (by rw [hvZ]; exact hmZ) P (by rw [hvZ]; exact hPc)
    rw [h3] at this
    exact this
  rw [h3] at e3
  have es3 : s3 = s3' := congrArg Prod.snd e3
  subst es3
  rw [hvZ] at hmir3
  have hv3' : s3.vol = s.vol := hv3.trans hvZ
  have hm3 : Mirror s.vol s3.dev.disk := (hmir3 hmZ).1
  -- the link
  have same4 : SameOn P s3.dev.disk s4.dev.disk := by
    unfold linkStep at h4
    cases prev with
    | none =>
      have e : s4 = s3 := (congrArg Prod.snd h4).symm
      rw [e]; exact SameOn.refl P _
    | some p =>
      simp only at h4
      have := updateFat_sameOn s3 p c hn3 hc3 (by rw [hv3']; exact hp p rfl) hb3
        (by rw [hv3']; exact hm3) P (by rw [hv3']; exact hPp p rfl)
      rw [h4] at this
      exact this
  rw [hd']
  exact (sameZ.trans same3).trans same4

/-! ### Other slots, other clusters -/

/-- Two different slot-aligned slots share no byte. -/
theorem slotPos_avoids (b off b2 off2 : Nat) (hal : off % 32 = 0) (hal2 : off2 % 32 = 0)
    (hne : b2 ≠ b ∨ off2 ≠ off) : Avoids (slotPos b2 off2) (slotPos b off) := by
  rintro b' i ⟨h1, h2, h3⟩ ⟨h4, h5, h6⟩
  rcases hne with h | h
  · exact h (h1.symm.trans h4)
  · omega

/-- If the bytes of a slot are protected and block lengths agree, the slot reads the same. -/
theorem slice_of_sameOn (d d' : Disk) (b off : Nat) (hl : (d'.get b).length = (d.get b).length)
    (h : SameOn (slotPos b off) d d') : slice (d'.get b) off 32 = slice (d.get b) off 32 :=
  slice_congr _ _ off 32 hl fun i h1 h2 => h b i ⟨rfl, h1, h2⟩

/-- Flushing entry `e` leaves every other (slot-aligned) slot of the medium as it was. -/
theorem writeEntry_other_slot (s : FS) (e : DirEntry) (hn : NoFault s) (hc : Coherent s) (hb : BlocksOK s.dev.disk)
    (ho : e.entryOffset + 32 ≤ 512) (hname : e.name.length = 11) (hal : e.entryOffset % 32 = 0)
    (b2 off2 : Nat) (hal2 : off2 % 32 = 0) (hne : b2 ≠ e.entryBlock ∨ off2 ≠ e.entryOffset) :
    slice ((writeEntryToDisk e s).2.dev.disk.get b2) off2 32 = slice (s.dev.disk.get b2) off2 32 := by
  have hs := writeEntry_sameOn s e hn hc hb ho hname _ (slotPos_avoids e.entryBlock e.entryOffset b2 off2 hal hal2 hne)
  obtain ⟨s', h, _, _, _, hb', _⟩ := writeEntry_frame s e hn hc hb ho hname
  rw [h] at hs ⊢
  exact slice_of_sameOn _ _ b2 off2 (by rw [hb' b2, hb b2]) hs

/-- Creating an entry leaves every other (slot-aligned) slot of the medium as it was. -/
theorem writeNewBlocks_other_slot (name : Bytes) (att fc : Nat) (now : Timestamp) (n blockIdx : Nat) (s s' : FS)
    (e : DirEntry) (hn : NoFault s) (hc : Coherent s) (hb : BlocksOK s.dev.disk) (hname : name.length = 11)
    (h : writeNewBlocks name att fc now n blockIdx s = (.ok (some e), s'))
    (b2 off2 : Nat) (hal2 : off2 % 32 = 0) (hne : b2 ≠ e.entryBlock ∨ off2 ≠ e.entryOffset) :
    slice (s'.dev.disk.get b2) off2 32 = slice (s.dev.disk.get b2) off2 32 := by
  obtain ⟨_, _, _, _, hal, _, _, _, hb', hs⟩ := writeNewBlocks_sameOn name att fc now n blockIdx s s' e hn hc hb hname h
  exact slice_of_sameOn _ _ b2 off2 (by rw [hb' b2, hb b2])
    (hs _ (slotPos_avoids e.entryBlock e.entryOffset b2 off2 hal hal2 hne))

/-- Deleting an entry leaves every other (slot-aligned) slot of the medium as it was; the slot it
marks is one that matched the name. -/
theorem deleteBlocks_other_slot (name : Bytes) (n blockIdx : Nat) (s s' : FS) (hn : NoFault s) (hc : Coherent s)
    (h : deleteBlocks name n blockIdx s = (.ok true, s')) :
    ∃ b off, blockIdx ≤ b ∧ b < blockIdx + n ∧ off % 32 = 0 ∧
      OnDisk.matches (slice (s.dev.disk.get b) off 32) name = true ∧
      ∀ b2 off2, off2 % 32 = 0 → (b2 ≠ b ∨ off2 ≠ off) →
        slice (s'.dev.disk.get b2) off2 32 = slice (s.dev.disk.get b2) off2 32 := by
  obtain ⟨b, off, h1, h2, _, hal, hm, _, hd, hbyte, _⟩ := deleteBlocks_sameOn name n blockIdx s s' hn hc h
  refine ⟨b, off, h1, h2, hal, hm, fun b2 off2 hal2 hne => ?_⟩
  apply slice_congr
  · rw [hd, Disk.get_set]
    split
    · rename_i hbb; subst hbb; rw [List.length_set]
    · rfl
  · intro i hi1 hi2
    apply hbyte
    rcases hne with hne | hne
    · exact .inl hne
    · right; intro e; subst e; omega

/-- An allocation leaves the data blocks of every other cluster of the volume alone. -/
theorem alloc_other_cluster_blocks (s s' : FS) (prev : Option Nat) (zero : Bool) (c : Nat) (hn : NoFault s) (hc : Coherent s)
    (hb : BlocksOK s.dev.disk) (hg : WFGeom s.vol) (hh : HintOK s.vol)
    (hp : ∀ p, prev = some p → p < endCluster s.vol)
    (h : allocCluster prev zero s = (.ok c, s'))
    (c' j : Nat) (hc2 : 2 ≤ c') (hcE : c' < endCluster s.vol) (hne : c' ≠ c) (hj : j < s.vol.blocksPerCluster) :
    s'.dev.disk.get (clusterToBlock s.vol c' + j) = s.dev.disk.get (clusterToBlock s.vol c' + j) := by
  obtain ⟨h2, hE, _⟩ := alloc_in_range_and_free s s' prev zero c hn hc hh h
  obtain ⟨_, _, _, _, _, hget⟩ := alloc_frame s s' prev zero c hn hc hb hg hh hp h
  have hreg := FatLens.cluster_blocks_in_data_region s.vol hg c' j hc2 hcE hj
  have hnf : regionOf s.vol (clusterToBlock s.vol c' + j) ≠ .fat := by rw [hreg]; intro e; cases e
  apply hget
  · exact not_mem_fatWrites_of_region s.vol hg c _ hE hnf
  · intro p hpp
    exact not_mem_fatWrites_of_region s.vol hg p _ (hp p hpp) hnf
  · rintro ⟨_, h3, h4⟩
    have := FatLens.cluster_blocks_disjoint_of_lt s.vol hg c' c j (clusterToBlock s.vol c' + j - clusterToBlock s.vol c)
      hc2 h2 hcE hE hj (by omega) (by omega)
    exact hne this.1

/-- The block write of `write` into a block of cluster `cA` leaves every block of any other cluster
of the volume alone. -/
theorem writeBlockPart_other_cluster (v : FatVolume) (hg : WFGeom v) (cA jA off : Nat) (data : Bytes) (whole : Bool)
    (s : FS) (hn : NoFault s) (hc : Coherent s) (hA2 : 2 ≤ cA) (hAE : cA < endCluster v) (hjA : jA < v.blocksPerCluster)
    (cB jB : Nat) (hB2 : 2 ≤ cB) (hBE : cB < endCluster v) (hjB : jB < v.blocksPerCluster) (hne : cB ≠ cA) :
    (writeBlockPart (clusterToBlock v cA + jA) off data whole s).1 = .ok () ∧
    (writeBlockPart (clusterToBlock v cA + jA) off data whole s).2.dev.disk.get (clusterToBlock v cB + jB) =
      s.dev.disk.get (clusterToBlock v cB + jB) := by
  obtain ⟨h1, h2, _⟩ := writeBlockPart_sameOn (clusterToBlock v cA + jA) off data whole s hn hc (fun _ _ => False)
    (fun _ hf => hf.elim)
  refine ⟨h1, h2 _ ?_⟩
  intro e
  exact hne (FatLens.cluster_blocks_disjoint_of_lt v hg cB cA jB jA hB2 hA2 hBE hAE hjB hjA e).1

end Sdmmc.Lemmas.DirFrames
