/-
C16 at the API level, part 4 — the in-memory free count is written, never read: `write` run from a
state whose free count (of the volume written to) was replaced by ANY value does exactly the same —
same outcome, same medium, same write log, same file table, same volume records up to that count
(`write_count_indep`).  Lifts `FatOps.allocCluster_indep` through the manager.
-/
import Sdmmc.Lemmas.AcctWrite
import Sdmmc.Lemmas.WriteRefinesHist

namespace Sdmmc.Lemmas.Acct
open Sdmmc.Model Sdmmc.Model.Fat Sdmmc.Spec
open Sdmmc.Lemmas.FBasic hiding NoFault Coherent
open Sdmmc.Lemmas.FatOps hiding BlocksOK Mirror HintOK
open Sdmmc.Lemmas.WriteRefines Sdmmc.Lemmas.ReadRefines

/-! ### FAT level: the reading and block-writing pieces -/

theorem FccIndep.panic {α : Type} (msg : String) : FccIndep (F.panic msg : F α) := fun _ _ h => ⟨rfl, h⟩

theorem nextCluster_indep (c : Nat) : FccIndep (nextCluster c) := by
  unfold nextCluster
  refine FccIndep.ite _ (FccIndep.panic _) ?_
  refine FccIndep.getVol_bind _ (fun v n => rfl) fun v => ?_
  refine FccIndep.bind (cacheRead_obliv _).indep fun _ => ?_
  exact FccIndep.bind cacheBlk_obliv.indep fun blk => FccIndep.lift _

theorem walkClusters_indep (bpc : Nat) : ∀ (n : Nat) (st : Nat × Nat), FccIndep (walkClusters bpc n st)
  | 0, _ => FccIndep.pure _
  | n + 1, st => by
    unfold walkClusters
    refine FccIndep.bind (FccIndep.attempt (nextCluster_indep _)) fun r => ?_
    cases r with
    | ok c => exact walkClusters_indep bpc n _
    | err e => exact FccIndep.pure _
    | panic m => exact FccIndep.pure _
    | diverged => exact FccIndep.pure _

theorem findDataOnDisk_indep (a b : Nat) (st : Nat × Nat) : FccIndep (findDataOnDisk a b st) := by
  unfold findDataOnDisk
  refine FccIndep.getVol_bind _ (fun v n => rfl) fun v => ?_
  dsimp only
  split
  · exact FccIndep.panic _
  · refine FccIndep.bind (walkClusters_indep _ _ _) fun x => ?_
    obtain ⟨st', r⟩ := x
    dsimp only
    cases r with
    | ok u =>
      dsimp only
      split
      · exact FccIndep.panic _
      · exact FccIndep.pure _
    | err e => exact FccIndep.pure _
    | panic m => exact FccIndep.pure _
    | diverged => exact FccIndep.pure _

theorem writeBlockPart_indep (b o : Nat) (data : Bytes) (whole : Bool) : FccIndep (writeBlockPart b o data whole) := by
  unfold writeBlockPart
  have hk : FccIndep (cacheModify (fun blk => splice blk o data) >>= fun _ => writeBack) :=
    FccIndep.bind (cacheModify_obliv _).indep fun _ => writeBack_obliv.indep
  cases whole with
  | true => exact FccIndep.bind (blankMut_obliv _).indep fun _ => hk
  | false => exact FccIndep.bind (cacheRead_obliv _).indep fun _ => hk

/-! ### Manager level -/

/-- `s` with the free count of the volume in slot `vi` replaced by `n`. -/
def setCount (vi : Nat) (n : Option Nat) (s : Mgr) : Mgr :=
  { s with vols := s.vols.modify vi fun x => { x with vol := { x.vol with freeClustersCount := n } } }

/-- Run from a state with another free count in slot `vi`, `m` has the same outcome and ends in the
same state up to that count. -/
def MIndep (vi : Nat) {α : Type} (m : M α) : Prop :=
  ∀ s n, ∃ n', m (setCount vi n s) = ((m s).1, setCount vi n' (m s).2)

theorem MIndep.of_tables {vi : Nat} {α : Type} {m : M α}
    (h : ∀ s n, m (setCount vi n s) = ((m s).1, setCount vi n (m s).2)) : MIndep vi m := fun s n => ⟨n, h s n⟩

theorem MIndep.pure {vi : Nat} {α : Type} (a : α) : MIndep vi (pure a : M α) := .of_tables fun _ _ => rfl
theorem MIndep.fail {vi : Nat} {α : Type} (e : Err) : MIndep vi (M.fail e : M α) := .of_tables fun _ _ => rfl
theorem MIndep.lift {vi : Nat} {α : Type} (r : Res α) : MIndep vi (M.lift r) := .of_tables fun _ _ => rfl
theorem MIndep.modifyFile {vi : Nat} (i : Nat) (g : FileInfo → FileInfo) : MIndep vi (modifyFile i g) :=
  .of_tables fun _ _ => rfl
theorem MIndep.getFile {vi : Nat} (i : Nat) : MIndep vi (getFile i) := .of_tables fun s n => by
  unfold Model.getFile
  show (match s.files[i]? with | some f => _ | none => _) = _
  cases s.files[i]? <;> rfl

theorem findIdx?_modify_vol (l : List VolInfo) (vi raw : Nat) (g : VolInfo → VolInfo) (hg : ∀ x, (g x).rawVolume = x.rawVolume) :
    (l.modify vi g).findIdx? (·.rawVolume = raw) = l.findIdx? (·.rawVolume = raw) := by
  apply findIdx?_key (fun x : VolInfo => x.rawVolume) (fun x : VolInfo => x.rawVolume) raw
  intro j
  rw [List.getElem?_modify]
  cases l[j]? with
  | none => rfl
  | some x =>
    simp only [Option.map_some, Functor.map]
    split
    · rw [hg]
    · rfl

theorem setCount_findIdx (vi n raw) (s : Mgr) :
    (setCount vi n s).vols.findIdx? (·.rawVolume = raw) = s.vols.findIdx? (·.rawVolume = raw) :=
  findIdx?_modify_vol s.vols vi raw _ (fun _ => rfl)

theorem MIndep.getVolumeById {vi : Nat} (raw : Nat) : MIndep vi (getVolumeById raw) := .of_tables fun s n => by
  unfold Model.getVolumeById
  show (match (setCount vi n s).vols.findIdx? _ with | some i => _ | none => _) = _
  rw [setCount_findIdx]
  cases s.vols.findIdx? (·.rawVolume = raw) <;> rfl

theorem MIndep.bind {vi : Nat} {α β : Type} {m : M α} {f : α → M β} (hm : MIndep vi m) (hf : ∀ a, MIndep vi (f a)) :
    MIndep vi (m >>= f) := by
  intro s n
  obtain ⟨n1, h1⟩ := hm s n
  rcases hr : m s with ⟨r, s'⟩
  rw [hr] at h1
  cases r with
  | ok a =>
    obtain ⟨n2, h2⟩ := hf a s' n1
    exact ⟨n2, by rw [MHoare.bind_ok h1, MHoare.bind_ok hr]; exact h2⟩
  | err e => exact ⟨n1, by rw [MHoare.bind_err h1, MHoare.bind_err hr]⟩
  | panic msg => exact ⟨n1, by rw [MHoare.bind_panic h1, MHoare.bind_panic hr]⟩
  | diverged => exact ⟨n1, by rw [MHoare.bind_diverged h1, MHoare.bind_diverged hr]⟩

theorem MIndep.attempt {vi : Nat} {α : Type} {m : M α} (hm : MIndep vi m) : MIndep vi (M.attempt m) := by
  intro s n
  obtain ⟨n1, h1⟩ := hm s n
  refine ⟨n1, ?_⟩
  show (Res.ok (m (setCount vi n s)).1, (m (setCount vi n s)).2) = _
  rw [h1]
  rfl

theorem MIndep.ite {vi : Nat} {α : Type} (c : Prop) [Decidable c] {m1 m2 : M α} (h1 : MIndep vi m1) (h2 : MIndep vi m2) :
    MIndep vi (if c then m1 else m2) := by
  split <;> assumption

/-- A FAT-level computation on slot `vi` that neither reads nor writes the count. -/
theorem MIndep.withVol {vi : Nat} {α : Type} {f : F α} (hf : FccIndep f) : MIndep vi (withVol vi f) := by
  intro s n
  cases hv : s.vols[vi]? with
  | none =>
    have hv' : (setCount vi n s).vols[vi]? = none := by
      show (s.vols.modify vi _)[vi]? = none
      rw [List.getElem?_modify, hv]; rfl
    refine ⟨n, ?_⟩
    unfold Model.withVol
    rw [hv, hv']
  | some x =>
    generalize hx' : ({ x with vol := { x.vol with freeClustersCount := n } } : VolInfo) = x'
    have hvx : (setCount vi n s).vols[vi]? = some x' := by
      show (s.vols.modify vi _)[vi]? = _
      rw [List.getElem?_modify, hv, ← hx']; simp
    rw [withVol_run vi f s x hv, withVol_run vi f (setCount vi n s) x' hvx]
    have hsim : FatOps.Sim (fsOf (setCount vi n s) x') (fsOf s x) := ⟨rfl, rfl, n, by rw [← hx']; rfl⟩
    obtain ⟨h1, h2, h3, n', h4⟩ := hf _ _ hsim
    generalize (f (fsOf (setCount vi n s) x')) = out1 at h1 h2 h3 h4 ⊢
    generalize (f (fsOf s x)) = out2 at h1 h2 h3 h4 ⊢
    obtain ⟨r1, t1⟩ := out1
    obtain ⟨r2, t2⟩ := out2
    simp only at h1 h2 h3 h4 ⊢
    subst h1
    refine ⟨n', ?_⟩
    congr 1
    rw [h2, h3, h4]
    unfold setCount
    simp only
    congr 1
    have hvi : vi < s.vols.length := (List.getElem?_eq_some_iff.1 hv).1
    apply List.ext_getElem?
    intro j
    by_cases hj : j = vi
    · subst hj
      rw [List.getElem?_set_self (by rw [List.length_modify]; exact hvi), List.getElem?_modify,
        List.getElem?_set_self hvi, ← hx']
      simp
    · rw [List.getElem?_set_ne (Ne.symm hj), List.getElem?_modify, List.getElem?_modify, List.getElem?_set_ne (Ne.symm hj)]
      simp [Ne.symm hj]

theorem locate_mindep (vi : Nat) (f : FileInfo) : MIndep vi (locate vi f) := by
  unfold locate
  refine MIndep.bind (MIndep.attempt (MIndep.withVol (findDataOnDisk_indep _ _ _))) fun r => ?_
  split
  · exact MIndep.pure _
  · refine MIndep.bind (MIndep.attempt (MIndep.withVol (allocCluster_indep _ _))) fun ra => ?_
    split
    · refine MIndep.bind (MIndep.attempt (MIndep.withVol (findDataOnDisk_indep _ _ _))) fun r2 => ?_
      split
      · exact MIndep.pure _
      · exact MIndep.fail _
      · exact MIndep.lift _
      · exact MIndep.lift _
    · exact MIndep.fail _
    · exact MIndep.lift _
  · exact MIndep.lift _
  · exact MIndep.lift _

theorem writeLoop_mindep (i vi : Nat) : ∀ (fuel : Nat) (buffer : Bytes), MIndep vi (writeLoop i vi fuel buffer)
  | 0, _ => MIndep.pure _
  | fuel + 1, buffer => by
    have e : writeLoop i vi (fuel + 1) buffer =
        (if buffer.isEmpty then pure () else getFile i >>= fun f => locate vi f >>= fun x =>
          withVol vi (writeBlockPart x.2.1 x.2.2.1 (buffer.take (min x.2.2.2 buffer.length))
            (decide (x.2.2.1 = 0 ∧ min x.2.2.2 buffer.length = x.2.2.2))) >>= fun _ =>
          modifyFile i (bump x.1 (min x.2.2.2 buffer.length)) >>= fun _ =>
          writeLoop i vi fuel (buffer.drop (min x.2.2.2 buffer.length))) := by
      rw [writeLoop]; rfl
    rw [e]
    refine MIndep.ite _ (MIndep.pure _) ?_
    refine MIndep.bind (MIndep.getFile _) fun f => ?_
    refine MIndep.bind (locate_mindep vi f) fun x => ?_
    refine MIndep.bind (MIndep.withVol (writeBlockPart_indep _ _ _ _)) fun _ => ?_
    exact MIndep.bind (MIndep.modifyFile _ _) fun _ => writeLoop_mindep i vi fuel _

theorem writeRest_mindep (vi rv i : Nat) (buffer : Bytes) :
    ∀ s n, s.vols.findIdx? (·.rawVolume = rv) = some vi →
      ∃ n', writeRest rv i buffer (setCount vi n s) = ((writeRest rv i buffer s).1, setCount vi n' (writeRest rv i buffer s).2) := by
  intro s n hv
  have hv' : (setCount vi n s).vols.findIdx? (·.rawVolume = rv) = some vi := by
    rw [setCount_findIdx]; exact hv
  unfold writeRest
  rw [MHoare.bind_ok (MHoare.getVolumeById_ok hv), MHoare.bind_ok (MHoare.getVolumeById_ok hv')]
  have : MIndep vi (modifyFile i fixup >>= fun _ => getFile i >>= fun f =>
      writeLoop i vi (min buffer.length (Gen.MAX_FILE_SIZE - f.currentOffset) + 1)
        (buffer.take (min buffer.length (Gen.MAX_FILE_SIZE - f.currentOffset))) >>= fun _ =>
      if min buffer.length (Gen.MAX_FILE_SIZE - f.currentOffset) < buffer.length then M.fail .DiskFull else pure ()) := by
    refine MIndep.bind (MIndep.modifyFile _ _) fun _ => ?_
    refine MIndep.bind (MIndep.getFile _) fun f => ?_
    refine MIndep.bind (writeLoop_mindep i vi _ _) fun _ => ?_
    exact MIndep.ite _ (MIndep.fail _) (MIndep.pure _)
  exact this s n

/-- **The free count is never read by `write`.**  `h` is an open, writable handle whose volume is
in slot `vi`.  Replacing the in-memory free count of that volume by ANY value `n` changes nothing
about what `write` does: the outcome is the same, and the end state is the same up to the free
count of slot `vi` — medium, write log, cache, file table (so: the chain the file ends up with),
every other field of every volume record. -/
theorem write_count_indep (s : Mgr) (h i vi : Nat) (data : Bytes) (f : FileInfo) (n : Option Nat)
    (hh : s.files.findIdx? (·.rawFile = h) = some i) (hf : s.files[i]? = some f)
    (hv : s.vols.findIdx? (·.rawVolume = f.rawVolume) = some vi) :
    ∃ n', Model.write h data (setCount vi n s) = ((Model.write h data s).1, setCount vi n' (Model.write h data s).2) := by
  have hv' : (setCount vi n s).vols.findIdx? (·.rawVolume = f.rawVolume) = some vi := by
    rw [setCount_findIdx]; exact hv
  by_cases hmode : f.mode = .ReadOnly
  · rw [write_readOnly s h i vi data f hh hf hv hmode, write_readOnly (setCount vi n s) h i vi data f hh hf hv' hmode]
    exact ⟨n, rfl⟩
  · rw [write_run s h i vi data f hh hf hv hmode, write_run (setCount vi n s) h i vi data f hh hf hv' hmode]
    generalize hsa : ({ s with files := s.files.set i (touchFile s.clock f) } : Mgr) = sa
    have hsa' : ({ setCount vi n s with files := (setCount vi n s).files.set i (touchFile (setCount vi n s).clock f) } : Mgr) =
        setCount vi n sa := by rw [← hsa]; rfl
    rw [hsa']
    have hva : sa.vols.findIdx? (·.rawVolume = f.rawVolume) = some vi := by rw [← hsa]; exact hv
    unfold writeTail
    split
    · -- first cluster
      obtain ⟨n1, h1⟩ := MIndep.withVol (vi := vi) (allocCluster_indep none false) sa n
      rcases hr : withVol vi (allocCluster none false) sa with ⟨r, sb⟩
      rw [hr] at h1
      cases r with
      | ok c =>
        rw [MHoare.bind_ok h1, MHoare.bind_ok hr]
        have hm : ∀ t : Mgr, modifyFile i (fun g => { g with entry := { g.entry with cluster := c } }) t =
            (.ok (), { t with files := t.files.modify i fun g => { g with entry := { g.entry with cluster := c } } }) :=
          fun _ => rfl
        rw [MHoare.bind_ok (hm _), MHoare.bind_ok (hm _)]
        have hvb : ({ sb with files := sb.files.modify i fun g => { g with entry := { g.entry with cluster := c } } } : Mgr).vols.findIdx?
            (·.rawVolume = f.rawVolume) = some vi := by
          have hsb : sb = (withVol vi (allocCluster none false) sa).2 := by rw [hr]
          show sb.vols.findIdx? _ = _
          rw [hsb]
          unfold Model.withVol
          cases hx : sa.vols[vi]? with
          | none => simp only; exact hva
          | some x =>
            simp only
            refine (findIdx?_set_same (fun y : VolInfo => decide (y.rawVolume = f.rawVolume)) sa.vols vi x _ hx ?_).trans hva
            rfl
        exact writeRest_mindep vi f.rawVolume i data _ n1 hvb
      | err e => exact ⟨n1, by rw [MHoare.bind_err h1, MHoare.bind_err hr]⟩
      | panic msg => exact ⟨n1, by rw [MHoare.bind_panic h1, MHoare.bind_panic hr]⟩
      | diverged => exact ⟨n1, by rw [MHoare.bind_diverged h1, MHoare.bind_diverged hr]⟩
    · exact writeRest_mindep vi f.rawVolume i data sa n hva

end Sdmmc.Lemmas.Acct
