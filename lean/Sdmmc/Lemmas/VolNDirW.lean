/-
Several open volumes: the simulation (`RunSim`) of the two WRITING calls on a DIRECTORY handle whose volume is record
`i` — `delete_file_in_dir` and `make_dir_in_dir`.  Neither changes a table, so both are exact simulations.
-/
import Sdmmc.Lemmas.VolNFile

namespace Sdmmc.Lemmas.VolN
open Sdmmc.Model Sdmmc.Model.Fat Sdmmc.Spec.Volume
open Sdmmc.Spec hiding NoFault Coherent run step
open Sdmmc.Lemmas.MHoare

section
variable {hv i : Nat} {σd σf : List (Nat × Nat)}

/-! ### `delete_file_in_dir` -/

theorem delete_simAt {s : Mgr} {d k : Nat} (hs : Skel hv i σd σf s)
    (hk : σd.findIdx? (fun e => decide (e.1 = d)) = some k) (hown : σd[k]? = some (d, hv)) (name : List Nat) :
    SimAt hv i σd σf Eq (deleteFileInDir d name) (deleteFileInDir d name) s := by
  unfold deleteFileInDir
  refine SimAt.bind (sim_getDirById hs hk hown) fun a b hab _ hs => ?_
  obtain ⟨rfl, rfl⟩ := hab
  refine SimAt.bind (sim_getDir hs hown) fun p p' hrr hget hs' => ?_
  subst hrr
  obtain ⟨_, _, hdv⟩ := getDir_skel hs hown hget
  rw [hdv]
  refine SimAt.bind (sim_getVolumeById hs') fun a b hab _ hs => ?_
  obtain ⟨rfl, rfl⟩ := hab
  refine SimAt.bind (sim_toSfn hs name) fun sfn sfn' hsfn _ hs => ?_
  subst hsfn
  refine SimAt.bind (sim_withVol hs _) fun e e' hee _ hs => ?_
  subst hee
  refine SimAt.ite (fun _ => sim_fail hs _) (fun _ => ?_)
  refine SimAt.get_bind ?_
  rw [projH_fileIsOpen]
  refine SimAt.ite (fun _ => sim_fail hs _) (fun _ => ?_)
  refine SimAt.bind (sim_getVolumeById hs) fun a b hab _ hs => ?_
  obtain ⟨rfl, rfl⟩ := hab
  exact sim_withVol hs _

theorem delete_runSim {s : Mgr} {hv i d : Nat} (hvol : s.vols.findIdx? (·.rawVolume = hv) = some i)
    (ht : dirTarget s d = some i) (name : List Nat) : RunSim hv i (deleteFileInDir d name) s := by
  obtain ⟨k, hk, hown⟩ := dirTarget_spec hvol ht
  exact RunSim.of_simAt (delete_simAt ⟨hvol, rfl, rfl⟩ hk hown name)

/-! ### `make_dir_in_dir` -/

/-- The `match` on the answer of the lookup in `make_dir_in_dir`. -/
theorem mkdir_match_simAt {s : Mgr} (hs : Skel hv i σd σf s) (r : Res DirEntry) (cl : Nat) (sfn : Bytes) (clk : Timestamp) :
    SimAt hv i σd σf Eq
      (match r with
        | .ok e => if Attr.isDirectory e.attributes then M.fail .DirAlreadyExists else M.fail .FileAlreadyExists
        | .err .NotFound => withVol i (Fat.makeDir cl sfn ATTR_DIRECTORY clk)
        | other => M.lift (other.bind fun _ => .ok ()) : M Unit)
      (match r with
        | .ok e => if Attr.isDirectory e.attributes then M.fail .DirAlreadyExists else M.fail .FileAlreadyExists
        | .err .NotFound => withVol 0 (Fat.makeDir cl sfn ATTR_DIRECTORY clk)
        | other => M.lift (other.bind fun _ => .ok ()) : M Unit) s := by
  cases r with
  | ok e => exact SimAt.ite (fun _ => sim_fail hs _) (fun _ => sim_fail hs _)
  | err e => cases e <;> first | exact sim_withVol hs _ | exact sim_lift hs _
  | panic m => exact sim_lift hs _
  | diverged => exact sim_lift hs _

theorem mkdir_simAt {s : Mgr} {d k : Nat} (hs : Skel hv i σd σf s)
    (hk : σd.findIdx? (fun e => decide (e.1 = d)) = some k) (hown : σd[k]? = some (d, hv)) (name : List Nat) :
    SimAt hv i σd σf Eq (makeDirInDir d name) (makeDirInDir d name) s := by
  unfold makeDirInDir
  refine SimAt.get_bind ?_
  rw [projH_clock]
  have hfull := projH_dirs_full hv i s
  by_cases hc : s.dirs.length ≥ s.maxDirs
  · rw [if_pos hc, if_pos (hfull.2 hc)]
    exact sim_fail hs _
  rw [if_neg hc, if_neg (fun h => hc (hfull.1 h))]
  refine SimAt.bind (sim_getDirById hs hk hown) fun a b hab _ hs => ?_
  obtain ⟨rfl, rfl⟩ := hab
  refine SimAt.bind (sim_getDir hs hown) fun p p' hrr hget hs' => ?_
  subst hrr
  obtain ⟨_, _, hdv⟩ := getDir_skel hs hown hget
  rw [hdv]
  refine SimAt.bind (sim_getVolumeById hs') fun a b hab _ hs => ?_
  obtain ⟨rfl, rfl⟩ := hab
  refine SimAt.bind (sim_toSfn hs name) fun sfn sfn' hsfn _ hs => ?_
  subst hsfn
  refine SimAt.bind (sim_withVol hs _).attempt fun r r' hrr _ hs => ?_
  have := hrr.eq
  subst this
  exact mkdir_match_simAt hs _ _ _ _

theorem mkdir_runSim {s : Mgr} {hv i d : Nat} (hvol : s.vols.findIdx? (·.rawVolume = hv) = some i)
    (ht : dirTarget s d = some i) (name : List Nat) : RunSim hv i (makeDirInDir d name) s := by
  obtain ⟨k, hk, hown⟩ := dirTarget_spec hvol ht
  exact RunSim.of_simAt (mkdir_simAt ⟨hvol, rfl, rfl⟩ hk hown name)

end

end Sdmmc.Lemmas.VolN
