/-
C02 over abstract histories, part 2: the outcomes of the calls that change a directory slot, as named states
(`createdSt`, `truncatedSt`, `openedSt`, `writtenSt`, `flushedSt`, `deletedSt`, `mkdirSt`) and one case lemma
per call (`openFileS_cases`, …); the outcomes of the calls that change tables only (`tables_only`).
-/
import Sdmmc.Lemmas.AbsFsTimesBase

namespace Sdmmc.Lemmas.AbsFsTimes
open Sdmmc.Model Sdmmc.Spec.AbsFs Sdmmc.Lemmas.AbsFsTouch
open Sdmmc.Spec (ByteFile)

/-! ### The states -/

def createdRec (a : AbsFs) (od : OpenDir) (sfn : Bytes) : OpenFile :=
  ⟨a.nextId, od.volume, .ReadWriteCreate, od.dir, freeIdx (a.slots od.dir), 0, newMeta sfn 0 a.clock, false⟩

def createdSt (a : AbsFs) (od : OpenDir) (sfn : Bytes) : AbsFs :=
  { gen (setSlot a od.dir (freeIdx (a.slots od.dir)) (.file (storedMeta (newMeta sfn 0 a.clock)) [])) with
    files := a.files ++ [createdRec a od sfn] }

def truncatedRec (a : AbsFs) (od : OpenDir) (i : Nat) (m : Meta) : OpenFile :=
  ⟨a.nextId, od.volume, .ReadWriteTruncate, od.dir, i, 0, { m with size := 0, mtime := a.clock }, false⟩

def truncatedSt (a : AbsFs) (od : OpenDir) (i : Nat) (m : Meta) : AbsFs :=
  { gen (setSlot a od.dir i (.file (storedMeta { m with size := 0, mtime := a.clock }) [])) with
    files := a.files ++ [truncatedRec a od i m] }

def openedRec (a : AbsFs) (od : OpenDir) (i : Nat) (m : Meta) (mode : Mode) : OpenFile :=
  ⟨a.nextId, od.volume, solveModeVariant mode true, od.dir, i,
    if solveModeVariant mode true = .ReadWriteAppend then m.size else 0, m, false⟩

def openedSt (a : AbsFs) (od : OpenDir) (i : Nat) (m : Meta) (mode : Mode) : AbsFs :=
  { gen a with files := a.files ++ [openedRec a od i m mode] }

def writtenRec (a : AbsFs) (f : OpenFile) (newBytes : Bytes) (k : Nat) : OpenFile :=
  { f with pos := f.pos + k, dirty := true,
           pm := { f.pm with attr := Attr.setArchive f.pm.attr, mtime := a.clock, size := newBytes.length } }

def writtenSt (a : AbsFs) (i : Nat) (f : OpenFile) (m : Meta) (newBytes : Bytes) (k : Nat) : AbsFs :=
  setSlot { a with files := a.files.set i (writtenRec a f newBytes k) } f.dir f.idx (.file m newBytes)

def flushedSt (a : AbsFs) (f : OpenFile) (bytes : Bytes) : AbsFs :=
  setSlot a f.dir f.idx (.file (storedMeta f.pm) bytes)

def deletedSt (a : AbsFs) (od : OpenDir) (i : Nat) : AbsFs := setSlot a od.dir i .deleted

def mkdirMeta (a : AbsFs) (sfn : Bytes) : Meta := storedMeta (newMeta sfn Gen.ATTR_DIRECTORY a.clock)

def mkdirSt (a : AbsFs) (od : OpenDir) (sfn : Bytes) (c : Nat) : AbsFs :=
  { setSlot a od.dir (freeIdx (a.slots od.dir)) (.dir (mkdirMeta a sfn) c) with
    ids := a.ids ++ [c],
    slots := fun x =>
      if x = c then [.dir { mkdirMeta a sfn with name := Sfn.thisDir } c, .dir { mkdirMeta a sfn with name := Sfn.parentDir } od.dir]
      else (setSlot a od.dir (freeIdx (a.slots od.dir)) (.dir (mkdirMeta a sfn) c)).slots x }

/-! ### `open_file_in_dir` -/

section
variable {a a' : AbsFs} {r : Res Payload}

theorem openFileS_cases {d : Nat} {name : List Nat} {mode : Mode} (h : openFileS a d name mode a' r) :
    (a' = a ∧ isOkHandle r = false) ∨
    ∃ od sfn, dirCtx a d name = .ok (od, sfn) ∧ r = .ok (.handle a.nextId) ∧
      ((lookup (a.slots od.dir) sfn = none ∧ a' = createdSt a od sfn) ∨
       ∃ i m bytes, lookup (a.slots od.dir) sfn = some i ∧ (a.slots od.dir)[i]? = some (.file m bytes) ∧
         isOpenAt a od.volume od.dir i = false ∧
         ((solveModeVariant mode true = .ReadWriteTruncate ∧ a' = truncatedSt a od i m) ∨
          (solveModeVariant mode true ≠ .ReadWriteTruncate ∧ a' = openedSt a od i m mode))) := by
  unfold openFileS at h
  split at h
  · obtain ⟨rfl, rfl⟩ := h; exact .inl ⟨rfl, rfl⟩
  cases hctx : dirCtx a d name with
  | error e => rw [hctx] at h; obtain ⟨rfl, rfl⟩ := h; exact .inl ⟨rfl, rfl⟩
  | ok p =>
    obtain ⟨od, sfn⟩ := p
    rw [hctx] at h
    dsimp only at h
    cases hlk : lookup (a.slots od.dir) sfn with
    | none =>
      rw [hlk] at h
      dsimp only at h
      split at h
      · rcases h with ⟨rfl, rfl⟩ | ⟨rfl, rfl⟩
        · exact .inl ⟨rfl, rfl⟩
        · exact .inr ⟨od, sfn, rfl, rfl, .inl ⟨hlk, rfl⟩⟩
      · obtain ⟨rfl, rfl⟩ := h; exact .inl ⟨rfl, rfl⟩
    | some i =>
      rw [hlk] at h
      dsimp only at h
      split at h
      · next m bytes hsl =>
        split at h
        · obtain ⟨rfl, rfl⟩ := h; exact .inl ⟨rfl, rfl⟩
        · next hno =>
          split at h
          · obtain ⟨rfl, rfl⟩ := h; exact .inl ⟨rfl, rfl⟩
          · split at h
            · obtain ⟨rfl, rfl⟩ := h; exact .inl ⟨rfl, rfl⟩
            · obtain ⟨rfl, h⟩ := h
              have hno' : isOpenAt a od.volume od.dir i = false := by simpa using hno
              refine .inr ⟨od, sfn, rfl, rfl, .inr ⟨i, m, bytes, hlk, hsl, hno', ?_⟩⟩
              split at h
              · next ht => exact .inl ⟨ht, h⟩
              · next ht => exact .inr ⟨ht, h⟩
      · repeat' split at h
        all_goals (obtain ⟨rfl, rfl⟩ := h; exact .inl ⟨rfl, rfl⟩)
      · exact h.elim

/-! ### `write` -/

theorem writeS_cases {hd : Nat} {data : Bytes} (h : writeS a hd data a' r) :
    (a' = a ∧ isEffWrite r = false) ∨
    ∃ i f m bytes k, fileOf a hd = some (i, f) ∧ volOpen a f.volume = true ∧
      (a.slots f.dir)[f.idx]? = some (.file m bytes) ∧ k ≤ data.length ∧ isEffWrite r = true ∧
      a' = writtenSt a i f m ((⟨bytes, f.pos⟩ : ByteFile).write (data.take k)).bytes k := by
  unfold writeS at h
  cases hf : fileOf a hd with
  | none => rw [hf] at h; obtain ⟨rfl, rfl⟩ := h; exact .inl ⟨rfl, rfl⟩
  | some p =>
    obtain ⟨i, f⟩ := p
    rw [hf] at h
    dsimp only at h
    split at h
    · obtain ⟨rfl, rfl⟩ := h; exact .inl ⟨rfl, rfl⟩
    · next hv =>
      split at h
      · obtain ⟨rfl, rfl⟩ := h; exact .inl ⟨rfl, rfl⟩
      · obtain ⟨m, bytes, k, hsl, hk, hr, rfl⟩ := h
        refine .inr ⟨i, f, m, bytes, k, rfl, by simpa using hv, hsl, hk, ?_, rfl⟩
        rcases hr with ⟨rfl, _⟩ | ⟨rfl, _⟩ | ⟨rfl, _⟩ <;> rfl

/-! ### `flush_file`, `close_file` -/

theorem flushF_cases (hd : Nat) :
    ((flushF a hd).1 = a ∧ ¬ (dirtyAt a hd = true ∧ isOkUnit (flushF a hd).2 = true)) ∨
    ∃ i f m bytes, fileOf a hd = some (i, f) ∧ f.dirty = true ∧ volOpen a f.volume = true ∧
      (a.slots f.dir)[f.idx]? = some (.file m bytes) ∧ flushF a hd = (flushedSt a f bytes, .ok .unit) := by
  unfold flushF
  cases hf : fileOf a hd with
  | none => exact .inl ⟨rfl, fun hx => by unfold dirtyAt at hx; rw [hf] at hx; cases hx.1⟩
  | some p =>
    obtain ⟨i, f⟩ := p
    dsimp only
    by_cases hdirty : f.dirty = true
    · rw [hdirty]
      simp only [Bool.not_true, Bool.false_eq_true, if_false]
      by_cases hv : volOpen a f.volume = true
      · rw [hv]
        simp only [Bool.not_true, Bool.false_eq_true, if_false]
        cases hsl : (a.slots f.dir)[f.idx]? with
        | none => exact .inl ⟨rfl, fun hx => by cases hx.2⟩
        | some sl =>
          cases sl with
          | file m bytes => exact .inr ⟨i, f, m, bytes, rfl, hdirty, hv, hsl, rfl⟩
          | deleted => exact .inl ⟨rfl, fun hx => by cases hx.2⟩
          | frag raw => exact .inl ⟨rfl, fun hx => by cases hx.2⟩
          | dir m t => exact .inl ⟨rfl, fun hx => by cases hx.2⟩
      · have hv' : volOpen a f.volume = false := by simpa using hv
        rw [hv']
        exact .inl ⟨rfl, fun hx => by cases hx.2⟩
    · have hd' : f.dirty = false := by simpa using hdirty
      rw [hd']
      exact .inl ⟨rfl, fun hx => by unfold dirtyAt at hx; rw [hf] at hx; simp only at hx; rw [hd'] at hx; cases hx.1⟩

/-! ### `delete_file_in_dir` -/

theorem deleteS_cases {d : Nat} {name : List Nat} (h : deleteS a d name a' r) :
    (a' = a ∧ isOkUnit r = false) ∨
    ∃ od sfn i m bytes, dirCtx a d name = .ok (od, sfn) ∧ lookup (a.slots od.dir) sfn = some i ∧
      (a.slots od.dir)[i]? = some (.file m bytes) ∧ isOpenAt a od.volume od.dir i = false ∧
      a' = deletedSt a od i ∧ r = .ok .unit := by
  unfold deleteS at h
  cases hctx : dirCtx a d name with
  | error e => rw [hctx] at h; obtain ⟨rfl, rfl⟩ := h; exact .inl ⟨rfl, rfl⟩
  | ok p =>
    obtain ⟨od, sfn⟩ := p
    rw [hctx] at h
    dsimp only at h
    cases hlk : lookup (a.slots od.dir) sfn with
    | none => rw [hlk] at h; obtain ⟨rfl, rfl⟩ := h; exact .inl ⟨rfl, rfl⟩
    | some i =>
      rw [hlk] at h
      dsimp only at h
      split at h
      · next m bytes hsl =>
        split at h
        · obtain ⟨rfl, rfl⟩ := h; exact .inl ⟨rfl, rfl⟩
        · next hno =>
          obtain ⟨rfl, rfl⟩ := h
          exact .inr ⟨od, sfn, i, m, bytes, rfl, hlk, hsl, by simpa using hno, rfl, rfl⟩
      · obtain ⟨rfl, rfl⟩ := h; exact .inl ⟨rfl, rfl⟩
      · exact h.elim

/-! ### `make_dir_in_dir` -/

theorem mkdirS_cases {d : Nat} {name : List Nat} (h : mkdirS a d name a' r) :
    (a' = a ∧ isOkUnit r = false) ∨
    ∃ od sfn c, dirCtx a d name = .ok (od, sfn) ∧ lookup (a.slots od.dir) sfn = none ∧ c ∉ a.ids ∧
      a' = mkdirSt a od sfn c ∧ r = .ok .unit := by
  unfold mkdirS at h
  split at h
  · obtain ⟨rfl, rfl⟩ := h; exact .inl ⟨rfl, rfl⟩
  cases hctx : dirCtx a d name with
  | error e => rw [hctx] at h; obtain ⟨rfl, rfl⟩ := h; exact .inl ⟨rfl, rfl⟩
  | ok p =>
    obtain ⟨od, sfn⟩ := p
    rw [hctx] at h
    dsimp only at h
    cases hlk : lookup (a.slots od.dir) sfn with
    | some i =>
      rw [hlk] at h
      dsimp only at h
      split at h
      · obtain ⟨rfl, rfl⟩ := h; exact .inl ⟨rfl, rfl⟩
      · obtain ⟨rfl, rfl⟩ := h; exact .inl ⟨rfl, rfl⟩
    | none =>
      rw [hlk] at h
      dsimp only at h
      rcases h with ⟨rfl, rfl⟩ | ⟨c, hc, rfl, rfl⟩
      · exact .inl ⟨rfl, rfl⟩
      · exact .inr ⟨od, sfn, c, rfl, hlk, hc, rfl, rfl⟩

end

end Sdmmc.Lemmas.AbsFsTimes
