/-
The four FAT operations preserve `Ready` and `Owns` (hence `Forest`); `step` and `run` of
`Spec/Forest.lean` preserve them over every history.  Used by `Props/C05Forest.lean`.
-/
import Sdmmc.Lemmas.ForestAlloc
import Sdmmc.Lemmas.ForestOwns
import Sdmmc.Lemmas.ForestCount

namespace Sdmmc.Lemmas.ForestStep
open Sdmmc.Model Sdmmc.Model.Fat Sdmmc.Spec
open Sdmmc.Lemmas.FBasic hiding NoFault Coherent
open Sdmmc.Lemmas.FatOps hiding BlocksOK Mirror HintOK
open Sdmmc.Lemmas.ChainL Sdmmc.Lemmas.ForestBase Sdmmc.Lemmas.ForestTrunc Sdmmc.Lemmas.ForestAlloc
open Sdmmc.Lemmas.ForestOwns Sdmmc.Lemmas.ForestCount

theorem flatten_one (cs : List Nat) : ([cs] : List (List Nat)).flatten = cs := by
  rw [List.flatten_cons, List.flatten_nil, List.append_nil]

theorem owns_mem_used {v : FatVolume} {d : Disk} {G : List (List Nat)} (h : Owns v d G) {x : Nat}
    (hx : x ∈ G.flatten) : isUsed v d x := (h.2.2 x).2 hx

theorem isFree_congr_raw {v : FatVolume} {d d' : Disk} {x : Nat} (h : fatRaw v d' x = fatRaw v d x) :
    isFree v d' x ↔ isFree v d x := by
  unfold isFree fatEntry; rw [h]

/-! ### Allocation -/

/-- `alloc_cluster(None, zero)`: the new cluster becomes a one-cluster chain of its own. -/
theorem owns_newChain (s s' : FS) (G : List (List Nat)) (zero : Bool) (c : Nat) (hr : Ready s)
    (ho : Owns s.vol s.dev.disk G) (h : allocCluster none zero s = (.ok c, s')) :
    Ready s' ∧ Owns s'.vol s'.dev.disk (G ++ [[c]]) ∧ SameGeom s.vol s'.vol ∧
    (Mirror s.vol s.dev.disk → Mirror s'.vol s'.dev.disk) ∧ (CountExact s → CountExact s') := by
  obtain ⟨hn', hc', hb', hsg, hh', hcnt, hrc, hfree, heof, _, hother, hmir⟩ :=
    alloc_spec s s' none zero c hr.noFault hr.coherent hr.blocksOK hr.geom hr.hint (fun p hp => by cases hp) h
  have hcG : c ∉ G.flatten := fun hx => free_not_used hfree (owns_mem_used ho hx)
  have hkeepRaw : ∀ x, x ≠ c → InRange s.vol x → fatRaw s.vol s'.dev.disk x = fatRaw s.vol s.dev.disk x :=
    fun x hne hrx => hother x hrx.2 hne (fun e => by cases e)
  have hsub : freeCount s.vol s.dev.disk = freeCount s.vol s'.dev.disk + 1 :=
    freeCount_add (d := s'.dev.disk) (d' := s.dev.disk) [c] (List.nodup_cons.2 ⟨List.not_mem_nil, List.nodup_nil⟩)
      (fun x hx => by rw [List.mem_singleton.1 hx]; exact hrc)
      (fun x hx => by rw [List.mem_singleton.1 hx]; exact (not_free_of_eof heof).1)
      (fun x hx => by rw [List.mem_singleton.1 hx]; exact hfree)
      (fun x hrx hx => (isFree_congr_raw (hkeepRaw x (fun e => hx (List.mem_singleton.2 e)) hrx)).symm)
  refine ⟨⟨hn', hc', hb', hsg.wfGeom hr.geom, hh'⟩, ?_, hsg, fun hm => (hsg.mirror _).2 (hmir hm),
    countExact_sub hsg hcnt hsub⟩
  have ho' : Owns s.vol s.dev.disk (G ++ [] ++ []) := by rw [List.append_nil, List.append_nil]; exact ho
  have := owns_splice (v' := s'.vol) (d' := s'.dev.disk) (mid' := [[c]]) ho' hsg.endCluster ?_ ?_ ?_ ?_ ?_
  · rw [List.append_nil] at this; exact this
  · rintro x (hx | hx)
    · have hu := owns_mem_used ho hx
      rw [hsg.nextOf]
      exact nextOf_congr rfl (hkeepRaw x (fun e => hcG (e ▸ hx)) hu.1)
    · cases hx
  · intro cs hcs
    rw [List.mem_singleton] at hcs
    subst hcs
    exact Chain.last c ((hsg.inRange c).2 hrc) (by rw [hsg.nextOf]; exact heof)
  · rw [flatten_one]; exact List.nodup_cons.2 ⟨List.not_mem_nil, List.nodup_nil⟩
  · intro x hx
    rw [flatten_one, List.mem_singleton] at hx
    subst hx
    exact ⟨hcG, List.not_mem_nil⟩
  · intro x
    rw [flatten_one, List.mem_singleton]
    by_cases hxc : x = c
    · subst hxc
      have : isUsed s'.vol s'.dev.disk x := (hsg.isUsed _ _).2 ⟨hrc, not_free_of_eof heof⟩
      exact ⟨fun _ => .inl rfl, fun _ => this⟩
    · rw [isUsed_congr hsg (hkeepRaw x hxc)]
      exact ⟨fun hu => .inr ⟨hu, List.not_mem_nil⟩, fun hu => hu.elim (fun e => absurd e hxc) (·.1)⟩

/-- `alloc_cluster(Some(p), zero)` with `p` the last cluster of an owned chain: that chain grows by
the new cluster. -/
theorem owns_extend (s s' : FS) (A B : List (List Nat)) (pre : List Nat) (p : Nat) (zero : Bool) (c : Nat) (hr : Ready s)
    (ho : Owns s.vol s.dev.disk (A ++ [pre ++ [p]] ++ B)) (h : allocCluster (some p) zero s = (.ok c, s')) :
    Ready s' ∧ Owns s'.vol s'.dev.disk (A ++ [pre ++ [p] ++ [c]] ++ B) ∧ SameGeom s.vol s'.vol ∧
    (Mirror s.vol s.dev.disk → Mirror s'.vol s'.dev.disk) ∧ (CountExact s → CountExact s') := by
  have hmemG : ∀ x, x ∈ pre ++ [p] → x ∈ (A ++ [pre ++ [p]] ++ B).flatten := fun x hx =>
    (mem_flatten3 _ _ _ x).2 (.inr (.inl (by rw [flatten_one]; exact hx)))
  have hpu : isUsed s.vol s.dev.disk p := owns_mem_used ho (hmemG p (List.mem_append_right _ (List.mem_singleton.2 rfl)))
  obtain ⟨hn', hc', hb', hsg, hh', hcnt, hrc, hfree, heof, hlink, hother, hmir⟩ :=
    alloc_spec s s' (some p) zero c hr.noFault hr.coherent hr.blocksOK hr.geom hr.hint
      (fun q hq => by cases hq; exact ⟨hpu.1.2, hpu.2.1⟩) h
  obtain ⟨hpc, hlinkp⟩ := hlink p rfl
  have hcG : c ∉ (A ++ [pre ++ [p]] ++ B).flatten := fun hx => free_not_used hfree (owns_mem_used ho hx)
  have hkeepRaw : ∀ x, x ≠ c → x ≠ p → InRange s.vol x → fatRaw s.vol s'.dev.disk x = fatRaw s.vol s.dev.disk x :=
    fun x hne hnp hrx => hother x hrx.2 hne (fun e => hnp (Option.some.inj e).symm)
  have hsub : freeCount s.vol s.dev.disk = freeCount s.vol s'.dev.disk + 1 :=
    freeCount_add (d := s'.dev.disk) (d' := s.dev.disk) [c] (List.nodup_cons.2 ⟨List.not_mem_nil, List.nodup_nil⟩)
      (fun x hx => by rw [List.mem_singleton.1 hx]; exact hrc)
      (fun x hx => by rw [List.mem_singleton.1 hx]; exact (not_free_of_eof heof).1)
      (fun x hx => by rw [List.mem_singleton.1 hx]; exact hfree)
      (fun x hrx hx => by
        by_cases hxp : x = p
        · subst hxp
          exact ⟨fun hf => absurd hf hpu.2.1, fun hf => absurd hf (not_free_of_link hlinkp hrc.1).1⟩
        · exact (isFree_congr_raw (hkeepRaw x (fun e => hx (List.mem_singleton.2 e)) hxp hrx)).symm)
  refine ⟨⟨hn', hc', hb', hsg.wfGeom hr.geom, hh'⟩, ?_, hsg, fun hm => (hsg.mirror _).2 (hmir hm),
    countExact_sub hsg hcnt hsub⟩
  have hch : Chain s.vol s.dev.disk ((pre ++ [p]).headD 0) (pre ++ [p]) :=
    ho.1 _ (List.mem_append_left _ (List.mem_append_right _ (List.mem_singleton.2 rfl)))
  have hnodup := ho.2.1
  rw [flatten3, nodup3, flatten_one] at hnodup
  obtain ⟨_, ncs, _, dAM, _, dMB⟩ := hnodup
  have hpA : p ∉ A.flatten := fun hx => dAM p hx (List.mem_append_right _ (List.mem_singleton.2 rfl))
  have hpB : p ∉ B.flatten := fun hx => dMB p (List.mem_append_right _ (List.mem_singleton.2 rfl)) hx
  have hpp : p ∉ pre := fun hx => by
    obtain ⟨_, _, h3⟩ := List.nodup_append.1 ncs
    exact h3 p hx p (List.mem_singleton.2 rfl) rfl
  apply owns_splice (v' := s'.vol) (d' := s'.dev.disk) (mid' := [pre ++ [p] ++ [c]]) ho hsg.endCluster
  · intro x hx
    have hxG : x ∈ (A ++ [pre ++ [p]] ++ B).flatten := (mem_flatten3 _ _ _ x).2 (hx.elim .inl (fun h => .inr (.inr h)))
    have hu := owns_mem_used ho hxG
    rw [hsg.nextOf]
    refine nextOf_congr rfl (hkeepRaw x (fun e => hcG (e ▸ hxG)) ?_ hu.1)
    rintro rfl
    exact hx.elim hpA hpB
  · intro cs hcs
    rw [List.mem_singleton] at hcs
    subst hcs
    have hhd : (pre ++ [p] ++ [c]).headD 0 = (pre ++ [p]).headD 0 := by cases pre <;> rfl
    rw [hhd]
    refine chain_snoc pre hch hsg.endCluster ((hsg.inRange c).2 hrc) (fun hx => hcG (hmemG c hx))
      (by rw [hsg.nextOf]; exact hlinkp) (by rw [hsg.nextOf]; exact heof) ?_
    intro y hy
    have hyG := hmemG y (List.mem_append_left _ hy)
    rw [hsg.nextOf]
    exact nextOf_congr rfl (hkeepRaw y (fun e => hcG (e ▸ hyG)) (fun e => hpp (e ▸ hy)) (owns_mem_used ho hyG).1)
  · rw [flatten_one, List.nodup_append]
    refine ⟨ncs, List.nodup_cons.2 ⟨List.not_mem_nil, List.nodup_nil⟩, fun a ha b hb e => ?_⟩
    rw [List.mem_singleton] at hb
    subst hb; subst e
    exact hcG (hmemG a ha)
  · intro x hx
    rw [flatten_one] at hx
    rcases List.mem_append.1 hx with hx | hx
    · exact ⟨fun hA => dAM x hA hx, fun hB => dMB x hx hB⟩
    · rw [List.mem_singleton] at hx
      subst hx
      exact ⟨fun hA => hcG ((mem_flatten3 _ _ _ x).2 (.inl hA)), fun hB => hcG ((mem_flatten3 _ _ _ x).2 (.inr (.inr hB)))⟩
  · intro x
    rw [flatten_one, flatten_one]
    by_cases hxc : x = c
    · subst hxc
      have : isUsed s'.vol s'.dev.disk x := (hsg.isUsed _ _).2 ⟨hrc, not_free_of_eof heof⟩
      exact ⟨fun _ => .inl (List.mem_append_right _ (List.mem_singleton.2 rfl)), fun _ => this⟩
    · by_cases hxp : x = p
      · subst hxp
        have : isUsed s'.vol s'.dev.disk x := (hsg.isUsed _ _).2 ⟨hpu.1, not_free_of_link hlinkp hrc.1⟩
        exact ⟨fun _ => .inl (List.mem_append_left _ (List.mem_append_right _ (List.mem_singleton.2 rfl))), fun _ => this⟩
      · rw [isUsed_congr hsg (hkeepRaw x hxc hxp)]
        constructor
        · intro hu
          by_cases hm : x ∈ pre ++ [p]
          · exact .inl (List.mem_append_left _ hm)
          · exact .inr ⟨hu, hm⟩
        · rintro (hm | hm)
          · rcases List.mem_append.1 hm with hm | hm
            · exact owns_mem_used ho (hmemG x hm)
            · exact absurd (List.mem_singleton.1 hm) hxc
          · exact hm.1

/-! ### Truncation and deletion -/

/-- `truncate_cluster_chain(x)` with `x` a cluster of an owned chain: that chain keeps the part up
to `x`. -/
theorem owns_truncate (s : FS) (A B : List (List Nat)) (pre tail : List Nat) (x : Nat) (hr : Ready s)
    (ho : Owns s.vol s.dev.disk (A ++ [pre ++ x :: tail] ++ B)) :
    ∃ s', truncateClusterChain x s = (.ok (), s') ∧ Ready s' ∧ Owns s'.vol s'.dev.disk (A ++ [pre ++ [x]] ++ B) ∧
      SameGeom s.vol s'.vol ∧ (Mirror s.vol s.dev.disk → Mirror s'.vol s'.dev.disk) ∧
      (CountExact s → CountExact s') := by
  have hch : Chain s.vol s.dev.disk ((pre ++ x :: tail).headD 0) (pre ++ x :: tail) :=
    ho.1 _ (List.mem_append_left _ (List.mem_append_right _ (List.mem_singleton.2 rfl)))
  obtain ⟨s', ht, hn', hc', hb', hv', hch', hfree', hfr', _⟩ :=
    truncate_spec s _ x pre tail hr.noFault hr.coherent hr.blocksOK hr.geom hch
  have hsg : SameGeom s.vol s'.vol := by rw [hv']; exact volAfterTruncate_sameGeom tail s.vol
  have hmemG : ∀ z, z ∈ pre ++ x :: tail → z ∈ (A ++ [pre ++ x :: tail] ++ B).flatten := fun z hz =>
    (mem_flatten3 _ _ _ z).2 (.inr (.inl (by rw [flatten_one]; exact hz)))
  have htail2 : ∀ y, y ∈ tail → 2 ≤ y := fun y hy =>
    (owns_mem_used ho (hmemG y (List.mem_append_right _ (List.mem_cons_of_mem _ hy)))).1.1
  have hnodup := ho.2.1
  rw [flatten3, nodup3, flatten_one] at hnodup
  obtain ⟨_, ncs, _, dAM, _, dMB⟩ := hnodup
  obtain ⟨hxt, hxp, hpre, ntail⟩ := nodup_split ncs
  have hsub : ∀ z, z ∈ pre ++ [x] → z ∈ pre ++ x :: tail := fun z hz => by
    rcases List.mem_append.1 hz with hz | hz
    · exact List.mem_append_left _ hz
    · rw [List.mem_singleton] at hz; subst hz; exact List.mem_append_right _ List.mem_cons_self
  have hkeepRaw : ∀ z, z ∉ x :: tail → InRange s.vol z → fatRaw s.vol s'.dev.disk z = fatRaw s.vol s.dev.disk z :=
    fun z hz hrz => hfr'.other z hrz.2 hz
  have hxr : InRange s.vol x := (owns_mem_used ho (hmemG x (List.mem_append_right _ List.mem_cons_self))).1
  have hadd : freeCount s.vol s'.dev.disk = freeCount s.vol s.dev.disk + tail.length :=
    freeCount_add tail ntail
      (fun y hy => (owns_mem_used ho (hmemG y (List.mem_append_right _ (List.mem_cons_of_mem _ hy)))).1)
      (fun y hy => (owns_mem_used ho (hmemG y (List.mem_append_right _ (List.mem_cons_of_mem _ hy)))).2.1)
      hfree'
      (fun z hrz hz => by
        by_cases hzx : z = x
        · subst hzx
          have h1 := (owns_mem_used ho (hmemG z (List.mem_append_right _ List.mem_cons_self))).2.1
          have h2 := (chain_mem_used hch' z (List.mem_append_right _ (List.mem_singleton.2 rfl))).2.1
          exact ⟨fun hf => absurd hf h2, fun hf => absurd hf h1⟩
        · exact isFree_congr_raw (hkeepRaw z (fun hm => (List.mem_cons.1 hm).elim hzx hz) hrz))
  refine ⟨s', ht, ⟨hn', hc', hb', hsg.wfGeom hr.geom, by rw [hv']; exact volAfterTruncate_hintOK tail _ htail2 hr.hint⟩,
    ?_, hsg, fun hm => (hsg.mirror _).2 (hfr'.mirror hm),
    countExact_add tail.length hsg hr.geom (by rw [hv']; exact volAfterTruncate_count tail s.vol) hadd⟩
  apply owns_splice (v' := s'.vol) (d' := s'.dev.disk) (mid' := [pre ++ [x]]) ho hsg.endCluster
  · intro z hz
    have hzG : z ∈ (A ++ [pre ++ x :: tail] ++ B).flatten := (mem_flatten3 _ _ _ z).2 (hz.elim .inl (fun h => .inr (.inr h)))
    rw [hsg.nextOf]
    refine nextOf_congr rfl (hkeepRaw z (fun hm => ?_) (owns_mem_used ho hzG).1)
    have hm' : z ∈ pre ++ x :: tail := List.mem_append_right _ hm
    exact hz.elim (fun hA => dAM z hA hm') (fun hB => dMB z hm' hB)
  · intro cs hcs
    rw [List.mem_singleton] at hcs
    subst hcs
    have hhd : (pre ++ [x]).headD 0 = (pre ++ x :: tail).headD 0 := by cases pre <;> rfl
    rw [hhd]
    exact chain_sameGeom hsg hch'
  · rw [flatten_one]
    exact (chain_nodup hch')
  · intro z hz
    rw [flatten_one] at hz
    exact ⟨fun hA => dAM z hA (hsub z hz), fun hB => dMB z (hsub z hz) hB⟩
  · intro z
    rw [flatten_one, flatten_one]
    by_cases hz1 : z ∈ pre ++ [x]
    · exact ⟨fun _ => .inl hz1, fun _ => chain_mem_used (chain_sameGeom hsg hch') z hz1⟩
    · by_cases hz2 : z ∈ tail
      · have hfz : ¬ isUsed s'.vol s'.dev.disk z := free_not_used ((hsg.isFree _ _).2 (hfree' z hz2))
        exact ⟨fun hu => absurd hu hfz, fun h => h.elim (fun h => absurd h hz1)
          (fun h => absurd (List.mem_append_right _ (List.mem_cons_of_mem _ hz2)) h.2)⟩
      · have hzcs : z ∉ pre ++ x :: tail := fun hm => by
          rcases List.mem_append.1 hm with hm | hm
          · exact hz1 (List.mem_append_left _ hm)
          · rcases List.mem_cons.1 hm with hm | hm
            · exact hz1 (List.mem_append_right _ (List.mem_singleton.2 hm))
            · exact hz2 hm
        have hzxt : z ∉ x :: tail := fun hm => hzcs (List.mem_append_right _ hm)
        rw [isUsed_congr hsg (hkeepRaw z hzxt)]
        exact ⟨fun hu => .inr ⟨hu, hzcs⟩, fun h => h.elim (fun h => absurd h hz1) (·.1)⟩

/-- `free_cluster_chain(r)` with `r` the first cluster of an owned chain: the chain is given back. -/
theorem owns_free (s : FS) (A B : List (List Nat)) (r : Nat) (tail : List Nat) (hr : Ready s)
    (ho : Owns s.vol s.dev.disk (A ++ [r :: tail] ++ B)) :
    ∃ s', freeClusterChain r s = (.ok (), s') ∧ Ready s' ∧ Owns s'.vol s'.dev.disk (A ++ [] ++ B) ∧
      SameGeom s.vol s'.vol ∧ (Mirror s.vol s.dev.disk → Mirror s'.vol s'.dev.disk) ∧
      (CountExact s → CountExact s') := by
  have hch : Chain s.vol s.dev.disk r (r :: tail) :=
    ho.1 _ (List.mem_append_left _ (List.mem_append_right _ (List.mem_singleton.2 rfl)))
  obtain ⟨s', hf, hn', hc', hb', hv', hfree', hfr'⟩ := free_spec s r tail hr.noFault hr.coherent hr.blocksOK hr.geom hch
  have hsg : SameGeom s.vol s'.vol := by rw [hv']; exact volAfterFree_sameGeom r tail s.vol
  have hmemG : ∀ z, z ∈ r :: tail → z ∈ (A ++ [r :: tail] ++ B).flatten := fun z hz =>
    (mem_flatten3 _ _ _ z).2 (.inr (.inl (by rw [flatten_one]; exact hz)))
  have h2 : ∀ y, y ∈ r :: tail → 2 ≤ y := fun y hy => (owns_mem_used ho (hmemG y hy)).1.1
  have hnodup := ho.2.1
  rw [flatten3, nodup3, flatten_one] at hnodup
  obtain ⟨_, _, _, dAM, _, dMB⟩ := hnodup
  have hkeepRaw : ∀ z, z ∉ r :: tail → InRange s.vol z → fatRaw s.vol s'.dev.disk z = fatRaw s.vol s.dev.disk z :=
    fun z hz hrz => hfr'.other z hrz.2 hz
  have hadd : freeCount s.vol s'.dev.disk = freeCount s.vol s.dev.disk + (tail.length + 1) :=
    freeCount_add (r :: tail) (chain_nodup hch) (fun y hy => (owns_mem_used ho (hmemG y hy)).1)
      (fun y hy => (owns_mem_used ho (hmemG y hy)).2.1) hfree'
      (fun z hrz hz => isFree_congr_raw (hkeepRaw z hz hrz))
  refine ⟨s', hf, ⟨hn', hc', hb', hsg.wfGeom hr.geom, ?_⟩, ?_, hsg, fun hm => (hsg.mirror _).2 (hfr'.mirror hm),
    countExact_add (tail.length + 1) hsg hr.geom (by rw [hv']; exact volAfterFree_count r tail s.vol) hadd⟩
  · rw [hv']
    exact freeHint_hintOK r _ (h2 r List.mem_cons_self)
      (volAfterTruncate_hintOK tail _ (fun y hy => h2 y (List.mem_cons_of_mem _ hy)) hr.hint)
  apply owns_splice (v' := s'.vol) (d' := s'.dev.disk) (mid' := []) ho hsg.endCluster
  · intro z hz
    have hzG : z ∈ (A ++ [r :: tail] ++ B).flatten := (mem_flatten3 _ _ _ z).2 (hz.elim .inl (fun h => .inr (.inr h)))
    rw [hsg.nextOf]
    refine nextOf_congr rfl (hkeepRaw z (fun hm => ?_) (owns_mem_used ho hzG).1)
    exact hz.elim (fun hA => dAM z hA hm) (fun hB => dMB z hm hB)
  · intro cs hcs; cases hcs
  · exact List.nodup_nil
  · intro z hz; cases hz
  · intro z
    rw [flatten_one]
    by_cases hz : z ∈ r :: tail
    · have hfz : ¬ isUsed s'.vol s'.dev.disk z := free_not_used ((hsg.isFree _ _).2 (hfree' z hz))
      exact ⟨fun hu => absurd hu hfz, fun h => h.elim (fun h => by cases h) (fun h => absurd hz h.2)⟩
    · rw [isUsed_congr hsg (hkeepRaw z hz)]
      exact ⟨fun hu => .inr ⟨hu, hz⟩, fun h => h.elim (fun h => by cases h) (·.1)⟩

/-! ### One step, any history -/

theorem ready_of_same {s s' : FS} (hr : Ready s) (hd : s'.dev.disk = s.dev.disk) (hv : s'.vol = s.vol)
    (hn : NoFault s') (hc : Coherent s') : Ready s' :=
  ⟨hn, hc, by rw [hd]; exact hr.blocksOK, by rw [hv]; exact hr.geom, by rw [hv]; exact hr.hint⟩

/-- What one step keeps: the invariant, the geometry, identical FAT copies. -/
def StepOK (st st' : FS × List (List Nat)) : Prop :=
  Exact st' ∧ SameGeom st.1.vol st'.1.vol ∧ (Mirror st.1.vol st.1.dev.disk → Mirror st'.1.vol st'.1.dev.disk) ∧
  (CountExact st.1 → CountExact st'.1)

theorem stepOK_refl {st : FS × List (List Nat)} (h : Exact st) : StepOK st st := ⟨h, SameGeom.refl _, id, id⟩

theorem stepOK_same {s s' : FS} {G : List (List Nat)} (h : Exact (s, G)) (hd : s'.dev.disk = s.dev.disk)
    (hv : s'.vol = s.vol) (hn : NoFault s') (hc : Coherent s') : StepOK (s, G) (s', G) := by
  refine ⟨⟨ready_of_same h.1 hd hv hn hc, ?_⟩, SameGeom.of_eq hv, ?_, ?_⟩
  · show Owns s'.vol s'.dev.disk G
    rw [hd, hv]; exact h.2
  · intro hm
    show Mirror s'.vol s'.dev.disk
    rw [hd, hv]; exact hm
  · intro hcnt n hn'
    have hn'' : s'.vol.freeClustersCount = some n := hn'
    show n = freeCount s'.vol s'.dev.disk
    rw [hd, hv]
    rw [hv] at hn''
    exact hcnt n hn''

theorem stepOK_of {s s' : FS} {G G' : List (List Nat)} (hr : Ready s') (ho : Owns s'.vol s'.dev.disk G')
    (hs : SameGeom s.vol s'.vol) (hm : Mirror s.vol s.dev.disk → Mirror s'.vol s'.dev.disk)
    (hcnt : CountExact s → CountExact s') : StepOK (s, G) (s', G') :=
  ⟨⟨hr, ho⟩, hs, hm, hcnt⟩

/-- Every operation, on every state satisfying the invariant, re-establishes it. -/
theorem step_ok (st : FS × List (List Nat)) (op : FatOp) (h : Exact st) : StepOK st (Spec.step st op) := by
  obtain ⟨s, G⟩ := st
  have hr' : Ready s := h.1
  have ho' : Owns s.vol s.dev.disk G := h.2
  cases op with
  | newChain zero =>
    rcases alloc_total s none zero hr'.noFault hr'.coherent with ⟨c, s', ha⟩ | ⟨s', ha, hd, hv, hn, hc⟩
    · have e : Spec.step (s, G) (.newChain zero) = (s', G ++ [[c]]) := by simp only [Spec.step, ha]
      rw [e]
      obtain ⟨r1, o1, g1, m1, c1⟩ := owns_newChain s s' G zero c hr' ho' ha
      exact stepOK_of r1 o1 g1 m1 c1
    · have e : Spec.step (s, G) (.newChain zero) = (s', G) := by simp only [Spec.step, ha]
      rw [e]
      exact stepOK_same h hd hv hn hc
  | extend i zero =>
    cases hG : G[i]? with
    | none =>
      have e : Spec.step (s, G) (.extend i zero) = (s, G) := by simp only [Spec.step, hG]
      rw [e]; exact stepOK_refl h
    | some cs =>
      cases hl : cs.getLast? with
      | none =>
        have e : Spec.step (s, G) (.extend i zero) = (s, G) := by simp only [Spec.step, hG, hl]
        rw [e]; exact stepOK_refl h
      | some p =>
        have hcs : cs.dropLast ++ [p] = cs := getLast?_split hl
        obtain ⟨hsplit, _⟩ := split_at hG
        rcases alloc_total s (some p) zero hr'.noFault hr'.coherent with ⟨c, s', ha⟩ | ⟨s', ha, hd, hv, hn, hc⟩
        · have e : Spec.step (s, G) (.extend i zero) = (s', G.set i (cs ++ [c])) := by simp only [Spec.step, hG, hl, ha]
          rw [e]
          have ho2 : Owns s.vol s.dev.disk (G.take i ++ [cs.dropLast ++ [p]] ++ G.drop (i + 1)) := by
            rw [hcs, ← hsplit]; exact ho'
          obtain ⟨r1, o1, g1, m1, c1⟩ := owns_extend s s' _ _ cs.dropLast p zero c hr' ho2 ha
          rw [set_at hG, ← hcs]
          exact stepOK_of r1 o1 g1 m1 c1
        · have e : Spec.step (s, G) (.extend i zero) = (s', G) := by simp only [Spec.step, hG, hl, ha]
          rw [e]
          exact stepOK_same h hd hv hn hc
  | truncate i k =>
    cases hG : G[i]? with
    | none =>
      have e : Spec.step (s, G) (.truncate i k) = (s, G) := by simp only [Spec.step, hG]
      rw [e]; exact stepOK_refl h
    | some cs =>
      cases hk : cs[k]? with
      | none =>
        have e : Spec.step (s, G) (.truncate i k) = (s, G) := by simp only [Spec.step, hG, hk]
        rw [e]; exact stepOK_refl h
      | some x =>
        obtain ⟨hsplit, _⟩ := split_at hG
        obtain ⟨hcsplit, _⟩ := split_at hk
        have hcs : cs = cs.take k ++ x :: cs.drop (k + 1) := by
          conv => lhs; rw [hcsplit]
          rw [List.append_assoc]; rfl
        have ho2 : Owns s.vol s.dev.disk (G.take i ++ [cs.take k ++ x :: cs.drop (k + 1)] ++ G.drop (i + 1)) := by
          rw [← hcs, ← hsplit]; exact ho'
        obtain ⟨s', ht, r1, o1, g1, m1, c1⟩ := owns_truncate s _ _ (cs.take k) (cs.drop (k + 1)) x hr' ho2
        have e : Spec.step (s, G) (.truncate i k) = (s', G.set i (cs.take (k + 1))) := by simp only [Spec.step, hG, hk, ht]
        rw [e, set_at hG, List.take_add_one, hk]
        exact stepOK_of r1 o1 g1 m1 c1
  | free i =>
    cases hG : G[i]? with
    | none =>
      have e : Spec.step (s, G) (.free i) = (s, G) := by simp only [Spec.step, hG]
      rw [e]; exact stepOK_refl h
    | some cs =>
      cases hh : cs.head? with
      | none =>
        have e : Spec.step (s, G) (.free i) = (s, G) := by simp only [Spec.step, hG, hh]
        rw [e]; exact stepOK_refl h
      | some r =>
        obtain ⟨hsplit, _⟩ := split_at hG
        have hcs : cs = r :: cs.tail := by
          cases cs with
          | nil => cases hh
          | cons a t => cases hh; rfl
        have ho2 : Owns s.vol s.dev.disk (G.take i ++ [r :: cs.tail] ++ G.drop (i + 1)) := by
          rw [← hcs, ← hsplit]; exact ho'
        obtain ⟨s', hf, r1, o1, g1, m1, c1⟩ := owns_free s _ _ r cs.tail hr' ho2
        have e : Spec.step (s, G) (.free i) = (s', G.eraseIdx i) := by simp only [Spec.step, hG, hh, hf]
        rw [e, eraseIdx_at]
        exact stepOK_of r1 o1 g1 m1 c1

theorem stepOK_trans {a b c : FS × List (List Nat)} (h1 : StepOK a b) (h2 : StepOK b c) : StepOK a c :=
  ⟨h2.1, h1.2.1.trans h2.2.1, fun hm => h2.2.2.1 (h1.2.2.1 hm), fun hc => h2.2.2.2 (h1.2.2.2 hc)⟩

/-- Every history from a state satisfying the invariant ends in one. -/
theorem run_ok (ops : List FatOp) : ∀ (st : FS × List (List Nat)), Exact st → StepOK st (Spec.run st ops) := by
  induction ops with
  | nil => intro st h; exact stepOK_refl h
  | cons op ops ih =>
    intro st h
    have h1 := step_ok st op h
    exact stepOK_trans h1 (ih (Spec.step st op) h1.1)

end Sdmmc.Lemmas.ForestStep
