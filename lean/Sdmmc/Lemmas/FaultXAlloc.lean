/-
C11, arbitrary fault placement — THE STAGES OF `alloc_cluster`.

`CrashAlloc.alloc_crash` describes every crash point of a successful `alloc_cluster(prev, zero)` returning `c`
(`AllocCrash`): (1) nothing but blocks of the free cluster `c` changed; (2) `c` reads end-of-chain, nothing else
changed — `c` is a chain nothing refers to; (3) the medium looks like the final one.  Here: the invariant at each of
them (`alloc_mx`), given it at the end.
-/
import Sdmmc.Lemmas.FaultXDelete
import Sdmmc.Lemmas.CrashAlloc
import Sdmmc.Lemmas.VolApiMkdir2

namespace Sdmmc.Lemmas.FaultX
open Sdmmc.Model Sdmmc.Model.Fat Sdmmc.Spec.Volume Sdmmc.Lemmas.VolBase Sdmmc.Lemmas.VolTree
open Sdmmc.Spec hiding NoFault Coherent
open Sdmmc.Lemmas.VolDisk Sdmmc.Lemmas.VolMed Sdmmc.Lemmas.VolEng Sdmmc.Lemmas.VolX
open Sdmmc.Lemmas.FBasic (NoFault Coherent)
open Sdmmc.Lemmas.CrashBase Sdmmc.Lemmas.CrashFat Sdmmc.Lemmas.ForestBase Sdmmc.Lemmas.ForestOwns Sdmmc.Lemmas.ForestStep

/-- `Owns` only reads the FAT entries (copy 1). -/
theorem owns_congr_raw {v : FatVolume} {d d' : Disk} {G : List (List Nat)} (ho : Owns v d G)
    (h : ∀ x, x < endCluster v → fatRaw v d' x = fatRaw v d x) : Owns v d' G := by
  obtain ⟨hch, hnd, hiff⟩ := ho
  refine ⟨fun cs hcs => chain_congr_raw (hch cs hcs) fun x hx => h x (ChainL.chain_inRange (hch cs hcs) x hx).2, hnd, fun c => ?_⟩
  rw [← hiff c]
  by_cases hc : c < endCluster v
  · exact isUsed_congr_raw (h c hc)
  · exact ⟨fun hu => absurd hu.1.2 hc, fun hu => absurd hu.1.2 hc⟩

section
variable {v : FatVolume} {d0 d : Disk} {files : List FileInfo} {gh : Ghost} {X : List (List Nat)}

/-- A medium that looks like one carrying the invariant (same FAT copy 1, same blocks outside the FAT). -/
theorem medX_view (hM : MedX v d0 files gh X) (hb : BlocksOK d) (hv : View v d0 d) : MedX v d files gh X := by
  refine med_congr hM (SameGeom.refl v) hM.hint hb hv.fat fun h hh => ?_
  refine dirSlots_congr fun s hs => hv.nonFat _ ?_
  rcases dirSlot_not_fat hM hh hs with h1 | h1 <;> rw [h1] <;> intro e <;> cases e

/-- Stage (1): only blocks of a cluster outside the chains changed. -/
theorem medX_within_cluster (hM : MedX v d0 files gh X) (hb : BlocksOK d) {c : Nat} (hc : InRange v c) (hcG : c ∉ gh.G.flatten)
    {P : Prop} (hW : Within v d0 d [] fun i => P ∧ InCluster v c i) : MedX v d files gh X := by
  have hown : Owns v d (gh.G ++ X) := owns_congr_raw hM.owns fun x hx => hW.other x hx List.not_mem_nil
  have hblocks : ∀ h, h ∈ dirIds gh.dirs → ∀ s, s ∈ dirSlots v d0 gh.G h → d.get s.1 = d0.get s.1 := by
    intro h hh s hs
    refine hW.nonFat _ ?_ ?_
    · rcases dirSlot_not_fat hM hh hs with h1 | h1 <;> rw [h1] <;> intro e <;> cases e
    · rintro ⟨_, h1, h2⟩
      exact dirSlot_not_cluster hM hh hs hc hcG (j := s.1 - clusterToBlock v c) (by omega) (by omega)
  have := medX_fat_update (G' := gh.G) (X' := X) hM (SameGeom.refl v) hM.hint hb hown (fun _ _ _ => rfl) hblocks rfl hM.tree
    (fun f hf => by
      obtain ⟨hok, hcur⟩ := hM.fileOK f hf
      have hG := med_heads hM
      refine ⟨fileOK_of_owns (SameGeom.refl v) hok hown ?_, hcur⟩
      by_cases hnil : chainOf gh.G f.entry.cluster = []
      · exact .inl hnil
      · exact .inr (List.mem_append_left _ (chainOf_spec hG ((chainOf_ne_nil_iff hG).1 hnil)).1))
  exact ⟨this.blocksOK, this.geom, this.hint, this.owns, this.tree, this.fileOK⟩

/-- Stage (2): the free cluster `c` now reads end-of-chain; nothing else of the FAT changed, and outside the FAT only
blocks of `c`: `c` is a chain nothing refers to. -/
theorem medX_mark (hM : MedX v d0 files gh X) (hb : BlocksOK d) {c : Nat} (hc : InRange v c) (hfree : isFree v d0 c)
    {P : Prop} (hW : Within v d0 d [c] fun i => P ∧ InCluster v c i) (heof : nextOf v d c = .err .EndOfFile) :
    MedX v d files gh ([c] :: X) := by
  have hcA : c ∉ (gh.G ++ X).flatten := fun hx => free_not_used hfree ((hM.owns.2.2 c).2 hx)
  have hcG : c ∉ gh.G.flatten := fun hx => hcA (by rw [List.flatten_append]; exact List.mem_append_left _ hx)
  have hcX : c ∉ X.flatten := fun hx => hcA (by rw [List.flatten_append]; exact List.mem_append_right _ hx)
  have hraw : ∀ x, x < endCluster v → x ≠ c → fatRaw v d x = fatRaw v d0 x :=
    fun x hx hne => hW.other x hx (fun hm => hne (List.mem_singleton.1 hm))
  have ho0 : Owns v d0 (gh.G ++ [] ++ X) := by rw [List.append_nil]; exact hM.owns
  have hown : Owns v d (gh.G ++ ([c] :: X)) := by
    have := owns_splice (v' := v) (d' := d) (mid' := [[c]]) ho0 rfl ?_ ?_ ?_ ?_ ?_
    · rwa [List.append_assoc] at this
    · intro x hx
      have hxA : x ∈ (gh.G ++ X).flatten := by
        rw [List.flatten_append]; exact hx.elim (List.mem_append_left _) (List.mem_append_right _)
      have hu := (hM.owns.2.2 x).2 hxA
      exact nextOf_congr rfl (hraw x hu.1.2 (fun e => hcA (e ▸ hxA)))
    · intro cs hcs
      rw [List.mem_singleton] at hcs
      subst hcs
      exact Chain.last c hc heof
    · rw [flatten_one]; exact List.nodup_singleton c
    · intro x hx
      rw [flatten_one, List.mem_singleton] at hx
      subst hx
      exact ⟨hcG, hcX⟩
    · intro x
      rw [flatten_one, List.mem_singleton]
      by_cases hxc : x = c
      · subst hxc
        exact ⟨fun _ => .inl rfl, fun _ => ⟨hc, not_free_of_eof heof⟩⟩
      · by_cases hxE : x < endCluster v
        · rw [isUsed_congr_raw (hraw x hxE hxc)]
          exact ⟨fun hu => .inr ⟨hu, List.not_mem_nil⟩, fun h => h.elim (fun e => absurd e hxc) (·.1)⟩
        · exact ⟨fun hu => absurd hu.1.2 hxE, fun h => h.elim (fun e => absurd e hxc) (fun h => absurd h.1.1.2 hxE)⟩
  have hblocks : ∀ h, h ∈ dirIds gh.dirs → ∀ s, s ∈ dirSlots v d0 gh.G h → d.get s.1 = d0.get s.1 := by
    intro h hh s hs
    refine hW.nonFat _ ?_ ?_
    · rcases dirSlot_not_fat hM hh hs with h1 | h1 <;> rw [h1] <;> intro e <;> cases e
    · rintro ⟨_, h1, h2⟩
      exact dirSlot_not_cluster hM hh hs hc hcG (j := s.1 - clusterToBlock v c) (by omega) (by omega)
  have := medX_fat_update (G' := gh.G) (X' := [c] :: X) hM (SameGeom.refl v) hM.hint hb hown (fun _ _ _ => rfl) hblocks rfl hM.tree
    (fun f hf => by
      obtain ⟨hok, hcur⟩ := hM.fileOK f hf
      have hG := med_heads hM
      refine ⟨fileOK_of_owns (SameGeom.refl v) hok hown ?_, hcur⟩
      by_cases hnil : chainOf gh.G f.entry.cluster = []
      · exact .inl hnil
      · exact .inr (List.mem_append_left _ (chainOf_spec hG ((chainOf_ne_nil_iff hG).1 hnil)).1))
  exact ⟨this.blocksOK, this.geom, this.hint, this.owns, this.tree, this.fileOK⟩

end

section
variable {files : List FileInfo} {gh : Ghost} {X : List (List Nat)}

theorem mx_view {v : FatVolume} {d0 d : Disk} {dirs : List (Nat × Nat)} (h0 : BlocksOK d0) (h : MX v files dirs d0) (hv : View v d0 d) :
    MX v files dirs d := by
  intro hb
  obtain ⟨G', X', hM⟩ := h h0
  exact ⟨G', X', medX_view hM hb hv⟩

/-- **`alloc_cluster(prev, zero)` returning `c`**, every crash point — given the invariant at the end. -/
theorem alloc_mx {s s' : FS} (hM : MedX s.vol s.dev.disk files gh X) (hn : NoFault s) (hc : Coherent s)
    {prev : Option Nat} {zero : Bool} {c : Nat} (hp : ∀ p, prev = some p → p < endCluster s.vol)
    (h : allocCluster prev zero s = (.ok c, s')) (hbfin : BlocksOK s'.dev.disk) (hfin : MX s.vol files gh.dirs s'.dev.disk) :
    CrashAll (MX s.vol files gh.dirs) s s' := by
  obtain ⟨hc2, hcE, hfree⟩ := FatOps.alloc_in_range_and_free s s' prev zero c hn hc hM.hint h
  have hcA : c ∉ (gh.G ++ X).flatten := fun hx => ((hM.owns.2.2 c).2 hx).2.1 hfree
  have hcG : c ∉ gh.G.flatten := fun hx => hcA (by rw [List.flatten_append]; exact List.mem_append_left _ hx)
  obtain ⟨hcr, _⟩ := CrashAlloc.alloc_crash s s' prev zero c hn hc hM.blocksOK hM.geom hM.hint hp h
  refine hcr.mono fun d hd => ?_
  rcases hd.1 with hA | ⟨hB, heof, _⟩ | ⟨hC, _⟩
  · exact fun hb => mx_of_med (medX_within_cluster hM hb ⟨hc2, hcE⟩ hcG hA) hb
  · exact fun hb => mx_of_med (medX_mark hM hb ⟨hc2, hcE⟩ hfree hB heof) hb
  · exact mx_view hbfin hfin hC

end

end Sdmmc.Lemmas.FaultX
