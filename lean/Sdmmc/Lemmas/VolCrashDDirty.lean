/-
Clause 5 of C10 at API level (`Props/C10Init.lean`): the invariant of API histories says NOTHING about the contents of
the clusters that are not in use — `VolInvCX` survives any change of those contents (`volInvCX_dirty`), as long as the
one cached block is not among the changed ones.  So a theorem stated for every `s` with `VolInvCX s gh` is a theorem
for arbitrary, "dirty" free clusters.
-/
import Sdmmc.Spec.VolumeInit
import Sdmmc.Spec.VolumeCrashX
import Sdmmc.Lemmas.VolCrashDBase
import Sdmmc.Lemmas.VolApiMkdir2

namespace Sdmmc.Lemmas.VolCrashD
open Sdmmc.Model Sdmmc.Model.Fat Sdmmc.Spec.Volume
open Sdmmc.Spec hiding NoFault Coherent run step
open Sdmmc.Lemmas.FBasic
open Sdmmc.Lemmas.VolBase Sdmmc.Lemmas.VolTree Sdmmc.Lemmas.VolMed Sdmmc.Lemmas.VolDisk Sdmmc.Lemmas.VolEng
open Sdmmc.Lemmas.CrashBase Sdmmc.Lemmas.VolCrash Sdmmc.Lemmas.VolCrashX

/-! ### Building dirty media -/

theorem DirtyOf.refl {v : FatVolume} {d : Disk} (hb : BlocksOK d) : DirtyOf v d d := ⟨hb, fun _ _ => rfl⟩

/-- One more block of a cluster not in use gets arbitrary contents. -/
theorem DirtyOf.set {v : FatVolume} {d d' : Disk} (h : DirtyOf v d d') {b : Nat} {p : Block} (hp : p.length = 512)
    (hbk : ∃ c j, InRange v c ∧ ¬ isUsed v d c ∧ j < v.blocksPerCluster ∧ b = clusterToBlock v c + j) :
    DirtyOf v d (d'.set b p) := by
  refine ⟨fun i => ?_, fun i hi => ?_⟩
  · rw [FBasic.Disk.get_set]
    split
    · exact hp
    · exact h.1 i
  · obtain ⟨c, j, hc, hnu, hj, e⟩ := hbk
    rw [FBasic.Disk.get_set, if_neg (fun e' : b = i => hi c j hc hnu hj (e' ▸ e)), h.2 i hi]

/-- The blocks `bs`, all in clusters not in use, filled with `p`. -/
theorem dirtyOf_fill {v : FatVolume} {d : Disk} (hb : BlocksOK d) (p : Block) (hp : p.length = 512) (bs : List Nat)
    (hbs : ∀ b, b ∈ bs → ∃ c j, InRange v c ∧ ¬ isUsed v d c ∧ j < v.blocksPerCluster ∧ b = clusterToBlock v c + j) :
    DirtyOf v d (bs.foldl (fun d b => d.set b p) d) := by
  suffices h : ∀ d', DirtyOf v d d' → DirtyOf v d (bs.foldl (fun d b => d.set b p) d') from h d (DirtyOf.refl hb)
  induction bs with
  | nil => exact fun d' h => h
  | cons b bs ih =>
    intro d' h
    exact ih (fun x hx => hbs x (List.mem_cons_of_mem _ hx)) _ (DirtyOf.set h hp (hbs b List.mem_cons_self))

/-- The state `s` on the medium `d'`. -/
def onDisk (s : Mgr) (d' : Disk) : Mgr := { s with dev := { s.dev with disk := d' } }

/-- **The invariant does not look into the clusters that are not in use.** -/
theorem volInvCX_dirty {s : Mgr} {gh : Ghost} (hI : VolInvCX s gh) {d' : Disk} (hd : DirtyOf gh.vol s.dev.disk d')
    (hcache : ∀ i, s.cache.tag = some i → d'.get i = s.dev.disk.get i) : VolInvCX (onDisk s d') gh := by
  have hV := hI.inv.inv
  have hM := medX_of_med hV.med
  have hnd : ∀ i, regionOf gh.vol i ≠ .data → d'.get i = s.dev.disk.get i := by
    intro i hi
    apply hd.2
    intro c j hc _ hj e
    exact hi (e ▸ FatLens.cluster_blocks_in_data_region gh.vol hM.geom c j hc.1 hc.2 hj)
  have hfat : ∀ c, c < endCluster gh.vol → d'.get (fatBlock gh.vol c) = s.dev.disk.get (fatBlock gh.vol c) := by
    intro c hc
    apply hnd
    rw [(FatLens.fat_blocks_in_fat_region gh.vol hM.geom c hc).1]
    decide
  have hblk : ∀ h, h ∈ dirIds gh.dirs → ∀ sl, sl ∈ dirSlots gh.vol s.dev.disk gh.G h → d'.get sl.1 = s.dev.disk.get sl.1 := by
    intro h hh sl hs
    apply hd.2
    intro c j hc hnu hj
    exact dirSlot_not_cluster hM hh hs hc (fun hx => hnu (memG_used hM hx)) hj
  have hslots : ∀ h, h ∈ dirIds gh.dirs → dirSlots gh.vol d' gh.G h = dirSlots gh.vol s.dev.disk gh.G h :=
    fun h hh => dirSlots_congr (hblk h hh)
  have hM' : MedX gh.vol d' s.files gh [] := med_congr hM (SameGeom.refl _) hM.hint hd.1 hfat hslots
  have hR : RawOKX gh.vol.fatType d' s.files := by
    refine rawOKX_blocks ⟨hI.inv.raw, hI.rawEmpty⟩ fun f hf => ?_
    obtain ⟨h, hh, o, ho, h1, _⟩ := file_dirSlot hM hf
    rw [← h1]
    exact hblk h hh o ho
  refine ⟨⟨⟨hV.noFault, ?_, hV.unlocked, hV.maxVols, hV.vols, med_of_medX hM', hV.fileVols, hV.openDirs⟩, ?_, hR.raw⟩, hR.empty⟩
  · intro i hi
    show s.cache.blk = d'.get i
    rw [hcache i hi]
    exact hV.coherent i hi
  · intro c hc b2 hb2
    show d'.get b2 = d'.get (fatBlock gh.vol c)
    rw [hfat c hc, hnd b2 (by rw [(FatLens.fat_blocks_in_fat_region gh.vol hM.geom c hc).2 b2 hb2]; decide)]
    exact hI.inv.mirror c hc b2 hb2

end Sdmmc.Lemmas.VolCrashD
