/-
C16, last sentence — "a wrong or out-of-range record found at mount never makes an operation fail or panic", concrete
side: the proofs behind `Sdmmc.Props.C16Stale`.

The volume invariant `VolInv s gh` (`Spec/Volume.lean`) does not mention the in-memory free count at all and constrains
the next-free hint only by `HintOK` (unknown or `≥ 2`: what mounting produces from ANY stored value).  Hence:
* `volInv_any_record`, `mirror_any_record` — the invariant (and the agreement of the FAT copies) survives REPLACING the
  count by any value and the hint by any value `≥ 2` (or unknown);
* `openRawVolume_clean` — `open_raw_volume` answers `Ok` or an error from ANY state (any medium, any tables, any fault
  schedule): the parsers never panic (`Lemmas.C15`), the block reads answer `Ok` or `DeviceError`;
* `step_clean` — under the invariant EVERY call (all 24 constructors of `Op`, no covering hypothesis: every name, also
  an `open_volume` issued while no volume is open) answers `Ok` or an error.  From `Lemmas.FaultHist.covered_call_clean`
  (the refinement to the abstract file system, whose relations pin the answers, and the four loose calls treated
  directly), `Lemmas.NameE5` (no short name starts with 0xE5) and `openRawVolume_clean`;
* `history_clean` — hence every history: all answers are `Ok` / errors and the invariant holds after every prefix.  The
  only hypothesis is the remount hypothesis of C03 (`Props.C03All.RemountRun`: an `open_volume` issued while no volume is
  open mounts — if it mounts — a record with the geometry of the reference record); it is needed for the INVARIANT after
  such a call, not for the answers;
* `step_clean_multi`, `history_clean_multi` — the same with several open volumes (`VolInvN`, `MirrorN`; hypotheses
  `CoveredNRun`, `FreshRun` as in `Props.C01Multi`; the answers of a single call need only `LabelFresh`).
Not proved here: anything under device faults (that is C11: `Props.C11Hist`).
-/
import Sdmmc.Lemmas.FaultHistClean
import Sdmmc.Lemmas.NameE5
import Sdmmc.Lemmas.VolApiMount
import Sdmmc.Spec.VolumeFault
import Sdmmc.Props.C03All
import Sdmmc.Props.C01Multi

namespace Sdmmc.Lemmas.StaleSafe
open Sdmmc.Model Sdmmc.Model.Fat Sdmmc.Spec.Volume
open Sdmmc.Spec hiding run step NoFault Coherent
open Sdmmc.Lemmas.MHoare Sdmmc.Lemmas.VolApi
open Sdmmc.Lemmas.FaultHist (clean_ok clean_err clean_map covered_call_clean)

/-! ### T3: the invariant does not look at the record -/

/-- `v` with the free count replaced by `cnt` and the next-free hint by `hint`. -/
def withRecord (v : FatVolume) (cnt hint : Option Nat) : FatVolume :=
  { v with freeClustersCount := cnt, nextFreeCluster := hint }

theorem sameGeom_withRecord (v : FatVolume) (cnt hint : Option Nat) : SameGeom v (withRecord v cnt hint) := ⟨cnt, hint, rfl⟩

theorem hintOK_withRecord (v : FatVolume) (cnt : Option Nat) {hint : Option Nat} (hh : ∀ n, hint = some n → 2 ≤ n) :
    HintOK (withRecord v cnt hint) := hh

/-- **The medium invariant with ANY count and ANY hint `≥ 2`.** -/
theorem medInv_any_record {v : FatVolume} {d : Disk} {files : List FileInfo} {gh : Ghost} (hM : MedInv v d files gh)
    (cnt hint : Option Nat) (hh : ∀ n, hint = some n → 2 ≤ n) (vol' : FatVolume) :
    MedInv (withRecord v cnt hint) d files { gh with vol := vol' } :=
  Lemmas.VolMed.med_of_medX
    (medX_ghost (gh' := { gh with vol := vol' })
      (Lemmas.VolMed.med_congr (Lemmas.VolMed.medX_of_med hM) (sameGeom_withRecord v cnt hint) (hintOK_withRecord v cnt hh)
        hM.blocksOK (fun _ _ => rfl) (fun _ _ => rfl)) rfl rfl)

/-- **The invariant of API histories with ANY count and ANY hint `≥ 2` in the record of the open volume.** -/
theorem volInv_any_record {s : Mgr} {gh : Ghost} (hI : VolInv s gh) {vi : VolInfo} (hv : s.vols = [vi])
    (cnt hint : Option Nat) (hh : ∀ n, hint = some n → 2 ≤ n) :
    VolInv { s with vols := [{ vi with vol := withRecord vi.vol cnt hint }] }
      { gh with vol := withRecord gh.vol cnt hint } := by
  have hvol : vi.vol = gh.vol := by
    rcases hI.vols with h | ⟨w, hw, he⟩
    · rw [h] at hv; cases hv
    · rw [hw] at hv; cases hv; exact he
  refine ⟨hI.noFault, hI.coherent, hI.unlocked, hI.maxVols, .inr ⟨_, rfl, by rw [hvol]⟩, ?_, ?_, hI.openDirs⟩
  · exact medInv_any_record hI.med cnt hint hh _
  · intro f hf
    obtain ⟨w, hw, he⟩ := hI.fileVols f hf
    rw [hv] at hw
    cases hw
    exact ⟨_, rfl, he⟩

/-- … and with no volume open (the record lives in the ghost only). -/
theorem volInv_any_record_closed {s : Mgr} {gh : Ghost} (hI : VolInv s gh) (hv : s.vols = [])
    (cnt hint : Option Nat) (hh : ∀ n, hint = some n → 2 ≤ n) : VolInv s { gh with vol := withRecord gh.vol cnt hint } := by
  refine ⟨hI.noFault, hI.coherent, hI.unlocked, hI.maxVols, .inl hv, medInv_any_record hI.med cnt hint hh _, ?_, hI.openDirs⟩
  intro f hf
  obtain ⟨w, hw, _⟩ := hI.fileVols f hf
  rw [hv] at hw; cases hw

/-- The agreement of the FAT copies depends on the geometry only. -/
theorem mirror_any_record {v : FatVolume} {d : Disk} (cnt hint : Option Nat) :
    Mirror (withRecord v cnt hint) d ↔ Mirror v d :=
  (sameGeom_withRecord v cnt hint).mirror d

/-! ### `open_raw_volume` never panics -/

/-- Every run of `m` answers `Ok` or an error. -/
def MClean {α} (m : M α) : Prop := ∀ s, Clean (m s).1

theorem MClean.bind {α β} {m : M α} {f : α → M β} (hm : MClean m) (hf : ∀ a, MClean (f a)) : MClean (m >>= f) := by
  intro s
  have h := hm s
  rw [bind_def]
  rcases hr : m s with ⟨r, s'⟩
  rw [hr] at h
  rcases h with ⟨a, rfl⟩ | ⟨e, rfl⟩
  · exact hf a s'
  · exact clean_err e

theorem MClean.pure {α} (a : α) : MClean (pure a : M α) := fun _ => clean_ok a
theorem MClean.fail {α} (e : Err) : MClean (M.fail e : M α) := fun _ => clean_err e
theorem MClean.lift {α} {r : Res α} (h : C15.NoPanic r) : MClean (M.lift r) := fun _ => h

theorem rdBlock_clean (idx : Nat) : MClean (rdBlock idx) := by
  intro s
  unfold rdBlock
  have key : FaultInv.CleanF (fun _ => True) (do cacheRead idx; cacheBlk : F Block) (fun _ => True) :=
    FaultInv.CleanF.bind (FaultInv.cacheRead_cleanF idx) fun _ => fun t _ => ⟨.inl ⟨t.cache.blk, rfl⟩, fun _ _ => trivial⟩
  exact (key { dev := s.dev, cache := s.cache, vol := default } trivial).1

/-- **`open_raw_volume` answers `Ok` or an error — from ANY state.** -/
theorem openRawVolume_clean (idx : Nat) (s : Mgr) : Clean (openRawVolume idx s).1 := by
  rw [openRawVolume_eq, get_bind]
  split
  · exact clean_err _
  split
  · exact clean_err _
  refine MClean.bind (rdBlock_clean 0) (fun mbr => ?_) s
  refine MClean.bind (MClean.lift (C15.parsePartition_noPanic mbr idx)) ?_
  rintro ⟨ptype, lba, nb⟩
  dsimp only
  split
  · exact MClean.fail _
  refine MClean.bind (rdBlock_clean lba) fun bpb => ?_
  refine MClean.bind (MClean.lift (C15.parseVolumeBpb_noPanic bpb lba nb)) fun v => ?_
  refine MClean.bind ?_ fun v' => ?_
  · split
    · exact MClean.pure v
    · exact MClean.bind (rdBlock_clean _) fun info => MClean.lift (C15.parseVolumeInfo_noPanic v info)
  · intro t
    rw [generate_bind, modify_bind]
    exact clean_ok _

/-! ### T2: every call, every history -/

theorem fcovered_of_open {s : Mgr} {op : Op} (h : ∀ i, op = .openVolume i → s.vols ≠ []) : FaultInv.FCovered s op := by
  cases op <;> first
    | exact h _ rfl
    | exact fun _ hs => NameE5.createFromStr_first_byte hs
    | exact trivial

/-- **Under the invariant EVERY call answers `Ok` or an error** — all 24 constructors, every name, and `open_volume`
whether or not a volume is open. -/
theorem step_clean {s : Mgr} {gh : Ghost} (hI : VolInv s gh) (op : Op) : Clean (step s op).2.result := by
  by_cases h : ∃ i, op = .openVolume i ∧ s.vols = []
  · obtain ⟨i, rfl, _⟩ := h
    rw [step_unlocked s _ hI.unlocked]
    show Clean ((openRawVolume i >>= fun h => (pure (Payload.handle h) : M Payload)) (resetLogs s)).1
    exact clean_map _ (openRawVolume_clean i _)
  · exact covered_call_clean hI op (fcovered_of_open fun i e hv => h ⟨i, e, hv⟩)

/-- **Every history**: all answers are `Ok` or errors, and the invariant (for a ghost whose record has the geometry of the
reference record `v0`) holds after every prefix. -/
theorem history_clean (v0 : FatVolume) : ∀ (ops : List Op) {s : Mgr} {gh : Ghost}, VolInv s gh → SameGeom v0 gh.vol →
    Props.C03All.RemountRun v0 s ops →
    (∀ o, o ∈ (run s ops).2 → Clean o.result) ∧ ∀ k, ∃ gh', VolInv (run s (ops.take k)).1 gh' ∧ SameGeom v0 gh'.vol
  | [], s, gh, hI, h0, _ => ⟨fun o ho => (by cases ho), fun k => (by rw [List.take_nil]; exact ⟨gh, hI, h0⟩)⟩
  | op :: ops, s, gh, hI, h0, hc => by
    obtain ⟨gh1, hI1, h1⟩ := Props.C03All.api_step_invariant_all_names v0 s op gh hI h0 hc.1
    obtain ⟨hcl, hinv⟩ := history_clean v0 ops hI1 h1 hc.2
    refine ⟨fun o ho => ?_, fun k => ?_⟩
    · rw [WriteSetInv.run_cons] at ho
      rcases List.mem_cons.1 ho with rfl | ho
      · exact step_clean hI op
      · exact hcl o ho
    · cases k with
      | zero => exact ⟨gh, hI, h0⟩
      | succ k => rw [List.take_succ_cons, WriteSetInv.run_cons]; exact hinv k

/-! ### Several open volumes -/

open Sdmmc.Lemmas.VolN (LabelFresh)
open Sdmmc.Props.C03Multi (CoveredNRun target_lt)
open Sdmmc.Props.C01Multi (FreshRun volume_view)

/-- **With several open volumes every call answers `Ok` or an error** (the only hypothesis: the handle
`get_root_volume_label` would use for its temporary directory is unused — as in `Props.C01Multi`). -/
theorem step_clean_multi {s : Mgr} {ghs : List Ghost} (hI : VolInvN s ghs) (hm : MirrorN s ghs) (op : Op)
    (hf : LabelFresh s op) : Clean (step s op).2.result := by
  cases ht : target s op with
  | some i =>
    obtain ⟨vi, hvi⟩ := target_lt ht
    obtain ⟨gh, hgh⟩ : ∃ gh, ghs[i]? = some gh :=
      ⟨_, List.getElem?_eq_getElem (by rw [hI.len]; exact (List.getElem?_eq_some_iff.1 hvi).1)⟩
    obtain ⟨B, hB⟩ := Lemmas.VolN.absNx_total hI
    obtain ⟨hP, _, _, hout, _⟩ := volume_view hI hm hB ht hvi hgh hf
    rw [hout]
    exact step_clean hP op
  | none =>
    rw [step_unlocked s op hI.unlocked]
    have hI0 := Lemmas.VolN.volInvN_resetLogs hI
    by_cases h1 : ∃ i, op = .openVolume i
    · obtain ⟨i, rfl⟩ := h1
      show Clean ((openRawVolume i >>= fun h => (pure (Payload.handle h) : M Payload)) (resetLogs s)).1
      exact clean_map _ (openRawVolume_clean i _)
    by_cases h2 : ∃ v, op = .closeVolume v
    · obtain ⟨v, rfl⟩ := h2
      show Clean ((closeVolume v >>= fun _ => (pure Payload.unit : M Payload)) (resetLogs s)).1
      exact clean_map _ (FaultInv.closeVolume_clean v _)
    by_cases h3 : ∃ v, op = .openRoot v
    · obtain ⟨v, rfl⟩ := h3
      show Clean ((openRootDir v >>= fun h => (pure (Payload.handle h) : M Payload)) (resetLogs s)).1
      refine clean_map _ ?_
      unfold openRootDir
      rw [generate_bind, get_bind]
      split
      · exact clean_err _
      · exact clean_ok _
    by_cases h4 : ∃ d, op = .closeDir d
    · obtain ⟨d, rfl⟩ := h4
      show Clean ((closeDir d >>= fun _ => (pure Payload.unit : M Payload)) (resetLogs s)).1
      exact clean_map _ (FaultInv.closeDir_clean d _).1
    by_cases h5 : op = .hasOpen
    · subst h5
      exact clean_ok _
    · simp only
      rw [Lemmas.VolN.untargeted_out hI0 op (by exact ht) (fun i e => h1 ⟨i, e⟩) (fun v e => h2 ⟨v, e⟩)
        (fun v e => h3 ⟨v, e⟩) (fun d e => h4 ⟨d, e⟩) h5]
      exact clean_err _

/-- **Every history with several open volumes**: all answers are `Ok` or errors, and the invariant holds after every
prefix. -/
theorem history_clean_multi : ∀ (ops : List Op) {s : Mgr} {ghs : List Ghost}, VolInvN s ghs → MirrorN s ghs →
    CoveredNRun s ops → FreshRun s ops →
    (∀ o, o ∈ (run s ops).2 → Clean o.result) ∧
    ∀ k, ∃ ghs', VolInvN (run s (ops.take k)).1 ghs' ∧ MirrorN (run s (ops.take k)).1 ghs'
  | [], s, ghs, hI, hm, _, _ => ⟨fun o ho => (by cases ho), fun k => (by rw [List.take_nil]; exact ⟨ghs, hI, hm⟩)⟩
  | op :: ops, s, ghs, hI, hm, hc, hf => by
    obtain ⟨ghs1, hI1, hm1⟩ := Props.C03Multi.api_step_invariant_multi s op ghs hI hm hc.1
    obtain ⟨hcl, hinv⟩ := history_clean_multi ops hI1 hm1 hc.2 hf.2
    refine ⟨fun o ho => ?_, fun k => ?_⟩
    · rw [WriteSetInv.run_cons] at ho
      rcases List.mem_cons.1 ho with rfl | ho
      · exact step_clean_multi hI hm op hf.1
      · exact hcl o ho
    · cases k with
      | zero => exact ⟨ghs, hI, hm⟩
      | succ k => rw [List.take_succ_cons, WriteSetInv.run_cons]; exact hinv k

end Sdmmc.Lemmas.StaleSafe
