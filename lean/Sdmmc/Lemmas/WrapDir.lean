/-
Lemmas for the wrapper layer (`Sdmmc.Model.Wrap`), third part: `Directory::change_dir`.
Used by `Sdmmc.Props.C08Wrap`.
-/
import Sdmmc.Lemmas.WrapIo

namespace Sdmmc.Lemmas.Wrap
open Sdmmc.Model Sdmmc.Model.Wrap Sdmmc.Spec.Wrap Sdmmc.Lemmas.MHoare
open Sdmmc.Gen

/-! ### Lists -/

/-- Swap-removing slot `i` of a table whose last slot was just appended moves the new slot to `i`. -/
theorem swapRemove_append_singleton {α} (l : List α) (x : α) (i : Nat) (hi : i < l.length) :
    swapRemove (l ++ [x]) i = l.set i x := by
  unfold swapRemove
  have h1 : (l ++ [x]).getLast? = some x := by simp
  have h2 : (l ++ [x])[i]? = l[i]? := List.getElem?_append_left hi
  have h3 : l[i]? = some l[i] := List.getElem?_eq_getElem hi
  rw [h1, h2, h3]
  simp only
  have hne : ¬ i = (l ++ [x]).length - 1 := by simp; omega
  rw [if_neg hne, List.set_append_left _ _ hi]
  simp

theorem findIdx?_append_left {α} {l : List α} {p : α → Bool} {i : Nat} (x : α)
    (h : l.findIdx? p = some i) : (l ++ [x]).findIdx? p = some i := by
  rw [List.findIdx?_append, h]; rfl

/-! ### What a successful `open_dir` did -/

theorem getDirById_state (d : Nat) (s : Mgr) : (getDirById d s).2 = s := by
  unfold getDirById; split <;> rfl

/-- `open_dir(d, name) = Ok(d')`: there was a free slot, `d` was an open directory, one entry with
handle `d'` was appended to the directory table, the file table and the borrow flag are the same. -/
theorem openDir_ok_inv {s s1 : Mgr} {d d' : Nat} {name : List Nat} (h : openDir d name s = (.ok d', s1)) :
    s.dirs.length < s.maxDirs ∧
    ∃ i p x, s.dirs.findIdx? (·.rawDirectory = d) = some i ∧ s.dirs[i]? = some p ∧
      x.rawDirectory = d' ∧ s1.dirs = s.dirs ++ [x] ∧ s1.locked = s.locked ∧ s1.files = s.files := by
  unfold openDir at h
  rw [get_bind] at h
  by_cases hfull : s.dirs.length ≥ s.maxDirs
  · rw [if_pos hfull] at h; cases h
  rw [if_neg hfull] at h
  refine ⟨by omega, ?_⟩
  cases hi : s.dirs.findIdx? (·.rawDirectory = d) with
  | none => rw [bind_err (getDirById_bad hi)] at h; cases h
  | some i =>
    rw [bind_ok (getDirById_ok hi)] at h
    obtain ⟨p, hp, _⟩ := findIdx?_some_get hi
    rw [bind_ok (getDir_ok hp)] at h
    cases hv : s.vols.findIdx? (·.rawVolume = p.rawVolume) with
    | none => rw [bind_err (getVolumeById_bad hv)] at h; cases h
    | some vi =>
      rw [bind_ok (getVolumeById_ok hv)] at h
      obtain ⟨v, hvv, _⟩ := findIdx?_some_get hv
      cases hsf : Sfn.createFromStr name with
      | error e =>
        have ht : toSfn name s = (.err (.FilenameError e), s) := by unfold toSfn; rw [hsf]; rfl
        rw [bind_err ht] at h; cases h
      | ok sfn =>
        have ht : toSfn name s = (.ok sfn, s) := by unfold toSfn; rw [hsf]; rfl
        rw [bind_ok ht, bind_ok (getVolInfo_ok hvv)] at h
        by_cases hthis : sfn = Sfn.thisDir
        · rw [if_pos hthis, generate_bind, modify_bind] at h
          have h2 := congrArg Prod.snd h
          have h1 := congrArg Prod.fst h
          simp only [pure_run] at h1 h2
          subst h2
          exact ⟨i, p, { rawDirectory := s.nextId, rawVolume := v.rawVolume, cluster := p.cluster }, rfl, hp,
            Res.ok.inj h1, rfl, rfl, rfl⟩
        · rw [if_neg hthis, bind_def] at h
          have hfr := resp_withVol vi (Fat.findDirectoryEntry p.cluster sfn) s
          have hfl := withVol_files vi (Fat.findDirectoryEntry p.cluster sfn) s
          rcases hw : withVol vi (Fat.findDirectoryEntry p.cluster sfn) s with ⟨r, s2⟩
          rw [hw] at h hfr hfl
          cases r with
          | err e => cases h
          | panic m => cases h
          | diverged => cases h
          | ok e =>
            simp only at h
            by_cases hdir : (!Attr.isDirectory e.attributes) = true
            · rw [if_pos hdir] at h; cases h
            · rw [if_neg hdir, generate_bind, modify_bind] at h
              have h2 := congrArg Prod.snd h
              have h1 := congrArg Prod.fst h
              simp only [pure_run] at h1 h2
              subst h2
              refine ⟨i, p, { rawDirectory := s2.nextId, rawVolume := v.rawVolume, cluster := e.cluster }, rfl, hp,
                Res.ok.inj h1, ?_, hfr.locked, hfl⟩
              show s2.dirs ++ _ = _
              rw [hfr.dirs]

/-! ### `change_dir` -/

section
variable {s : Mgr} {d : Nat} {name : List Nat}

/-- `change_dir` when `open_dir` does not succeed: its answer, its state; `close_dir` is not reached. -/
theorem changeDir_not_ok (hl : s.locked = false) (hno : ∀ a, (openDir d name s).1 ≠ .ok a) :
    (Directory.changeDir d name s).2 = (openDir d name s).2 ∧
    ∀ r : Res Nat, (openDir d name s).1 = r → (Directory.changeDir d name s).1 = r := by
  unfold Directory.changeDir
  rw [bind_def, call_unlocked _ hl]
  rcases ho : openDir d name s with ⟨r, s1⟩
  rw [ho] at hno
  cases r with
  | ok a => exact absurd rfl (hno a)
  | err e => exact ⟨rfl, fun r hr => hr⟩
  | panic m => exact ⟨rfl, fun r hr => hr⟩
  | diverged => exact ⟨rfl, fun r hr => hr⟩

/-- `change_dir` when `open_dir` succeeds: `close_dir(old)` succeeds too (the `unwrap` does not
fire), and the new entry ends up in the slot the old one had. -/
theorem changeDir_ok {s1 : Mgr} {d' : Nat} (hl : s.locked = false) (ho : openDir d name s = (.ok d', s1)) :
    ∃ i p x, s.dirs.findIdx? (·.rawDirectory = d) = some i ∧ s.dirs[i]? = some p ∧ x.rawDirectory = d' ∧
      s1.dirs = s.dirs ++ [x] ∧
      Directory.changeDir d name s = (.ok d', { s1 with dirs := s.dirs.set i x }) := by
  obtain ⟨_, i, p, x, hi, hp, hx, hd1, hl1, _⟩ := openDir_ok_inv ho
  refine ⟨i, p, x, hi, hp, hx, hd1, ?_⟩
  have hl1' : s1.locked = false := by rw [hl1]; exact hl
  have hi1 : s1.dirs.findIdx? (·.rawDirectory = d) = some i := by rw [hd1]; exact findIdx?_append_left x hi
  have hc : closeDir d s1 = (.ok (), { s1 with dirs := swapRemove s1.dirs i }) := by
    unfold closeDir
    rw [get_bind, hi1]; rfl
  unfold Directory.changeDir
  rw [bind_ok (by rw [call_unlocked _ hl]; exact ho)]
  have he : expect "called `Result::unwrap()` on an `Err` value" (call (closeDir d)) s1 =
      (.ok (), { s1 with dirs := swapRemove s1.dirs i }) := by
    rw [expect_run, call_unlocked _ hl1', hc]; rfl
  rw [bind_ok he]
  show (Res.ok d', { s1 with dirs := swapRemove s1.dirs i }) = _
  rw [hd1, swapRemove_append_singleton _ _ _ (lt_of_getElem?_some hp)]

/-- The answer of `change_dir` is the answer of `open_dir`, always: the `.unwrap()` on `close_dir`
never fires. -/
theorem changeDir_result (hl : s.locked = false) :
    (Directory.changeDir d name s).1 = (openDir d name s).1 := by
  rcases ho : openDir d name s with ⟨r, s1⟩
  cases r with
  | ok a =>
    obtain ⟨i, p, x, _, _, _, _, hc⟩ := changeDir_ok hl ho
    rw [hc]
  | err e => exact (changeDir_not_ok hl (by rw [ho]; intro a h; cases h)).2 _ (by rw [ho])
  | panic m => exact (changeDir_not_ok hl (by rw [ho]; intro a h; cases h)).2 _ (by rw [ho])
  | diverged => exact (changeDir_not_ok hl (by rw [ho]; intro a h; cases h)).2 _ (by rw [ho])

/-- Full directory table: refused, although the number of open directories would not change. -/
theorem changeDir_full (hl : s.locked = false) (hfull : s.dirs.length ≥ s.maxDirs) :
    Directory.changeDir d name s = (.err .TooManyOpenDirs, s) := by
  have ho : openDir d name s = (.err .TooManyOpenDirs, s) := by
    unfold openDir
    rw [get_bind, if_pos hfull]; rfl
  unfold Directory.changeDir
  exact bind_err (by rw [call_unlocked _ hl]; exact ho)

/-- Stale handle (and a free slot): `BadHandle` from `open_dir` — not a panic. -/
theorem changeDir_stale (hl : s.locked = false) (hroom : s.dirs.length < s.maxDirs)
    (hb : d ∉ s.dirs.map (·.rawDirectory)) : Directory.changeDir d name s = (.err .BadHandle, s) := by
  unfold Directory.changeDir
  exact bind_err (by rw [call_unlocked _ hl]; exact Tables.openDir_bad name hb hroom)

theorem changeDir_locked (hl : s.locked = true) : Directory.changeDir d name s = (.err .LockError, s) := by
  unfold Directory.changeDir
  exact bind_err (call_locked _ hl)

end

end Sdmmc.Lemmas.Wrap
