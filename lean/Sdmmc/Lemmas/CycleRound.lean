/-
The fill / delete / refill cycle without glue (C05), part 7 — one round (create NAME, write to capacity,
close, delete NAME) from a quiescent state satisfying the volume invariant whose directory has a free
slot (`round`), and any number of rounds (`rounds`).
-/
import Sdmmc.Lemmas.CycleCreate
import Sdmmc.Lemmas.CycleFill
import Sdmmc.Lemmas.CycleClose
import Sdmmc.Lemmas.CycleDelete
import Sdmmc.Lemmas.CapacityCycle
import Sdmmc.Lemmas.TablesInv

namespace Sdmmc.Lemmas.Cycle
open Sdmmc.Model Sdmmc.Model.Fat Sdmmc.Spec.Volume Sdmmc.Lemmas.VolBase Sdmmc.Lemmas.VolTree
open Sdmmc.Spec hiding NoFault Coherent
open Sdmmc.Lemmas.VolDisk Sdmmc.Lemmas.VolMed Sdmmc.Lemmas.VolEng Sdmmc.Lemmas.VolApi Sdmmc.Lemmas.VolWalk
open Sdmmc.Lemmas.Capacity (writeMany WReady)
open Sdmmc.Lemmas.Acct (Acct)
open Sdmmc.Lemmas.AcctAll (Gave)

/-- A quiescent point of the cycle: the volume invariant holds; no file is open (and the table has room
for one); the directory handle resolves (record `d`) and its volume is open; the directory holds no
entry named `sfn` and has a free slot (a deleted one, or the end marker); `F` clusters are free. -/
structure Quiet (s : Mgr) (gh : Ghost) (directory di : Nat) (d : DirInfo) (sfn : Bytes) (F : Nat) : Prop where
  inv : VolInv s gh
  noFiles : s.files = []
  room : 0 < s.maxFiles
  hdi : s.dirs.findIdx? (·.rawDirectory = directory) = some di
  hd : s.dirs[di]? = some d
  hvo : ∃ volIdx, s.vols.findIdx? (·.rawVolume = d.rawVolume) = some volIdx
  fresh : sfn ∉ (entries (dirSlots gh.vol s.dev.disk gh.G (dirIdOf d.cluster))).map sName
  slot : ∃ t, t ∈ dirSlots gh.vol s.dev.disk gh.G (dirIdOf d.cluster) ∧ isFreeSlot t = true
  free : freeCount gh.vol s.dev.disk = F

/-- The chain of an open file is determined by its record and the medium. -/
theorem fileOK_chain_unique {v : FatVolume} {d : Disk} {f : FileInfo} {cs cs' : List Nat} (h : FileOK v d f cs)
    (h' : FileOK v d f cs') : cs = cs' := by
  rcases h.chain with ⟨ha, hb, _⟩ | ha
  · rcases h'.chain with ⟨_, hc, _⟩ | hc
    · rw [hb, hc]
    · have := (ChainL.chain_inRange hc _ (ForestBase.chain_head_mem hc)).1; omega
  · rcases h'.chain with ⟨hc0, _, _⟩ | hc
    · have := (ChainL.chain_inRange ha _ (ForestBase.chain_head_mem ha)).1; omega
    · exact ChainL.chain_unique ha _ hc

/-- In a list of chains with distinct first clusters, the place of the chain with a given first cluster is
determined. -/
theorem split_unique : ∀ (A A' B B' : List (List Nat)) (x y : List Nat), (heads (A ++ x :: B)).Nodup →
    A ++ x :: B = A' ++ y :: B' → x.headD 0 = y.headD 0 → A = A' ∧ x = y ∧ B = B'
  | [], [], B, B', x, y, _, h, _ => by
    simp only [List.nil_append, List.cons.injEq] at h
    exact ⟨rfl, h.1, h.2⟩
  | [], a' :: A', B, B', x, y, hnd, h, hxy => by
    exfalso
    simp only [List.nil_append, List.cons_append, List.cons.injEq] at h
    obtain ⟨rfl, rfl⟩ := h
    simp only [heads, List.nil_append, List.map_cons, List.map_append, List.nodup_cons, List.mem_append, List.mem_map,
      List.mem_cons] at hnd
    exact hnd.1 (.inr (.inl hxy))
  | a :: A, [], B, B', x, y, hnd, h, hxy => by
    exfalso
    simp only [List.nil_append, List.cons_append, List.cons.injEq] at h
    obtain ⟨rfl, rfl⟩ := h
    simp only [heads, List.cons_append, List.map_cons, List.map_append, List.nodup_cons, List.mem_append, List.mem_map,
      List.mem_cons] at hnd
    exact hnd.1 (.inr (.inl hxy.symm))
  | a :: A, a' :: A', B, B', x, y, hnd, h, hxy => by
    simp only [List.cons_append, List.cons.injEq] at h
    obtain ⟨rfl, h2⟩ := h
    have hnd' : (heads (A ++ x :: B)).Nodup := by
      simp only [heads, List.cons_append, List.map_cons, List.nodup_cons] at hnd
      exact hnd.2
    obtain ⟨h1, h2', h3⟩ := split_unique A A' B B' x y hnd' h2 hxy
    exact ⟨by rw [h1], h2', h3⟩

/-- `close_file` leaves the handle counter and the capacity of the file table alone. -/
theorem closeFile_frame (h : Nat) (s : Mgr) :
    (closeFile h s).2.maxFiles = s.maxFiles ∧ (closeFile h s).2.nextId = s.nextId := by
  have hfr := Tables.resp_flushFile h s
  unfold closeFile
  rw [MHoare.attempt_bind]
  rcases hfl : flushFile h s with ⟨r, s1⟩
  rw [hfl] at hfr
  simp only
  rw [MHoare.bind_def]
  unfold getFileById
  cases s1.files.findIdx? (·.rawFile = h) with
  | none => exact ⟨hfr.maxFiles, hfr.nextId⟩
  | some i =>
    simp only
    rw [MHoare.modify_bind]
    cases r <;> exact ⟨hfr.maxFiles, hfr.nextId⟩

/-- A sequence of writes leaves the handle counter and the capacity of the file table alone. -/
theorem writeMany_frame (h : Nat) : ∀ (bs : List Bytes) (s : Mgr),
    (writeMany h bs s).2.maxFiles = s.maxFiles ∧ (writeMany h bs s).2.nextId = s.nextId
  | [], _ => ⟨rfl, rfl⟩
  | b :: bs, s => by
    have h1 := Tables.resp_write h b s
    have h2 := writeMany_frame h bs (Model.write h b s).2
    exact ⟨h2.1.trans h1.maxFiles, h2.2.trans h1.nextId⟩

/-- **The create of a round.**  From a quiescent point: `open_file_in_dir(.., ReadWriteCreate)` answers
the handle `s.nextId`; the chains and the number of free clusters are the same; the new file is ready to
be written (`WReady`, no cluster, offset and size 0) and sits in the directory. -/
theorem round_create {s : Mgr} {gh : Ghost} {directory di : Nat} {d : DirInfo} {sfn : Bytes} {F : Nat}
    (hq : Quiet s gh directory di d sfn F) (name : List Nat) (hsfn : Sfn.createFromStr name = .ok sfn)
    (hne5 : sfn.head? ≠ some 0xE5) :
    ∃ s0 e vi0 pre post o, openFileInDir directory name .ReadWriteCreate s = (.ok s.nextId, s0) ∧
      Created s s0 gh d sfn e gh.G vi0 pre post o ∧ s0.files = [Modes.createdFile d s.nextId e] ∧
      freeCount vi0.vol s0.dev.disk = F ∧
      WReady s0 s.nextId 0 0 (Modes.createdFile d s.nextId e) vi0 [] gh.G [] := by
  obtain ⟨r, s0, hrun, hcase⟩ := create_counts hq.inv directory di name d sfn (by rw [hq.noFiles]; exact hq.room) hq.hdi hq.hd
    hq.hvo hsfn hne5 hq.fresh
  obtain ⟨t, ht, htf⟩ := hq.slot
  have hsome : (dirSlots gh.vol s.dev.disk gh.G (dirIdOf d.cluster)).find? isFreeSlot ≠ none := by
    intro hnone
    have := List.find?_eq_none.1 hnone t ht
    exact this htf
  rcases hcase with ⟨_, _, _, _, _, hnone⟩ | ⟨e, G1, vi0, pre, post, o, hr, hC, hcase2⟩
  · exact absurd hnone hsome
  rcases hcase2 with ⟨_, hG1, _, hacct⟩ | ⟨hnone, _⟩
  swap
  · exact absurd hnone hsome
  subst hG1
  subst hr
  have hfiles : s0.files = [Modes.createdFile d s.nextId e] := by rw [hC.files, hq.noFiles]; rfl
  have hfree : freeCount vi0.vol s0.dev.disk = F := by
    have := hacct.free
    rw [Nat.add_zero] at this
    rw [hC.sameGeom.freeCount, this]; exact hq.free
  refine ⟨s0, e, vi0, pre, post, o, hrun, hC, hfiles, hfree, ?_⟩
  have hI0 := hC.inv
  have hfm : Modes.createdFile d s.nextId e ∈ s0.files := by rw [hfiles]; exact List.mem_singleton.2 rfl
  have hec : e.cluster = 0 := by rw [hC.entry]; rfl
  have hes : e.size = 0 := by rw [hC.entry]; rfl
  have hG := med_heads (medX_of_med hI0.med)
  have hnil : chainOf gh.G (Modes.createdFile d s.nextId e).entry.cluster = [] := by
    show chainOf gh.G e.cluster = []
    rw [hec]; exact chainOf_lt_two hG (by decide)
  obtain ⟨hok, hcur⟩ := hI0.med.fileOK _ hfm
  have hok' : FileOK vi0.vol s0.dev.disk (Modes.createdFile d s.nextId e) [] := by
    have := hok
    rw [show ({ vol := vi0.vol, G := gh.G, dirs := gh.dirs } : Ghost).G = gh.G from rfl, hnil] at this
    exact this
  refine ⟨⟨hI0.noFault, hI0.coherent, hI0.med.blocksOK, hI0.unlocked⟩, ?_, ?_, ?_, ?_, ?_, hI0.med.geom, hI0.med.hint, hok',
    fun _ => hcur hnil, ?_⟩
  · rw [hfiles]; simp [Modes.createdFile]
  · rw [hfiles]; rfl
  · rw [hC.vols]
    show [vi0].findIdx? (fun x => decide (x.rawVolume = d.rawVolume)) = some 0
    simp [hC.rawVol]
  · rw [hC.vols]; rfl
  · show Mode.ReadWriteCreate ≠ Mode.ReadOnly
    intro h; cases h
  · rw [WriteRefines.withChain_nil]
    simpa using hI0.med.owns

/-- **One round, no glue.**  From a quiescent point with `F ≥ 1` free clusters (`F * cb ≤ MAX_FILE_SIZE`),
for a name `NAME` (short form `sfn`, not starting with 0xE5) and buffers of `F * cb` bytes in all:
* `open_file_in_dir(dir, NAME, ReadWriteCreate)` answers the handle `id = s.nextId`;
* every `write id b` answers `Ok` (`writeMany`), after which no cluster is free and every further non-empty
  write answers `DiskFull`;
* `close_file id` answers `Ok`; `delete_file_in_dir(dir, NAME)` answers `Ok`;
* the state afterwards is a quiescent point again, for a ghost with the SAME chains and sub-directories,
  and with `F` free clusters. -/
theorem round {s : Mgr} {gh : Ghost} {directory di : Nat} {d : DirInfo} {sfn : Bytes} {F : Nat}
    (hq : Quiet s gh directory di d sfn F) (name : List Nat) (hsfn : Sfn.createFromStr name = .ok sfn)
    (hne5 : sfn.head? ≠ some 0xE5) (hF : 1 ≤ F) (hcap : F * clusterBytesLen gh.vol ≤ Gen.MAX_FILE_SIZE)
    (bs : List Bytes) (htotal : bs.flatten.length = F * clusterBytesLen gh.vol) :
    ∃ s0 s1 s2 s3 gh3, openFileInDir directory name .ReadWriteCreate s = (.ok s.nextId, s0) ∧
      writeMany s.nextId bs s0 = (bs.map fun _ => .ok (), s1) ∧
      (∃ v1, s1.vols = [v1] ∧ freeCount v1.vol s1.dev.disk = 0) ∧
      (∀ data : Bytes, data ≠ [] → F * clusterBytesLen gh.vol + data.length ≤ Gen.MAX_FILE_SIZE →
        (Model.write s.nextId data s1).1 = .err .DiskFull) ∧
      closeFile s.nextId s1 = (.ok (), s2) ∧
      deleteFileInDir directory name s2 = (.ok (), s3) ∧
      Quiet s3 gh3 directory di d sfn F ∧ gh3.G = gh.G ∧ gh3.dirs = gh.dirs ∧ SameGeom gh.vol gh3.vol ∧
      s3.nextId = (s.nextId + 1) % 4294967296 ∧ s3.dirs = s.dirs ∧ s3.maxFiles = s.maxFiles := by
  obtain ⟨s0, e, vi0, pre, post, o, hopen, hC, hfiles0, hfree0, hW0⟩ := round_create hq name hsfn hne5
  obtain ⟨hlen11, _⟩ := VolSfn.sfn_facts hsfn
  set f0 := Modes.createdFile d s.nextId e with hf0
  have hI0 := hC.inv
  have hM0 := medX_of_med hI0.med
  have hcb0 : clusterBytesLen vi0.vol = clusterBytesLen gh.vol := WriteRefines.sameGeom_clusterBytesLen hC.sameGeom
  have hh0 : dirIdOf d.cluster ∈ dirIds gh.dirs :=
    (validDir_id (medX_of_med hq.inv.med) (hq.inv.openDirs d (List.mem_of_getElem? hq.hd))).1
  have hom : o ∈ dirSlots vi0.vol s0.dev.disk gh.G (dirIdOf d.cluster) := mem_of_mem_objects hC.obj
  have heb : e.entryBlock = o.1 := by rw [hC.entry]; rfl
  have heo : e.entryOffset = o.2.1 := by rw [hC.entry]; rfl
  have hen : e.name = sfn := by rw [hC.entry]; rfl
  have hoff32 : f0.entry.entryOffset + 32 ≤ 512 := by
    show e.entryOffset + 32 ≤ 512
    obtain ⟨j, hj, hje⟩ := mem_dirSlots_offset hom
    rw [heo, hje]; omega
  have hreg0 : regionOf vi0.vol f0.entry.entryBlock ≠ .fat := by
    show regionOf vi0.vol e.entryBlock ≠ .fat
    rw [heb]
    rcases dirSlot_not_fat hM0 hh0 hom with h1 | h1 <;> rw [h1] <;> intro e' <;> cases e'
  -- the fill
  have hpos0 : f0.currentOffset = f0.entry.size := by
    show 0 = e.size
    rw [hC.entry]; rfl
  have hoff0 : f0.currentOffset = 0 := rfl
  have hbsne : bs ≠ [] := by
    intro e'
    rw [e'] at htotal
    have : 0 < F * clusterBytesLen gh.vol := Nat.mul_pos (by omega) (Nat.mul_pos hq.inv.med.geom.bpc_pos (by omega))
    simp at htotal; omega
  obtain ⟨s1, f1, v1, cs1, hrun1, hW1, hsg1, _, hoff1, hsize1, _, hsum1, hlen1, heb1, heo1, hnm1, hdirty1, hdirs1, hrv1⟩ :=
    Capacity.fill_ok s.nextId 0 0 gh.G [] bs s0 f0 vi0 [] hW0 hpos0 (by rw [hfree0]; simpa using hF)
      (by rw [hoff0, hfree0, hcb0, htotal]; simp) (by rw [hoff0, htotal]; simpa using hcap)
  have hs1 : (writeMany s.nextId bs s0).2 = s1 := by rw [hrun1]
  have hcb1 : clusterBytesLen v1.vol = clusterBytesLen gh.vol := (WriteRefines.sameGeom_clusterBytesLen hsg1).trans hcb0
  have hcs1 : cs1.length = F := by
    rw [hlen1 hbsne, hoff0, hcb0, htotal]
    unfold Capacity.needed
    have hcbp : 0 < clusterBytesLen gh.vol := Nat.mul_pos hq.inv.med.geom.bpc_pos (by omega)
    have h1 : Capacity.cdiv (0 + F * clusterBytesLen gh.vol) (clusterBytesLen gh.vol) ≤ F := Capacity.cdiv_le hcbp (by omega)
    have h2 : F ≤ Capacity.cdiv (0 + F * clusterBytesLen gh.vol) (clusterBytesLen gh.vol) := Capacity.le_cdiv hcbp (by omega)
    simp only [List.length_nil]
    omega
  have hfree1 : freeCount v1.vol s1.dev.disk = 0 := by
    simp only [List.length_nil] at hsum1
    omega
  have hcs1ne : cs1 ≠ [] := by intro e'; rw [e'] at hcs1; simp at hcs1; omega
  -- the invariant after the fill
  have hnil0 : chainOf ({ vol := vi0.vol, G := gh.G, dirs := gh.dirs } : Ghost).G f0.entry.cluster = [] := by
    show chainOf gh.G e.cluster = []
    have : e.cluster = 0 := by rw [hC.entry]; rfl
    rw [this]; exact chainOf_lt_two (med_heads hM0) (by decide)
  obtain ⟨f1', v1', cs1', hf1', hv1', hI1, _, hch1, hslots1, hkey1, hfs1⟩ :=
    fill_inv s.nextId 0 gh.G [] bs s0 { vol := vi0.vol, G := gh.G, dirs := gh.dirs } f0 [] hI0 hW0.hh hW0.hf hW0.mode hnil0
      (by rw [WriteRefines.withChain_nil]; simp)
  rw [hs1] at hf1' hv1' hI1 hslots1 hfs1
  have hff : f1' = f1 := Option.some.inj (hf1'.symm.trans hW1.hf)
  subst hff
  have hvv : v1' = v1 := by
    have := hW1.hvi
    rw [hv1'] at this
    exact Option.some.inj this
  subst hvv
  have hcc : cs1' = cs1 := by
    have hfm1 : f1' ∈ s1.files := List.mem_of_getElem? hf1'
    have h1 := (hI1.med.fileOK f1' hfm1).1
    rw [show ({ vol := v1'.vol, G := withChain gh.G cs1' [], dirs := gh.dirs } : Ghost).G = withChain gh.G cs1' [] from rfl,
      hch1] at h1
    exact fileOK_chain_unique h1 hW1.fileOK
  subst hcc
  -- the close
  have hname1 : f1'.entry.name.length = 11 := by
    rw [hnm1]
    show e.name.length = 11
    rw [hen]; exact hlen11
  obtain ⟨s2, hclose, hok2, hvols2, hdirs2, hfiles2, _, hcount2⟩ :=
    Capacity.close_keeps_fat s1 s.nextId 0 0 f1' v1' cs1' gh.G [] hW1 (hdirty1 hbsne) (by rw [heo1]; exact hoff32) hname1
      (by rw [heb1, Capacity.SameGeom.regionOf hsg1]; exact hreg0)
  have hs2 : (closeFile s.nextId s1).2 = s2 := by rw [hclose]
  have hhome : fkey f1' ∈ (dirSlots v1'.vol s1.dev.disk (withChain gh.G cs1' []) (dirIdOf d.cluster)).map spos := by
    rw [hslots1 _ hh0, hkey1]
    exact List.mem_map.2 ⟨o, hom, by show (o.1, o.2.1) = (e.entryBlock, e.entryOffset); rw [heb, heo]⟩
  obtain ⟨gh2, hI2, hsg2, hD2, hG2, _, o2, ho2, _, hod2, hnm2, hcl2, _, hpend2⟩ :=
    close_x hI1 hW1.hh hW1.hf (h0 := dirIdOf d.cluster) hh0 hhome
  rw [hs2] at hI2 ho2 hpend2
  -- the delete
  have hfiles2' : s2.files = [] := by
    rw [hfiles2, hfs1, hfiles0]; rfl
  have hdirs20 : s2.dirs = s.dirs := by rw [hdirs2, hdirs1, hC.dirs]
  have hrawv1 : v1'.rawVolume = d.rawVolume := by
    have h1 := hW1.hv
    rw [hv1'] at h1
    have hlt : ([v1'] : List VolInfo).findIdx? (fun x => decide (x.rawVolume = f1'.rawVolume)) = some 0 := h1
    simp only [List.findIdx?_cons, List.findIdx?_nil] at hlt
    split at hlt
    · rename_i hdec
      have : v1'.rawVolume = f1'.rawVolume := by simpa using hdec
      rw [this, hrv1]; rfl
    · simp at hlt
  have hvo2 : ∃ volIdx, s2.vols.findIdx? (·.rawVolume = d.rawVolume) = some volIdx := by
    refine ⟨0, ?_⟩
    rw [hvols2, hv1']
    simp [hrawv1]
  have hsn2 : sName o2 = sfn := by
    rw [hnm2, hnm1]; exact hen
  obtain ⟨s3, vi3, G', k, pre3, post3, hdel, hfiles3, hdirs3, hnid3, hmaxf3, hvols3, hraw3, hsg3, hI3, hgave, hcase3, hsp3, hprenz3,
      hsl3, _⟩ :=
    delete_succeeds hI2 directory di name d sfn (by rw [hdirs20]; exact hq.hdi) (by rw [hdirs20]; exact hq.hd) hvo2 hsfn hne5
      ho2 hod2 hsn2 hpend2
  -- the chain given back is the chain of the file
  have hG2' : gh2.G = gh.G ++ cs1' :: [] := by
    rw [hG2]
    show withChain gh.G cs1' [] = _
    rw [WriteRefines.withChain_ne hcs1ne]; simp
  have hchain1 : Chain v1'.vol s1.dev.disk f1'.entry.cluster cs1' := by
    rcases hW1.fileOK.chain with ⟨_, h2, _⟩ | h3
    · exact absurd h2 hcs1ne
    · exact h3
  have hcl1 : 2 ≤ f1'.entry.cluster := (ChainL.chain_inRange hchain1 _ (ForestBase.chain_head_mem hchain1)).1
  have hGk : G' = gh.G ∧ k = F := by
    rcases hcase3 with ⟨hz, _, _⟩ | ⟨A, B, tail, hGe, hG', hk⟩
    · rw [hcl2] at hz; omega
    · rw [hG2', hcl2] at hGe
      have hnd : (heads (gh.G ++ cs1' :: [])).Nodup := by
        have := (med_heads (medX_of_med hI2.med)).nodup
        rw [hG2'] at this
        exact this
      obtain ⟨hA, hx, hB⟩ := split_unique gh.G A [] B cs1' (f1'.entry.cluster :: tail) hnd hGe
        (by rw [ForestBase.chain_head_eq hchain1]; rfl)
      rw [hG', ← hA, ← hB, List.append_nil]
      refine ⟨rfl, ?_⟩
      rw [hk, ← hcs1, hx]; rfl
  obtain ⟨hG'e, hkF⟩ := hGk
  subst hG'e
  -- free clusters afterwards
  have hfree3 : freeCount vi3.vol s3.dev.disk = F := by
    have h1 := hgave.free
    rw [hsg3.freeCount, h1, hkF]
    have h2 : freeCount gh2.vol s2.dev.disk = 0 := by
      rw [hsg2.freeCount]
      show freeCount v1'.vol s2.dev.disk = 0
      rw [hcount2]; exact hfree1
    rw [h2]; omega
  -- the directory afterwards
  have hmarked : isFreeSlot (o2.1, o2.2.1, o2.2.2.set 0 (UInt8.ofNat 0xE5)) = true := by
    unfold isFreeSlot
    have ho2m : o2 ∈ dirSlots gh2.vol s2.dev.disk gh2.G (dirIdOf d.cluster) := mem_of_mem_objects ho2
    rw [first_set o2 _ (by rw [mem_dirSlots_length hI2.med.blocksOK ho2m]; decide)]
    decide
  have hh2 : dirIdOf d.cluster ∈ dirIds gh2.dirs := by rw [hD2]; exact hh0
  have hfresh3 : sfn ∉ (entries (dirSlots vi3.vol s3.dev.disk gh.G (dirIdOf d.cluster))).map sName := by
    rw [hsl3, entries_split _ _ _ hprenz3]
    have hnd := hI2.med.tree.names _ hh2
    rw [hsp3, entries_split _ _ _ hprenz3] at hnd
    have ho2e : o2 ∈ entries (dirSlots gh2.vol s2.dev.disk gh2.G (dirIdOf d.cluster)) := mem_entries_of_objects ho2
    obtain ⟨_, hnz2, _, _⟩ := mem_entries ho2e
    have hkeep2 : keep o2 = true := by
      rw [entries_eq] at ho2e
      exact (List.mem_filter.1 ho2e).2
    rw [if_neg hnz2, if_pos hkeep2] at hnd
    have hfm : first (o2.1, o2.2.1, o2.2.2.set 0 (UInt8.ofNat 0xE5)) ≠ 0 := by
      have ho2m : o2 ∈ dirSlots gh2.vol s2.dev.disk gh2.G (dirIdOf d.cluster) := mem_of_mem_objects ho2
      rw [first_set o2 _ (by rw [mem_dirSlots_length hI2.med.blocksOK ho2m]; decide)]
      decide
    have hkm : keep (o2.1, o2.2.1, o2.2.2.set 0 (UInt8.ofNat 0xE5)) = false := by
      have ho2m : o2 ∈ dirSlots gh2.vol s2.dev.disk gh2.G (dirIdOf d.cluster) := mem_of_mem_objects ho2
      unfold keep
      rw [first_set o2 _ (by rw [mem_dirSlots_length hI2.med.blocksOK ho2m]; decide)]
      rfl
    rw [if_neg hfm, hkm]
    simp only [Bool.false_eq_true, if_false, List.nil_append]
    intro hmem
    rw [List.map_append, List.map_append, List.map_cons, List.map_nil, List.nodup_append] at hnd
    obtain ⟨_, hnd2, hdisj⟩ := hnd
    rw [List.singleton_append, List.nodup_cons] at hnd2
    rw [List.map_append] at hmem
    rcases List.mem_append.1 hmem with hm | hm
    · exact hdisj _ hm _ (List.mem_append_left _ (List.mem_singleton.2 rfl)) hsn2.symm
    · exact hnd2.1 (hsn2 ▸ hm)
  have hq3 : Quiet s3 { vol := vi3.vol, G := gh.G, dirs := gh2.dirs } directory di d sfn F := by
    refine ⟨hI3, by rw [hfiles3]; exact hfiles2', ?_, by rw [hdirs3, hdirs20]; exact hq.hdi, by rw [hdirs3, hdirs20]; exact hq.hd,
      ⟨0, by rw [hvols3]; simp [hraw3]⟩, hfresh3, ?_, hfree3⟩
    · rw [hmaxf3]
      have : s2.maxFiles = s.maxFiles := by
        rw [← hs2, (closeFile_frame _ _).1, ← hs1, (writeMany_frame _ _ _).1, hC.maxFiles]
      rw [this]; exact hq.room
    · exact ⟨_, by rw [hsl3]; simp, hmarked⟩
  have hnid3' : s3.nextId = (s.nextId + 1) % 4294967296 := by
    rw [hnid3, ← hs2, (closeFile_frame _ _).2, ← hs1, (writeMany_frame _ _ _).2, hC.nextId]
  refine ⟨s0, s1, s2, s3, { vol := vi3.vol, G := gh.G, dirs := gh2.dirs }, hopen, hrun1, ⟨v1', hv1', hfree1⟩, ?_, hclose, hdel, hq3,
    rfl, hD2, ?_, hnid3', by rw [hdirs3, hdirs20], ?_⟩
  · intro data hdata hmaxd
    have hlen : 0 < data.length := List.length_pos_iff.2 hdata
    have hpos1 : f1'.currentOffset = f1'.entry.size := by rw [hoff1, hsize1]
    obtain ⟨k', s', f', v', cs', hrun', _⟩ :=
      Capacity.fill_over s1 s.nextId 0 0 data f1' v1' cs1' gh.G [] hW1 hpos1 (by omega)
        (by rw [hfree1, hcs1, hcb1, hoff1, hoff0, htotal, Nat.add_zero]; omega)
        (by rw [hoff1, hoff0, htotal]; omega)
    rw [hrun']
  · exact hC.sameGeom.trans (hsg1.trans (hsg2.trans hsg3))
  · rw [hmaxf3, ← hs2, (closeFile_frame _ _).1, ← hs1, (writeMany_frame _ _ _).1, hC.maxFiles]

/-- The state after one round from `s`: create `name` (handle `s.nextId`), write the buffers, close, delete. -/
def roundState (directory : Nat) (name : List Nat) (bs : List Bytes) (s : Mgr) : Mgr :=
  (deleteFileInDir directory name
    (closeFile s.nextId (writeMany s.nextId bs (openFileInDir directory name .ReadWriteCreate s).2).2).2).2

/-- The state after `n` rounds, round `j` writing the buffers `bss j`. -/
def roundsState (directory : Nat) (name : List Nat) (bss : Nat → List Bytes) : Nat → Mgr → Mgr
  | 0, s => s
  | n + 1, s => roundState directory name (bss n) (roundsState directory name bss n s)

/-- The answers of one round from `s`, for a volume with `cap` bytes of room: the create answers the handle
`s.nextId`, every write answers `Ok`, every further non-empty write answers `DiskFull`, the close and the
delete answer `Ok`. -/
def RoundAnswers (directory : Nat) (name : List Nat) (bs : List Bytes) (cap : Nat) (s : Mgr) : Prop :=
  (openFileInDir directory name .ReadWriteCreate s).1 = .ok s.nextId ∧
  (writeMany s.nextId bs (openFileInDir directory name .ReadWriteCreate s).2).1 = bs.map (fun _ => .ok ()) ∧
  (∀ data : Bytes, data ≠ [] → cap + data.length ≤ Gen.MAX_FILE_SIZE →
    (Model.write s.nextId data (writeMany s.nextId bs (openFileInDir directory name .ReadWriteCreate s).2).2).1 =
      .err .DiskFull) ∧
  (closeFile s.nextId (writeMany s.nextId bs (openFileInDir directory name .ReadWriteCreate s).2).2).1 = .ok () ∧
  (deleteFileInDir directory name
    (closeFile s.nextId (writeMany s.nextId bs (openFileInDir directory name .ReadWriteCreate s).2).2).2).1 = .ok ()

/-- **Any number of rounds, no glue.**  From a quiescent point with `F ≥ 1` free clusters
(`F * cb ≤ MAX_FILE_SIZE`): after ANY number `n` of rounds — each creating `NAME`, writing buffers of
`F * cb` bytes in all, closing, deleting `NAME` — the state is a quiescent point with the same chains, the
same sub-directories and `F` free clusters; and round `n + 1` gets the answers of `RoundAnswers`: in
particular it again accepts exactly `F * cb` bytes. -/
theorem rounds {s : Mgr} {gh : Ghost} {directory di : Nat} {d : DirInfo} {sfn : Bytes} {F : Nat}
    (hq : Quiet s gh directory di d sfn F) (name : List Nat) (hsfn : Sfn.createFromStr name = .ok sfn)
    (hne5 : sfn.head? ≠ some 0xE5) (hF : 1 ≤ F) (hcap : F * clusterBytesLen gh.vol ≤ Gen.MAX_FILE_SIZE)
    (bss : Nat → List Bytes) (htotal : ∀ j, (bss j).flatten.length = F * clusterBytesLen gh.vol) (n : Nat) :
    (∃ ghn, Quiet (roundsState directory name bss n s) ghn directory di d sfn F ∧ ghn.G = gh.G ∧ ghn.dirs = gh.dirs ∧
      SameGeom gh.vol ghn.vol) ∧
    RoundAnswers directory name (bss n) (F * clusterBytesLen gh.vol) (roundsState directory name bss n s) := by
  have key : ∀ n, ∃ ghn, Quiet (roundsState directory name bss n s) ghn directory di d sfn F ∧ ghn.G = gh.G ∧
      ghn.dirs = gh.dirs ∧ SameGeom gh.vol ghn.vol := by
    intro n
    induction n with
    | zero => exact ⟨gh, hq, rfl, rfl, SameGeom.refl _⟩
    | succ n ih =>
      obtain ⟨ghn, hqn, hG, hD, hsg⟩ := ih
      have hcb : clusterBytesLen ghn.vol = clusterBytesLen gh.vol := WriteRefines.sameGeom_clusterBytesLen hsg
      obtain ⟨s0, s1, s2, s3, gh3, h1, h2, _, _, h5, h6, hq3, hG3, hD3, hsg3, _⟩ :=
        round hqn name hsfn hne5 hF (by rw [hcb]; exact hcap) (bss n) (by rw [hcb]; exact htotal n)
      refine ⟨gh3, ?_, hG3.trans hG, hD3.trans hD, hsg.trans hsg3⟩
      show Quiet (roundState directory name (bss n) (roundsState directory name bss n s)) gh3 directory di d sfn F
      unfold roundState
      rw [h1]; simp only
      rw [h2]; simp only
      rw [h5]; simp only
      rw [h6]
      exact hq3
  refine ⟨key n, ?_⟩
  obtain ⟨ghn, hqn, _, _, hsg⟩ := key n
  have hcb : clusterBytesLen ghn.vol = clusterBytesLen gh.vol := WriteRefines.sameGeom_clusterBytesLen hsg
  obtain ⟨s0, s1, s2, s3, gh3, h1, h2, _, h4, h5, h6, _⟩ :=
    round hqn name hsfn hne5 hF (by rw [hcb]; exact hcap) (bss n) (by rw [hcb]; exact htotal n)
  unfold RoundAnswers
  rw [h1]; simp only
  rw [h2]; simp only
  rw [h5]; simp only
  rw [h6]
  refine ⟨trivial, trivial, ?_, trivial, rfl⟩
  intro data hd hm
  exact h4 data hd (by rw [hcb]; exact hm)

end Sdmmc.Lemmas.Cycle
