/-
C16 at the API level, part 9 — the statements `Props/C16Api.lean` delegates to:

* `Stores`: the info sector after `update_info_sector`, spelled out byte by byte; what mounting reads
  from such a sector (`stores_parse`, `mount_reads_stored`);
* `flush_stores`, `closeVolume_stores`: `flush_file` and `close_volume` in these terms;
* `session_truthful`: the whole session — data-plane calls, then flushes and closes, then
  `close_volume` — and the record the next mount reads.
-/
import Sdmmc.Lemmas.AcctClose

namespace Sdmmc.Lemmas.Acct
open Sdmmc.Model Sdmmc.Model.Fat Sdmmc.Spec Sdmmc.Spec.DataPlane
open Sdmmc.Lemmas.FBasic hiding NoFault Coherent
open Sdmmc.Lemmas.FatOps hiding BlocksOK Mirror HintOK
open Sdmmc.Lemmas.ReadRefines Sdmmc.Lemmas.WriteRefines

/-! ### The stored record, byte by byte -/

/-- Both fields of the record fit the 32-bit words of the info sector. -/
structure RecordFits (v : FatVolume) : Prop where
  count : ∀ n, v.freeClustersCount = some n → n < 4294967296
  hint : ∀ n, v.nextFreeCluster = some n → n < 4294967296

/-- `b'` is the info sector `b` with the record of `v` stored in it: the little-endian word at 488 is
the free count and the word at 492 the next-free hint — each only if known, an unknown field leaves
its word alone — and every other byte is the same. -/
structure Stores (v : FatVolume) (b b' : Block) : Prop where
  len : b'.length = 512
  others : ∀ i, i < 488 ∨ 496 ≤ i → b'.getD i 0 = b.getD i 0
  countSome : ∀ n, v.freeClustersCount = some n → readU32 b' 488 = n
  countNone : v.freeClustersCount = none → readU32 b' 488 = readU32 b 488
  hintSome : ∀ n, v.nextFreeCluster = some n → readU32 b' 492 = n
  hintNone : v.nextFreeCluster = none → readU32 b' 492 = readU32 b 492

theorem stores_patch (v : FatVolume) (b : Block) (hl : b.length = 512) (hfit : RecordFits v) : Stores v b (infoPatch v b) := by
  obtain ⟨hlen, hout, hcnt, hhint⟩ := infoPatch_facts v b hl
  exact ⟨hlen, hout, fun n hn => hcnt n hn (hfit.count n hn), infoPatch_count_none v b hl,
    fun n hn => hhint n hn (hfit.hint n hn), infoPatch_hint_none v b hl⟩

theorem stores_none (v : FatVolume) (b : Block) (hl : b.length = 512) (h1 : v.freeClustersCount = none)
    (h2 : v.nextFreeCluster = none) : Stores v b b :=
  ⟨hl, fun _ _ => rfl, (fun n hn => by rw [h1] at hn; cases hn), fun _ => rfl, (fun n hn => by rw [h2] at hn; cases hn), fun _ => rfl⟩

/-- **What mounting reads from a sector the record was stored in.** -/
theorem stores_parse {v : FatVolume} {b b' : Block} (hst : Stores v b b') (fc0 nf0 : Option Nat)
    (hp : Info.parse b = .ok (fc0, nf0)) :
    Info.parse b' = .ok (storedPair v.freeClustersCount v.nextFreeCluster fc0 nf0) := by
  rw [C15.infoParse_eq] at hp ⊢
  rw [Reopen.readU32_congr b' b 0 (fun i _ _ => hst.others i (by omega)),
    Reopen.readU32_congr b' b 484 (fun i _ _ => hst.others i (by omega)),
    Reopen.readU32_congr b' b 508 (fun i _ _ => hst.others i (by omega))]
  split at hp
  · cases hp
  · split at hp
    · cases hp
    · split at hp
      · cases hp
      · rename_i h1 h2 h3
        rw [if_neg h1, if_neg h2, if_neg h3]
        simp only [Res.ok.injEq, Prod.mk.injEq] at hp
        obtain ⟨e1, e2⟩ := hp
        unfold storedPair
        congr 2
        · cases hcv : v.freeClustersCount with
          | none => rw [hst.countNone hcv]; exact e1
          | some n => rw [hst.countSome n hcv]; rfl
        · cases hhv : v.nextFreeCluster with
          | none => rw [hst.hintNone hhv]; exact e2
          | some n => rw [hst.hintSome n hhv]; rfl

/-- Mounting a medium that agrees with a mountable FAT32 one on block 0 and the boot sector, and in
whose info sector the record of `v` was stored. -/
theorem mount_reads_stored (d d' : Disk) (idx : Nat) (w v : FatVolume)
    (hm : mountPure (d.get 0) idx d.get = .ok w) (h32 : w.fatType = .fat32)
    (h0 : d'.get 0 = d.get 0) (hboot : d'.get w.lbaStart = d.get w.lbaStart)
    (hst : Stores v (d.get w.infoLocation) (d'.get w.infoLocation)) :
    mountPure (d'.get 0) idx d'.get =
      .ok { w with freeClustersCount := (storedPair v.freeClustersCount v.nextFreeCluster w.freeClustersCount w.nextFreeCluster).1,
                   nextFreeCluster := (storedPair v.freeClustersCount v.nextFreeCluster w.freeClustersCount w.nextFreeCluster).2 } :=
  mount_of_info d d' idx w hm h32 h0 hboot _ _ (stores_parse hst _ _ (mount_info d idx w hm h32))

/-- The new info sector of `flush_info` / `closeVolume_spec` in terms of `Stores`. -/
theorem stores_of_if (v : FatVolume) (b : Block) (hl : b.length = 512) (hfit : RecordFits v) :
    (v.fatType = .fat32 → Stores v b
      (if v.fatType = .fat32 ∧ ¬ (v.freeClustersCount = none ∧ v.nextFreeCluster = none) then infoPatch v b else b)) ∧
    (v.fatType = .fat16 →
      (if v.fatType = .fat32 ∧ ¬ (v.freeClustersCount = none ∧ v.nextFreeCluster = none) then infoPatch v b else b) = b) := by
  constructor
  · intro h32
    by_cases hc : v.fatType = .fat32 ∧ ¬ (v.freeClustersCount = none ∧ v.nextFreeCluster = none)
    · rw [if_pos hc]; exact stores_patch v b hl hfit
    · rw [if_neg hc]
      have hboth : v.freeClustersCount = none ∧ v.nextFreeCluster = none := by
        apply Classical.byContradiction
        intro hn
        exact hc ⟨h32, hn⟩
      exact stores_none v b hl hboth.1 hboth.2
  · intro h16
    rw [if_neg (by rw [h16]; intro h; cases h.1)]

/-- **`flush_file` stores the record.** -/
theorem flush_stores (s : Mgr) (h i vi : Nat) (f : FileInfo) (v : VolInfo)
    (hs : MgrOK s) (hh : s.files.findIdx? (·.rawFile = h) = some i) (hf : s.files[i]? = some f)
    (hv : s.vols.findIdx? (·.rawVolume = f.rawVolume) = some vi) (hvi : s.vols[vi]? = some v)
    (hd : f.dirty = true) (hassert : ¬ (f.entry.size ≠ 0 ∧ f.entry.cluster = 0))
    (ho : f.entry.entryOffset + 32 ≤ 512) (hname : f.entry.name.length = 11)
    (hne : f.entry.entryBlock ≠ v.vol.infoLocation) (hfit : RecordFits v.vol) :
    ∃ s1, flushFile h s = (.ok (), s1) ∧ s1 = { s with dev := s1.dev, cache := s1.cache } ∧ MgrOK s1 ∧
      (∀ b, b ≠ f.entry.entryBlock → b ≠ v.vol.infoLocation → s1.dev.disk.get b = s.dev.disk.get b) ∧
      (v.vol.fatType = .fat32 → Stores v.vol (s.dev.disk.get v.vol.infoLocation) (s1.dev.disk.get v.vol.infoLocation)) ∧
      (v.vol.fatType = .fat16 → s1.dev.disk.get v.vol.infoLocation = s.dev.disk.get v.vol.infoLocation) := by
  obtain ⟨s1, h1, h2, h3, h4, h5⟩ := flush_info s h i vi f v hs hh hf hv hvi hd hassert ho hname hne
  obtain ⟨a, b⟩ := stores_of_if v.vol (s.dev.disk.get v.vol.infoLocation) (hs.2.2.1 _) hfit
  exact ⟨s1, h1, h2, h3, h4, fun h32 => by rw [h5]; exact a h32, fun h16 => by rw [h5]; exact b h16⟩

/-- **`close_volume` stores the record.** -/
theorem closeVolume_stores (s : Mgr) (vol vi : Nat) (v : VolInfo) (hs : MgrOK s)
    (hfiles : s.files.any (·.rawVolume = vol) = false) (hdirs : s.dirs.any (·.rawVolume = vol) = false)
    (hv : s.vols.findIdx? (·.rawVolume = vol) = some vi) (hvi : s.vols[vi]? = some v) (hfit : RecordFits v.vol) :
    ∃ s1, closeVolume vol s = (.ok (), s1) ∧
      s1 = { s with dev := s1.dev, cache := s1.cache, vols := swapRemove s.vols vi } ∧ MgrOK s1 ∧
      (∀ b, b ≠ v.vol.infoLocation → s1.dev.disk.get b = s.dev.disk.get b) ∧
      (v.vol.fatType = .fat32 → Stores v.vol (s.dev.disk.get v.vol.infoLocation) (s1.dev.disk.get v.vol.infoLocation)) ∧
      (v.vol.fatType = .fat16 → ∀ j, s1.dev.disk.get j = s.dev.disk.get j) := by
  obtain ⟨s1, h1, h2, h3, h4, h5⟩ := closeVolume_spec s vol vi v hs hfiles hdirs hv hvi
  obtain ⟨a, b⟩ := stores_of_if v.vol (s.dev.disk.get v.vol.infoLocation) (hs.2.2.1 _) hfit
  refine ⟨s1, h1, h2, h3, h4, fun h32 => by rw [h5]; exact a h32, fun h16 j => ?_⟩
  by_cases hj : j = v.vol.infoLocation
  · rw [hj, h5]; exact b h16
  · exact h4 j hj

/-! ### The whole session -/

theorem step_closeVolume (s : Mgr) (vol : Nat) (hunl : s.locked = false) :
    (step s (.closeVolume vol)).1 = (closeVolume vol (MHoare.resetLogs s)).2 ∧
    ((step s (.closeVolume vol)).2.result = .ok .unit → (closeVolume vol (MHoare.resetLogs s)).1 = .ok ()) := by
  rw [MHoare.step_unlocked s _ hunl]
  show ((closeVolume vol >>= fun _ => pure Payload.unit) (MHoare.resetLogs s)).2 = _ ∧
    (((closeVolume vol >>= fun _ => pure Payload.unit) (MHoare.resetLogs s)).1 = .ok .unit → _)
  rw [MHoare.bind_def]
  generalize closeVolume vol (MHoare.resetLogs s) = p
  obtain ⟨r, s1⟩ := p
  cases r with
  | ok a => exact ⟨rfl, fun _ => rfl⟩
  | err e => exact ⟨rfl, fun h => by cases h⟩
  | panic m => exact ⟨rfl, fun h => by cases h⟩
  | diverged => exact ⟨rfl, fun h => by cases h⟩

theorem run_append (s : Mgr) (a b : List Op) :
    run s (a ++ b) = ((run (run s a).1 b).1, (run s a).2 ++ (run (run s a).1 b).2) := by
  induction a generalizing s with
  | nil => rfl
  | cons op a ih => rw [List.cons_append, run_cons, run_cons, ih]; rfl

/-- **The session.**  `s` has one open volume — FAT32, its record `w` what mounting the medium
gives — with open files that satisfy the data-plane invariant and whose directory slots are in
directory blocks.  First any data-plane calls `ops1`, then any `flush_file` / `close_file` calls
`ops2`, then `close_volume`, answered `Ok`.  Then there is `k` — the number of clusters taken —
such that mounting the final medium gives `w` with the count `w.count - k` (unknown if it was
unknown) and a hint `nf`; the number of free FAT entries went down by exactly `k`; `nf` is the
mounted hint if `k = 0`, and the mounted hint, unknown or a data cluster of the volume in any case. -/
theorem session_truthful (s : Mgr) (chains rest : List (List Nat)) (idx : Nat) (ops1 ops2 : List Op)
    (hinv : DataInv s chains rest)
    (hm : mountPure (s.dev.disk.get 0) idx s.dev.disk.get = .ok (theVol s)) (h32 : (theVol s).fatType = .fat32)
    (hslots : ∀ f, f ∈ s.files → SlotOK (theVol s) (s.vols.headD default).rawVolume f)
    (h1 : ∀ op, op ∈ ops1 → IsDataOp op) (h2 : ∀ op, op ∈ ops2 → IsCloseOp op)
    (hok : (step (run (run s ops1).1 ops2).1 (.closeVolume (s.vols.headD default).rawVolume)).2.result = .ok .unit) :
    ∃ k nf,
      mountPure ((step (run (run s ops1).1 ops2).1 (.closeVolume (s.vols.headD default).rawVolume)).1.dev.disk.get 0) idx
          (step (run (run s ops1).1 ops2).1 (.closeVolume (s.vols.headD default).rawVolume)).1.dev.disk.get =
        .ok { theVol s with freeClustersCount := (theVol s).freeClustersCount.map (· - k), nextFreeCluster := nf } ∧
      freeCount (theVol s) (step (run (run s ops1).1 ops2).1 (.closeVolume (s.vols.headD default).rawVolume)).1.dev.disk + k =
        freeCount (theVol s) s.dev.disk ∧
      (Mirror (theVol s) s.dev.disk →
        Mirror (theVol s) (step (run (run s ops1).1 ops2).1 (.closeVolume (s.vols.headD default).rawVolume)).1.dev.disk) ∧
      (k = 0 → nf = (theVol s).nextFreeCluster) ∧ (nf = (theVol s).nextFreeCluster ∨ HintIn (theVol s) nf) ∧
      (step (run (run s ops1).1 ops2).1 (.closeVolume (s.vols.headD default).rawVolume)).1.vols = [] ∧
      ((∀ op, op ∈ ops1 → ¬ IsWrite op) → k = 0) := by
  have hgw := hinv.geom
  have hrec := mountedRec_of_mount s.dev.disk idx (theVol s) hm h32
  have ht0 := track_init s chains rest idx hinv hm h32 hslots
  obtain ⟨chains1, k, hinv1, ht1, hz⟩ := history_track hgw h32 ops1 s chains rest 0 hinv ht0 h1
  rw [Nat.zero_add] at ht1
  have hc1 := closing_of_dataInv hinv1 ht1
  have hc2 := close_history hgw h32 hrec ops2 _ k hc1 h2
  obtain ⟨hst, hres⟩ := step_closeVolume (run (run s ops1).1 ops2).1 (s.vols.headD default).rawVolume hc2.ok.2.2.2
  have hc3 := hc2.resetLogs
  have hok' := hres hok
  obtain ⟨nf, hmount, hk0, hnf, hfree, hmir⟩ := remount_after_close hgw h32 idx hm _ k hc3 hok'
  obtain ⟨hvols, _, _⟩ := closeVolume_stored hgw h32 hrec _ k hc3 hok'
  rw [hst]
  exact ⟨k, nf, hmount, hfree, hmir, hk0, hnf, hvols, hz⟩

end Sdmmc.Lemmas.Acct
