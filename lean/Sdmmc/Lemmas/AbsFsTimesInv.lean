/-
C02 over abstract histories, part 3: the two generic ways a call changes a well-formed abstract state —
tables only (`ainv_tables`), one slot put (`ainv_put`) — and how an open file's record carries over
(`fileAt_transfer`).
-/
import Sdmmc.Lemmas.AbsFsTimesCases

namespace Sdmmc.Lemmas.AbsFsTimes
open Sdmmc.Model Sdmmc.Spec.AbsFs Sdmmc.Lemmas.AbsFsTouch
open Sdmmc.Spec (ByteFile)

/-- What `FileAt` looks at in a record. -/
def fkeyA (f : OpenFile) : Nat × Nat × Nat × Meta × Bool := (f.volume, f.dir, f.idx, f.pm, f.dirty)

theorem fileAt_of_key {a a' : AbsFs} {f f' : OpenFile} (h : FileAt a f) (hk : fkeyA f' = fkeyA f)
    (hv : volOpen a' f.volume = true) (hids : f.dir ∈ a'.ids)
    (hs : (a'.slots f.dir)[f.idx]? = (a.slots f.dir)[f.idx]?) : FileAt a' f' := by
  unfold fkeyA at hk
  simp only [Prod.mk.injEq] at hk
  obtain ⟨k1, k2, k3, k4, k5⟩ := hk
  refine ⟨by rw [k1]; exact hv, by rw [k2]; exact hids, ?_⟩
  rw [k2, k3, k4, k5, hs]
  exact h.slot

theorem mem_of_map_eq {α β : Type} {k : α → β} {l l' : List α} (h : l'.map k = l.map k) {x' : α} (hx : x' ∈ l') :
    ∃ x, x ∈ l ∧ k x' = k x := by
  have : k x' ∈ l.map k := by rw [← h]; exact List.mem_map_of_mem hx
  obtain ⟨x, hx1, hx2⟩ := List.mem_map.1 this
  exact ⟨x, hx1, hx2.symm⟩

/-- **Tables only**: directories and directory numbers as before; the file records agree in everything
`FileAt` looks at; the volumes of the open files are still open; the open directories designate directories. -/
theorem ainv_tables {a a' : AbsFs} (hA : AInv a) (hs : a'.slots = a.slots) (hi : a'.ids = a.ids)
    (hl : a'.locked = a.locked) (hv : a'.vols.length ≤ 1) (hd : ∀ d, d ∈ a'.dirs → d.dir ∈ a.ids)
    (hk : a'.files.map fkeyA = a.files.map fkeyA) (hvo : ∀ f, f ∈ a.files → volOpen a' f.volume = true) : AInv a' := by
  have hpos : a'.files.map (fun f => (f.dir, f.idx)) = a.files.map (fun f => (f.dir, f.idx)) := by
    have := congrArg (List.map fun (p : Nat × Nat × Nat × Meta × Bool) => (p.2.1, p.2.2.1)) hk
    rw [List.map_map, List.map_map] at this
    exact this
  refine ⟨by rw [hl]; exact hA.unlocked, hv, by rw [hi]; exact hA.root, fun d hd' => by rw [hi]; exact hd d hd', ?_, ?_,
    by rw [hpos]; exact hA.distinct, ?_, ?_⟩
  · intro x hx j m t hsl
    rw [hi] at hx ⊢
    rw [hs] at hsl
    exact hA.targets x hx j m t hsl
  · intro f' hf'
    obtain ⟨f, hf, hkf⟩ := mem_of_map_eq hk hf'
    exact fileAt_of_key (hA.files f hf) hkf (hvo f hf) (by rw [hi]; exact (hA.files f hf).dir) (by rw [hs])
  · intro x hx j m bytes hsl
    rw [hi] at hx
    rw [hs] at hsl
    exact hA.rounded x hx j m bytes hsl
  · intro x hx j m bytes hsl hno
    rw [hi] at hx
    rw [hs] at hsl
    refine hA.sizes x hx j m bytes hsl ?_
    intro f hf hxy
    have : (f.dir, f.idx) ∈ a'.files.map (fun f => (f.dir, f.idx)) := by rw [hpos]; exact List.mem_map_of_mem hf
    obtain ⟨f', hf', he⟩ := List.mem_map.1 this
    injection he with e1 e2
    exact hno f' hf' ⟨by rw [e1]; exact hxy.1, by rw [e2]; exact hxy.2⟩

theorem volOpen_of_vols_eq {a a' : AbsFs} (h : a'.vols = a.vols) (v : Nat) : volOpen a' v = volOpen a v := by
  unfold volOpen; rw [h]

/-- **One slot put** (directory numbers, volumes as before): slot `(h, i)` of an existing directory becomes
`sl`, a sub-directory entry naming an existing directory or a file entry with a rounded creation time; the open
files are given (`hfiles`, `hdist`), every old record away from the slot still has a record at its place
(`hocc`), and if nobody has the new file open its stored size is the length of its bytes (`hsize`). -/
theorem ainv_put {a a' : AbsFs} (hA : AInv a) {h i : Nat} {sl : Slot} (hh : h ∈ a.ids)
    (hids : a'.ids = a.ids) (hl : a'.locked = a.locked) (hv : a'.vols = a.vols) (hd : ∀ d, d ∈ a'.dirs → d.dir ∈ a.ids)
    (hget : ∀ x j, (a'.slots x)[j]? = if (x, j) = (h, i) then some sl else (a.slots x)[j]?)
    (hdir : ∀ m t, sl = .dir m t → t ∈ a.ids) (hround : ∀ m b, sl = .file m b → Rounded m.ctime)
    (hfiles : ∀ f, f ∈ a'.files → FileAt a' f) (hdist : (a'.files.map fun f => (f.dir, f.idx)).Nodup)
    (hocc : ∀ f, f ∈ a.files → (f.dir, f.idx) ≠ (h, i) → ∃ f', f' ∈ a'.files ∧ f'.dir = f.dir ∧ f'.idx = f.idx)
    (hsize : ∀ m b, sl = .file m b → NotOpenAt a' h i → m.size = b.length) : AInv a' := by
  refine ⟨by rw [hl]; exact hA.unlocked, by rw [hv]; exact hA.oneVol, by rw [hids]; exact hA.root,
    fun d hd' => by rw [hids]; exact hd d hd', ?_, hfiles, hdist, ?_, ?_⟩
  · intro x hx j m t hsl
    rw [hids] at hx ⊢
    rw [hget] at hsl
    by_cases he : (x, j) = (h, i)
    · rw [if_pos he] at hsl
      exact hdir m t (Option.some.inj hsl)
    · rw [if_neg he] at hsl
      exact hA.targets x hx j m t hsl
  · intro x hx j m bytes hsl
    rw [hids] at hx
    rw [hget] at hsl
    by_cases he : (x, j) = (h, i)
    · rw [if_pos he] at hsl
      exact hround m bytes (Option.some.inj hsl)
    · rw [if_neg he] at hsl
      exact hA.rounded x hx j m bytes hsl
  · intro x hx j m bytes hsl hno
    rw [hids] at hx
    rw [hget] at hsl
    by_cases he : (x, j) = (h, i)
    · rw [if_pos he] at hsl
      injection he with e1 e2
      subst e1; subst e2
      exact hsize m bytes (Option.some.inj hsl) hno
    · rw [if_neg he] at hsl
      refine hA.sizes x hx j m bytes hsl ?_
      intro f hf hxy
      obtain ⟨f', hf', e1, e2⟩ := hocc f hf (by rw [hxy.1, hxy.2]; exact he)
      exact hno f' hf' ⟨by rw [e1]; exact hxy.1, by rw [e2]; exact hxy.2⟩

/-- An old record away from the put slot is still well placed. -/
theorem fileAt_away {a a' : AbsFs} {h i : Nat} {sl : Slot} {f : OpenFile} (hf : FileAt a f)
    (hids : a'.ids = a.ids) (hv : a'.vols = a.vols)
    (hget : ∀ x j, (a'.slots x)[j]? = if (x, j) = (h, i) then some sl else (a.slots x)[j]?)
    (hne : (f.dir, f.idx) ≠ (h, i)) : FileAt a' f :=
  fileAt_of_key hf rfl (by rw [volOpen_of_vols_eq hv]; exact hf.volume) (by rw [hids]; exact hf.dir)
    (by rw [hget, if_neg hne])

/-- A record sitting at a file slot is not at a slot that is deleted, empty or past the end. -/
theorem slot_ne_of_file {a : AbsFs} {f : OpenFile} (hf : FileAt a f) {h i : Nat}
    (hn : ∀ m b, (a.slots h)[i]? ≠ some (.file m b)) : (f.dir, f.idx) ≠ (h, i) := by
  intro e
  injection e with e1 e2
  obtain ⟨m, b, hs, _⟩ := hf.slot
  rw [e1, e2] at hs
  exact hn m b hs

end Sdmmc.Lemmas.AbsFsTimes
