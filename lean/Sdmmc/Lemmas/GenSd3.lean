/-
Tie of the SD-card driver to the source text, part 3: outcomes kept in variables (`attempt`), computations that never
panic, the address scaling, `read` and `write`.
-/
import Sdmmc.Lemmas.GenSd2
import Sdmmc.Lemmas.GenSdNp

namespace Sdmmc.Lemmas.GenSd
open Sdmmc.Model Sdmmc.Model.Sd Sdmmc.Gen Sdmmc.Lemmas.Sd

variable {σ : Type} (B : BusOps σ)

theorem np_readData (len : Nat) : NoPanic (readData B len) :=
  np_bind (np_waitToken B _) fun _ => np_ite _ (np_fail _) (np_bind (np_xferEv B _) fun _ => np_bind (np_xferEv B _) fun _ =>
    np_bind np_get fun _ => np_ite _ (np_ite _ (np_fail _) (np_pure _)) (np_pure _))
theorem np_readBlocks (n : Nat) : NoPanic (readBlocks B n) := by
  induction n with
  | zero => exact np_pure _
  | succ k ih => exact np_bind (np_readData B _) fun _ => np_bind ih fun _ => np_pure _
theorem np_writeData (token : Nat) (buf : Bytes) : NoPanic (writeData B token buf) :=
  np_bind (np_writeByte B _) fun _ => np_bind (np_xferEv B _) fun _ => np_bind np_get fun _ =>
    np_bind (np_xferEv B _) fun _ => np_bind (np_readByte B) fun _ => np_ite _ (np_fail _) (np_pure _)
theorem np_writeBlocks (l : List Bytes) : NoPanic (writeBlocks B l) := by
  induction l with
  | nil => exact np_pure _
  | cons b rest ih => exact np_bind (np_waitNotBusy B _) fun _ => np_bind (np_writeData B _ _) fun _ => ih

/-- the address scaling at the top of `read` / `write` -/
def genStart (idx : Nat) : S σ Nat :=
  S.get >>= fun st =>
    match st.cardType with
    | some CardType.SD1 => if idx * 512 < 4294967296 then pure (idx * 512) else S.panic "attempt to multiply with overflow"
    | some CardType.SD2 => if idx * 512 < 4294967296 then pure (idx * 512) else S.panic "attempt to multiply with overflow"
    | some CardType.SDHC => pure idx
    | none => S.fail SdErr.CardNotFound

theorem genStart_eq (idx : Nat) : (genStart idx : S σ Nat) = S.get >>= fun s => S.lift (startIdx s.cardType idx) := by
  unfold genStart
  congr 1
  funext st
  unfold startIdx
  cases h : st.cardType with
  | none => rfl
  | some ct =>
    cases ct
    · by_cases hh : idx * 512 < 4294967296
      · have : idx * 512 ≤ 4294967295 := by omega
        simp [hh, this]; rfl
      · have : ¬ idx * 512 ≤ 4294967295 := by omega
        simp [hh, this]; rfl
    · by_cases hh : idx * 512 < 4294967296
      · have : idx * 512 ≤ 4294967295 := by omega
        simp [hh, this]; rfl
      · have : ¬ idx * 512 ≤ 4294967295 := by omega
        simp [hh, this]; rfl
    · rfl

theorem set_take_drop {α : Type} (l : List α) (i t : Nat) (a : α) (bs : List α) (h : i < l.length) :
    (l.set i a).take (i + 1) ++ bs ++ (l.set i a).drop (i + 1 + t) = l.take i ++ (a :: bs) ++ l.drop (i + (t + 1)) := by
  have h1 : (l.set i a).take (i + 1) = l.take i ++ [a] := by
    rw [List.take_add_one, List.take_set_of_le (Nat.le_refl _)]
    simp [h]
  have h2 : (l.set i a).drop (i + 1 + t) = l.drop (i + (t + 1)) := by
    rw [List.drop_set_of_lt (by omega)]
    congr 1; omega
  rw [h1, h2]
  simp

theorem read_loop {β : Type} (todo : Nat) : ∀ (i : Nat) (blocks : List Bytes), i + todo ≤ blocks.length →
    (∀ j, i ≤ j → j < i + todo → (FunsSd.getBlock blocks j).length = 512) →
    ∀ (K : List Bytes → SRes Unit → S σ β), (∀ bl bl' (r : SRes Unit), SRes.isErr r = true → K bl r = K bl' r) →
    (FunsSd.read_loop1 B todo i blocks (.ok ()) >>= fun p => K p.1 p.2) =
      S.attempt (readBlocks B todo) >>= fun r => match r with
        | .ok bs => K (blocks.take i ++ bs ++ blocks.drop (i + todo)) (.ok ())
        | .err e => K blocks (.err e)
        | .panic p => K blocks (.panic p) := by
  induction todo with
  | zero =>
    intro i blocks _ _ K _
    simp only [FunsSd.read_loop1, readBlocks, attempt_pure, pure_bind, List.append_nil, Nat.add_zero, List.take_append_drop]
  | succ t ih =>
    intro i blocks hlen h512 K hK
    rw [FunsSd.read_loop1, readBlocks]
    have hb : (FunsSd.getBlock blocks i).length = 512 := h512 i (Nat.le_refl _) (by omega)
    rw [read_data_eq, hb, attempt_bind, bind_assoc, bind_assoc]
    congr 1
    funext r
    cases r with
    | err e =>
      simp only [SRes.outOr, SRes.void, SRes.isErr, if_true, pure_bind]
      exact hK _ _ _ rfl
    | panic p =>
      simp only [SRes.outOr, SRes.void, SRes.isErr, if_true, pure_bind]
      exact hK _ _ _ rfl
    | ok buf =>
      simp only [SRes.outOr, SRes.void, SRes.isErr, Bool.false_eq_true, if_false]
      have hset : (blocks.set i buf).length = blocks.length := List.length_set
      have := ih (i + 1) (blocks.set i buf) (by rw [hset]; omega) (fun j h1 h2 => by
        have : FunsSd.getBlock (blocks.set i buf) j = FunsSd.getBlock blocks j := by
          unfold FunsSd.getBlock
          rw [List.getD_eq_getElem?_getD, List.getD_eq_getElem?_getD, List.getElem?_set_ne (by omega)]
        rw [this]; exact h512 j (by omega) (by omega)) K hK
      rw [this, attempt_bind, bind_assoc]
      congr 1
      funext r2
      cases r2 with
      | err e => simp only [attempt_pure, pure_bind]; exact hK _ _ _ rfl
      | panic p => simp only [attempt_pure, pure_bind]; exact hK _ _ _ rfl
      | ok bs =>
        simp only [attempt_pure, pure_bind]
        rw [set_take_drop blocks i t buf bs (by omega)]


theorem start_case (idx : Nat) (h : idx * 512 < 4294967296) :
    (if idx * 512 ≤ 4294967295 then SRes.ok (idx * 512) else SRes.panic "attempt to multiply with overflow") = SRes.ok (idx * 512) := by
  rw [if_pos (by omega)]
theorem start_case' (idx : Nat) (h : ¬ idx * 512 < 4294967296) :
    (if idx * 512 ≤ 4294967295 then SRes.ok (idx * 512) else SRes.panic "attempt to multiply with overflow") =
      (SRes.panic "attempt to multiply with overflow" : SRes Nat) := by
  rw [if_neg (by omega)]

theorem read_eq (blocks : List Bytes) (idx : Nat) (h512 : ∀ b, b ∈ blocks → b.length = 512) :
    FunsSd.read B blocks idx = Model.Sd.read B blocks.length idx := by
  unfold FunsSd.read Model.Sd.read
  rw [bind_assoc]
  congr 1
  funext st
  congr 1
  · unfold startIdx
    split <;> rename_i hct <;> rw [hct] <;> simp only [] <;>
      first
        | rfl
        | (by_cases hh : idx * 512 < 4294967296
           · rw [if_pos hh, start_case idx hh]; rfl
           · rw [if_neg hh, start_case' idx hh]; rfl)
  · funext start
    simp only [card_command_eq]
    by_cases h1 : blocks.length = 1
    · rw [if_pos h1, if_pos h1]
      obtain ⟨b0, rfl⟩ : ∃ b0, blocks = [b0] := by
        match blocks, h1 with
        | [b0], _ => exact ⟨b0, rfl⟩
      have hb : (FunsSd.getBlock [b0] 0).length = 512 := h512 b0 (List.mem_singleton.2 rfl)
      simp only [List.length_singleton, Nat.lt_one_iff, if_true, read_data_eq, hb, bind_assoc, pure_bind, List.set_cons_zero, CMD17]
    · rw [if_neg h1, if_neg h1]
      simp only [bind_assoc]
      congr 1
      funext _x
      have hK : ∀ (bl bl' : List Bytes) (r : SRes Unit), SRes.isErr r = true →
          ((cardCommand B 12 0).attempt >>= fun stopped => S.lift r >>= fun _ => S.lift stopped >>= fun _ => (pure bl : S σ (List Bytes))) =
          ((cardCommand B 12 0).attempt >>= fun stopped => S.lift r >>= fun _ => S.lift stopped >>= fun _ => pure bl') := by
        intro bl bl' r hr
        cases r with
        | ok u => cases hr
        | err e => rfl
        | panic p => rfl
      have := read_loop B blocks.length 0 blocks (by omega)
        (fun j _ hj => by
          have hj' : j < blocks.length := by omega
          have : FunsSd.getBlock blocks j = blocks[j] := by
            unfold FunsSd.getBlock
            rw [List.getD_eq_getElem?_getD, List.getElem?_eq_getElem hj']; rfl
          rw [this]; exact h512 _ (List.getElem_mem hj'))
        (fun bl res => (cardCommand B 12 0).attempt >>= fun stopped => S.lift res >>= fun _ => S.lift stopped >>= fun _ => pure bl) hK
      skip
      refine Eq.trans ?_ (Eq.trans this ?_)
      · rfl
      · refine attempt_congr (np_readBlocks B _) (fun bs => ?_) (fun e => ?_)
        · simp only [List.take_zero, List.nil_append, Nat.zero_add, List.drop_length, List.append_nil]
          show _ = (cardCommand B CMD12 0).attempt >>= _
          congr 1
          funext stopped
          cases stopped <;> rfl
        · show _ = (cardCommand B CMD12 0).attempt >>= _
          congr 1


theorem write_loop (todo : Nat) : ∀ (i : Nat) (blocks : List Bytes), i + todo ≤ blocks.length →
    FunsSd.write_loop1 B blocks todo i (.ok ()) = S.attempt (writeBlocks B ((blocks.drop i).take todo)) := by
  induction todo with
  | zero =>
    intro i blocks _
    simp only [FunsSd.write_loop1, List.take_zero, writeBlocks, attempt_pure]
  | succ t ih =>
    intro i blocks hlen
    have hi : i < blocks.length := by omega
    have hd : (blocks.drop i).take (t + 1) = FunsSd.getBlock blocks i :: (blocks.drop (i + 1)).take t := by
      rw [List.drop_eq_getElem_cons hi, List.take_succ_cons]
      congr 1
      unfold FunsSd.getBlock
      rw [List.getD_eq_getElem?_getD, List.getElem?_eq_getElem hi]; rfl
    rw [FunsSd.write_loop1, hd, writeBlocks]
    simp only [wait_not_busy_eq, write_data_eq, FunsSd.Delay_new_write, FunsSd.Delay_new]
    conv => rhs; rw [← bind_assoc, attempt_bind]
    congr 1
    funext r
    cases r with
    | ok u =>
      simp only [SRes.isErr, Bool.false_eq_true, if_false]
      exact ih (i + 1) blocks (by omega)
    | err e => rfl
    | panic p => rfl

theorem write_eq (blocks : List Bytes) (idx : Nat) :
    FunsSd.write B blocks idx = Model.Sd.write B blocks idx := by
  unfold FunsSd.write Model.Sd.write
  rw [bind_assoc]
  congr 1
  funext st
  congr 1
  · unfold startIdx
    split <;> rename_i hct <;> rw [hct] <;> simp only [] <;>
      first
        | rfl
        | (by_cases hh : idx * 512 < 4294967296
           · rw [if_pos hh, start_case idx hh]; rfl
           · rw [if_neg hh, start_case' idx hh]; rfl)
  · funext start
    simp only [card_command_eq, card_acmd_eq, wait_not_busy_eq, write_data_eq, read_byte_eq, write_byte_eq,
      FunsSd.Delay_new_write, FunsSd.Delay_new]
    by_cases h1 : blocks.length = 1
    · obtain ⟨b0, rfl⟩ : ∃ b0, blocks = [b0] := by
        match blocks, h1 with
        | [b0], _ => exact ⟨b0, rfl⟩
      rw [if_pos h1]
      simp only [List.length_singleton, Nat.lt_one_iff, if_true, bind_assoc, pure_bind, ite_bind, fail_bind]
      rfl
    · rw [if_neg h1]
      have hm : (match blocks with
          | [b] => (do
              let _ ← cardCommand B CMD24 start
              writeData B DATA_START_BLOCK b
              waitNotBusy B DEFAULT_WRITE_RETRIES
              let r ← cardCommand B CMD13 0
              if r ≠ 0 then S.fail .WriteError else
              let r2 ← readByte B
              if r2 ≠ 0 then S.fail .WriteError else pure () : S σ Unit)
          | _ => (do
              let _ ← cardAcmd B ACMD23 (blocks.length % 4294967296)
              waitNotBusy B DEFAULT_WRITE_RETRIES
              let _ ← cardCommand B CMD25 start
              let r ← S.attempt (writeBlocks B blocks)
              match r with
              | .panic p => S.lift (.panic p)
              | _ => do
                let stopped ← S.attempt (do
                  waitNotBusy B DEFAULT_WRITE_RETRIES
                  writeByte B (UInt8.ofNat STOP_TRAN_TOKEN)
                  let _ ← readByte B
                  waitNotBusy B DEFAULT_WRITE_RETRIES)
                match r, stopped with
                | .ok _, .ok _ => pure ()
                | .ok _, .err e => S.fail e
                | .ok _, .panic p => S.lift (.panic p)
                | .err e, _ => S.fail e
                | .panic p, _ => S.lift (.panic p))) =
          (do
              let _ ← cardAcmd B ACMD23 (blocks.length % 4294967296)
              waitNotBusy B DEFAULT_WRITE_RETRIES
              let _ ← cardCommand B CMD25 start
              let r ← S.attempt (writeBlocks B blocks)
              match r with
              | .panic p => S.lift (.panic p)
              | _ => do
                let stopped ← S.attempt (do
                  waitNotBusy B DEFAULT_WRITE_RETRIES
                  writeByte B (UInt8.ofNat STOP_TRAN_TOKEN)
                  let _ ← readByte B
                  waitNotBusy B DEFAULT_WRITE_RETRIES)
                match r, stopped with
                | .ok _, .ok _ => pure ()
                | .ok _, .err e => S.fail e
                | .ok _, .panic p => S.lift (.panic p)
                | .err e, _ => S.fail e
                | .panic p, _ => S.lift (.panic p)) := by
        match blocks, h1 with
        | [], _ => rfl
        | [b], h => exact absurd rfl h
        | _ :: _ :: _, _ => rfl
      refine Eq.trans ?_ hm.symm
      rw [write_loop B blocks.length 0 blocks (by omega)]
      simp only [bind_assoc, pure_bind, List.drop_zero, List.take_length]
      congr 1; funext _x; congr 1; funext _y; congr 1; funext _z
      refine attempt_congr (np_writeBlocks B _) (fun u => ?_) (fun e => ?_)
      · congr 1
        funext stopped
        cases stopped <;> rfl
      · congr 1

end Sdmmc.Lemmas.GenSd
