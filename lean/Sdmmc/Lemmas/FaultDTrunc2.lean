/-
ROUTE (D) — THE TRUNCATING `open_file_in_dir` UNDER ANY SCHEDULE, part 2 (engine and manager level): every crash point of
the truncation of a closed file carries the invariant with more slack (`truncate_mxD`); the truncating branch of
`open_file_in_dir` under any schedule (`truncRun_faultedD`): whatever device call fails, the invariant holds again — with
the slack `truncSlack` when a device call failed inside it — and the entries of the files that were open keep their bytes.
-/
import Sdmmc.Lemmas.FaultDTrunc
import Sdmmc.Lemmas.FaultDApi
import Sdmmc.Lemmas.FaultDRawTrunc
import Sdmmc.Lemmas.FaultDMkdir
import Sdmmc.Lemmas.FaultXTrunc3

namespace Sdmmc.Lemmas.VolD
open Sdmmc.Model Sdmmc.Model.Fat Sdmmc.Spec.Volume Sdmmc.Lemmas.VolBase Sdmmc.Lemmas.VolTree
open Sdmmc.Spec hiding NoFault Coherent
open Sdmmc.Lemmas.VolDisk Sdmmc.Lemmas.VolMed Sdmmc.Lemmas.VolEng Sdmmc.Lemmas.VolX Sdmmc.Lemmas.VolApi
open Sdmmc.Lemmas.FBasic (NoFault Coherent)
open Sdmmc.Lemmas.CrashBase Sdmmc.Lemmas.CrashFat
open Sdmmc.Lemmas.Retry Sdmmc.Lemmas.FaultPre Sdmmc.Lemmas.FaultInv Sdmmc.Lemmas.FaultCoh Sdmmc.Lemmas.MHoare
open Sdmmc.Lemmas.Fault (Coh)
open Sdmmc.Lemmas.FaultX (writeEntryToDisk_len writeEntryToDisk_vk RawAllD)

section
variable {sk : Nat} {files : List FileInfo} {gh : Ghost} {X : List (List Nat)}

theorem mx_mono {sk sk' : Nat} {v : FatVolume} {dirs : List (Nat × Nat)} {d : Disk} (h : sk ≤ sk') (hm : MX sk v files dirs d) :
    MX sk' v files dirs d := fun hb => let ⟨G', X', hM⟩ := hm hb; ⟨G', X', hM.mono h⟩

/-- The chain of a closed file with data: a head in range, followed by a cluster in range or nothing. -/
theorem closed_nextD {v : FatVolume} {d : Disk} (hM : MedD sk v d files gh X) {h : Nat} (hh : h ∈ dirIds gh.dirs) {o : Slot}
    (ho : o ∈ objects h (dirSlots v d gh.G h)) (hod : isDirE o = false) (hfree : pendOf files o = none)
    (h0 : sCluster v.fatType o ≠ 0) :
    sCluster v.fatType o ≤ U32_MAX / 4 ∧ ∀ n, nextOf v d (sCluster v.fatType o) = .ok n → 2 ≤ n := by
  rcases closed_object_chain hM hh ho hod hfree with ⟨h1, _, _⟩ | ⟨_, _, hch, _⟩
  · exact absurd h1 h0
  · generalize chainOf gh.G (sCluster v.fatType o) = cs at hch
    refine ⟨ChainL.inRange_le _ hM.geom _ (ChainL.chain_inRange hch _ (ForestBase.chain_head_mem hch)), fun n hnx => ?_⟩
    cases hch with
    | last _ _ he => rw [he] at hnx; cases hnx
    | link _ n' _ _ hn' _ hrest =>
      rw [hn'] at hnx
      cases hnx
      exact (ChainL.chain_inRange hrest _ (ForestBase.chain_head_mem hrest)).1

/-- **`truncate_cluster_chain` on the chain of a closed file**, every crash point — with the slack of a chain of
length `n` or less. -/
theorem truncate_mxD {fs : FS} (hM : MedD sk fs.vol fs.dev.disk files gh X) (hn : NoFault fs) (hc : Coherent fs) {h : Nat}
    (hh : h ∈ dirIds gh.dirs) {o : Slot} (ho : o ∈ objects h (dirSlots fs.vol fs.dev.disk gh.G h)) (hod : isDirE o = false)
    (hfree : pendOf files o = none) {n : Nat} (hlen : (chainOf gh.G (sCluster fs.vol.fatType o)).length ≤ n + 1) :
    ∃ fs1, truncateClusterChain (sCluster fs.vol.fatType o) fs = (.ok (), fs1) ∧
      CrashAll (MX (truncSlack fs.vol sk n) fs.vol files gh.dirs) fs fs1 := by
  have hle0 := le_truncSlack fs.vol sk n
  rcases closed_object_chain hM hh ho hod hfree with ⟨h0, _, _⟩ | ⟨h0, _, hch, hmem⟩
  · refine ⟨fs, ?_, CrashAll.same rfl rfl (mx_mono hle0 (mx_of_med hM))⟩
    rw [h0]
    unfold truncateClusterChain
    rw [if_pos (by decide)]
    rfl
  · have hhd : (chainOf gh.G (sCluster fs.vol.fatType o)).head? = some (sCluster fs.vol.fatType o) := ChainL.chain_head? hch
    obtain ⟨tail, htail⟩ : ∃ tail, chainOf gh.G (sCluster fs.vol.fatType o) = sCluster fs.vol.fatType o :: tail := by
      cases hcs : chainOf gh.G (sCluster fs.vol.fatType o) with
      | nil => rw [hcs] at hhd; cases hhd
      | cons a l =>
        rw [hcs] at hhd
        simp only [List.head?_cons, Option.some.injEq] at hhd
        exact ⟨l, by rw [hhd]⟩
    rw [htail] at hmem hch hlen
    obtain ⟨A, B, hsplit⟩ := List.append_of_mem hmem
    obtain ⟨fs1, hrun, hcr⟩ := truncate_crash fs (sCluster fs.vol.fatType o) (sCluster fs.vol.fatType o) [] tail hn hc
      hM.blocksOK hM.geom (by simpa using hch)
    have hlt : tail.length ≤ n := by simp only [List.length_cons] at hlen; omega
    have hmono : truncSlack fs.vol sk tail.length ≤ truncSlack fs.vol sk n := by
      unfold truncSlack
      exact Nat.mul_le_mul_right _ (Nat.succ_le_succ hlt)
    refine ⟨fs1, hrun, hcr.mono fun d hd hb => ?_⟩
    rcases hd.1 with hv | ⟨j, _, hst⟩
    · exact mx_mono hle0 (mx_of_med (medX_view hM hb hv)) hb
    · exact mx_mono hmono (mx_of_med (gh := { vol := fs.vol, G := A ++ [sCluster fs.vol.fatType o] :: B, dirs := gh.dirs })
        (medD_trunc_stage hM hh ho hod hfree hsplit hb j hst)) hb

/-- `truncate_cluster_chain` on the chain of a closed file, every crash point: FAT blocks only — the entries of the open
files keep their bytes. -/
theorem truncate_rawD {fs : FS} (hM : MedD sk fs.vol fs.dev.disk files gh X) (hR : RawAllD fs.vol.fatType fs.dev.disk files)
    (hn : NoFault fs) (hc : Coherent fs) {h : Nat}
    (hh : h ∈ dirIds gh.dirs) {o : Slot} (ho : o ∈ objects h (dirSlots fs.vol fs.dev.disk gh.G h)) (hod : isDirE o = false)
    (hfree : pendOf files o = none) :
    CrashAll (fun d => RawAllD fs.vol.fatType d files) fs (truncateClusterChain (sCluster fs.vol.fatType o) fs).2 := by
  rcases closed_object_chain hM hh ho hod hfree with ⟨h0, _, _⟩ | ⟨h0, _, hch, hmem⟩
  · have : truncateClusterChain (sCluster fs.vol.fatType o) fs = (.ok (), fs) := by
      rw [h0]
      unfold truncateClusterChain
      rw [if_pos (by decide)]
      rfl
    rw [this]
    exact CrashAll.same rfl rfl hR
  · have hhd : (chainOf gh.G (sCluster fs.vol.fatType o)).head? = some (sCluster fs.vol.fatType o) := ChainL.chain_head? hch
    obtain ⟨tail, htail⟩ : ∃ tail, chainOf gh.G (sCluster fs.vol.fatType o) = sCluster fs.vol.fatType o :: tail := by
      cases hcs : chainOf gh.G (sCluster fs.vol.fatType o) with
      | nil => rw [hcs] at hhd; cases hhd
      | cons a l =>
        rw [hcs] at hhd
        simp only [List.head?_cons, Option.some.injEq] at hhd
        exact ⟨l, by rw [hhd]⟩
    rw [htail] at hch
    obtain ⟨fs1, hrun, hcr⟩ := truncate_crash fs (sCluster fs.vol.fatType o) (sCluster fs.vol.fatType o) [] tail hn hc
      hM.blocksOK hM.geom (by simpa using hch)
    rw [hrun]
    refine hcr.mono fun d hd => ?_
    rcases hd.1 with hv | ⟨j, _, hst⟩
    · exact rawAll_view hM hR hv
    · refine rawAll_dirBlocks hM hR fun x hx sl hs => hst.within.nonFat _ ?_ id
      rcases dirSlot_not_fat hM hx hs with e | e <;> rw [e] <;> decide

end

variable {sk : Nat} {X : List (List Nat)}

/-- **The truncating branch of `open_file_in_dir` under any schedule** (route D): the invariant holds again, with at most
the slack `sk'` a cut chain needs, and the entries of the files that were open keep their bytes. -/
theorem truncRun_faultedD {s : Mgr} {gh : Ghost} (hI : VolInvD sk X s gh) {vi : VolInfo} (hvs : s.vols = [vi]) (hvol : vi.vol = gh.vol)
    {d : DirInfo} (hdv : ValidDir gh.dirs d.cluster) (hraw : vi.rawVolume = d.rawVolume) {sfn : Bytes} {e : DirEntry} {o : Slot}
    (hF : Found s gh d sfn e o) (hdir : Attr.isDirectory e.attributes = false) (hopen : fileIsOpen s d.rawVolume e = false)
    (id : Nat) (now : Timestamp) (L : List Nat) :
    ∃ sk', sk ≤ sk' ∧ InvF sk' gh (Modes.truncRun d 0 e id now (withFaults L s)).2 ∧
      (RawAllD gh.vol.fatType s.dev.disk s.files →
        RawAllD gh.vol.fatType (Modes.truncRun d 0 e id now (withFaults L s)).2.dev.disk s.files) := by
  obtain ⟨ho, hod, hfree⟩ := Found_object hI hvs hdv hraw hF hdir hopen
  obtain ⟨hnm, hat, hsz, hb, hoo, hnd⟩ := hF.fields
  obtain ⟨_, hcl⟩ := hnd hdir
  obtain ⟨hn, hc, hM⟩ := volInv_fs hI
  obtain ⟨hid, _⟩ := validDir_id hM hdv
  have hcl' : e.cluster = sCluster (fsOf s gh).vol.fatType o := hcl
  -- the slack
  refine ⟨truncSlack gh.vol sk (chainOf gh.G (sCluster gh.vol.fatType o)).length, le_truncSlack _ _ _, ?_⟩
  generalize hskdef : truncSlack gh.vol sk (chainOf gh.G (sCluster gh.vol.fatType o)).length = sk'
  have hle : sk ≤ sk' := by rw [← hskdef]; exact le_truncSlack _ _ _
  have hI' : VolInvD sk' X s gh := hI.mono hle
  obtain ⟨_, _, hM'⟩ := volInv_fs hI'
  -- the fault-free run
  obtain ⟨fs1, fs2, hr1, hr2, hn2, hc2, hsg2, gh2, hgv2, hgd2, hM2, _⟩ :=
    truncate_med hM hn hc hid ho hod hfree (Modes.truncatedFile d id e now).entry hb hoo hnm hat hcl rfl
  have hclE : (Modes.truncatedFile d id e now).entry.cluster = e.cluster := rfl
  rw [hclE] at hr1
  obtain ⟨fs1', hr1', hcr1⟩ := truncate_mxD (n := (chainOf gh.G (sCluster gh.vol.fatType o)).length) hM hn hc hid ho hod hfree
    (Nat.le_succ _)
  rw [← hcl'] at hr1'
  have e1 : fs1 = fs1' := by
    rw [hr1] at hr1'; exact congrArg Prod.snd hr1'
  subst e1
  have hcr1' : CrashAll (MX sk' (fsOf s gh).vol s.files gh.dirs) (fsOf s gh) (truncateClusterChain e.cluster (fsOf s gh)).2 := by
    rw [hr1, ← hskdef]; exact hcr1
  obtain ⟨fs1b, _, hr1b, hn1, hc1, hb1, hsgA, hh1, _⟩ := truncate_fat hM hn hc (c := sCluster (fsOf s gh).vol.fatType o) (by
    rcases closed_object_chain hM hid ho hod hfree with ⟨h1, _, _⟩ | ⟨_, _, h3, h4⟩
    · exact .inl h1
    · exact .inr ⟨h4, h3⟩)
  have e1b : fs1b = fs1 := by
    rw [← hcl', hr1] at hr1b; exact (congrArg Prod.snd hr1b).symm
  subst e1b
  -- stage 1 under the schedule
  have hhint1 : HintOK (truncateClusterChain e.cluster (setFaults L (fsOf s gh))).2.vol := by
    by_cases h0 : sCluster (fsOf s gh).vol.fatType o = 0
    · rw [hcl', h0]
      unfold truncateClusterChain
      rw [if_pos (by decide)]
      exact hM.hint
    · obtain ⟨hle', hnext⟩ := closed_nextD hM hid ho hod hfree h0
      rw [hcl']
      exact FaultX.truncateClusterChain_hint _ (setFaults L (fsOf s gh)) hc hle' hM.hint hnext
  obtain ⟨hcoh1, hsg1, G1, X1, hMW1⟩ := eng_faulted hM' hn hc L (truncateClusterChain_pre e.cluster)
    (FaultX.truncateClusterChain_len e.cluster) (truncateClusterChain_geo e.cluster) (truncateClusterChain_coh e.cluster) hhint1 hcr1'
  obtain ⟨hP1, _, _, hdich1⟩ := withVol_faulted (truncateClusterChain_pre e.cluster) (Fault.truncateClusterChain_inv e.cluster)
    hn hvs hvol L
  have hw1 := withVol_one (Fat.truncateClusterChain e.cluster) (s := withFaults L s) (gh := gh) hvs hvol
  rw [fsOf_withFaults] at hw1
  have hw1c := withVol_one (Fat.truncateClusterChain e.cluster) (s := s) (gh := gh) hvs hvol
  rw [hr1] at hw1c
  have hfail1 : ∀ {r1 : Res Unit} {t1 : Mgr}, withVol 0 (Fat.truncateClusterChain e.cluster) (withFaults L s) = (r1, t1) →
      InvF sk' gh t1 ∧ (RawAllD gh.vol.fatType s.dev.disk s.files → RawAllD gh.vol.fatType t1.dev.disk s.files) := by
    intro r1 t1 hrun0
    have hrun := hrun0
    rw [hw1] at hrun
    have ht1 : t1 = afterVol (withFaults L s) vi (truncateClusterChain e.cluster (setFaults L (fsOf s gh))).2 :=
      (congrArg Prod.snd hrun).symm
    refine ⟨?_, fun hR => ?_⟩
    · rw [ht1]
      exact ⟨_, X1, volInvX_afterVol_F hI' hvs L hcoh1 hMW1 (fun _ h => h), hsg1⟩
    · have := hP1 (fun d => RawAllD gh.vol.fatType d s.files) (by rw [hcl']; exact truncate_rawD hM hR hn hc hid ho hod hfree)
      rw [hrun0] at this
      exact this
  unfold Modes.truncRun
  rcases hrun1 : withVol 0 (Fat.truncateClusterChain e.cluster) (withFaults L s) with ⟨r1, t1⟩
  have hF1 := hfail1 hrun1
  cases r1 with
  | err e' => rw [bind_err (bind_err hrun1)]; exact hF1
  | panic m => rw [bind_panic (bind_panic hrun1)]; exact hF1
  | diverged => rw [bind_diverged (bind_diverged hrun1)]; exact hF1
  | ok u =>
    have ht1 : t1 = withFaults L (afterVol s vi fs1b) := by
      rcases hdich1 with hq | hq
      · rw [hrun1, hw1c] at hq
        exact (Prod.mk.inj hq).2
      · rw [hrun1] at hq; cases hq
    subst ht1
    -- the medium after the (fault-free) truncation carries the invariant with the slack
    have hfin := hcr1'.final
    rw [hr1] at hfin
    obtain ⟨G1', X1', hM1'⟩ := hfin hb1
    have hM1 : MedD sk' fs1b.vol fs1b.dev.disk s.files { vol := fs1b.vol, G := G1', dirs := gh.dirs } X1' := by
      have := med_congr hM1' hsgA hh1 hb1 (fun _ _ => rfl) (fun _ _ => rfl)
      exact ⟨this.blocksOK, this.geom, this.hint, this.owns, this.tree, this.fileOK⟩
    have h2 : VolInvD sk' X1' (afterVol s vi fs1b) { vol := fs1b.vol, G := G1', dirs := gh.dirs } := by
      refine ⟨hn1, hc1, hI.unlocked, hI.maxVols, .inr ⟨_, rfl, rfl⟩, hM1, fun f hf => ?_, fun di hdi => hI.openDirs di hdi⟩
      obtain ⟨vi', hv', he'⟩ := hI.fileVols f hf
      rw [hvs] at hv'
      cases hv'
      exact ⟨_, rfl, he'⟩
    obtain ⟨fs2b, hr2b, _, hv2, _, _⟩ := writeEntryToDisk_exact fs1b (Modes.truncatedFile d id e now).entry hn1 hc1
    have e2b : fs2b = fs2 := by
      rw [hr2] at hr2b; exact (congrArg Prod.snd hr2b).symm
    subst e2b
    -- stage 2: the entry
    have hvs2 : (afterVol s vi fs1b).vols = [{ vi with vol := fs1b.vol }] := rfl
    have hol : o.2.1 + 32 ≤ 512 ∧ (sName o).length = 11 := by
      obtain ⟨pre, post, hsp, _, _, _, _⟩ := object_split hM hid ho
      have hmem : o ∈ dirSlots (fsOf s gh).vol (fsOf s gh).dev.disk gh.G (dirIdOf d.cluster) := by rw [hsp]; simp
      have hlen := mem_dirSlots_length hM.blocksOK hmem
      obtain ⟨i, hi, hoi⟩ := mem_dirSlots_offset hmem
      refine ⟨by omega, ?_⟩
      unfold sName; rw [List.length_take, hlen]; rfl
    have hoff32 : (Modes.truncatedFile d id e now).entry.entryOffset + 32 ≤ 512 := by
      show e.entryOffset + 32 ≤ 512; rw [hoo]; exact hol.1
    have hnam11 : (Modes.truncatedFile d id e now).entry.name.length = 11 := by
      show e.name.length = 11; rw [hnm]; exact hol.2
    obtain ⟨fs2', hr2', _, _, _, _, ⟨p, hw2, hd2⟩, _⟩ := DirEntryIO.writeEntry_frame fs1b (Modes.truncatedFile d id e now).entry
      hn1 hc1 hb1 hoff32 hnam11
    have e2 : fs2' = fs2b := by rw [hr2] at hr2'; exact (congrArg Prod.snd hr2').symm
    subst e2
    have hcr2 : CrashAll (MX sk' fs1b.vol s.files gh.dirs) fs1b
        (writeEntryToDisk (Modes.truncatedFile d id e now).entry fs1b).2 := by
      rw [hr2]
      refine crash_le_one (.inr ⟨_, _, hw2, hd2⟩)
        (mx_of_med (gh := { vol := fs1b.vol, G := G1', dirs := gh.dirs }) hM1) ?_
      have := mx_mono hle (mx_of_med hM2)
      rw [hgd2, hv2] at this
      exact this
    have hhint2 : HintOK (writeEntryToDisk (Modes.truncatedFile d id e now).entry (setFaults L fs1b)).2.vol :=
      writeEntryToDisk_vk (K := HintOK) (Modes.truncatedFile d id e now).entry (setFaults L fs1b) hh1
    have hfs2 : fsOf (afterVol s vi fs1b) { vol := fs1b.vol, G := G1', dirs := gh.dirs } = fs1b := rfl
    obtain ⟨hinv2, _, _, hdich2⟩ := withVol_F h2 hvs2 rfl L (writeEntryToDisk_pre (Modes.truncatedFile d id e now).entry)
      (Fault.writeEntryToDisk_inv _) (writeEntryToDisk_len _ hoff32 hnam11) (writeEntryToDisk_geo _) (writeEntryToDisk_coh _)
      (by rw [hfs2]; exact hhint2) (dirs' := gh.dirs) (fun _ h => h) (by rw [hfs2]; exact hcr2)
    obtain ⟨hP2, _, _, _⟩ := withVol_faulted (gh := { vol := fs1b.vol, G := G1', dirs := gh.dirs })
      (writeEntryToDisk_pre (Modes.truncatedFile d id e now).entry) (Fault.writeEntryToDisk_inv _)
      (s0 := afterVol s vi fs1b) hn1 hvs2 rfl L
    have hw2c := withVol_one (gh := { vol := fs1b.vol, G := G1', dirs := gh.dirs })
      (Fat.writeEntryToDisk (Modes.truncatedFile d id e now).entry) (s := afterVol s vi fs1b) hvs2 rfl
    rw [hfs2, hr2] at hw2c
    have hinv2' : InvF sk' gh (withVol 0 (Fat.writeEntryToDisk (Modes.truncatedFile d id e now).entry)
        (withFaults L (afterVol s vi fs1b))).2 := hinv2.sameGeom hsgA
    have hraw2 : RawAllD gh.vol.fatType s.dev.disk s.files → RawAllD gh.vol.fatType
        (withVol 0 (Fat.writeEntryToDisk (Modes.truncatedFile d id e now).entry) (withFaults L (afterVol s vi fs1b))).2.dev.disk s.files := by
      intro hR
      have hcrR := truncate_rawD hM hR hn hc hid ho hod hfree
      rw [← hcl', hr1] at hcrR
      have hR1 : RawAllD gh.vol.fatType fs1b.dev.disk s.files := hcrR.final
      obtain ⟨fs1c, fs2c, hr1c, hr2c, hR2⟩ :=
        truncEntry_raw hM hR hn hc hid ho hod hfree (Modes.truncatedFile d id e now).entry hb hoo hnm hcl
      have ec1 : fs1c = fs1b := by
        have : truncateClusterChain e.cluster (fsOf s gh) = (.ok (), fs1c) := hr1c
        rw [hr1] at this; exact (congrArg Prod.snd this).symm
      subst ec1
      have ec2 : fs2c = fs2' := by rw [hr2] at hr2c; exact (congrArg Prod.snd hr2c).symm
      subst ec2
      exact hP2 (fun d => RawAllD gh.vol.fatType d s.files) (by
        show CrashAll _ fs1c (writeEntryToDisk (Modes.truncatedFile d id e now).entry fs1c).2
        rw [hr2]
        exact crash_le_one (.inr ⟨_, _, hw2, hd2⟩) hR1 hR2)
    rcases hrun2 : withVol 0 (Fat.writeEntryToDisk (Modes.truncatedFile d id e now).entry) (withFaults L (afterVol s vi fs1b))
      with ⟨r2, t2⟩
    rw [hrun2] at hinv2' hraw2 hdich2
    simp only at hinv2' hraw2
    cases r2 with
    | err e' => rw [bind_err (by rw [bind_ok hrun1]; exact bind_err hrun2)]; exact ⟨hinv2', hraw2⟩
    | panic m => rw [bind_panic (by rw [bind_ok hrun1]; exact bind_panic hrun2)]; exact ⟨hinv2', hraw2⟩
    | diverged => rw [bind_diverged (by rw [bind_ok hrun1]; exact bind_diverged hrun2)]; exact ⟨hinv2', hraw2⟩
    | ok u2 =>
      have ht2 : t2 = withFaults L (afterVol (afterVol s vi fs1b) { vi with vol := fs1b.vol } fs2') := by
        rcases hdich2 with hq | hq
        · rw [hw2c] at hq
          exact (Prod.mk.inj hq).2
        · cases hq
      subst ht2
      have hinner : ((do
          withVol 0 (Fat.truncateClusterChain e.cluster)
          withVol 0 (Fat.writeEntryToDisk (Modes.truncatedFile d id e now).entry)
          pure (Modes.truncatedFile d id e now) : M FileInfo)) (withFaults L s) =
          (.ok (Modes.truncatedFile d id e now),
            withFaults L (afterVol (afterVol s vi fs1b) { vi with vol := fs1b.vol } fs2')) := by
        rw [bind_ok hrun1, bind_ok hrun2]; rfl
      have hinner0 : ((do
          withVol 0 (Fat.truncateClusterChain e.cluster)
          withVol 0 (Fat.writeEntryToDisk (Modes.truncatedFile d id e now).entry)
          pure (Modes.truncatedFile d id e now) : M FileInfo)) s =
          (.ok (Modes.truncatedFile d id e now), afterVol (afterVol s vi fs1b) { vi with vol := fs1b.vol } fs2') := by
        rw [bind_ok hw1c, bind_ok hw2c]; rfl
      obtain ⟨gh', hIe, hsg'⟩ := truncRun_inv hI hvs hvol hdv hraw hF hdir hopen id now
      have e0 : Modes.truncRun d 0 e id now s = (.ok id,
          { afterVol (afterVol s vi fs1b) { vi with vol := fs1b.vol } fs2' with
            files := (afterVol (afterVol s vi fs1b) { vi with vol := fs1b.vol } fs2').files ++ [Modes.truncatedFile d id e now] }) := by
        unfold Modes.truncRun
        rw [bind_ok hinner0, modify_bind]; rfl
      have e1 : Modes.truncRun d 0 e id now (withFaults L s) = (.ok id, withFaults L
          { afterVol (afterVol s vi fs1b) { vi with vol := fs1b.vol } fs2' with
            files := (afterVol (afterVol s vi fs1b) { vi with vol := fs1b.vol } fs2').files ++ [Modes.truncatedFile d id e now] }) := by
        unfold Modes.truncRun
        rw [bind_ok hinner, modify_bind]; rfl
      rw [e0] at hIe
      have e1' : (do
          let file ← (do
            withVol 0 (Fat.truncateClusterChain e.cluster)
            withVol 0 (Fat.writeEntryToDisk (Modes.truncatedFile d id e now).entry)
            pure (Modes.truncatedFile d id e now) : M FileInfo)
          M.modify fun s => { s with files := s.files ++ [file] }
          pure id : M Nat) (withFaults L s) = Modes.truncRun d 0 e id now (withFaults L s) := rfl
      rw [e1', e1]
      refine ⟨⟨gh', X, ?_, hsg'⟩, fun hR => hraw2 hR⟩
      rw [mclr_withFaults hIe.noFault L]
      exact hIe.mono hle

end Sdmmc.Lemmas.VolD
