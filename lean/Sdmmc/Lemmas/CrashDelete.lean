/-
The device writes of the body of `delete_file_in_dir` (F level): `delete_directory_entry(dir, name)`
followed by `free_cluster_chain(first cluster)`.

* `deleteDirectoryEntry_ok`: a successful `delete_directory_entry` issues exactly ONE device write: the
  first byte of a slot that matches the name is set to `0xE5` (whatever the directory looks like — no
  hypothesis on the directory's chain is needed for this);
* `deleteBody_crash`: so at every crash point of the body either nothing has been written at all, or the
  slot is already marked deleted — and only then do FAT entries change, and only those of the file's own
  chain (the stages of `free_cluster_chain`).  No crash point shows a live directory entry whose chain
  has a free cluster.
-/
import Sdmmc.Lemmas.CrashHist
import Sdmmc.Lemmas.DirSlots

namespace Sdmmc.Lemmas.CrashDelete
open Sdmmc.Model Sdmmc.Model.Fat Sdmmc.Spec
open Sdmmc.Lemmas.FBasic hiding NoFault Coherent
open Sdmmc.Lemmas.FatOps hiding BlocksOK Mirror HintOK
open Sdmmc.Lemmas.ChainL Sdmmc.Lemmas.ForestBase Sdmmc.Lemmas.ForestTrunc
open Sdmmc.Lemmas.CrashBase Sdmmc.Lemmas.CrashFat

/-- `s'` is `s` after one device write: byte `off` of block `b` — the first byte of the first slot of
that block matching `name` — set to `0xE5`. -/
structure MarkedDeleted (name : Bytes) (s s' : FS) (b off : Nat) : Prop where
  slot : deleteInSlots name (slotsOf (s.dev.disk.get b)) = some off
  disk : s'.dev.disk = s.dev.disk.set b ((s.dev.disk.get b).set off (UInt8.ofNat 0xE5))
  wlog : s'.dev.wlog = (b, (s.dev.disk.get b).set off (UInt8.ofNat 0xE5)) :: s.dev.wlog
  vol : s'.vol = s.vol
  noFault : NoFault s'
  coherent : Coherent s'

theorem MarkedDeleted.of_ro {name : Bytes} {s s2 s' : FS} {b off : Nat} (ro : RO s s2) (h : MarkedDeleted name s2 s' b off) :
    MarkedDeleted name s s' b off :=
  ⟨by rw [← ro.disk]; exact h.slot, by rw [← ro.disk]; exact h.disk, by rw [← ro.disk, ← ro.wlog]; exact h.wlog,
   h.vol.trans ro.vol, h.noFault, h.coherent⟩

/-- Blocks behind the FATs are not FAT blocks. -/
theorem not_fat_of_ge (v : FatVolume) (i : Nat) (h : v.lbaStart + fatsEnd v ≤ i) : regionOf v i ≠ .fat := by
  unfold regionOf
  repeat' split
  all_goals first | omega | (intro e; cases e)

/-- Directory walks never start in front of the end of the FATs. -/
theorem clusterToBlock_ge (v : FatVolume) (hg : WFGeom v) (n : Nat) : v.lbaStart + fatsEnd v ≤ clusterToBlock v n := by
  obtain ⟨_, h2, _, _, h5⟩ := FatLens.geom_facts v hg
  unfold clusterToBlock
  cases hft : v.fatType with
  | fat16 =>
    have := h5 hft
    simp only
    split <;> omega
  | fat32 => simp only; omega

theorem dirWalkStart_ge (v : FatVolume) (hg : WFGeom v) (dir : Nat) : v.lbaStart + fatsEnd v ≤ (dirWalkStart v dir).firstBlock := by
  obtain ⟨_, h2, _, _, h5⟩ := FatLens.geom_facts v hg
  unfold dirWalkStart
  cases hft : v.fatType with
  | fat16 =>
    have := h5 hft
    simp only
    split
    · show _ ≤ v.lbaStart + v.firstRootDirBlock; omega
    · exact clusterToBlock_ge v hg dir
  | fat32 => exact clusterToBlock_ge v hg dir

theorem deleteWalk_ok (name : Bytes) : ∀ (fuel : Nat) (w : DirWalk) (s s' : FS), NoFault s → Coherent s → WFGeom s.vol →
    s.vol.lbaStart + fatsEnd s.vol ≤ w.firstBlock →
    deleteWalk name fuel w s = (.ok (), s') → ∃ b off, MarkedDeleted name s s' b off ∧ regionOf s.vol b ≠ .fat := by
  intro fuel
  induction fuel with
  | zero => intro w s s' _ _ _ _ h; cases h
  | succ fuel ih =>
    intro w s s' hn hc hg hw h
    obtain ⟨r, s1, hdb, hn1, hc1, hv1, hcase⟩ := DirSlots.deleteBlocks_spec name w.dirSize w.firstBlock s hn hc
    unfold deleteWalk at h
    simp only [bind_apply, getVol_apply, hdb] at h
    rcases hcase with ⟨hr, hd1, hw1⟩ | ⟨b, off, hbl, _, hslot, hr, hd1, hw1⟩
    · subst hr
      have ro1 : RO s s1 := ⟨hd1, hw1, hv1, by rw [hn1, hn], fun _ => hc1⟩
      simp only [Bool.false_eq_true, if_false] at h
      by_cases hfr : w.fixedRoot = true
      · rw [if_pos hfr] at h; cases h
      · rw [if_neg hfr] at h
        have ro2 := nextCluster_readOnly w.cluster s1
        simp only [bind_apply, attempt_apply] at h
        generalize hnc : nextCluster w.cluster s1 = p at h ro2
        obtain ⟨r2, s2⟩ := p
        have ro2' : RO s1 s2 := ro2
        cases r2 with
        | ok n =>
          simp only at h
          have hv2 : s2.vol = s.vol := (ro1.trans ro2').vol
          obtain ⟨b, off, hm, hreg⟩ := ih _ s2 s' (ro2'.noFault hn1) (ro2'.coherent hc1) (by rw [hv2]; exact hg)
            (by rw [hv2]; exact clusterToBlock_ge s.vol hg n) h
          exact ⟨b, off, MarkedDeleted.of_ro (ro1.trans ro2') hm, by rw [← hv2]; exact hreg⟩
        | err e =>
          cases e <;> cases h
        | panic m => cases h
        | diverged => cases h
    · subst hr
      simp only [if_true] at h
      have e : s1 = s' := congrArg Prod.snd h
      subst e
      exact ⟨b, off, ⟨hslot, hd1, hw1, hv1, hn1, hc1⟩, not_fat_of_ge s.vol b (by omega)⟩

/-- A successful `delete_directory_entry` issues exactly one device write: the `0xE5` mark. -/
theorem deleteDirectoryEntry_ok (dir : Nat) (name : Bytes) (s s' : FS) (hn : NoFault s) (hc : Coherent s) (hg : WFGeom s.vol)
    (h : deleteDirectoryEntry dir name s = (.ok (), s')) :
    ∃ b off, MarkedDeleted name s s' b off ∧ regionOf s.vol b ≠ .fat := by
  unfold deleteDirectoryEntry at h
  rw [bind_apply, getVol_apply] at h
  exact deleteWalk_ok name _ _ s s' hn hc hg (dirWalkStart_ge s.vol hg dir) h

/-- The body of `delete_file_in_dir`. -/
def deleteBody (dir : Nat) (name : Bytes) (c : Nat) : F Unit := do
  deleteDirectoryEntry dir name
  freeClusterChain c

theorem blocksOK_mark {d : Disk} (hb : BlocksOK d) (b off : Nat) (x : UInt8) : BlocksOK (d.set b ((d.get b).set off x)) :=
  blocksOK_set _ _ _ hb (by rw [List.length_set]; exact hb b)

/-- Every crash point of the body of `delete_file_in_dir` on a file whose chain is `c :: tail`, when the
entry is found (slot `off` of block `b`, which lies behind the FATs): the medium is as it was, or the
slot carries the deleted mark and the FAT is in one of the stages of `free_cluster_chain` — only entries
of the file's own chain differ, and apart from block `b` no block outside the FAT differs. -/
theorem deleteBody_crash (dir : Nat) (name : Bytes) (c : Nat) (tail : List Nat) (s s1 : FS) (hn : NoFault s) (hc : Coherent s)
    (hb : BlocksOK s.dev.disk) (hg : WFGeom s.vol) (hch : Chain s.vol s.dev.disk c (c :: tail))
    (hdel : deleteDirectoryEntry dir name s = (.ok (), s1)) :
    ∃ b off s', MarkedDeleted name s s1 b off ∧ regionOf s.vol b ≠ .fat ∧ deleteBody dir name c s = (.ok (), s') ∧
      CrashAll (fun d => d = s.dev.disk ∨
        (d.get b = (s.dev.disk.get b).set off (UInt8.ofNat 0xE5) ∧
         (∀ y, y < endCluster s.vol → y ∉ c :: tail → fatRaw s.vol d y = fatRaw s.vol s.dev.disk y) ∧
         (∀ i, regionOf s.vol i ≠ .fat → i ≠ b → d.get i = s.dev.disk.get i))) s s' := by
  obtain ⟨b, off, hm, hbr⟩ := deleteDirectoryEntry_ok dir name s s1 hn hc hg hdel
  have hsg : SameGeom s.vol s1.vol := SameGeom.of_eq hm.vol
  -- the FAT after the mark is the FAT before it
  have hfat : ∀ i, regionOf s.vol i = .fat → s1.dev.disk.get i = s.dev.disk.get i := fun i hi => by
    rw [hm.disk, Disk.get_set_ne _ _ _ _ (fun e => hbr (by rw [e]; exact hi))]
  have hraw : ∀ y, y < endCluster s.vol → fatRaw s.vol s1.dev.disk y = fatRaw s.vol s.dev.disk y := fun y hy => by
    unfold fatRaw; rw [hfat _ (FatLens.fat_blocks_in_fat_region s.vol hg y hy).1]
  have hch1 : Chain s1.vol s1.dev.disk c (c :: tail) :=
    chain_sameGeom hsg (chain_congr_raw hch fun x hx => hraw x (chain_inRange hch x hx).2)
  have hb1 : BlocksOK s1.dev.disk := by rw [hm.disk]; exact blocksOK_mark hb b off _
  obtain ⟨s', hf, hcr⟩ := free_crash s1 c tail hm.noFault hm.coherent hb1 (hsg.wfGeom hg) hch1
  refine ⟨b, off, s', hm, hbr, ?_, ?_⟩
  · unfold deleteBody
    rw [bind_ok hdel, hf]
  · have c1 := (CrashData_single hm.wlog hm.disk)
    refine (c1.mono fun d hd => ?_).trans (hcr.mono fun d hd => ?_)
    · rcases hd with rfl | rfl
      · exact .inl rfl
      · exact .inr ⟨by rw [hm.disk, Disk.get_set_self], fun y hy _ => hraw y hy,
          fun i _ hib => by rw [hm.disk, Disk.get_set_ne _ _ _ _ (fun e => hib e.symm)]⟩
    · -- a stage of the freeing, relative to the medium after the mark
      have hw : Within s.vol s1.dev.disk d (c :: tail) clean := by
        rcases hd.1 with (hv | ⟨j, _, hst⟩) | hst
        · exact (View.sameGeom hsg hv).within _ _
        · exact (Within.sameGeom hsg hst.within).mono (fun y hy => by
            rcases List.mem_append.1 hy with hy | hy
            · rw [List.mem_singleton.1 hy]; exact List.mem_cons_self
            · exact List.mem_cons_of_mem _ (List.mem_of_mem_take hy)) (fun _ h => h)
        · exact (Within.sameGeom hsg hst.within).mono (fun y hy => by simpa using hy) (fun _ h => h)
      refine .inr ⟨?_, fun y hy hyn => (hw.other y hy hyn).trans (hraw y hy), fun i hi hib => ?_⟩
      · rw [hw.nonFat b hbr id, hm.disk, Disk.get_set_self]
      · rw [hw.nonFat i hi id, hm.disk, Disk.get_set_ne _ _ _ _ (fun e => hib e.symm)]
where
  CrashData_single {s s' : FS} {b : Nat} {p : Block} (hw : s'.dev.wlog = (b, p) :: s.dev.wlog)
      (hd : s'.dev.disk = s.dev.disk.set b p) : CrashAll (fun d => d = s.dev.disk ∨ d = s'.dev.disk) s s' := by
    refine ⟨[(b, p)], ⟨hw, hd⟩, fun k => ?_⟩
    cases k with
    | zero => exact .inl rfl
    | succ k =>
      rw [List.take_succ_cons, List.take_nil]
      exact .inr hd.symm

end Sdmmc.Lemmas.CrashDelete
