/-
C09 over histories, part 3: a fresh manager on a medium `d'` mounts, opens the root directory and reads a file of
the FAT16 fixed root directory (`fresh_reads_root16`); the flushed file of a licensed history — at every crash
point its slot, chain and contents (`flushed_at_crash`), at every call boundary also "first hit for its name in
the root directory", so a fresh manager reads it back (`flushed_read_at_boundary`).
-/
import Sdmmc.Lemmas.SurviveFile
import Sdmmc.Lemmas.ReopenSpec

namespace Sdmmc.Lemmas.Survive
open Sdmmc.Model Sdmmc.Model.Fat Sdmmc.Spec.Volume Sdmmc.Lemmas.VolBase Sdmmc.Lemmas.VolTree
open Sdmmc.Spec hiding NoFault Coherent
open Sdmmc.Lemmas.VolDisk Sdmmc.Lemmas.VolMed
open Sdmmc.Lemmas.WriteSetInv
open Sdmmc.Lemmas.ReadRefines (MgrOK)

/-! ### A fresh manager reads a file of the root directory -/

/-- On a medium `d'` that mounts to the record `w`, whose root directory (the fixed region on FAT16, the chain `rc` on
FAT32: `DirOn`) has `x` as the first hit for the
stored name `sfn`, `x` decoding to the plain-file entry `e` with chain `cs`: ANY fresh manager on `d'` mounts, opens
the root directory, opens the file by any spelling of its name and reads `fileContent w d' cs e.size` — writing
nothing. -/
theorem fresh_reads_root (d' : Disk) (idx : Nat) (w : FatVolume) (hmw : mountPure (d'.get 0) idx d'.get = .ok w)
    (hgw : WFGeom w) (rc : List Nat) (hdir : Reopen.DirOn w d' Gen.CLUSTER_ROOT_DIR rc) (sfn : Bytes) (x : Slot) (e : DirEntry)
    (cs : List Nat)
    (hfirst : Reopen.FirstHit (Reopen.dirSlotsOf w d' 0xFFFFFFFC rc) sfn x) (hdec : Listing.decode w.fatType x = e)
    (hplain : Attr.isDirectory e.attributes = false)
    (hch : (e.cluster < 2 ∧ cs = [] ∧ e.size = 0) ∨ Chain w d' e.cluster cs) (hfit : e.size ≤ cs.length * clusterBytesLen w)
    (t0 : Mgr) (name : List Nat) (ht0 : MgrOK t0) (hdisk : t0.dev.disk = d') (hvols : t0.vols = []) (hdirs : t0.dirs = [])
    (hfiles : t0.files = []) (hmv : 0 < t0.maxVols) (hmd : 0 < t0.maxDirs) (hmf : 0 < t0.maxFiles)
    (hid : t0.nextId + 2 < 4294967296) (hname : Sfn.createFromStr name = .ok sfn) :
    ∃ t1 t2 t3, openRawVolume idx t0 = (.ok t0.nextId, t1) ∧
      openRootDir t0.nextId t1 = (.ok (t0.nextId + 1), t2) ∧
      openFileInDir (t0.nextId + 1) name .ReadOnly t2 = (.ok (t0.nextId + 2), t3) ∧
      t3.dev.disk = d' ∧ t3.dev.wlog = t0.dev.wlog ∧
      fileLength (t0.nextId + 2) t3 = (.ok e.size, t3) ∧
      ∀ n, ∃ t4, read (t0.nextId + 2) n t3 = (.ok ((fileContent w d' cs e.size).take n), t4) ∧
        t4.dev.disk = d' ∧ t4.dev.wlog = t0.dev.wlog := by
  obtain ⟨t1, hopen1, heq1, hd1, hw1, hok_t1⟩ := Reopen.openRawVolume_spec t0 idx w ht0 (by rw [hvols]; exact hmv)
    (by rw [hvols]; rfl) (by rw [hdisk]; exact hmw)
  have ht1_dirs : t1.dirs = [] := by rw [heq1]; exact hdirs
  have ht1_files : t1.files = [] := by rw [heq1]; exact hfiles
  have ht1_vols : t1.vols = [{ rawVolume := t0.nextId, idx := idx, vol := w }] := by rw [heq1, hvols]; rfl
  have ht1_id : t1.nextId = t0.nextId + 1 := by rw [heq1]; show (t0.nextId + 1) % 4294967296 = _; omega
  have ht1_md : t1.maxDirs = t0.maxDirs := by rw [heq1]
  have ht1_mf : t1.maxFiles = t0.maxFiles := by rw [heq1]
  have hopen2 := Reopen.openRootDir_spec t1 t0.nextId (by rw [ht1_dirs, ht1_md]; exact hmd)
  rw [ht1_id] at hopen2
  obtain ⟨t2, ht2⟩ : ∃ t2 : Mgr, Reopen.rootOpened t1 t0.nextId = t2 := ⟨_, rfl⟩
  have hopen2' : openRootDir t0.nextId t1 = (.ok (t0.nextId + 1), t2) := by rw [← ht2]; exact hopen2
  unfold Reopen.rootOpened at ht2
  have ht2_dirs : t2.dirs = [{ rawDirectory := t0.nextId + 1, rawVolume := t0.nextId, cluster := Gen.CLUSTER_ROOT_DIR }] := by
    rw [← ht2, ht1_dirs]; rfl
  have ht2_files : t2.files = [] := by rw [← ht2]; exact ht1_files
  have ht2_vols : t2.vols = [{ rawVolume := t0.nextId, idx := idx, vol := w }] := by rw [← ht2]; exact ht1_vols
  have ht2_id : t2.nextId = t0.nextId + 2 := by rw [← ht2]; show (t0.nextId + 1 + 1) % 4294967296 = _; omega
  have ht2_mf : t2.maxFiles = t0.maxFiles := by rw [← ht2]; exact ht1_mf
  have ht2_disk : t2.dev.disk = t1.dev.disk := by rw [← ht2]
  have ht2_wlog : t2.dev.wlog = t1.dev.wlog := by rw [← ht2]
  have hok_t2 : MgrOK t2 := by rw [← ht2]; exact hok_t1
  have hd_t2 : t2.dev.disk = d' := by rw [ht2_disk, hd1, hdisk]
  have hw_t2 : t2.dev.wlog = t0.dev.wlog := by rw [ht2_wlog, hw1]
  have hctx : Modes.DirCtx t2 (t0.nextId + 1) name
      { rawDirectory := t0.nextId + 1, rawVolume := t0.nextId, cluster := Gen.CLUSTER_ROOT_DIR } 0 sfn := by
    refine ⟨⟨0, ?_, ?_⟩, ?_, hname⟩
    · rw [ht2_dirs]; simp
    · rw [ht2_dirs]; rfl
    · rw [ht2_vols]; simp
  obtain ⟨t3, hopen3, hop3, _, hlen3, hread3⟩ := Reopen.open_read_entry t2 (t0.nextId + 1) name _ 0 sfn
    { rawVolume := t0.nextId, idx := idx, vol := w } rc x e cs hok_t2 hctx (by rw [ht2_vols]; rfl) hgw
    (by rw [ht2_files, ht2_mf]; exact hmf) (by rw [ht2_files]; intro g hg; cases hg)
    (by rw [hd_t2]; exact hdir) (by rw [hd_t2]; exact hfirst) hdec hplain
    (by unfold fileIsOpen; rw [ht2_files]; rfl) (by rw [hd_t2]; exact hch) hfit
  rw [ht2_id] at hopen3 hlen3 hread3
  rw [hd_t2] at hread3
  refine ⟨t1, t2, t3, hopen1, hopen2', hopen3, hop3.2.1.trans hd_t2, hop3.2.2.trans hw_t2, hlen3, fun n => ?_⟩
  obtain ⟨t4, hr, hd4, hw4⟩ := hread3 n
  exact ⟨t4, hr, hd4, hw4.trans hw_t2⟩

/-- The FAT16 case: the root directory is the fixed region. -/
theorem fresh_reads_root16 (d' : Disk) (idx : Nat) (w : FatVolume) (hmw : mountPure (d'.get 0) idx d'.get = .ok w)
    (hgw : WFGeom w) (h16 : w.fatType = .fat16) (sfn : Bytes) (x : Slot) (e : DirEntry) (cs : List Nat)
    (hfirst : Reopen.FirstHit (Reopen.dirSlotsOf w d' 0xFFFFFFFC []) sfn x) (hdec : Listing.decode w.fatType x = e)
    (hplain : Attr.isDirectory e.attributes = false)
    (hch : (e.cluster < 2 ∧ cs = [] ∧ e.size = 0) ∨ Chain w d' e.cluster cs) (hfit : e.size ≤ cs.length * clusterBytesLen w)
    (t0 : Mgr) (name : List Nat) (ht0 : MgrOK t0) (hdisk : t0.dev.disk = d') (hvols : t0.vols = []) (hdirs : t0.dirs = [])
    (hfiles : t0.files = []) (hmv : 0 < t0.maxVols) (hmd : 0 < t0.maxDirs) (hmf : 0 < t0.maxFiles)
    (hid : t0.nextId + 2 < 4294967296) (hname : Sfn.createFromStr name = .ok sfn) :
    ∃ t1 t2 t3, openRawVolume idx t0 = (.ok t0.nextId, t1) ∧
      openRootDir t0.nextId t1 = (.ok (t0.nextId + 1), t2) ∧
      openFileInDir (t0.nextId + 1) name .ReadOnly t2 = (.ok (t0.nextId + 2), t3) ∧
      t3.dev.disk = d' ∧ t3.dev.wlog = t0.dev.wlog ∧
      fileLength (t0.nextId + 2) t3 = (.ok e.size, t3) ∧
      ∀ n, ∃ t4, read (t0.nextId + 2) n t3 = (.ok ((fileContent w d' cs e.size).take n), t4) ∧
        t4.dev.disk = d' ∧ t4.dev.wlog = t0.dev.wlog :=
  fresh_reads_root d' idx w hmw hgw [] (fun hk => absurd ⟨h16, rfl⟩ hk) sfn x e cs hfirst hdec hplain hch hfit t0 name ht0 hdisk
    hvols hdirs hfiles hmv hmd hmf hid hname

/-! ### The flushed file on a medium -/

/-- The medium `d` shows the flushed file: the 32 bytes of its slot are the serialised entry `e`, and `cs` is
the cluster chain of `e` (none for a file without clusters). -/
structure FlushedOn (v : FatVolume) (d : Disk) (e : DirEntry) (cs : List Nat) : Prop where
  slot : slice (d.get e.entryBlock) e.entryOffset 32 = e.serialize v.fatType
  chain : (e.cluster < 2 ∧ cs = [] ∧ e.size = 0) ∨ Chain v d e.cluster cs

/-- **(a) at every crash point.**  The file flushed on the medium of `s`, not named by any licence of the
history: every crash point `dk` of the history has 512-byte blocks, shows the flushed file (slot bytes, chain), the
FAT entries of its chain are the same, and its contents are the same for every length. -/
theorem flushed_at_crash {v0 : FatVolume} (hg : WFGeom v0) {s : Mgr} {ops : List Op} {Ls : List Licence}
    (hR : RunLicensed v0 s ops Ls) (hb : BlocksOK s.dev.disk) (e : DirEntry) (cs : List Nat) (hF : FlushedOn v0 s.dev.disk e cs)
    (hin : ∀ c, c ∈ cs → InRange v0 c) (hsreg : regionOf v0 e.entryBlock = .root ∨ regionOf v0 e.entryBlock = .data)
    (hal : e.entryOffset % 32 = 0) (hnn : ∀ L, L ∈ Ls → NotNamed v0 L e.entryBlock e.entryOffset cs)
    (dk : Disk) (hk : HistCrash s ops dk) :
    BlocksOK dk ∧ FlushedOn v0 dk e cs ∧ (∀ x, x ∈ cs → fatRaw v0 dk x = fatRaw v0 s.dev.disk x) ∧
    ∀ n, fileContent v0 dk cs n = fileContent v0 s.dev.disk cs n := by
  obtain ⟨hbk, h1, h2, h3, h4⟩ := unnamed_object_at_crash hg hR hb e.entryBlock e.entryOffset cs hin hsreg hal hnn dk hk
  refine ⟨hbk, ⟨by rw [h1]; exact hF.slot, ?_⟩, h2, fun n => by unfold fileContent; rw [h4]⟩
  rcases hF.chain with h | h
  · exact .inl h
  · exact .inr (h3 _ h)

/-- The same at the state after the first `j` calls. -/
theorem flushed_at_boundary {v0 : FatVolume} (hg : WFGeom v0) {s : Mgr} {ops : List Op} {Ls : List Licence}
    (hR : RunLicensed v0 s ops Ls) (hb : BlocksOK s.dev.disk) (e : DirEntry) (cs : List Nat) (hF : FlushedOn v0 s.dev.disk e cs)
    (hin : ∀ c, c ∈ cs → InRange v0 c) (hsreg : regionOf v0 e.entryBlock = .root ∨ regionOf v0 e.entryBlock = .data)
    (hal : e.entryOffset % 32 = 0) (hnn : ∀ L, L ∈ Ls → NotNamed v0 L e.entryBlock e.entryOffset cs)
    (j : Nat) (hb' : BlocksOK (run s (ops.take j)).1.dev.disk) :
    FlushedOn v0 (run s (ops.take j)).1.dev.disk e cs ∧
    ∀ n, fileContent v0 (run s (ops.take j)).1.dev.disk cs n = fileContent v0 s.dev.disk cs n := by
  obtain ⟨h1, _, h3, h4⟩ := unnamed_object_at_boundary hg hR hb e.entryBlock e.entryOffset cs hin hsreg hal hnn j hb'
  refine ⟨⟨by rw [h1]; exact hF.slot, ?_⟩, fun n => by unfold fileContent; rw [h4]⟩
  rcases hF.chain with h | h
  · exact .inl h
  · exact .inr (h3 _ h)

/-! ### (b), (c) at call boundaries, FAT16 root directory -/

/-- The first byte, the attribute byte of a slot holding a serialised entry. -/
theorem slot_of_serialize (ft : FatType) (e : DirEntry) (hst : Reopen.Storable ft e) (b off : Nat) :
    sName (b, off, e.serialize ft) = e.name ∧ first (b, off, e.serialize ft) = byteAt e.name 0 ∧
    sAttr (b, off, e.serialize ft) = e.attributes := by
  have hcl' : e.cluster < 4294967296 := by
    have := hst.cluster_lt
    cases ft <;> simp only at this <;> omega
  obtain ⟨_, h0, h11, _⟩ := Reopen.serialize_layout ft e hst.name_len hst.attr_lt hst.size_lt hcl'
  refine ⟨h0, ?_, h11⟩
  show byteAt (e.serialize ft) 0 = _
  rw [← h0]
  exact (byteAt_take _ 11 (by decide)).symm

/-- **(b), (c) at a call boundary** — for a file of the FAT16 fixed root directory.  `t` is a state satisfying the
invariant (ghost `gh`, FAT16) whose medium shows the flushed file `e` (storable, a plain file whose name does not
start with `0x00` or `0xE5`, in a slot of the root region); the medium mounts as partition `idx` with the geometry of
`gh.vol`.  Then the slot is the first hit for the file's name in the root directory, and ANY fresh manager on that
medium mounts, opens the root directory, opens the file by any spelling of its name and reads its contents,
writing nothing. -/
theorem flushed_read_at_boundary {t : Mgr} {gh : Ghost} (hI : VolInv t gh) (h16 : gh.vol.fatType = .fat16) (e : DirEntry)
    (cs : List Nat) (hF : FlushedOn gh.vol t.dev.disk e cs) (hst : Reopen.Storable .fat16 e)
    (hn0 : byteAt e.name 0 ≠ 0) (hn5 : byteAt e.name 0 ≠ 0xE5) (hlfn : e.attributes % 16 ≠ 15)
    (hplain : Attr.isDirectory e.attributes = false)
    (hb1 : gh.vol.lbaStart + gh.vol.firstRootDirBlock ≤ e.entryBlock)
    (hb2 : e.entryBlock < gh.vol.lbaStart + gh.vol.firstRootDirBlock + blockCountFromBytes (gh.vol.rootEntriesCount * 32))
    (hal : e.entryOffset % 32 = 0) (ho : e.entryOffset + 32 ≤ 512)
    (hfit : e.size ≤ cs.length * clusterBytesLen gh.vol)
    (idx : Nat) (w : FatVolume) (hmw : mountPure (t.dev.disk.get 0) idx t.dev.disk.get = .ok w) (hsw : SameGeom gh.vol w) :
    Reopen.FirstHit (Reopen.dirSlotsOf gh.vol t.dev.disk 0xFFFFFFFC []) e.name
      (e.entryBlock, e.entryOffset, slice (t.dev.disk.get e.entryBlock) e.entryOffset 32) ∧
    ∀ (t0 : Mgr) (name : List Nat), MgrOK t0 → t0.dev.disk = t.dev.disk → t0.vols = [] → t0.dirs = [] → t0.files = [] →
      0 < t0.maxVols → 0 < t0.maxDirs → 0 < t0.maxFiles → t0.nextId + 2 < 4294967296 →
      Sfn.createFromStr name = .ok e.name →
      ∃ t1 t2 t3, openRawVolume idx t0 = (.ok t0.nextId, t1) ∧
        openRootDir t0.nextId t1 = (.ok (t0.nextId + 1), t2) ∧
        openFileInDir (t0.nextId + 1) name .ReadOnly t2 = (.ok (t0.nextId + 2), t3) ∧
        t3.dev.disk = t.dev.disk ∧ t3.dev.wlog = t0.dev.wlog ∧
        fileLength (t0.nextId + 2) t3 = (.ok e.size, t3) ∧
        ∀ n, ∃ t4, read (t0.nextId + 2) n t3 = (.ok ((fileContent gh.vol t.dev.disk cs e.size).take n), t4) ∧
          t4.dev.disk = t.dev.disk ∧ t4.dev.wlog = t0.dev.wlog := by
  have hft : gh.vol.fatType = .fat16 := h16
  obtain ⟨i, hi, hei⟩ : ∃ i, i < 16 ∧ e.entryOffset = 32 * i := ⟨e.entryOffset / 32, by omega, by omega⟩
  generalize hxdef : ((e.entryBlock, e.entryOffset, slice (t.dev.disk.get e.entryBlock) e.entryOffset 32) : Slot) = x
  have hxb : x.2.2 = e.serialize .fat16 := by rw [← hxdef]; show slice _ _ _ = _; rw [hF.slot, hft]
  have hxe : x = (e.entryBlock, e.entryOffset, e.serialize .fat16) := by
    rw [← hxdef]; show (_, _, slice _ _ _) = _; rw [hF.slot, hft]
  obtain ⟨hsn, hfi, hat⟩ := slot_of_serialize .fat16 e hst e.entryBlock e.entryOffset
  rw [← hxe] at hsn hfi hat
  have hfixed : isFixedRoot gh.vol 0 := ⟨rfl, hft⟩
  have hxm : x ∈ dirSlots gh.vol t.dev.disk gh.G 0 := by
    rw [dirSlots_fixed hfixed, ← hxdef, hei]
    exact mem_fixedRoot_at gh.vol t.dev.disk e.entryBlock i hb1 hb2 hi
  have hfh := firstHit_of_inv hI (zero_mem_dirIds _) hxm (by rw [hfi]; exact hn0) (by rw [hfi]; exact hn5)
    (by unfold isFrag; rw [hat]; simpa using hlfn)
  rw [hsn, dirSlots_fixed hfixed] at hfh
  have hkroot : Reopen.IsFixedRoot gh.vol 0xFFFFFFFC := ⟨hft, rfl⟩
  have hss : Reopen.dirSlotsOf gh.vol t.dev.disk 0xFFFFFFFC [] = fixedRootSlots gh.vol t.dev.disk := by
    unfold Reopen.dirSlotsOf
    rw [if_pos hkroot]
    rfl
  refine ⟨by rw [hss]; exact hfh, ?_⟩
  intro t0 name ht0 hdisk hvols hdirs hfiles hmv hmd hmf hid hname
  have hgw : WFGeom w := hsw.wfGeom hI.med.geom
  have h16w : w.fatType = .fat16 := by rw [hsw.fatType]; exact hft
  have hssw : Reopen.dirSlotsOf w t.dev.disk 0xFFFFFFFC [] = Reopen.dirSlotsOf gh.vol t.dev.disk 0xFFFFFFFC [] := by
    obtain ⟨a, c, rfl⟩ := hsw
    rfl
  have hdec : Listing.decode w.fatType x = Reopen.stored e := by
    rw [h16w, hxe]; exact Reopen.decode_serialize .fat16 e hst
  have hres := fresh_reads_root16 t.dev.disk idx w hmw hgw h16w e.name x (Reopen.stored e) cs
    (by rw [hssw, hss]; exact hfh) hdec hplain
    (by
      rcases hF.chain with h | h
      · exact .inl h
      · exact .inr (ForestBase.chain_sameGeom hsw h))
    (by rw [WriteRefines.sameGeom_clusterBytesLen hsw]; exact hfit)
    t0 name ht0 hdisk hvols hdirs hfiles hmv hmd hmf hid hname
  have hfc : ∀ n, fileContent w t.dev.disk cs n = fileContent gh.vol t.dev.disk cs n :=
    fun n => WriteRefines.sameGeom_fileContent hsw _ _ _
  obtain ⟨t1, t2, t3, h1, h2, h3, h4, h5, h6, h7⟩ := hres
  refine ⟨t1, t2, t3, h1, h2, h3, h4, h5, h6, fun n => ?_⟩
  obtain ⟨t4, hr, hd4, hw4⟩ := h7 n
  exact ⟨t4, by rw [← hfc]; exact hr, hd4, hw4⟩

end Sdmmc.Lemmas.Survive
