/-
`Gen/FunsWrap.lean` against `Model/Wrap.lean`: `close`, `Drop`, `to_raw_*`, `change_dir`, and the methods of
`Directory` / `Volume` / `VolumeManager::open_volume` that open a handle and wrap it.
The statements are repeated, with their reading, in `Props/C08GenWrap.lean`.
-/
import Sdmmc.Lemmas.GenWrap
import Sdmmc.Lemmas.GenMgr2

namespace Sdmmc.Lemmas.GenWrapRaii

open Sdmmc Sdmmc.Model Sdmmc.Gen Sdmmc.Lemmas.GenMgr Sdmmc.Lemmas.GenMgrIO Sdmmc.Lemmas.GenWrap

/-! ### Wrapping and unwrapping a handle changes nothing and calls nothing -/

theorem wrap_id (h : Nat) :
    FunsWrap.File_new h = h ∧ FunsWrap.RawFile_to_file h = h ∧ FunsWrap.File_to_raw_file h = h ∧
    FunsWrap.Directory_new h = h ∧ FunsWrap.RawDirectory_to_directory h = h ∧ FunsWrap.Directory_to_raw_directory h = h ∧
    FunsWrap.Volume_new h = h ∧ FunsWrap.RawVolume_to_volume h = h ∧ FunsWrap.Volume_to_raw_volume h = h :=
  ⟨rfl, rfl, rfl, rfl, rfl, rfl, rfl, rfl, rfl⟩

/-! ### `close` -/

theorem file_close_eq (f : Nat) (s : Mgr) (hok : FlushOK s) : FunsWrap.File_close f s = Wrap.File.close f s := by
  unfold FunsWrap.File_close Wrap.File.close
  rw [attempt_lift]
  exact close_file_call f s hok

theorem dir_close_eq (d : Nat) : FunsWrap.Directory_close d = Wrap.Directory.close d := by
  unfold FunsWrap.Directory_close Wrap.Directory.close
  rw [attempt_lift, close_dir_call]

theorem volume_close_eq (v : Nat) : FunsWrap.Volume_close v = Wrap.Volume.close v := by
  unfold FunsWrap.Volume_close Wrap.Volume.close
  rw [attempt_lift, close_volume_call]

/-! ### `Drop` -/

theorem ignoreErr_congr {α : Type} {m1 m2 : M α} {s : Mgr} (h : m1 s = m2 s) :
    Wrap.ignoreErr m1 s = Wrap.ignoreErr m2 s := by
  unfold Wrap.ignoreErr
  rw [h]

theorem file_drop_eq (f : Nat) (s : Mgr) (hok : FlushOK s) : FunsWrap.File_Drop_drop f s = Wrap.File.drop f s := by
  unfold FunsWrap.File_Drop_drop Wrap.File.drop
  rw [discardErr_eq]
  exact ignoreErr_congr (close_file_call f s hok)

theorem dir_drop_eq (d : Nat) : FunsWrap.Directory_Drop_drop d = Wrap.Directory.drop d := by
  unfold FunsWrap.Directory_Drop_drop Wrap.Directory.drop
  rw [discardErr_eq, close_dir_call]

theorem volume_drop_eq (v : Nat) : FunsWrap.Volume_Drop_drop v = Wrap.Volume.drop v := by
  unfold FunsWrap.Volume_Drop_drop Wrap.Volume.drop
  rw [discardErr_eq, close_volume_call]

/-- A destructor is `close` with the result swallowed, between the translations. -/
theorem drop_is_close_swallowed (x : Nat) :
    FunsWrap.File_Drop_drop x = FunsWrap.discardErr (FunsWrap.File_close x) ∧
    FunsWrap.Directory_Drop_drop x = FunsWrap.discardErr (FunsWrap.Directory_close x) ∧
    FunsWrap.Volume_Drop_drop x = FunsWrap.discardErr (FunsWrap.Volume_close x) := by
  unfold FunsWrap.File_Drop_drop FunsWrap.Directory_Drop_drop FunsWrap.Volume_Drop_drop
    FunsWrap.File_close FunsWrap.Directory_close FunsWrap.Volume_close
  simp only [attempt_lift, and_self]

/-! ### `Directory` -/

theorem open_dir_eq (d : Nat) (name : List Nat) : FunsWrap.Directory_open_dir d name = Wrap.Directory.openDir d name := by
  unfold FunsWrap.Directory_open_dir Wrap.Directory.openDir
  rw [open_dir_call]
  exact bind_pure _

theorem change_dir_eq (d : Nat) (name : List Nat) :
    FunsWrap.Directory_change_dir d name = Wrap.Directory.changeDir d name := by
  unfold FunsWrap.Directory_change_dir Wrap.Directory.changeDir
  rw [open_dir_call, close_dir_call]
  rfl

theorem open_file_in_dir_eq (d : Nat) (name : List Nat) (mode : Mode) :
    FunsWrap.Directory_open_file_in_dir d name mode = Wrap.Directory.openFileInDir d name mode := by
  unfold FunsWrap.Directory_open_file_in_dir Wrap.Directory.openFileInDir
  have : FunsMgr.VolumeManager_open_file_in_dir d name mode = Wrap.call (openFileInDir d name mode) := by
    funext s; exact open_file_in_dir_call d name mode s
  rw [this]
  exact bind_pure _

theorem delete_file_in_dir_eq (d : Nat) (name : List Nat) :
    FunsWrap.Directory_delete_file_in_dir d name = Wrap.Directory.deleteFileInDir d name :=
  delete_file_in_dir_call d name

theorem find_directory_entry_eq (d : Nat) (name : List Nat) :
    FunsWrap.Directory_find_directory_entry d name = Wrap.Directory.findDirectoryEntry d name := by
  funext s; exact Lemmas.GenMgr2.find_directory_entry_eq d name s

theorem make_dir_in_dir_eq (d : Nat) (name : List Nat) :
    FunsWrap.Directory_make_dir_in_dir d name = Wrap.Directory.makeDirInDir d name := by
  funext s; exact Lemmas.GenMgr2.make_dir_in_dir_eq d name s

/-- The two methods whose manager method takes a callback (`Gen/FunsMgr2.lean` has them under another convention: the
list of the calls): the wrapper passes everything through. -/
theorem pass_through :
    (∀ (F : Type) (impl : Nat → F → M Unit) d func, FunsWrap.Directory_iterate_dir impl d func = impl d func) ∧
    (∀ (B F : Type) (impl : Nat → B → F → M B) d buf func,
      FunsWrap.Directory_iterate_dir_lfn impl d buf func = impl d buf func) :=
  ⟨fun _ _ _ _ => rfl, fun _ _ _ _ _ _ => rfl⟩

/-! ### `Volume`, `open_volume` -/

theorem open_root_dir_eq (v : Nat) : FunsWrap.Volume_open_root_dir v = Wrap.Volume.openRootDir v := by
  unfold FunsWrap.Volume_open_root_dir Wrap.Volume.openRootDir
  rw [open_root_dir_call]
  exact bind_pure _

theorem open_volume_eq (i : Nat) : FunsWrap.VolumeManager_open_volume i = Wrap.openVolume i := by
  unfold FunsWrap.VolumeManager_open_volume Wrap.openVolume
  have : FunsMgr.VolumeManager_open_raw_volume i = Wrap.call (openRawVolume i) := by
    funext s; exact open_raw_volume_call i s
  rw [this]
  exact bind_pure _

end Sdmmc.Lemmas.GenWrapRaii
