/-
C11, arbitrary fault placement — API level.

`withVol_F`: one engine call on the open volume under ANY schedule, from the invariant with lost chains: the invariant
holds afterwards (up to the schedule) for some chains and some lost chains — given the crash points of the fault-free
call (`MX`) and the generic passes — and the call either IS the fault-free call or answers `DeviceError`.

`delete_faulted`: `delete_file_in_dir` under any schedule keeps the invariant (up to the schedule; lost chains may
appear: the chain of the deleted file, or what is left of it).
-/
import Sdmmc.Lemmas.FaultXEng
import Sdmmc.Lemmas.FaultXApi2
import Sdmmc.Lemmas.VolXApiOpen
import Sdmmc.Lemmas.FaultInvGeo

namespace Sdmmc.Lemmas.FaultX
open Sdmmc.Model Sdmmc.Model.Fat Sdmmc.Spec.Volume Sdmmc.Lemmas.VolBase Sdmmc.Lemmas.VolTree
open Sdmmc.Spec hiding NoFault Coherent
open Sdmmc.Lemmas.VolDisk Sdmmc.Lemmas.VolMed Sdmmc.Lemmas.VolEng Sdmmc.Lemmas.VolX Sdmmc.Lemmas.VolApi
open Sdmmc.Lemmas.FBasic (NoFault Coherent)
open Sdmmc.Lemmas.CrashBase Sdmmc.Lemmas.Retry Sdmmc.Lemmas.FaultPre Sdmmc.Lemmas.FaultInv Sdmmc.Lemmas.FaultCoh Sdmmc.Lemmas.MHoare
open Sdmmc.Lemmas.Fault (Coh)

/-- The invariant up to the schedule, for some ghost of the same geometry and some lost chains. -/
def InvF (gh : Ghost) (s : Mgr) : Prop := ∃ gh' X', VolInvX X' (mclr s) gh' ∧ SameGeom gh.vol gh'.vol

theorem invF_of {X : List (List Nat)} {s0 : Mgr} {gh : Ghost} (hI : VolInvX X s0 gh) (L : List Nat) : InvF gh (withFaults L s0) :=
  ⟨gh, X, by rw [mclr_withFaults hI.noFault L]; exact hI, SameGeom.refl _⟩

theorem InvF.sameGeom {gh gh1 : Ghost} {s : Mgr} (h : InvF gh1 s) (hs : SameGeom gh.vol gh1.vol) : InvF gh s := by
  obtain ⟨gh', X', h1, h2⟩ := h
  exact ⟨gh', X', h1, hs.trans h2⟩

section
variable {α : Type}

/-- **One engine call on the open volume under any schedule.** -/
theorem withVol_F {X : List (List Nat)} {s0 : Mgr} {gh : Ghost} (hI : VolInvX X s0 gh) {vi : VolInfo} (hvs : s0.vols = [vi])
    (hvol : vi.vol = gh.vol) (L : List Nat) {f : F α} (hpre : Pre f) (hfs : Fault.F.Inv FaultsSame f) (hlen : Len f)
    (hgeo : Geo f) (hcoh : CohT Coh f Coh) (hhint : HintOK (f (setFaults L (fsOf s0 gh))).2.vol)
    {dirs' : List (Nat × Nat)} (hd : ∀ c, ValidDir gh.dirs c → ValidDir dirs' c)
    (hcr : CrashAll (MX gh.vol s0.files dirs') (fsOf s0 gh) (f (fsOf s0 gh)).2) :
    InvF gh (withVol 0 f (withFaults L s0)).2 ∧
    (withVol 0 f (withFaults L s0)).2.files = s0.files ∧ (withVol 0 f (withFaults L s0)).2.dirs = s0.dirs ∧
    ((withVol 0 f (withFaults L s0) = ((withVol 0 f s0).1, withFaults L (withVol 0 f s0).2)) ∨
      (withVol 0 f (withFaults L s0)).1 = .err .DeviceError) := by
  obtain ⟨hn, hc, hM⟩ := VolX.volInv_fs hI
  obtain ⟨_, hfl, hdr, hcase⟩ := withVol_faulted hpre hfs hn hvs hvol L
  refine ⟨?_, hfl, hdr, hcase⟩
  have hw := withVol_one f (s := withFaults L s0) (gh := gh) hvs hvol
  rw [fsOf_withFaults] at hw
  obtain ⟨hcF, hsg, G', X', hM'⟩ := eng_faulted hM hn hc L hpre hlen hgeo hcoh hhint hcr
  rw [hw]
  exact ⟨_, X', volInvX_afterVol_F hI hvs L hcF hM' hd, hsg⟩

end

/-! ### `delete_file_in_dir` -/

/-- The hint after the deleting pair, under any schedule. -/
theorem deleteBody_hint {files : List FileInfo} {gh : Ghost} {X : List (List Nat)} {fs : FS}
    (hM : MedX fs.vol fs.dev.disk files gh X) (hn : NoFault fs) (hc : Coherent fs) {dc : Nat} (hv : ValidDir gh.dirs dc)
    (name : Bytes) (hname : name.head? ≠ some 0xE5) {o : Slot}
    (ho : o ∈ objects (dirIdOf dc) (dirSlots fs.vol fs.dev.disk gh.G (dirIdOf dc)))
    (hod : isDirE o = false) (hsn : sName o = name) (hfree : pendOf files o = none) (L : List Nat) :
    HintOK ((do Fat.deleteDirectoryEntry dc name; Fat.freeClusterChain (sCluster fs.vol.fatType o) : F Unit) (setFaults L fs)).2.vol := by
  obtain ⟨hh, _⟩ := validDir_id hM hv
  obtain ⟨fs1, hrun1, hd1, hv1, hn1, hc1⟩ := delete_mark hM hn hc hv name hname (mem_entries_of_objects ho) hsn
  have hvk := deleteDirectoryEntry_vk (K := fun v => v = fs.vol) dc name (setFaults L fs) rfl
  by_cases hq : (deleteDirectoryEntry dc name (setFaults L fs)).2.dev.failed = fs.dev.failed
  · obtain ⟨h1, h2⟩ := Pre.quiet (deleteDirectoryEntry_pre dc name) (Fault.deleteDirectoryEntry_inv dc name) L fs hn hq
    rw [hrun1] at h1 h2
    have hrunF : deleteDirectoryEntry dc name (setFaults L fs) = (.ok (), setFaults L fs1) := Prod.ext h1 h2
    rw [Fault.F.bind_ok hrunF]
    rcases VolX.mark_med hM hh ho hod hfree with ⟨hc0, _⟩ | ⟨A, B, tail, hGeq, hM1⟩
    · rw [hc0]
      show HintOK (setFaults L fs1).vol
      show HintOK fs1.vol
      rw [hv1]; exact hM.hint
    · have hch : Chain fs.vol fs1.dev.disk (sCluster fs.vol.fatType o) (sCluster fs.vol.fatType o :: tail) := by
        have := hM1.owns.1 (sCluster fs.vol.fatType o :: tail) (List.mem_append_right _ List.mem_cons_self)
        rw [hd1]; simpa using this
      have hr := ChainL.chain_inRange hch _ List.mem_cons_self
      refine freeClusterChain_hint _ (setFaults L fs1) hc1 (ChainL.inRange_le fs.vol hM.geom _ hr) (by show HintOK fs1.vol; rw [hv1]; exact hM.hint) ?_
      intro n hnx
      have hnx' : nextOf fs.vol fs1.dev.disk (sCluster fs.vol.fatType o) = .ok n := by
        have : (setFaults L fs1).vol = fs.vol := hv1
        rw [this] at hnx; exact hnx
      cases hch with
      | last _ _ he => rw [he] at hnx'; cases hnx'
      | link _ n' _ _ hn' _ hrest =>
        rw [hn'] at hnx'
        cases hnx'
        exact (ChainL.chain_inRange hrest _ (ForestBase.chain_head_mem hrest)).1
  · obtain ⟨he, _⟩ := ((deleteDirectoryEntry_pre dc name) (setFaults L fs)).2.2.2 hq
    rcases hr : deleteDirectoryEntry dc name (setFaults L fs) with ⟨r, s1⟩
    rw [hr] at he hvk
    simp only at he
    subst he
    rw [Fault.F.bind_err hr]
    show HintOK s1.vol
    have : s1.vol = fs.vol := hvk
    rw [this]; exact hM.hint

/-- **`delete_file_in_dir` under any fault schedule keeps the invariant** (up to the schedule; for some ghost of the
same geometry and some lost chains), and leaves the tables alone. -/
theorem delete_faulted {X : List (List Nat)} {s0 : Mgr} {gh : Ghost} (hI : VolInvX X s0 gh) (L : List Nat) (d : Nat) (name : List Nat)
    (hname : ∀ sfn, Sfn.createFromStr name = .ok sfn → sfn.head? ≠ some 0xE5) :
    InvF gh (deleteFileInDir d name (withFaults L s0)).2 := by
  have h0 : InvF gh (withFaults L s0) := invF_of hI L
  unfold deleteFileInDir
  cases hidx : s0.dirs.findIdx? (·.rawDirectory = d) with
  | none => rw [bind_err (getDirById_bad (s := withFaults L s0) hidx)]; exact h0
  | some i =>
    obtain ⟨di, hdi, _⟩ := findIdx?_some_get hidx
    have hdim : di ∈ s0.dirs := List.mem_of_getElem? hdi
    rw [bind_ok (getDirById_ok (s := withFaults L s0) hidx), bind_ok (getDir_ok (s := withFaults L s0) hdi)]
    cases hv : s0.vols.findIdx? (·.rawVolume = di.rawVolume) with
    | none => rw [bind_err (getVolumeById_bad (s := withFaults L s0) hv)]; exact h0
    | some volIdx =>
      obtain ⟨hz, vi, hvs, hvol, hraw⟩ := VolX.vol_of_handle hI hv
      subst hz
      rw [bind_ok (getVolumeById_ok (s := withFaults L s0) hv)]
      cases hs : Sfn.createFromStr name with
      | error e => rw [bind_err (Modes.toSfn_err hs _)]; exact h0
      | ok sfn =>
        rw [bind_ok (Modes.toSfn_ok hs _)]
        have hdv := hI.openDirs di hdim
        obtain ⟨hn, hc, hM⟩ := VolX.volInv_fs hI
        obtain ⟨r, fs', hlk, hdisk, hvol', h1, hcase⟩ := VolX.lookup_found hI hvs hvol hdv sfn (hname sfn hs)
        -- the lookup under the schedule
        obtain ⟨hinvL, _, _, hdich⟩ := withVol_F hI hvs hvol L (findDirectoryEntry_pre di.cluster sfn)
          (Fault.findDirectoryEntry_inv di.cluster sfn) (findDirectoryEntry_len _ _) (findDirectoryEntry_geo _ _)
          (findDirectoryEntry_coh _ _) (findDirectoryEntry_vk (K := HintOK) _ _ _ hM.hint) (fun _ h => h)
          (CrashAll.of_ro (DirMgr.findDirectoryEntry_readOnly di.cluster sfn (fsOf s0 gh)) (mx_of_med hM))
        rcases hdich with hq | he
        swap
        · rcases hrun : withVol 0 (Fat.findDirectoryEntry di.cluster sfn) (withFaults L s0) with ⟨r', s'⟩
          rw [hrun] at he hinvL
          simp only at he
          subst he
          rw [bind_err hrun]
          exact hinvL
        rw [hlk] at hq
        set s1 := afterVol s0 vi fs' with hs1
        have hvs1 : s1.vols = [{ vi with vol := fs'.vol }] := rfl
        have h01 : InvF gh (withFaults L s1) := invF_of h1 L
        rcases hcase with ⟨hr, _⟩ | ⟨e, o, hr, hF⟩
        · subst hr
          rw [bind_err hq]
          exact h01
        · subst hr
          rw [bind_ok hq]
          obtain ⟨hen, hea, hes, heb, heo, hnd⟩ := hF.fields
          by_cases hde : Attr.isDirectory e.attributes = true
          · rw [if_pos hde]; exact h01
          rw [if_neg hde, get_bind]
          have hdir' : Attr.isDirectory e.attributes = false := by simpa using hde
          by_cases hopen : fileIsOpen (withFaults L s1) di.rawVolume e = true
          · rw [if_pos hopen]; exact h01
          rw [if_neg hopen]
          have hopen' : fileIsOpen s1 di.rawVolume e = false := by
            have : fileIsOpen (withFaults L s1) di.rawVolume e = fileIsOpen s1 di.rawVolume e := rfl
            rw [← this]; simpa using hopen
          have hraw1 : ({ vi with vol := fs'.vol } : VolInfo).rawVolume = di.rawVolume := hraw
          obtain ⟨hobj, _, hfree⟩ := VolX.Found_object h1 hvs1 hdv hraw1 hF hdir' hopen'
          obtain ⟨hde', hcl⟩ := hnd hdir'
          have hv1 : s1.vols.findIdx? (·.rawVolume = di.rawVolume) = some 0 := by rw [hvs1]; simp [hraw]
          rw [bind_ok (getVolumeById_ok (s := withFaults L s1) hv1)]
          obtain ⟨hn1, hc1, hM1⟩ := VolX.volInv_fs h1
          have hpre : Pre (do Fat.deleteDirectoryEntry di.cluster sfn; Fat.freeClusterChain e.cluster : F Unit) :=
            Pre.bind (deleteDirectoryEntry_pre _ _) fun _ => freeClusterChain_pre _
          have hinv : Fault.F.Inv FaultsSame (do Fat.deleteDirectoryEntry di.cluster sfn; Fat.freeClusterChain e.cluster : F Unit) :=
            Fault.F.Inv.bind (Fault.deleteDirectoryEntry_inv _ _) fun _ => Fault.freeClusterChain_inv _
          have hcl' : e.cluster = sCluster (fsOf s1 gh).vol.fatType o := hcl
          have hcr := deleteBody_mx hM1 hn1 hc1 hdv sfn (hname sfn hs) hobj hde' hF.name hfree
          have hhint := deleteBody_hint hM1 hn1 hc1 hdv sfn (hname sfn hs) hobj hde' hF.name hfree L
          rw [← hcl'] at hcr hhint
          obtain ⟨hinv2, _, _, _⟩ := withVol_F h1 hvs1 hvol' L hpre hinv
            (Len.bind (deleteDirectoryEntry_len _ _) fun _ => freeClusterChain_len _)
            (Geo.bind (deleteDirectoryEntry_geo _ _) fun _ => freeClusterChain_geo _)
            (CohT.bind (deleteDirectoryEntry_coh _ _) fun _ => freeClusterChain_coh _) hhint (fun _ h => h) hcr
          -- `withVol … >>= pure`-free: the call ends with the engine call
          exact hinv2

end Sdmmc.Lemmas.FaultX
