/-
The media a power cut can leave during `alloc_cluster(prev, zero)` (model: `Fat.allocCluster`), on
a fault-free coherent state of a well-formed volume.  Three stages, in this order (`AllocCrash`):

* A — no FAT entry has changed; when `zero` is set some blocks of the (still free) new cluster may
  already be blank;
* B — the new cluster carries its end-of-chain mark, nothing else changed (and, when `zero` is set,
  every block of the new cluster is blank: the blanking is complete BEFORE the mark is written);
* C — the medium looks like the one after the call (the predecessor links to the new cluster).
-/
import Sdmmc.Lemmas.CrashFat

namespace Sdmmc.Lemmas.CrashAlloc
open Sdmmc.Model Sdmmc.Model.Fat Sdmmc.Spec
open Sdmmc.Lemmas.FBasic hiding NoFault Coherent
open Sdmmc.Lemmas.FatOps hiding BlocksOK Mirror HintOK
open Sdmmc.Lemmas.ChainL Sdmmc.Lemmas.ForestBase Sdmmc.Lemmas.ForestTrunc Sdmmc.Lemmas.ForestAlloc
open Sdmmc.Lemmas.ForestOwns Sdmmc.Lemmas.ForestStep Sdmmc.Lemmas.CrashBase Sdmmc.Lemmas.CrashFat

/-! ### Blanking a run of blocks -/

/-- At every crash point of `zeroBlocks n first` the blocks outside `first .. first+n` are untouched. -/
theorem zeroBlocks_crash : ∀ (n first : Nat) (s : FS), NoFault s →
    CrashAll (fun d => ∀ i, ¬ (first ≤ i ∧ i < first + n) → d.get i = s.dev.disk.get i) s (zeroBlocks n first s).2 := by
  intro n
  induction n with
  | zero => intro first s _; exact CrashAll.same rfl rfl fun _ _ => rfl
  | succ n ih =>
    intro first s hn
    obtain ⟨hn1, _, _, hw1, hd1⟩ := afterZero_facts first s hn
    rw [zeroBlocks_succ n first s hn]
    have h1 : CrashAll (fun d => ∀ i, ¬ (first ≤ i ∧ i < first + (n + 1)) → d.get i = s.dev.disk.get i) s (afterZero first s) := by
      refine ⟨[(first, zeroBlock)], ⟨hw1, hd1⟩, fun k => ?_⟩
      cases k with
      | zero => intro i _; rfl
      | succ k =>
        intro i hi
        rw [List.take_succ_cons, List.take_nil]
        exact Disk.get_set_ne _ _ _ _ (by omega)
    refine h1.trans ((ih (first + 1) (afterZero first s) hn1).mono fun d hd i hi => ?_)
    rw [hd i (by omega), hd1]
    exact Disk.get_set_ne _ _ _ _ (by omega)

/-! ### The stages of an allocation -/

/-- The blocks an allocation with `zero` set may blank: those of the new cluster. -/
def zeroing (v : FatVolume) (zero : Bool) (c : Nat) : Nat → Prop := fun i => zero = true ∧ InCluster v c i

/-- What a power cut during `alloc_cluster(prev, zero)` returning `c` can leave (`d0` the medium
before, `dfin` the medium after the call). -/
def AllocCrash (v : FatVolume) (d0 dfin : Disk) (zero : Bool) (c : Nat) (d : Disk) : Prop :=
  Within v d0 d [] (zeroing v zero c) ∨
  (Within v d0 d [c] (zeroing v zero c) ∧ nextOf v d c = .err .EndOfFile ∧ (zero = true → ClusterZero v d c)) ∨
  (View v dfin d ∧ (zero = true → ClusterZero v d c))

theorem clusterZero_of_nonFat {v : FatVolume} {d d' : Disk} {c : Nat} (hg : WFGeom v) (hc2 : 2 ≤ c) (hcE : c < endCluster v)
    (h : ∀ i, regionOf v i ≠ .fat → d'.get i = d.get i) (hz : ClusterZero v d c) : ClusterZero v d' c := by
  intro j hj
  rw [h _ (by rw [FatLens.cluster_blocks_in_data_region v hg c j hc2 hcE hj]; decide)]
  exact hz j hj

/-- A medium on which only blocks of data cluster `c` differ has the same FAT. -/
theorem within_of_cluster_blocks {v : FatVolume} {d d' : Disk} {c : Nat} (zero : Bool) (hg : WFGeom v) (hc2 : 2 ≤ c)
    (hcE : c < endCluster v) (h : ∀ i, ¬ (zero = true ∧ InCluster v c i) → d'.get i = d.get i) :
    Within v d d' [] (zeroing v zero c) := by
  refine ⟨fun y hy _ => ?_, fun i _ hi => h i hi⟩
  unfold fatRaw
  rw [h _ (fun hh => DirFat.fat_ne_cluster_block v hg c _ hc2 hcE (FatLens.fat_blocks_in_fat_region v hg y hy).1 hh.2)]

theorem alloc_crash (s s' : FS) (prev : Option Nat) (zero : Bool) (c : Nat) (hn : NoFault s) (hc : Coherent s)
    (hb : BlocksOK s.dev.disk) (hg : WFGeom s.vol) (hh : HintOK s.vol)
    (hp : ∀ p, prev = some p → p < endCluster s.vol)
    (h : allocCluster prev zero s = (.ok c, s')) :
    CrashAll (fun d => AllocCrash s.vol s.dev.disk s'.dev.disk zero c d ∧ Lag s.vol s.dev.disk d) s s' ∧
    Within s.vol s.dev.disk s'.dev.disk (c :: prev.toList) (zeroing s.vol zero c) := by
  obtain ⟨hc2, hcE, _⟩ := alloc_in_range_and_free s s' prev zero c hn hc hh h
  obtain ⟨s1, sZ, s3, s4, s5, nf, h1, h2, h3, h4, h5, hs'⟩ := alloc_inv s s' prev zero c h
  -- step 1: the pick is read-only
  obtain ⟨s1', e1, ro1, hn1, hc1⟩ := allocPick_eq s hn hc
  rw [h1] at e1
  have es1 : s1 = s1' := congrArg Prod.snd e1
  subst es1
  -- step 2: blanking
  obtain ⟨sZ', e2, hnZ, hcZ, hvZ, _, hbZ⟩ := zeroStep_eq s.vol zero c s1 hn1 hc1
  rw [h2] at e2
  have esZ : sZ = sZ' := congrArg Prod.snd e2
  subst esZ
  have hvZ' : sZ.vol = s.vol := hvZ.trans ro1.vol
  have hbZ' : BlocksOK sZ.dev.disk := hbZ (by rw [ro1.disk]; exact hb)
  have hcrZ : CrashAll (fun d => Within s.vol s.dev.disk d [] (zeroing s.vol zero c) ∧
      (Mirror s.vol s.dev.disk → Mirror s.vol d)) s1 sZ := by
    have hsZ : sZ = (zeroStep s.vol zero c s1).2 := by rw [h2]
    cases zero with
    | false =>
      have : sZ = s1 := hsZ
      rw [this]
      exact CrashAll.same rfl rfl (by rw [ro1.disk]; exact ⟨Within.refl _ _ _ _, id⟩)
    | true =>
      have : sZ = (zeroBlocks s.vol.blocksPerCluster (clusterToBlock s.vol c) s1).2 := hsZ
      rw [this]
      refine (zeroBlocks_crash _ _ s1 hn1).mono fun d hd => ?_
      rw [ro1.disk] at hd
      exact ⟨within_of_cluster_blocks true hg hc2 hcE fun i hi => hd i fun hh => hi ⟨rfl, hh⟩,
        mirror_of_fat_same hg fun i hi => hd i (DirFat.fat_ne_cluster_block s.vol hg c i hc2 hcE hi)⟩
  have hZ : Within s.vol s.dev.disk sZ.dev.disk [] (zeroing s.vol zero c) := hcrZ.final.1
  have hMZ : Mirror s.vol s.dev.disk → Mirror s.vol sZ.dev.disk := hcrZ.final.2
  have hzZ : zero = true → ClusterZero s.vol sZ.dev.disk c := by
    intro hz j hj
    subst hz
    have hsZ0 : sZ = (zeroStep s.vol true c s1).2 := by rw [h2]
    have hsZ : sZ = (zeroBlocks s.vol.blocksPerCluster (clusterToBlock s.vol c) s1).2 := hsZ0
    rw [hsZ, DirFat.zeroBlocks_disk s1 _ _ hn1, if_pos (by omega)]
  -- step 3: the end-of-chain mark
  obtain ⟨s3', e3, hn3, hc3, hb3, hv3, hself3, hfr3⟩ :=
    updateFat_spec sZ c Gen.CLUSTER_END_OF_FILE hnZ hcZ hbZ' (by rw [hvZ']; exact hg) (by rw [hvZ']; exact hcE)
  rw [h3] at e3
  have es3 : s3 = s3' := congrArg Prod.snd e3
  subst es3
  have hcr3 := updateFat_crash sZ s3 c Gen.CLUSTER_END_OF_FILE hnZ hcZ (by rw [hvZ']; exact hg) (by rw [hvZ']; exact hcE) h3
  rw [hvZ'] at hcr3 hfr3 hself3
  have hv3' : s3.vol = s.vol := hv3.trans hvZ'
  have heof3 : nextOf s.vol s3.dev.disk c = .err .EndOfFile := by
    have := updateFat_eof_reads sZ c hbZ' (d' := s3.dev.disk) (by rw [hvZ']; exact hself3)
    rw [hvZ'] at this; exact this
  have hW3 : Within s.vol s.dev.disk s3.dev.disk [c] (zeroing s.vol zero c) :=
    Within.trans hZ (Within.of_frame hfr3) (fun _ hy => by cases hy) (fun _ hy => hy) (fun _ hi => hi) (fun _ hi => hi.elim)
  have hz3 : zero = true → ClusterZero s.vol s3.dev.disk c := fun hz =>
    clusterZero_of_nonFat hg hc2 hcE hfr3.nonFat (hzZ hz)
  -- stage B is stable under `View`
  have hB : ∀ d, View s.vol s3.dev.disk d → AllocCrash s.vol s.dev.disk s'.dev.disk zero c d := fun d hv =>
    .inr (.inl ⟨hW3.view hv, (nextOf_congr rfl (hv.fatRaw hcE)).trans heof3,
      fun hz => clusterZero_of_nonFat hg hc2 hcE hv.nonFat (hz3 hz)⟩)
  -- step 4: the link
  have hd' : s'.dev.disk = s4.dev.disk := by
    obtain ⟨ro5⟩ := allocHint_readOnly s.vol c s4
    rw [h5] at ro5
    rw [hs']; exact ro5
  have hw' : s'.dev.wlog = s4.dev.wlog := by
    have ro5 := (allocHint_readOnly s.vol c s4).wlog
    rw [h5] at ro5
    rw [hs']; exact ro5
  have hM3 : Mirror s.vol s.dev.disk → Mirror s.vol s3.dev.disk := fun hm => hfr3.mirror (hMZ hm)
  have hcr4 : CrashAll (fun d => AllocCrash s.vol s.dev.disk s'.dev.disk zero c d ∧ Lag s.vol s.dev.disk d) s3 s4 ∧
      (zero = true → ClusterZero s.vol s4.dev.disk c) ∧
      Within s.vol s.dev.disk s4.dev.disk (c :: prev.toList) (zeroing s.vol zero c) := by
    unfold linkStep at h4
    cases prev with
    | none =>
      have e : s4 = s3 := (congrArg Prod.snd h4).symm
      subst e
      exact ⟨CrashAll.same rfl rfl ⟨hB _ (View.refl _ _), fun hm => mirrorBut_of_mirror (hM3 hm)⟩, hz3, hW3⟩
    | some p =>
      simp only at h4
      obtain ⟨s4', e4, hn4, hc4, hb4, hv4, _, hfr4⟩ :=
        updateFat_spec s3 p c hn3 hc3 hb3 (by rw [hv3']; exact hg) (by rw [hv3']; exact hp p rfl)
      rw [h4] at e4
      have es4 : s4 = s4' := congrArg Prod.snd e4
      subst es4
      have hcr := updateFat_crash s3 s4 p c hn3 hc3 (by rw [hv3']; exact hg) (by rw [hv3']; exact hp p rfl) h4
      rw [hv3'] at hcr hfr4
      have hz4 : zero = true → ClusterZero s.vol s4.dev.disk c := fun hz =>
        clusterZero_of_nonFat hg hc2 hcE hfr4.nonFat (hz3 hz)
      refine ⟨hcr.mono fun d hd => ?_, hz4, Within.trans hW3 (Within.of_frame hfr4)
        (fun y hy => by rw [List.mem_singleton.1 hy]; exact List.mem_cons_self)
        (fun y hy => by rw [List.mem_singleton.1 hy]; exact List.mem_cons_of_mem _ (List.mem_singleton.2 rfl))
        (fun _ hi => hi) (fun _ hi => hi.elim)⟩
      obtain ⟨hd, hlag⟩ := hd
      refine ⟨?_, Lag.via (SameGeom.refl _) hM3 hlag⟩
      rcases hd with hd | hd
      · exact hB d hd
      · exact .inr (.inr ⟨by rw [hd']; exact hd, fun hz => clusterZero_of_nonFat hg hc2 hcE hd.nonFat (hz4 hz)⟩)
  obtain ⟨hcr4, hz4, hW4⟩ := hcr4
  -- assemble
  have hA : ∀ d, Within s.vol s.dev.disk d [] (zeroing s.vol zero c) → AllocCrash s.vol s.dev.disk s'.dev.disk zero c d :=
    fun d hd => .inl hd
  have c01 : CrashAll (fun d => AllocCrash s.vol s.dev.disk s'.dev.disk zero c d ∧ Lag s.vol s.dev.disk d) s s1 :=
    CrashAll.of_ro ro1 ⟨hA _ (Within.refl _ _ _ _), Lag.refl _ _⟩
  have c1Z : CrashAll (fun d => AllocCrash s.vol s.dev.disk s'.dev.disk zero c d ∧ Lag s.vol s.dev.disk d) s1 sZ :=
    hcrZ.mono fun d hd => ⟨hA d hd.1, fun hm => mirrorBut_of_mirror (hd.2 hm)⟩
  have cZ3 : CrashAll (fun d => AllocCrash s.vol s.dev.disk s'.dev.disk zero c d ∧ Lag s.vol s.dev.disk d) sZ s3 :=
    hcr3.mono fun d hd => by
      obtain ⟨hd, hlag⟩ := hd
      refine ⟨?_, Lag.via (SameGeom.refl _) hMZ hlag⟩
      rcases hd with hd | hd
      · exact hA d (hZ.view hd)
      · exact hB d hd
  have c4' : CrashAll (fun d => AllocCrash s.vol s.dev.disk s'.dev.disk zero c d ∧ Lag s.vol s.dev.disk d) s4 s' :=
    CrashAll.same hw' hd' ⟨.inr (.inr ⟨by rw [hd']; exact View.refl _ _, hz4⟩), hcr4.final.2⟩
  exact ⟨(((c01.trans c1Z).trans cZ3).trans hcr4).trans c4', by rw [hd']; exact hW4⟩

end Sdmmc.Lemmas.CrashAlloc
