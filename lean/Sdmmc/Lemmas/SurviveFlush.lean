/-
C09 over whole histories, part 15: `flush_file` / `close_file` of a handle that was written to, at every crash point —
the block of the file's slot is the block before the call or the block after it (`reflush_atomic`): the call stores
the entry with ONE block write.
-/
import Sdmmc.Lemmas.CrashFlush
import Sdmmc.Lemmas.WriteSetInvDir
import Sdmmc.Lemmas.VolCrashApi

namespace Sdmmc.Lemmas.Survive
open Sdmmc.Model Sdmmc.Model.Fat Sdmmc.Spec.Volume
open Sdmmc.Spec hiding NoFault Coherent run step
open Sdmmc.Lemmas.FBasic Sdmmc.Lemmas.CrashBase Sdmmc.Lemmas.CrashMgr Sdmmc.Lemmas.MHoare
open Sdmmc.Lemmas.DirEntryIO (flushF)

/-- The engine's `update_info_sector; write_entry_to_disk e`: at every crash point the block of the slot is the block
before or the block after (when the slot's block is not the FAT32 info sector). -/
theorem flushF_atomic (s : FS) (e : DirEntry) (hn : NoFault s) (hc : Coherent s) (hb : BlocksOK s.dev.disk)
    (ho : e.entryOffset + 32 ≤ 512) (hname : e.name.length = 11)
    (hne : s.vol.fatType = .fat32 → e.entryBlock ≠ s.vol.infoLocation) :
    ∃ s', flushF e s = (.ok (), s') ∧
      CrashAll (fun d => d.get e.entryBlock = s.dev.disk.get e.entryBlock ∨ d.get e.entryBlock = s'.dev.disk.get e.entryBlock) s s' := by
  by_cases hE : e.entryBlock = s.vol.infoLocation
  · -- FAT16 (the info sector is not used): one write
    have h16 : s.vol.fatType = .fat16 := by
      cases hft : s.vol.fatType with
      | fat16 => rfl
      | fat32 => exact absurd hE (hne hft)
    obtain ⟨s', h2, _, _, _, _, ⟨p, hw2, hd2⟩, _⟩ := DirEntryIO.writeEntry_frame s e hn hc hb ho hname
    refine ⟨s', ?_, (CrashData.single_write_crash hw2 hd2).mono fun d hd => ?_⟩
    · unfold flushF
      rw [bind_ok (FatOps.updateInfoSector_idle s (.inl h16)), h2]
    · rcases hd with rfl | rfl
      · exact .inl rfl
      · exact .inr rfl
  · obtain ⟨s', h, hcr⟩ := CrashFlush.flushF_block_crash s e hn hc hb ho hname
    exact ⟨s', h, hcr.mono fun d hd => hd hE⟩

/-- **`flush_file` / `close_file` of a dirty file through `step`**: at every crash point `dk` of the call the block of
the file's slot is the block before the call or the block after it. -/
theorem reflush_atomic {s : Mgr} {gh : Ghost} (hI : VolInv s gh) (hm : Mirror gh.vol s.dev.disk) {hd i : Nat} {f : FileInfo}
    (hidx : s.files.findIdx? (·.rawFile = hd) = some i) (hf : s.files[i]? = some f) (hdirty : f.dirty = true) (op : Op)
    (hop : op = .flush hd ∨ op = .closeFile hd) (k : Nat) :
    (crashDisk s.dev.disk (step s op).2.writes k).get f.entry.entryBlock = s.dev.disk.get f.entry.entryBlock ∨
    (crashDisk s.dev.disk (step s op).2.writes k).get f.entry.entryBlock = (step s op).1.dev.disk.get f.entry.entryBlock := by
  have hI0 := VolApi.volInv_resetLogs hI
  have hfm : f ∈ s.files := List.mem_of_getElem? hf
  obtain ⟨vi, hv, hvol, hrv, _⟩ := VolApi.vol_of_file hI0 hfm
  have hvfind : (resetLogs s).vols.findIdx? (·.rawVolume = f.rawVolume) = some 0 := by
    show s.vols.findIdx? _ = _
    have hv' : s.vols = [vi] := hv
    rw [hv']; simp [hrv]
  have hvi : (resetLogs s).vols[0]? = some vi := by
    have hv' : (resetLogs s).vols = [vi] := hv
    rw [hv']; rfl
  obtain ⟨hreg, ho, hname, hassert, _⟩ := WriteSetInv.file_slot_facts hI0 hfm
  have hne : vi.vol.fatType = .fat32 → f.entry.entryBlock ≠ vi.vol.infoLocation := by
    intro h32 e
    rw [hvol] at h32 e
    have := FatLens.info_block_in_info_region gh.vol hI.med.geom h32 (Reopen.fatStart_le_numBlocks gh.vol hI.med.geom)
    rw [← e] at this
    rcases hreg with h | h <;> rw [h] at this <;> cases this
  -- the engine call
  obtain ⟨fs', hrun, hcr⟩ := flushF_atomic (ReadRefines.fsOf (resetLogs s) vi) f.entry hI0.noFault hI0.coherent hI0.med.blocksOK
    ho hname hne
  have hflw := DirMgr.flushFile_dirty hd i 0 f (resetLogs s) (getFileById_ok (s := resetLogs s) hidx) (getFile_ok (s := resetLogs s) hf) hdirty
    (getVolumeById_ok (s := resetLogs s) hvfind) hassert
  have hfl : (flushFile hd (resetLogs s)).2.dev = fs'.dev := by
    rw [hflw, WriteRefines.withVol_run 0 _ (resetLogs s) vi hvi, hrun]
  have hmc : MCrash (fun d => d.get f.entry.entryBlock = s.dev.disk.get f.entry.entryBlock ∨
      d.get f.entry.entryBlock = fs'.dev.disk.get f.entry.entryBlock) (resetLogs s) (flushFile hd (resetLogs s)).2 :=
    MCrash.of_fs hcr rfl hfl.symm
  -- the state `runOp` leaves has the device of the flush
  have hdev : (runOp op (resetLogs s)).2.dev = (flushFile hd (resetLogs s)).2.dev := by
    rcases hop with rfl | rfl
    · rw [WriteSet.runOp_flush]
    · rw [WriteSet.runOp_closeFile]
      have hres : (flushFile hd (resetLogs s)).1 = .ok () := by
        rw [hflw, WriteRefines.withVol_run 0 _ (resetLogs s) vi hvi, hrun]
      obtain ⟨s1, hs1⟩ : ∃ s1, flushFile hd (resetLogs s) = (.ok (), s1) := ⟨(flushFile hd (resetLogs s)).2, Prod.ext hres rfl⟩
      have hfiles : s1.files = (resetLogs s).files := by
        have := congrArg (fun p => p.2.files) hs1
        rw [hflw, WriteRefines.withVol_run 0 _ (resetLogs s) vi hvi] at this
        exact this.symm
      rw [WriteSet.closeFile_of_flush (resetLogs s) s1 hd i hidx hs1 hfiles, hs1]
  have hmc' : MCrash (fun d => d.get f.entry.entryBlock = s.dev.disk.get f.entry.entryBlock ∨
      d.get f.entry.entryBlock = fs'.dev.disk.get f.entry.entryBlock) (resetLogs s) (runOp op (resetLogs s)).2 :=
    VolCrash.MCrash.of_eq hmc hdev
  -- from `runOp` on the cleared logs to `step`
  have hs := step_unlocked s op hI.unlocked
  have e : newWrites (devFS (resetLogs s)) (devFS (runOp op (resetLogs s)).2) = (runOp op (resetLogs s)).2.dev.wlog.reverse := by
    unfold newWrites
    show (List.take ((runOp op (resetLogs s)).2.dev.wlog.length - ([] : List (Nat × Block)).length) _).reverse = _
    rw [List.length_nil, Nat.sub_zero]
    exact congrArg List.reverse (List.take_length (l := (runOp op (resetLogs s)).2.dev.wlog))
  have := hmc'.spec k
  rw [e] at this
  rw [hs]
  have hfin : (runOp op (resetLogs s)).2.dev.disk = fs'.dev.disk := by rw [hdev, hfl]
  show _ ∨ _ = (runOp op (resetLogs s)).2.dev.disk.get _
  rw [hfin]
  exact this

end Sdmmc.Lemmas.Survive
