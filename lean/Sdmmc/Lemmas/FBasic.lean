/-
Foundation lemmas about the device / cache model of `Sdmmc.Model.Dev` and the monad `F`.

* `Disk.get_set`: the disk is a total map.
* `bind_apply`, `pure_apply`, … : `@[simp]` unfolding of the monad `F` applied to a state, so that
  later files never unfold `F.bind'` by hand; `bind_ok`, `bind_eq_ok` … for step-wise reasoning.
* For `devRead`, `devWrite`, `cacheRead`, `cacheBlk`, `cacheModify`, `writeBack`,
  `writeBackWithDuplicate`, `blankMut`: the exact result and new state under `NoFault`
  (and `Coherent` for the cache hit), and projection lemmas (`dev.disk`, `dev.wlog`, `cache`, `vol`,
  `dev.faults`).
* Read-only facts about `cacheRead` that need no hypothesis at all.

`NoFault` and `Coherent` are restated in the `Props` files with the same bodies, so the statements
agree by unfolding.
-/
import Sdmmc.Model.Dev

namespace Sdmmc.Lemmas.FBasic
open Sdmmc.Model

/-- No device faults are scheduled. -/
def NoFault (s : FS) : Prop := s.dev.faults = []
/-- The cache, when tagged, holds what the medium holds. -/
def Coherent (s : FS) : Prop := ∀ i, s.cache.tag = some i → s.cache.blk = s.dev.disk.get i

theorem noFault_iff (s : FS) : NoFault s ↔ s.dev.faults = [] := Iff.rfl
theorem coherent_iff (s : FS) :
    Coherent s ↔ ∀ i, s.cache.tag = some i → s.cache.blk = s.dev.disk.get i := Iff.rfl

/-! ### The disk -/

theorem Disk.get_set (d : Disk) (i : Nat) (b : Block) (j : Nat) :
    (d.set i b).get j = if i = j then b else d.get j := by
  unfold Disk.get Disk.set
  rw [Std.TreeMap.getD_insert]
  simp

@[simp] theorem Disk.get_set_self (d : Disk) (i : Nat) (b : Block) : (d.set i b).get i = b := by
  rw [Disk.get_set]; simp

theorem Disk.get_set_ne (d : Disk) (i j : Nat) (b : Block) (h : i ≠ j) : (d.set i b).get j = d.get j := by
  rw [Disk.get_set]; simp [h]

theorem Disk.get_empty (i : Nat) : Disk.empty.get i = zeroBlock := by
  unfold Disk.get Disk.empty
  exact Std.TreeMap.getD_emptyc

@[simp] theorem Disk.applyWrites_nil (d : Disk) : d.applyWrites [] = d := rfl
@[simp] theorem Disk.applyWrites_cons (d : Disk) (w : Nat × Block) (ws : List (Nat × Block)) :
    d.applyWrites (w :: ws) = (d.set w.1 w.2).applyWrites ws := rfl
theorem Disk.applyWrites_append (d : Disk) (ws ws' : List (Nat × Block)) :
    d.applyWrites (ws ++ ws') = (d.applyWrites ws).applyWrites ws' := by
  unfold Disk.applyWrites; rw [List.foldl_append]

/-! ### The monad `F` applied to a state -/

section Monad
variable {α β : Type}

@[simp] theorem bind_apply (m : F α) (f : α → F β) (s : FS) : (m >>= f) s =
    match m s with
    | (.ok a, s') => f a s'
    | (.err e, s') => (.err e, s')
    | (.panic msg, s') => (.panic msg, s')
    | (.diverged, s') => (.diverged, s') := rfl

@[simp] theorem bind'_apply (m : F α) (f : α → F β) (s : FS) : F.bind' m f s =
    match m s with
    | (.ok a, s') => f a s'
    | (.err e, s') => (.err e, s')
    | (.panic msg, s') => (.panic msg, s')
    | (.diverged, s') => (.diverged, s') := rfl

@[simp] theorem pure_apply (a : α) (s : FS) : (pure a : F α) s = (.ok a, s) := rfl
@[simp] theorem pure'_apply (a : α) (s : FS) : (F.pure' a : F α) s = (.ok a, s) := rfl
@[simp] theorem lift_apply (r : Res α) (s : FS) : F.lift r s = (r, s) := rfl
@[simp] theorem fail_apply (e : Err) (s : FS) : (F.fail e : F α) s = (.err e, s) := rfl
@[simp] theorem panic_apply (m : String) (s : FS) : (F.panic m : F α) s = (.panic m, s) := rfl
@[simp] theorem diverge_apply (s : FS) : (F.diverge : F α) s = (.diverged, s) := rfl
@[simp] theorem attempt_apply (m : F α) (s : FS) : F.attempt m s = (.ok (m s).1, (m s).2) := rfl
@[simp] theorem get_apply (s : FS) : F.get s = (.ok s, s) := rfl
@[simp] theorem getVol_apply (s : FS) : F.getVol s = (.ok s.vol, s) := rfl
@[simp] theorem setVol_apply (v : FatVolume) (s : FS) : F.setVol v s = (.ok (), { s with vol := v }) := rfl
@[simp] theorem modifyVol_apply (f : FatVolume → FatVolume) (s : FS) :
    F.modifyVol f s = (.ok (), { s with vol := f s.vol }) := rfl

/-- `if` between two computations, applied to a state. -/
@[simp] theorem ite_apply (c : Prop) [Decidable c] (m1 m2 : F α) (s : FS) :
    (if c then m1 else m2) s = if c then m1 s else m2 s := by
  split <;> rfl

@[simp] theorem dite_apply (c : Prop) [Decidable c] (m1 : c → F α) (m2 : ¬ c → F α) (s : FS) :
    (if h : c then m1 h else m2 h) s = if h : c then m1 h s else m2 h s := by
  split <;> rfl

/-- The bind of `F` in projection form (no pattern match on the pair). -/
theorem bind_apply' (m : F α) (f : α → F β) (s : FS) : (m >>= f) s =
    match (m s).1 with
    | .ok a => f a (m s).2
    | .err e => (.err e, (m s).2)
    | .panic msg => (.panic msg, (m s).2)
    | .diverged => (.diverged, (m s).2) := by
  rw [bind_apply]
  rcases hm : m s with ⟨r, s'⟩
  cases r <;> rfl

theorem bind_ok {m : F α} {f : α → F β} {s s' : FS} {a : α} (h : m s = (.ok a, s')) :
    (m >>= f) s = f a s' := by
  rw [bind_apply, h]

theorem bind_err {m : F α} {f : α → F β} {s s' : FS} {e : Err} (h : m s = (.err e, s')) :
    (m >>= f) s = (.err e, s') := by
  rw [bind_apply, h]

theorem bind_panic {m : F α} {f : α → F β} {s s' : FS} {msg : String} (h : m s = (.panic msg, s')) :
    (m >>= f) s = (.panic msg, s') := by
  rw [bind_apply, h]

theorem bind_diverged {m : F α} {f : α → F β} {s s' : FS} (h : m s = (.diverged, s')) :
    (m >>= f) s = (.diverged, s') := by
  rw [bind_apply, h]

/-- Inversion: a bind that succeeds went through a successful first step. -/
theorem bind_eq_ok {m : F α} {f : α → F β} {s s'' : FS} {b : β} :
    (m >>= f) s = (.ok b, s'') ↔ ∃ a s', m s = (.ok a, s') ∧ f a s' = (.ok b, s'') := by
  rw [bind_apply]
  rcases hm : m s with ⟨r, s'⟩
  cases r with
  | ok a =>
    constructor
    · intro h; exact ⟨a, s', rfl, h⟩
    · rintro ⟨a', s1, h1, h2⟩
      cases h1; exact h2
  | err e =>
    constructor
    · intro h; cases h
    · rintro ⟨_, _, h1, _⟩; cases h1
  | panic msg =>
    constructor
    · intro h; cases h
    · rintro ⟨_, _, h1, _⟩; cases h1
  | diverged =>
    constructor
    · intro h; cases h
    · rintro ⟨_, _, h1, _⟩; cases h1

/-- A pair is determined by its projections. -/
theorem run_eq (m : F α) (s : FS) : m s = ((m s).1, (m s).2) := rfl

theorem run_eq_iff (m : F α) (s s' : FS) (r : Res α) : m s = (r, s') ↔ (m s).1 = r ∧ (m s).2 = s' := by
  constructor
  · intro h; rw [h]; exact ⟨rfl, rfl⟩
  · rintro ⟨h1, h2⟩; rw [← h1, ← h2]

end Monad

/-! ### The device -/

theorem contains_nil (n : Nat) : ([] : List Nat).contains n = false := rfl

theorem devRead_eq (idx : Nat) (s : FS) (hn : NoFault s) :
    devRead idx s = (.ok (), { s with
      dev := { s.dev with calls := s.dev.calls + 1, rlog := idx :: s.dev.rlog },
      cache := { s.cache with blk := s.dev.disk.get idx } }) := by
  unfold devRead
  simp only [show s.dev.faults = [] from hn, contains_nil]
  rfl

theorem devWrite_eq (idx : Nat) (s : FS) (hn : NoFault s) :
    devWrite idx s = (.ok (), { s with
      dev := { s.dev with calls := s.dev.calls + 1, disk := s.dev.disk.set idx s.cache.blk,
                          wlog := (idx, s.cache.blk) :: s.dev.wlog } }) := by
  unfold devWrite
  simp only [show s.dev.faults = [] from hn, contains_nil]
  rfl

/-! Facts about the device calls that hold with or without faults. -/

@[simp] theorem devRead_disk (idx : Nat) (s : FS) : (devRead idx s).2.dev.disk = s.dev.disk := by
  unfold devRead; dsimp only; split <;> rfl
@[simp] theorem devRead_wlog (idx : Nat) (s : FS) : (devRead idx s).2.dev.wlog = s.dev.wlog := by
  unfold devRead; dsimp only; split <;> rfl
@[simp] theorem devRead_faults (idx : Nat) (s : FS) : (devRead idx s).2.dev.faults = s.dev.faults := by
  unfold devRead; dsimp only; split <;> rfl
@[simp] theorem devRead_vol (idx : Nat) (s : FS) : (devRead idx s).2.vol = s.vol := by
  unfold devRead; dsimp only; split <;> rfl
@[simp] theorem devRead_tag (idx : Nat) (s : FS) : (devRead idx s).2.cache.tag = s.cache.tag := by
  unfold devRead; dsimp only; split <;> rfl
@[simp] theorem devRead_calls (idx : Nat) (s : FS) : (devRead idx s).2.dev.calls = s.dev.calls + 1 := by
  unfold devRead; dsimp only; split <;> rfl
@[simp] theorem devRead_rlog (idx : Nat) (s : FS) : (devRead idx s).2.dev.rlog = idx :: s.dev.rlog := by
  unfold devRead; dsimp only; split <;> rfl
theorem devRead_ok_blk (idx : Nat) (s : FS) (h : (devRead idx s).1 = .ok ()) :
    (devRead idx s).2.cache.blk = s.dev.disk.get idx := by
  unfold devRead at h ⊢; dsimp only at h ⊢
  split
  · rename_i hf; rw [if_pos hf] at h; cases h
  · rfl
/-- A device read either succeeds or fails with `DeviceError`. -/
theorem devRead_result (idx : Nat) (s : FS) :
    (devRead idx s).1 = .ok () ∨ (devRead idx s).1 = .err .DeviceError := by
  unfold devRead; dsimp only; split
  · exact .inr rfl
  · exact .inl rfl

@[simp] theorem devWrite_faults (idx : Nat) (s : FS) : (devWrite idx s).2.dev.faults = s.dev.faults := by
  unfold devWrite; dsimp only; split <;> rfl
@[simp] theorem devWrite_vol (idx : Nat) (s : FS) : (devWrite idx s).2.vol = s.vol := by
  unfold devWrite; dsimp only; split <;> rfl
@[simp] theorem devWrite_cache (idx : Nat) (s : FS) : (devWrite idx s).2.cache = s.cache := by
  unfold devWrite; dsimp only; split <;> rfl
@[simp] theorem devWrite_rlog (idx : Nat) (s : FS) : (devWrite idx s).2.dev.rlog = s.dev.rlog := by
  unfold devWrite; dsimp only; split <;> rfl
@[simp] theorem devWrite_calls (idx : Nat) (s : FS) : (devWrite idx s).2.dev.calls = s.dev.calls + 1 := by
  unfold devWrite; dsimp only; split <;> rfl
theorem devWrite_result (idx : Nat) (s : FS) :
    (devWrite idx s).1 = .ok () ∨ (devWrite idx s).1 = .err .DeviceError := by
  unfold devWrite; dsimp only; split
  · exact .inr rfl
  · exact .inl rfl
/-- A failed write does not reach the medium or the write log. -/
theorem devWrite_err (idx : Nat) (s : FS) (h : (devWrite idx s).1 ≠ .ok ()) :
    (devWrite idx s).2.dev.disk = s.dev.disk ∧ (devWrite idx s).2.dev.wlog = s.dev.wlog := by
  unfold devWrite at h ⊢; dsimp only at h ⊢
  split
  · exact ⟨rfl, rfl⟩
  · rename_i hf; rw [if_neg hf] at h; exact absurd rfl h
theorem devWrite_ok (idx : Nat) (s : FS) (h : (devWrite idx s).1 = .ok ()) :
    (devWrite idx s).2.dev.disk = s.dev.disk.set idx s.cache.blk ∧
    (devWrite idx s).2.dev.wlog = (idx, s.cache.blk) :: s.dev.wlog := by
  unfold devWrite at h ⊢; dsimp only at h ⊢
  split
  · rename_i hf; rw [if_pos hf] at h; cases h
  · exact ⟨rfl, rfl⟩

/-! Projections under `NoFault`. -/

section NoFaultProj
variable (idx : Nat) (s : FS) (hn : NoFault s)
include hn

theorem devRead_fst : (devRead idx s).1 = .ok () := by rw [devRead_eq idx s hn]
theorem devRead_blk : (devRead idx s).2.cache.blk = s.dev.disk.get idx := by rw [devRead_eq idx s hn]
theorem devRead_cache : (devRead idx s).2.cache = { s.cache with blk := s.dev.disk.get idx } := by
  rw [devRead_eq idx s hn]
theorem devRead_noFault : NoFault (devRead idx s).2 := by
  unfold NoFault; rw [devRead_faults]; exact hn

theorem devWrite_fst : (devWrite idx s).1 = .ok () := by rw [devWrite_eq idx s hn]
theorem devWrite_disk : (devWrite idx s).2.dev.disk = s.dev.disk.set idx s.cache.blk := by
  rw [devWrite_eq idx s hn]
theorem devWrite_wlog : (devWrite idx s).2.dev.wlog = (idx, s.cache.blk) :: s.dev.wlog := by
  rw [devWrite_eq idx s hn]
theorem devWrite_noFault : NoFault (devWrite idx s).2 := by
  unfold NoFault; rw [devWrite_faults]; exact hn

end NoFaultProj

/-! ### `cacheBlk`, `cacheModify`, `blankMut` (pure state functions) -/

@[simp] theorem cacheBlk_apply (s : FS) : cacheBlk s = (.ok s.cache.blk, s) := rfl
@[simp] theorem cacheModify_apply (f : Block → Block) (s : FS) :
    cacheModify f s = (.ok (), { s with cache := { s.cache with blk := f s.cache.blk } }) := rfl
@[simp] theorem blankMut_apply (idx : Nat) (s : FS) :
    blankMut idx s = (.ok (), { s with cache := { tag := some idx, blk := zeroBlock } }) := rfl

theorem cacheModify_noFault (f : Block → Block) (s : FS) (hn : NoFault s) : NoFault (cacheModify f s).2 := hn
theorem blankMut_noFault (idx : Nat) (s : FS) (hn : NoFault s) : NoFault (blankMut idx s).2 := hn

/-! ### `cacheRead` -/

theorem cacheRead_hit (idx : Nat) (s : FS) (h : s.cache.tag = some idx) : cacheRead idx s = (.ok (), s) := by
  unfold cacheRead; rw [if_pos h]

theorem cacheRead_miss (idx : Nat) (s : FS) (hn : NoFault s) (h : s.cache.tag ≠ some idx) :
    cacheRead idx s = (.ok (), { s with
      dev := { s.dev with calls := s.dev.calls + 1, rlog := idx :: s.dev.rlog },
      cache := { tag := some idx, blk := s.dev.disk.get idx } }) := by
  unfold cacheRead; rw [if_neg h, devRead_eq _ _ (show NoFault { s with cache := { s.cache with tag := none } } from hn)]

/-- `cacheRead` on a fault-free, coherent state: it succeeds, the cache is then exactly
"tagged `idx`, holding the medium's block `idx`", and only the read bookkeeping of the device
(`calls`, `rlog`) may have changed besides. -/
theorem cacheRead_eq (idx : Nat) (s : FS) (hn : NoFault s) (hc : Coherent s) :
    cacheRead idx s = (.ok (), { s with
      dev := { s.dev with calls := if s.cache.tag = some idx then s.dev.calls else s.dev.calls + 1,
                          rlog := if s.cache.tag = some idx then s.dev.rlog else idx :: s.dev.rlog },
      cache := { tag := some idx, blk := s.dev.disk.get idx } }) := by
  by_cases h : s.cache.tag = some idx
  · rw [cacheRead_hit idx s h, if_pos h, if_pos h]
    have hb := hc idx h
    rcases s with ⟨dev, ⟨tag, blk⟩, vol⟩
    simp only at h hb
    subst h; subst hb; rfl
  · rw [cacheRead_miss idx s hn h, if_neg h, if_neg h]

/-- The state after a successful `cacheRead idx` from a fault-free coherent state: the cache is
tagged `idx` and holds the medium's block; only the read bookkeeping (`calls`, `rlog`) moved. -/
def afterRead (idx : Nat) (s : FS) : FS :=
  { s with
    dev := { s.dev with calls := if s.cache.tag = some idx then s.dev.calls else s.dev.calls + 1,
                        rlog := if s.cache.tag = some idx then s.dev.rlog else idx :: s.dev.rlog },
    cache := { tag := some idx, blk := s.dev.disk.get idx } }

@[simp] theorem afterRead_disk (idx : Nat) (s : FS) : (afterRead idx s).dev.disk = s.dev.disk := rfl
@[simp] theorem afterRead_wlog (idx : Nat) (s : FS) : (afterRead idx s).dev.wlog = s.dev.wlog := rfl
@[simp] theorem afterRead_faults (idx : Nat) (s : FS) : (afterRead idx s).dev.faults = s.dev.faults := rfl
@[simp] theorem afterRead_vol (idx : Nat) (s : FS) : (afterRead idx s).vol = s.vol := rfl
@[simp] theorem afterRead_cache (idx : Nat) (s : FS) :
    (afterRead idx s).cache = { tag := some idx, blk := s.dev.disk.get idx } := rfl
@[simp] theorem afterRead_tag (idx : Nat) (s : FS) : (afterRead idx s).cache.tag = some idx := rfl
@[simp] theorem afterRead_blk (idx : Nat) (s : FS) : (afterRead idx s).cache.blk = s.dev.disk.get idx := rfl
theorem afterRead_noFault (idx : Nat) (s : FS) (hn : NoFault s) : NoFault (afterRead idx s) := hn
theorem afterRead_coherent (idx : Nat) (s : FS) : Coherent (afterRead idx s) := by
  intro i hi; cases hi; rfl

/-- `cacheRead_eq` with the new state folded into `afterRead`. -/
theorem cacheRead_eq' (idx : Nat) (s : FS) (hn : NoFault s) (hc : Coherent s) :
    cacheRead idx s = (.ok (), afterRead idx s) := cacheRead_eq idx s hn hc

/-! Read-only facts: no hypothesis needed (faults allowed). -/

/-- The state `cacheRead` hands to the device on a miss. -/
def untag (s : FS) : FS := { s with cache := { s.cache with tag := none } }

theorem cacheRead_miss_ok (idx : Nat) (s : FS) (ht : s.cache.tag ≠ some idx)
    (h : (devRead idx (untag s)).1 = .ok ()) :
    cacheRead idx s = (.ok (), { (devRead idx (untag s)).2 with
      cache := { (devRead idx (untag s)).2.cache with tag := some idx } }) := by
  unfold cacheRead; rw [if_neg ht]
  show (match devRead idx (untag s) with
    | (.ok (), s') => (Res.ok (), { s' with cache := { s'.cache with tag := some idx } })
    | (r, s') => (r, s')) = _
  rcases hd : devRead idx (untag s) with ⟨r, s'⟩
  rw [hd] at h
  simp only at h
  subst h
  rfl

theorem cacheRead_miss_err (idx : Nat) (s : FS) (ht : s.cache.tag ≠ some idx)
    (h : (devRead idx (untag s)).1 = .err .DeviceError) :
    cacheRead idx s = (.err .DeviceError, (devRead idx (untag s)).2) := by
  unfold cacheRead; rw [if_neg ht]
  show (match devRead idx (untag s) with
    | (.ok (), s') => (Res.ok (), { s' with cache := { s'.cache with tag := some idx } })
    | (r, s') => (r, s')) = _
  rcases hd : devRead idx (untag s) with ⟨r, s'⟩
  rw [hd] at h
  simp only at h
  subst h
  rfl

/-- The three ways a `cacheRead` can go. -/
theorem cacheRead_cases (idx : Nat) (s : FS) :
    (s.cache.tag = some idx ∧ cacheRead idx s = (.ok (), s)) ∨
    (s.cache.tag ≠ some idx ∧ (devRead idx (untag s)).1 = .ok () ∧
      cacheRead idx s = (.ok (), { (devRead idx (untag s)).2 with
        cache := { (devRead idx (untag s)).2.cache with tag := some idx } })) ∨
    (s.cache.tag ≠ some idx ∧ (devRead idx (untag s)).1 = .err .DeviceError ∧
      cacheRead idx s = (.err .DeviceError, (devRead idx (untag s)).2)) := by
  by_cases ht : s.cache.tag = some idx
  · exact .inl ⟨ht, cacheRead_hit idx s ht⟩
  · rcases devRead_result idx (untag s) with h | h
    · exact .inr (.inl ⟨ht, h, cacheRead_miss_ok idx s ht h⟩)
    · exact .inr (.inr ⟨ht, h, cacheRead_miss_err idx s ht h⟩)

@[simp] theorem cacheRead_disk (idx : Nat) (s : FS) : (cacheRead idx s).2.dev.disk = s.dev.disk := by
  rcases cacheRead_cases idx s with ⟨_, h⟩ | ⟨_, _, h⟩ | ⟨_, _, h⟩ <;> rw [h]
  · exact devRead_disk idx (untag s)
  · exact devRead_disk idx (untag s)
@[simp] theorem cacheRead_wlog (idx : Nat) (s : FS) : (cacheRead idx s).2.dev.wlog = s.dev.wlog := by
  rcases cacheRead_cases idx s with ⟨_, h⟩ | ⟨_, _, h⟩ | ⟨_, _, h⟩ <;> rw [h]
  · exact devRead_wlog idx (untag s)
  · exact devRead_wlog idx (untag s)
@[simp] theorem cacheRead_faults (idx : Nat) (s : FS) : (cacheRead idx s).2.dev.faults = s.dev.faults := by
  rcases cacheRead_cases idx s with ⟨_, h⟩ | ⟨_, _, h⟩ | ⟨_, _, h⟩ <;> rw [h]
  · exact devRead_faults idx (untag s)
  · exact devRead_faults idx (untag s)
@[simp] theorem cacheRead_vol (idx : Nat) (s : FS) : (cacheRead idx s).2.vol = s.vol := by
  rcases cacheRead_cases idx s with ⟨_, h⟩ | ⟨_, _, h⟩ | ⟨_, _, h⟩ <;> rw [h]
  · exact devRead_vol idx (untag s)
  · exact devRead_vol idx (untag s)

/-- `cacheRead` either succeeds or fails with `DeviceError`. -/
theorem cacheRead_result (idx : Nat) (s : FS) :
    (cacheRead idx s).1 = .ok () ∨ (cacheRead idx s).1 = .err .DeviceError := by
  rcases cacheRead_cases idx s with ⟨_, h⟩ | ⟨_, _, h⟩ | ⟨_, _, h⟩ <;> rw [h]
  · exact .inl rfl
  · exact .inl rfl
  · exact .inr rfl

/-- After a successful `cacheRead` the cache is tagged `idx`. -/
theorem cacheRead_ok_tag (idx : Nat) (s : FS) (h : (cacheRead idx s).1 = .ok ()) :
    (cacheRead idx s).2.cache.tag = some idx := by
  rcases cacheRead_cases idx s with ⟨ht, h'⟩ | ⟨_, _, h'⟩ | ⟨_, _, h'⟩ <;> rw [h'] at h ⊢
  · exact ht
  · cases h

/-- After a failed `cacheRead` the cache is untagged. -/
theorem cacheRead_err_tag (idx : Nat) (s : FS) (h : (cacheRead idx s).1 ≠ .ok ()) :
    (cacheRead idx s).2.cache.tag = none := by
  rcases cacheRead_cases idx s with ⟨ht, h'⟩ | ⟨_, _, h'⟩ | ⟨_, _, h'⟩ <;> rw [h'] at h ⊢
  · exact absurd rfl h
  · exact absurd rfl h
  · exact devRead_tag idx (untag s)

/-- `cacheRead` keeps (on a hit) or re-establishes (on a miss, successful or not) coherence. -/
theorem cacheRead_coherent (idx : Nat) (s : FS) (hc : Coherent s) : Coherent (cacheRead idx s).2 := by
  rcases cacheRead_cases idx s with ⟨ht, h'⟩ | ⟨_, hok, h'⟩ | ⟨_, _, h'⟩ <;> rw [h']
  · exact hc
  · intro i hi
    cases hi
    show (devRead idx (untag s)).2.cache.blk = (devRead idx (untag s)).2.dev.disk.get idx
    rw [devRead_ok_blk idx (untag s) hok, devRead_disk]
  · intro i hi
    have : (devRead idx (untag s)).2.cache.tag = none := devRead_tag idx (untag s)
    rw [this] at hi; cases hi

/-- A miss re-establishes coherence whatever the cache held before. -/
theorem cacheRead_coherent_of_miss (idx : Nat) (s : FS) (hn : NoFault s) (ht : s.cache.tag ≠ some idx) :
    Coherent (cacheRead idx s).2 := by
  rw [cacheRead_miss idx s hn ht]
  intro i hi
  cases hi; rfl

theorem cacheRead_noFault (idx : Nat) (s : FS) (hn : NoFault s) : NoFault (cacheRead idx s).2 := by
  unfold NoFault; rw [cacheRead_faults]; exact hn

section CacheReadProj
variable (idx : Nat) (s : FS) (hn : NoFault s) (hc : Coherent s)
include hn hc

theorem cacheRead_fst : (cacheRead idx s).1 = .ok () := by rw [cacheRead_eq idx s hn hc]
theorem cacheRead_cache : (cacheRead idx s).2.cache = { tag := some idx, blk := s.dev.disk.get idx } := by
  rw [cacheRead_eq idx s hn hc]
theorem cacheRead_tag : (cacheRead idx s).2.cache.tag = some idx := by rw [cacheRead_eq idx s hn hc]
theorem cacheRead_blk : (cacheRead idx s).2.cache.blk = s.dev.disk.get idx := by rw [cacheRead_eq idx s hn hc]

/-- Existential form: the state after `cacheRead`, with everything that matters spelled out. -/
theorem cacheRead_spec : ∃ s', cacheRead idx s = (.ok (), s') ∧
    s'.cache = { tag := some idx, blk := s.dev.disk.get idx } ∧ s'.dev.disk = s.dev.disk ∧
    s'.dev.wlog = s.dev.wlog ∧ s'.vol = s.vol ∧ NoFault s' ∧ Coherent s' := by
  refine ⟨_, cacheRead_eq idx s hn hc, rfl, rfl, rfl, rfl, hn, ?_⟩
  intro i hi; cases hi; rfl

end CacheReadProj

/-! ### `writeBack`, `writeBackWithDuplicate` -/

theorem writeBack_none (s : FS) (h : s.cache.tag = none) : writeBack s = (.panic "write_back with no read", s) := by
  unfold writeBack; rw [h]

/-- The cache forgets which block it holds (what a failed write-back does). -/
def untagCache (s : FS) : FS := { s with cache := { s.cache with tag := none } }

/-- A device write answers `Ok` or `DeviceError`. -/
theorem devWrite_two (idx : Nat) (s : FS) :
    (∃ s', devWrite idx s = (.ok (), s')) ∨ (∃ s', devWrite idx s = (.err .DeviceError, s')) := by
  unfold devWrite; dsimp only; split
  · exact .inr ⟨_, rfl⟩
  · exact .inl ⟨_, rfl⟩

theorem writeBack_some_ok {s s1 : FS} {idx : Nat} (h : s.cache.tag = some idx) (h1 : devWrite idx s = (.ok (), s1)) :
    writeBack s = (.ok (), s1) := by
  unfold writeBack; rw [h]; dsimp only; rw [h1]

theorem writeBack_some_err {s s1 : FS} {idx : Nat} {e : Err} (h : s.cache.tag = some idx) (h1 : devWrite idx s = (.err e, s1)) :
    writeBack s = (.err e, untagCache s1) := by
  unfold writeBack; rw [h]; dsimp only; rw [h1]; rfl

theorem writeBack_eq (s : FS) (idx : Nat) (hn : NoFault s) (h : s.cache.tag = some idx) :
    writeBack s = (.ok (), { s with
      dev := { s.dev with calls := s.dev.calls + 1, disk := s.dev.disk.set idx s.cache.blk,
                          wlog := (idx, s.cache.blk) :: s.dev.wlog } }) :=
  writeBack_some_ok h (devWrite_eq idx s hn)

theorem writeBackWithDuplicate_none (dup : Nat) (s : FS) (h : s.cache.tag = none) :
    writeBackWithDuplicate dup s = (.panic "write_back with no read", s) := by
  unfold writeBackWithDuplicate; rw [h]

theorem writeBackDup_ok_ok {s s1 s2 : FS} {idx : Nat} (dup : Nat) (h : s.cache.tag = some idx)
    (h1 : devWrite idx s = (.ok (), s1)) (h2 : devWrite dup s1 = (.ok (), s2)) : writeBackWithDuplicate dup s = (.ok (), s2) := by
  unfold writeBackWithDuplicate; rw [h]; dsimp only; rw [h1]; dsimp only; rw [h2]

theorem writeBackDup_ok_err {s s1 s2 : FS} {idx : Nat} {e : Err} (dup : Nat) (h : s.cache.tag = some idx)
    (h1 : devWrite idx s = (.ok (), s1)) (h2 : devWrite dup s1 = (.err e, s2)) :
    writeBackWithDuplicate dup s = (.err e, untagCache s2) := by
  unfold writeBackWithDuplicate; rw [h]; dsimp only; rw [h1]; dsimp only; rw [h2]; rfl

theorem writeBackDup_err {s s1 : FS} {idx : Nat} {e : Err} (dup : Nat) (h : s.cache.tag = some idx)
    (h1 : devWrite idx s = (.err e, s1)) : writeBackWithDuplicate dup s = (.err e, untagCache s1) := by
  unfold writeBackWithDuplicate; rw [h]; dsimp only; rw [h1]; rfl

theorem writeBackWithDuplicate_eq (dup : Nat) (s : FS) (idx : Nat) (hn : NoFault s) (h : s.cache.tag = some idx) :
    writeBackWithDuplicate dup s = (.ok (), { s with
      dev := { s.dev with calls := s.dev.calls + 2,
                          disk := (s.dev.disk.set idx s.cache.blk).set dup s.cache.blk,
                          wlog := (dup, s.cache.blk) :: (idx, s.cache.blk) :: s.dev.wlog } }) :=
  writeBackDup_ok_ok dup h (devWrite_eq idx s hn) (devWrite_eq dup _ hn)

/-- The three shapes of a write-back from a tagged cache. -/
theorem writeBack_cases (s : FS) (idx : Nat) (h : s.cache.tag = some idx) :
    (∃ s1, devWrite idx s = (.ok (), s1) ∧ writeBack s = (.ok (), s1)) ∨
    (∃ s1, devWrite idx s = (.err .DeviceError, s1) ∧ writeBack s = (.err .DeviceError, untagCache s1)) := by
  rcases devWrite_two idx s with ⟨s1, h1⟩ | ⟨s1, h1⟩
  · exact .inl ⟨s1, h1, writeBack_some_ok h h1⟩
  · exact .inr ⟨s1, h1, writeBack_some_err h h1⟩

theorem writeBackDup_cases (dup : Nat) (s : FS) (idx : Nat) (h : s.cache.tag = some idx) :
    (∃ s1 s2, devWrite idx s = (.ok (), s1) ∧ devWrite dup s1 = (.ok (), s2) ∧ writeBackWithDuplicate dup s = (.ok (), s2)) ∨
    (∃ s1 s2, devWrite idx s = (.ok (), s1) ∧ devWrite dup s1 = (.err .DeviceError, s2) ∧
      writeBackWithDuplicate dup s = (.err .DeviceError, untagCache s2)) ∨
    (∃ s1, devWrite idx s = (.err .DeviceError, s1) ∧ writeBackWithDuplicate dup s = (.err .DeviceError, untagCache s1)) := by
  rcases devWrite_two idx s with ⟨s1, h1⟩ | ⟨s1, h1⟩
  · rcases devWrite_two dup s1 with ⟨s2, h2⟩ | ⟨s2, h2⟩
    · exact .inl ⟨s1, s2, h1, h2, writeBackDup_ok_ok dup h h1 h2⟩
    · exact .inr (.inl ⟨s1, s2, h1, h2, writeBackDup_ok_err dup h h1 h2⟩)
  · exact .inr (.inr ⟨s1, h1, writeBackDup_err dup h h1⟩)

@[simp] theorem writeBack_vol (s : FS) : (writeBack s).2.vol = s.vol := by
  cases ht : s.cache.tag with
  | none => rw [writeBack_none s ht]
  | some idx =>
    rcases writeBack_cases s idx ht with ⟨s1, h1, h2⟩ | ⟨s1, h1, h2⟩ <;> rw [h2] <;>
      have := devWrite_vol idx s <;> rw [h1] at this <;> exact this
/-- The cached block survives a write-back (the TAG does not when the device write fails). -/
@[simp] theorem writeBack_blk (s : FS) : (writeBack s).2.cache.blk = s.cache.blk := by
  cases ht : s.cache.tag with
  | none => rw [writeBack_none s ht]
  | some idx =>
    rcases writeBack_cases s idx ht with ⟨s1, h1, h2⟩ | ⟨s1, h1, h2⟩ <;> rw [h2] <;>
      have := devWrite_cache idx s <;> rw [h1] at this <;> simp only at this
    · rw [this]
    · show s1.cache.blk = _; rw [this]
theorem writeBack_tag (s : FS) : (writeBack s).2.cache.tag = s.cache.tag ∨ (writeBack s).2.cache.tag = none := by
  cases ht : s.cache.tag with
  | none => rw [writeBack_none s ht]; exact .inl ht
  | some idx =>
    rcases writeBack_cases s idx ht with ⟨s1, h1, h2⟩ | ⟨s1, h1, h2⟩ <;> rw [h2]
    · have := devWrite_cache idx s; rw [h1] at this; simp only at this
      left; rw [this]; exact ht
    · exact .inr rfl
@[simp] theorem writeBack_faults (s : FS) : (writeBack s).2.dev.faults = s.dev.faults := by
  cases ht : s.cache.tag with
  | none => rw [writeBack_none s ht]
  | some idx =>
    rcases writeBack_cases s idx ht with ⟨s1, h1, h2⟩ | ⟨s1, h1, h2⟩ <;> rw [h2] <;>
      have := devWrite_faults idx s <;> rw [h1] at this <;> exact this
@[simp] theorem writeBackWithDuplicate_vol (dup : Nat) (s : FS) : (writeBackWithDuplicate dup s).2.vol = s.vol := by
  cases ht : s.cache.tag with
  | none => rw [writeBackWithDuplicate_none dup s ht]
  | some idx =>
    rcases writeBackDup_cases dup s idx ht with ⟨s1, s2, h1, h2, h3⟩ | ⟨s1, s2, h1, h2, h3⟩ | ⟨s1, h1, h3⟩ <;> rw [h3]
    · have a := devWrite_vol idx s; have b := devWrite_vol dup s1; rw [h1] at a; rw [h2] at b; exact b.trans a
    · have a := devWrite_vol idx s; have b := devWrite_vol dup s1; rw [h1] at a; rw [h2] at b; exact b.trans a
    · have a := devWrite_vol idx s; rw [h1] at a; exact a
@[simp] theorem writeBackWithDuplicate_blk (dup : Nat) (s : FS) : (writeBackWithDuplicate dup s).2.cache.blk = s.cache.blk := by
  cases ht : s.cache.tag with
  | none => rw [writeBackWithDuplicate_none dup s ht]
  | some idx =>
    rcases writeBackDup_cases dup s idx ht with ⟨s1, s2, h1, h2, h3⟩ | ⟨s1, s2, h1, h2, h3⟩ | ⟨s1, h1, h3⟩ <;> rw [h3]
    · have a := devWrite_cache idx s; have b := devWrite_cache dup s1; rw [h1] at a; rw [h2] at b
      simp only at a b; rw [b, a]
    · have a := devWrite_cache idx s; have b := devWrite_cache dup s1; rw [h1] at a; rw [h2] at b
      simp only at a b; show s2.cache.blk = _; rw [b, a]
    · have a := devWrite_cache idx s; rw [h1] at a; simp only at a; show s1.cache.blk = _; rw [a]
theorem writeBackWithDuplicate_tag (dup : Nat) (s : FS) :
    (writeBackWithDuplicate dup s).2.cache.tag = s.cache.tag ∨ (writeBackWithDuplicate dup s).2.cache.tag = none := by
  cases ht : s.cache.tag with
  | none => rw [writeBackWithDuplicate_none dup s ht]; exact .inl ht
  | some idx =>
    rcases writeBackDup_cases dup s idx ht with ⟨s1, s2, h1, h2, h3⟩ | ⟨s1, s2, h1, h2, h3⟩ | ⟨s1, h1, h3⟩ <;> rw [h3]
    · have a := devWrite_cache idx s; have b := devWrite_cache dup s1; rw [h1] at a; rw [h2] at b
      simp only at a b; left; rw [b, a]; exact ht
    · exact .inr rfl
    · exact .inr rfl
@[simp] theorem writeBackWithDuplicate_faults (dup : Nat) (s : FS) :
    (writeBackWithDuplicate dup s).2.dev.faults = s.dev.faults := by
  cases ht : s.cache.tag with
  | none => rw [writeBackWithDuplicate_none dup s ht]
  | some idx =>
    rcases writeBackDup_cases dup s idx ht with ⟨s1, s2, h1, h2, h3⟩ | ⟨s1, s2, h1, h2, h3⟩ | ⟨s1, h1, h3⟩ <;> rw [h3]
    · have a := devWrite_faults idx s; have b := devWrite_faults dup s1; rw [h1] at a; rw [h2] at b; exact b.trans a
    · have a := devWrite_faults idx s; have b := devWrite_faults dup s1; rw [h1] at a; rw [h2] at b; exact b.trans a
    · have a := devWrite_faults idx s; rw [h1] at a; exact a

section WriteBackProj
variable (s : FS) (idx : Nat) (hn : NoFault s) (h : s.cache.tag = some idx)
include hn h

theorem writeBack_fst : (writeBack s).1 = .ok () := by rw [writeBack_eq s idx hn h]
theorem writeBack_disk : (writeBack s).2.dev.disk = s.dev.disk.set idx s.cache.blk := by
  rw [writeBack_eq s idx hn h]
theorem writeBack_wlog : (writeBack s).2.dev.wlog = (idx, s.cache.blk) :: s.dev.wlog := by
  rw [writeBack_eq s idx hn h]
theorem writeBack_noFault : NoFault (writeBack s).2 := by
  rw [writeBack_eq s idx hn h]; exact hn
/-- After a write-back the cache holds what the medium holds, whatever it held before. -/
theorem writeBack_coherent : Coherent (writeBack s).2 := by
  rw [writeBack_eq s idx hn h]
  intro i hi
  have : idx = i := by
    have : some idx = some i := h.symm.trans hi
    exact Option.some.inj this
  subst this
  exact (Disk.get_set_self _ _ _).symm

theorem writeBackWithDuplicate_fst (dup : Nat) : (writeBackWithDuplicate dup s).1 = .ok () := by
  rw [writeBackWithDuplicate_eq dup s idx hn h]
theorem writeBackWithDuplicate_disk (dup : Nat) :
    (writeBackWithDuplicate dup s).2.dev.disk = (s.dev.disk.set idx s.cache.blk).set dup s.cache.blk := by
  rw [writeBackWithDuplicate_eq dup s idx hn h]
theorem writeBackWithDuplicate_wlog (dup : Nat) :
    (writeBackWithDuplicate dup s).2.dev.wlog = (dup, s.cache.blk) :: (idx, s.cache.blk) :: s.dev.wlog := by
  rw [writeBackWithDuplicate_eq dup s idx hn h]
theorem writeBackWithDuplicate_noFault (dup : Nat) : NoFault (writeBackWithDuplicate dup s).2 := by
  rw [writeBackWithDuplicate_eq dup s idx hn h]; exact hn
theorem writeBackWithDuplicate_coherent (dup : Nat) : Coherent (writeBackWithDuplicate dup s).2 := by
  rw [writeBackWithDuplicate_eq dup s idx hn h]
  intro i hi
  have : idx = i := by
    have : some idx = some i := h.symm.trans hi
    exact Option.some.inj this
  subst this
  show s.cache.blk = ((s.dev.disk.set idx s.cache.blk).set dup s.cache.blk).get idx
  rw [Disk.get_set, Disk.get_set_self]; split <;> rfl

end WriteBackProj

/-! ### Preservation of `NoFault` for every primitive (no other hypothesis) -/

theorem writeBack_noFault' (s : FS) (hn : NoFault s) : NoFault (writeBack s).2 := by
  unfold NoFault; rw [writeBack_faults]; exact hn
theorem writeBackWithDuplicate_noFault' (dup : Nat) (s : FS) (hn : NoFault s) :
    NoFault (writeBackWithDuplicate dup s).2 := by
  unfold NoFault; rw [writeBackWithDuplicate_faults]; exact hn

end Sdmmc.Lemmas.FBasic
