/-
C16 with several open volumes — `flush_file` / `close_file` store the free-space record of THEIR volume: the one-volume
theorems `Props.C16Info.flush_stores` / `closeFile_stores` lifted through the projection (`Props.C03Multi.step_proj`: a call
addressed to volume record `i` answers and writes on the real manager what it does on `proj s i`).
-/
import Sdmmc.Props.C16Info
import Sdmmc.Props.C04Multi

namespace Sdmmc.Lemmas.InfoStepN
open Sdmmc.Model Sdmmc.Model.Fat Sdmmc.Spec.Volume
open Sdmmc.Spec hiding run step NoFault Coherent
open Sdmmc.Props
open Sdmmc.Lemmas.FatOps (infoPatch)
open Sdmmc.Props.C16Api (Stores RecordFits)

/-- The first hit of a search survives filtering by a predicate the hit satisfies. -/
theorem findIdx?_filter_first {α : Type} (p q : α → Bool) : ∀ (l : List α) (k : Nat) (x : α),
    l.findIdx? p = some k → l[k]? = some x → q x = true →
    ∃ k', (l.filter q).findIdx? p = some k' ∧ (l.filter q)[k']? = some x
  | [], _, _, h, _, _ => by cases h
  | a :: l, k, x, h, hx, hq => by
    rw [List.findIdx?_cons] at h
    by_cases hpa : p a = true
    · rw [if_pos hpa] at h
      cases h
      have : a = x := by simpa using hx
      subst this
      refine ⟨0, ?_, ?_⟩
      · rw [List.filter_cons_of_pos hq, List.findIdx?_cons, if_pos hpa]
      · rw [List.filter_cons_of_pos hq]; rfl
    · rw [if_neg hpa] at h
      cases hl : l.findIdx? p with
      | none => rw [hl] at h; cases h
      | some k0 =>
        rw [hl] at h
        have hk : k = k0 + 1 := by simpa using h.symm
        subst hk
        obtain ⟨k', h1, h2⟩ := findIdx?_filter_first p q l k0 x hl (by simpa using hx) hq
        by_cases hqa : q a = true
        · refine ⟨k' + 1, ?_, ?_⟩
          · rw [List.filter_cons_of_pos hqa, List.findIdx?_cons, if_neg hpa, h1]; rfl
          · rw [List.filter_cons_of_pos hqa]; simpa using h2
        · refine ⟨k', ?_, ?_⟩
          · rw [List.filter_cons_of_neg hqa]; exact h1
          · rw [List.filter_cons_of_neg hqa]; exact h2

/-- The call through a file handle is addressed to the record of the file's volume. -/
theorem fileTarget_of {s : Mgr} {ghs : List Ghost} (hI : VolInvN s ghs) {h k i : Nat} {f : FileInfo} {vi : VolInfo}
    (hidx : s.files.findIdx? (·.rawFile = h) = some k) (hf : s.files[k]? = some f) (hvi : s.vols[i]? = some vi)
    (hfv : f.rawVolume = vi.rawVolume) : fileTarget s h = some i := by
  unfold fileTarget
  rw [hidx]
  simp only
  rw [hf]
  simp only
  rw [hfv]
  exact Lemmas.VolN.findIdx?_of_nodup hI.handles hvi

/-- **`flush_file` / `close_file` on a manager with several open volumes**: `op` is `.flush h` or `.closeFile h`, `h` the
handle of an open file `f` (first record with that handle) of the FAT32 volume record `i`, written to.  The call answers
`Ok`, and the info sector of THAT volume is afterwards `infoPatch vi.vol` of the one before; no block outside the partition
of that volume changes. -/
theorem flush_or_close_stores_multi {s : Mgr} {ghs : List Ghost} (hI : VolInvN s ghs) (hm : MirrorN s ghs) {h k i : Nat}
    {f : FileInfo} {vi : VolInfo} {gh : Ghost} (hidx : s.files.findIdx? (·.rawFile = h) = some k) (hf : s.files[k]? = some f)
    (hd : f.dirty = true) (hvi : s.vols[i]? = some vi) (hgh : ghs[i]? = some gh) (hfv : f.rawVolume = vi.rawVolume)
    (h32 : vi.vol.fatType = .fat32) (op : Op) (hop : op = .flush h ∨ op = .closeFile h) :
    (step s op).2.result = .ok .unit ∧
    (step s op).1.dev.disk.get vi.vol.infoLocation = infoPatch vi.vol (s.dev.disk.get vi.vol.infoLocation) ∧
    (vi.vol.freeClustersCount = none → vi.vol.nextFreeCluster = none →
      (step s op).1.dev.disk.get vi.vol.infoLocation = s.dev.disk.get vi.vol.infoLocation) ∧
    (RecordFits vi.vol →
      Stores vi.vol (s.dev.disk.get vi.vol.infoLocation) ((step s op).1.dev.disk.get vi.vol.infoLocation)) ∧
    ∀ b, ¬ InPartition vi.vol b → (step s op).1.dev.disk.get b = s.dev.disk.get b := by
  have hvol : vi.vol = gh.vol := hI.vols i vi gh hvi hgh
  have hft := fileTarget_of hI hidx hf hvi hfv
  have ht : target s op = some i := by rcases hop with rfl | rfl <;> exact hft
  have hlf : Lemmas.VolN.LabelFresh s op := by rcases hop with rfl | rfl <;> trivial
  obtain ⟨hout, hrel, _⟩ := C03Multi.step_proj hI op ht hvi hlf
  obtain ⟨_, hL, _, _⟩ := C03Multi.lifted_of_target hI hm op ht hvi hgh hlf
  have hP : VolInv (proj s i) gh := by rw [C03Multi.proj_def hvi]; exact Lemmas.VolN.volInv_proj hI hvi hgh
  obtain ⟨hpf, _, hpd⟩ := C04Multi.proj_tables hvi
  have hpv : (proj s i).vols = [vi] := by unfold proj; rw [hvi]
  obtain ⟨k', hk1, hk2⟩ := findIdx?_filter_first (fun x : FileInfo => decide (x.rawFile = h))
    (fun x : FileInfo => decide (x.rawVolume = vi.rawVolume)) s.files k f hidx hf (by simpa using hfv)
  have hidx' : (proj s i).files.findIdx? (·.rawFile = h) = some k' := by rw [hpf]; exact hk1
  have hf' : (proj s i).files[k']? = some f := by rw [hpf]; exact hk2
  have h32' : gh.vol.fatType = .fat32 := by rw [← hvol]; exact h32
  have key : (step (proj s i) op).2.result = .ok .unit ∧
      (step (proj s i) op).1.dev.disk.get gh.vol.infoLocation = infoPatch vi.vol ((proj s i).dev.disk.get gh.vol.infoLocation) := by
    rcases hop with rfl | rfl
    · obtain ⟨a, _, _, b, _⟩ := C16Info.flush_stores hP h32' hidx' hf' hd hpv
      exact ⟨a, b⟩
    · obtain ⟨a, _, _, b, _⟩ := C16Info.closeFile_stores hP h32' hidx' hf' hd hpv
      exact ⟨a, b⟩
  obtain ⟨k1, k2⟩ := key
  rw [hout] at k1
  rw [hrel.dev, hpd, ← hvol] at k2
  refine ⟨k1, k2, fun hc hh => ?_, fun hfit => ?_, fun b hb => hL.frame b (by rw [← hvol]; exact hb)⟩
  · rw [k2, C16Info.infoPatch_none _ _ hc hh]
  · rw [k2]
    have hb : (s.dev.disk.get vi.vol.infoLocation).length = 512 := by
      have := hP.med.blocksOK vi.vol.infoLocation
      rw [hpd] at this
      exact this
    exact C16Info.stores_infoPatch _ _ hb hfit

end Sdmmc.Lemmas.InfoStepN
