/-
C10 over whole API calls: `write`.

* `write_split` — the set-up of `VolApi.write_core`: the record `gh.G` split around the chain of the written file;
  every directory chain lies in the rest;
* `heads_withChain_prefix` — extending the chain in the middle keeps all first clusters;
* `dirBlocks_frame` — a medium that differs from the one before the call only in FAT blocks and in blocks of the
  clusters of the (final) chain of the file has the directory blocks of the medium before the call;
* `write_core_callC` (writable file), `write_callC` (every outcome).

The crash points come from `CrashWriteCall.write_crash` (a sound record `withChain A csk B` at every prefix of the
device writes, `cs <+: csk <+: cs'`) and `CrashWriteSpec.untouched_of_touch` (blocks outside the FAT and outside the
clusters of `cs'` are those before the call at every prefix) and `write_fatOK` (`VolCrashWriteFat.lean`: all FAT
entries are valid at every prefix); each crash point is then crash-consistent by the interior lemma `ci_of_record`.
-/
import Sdmmc.Lemmas.VolCrashApi
import Sdmmc.Lemmas.VolApiWrite
import Sdmmc.Lemmas.CrashWriteSpec
import Sdmmc.Lemmas.VolCrashWriteFat

namespace Sdmmc.Lemmas.VolCrash
open Sdmmc.Model Sdmmc.Model.Fat Sdmmc.Spec.Volume
open Sdmmc.Spec hiding NoFault Coherent run step
open Sdmmc.Lemmas.FBasic
open Sdmmc.Lemmas.VolBase Sdmmc.Lemmas.VolTree Sdmmc.Lemmas.VolMed Sdmmc.Lemmas.VolDisk Sdmmc.Lemmas.VolEng
open Sdmmc.Lemmas.VolApi Sdmmc.Lemmas.CrashBase Sdmmc.Lemmas.CrashMgr Sdmmc.Lemmas.MHoare

/-! ### The record around the chain of the written file -/

/-- The record of the volume split around the chain of an open file: the chain starts with the cluster the file's
record names, a file without a chain names cluster 0, and every directory chain lies in the rest. -/
theorem write_split {s : Mgr} {gh : Ghost} (hI : VolInv s gh) {f : FileInfo} (hfm : f ∈ s.files) :
    ∃ A B, gh.G = withChain A (chainOf gh.G f.entry.cluster) B ∧
      (chainOf gh.G f.entry.cluster ≠ [] → (chainOf gh.G f.entry.cluster).head? = some f.entry.cluster) ∧
      (chainOf gh.G f.entry.cluster = [] → f.entry.cluster = 0) ∧
      ∀ h, h ∈ dirIds gh.dirs → ¬ isFixedRoot gh.vol h → chainOf gh.G (dirHead gh.vol h) ∈ A ++ B := by
  have hM := medX_of_med hI.med
  have hG : HeadsOK gh.G := med_heads hM
  have hT := hI.med.tree
  generalize hcsdef : chainOf gh.G f.entry.cluster = cs
  have hhead : cs ≠ [] → cs ∈ gh.G ∧ cs.head? = some f.entry.cluster := by
    intro hne
    rw [← hcsdef] at hne ⊢
    exact chainOf_spec hG ((chainOf_ne_nil_iff hG).1 hne)
  obtain ⟨A, B, hGeq⟩ : ∃ A B, gh.G = withChain A cs B := by
    by_cases hne : cs = []
    · exact ⟨[], gh.G, by rw [hne, WriteRefines.withChain_nil]; rfl⟩
    · obtain ⟨A, B, h⟩ := List.append_of_mem (hhead hne).1
      exact ⟨A, B, by rw [WriteRefines.withChain_ne hne, h]; simp⟩
  refine ⟨A, B, hGeq, fun hne => (hhead hne).2,
    fun e => cluster_zero_of_nil hT hG hfm (by rw [hcsdef]; exact e), fun h hh hfx => ?_⟩
  have hdirne : dirHead gh.vol h ≠ f.entry.cluster := by
    intro e
    have h2 : 2 ≤ dirHead gh.vol h := by
      obtain ⟨Y, hY, hYe⟩ := List.mem_map.1 (dirHead_mem hM hh hfx)
      have := hG.ge Y hY
      rw [hYe] at this; exact this
    obtain ⟨n1, n2⟩ := file_cluster_not_dir hT hG hfm (by omega)
    rcases dirHead_cases' (dirs := gh.dirs) hh hfx with h1 | h1
    · exact n1 (e ▸ h1)
    · exact n2 (e ▸ h1)
  obtain ⟨hm, hhd⟩ := dirChain_spec hM hh hfx
  exact mem_rest (by rw [← hGeq]; exact hm) (fun hne => (hhead hne).2) hhd hdirne

/-- Extending the chain in the middle keeps every first cluster of the record. -/
theorem heads_withChain_prefix {A B : List (List Nat)} {cs csk : List Nat} (hp : cs <+: csk) {x : Nat}
    (hx : x ∈ heads (withChain A cs B)) : x ∈ heads (withChain A csk B) := by
  obtain ⟨Y, hY, he⟩ := List.mem_map.1 hx
  rcases mem_withChain hY with hm | ⟨hne, rfl⟩
  · exact List.mem_map.2 ⟨Y, WriteRefines.mem_withChain_of_mem csk hm, he⟩
  · obtain ⟨t, rfl⟩ := hp
    have hnek : Y ++ t ≠ [] := fun e => hne (List.append_eq_nil_iff.1 e).1
    refine List.mem_map.2 ⟨Y ++ t, self_mem_withChain hnek, ?_⟩
    rw [← he]
    cases Y with
    | nil => exact absurd rfl hne
    | cons a l => rfl

/-- The first cluster the record of the written file names afterwards is the one of the chain before, when there
was one. -/
theorem cluster_keep {v : FatVolume} {d : Disk} {f' : FileInfo} {cs cs' : List Nat} {c : Nat} (hok' : FileOK v d f' cs')
    (hpre : cs <+: cs') (hne : cs ≠ []) (hh : cs.head? = some c) : f'.entry.cluster = c := by
  obtain ⟨t, rfl⟩ := hpre
  have hne' : cs ++ t ≠ [] := fun e => hne (List.append_eq_nil_iff.1 e).1
  rcases hok'.chain with ⟨_, h2, _⟩ | hch
  · exact absurd h2 hne'
  · have h1 := ForestBase.chain_head_eq hch
    rw [← h1]
    cases cs with
    | nil => exact absurd rfl hne
    | cons a l => simpa using hh

/-! ### Directory blocks -/

section
variable {v : FatVolume} {d0 : Disk} {files : List FileInfo} {gh : Ghost}

/-- A medium that differs from `d0` at most in FAT blocks and in blocks of the clusters `cs'` — the chain of the
written file in the exact record `withChain A cs' B` of the medium after the call — has the directory blocks of `d0`. -/
theorem dirBlocks_frame (hM : MedX v d0 files gh []) {A B : List (List Nat)} {cs' : List Nat} {v' : FatVolume} {dfin : Disk}
    (hsg : SameGeom v v') (hown' : Owns v' dfin (withChain A cs' B))
    (hdirAB : ∀ h, h ∈ dirIds gh.dirs → ¬ isFixedRoot v h → chainOf gh.G (dirHead v h) ∈ A ++ B)
    {d : Disk} (hfr : ∀ b, ¬ IsFatBlock v b → ¬ IsClusterBlock v cs' b → d.get b = d0.get b) :
    ∀ h, h ∈ dirIds gh.dirs → ∀ sl, sl ∈ dirSlots v d0 gh.G h → d.get sl.1 = d0.get sl.1 := by
  have hownv : Owns v dfin (withChain A cs' B) := WriteRefines.owns_sameGeom hsg.symm hown'
  have hcs'r : ∀ x, x ∈ cs' → InRange v x := by
    intro x hx
    have hne : cs' ≠ [] := by intro e; rw [e] at hx; cases hx
    exact ChainL.chain_inRange (hownv.1 cs' (self_mem_withChain hne)) x hx
  intro h hh sl hsl
  apply hfr
  · intro hfat
    have := WriteRefines.isFatBlock_region hM.geom hfat
    rcases dirSlot_not_fat hM hh hsl with h1 | h1 <;> rw [this] at h1 <;> cases h1
  · intro hcb
    have hreg := WriteRefines.isClusterBlock_region hM.geom hcs'r hcb
    by_cases hfx : isFixedRoot v h
    · rw [dirSlots_fixed hfx] at hsl
      have := fixedRootSlots_region hM.geom hfx.2 hsl
      rw [hreg] at this; cases this
    · rw [dirSlots_chain hfx] at hsl
      obtain ⟨hm, _⟩ := dirChain_spec hM hh hfx
      obtain ⟨c, hc, hrunS⟩ := mem_chainSlots.1 hsl
      obtain ⟨j, q, hj, _, rfl⟩ := mem_runSlots.1 hrunS
      exact WriteRefines.clusterBlock_not_of_not_mem hM.geom hcs'r (med_inRange hM hm hc) hj
        (WriteRefines.withChain_disjoint hownv (hdirAB h hh hfx) c hc) hcb

end

/-! ### `write` on a writable file -/

theorem write_core_callC {s : Mgr} {gh : Ghost} (hI : VolInv s gh) (hR : RawOK gh.vol.fatType s.dev.disk s.files)
    {file i : Nat} {f : FileInfo} (hidx : s.files.findIdx? (·.rawFile = file) = some i) (hf : s.files[i]? = some f)
    (hmode : f.mode ≠ .ReadOnly) (data : Bytes) : CallC gh.vol s (Model.write file data s).2 := by
  have hfm : f ∈ s.files := List.mem_of_getElem? hf
  obtain ⟨vi, hv, hvol, hrv, _⟩ := vol_of_file hI hfm
  have hvfind : s.vols.findIdx? (·.rawVolume = f.rawVolume) = some 0 := by rw [hv]; simp [hrv]
  have hvi : s.vols[0]? = some vi := by rw [hv]; rfl
  have hM := medX_of_med hI.med
  obtain ⟨hok, hcur⟩ := hI.med.fileOK f hfm
  obtain ⟨A, B, hGeq, hhd, hcl0, hdirAB⟩ := write_split hI hfm
  generalize chainOf gh.G f.entry.cluster = cs at hok hcur hGeq hhd hcl0
  have hmok : WriteRefines.MOK s := by
    show _ ∧ _ ∧ _ ∧ _
    exact ⟨hI.noFault, hI.coherent, hI.med.blocksOK, hI.unlocked⟩
  have hg : WFGeom vi.vol := by rw [hvol]; exact hI.med.geom
  have hhint : HintOK vi.vol := by rw [hvol]; exact hI.med.hint
  have hokv : FileOK vi.vol s.dev.disk f cs := by rw [hvol]; exact hok
  have hownv : Owns vi.vol s.dev.disk (withChain A cs B) := by rw [hvol, ← hGeq]; exact hI.med.owns
  -- the end state
  obtain ⟨k, r, s', f', v', cs', hrun, _, _, heq, _, hsg, _, hok', _, hpre, hown', _, _, _, htouch, hwf, _, _⟩ :=
    WriteRefines.write_refines_x s file i 0 data f vi cs A B hmok hidx hf hvfind hvi hmode hg hhint hokv hcur hownv
  -- the crash points
  obtain ⟨k2, r2, s2, v2, cs2, hrun2, _, hpre2, hsg2, hown2, htouch2, hcr⟩ :=
    CrashWriteCall.write_crash s file i 0 data f vi cs A B hmok hidx hf hvfind hvi hmode hg hhint hokv hcur hownv
  have es : s2 = s' := by rw [hrun] at hrun2; exact (congrArg Prod.snd hrun2).symm
  subst es
  -- the FAT entries at the crash points
  have hfat : MCrash (FatEntriesOK vi.vol) s (Model.write file data s).2 :=
    write_fatOK s file i 0 data f vi cs A B hmok hidx hf hvfind hvi hmode hg hhint hokv hcur hownv
  rw [hrun] at hfat
  rw [hvol] at hsg htouch hsg2 htouch2 hcr hfat
  rw [hrun]
  refine ⟨?_, ?_⟩
  · -- every crash point
    obtain ⟨ws, hw, hd, hp⟩ := MCrash.and hcr hfat
    refine ⟨ws, hw, hd, fun j => ?_⟩
    obtain ⟨⟨m, csk, _, hp1, _, hsound, _⟩, hFj⟩ := hp j
    refine ci_of_record hM hR hsound (fun x hx => ?_) (fun h hh hfx => ?_)
      (dirBlocks_frame hM hsg2 hown2 hdirAB fun b h1 h2 => CrashWriteSpec.untouched_of_touch htouch2 hw j b h1 h2) hFj
    · have := rawRefs_heads hM hR hx
      rw [hGeq] at this
      exact heads_withChain_prefix hp1 this
    · exact WriteRefines.mem_withChain_of_mem csk (hdirAB h hh hfx)
  · -- the open files afterwards
    show RawOK gh.vol.fatType s2.dev.disk s2.files
    have hfiles' : s2.files = s.files.set i f' := congrArg Mgr.files heq
    have hRd : RawOK gh.vol.fatType s2.dev.disk s.files :=
      rawOK_dirBlocks hM hR (dirBlocks_frame hM hsg hown' hdirAB htouch.disk)
    rw [hfiles']
    intro g hg
    rcases List.mem_or_eq_of_mem_set hg with hg | hg
    · exact hRd g hg
    · unfold WriteRefines.WriteFile at hwf
      have e1 : f'.entry.entryBlock = f.entry.entryBlock := by rw [hwf]
      have e2 : f'.entry.entryOffset = f.entry.entryOffset := by rw [hwf]
      have := hRd f hfm
      rw [hg, e1, e2]
      by_cases hne : cs = []
      · rw [hcl0 hne] at this
        exact .inl (this.elim id id)
      · rw [cluster_keep hok' hpre hne (hhd hne)]
        exact this

/-! ### The API function -/

/-- **`write`**: every prefix of the device writes of the call leaves a crash-consistent medium, and the on-disk
slots of the open files afterwards name no cluster or the one their records name — whatever the call answers. -/
theorem write_callC {s : Mgr} {gh : Ghost} (hI : VolInv s gh) (hR : RawOK gh.vol.fatType s.dev.disk s.files)
    (file : Nat) (data : Bytes) : CallC gh.vol s (Model.write file data s).2 := by
  cases hidx : s.files.findIdx? (·.rawFile = file) with
  | none =>
    have : Model.write file data s = (.err .BadHandle, s) := by
      unfold Model.write
      rw [bind_err (getFileById_bad hidx)]
    rw [this]; exact callC_refl (ci_start hI hR) hR
  | some i =>
    obtain ⟨f, hf, _⟩ := findIdx?_some_get hidx
    by_cases hmode : f.mode = .ReadOnly
    · obtain ⟨vi, hv, _, hrv, _⟩ := vol_of_file hI (List.mem_of_getElem? hf)
      have hvfind : s.vols.findIdx? (·.rawVolume = f.rawVolume) = some 0 := by rw [hv]; simp [hrv]
      rw [WriteRefines.write_readOnly s file i 0 data f hidx hf hvfind hmode]
      exact callC_refl (ci_start hI hR) hR
    · exact write_core_callC hI hR hidx hf hmode data

end Sdmmc.Lemmas.VolCrash
