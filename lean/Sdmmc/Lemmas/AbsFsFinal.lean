/-
C02, the closed statement: along a history with clock movements the crash invariant `VolInvC` is kept and the
medium keeps mounting (`history_clk_mounts`) — the hypothesis of `remount_same_tree` / `fresh_reader`.
-/
import Sdmmc.Lemmas.AbsFsRemount8
import Sdmmc.Props.C10Inv

namespace Sdmmc.Lemmas.AbsFs
open Sdmmc.Model Sdmmc.Model.Fat Sdmmc.Spec.Volume
open Sdmmc.Spec hiding run step NoFault Coherent
open Sdmmc.Spec.AbsFs (Ev CEv runClk NoOpenVolume)
open Sdmmc.Props.C03Inv (CoveredAll)

theorem coveredAll_of_not_openVolume (v0 : FatVolume) (s : Mgr) {op : Op} (h : ∀ i, op ≠ .openVolume i) : CoveredAll v0 s op := by
  cases op with
  | openVolume i => exact absurd rfl (h i)
  | openDir d n => exact nameOK_all n
  | openFile d n m => exact nameOK_all n
  | delete d n => exact nameOK_all n
  | mkdir d n => exact nameOK_all n
  | _ => trivial

theorem nameCovered_all (op : Op) : Sdmmc.Lemmas.WriteSetInv.NameCovered op := by
  cases op with
  | openFile d n m => exact nameOK_all n
  | delete d n => exact nameOK_all n
  | mkdir d n => exact nameOK_all n
  | _ => trivial

theorem volInvC_clock {s : Mgr} {gh : Ghost} (hI : VolInvC s gh) (t : Timestamp) : VolInvC { s with clock := t } gh :=
  ⟨volInv_clock hI.inv t, hI.mirror, hI.raw⟩

theorem noOpenVolume_take : ∀ (es : List CEv) (k : Nat), NoOpenVolume es → NoOpenVolume (es.take k)
  | [], k, _ => by rw [List.take_nil]; trivial
  | _ :: _, 0, _ => trivial
  | .tick t :: es, k + 1, h => noOpenVolume_take es k h
  | .call op :: es, k + 1, h => by
    rw [List.take_succ_cons]
    cases op with
    | openVolume i => exact h.elim
    | _ => exact noOpenVolume_take es k h

/-- **The crash invariant is kept and the medium keeps mounting** along every history with clock movements (no
`open_volume`): if the medium at the start mounts (partition `idx`) to a record with the geometry of the volume, so
does the medium at the end. -/
theorem history_clk_mounts : ∀ (es : List CEv) {s : Mgr} {gh : Ghost}, VolInvC s gh → NoOpenVolume es →
    ∀ (idx : Nat) (vm : FatVolume), mountPure (s.dev.disk.get 0) idx s.dev.disk.get = .ok vm → SameGeom vm gh.vol →
    ∃ gh' w, VolInvC (runClk s es).1 gh' ∧ SameGeom gh.vol gh'.vol ∧
      mountPure ((runClk s es).1.dev.disk.get 0) idx (runClk s es).1.dev.disk.get = .ok w ∧ SameGeom gh.vol w
  | [], _, gh, hI, _, _, vm, hm, hsg => ⟨gh, vm, hI, SameGeom.refl _, hm, hsg.symm⟩
  | .tick t :: es, s, gh, hI, hn, idx, vm, hm, hsg =>
    history_clk_mounts es (s := { s with clock := t }) (volInvC_clock hI t) hn idx vm hm hsg
  | .call op :: es, s, gh, hI, hn, idx, vm, hm, hsg => by
    have hop : ∀ i, op ≠ .openVolume i := by intro i e; subst e; exact hn
    have hn' : NoOpenVolume es := by
      cases op <;> first | exact hn | exact absurd rfl (hop _)
    obtain ⟨gh1, hI1, hg1⟩ := Sdmmc.Props.C10Inv.api_step_invariantC gh.vol s op gh hI (SameGeom.refl _)
      (coveredAll_of_not_openVolume gh.vol s hop)
    obtain ⟨w1, hw1, hs1⟩ := Sdmmc.Lemmas.VolCrash.step_mounts_after hI op (nameCovered_all op) idx vm hm hsg
    obtain ⟨gh', w, h1, h2, h3, h4⟩ := history_clk_mounts es hI1 hn' idx w1 hw1 ((hg1.symm.trans hs1).symm)
    exact ⟨gh', w, h1, hg1.trans h2, h3, hg1.trans h4⟩

end Sdmmc.Lemmas.AbsFs
