/-
Tie of `ShortFileName` (filesystem/filename.rs) to the source text (`Props/C18GenM`): the machine translation in
`Gen/FunsName.lean` (tools/translate_name.py) of `create_from_str` — the `for ch in name.chars()` loop with its `match`,
the period handling, the 8 / 3 limits, the 0xE5 → 0x05 substitution — equals the hand-written model `Model/Name.lean`.
-/
import Sdmmc.Gen.FunsName
import Sdmmc.Model.Name

namespace Sdmmc.Lemmas.GenName
open Sdmmc.Model Sdmmc.Gen Sdmmc.Gen.FunsName

/-- The model's `Result<_, FilenameError>` as an outcome of the generated code (which can also panic). -/
def ofExcept {α : Type} : Except FnErr α → N α
  | .ok a => NRes.ok a
  | .error e => NRes.err e

@[simp] theorem pure_bind {α β : Type} (a : α) (f : α → N β) : (pure a : N α) >>= f = f a := rfl
@[simp] theorem fail_bind {α β : Type} (e : FnErr) (f : α → N β) : (N.fail e : N α) >>= f = N.fail e := rfl
theorem ite_bind {α β : Type} (c : Prop) [Decidable c] (a b : N α) (f : α → N β) :
    (if c then a else b) >>= f = if c then a >>= f else b >>= f := by split <;> rfl

theorem ofNat_mod256 (n : Nat) : UInt8.ofNat (n % 256) = UInt8.ofNat n := by
  apply UInt8.eq_of_toBitVec_eq
  apply BitVec.eq_of_toNat_eq
  simp [UInt8.ofNat]

theorem invalid_iff (ch : Nat) :
    ((0 ≤ ch ∧ ch ≤ 31) ∨ ch = 34 ∨ ch = 42 ∨ ch = 43 ∨ ch = 44 ∨ ch = 47 ∨ ch = 58 ∨ ch = 59 ∨ ch = 60 ∨ ch = 61 ∨ ch = 62 ∨
      ch = 63 ∨ ch = 91 ∨ ch = 92 ∨ ch = 93 ∨ ch = 32 ∨ ch = 124) ↔ Sfn.invalidChar ch = true := by
  simp [Sfn.invalidChar, Bool.or_eq_true, or_assoc]

/-- The model's loop, with the outcome the generated loop hands on: the index and the contents. -/
def modelLoop (chars : List Nat) (idx : Nat) (sd : Bool) (sfn : Bytes) : N (Nat × List UInt8) :=
  ofExcept ((Sfn.loop { contents := sfn, idx := idx, seenDot := sd } chars).map fun st => (st.idx, st.contents))

theorem loop_cons (st : Sfn.PState) (c : Nat) (cs : List Nat) :
    Sfn.loop st (c :: cs) = (match Sfn.step st c with
      | .ok st' => Sfn.loop st' cs
      | .error e => .error e) := by rfl

theorem modelLoop_cons (ch : Nat) (rest : List Nat) (idx : Nat) (sd : Bool) (sfn : Bytes) :
    modelLoop (ch :: rest) idx sd sfn =
      match Sfn.step { contents := sfn, idx := idx, seenDot := sd } ch with
      | .ok st => modelLoop rest st.idx st.seenDot st.contents
      | .error e => N.fail e := by
  unfold modelLoop
  rw [loop_cons]
  cases Sfn.step { contents := sfn, idx := idx, seenDot := sd } ch <;> rfl

/-- The loop of `create_from_str` is the model's `loop`. -/
theorem loop_eq (chars : List Nat) : ∀ (idx : Nat) (sd : Bool) (sfn : Bytes),
    ShortFileName_create_from_str_loop1 chars idx sd sfn = modelLoop chars idx sd sfn := by
  induction chars with
  | nil =>
    intro idx sd sfn
    rw [ShortFileName_create_from_str_loop1]
    rfl
  | cons ch rest ih =>
    intro idx sd sfn
    rw [ShortFileName_create_from_str_loop1, modelLoop_cons, Sfn.step]
    simp only [invalid_iff, Sfn.BASE_LEN, Sfn.TOTAL_LEN, SFN_BASE_LEN, SFN_TOTAL_LEN]
    by_cases hinv : Sfn.invalidChar ch = true
    · simp [hinv]
    · simp only [hinv, Bool.false_eq_true, if_false]
      by_cases hbig : ch > 255
      · simp [hbig]
      · simp only [hbig, if_false]
        by_cases hdot : ch = 46
        · simp only [hdot, if_true]
          by_cases hc : (1 ≤ idx ∧ idx ≤ 8) ∧ ¬ (sd = true)
          · have hc' : 1 ≤ idx ∧ idx ≤ 8 ∧ (!sd) = true := ⟨hc.1.1, hc.1.2, by simpa using hc.2⟩
            simp only [hc, hc', if_true, pure_bind, and_self]
            exact ih 8 true sfn
          · have hc' : ¬ (1 ≤ idx ∧ idx ≤ 8 ∧ (!sd) = true) := by
              intro h; exact hc ⟨⟨h.1, h.2.1⟩, by simpa using h.2.2⟩
            simp only [hc, hc', if_false, fail_bind]
        · simp only [hdot, if_false, ofNat_mod256]
          have hup : (if 97 ≤ ch ∧ ch ≤ 122 then ch - 32 else ch) = Sfn.upper ch := rfl
          simp only [hup]
          by_cases hsd : sd = true
          · simp only [hsd, if_true]
            by_cases hr : 8 ≤ idx ∧ idx < 11
            · have h11 : idx < 11 := hr.2
              have hov : idx + 1 < 4294967296 := by omega
              simp only [hr, h11, hov, if_true, pure_bind, and_self]
              exact ih (idx + 1) true _
            · simp only [hr, if_false, fail_bind]
          · simp only [hsd, if_false, Bool.false_eq_true]
            by_cases hr : idx < 8
            · have h11 : idx < 11 := by omega
              have hov : idx + 1 < 4294967296 := by omega
              simp only [hr, h11, hov, if_true, pure_bind]
              have : sd = false := by simpa using hsd
              subst this
              exact ih (idx + 1) false _
            · simp only [hr, if_false, fail_bind]


theorem parent_dir_eq : ShortFileName_parent_dir = Sfn.parentDir := rfl
theorem this_dir_eq : ShortFileName_this_dir = Sfn.thisDir := rfl

theorem kanji_eq (sfn : Bytes) :
    (if rdByte sfn 0 = 229 then List.set sfn 0 (UInt8.ofNat 5) else sfn) = Sfn.kanjiStore sfn := by
  cases sfn with
  | nil => rfl
  | cons b rest =>
    show (if b.toNat = 229 then UInt8.ofNat 5 :: rest else b :: rest) = _
    show _ = (if b.toNat = 0xE5 then UInt8.ofNat 0x05 else b) :: rest
    split <;> rfl

/-- **`ShortFileName::create_from_str`** as translated from the source is the model's `createFromStr`, for every
list of code points. -/
theorem create_from_str_eq (name : List Nat) :
    ShortFileName_create_from_str name = ofExcept (Sfn.createFromStr name) := by
  unfold ShortFileName_create_from_str Sfn.createFromStr
  by_cases h1 : name = [46, 46]
  · simp only [h1, if_true, parent_dir_eq]; rfl
  · simp only [h1, if_false]
    by_cases h2 : name = [] ∨ name = [46]
    · simp only [h2, if_true, this_dir_eq]; rfl
    · simp only [h2, if_false, loop_eq, modelLoop, Sfn.TOTAL_LEN, SFN_TOTAL_LEN]
      cases Sfn.loop { contents := List.replicate 11 (UInt8.ofNat 32), idx := 0, seenDot := false } name with
      | error e => rfl
      | ok st =>
        show ((if st.idx = 0 then N.fail FnErr.FilenameEmpty else pure ()) >>= fun _ =>
          (if rdByte st.contents 0 = 229 then pure (List.set st.contents 0 (UInt8.ofNat 5)) else pure st.contents) >>=
            fun sfn => (pure sfn : N Bytes)) = _
        by_cases h0 : st.idx = 0
        · simp only [h0, if_true, fail_bind]; rfl
        · simp only [h0, if_false, pure_bind]
          rw [← kanji_eq]
          split <;> rfl

/-! ### `impl Display for ShortFileName` -/

theorem write_write (f : Fmt) (a b : List Nat) : (f.write a).write b = f.write (a ++ b) := by
  simp [Fmt.write, List.append_assoc]
theorem write_nil (f : Fmt) : f.write [] = f := by simp [Fmt.write]

theorem displayAux_nil (i : Nat) : Sfn.displayAux i [] = [] := by rw [Sfn.displayAux]
theorem displayAux_cons (i : Nat) (c : UInt8) (rest : Bytes) :
    Sfn.displayAux i (c :: rest) =
      if c.toNat ≠ 32 then (if i = Sfn.BASE_LEN then [0x2E, c.toNat] else [c.toNat]) ++ Sfn.displayAux (i + 1) rest
      else Sfn.displayAux (i + 1) rest := by rw [Sfn.displayAux]

theorem displayAux_len (cs : Bytes) : ∀ i, (Sfn.displayAux i cs).length ≤ 2 * cs.length := by
  induction cs with
  | nil => intro i; rw [displayAux_nil]; simp
  | cons c rest ih =>
    intro i
    rw [displayAux_cons]
    have := ih (i + 1)
    split
    · split <;> simp only [List.length_append, List.length_cons, List.length_nil] <;> omega
    · simp only [List.length_cons]; omega

/-- The print loop of `Display`, away from the first byte. -/
theorem fmt_loop_pos (cs : Bytes) : ∀ (i : Nat) (f : Fmt) (p : Nat), 1 ≤ i → p + 2 * cs.length < 4294967296 →
    ShortFileName_fmt_loop1 cs i f p = pure (f.write (Sfn.displayAux i cs), p + (Sfn.displayAux i cs).length) := by
  induction cs with
  | nil =>
    intro i f p _ _
    rw [ShortFileName_fmt_loop1, displayAux_nil, write_nil]; rfl
  | cons c rest ih =>
    intro i f p hi hp
    rw [ShortFileName_fmt_loop1, displayAux_cons]
    have hi0 : ¬ i = 0 := by omega
    simp only [List.length_cons] at hp
    simp only [hi0, false_and, if_false]
    by_cases hc : c.toNat ≠ 32
    · rw [if_pos hc, if_pos hc]
      by_cases h8 : i = Sfn.BASE_LEN
      · have h8' : i = 8 := h8
        have hp1 : p + 1 < 4294967296 := by omega
        have hp2 : p + 1 + 1 < 4294967296 := by omega
        rw [if_pos h8', if_pos h8]
        simp only [hp1, hp2, if_true, pure_bind, write_write]
        rw [ih (i + 1) _ _ (by omega) (by omega), write_write]
        simp only [List.length_append, List.length_cons, List.length_nil]
        congr 2; omega
      · have h8' : ¬ i = 8 := h8
        have hp1 : p + 1 < 4294967296 := by omega
        rw [if_neg h8', if_neg h8]
        simp only [hp1, if_true, pure_bind]
        rw [ih (i + 1) _ _ (by omega) (by omega), write_write]
        simp only [List.length_append, List.length_cons, List.length_nil]
        congr 2; omega
    · rw [if_neg hc, if_neg hc]
      simp only [pure_bind]
      rw [ih (i + 1) _ _ (by omega) (by omega)]


/-- The print loop from the first byte on: the 0x05 → 0xE5 substitution is the model's `kanjiShow`. -/
theorem fmt_loop_zero (cs : Bytes) (f : Fmt) (hl : 2 * cs.length < 4294967296) :
    ShortFileName_fmt_loop1 cs 0 f 0 = pure (f.write (Sfn.display cs), (Sfn.display cs).length) := by
  unfold Sfn.display
  cases cs with
  | nil => rw [ShortFileName_fmt_loop1]; simp [Sfn.kanjiShow, displayAux_nil, write_nil]
  | cons c rest =>
    rw [ShortFileName_fmt_loop1]
    simp only [List.length_cons] at hl
    have hk : Sfn.kanjiShow (c :: rest) = (if c.toNat = 0x05 then UInt8.ofNat 0xE5 else c) :: rest := rfl
    rw [hk, displayAux_cons]
    have h08 : ¬ (0 = Sfn.BASE_LEN) := by decide
    have h08' : ¬ ((0 : Nat) = 8) := by decide
    simp only [true_and, h08, h08', if_false]
    have hcc : (if c.toNat = 5 then 229 else c.toNat) = (if c.toNat = 0x05 then UInt8.ofNat 0xE5 else c).toNat := by
      split <;> rfl
    rw [hcc]
    generalize (if c.toNat = 0x05 then UInt8.ofNat 0xE5 else c) = c'
    by_cases hc : c'.toNat ≠ 32
    · rw [if_pos hc, if_pos hc]
      simp only [pure_bind, show (0 + 1 < 4294967296) from by decide, if_true]
      rw [fmt_loop_pos rest 1 _ _ (Nat.le_refl _) (by omega), write_write]
      simp only [List.length_append, List.length_cons, List.length_nil]
    · rw [if_neg hc, if_neg hc]
      simp only [pure_bind]
      rw [fmt_loop_pos rest 1 _ _ (Nat.le_refl _) (by omega)]
      simp

/-- The padding loop. -/
theorem pad_loop (n : Nat) : ∀ f : Fmt, ShortFileName_fmt_loop2 n f = pure (f.write (List.replicate n f.fill)) := by
  induction n with
  | zero => intro f; rw [ShortFileName_fmt_loop2]; simp [write_nil]
  | succ k ih =>
    intro f
    rw [ShortFileName_fmt_loop2]
    simp only [pure_bind]
    rw [ih, write_write]
    rfl

/-- What `{:w$}` adds after the name: `fill` up to the width. -/
def padding (f : Fmt) (printed : Nat) : List Nat :=
  match f.width with
  | some w => List.replicate (w - printed) f.fill
  | none => []

/-- **`impl Display for ShortFileName`**: the model's `display`, then the padding. -/
theorem fmt_eq (contents : Bytes) (f : Fmt) (hl : 2 * contents.length < 4294967296) :
    ShortFileName_fmt contents f =
      pure (f.write (Sfn.display contents ++ padding f (Sfn.display contents).length)) := by
  unfold ShortFileName_fmt
  simp only []
  rw [fmt_loop_zero contents f hl]
  simp only [pure_bind]
  unfold padding
  have hw : (f.write (Sfn.display contents)).width = f.width := rfl
  have hf : (f.write (Sfn.display contents)).fill = f.fill := rfl
  rw [hw]
  cases f.width with
  | none => simp [write_write]
  | some w =>
    simp only []
    by_cases hgt : w > (Sfn.display contents).length
    · have hle : (Sfn.display contents).length ≤ w := Nat.le_of_lt hgt
      simp only [hgt, hle, if_true, Nat.sub_zero, pad_loop, pure_bind, write_write, hf]
    · simp only [hgt, if_false, pure_bind]
      have : w - (Sfn.display contents).length = 0 := by omega
      rw [this]
      simp

end Sdmmc.Lemmas.GenName
