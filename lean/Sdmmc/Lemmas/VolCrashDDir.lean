/-
Clause 5 of C10 at API level: `VolCrashXDir.lean` restated for `CIXP P` — `write_new_directory_entry`.  A directory that
grows gets a BLANK cluster, and the new entry goes into its first slot: on the final medium every cluster of every
directory satisfies `P` or is an `InitCluster` (`writeNew_cixp`, the clause it exports).
-/
import Sdmmc.Lemmas.VolCrashDStep
import Sdmmc.Lemmas.VolCrashXDir

namespace Sdmmc.Lemmas.VolCrashD
open Sdmmc.Lemmas.VolCrash Sdmmc.Lemmas.VolCrashX
open Sdmmc.Model Sdmmc.Model.Fat Sdmmc.Spec.Volume Sdmmc.Lemmas.VolBase Sdmmc.Lemmas.VolTree
open Sdmmc.Spec hiding NoFault Coherent
open Sdmmc.Lemmas.VolDisk Sdmmc.Lemmas.VolMed Sdmmc.Lemmas.VolWalk Sdmmc.Lemmas.VolEng
open Sdmmc.Lemmas.FBasic
open Sdmmc.Lemmas.FatOps hiding BlocksOK Mirror HintOK
open Sdmmc.Lemmas.CrashBase

/-! ### The walk lemmas with the write log -/

theorem writeNew_fixedRoot_w (s : FS) (name : Bytes) (att fc : Nat) (now : Timestamp) (hn : NoFault s) (hc : Coherent s)
    (h16 : s.vol.fatType = .fat16) :
    match (fixedRootSlots s.vol s.dev.disk).find? isFreeSlot with
    | some slot => ∃ s', writeNewDirectoryEntry Gen.CLUSTER_ROOT_DIR name att fc now s =
          (.ok (DirEntry.new name att fc now slot.1 slot.2.1), s') ∧ Wrote name att fc now slot s s'
    | none => ∃ s', writeNewDirectoryEntry Gen.CLUSTER_ROOT_DIR name att fc now s = (.err .NotEnoughSpace, s') ∧
        s'.dev.disk = s.dev.disk ∧ s'.vol = s.vol ∧ NoFault s' ∧ Coherent s' ∧ s'.dev.wlog = s.dev.wlog := by
  have hw := dirWalkStart_fixedRoot s.vol h16
  unfold fixedRootSlots
  split
  · rename_i slot hf
    obtain ⟨s', h, hwr⟩ := writeNewWalk_here name att fc now (chainFuel s.vol)
      (dirWalkStart s.vol Gen.CLUSTER_ROOT_DIR) s hn hc slot (by rw [hw]; exact hf)
    refine ⟨s', ?_, hwr⟩
    unfold writeNewDirectoryEntry
    simp only [bind_apply, getVol_apply]
    exact h
  · rename_i hf
    obtain ⟨s', h, hd, hv, hn', hc', hwl⟩ := writeNewWalk_fixed_full name att fc now (chainFuel s.vol)
      (dirWalkStart s.vol Gen.CLUSTER_ROOT_DIR) s hn hc (by rw [hw]) (by rw [hw]; exact hf)
    refine ⟨s', ?_, hd, hv, hn', hc', hwl⟩
    unfold writeNewDirectoryEntry
    simp only [bind_apply, getVol_apply]
    exact h

theorem writeNew_chain_found_w (s : FS) (dirCluster : Nat) (cs : List Nat) (name : Bytes) (att fc : Nat)
    (now : Timestamp) (hn : NoFault s) (hc : Coherent s)
    (hkind : ¬ (s.vol.fatType = .fat16 ∧ dirCluster = 0xFFFFFFFC))
    (hch : Listing.DirChain s.vol s.dev.disk (Listing.startCluster s.vol dirCluster :: cs))
    (hlen : cs.length ≤ s.vol.clusterCount + 2) (slot : Slot)
    (hf : (chainSlots s.vol s.dev.disk (Listing.startCluster s.vol dirCluster :: cs)).find? isFreeSlot = some slot) :
    ∃ s', writeNewDirectoryEntry dirCluster name att fc now s =
        (.ok (DirEntry.new name att fc now slot.1 slot.2.1), s') ∧ Wrote name att fc now slot s s' := by
  obtain ⟨h1, h2, h3, h4⟩ := Listing.dirWalkStart_chain s.vol dirCluster hkind
  obtain ⟨s', h, hwr⟩ := writeNewWalk_chain_found s.vol name att fc now cs
    (Listing.startCluster s.vol dirCluster) (chainFuel s.vol + 1) (dirWalkStart s.vol dirCluster) s hn hc rfl hch
    (by unfold chainFuel; omega) h1 h2 h3 h4 slot hf
  refine ⟨s', ?_, hwr⟩
  unfold writeNewDirectoryEntry
  simp only [bind_apply, getVol_apply]
  exact h

section
variable {files : List FileInfo} {gh : Ghost} {X : List (List Nat)} {P : Nat → Prop}

/-- The directory `h` grew by the cluster `c`, which is an `InitCluster` of `d`; every other chain is as before. -/
theorem grow_dirInit {P : Nat → Prop} {v v' : FatVolume} {d : Disk} {G G1 : List (List Nat)} {dirs : List (Nat × Nat)}
    {h c : Nat} (hold : ∀ x, x ∈ dirIds dirs → ∀ c', c' ∈ dirClusters v G x → P c') (hf : ¬ isFixedRoot v h)
    (hch : chainOf G1 (dirHead v h) = chainOf G (dirHead v h) ++ [c])
    (hoth : ∀ x, x ≠ dirHead v h → chainOf G1 x = chainOf G x)
    (hinj : ∀ x, x ∈ dirIds dirs → ¬ isFixedRoot v x → x ≠ h → dirHead v x ≠ dirHead v h)
    (hI : InitCluster v d c) : DirClustersInit v P d { vol := v', G := G1, dirs := dirs } := by
  intro x hx c' hc'
  by_cases hfx : isFixedRoot v x
  · rw [dirClusters_fixed hfx] at hc'; cases hc'
  · have hcl : ∀ G', dirClusters v G' x = chainOf G' (dirHead v x) := fun G' => by
      rw [dirClusters_eq]; unfold dirChain; rw [if_neg hfx]
    rw [hcl] at hc'
    by_cases hxh : x = h
    · subst hxh
      rw [hch] at hc'
      rcases List.mem_append.1 hc' with h1 | h1
      · exact .inl (hold x hx c' (by rw [hcl]; exact h1))
      · rw [List.mem_singleton.1 h1]; exact .inr hI
    · rw [hoth _ (hinj x hx hfx hxh)] at hc'
      exact .inl (hold x hx c' (by rw [hcl]; exact hc'))

/-- One slot of 32 bytes written at the beginning of a blank cluster. -/
theorem initCluster_first_slot {v : FatVolume} {d : Disk} {c : Nat} {bytes : Bytes} (hz : ClusterZero v d c)
    (hpos : 0 < v.blocksPerCluster) (hb : bytes.length = 32) :
    InitCluster v (d.set (clusterToBlock v c) (splice (d.get (clusterToBlock v c)) 0 bytes)) c := by
  have h0 : d.get (clusterToBlock v c) = zeroBlock := by
    have := hz 0 hpos
    rwa [Nat.add_zero] at this
  refine ⟨fun i hi => ?_, fun j hj0 hj => ?_⟩
  · rw [FBasic.Disk.get_set, if_pos rfl, h0,
      FatLens.byteAt_splice_outside _ _ _ _ (by rw [hb]; unfold zeroBlock zeros; rw [List.length_replicate]; omega) (.inr (by rw [hb]; omega))]
    exact (initCluster_of_zero hz hpos).1 i hi ▸ by rw [h0]
  · rw [FBasic.Disk.get_set, if_neg (by omega)]
    exact hz j hj


/-- One block write, the medium before which is crash-consistent. -/
theorem lastWrite_cixp {v : FatVolume} {s s' : FS} {b : Nat} {p : Block} (hw : s'.dev.wlog = (b, p) :: s.dev.wlog)
    (hd : s'.dev.disk = s.dev.disk.set b p) (h0 : CIXP P v s.dev.disk) :
    CrashAll (fun d => CIXP P v d ∨ d = s'.dev.disk) s s' :=
  (CrashData.single_write_crash hw hd).mono fun _ hd' => hd'.elim (fun e => .inl (e ▸ h0)) .inr

/-- **`write_new_directory_entry` with its crash points.** -/
theorem writeNew_cixp {fs : FS} (hM : MedX fs.vol fs.dev.disk files gh X) (hR : RawOKX fs.vol.fatType fs.dev.disk files) (hUG : ∀ c, c ∈ gh.G.flatten → P c)
    (hn : NoFault fs) (hc : Coherent fs) {dc : Nat}
    (hv : ValidDir gh.dirs dc) (name : Bytes) (hname : name.length = 11) (att fc : Nat) (now : Timestamp) :
    ∃ r fs', writeNewDirectoryEntry dc name att fc now fs = (r, fs') ∧ NoFault fs' ∧ Coherent fs' ∧
      ((r = .err .NotEnoughSpace ∧ fs'.dev.disk = fs.dev.disk ∧ fs'.vol = fs.vol ∧ fs'.dev.wlog = fs.dev.wlog) ∨
       (∃ v1 d1 G1 pre post old, Staged fs fs' files gh X (dirIdOf dc) (fun _ => True) r v1 d1 G1 pre post old ∧
          r = .ok (DirEntry.new name att fc now old.1 old.2.1) ∧
          fs'.dev.disk = d1.set old.1 (splice (d1.get old.1) old.2.1
            (DirEntry.serialize v1.fatType (DirEntry.new name att fc now old.1 old.2.1))) ∧
          RawOKX v1.fatType d1 files ∧
          DirClustersInit v1 P fs'.dev.disk { vol := v1, G := G1, dirs := gh.dirs } ∧
          CrashAll (fun d => CIXP P fs.vol d ∨ d = fs'.dev.disk) fs fs')) := by
  obtain ⟨hh, hcase⟩ := dir_walk_facts hM hv
  have hci0 := cixp_of_medX hM hR (dirInit_of_G hM hUG)
  have hgh : MedX fs.vol fs.dev.disk files { vol := fs.vol, G := gh.G, dirs := gh.dirs } X :=
    ⟨hM.blocksOK, hM.geom, hM.hint, hM.owns, hM.tree, hM.fileOK⟩
  -- the outcome when a free slot exists in the present slot list
  have hfound : ∀ slot, (dirSlots fs.vol fs.dev.disk gh.G (dirIdOf dc)).find? isFreeSlot = some slot →
      ∀ fs', Wrote name att fc now slot fs fs' →
        ∃ v1 d1 G1 pre post old, Staged fs fs' files gh X (dirIdOf dc) (fun _ => True)
            (.ok (DirEntry.new name att fc now slot.1 slot.2.1)) v1 d1 G1 pre post old ∧
          (Res.ok (DirEntry.new name att fc now slot.1 slot.2.1) : Res DirEntry) =
            .ok (DirEntry.new name att fc now old.1 old.2.1) ∧
          fs'.dev.disk = d1.set old.1 (splice (d1.get old.1) old.2.1
            (DirEntry.serialize v1.fatType (DirEntry.new name att fc now old.1 old.2.1))) ∧
          RawOKX v1.fatType d1 files ∧
          DirClustersInit v1 P fs'.dev.disk { vol := v1, G := G1, dirs := gh.dirs } ∧
          CrashAll (fun d => CIXP P fs.vol d ∨ d = fs'.dev.disk) fs fs' := by
    intro slot hfs fs' hwr
    obtain ⟨hd', hv', _, _, _, hw'⟩ := hwr
    obtain ⟨pre, post, hsp, hpre, hlen, hfree⟩ := free_split hM hh hfs
    exact ⟨fs.vol, fs.dev.disk, gh.G, pre, post, slot,
      ⟨SameGeom.refl _, hgh, fun _ _ => rfl, fun _ _ _ _ _ _ => rfl, hsp, hpre, hlen, hfree, hv', rfl, fun _ _ _ _ => rfl⟩,
      rfl, hd', hR, dirInit_of_all fun x hx c hc => hUG c (dirCluster_memG hM hx hc), lastWrite_cixp hw' hd' hci0⟩
  rcases hcase with ⟨hdc, h16, hsl⟩ | ⟨hkind, hnf, cs, hchain, hstart, hch, hlen, hsl⟩
  · -- the FAT16 fixed root
    subst hdc
    have := writeNew_fixedRoot_w fs name att fc now hn hc h16
    rw [← hsl] at this
    cases hfs : (dirSlots fs.vol fs.dev.disk gh.G (dirIdOf 4294967292)).find? isFreeSlot with
    | none =>
      rw [hfs] at this
      obtain ⟨fs', hr, hd', hv', hn', hc', hw'⟩ := this
      exact ⟨_, fs', hr, hn', hc', .inl ⟨rfl, hd', hv', hw'⟩⟩
    | some slot =>
      rw [hfs] at this
      obtain ⟨fs', hr, hwr⟩ := this
      exact ⟨_, fs', hr, hwr.2.2.1, hwr.2.2.2.1, .inr (hfound slot hfs fs' hwr)⟩
  · -- a chained directory
    cases hfs : (dirSlots fs.vol fs.dev.disk gh.G (dirIdOf dc)).find? isFreeSlot with
    | some slot =>
      obtain ⟨fs', hr, hwr⟩ :=
        writeNew_chain_found_w fs dc cs name att fc now hn hc hkind hch (by omega) slot (by rw [← hsl]; exact hfs)
      exact ⟨_, fs', hr, hwr.2.2.1, hwr.2.2.2.1, .inr (hfound slot hfs fs' hwr)⟩
    | none =>
      obtain ⟨s1, hd1, hv1, hn1, hc1, hw1, heq⟩ :=
        writeNew_chain_full_eq fs dc cs name att fc now hn hc hkind hch (by omega) (by rw [← hsl]; exact hfs)
      have hM1 : MedX s1.vol s1.dev.disk files gh X := by rw [hd1, hv1]; exact hM
      have hR1 : RawOKX s1.vol.fatType s1.dev.disk files := by rw [hd1, hv1]; exact hR
      -- the last cluster of the chain
      have hne : (Listing.startCluster fs.vol dc :: cs) ≠ [] := by simp
      obtain ⟨pre, hpre⟩ : ∃ pre, Listing.startCluster fs.vol dc :: cs =
          pre ++ [(Listing.startCluster fs.vol dc :: cs).getLast hne] :=
        ⟨_, (List.dropLast_append_getLast hne).symm⟩
      generalize hp : (Listing.startCluster fs.vol dc :: cs).getLast hne = p at hpre heq
      have c01 : CrashAll (CIXP P fs.vol) fs s1 := CrashAll.same hw1 hd1 hci0
      rcases CrashStep.alloc_cases s1 (some p) true hn1 hc1 with ⟨c, s2, ha⟩ | ⟨s2, ha, ro2⟩
      · -- the directory grows
        have hcs1 : chainOf gh.G (dirHead s1.vol (dirIdOf dc)) = pre ++ [p] := by rw [hv1, hchain, hpre]
        obtain ⟨hn2, hc2, hsg, G1, hM2, hch1, hsl1, hzero, hoth, hkeep, hcR, hcnot, hheads1, hchains1⟩ :=
          grow_med hM1 hn1 hc1 hh (by rw [hv1]; exact hnf) hcs1 ha
        -- `RawOKX` and consistency after the growth
        have hpE : p < endCluster s1.vol := by
          obtain ⟨hm, _⟩ := dirChain_spec hM1 hh (by rw [hv1]; exact hnf)
          rw [hcs1] at hm
          exact (med_inRange hM1 hm (List.mem_append_right _ (List.mem_singleton.2 rfl))).2
        have hR2 : RawOKX s2.vol.fatType s2.dev.disk files := by
          rw [hsg.fatType]
          refine rawOKX_keep (G' := G1) hM1 hR1 fun x hx o ho => ?_
          by_cases hxh : x = dirIdOf dc
          · refine ⟨x, ?_⟩
            rw [← dirSlots_sameGeom hsg, hxh, hsl1]
            exact List.mem_append_left _ (hxh ▸ ho)
          · exact ⟨x, by rw [← dirSlots_sameGeom hsg, hoth x hx hxh]; exact ho⟩
        have hf1 : ¬ isFixedRoot s1.vol (dirIdOf dc) := by rw [hv1]; exact hnf
        have hgrow : ∀ d, InitCluster fs.vol d c →
            DirClustersInit s2.vol P d { vol := s2.vol, G := G1, dirs := gh.dirs } := by
          rw [← hv1]
          exact fun d hI => dirInit_sameGeom hsg (grow_dirInit
            (fun x hx c' hc' => hUG c' (dirCluster_memG hM1 hx hc')) hf1 (by rw [hch1, hcs1]) hchains1
            (fun x hx hfx hne => dirHead_inj hM1 hx hh hfx hf1 hne) hI)
        have hpos1 : 0 < fs.vol.blocksPerCluster := hM.geom.bpc_pos
        have hD2 : DirClustersInit s2.vol P s2.dev.disk { vol := s2.vol, G := G1, dirs := gh.dirs } :=
          hgrow _ (initCluster_of_zero (by rw [← hv1]; exact hzero) hpos1)
        have hci2 : CIXP P fs.vol s2.dev.disk := by
          have := (cixp_of_medX hM2 hR2 hD2).sameGeom hsg.symm
          rwa [hv1] at this
        have c12 : CrashAll (CIXP P fs.vol) s1 s2 := by
          have := alloc_cixp hM1 hR1 (dirInit_of_G hM1 hUG) hn1 hc1 (fun q hq => by cases hq; exact hpE) ha (by rw [hv1]; exact hci2)
          rwa [hv1] at this
        rw [hv1, hd1] at hsl1 hoth hkeep
        rw [hv1] at hsg hzero hcR hchains1
        have hbpc : s2.vol.blocksPerCluster = fs.vol.blocksPerCluster := WriteRefines.sameGeom_bpc hsg
        have hctb : clusterToBlock s2.vol c = clusterToBlock fs.vol c := WriteRefines.sameGeom_clusterToBlock hsg c
        have hpos : 0 < fs.vol.blocksPerCluster := hM.geom.bpc_pos
        have hfirst := find?_isFreeSlot_first s2.dev.disk (clusterToBlock fs.vol c) fs.vol.blocksPerCluster hpos (by
          have := hzero 0 hpos
          rw [Nat.add_zero] at this
          rw [this]; decide)
        -- the run of the function
        rw [ha] at heq
        simp only at heq
        obtain ⟨k, hk⟩ : ∃ k, chainFuel fs.vol - cs.length = k + 1 :=
          ⟨chainFuel fs.vol - cs.length - 1, by unfold chainFuel; omega⟩
        rw [hk] at heq
        obtain ⟨fs', hrun', hwr⟩ := writeNewWalk_here name att fc now k
          ⟨c, clusterToBlock s2.vol c, fs.vol.blocksPerCluster, false⟩ s2 hn2 hc2 _ (by rw [hctb]; exact hfirst)
        rw [hrun'] at heq
        obtain ⟨hd', hv', hn', hc', _, hw'⟩ := hwr
        refine ⟨_, fs', heq, hn', hc', .inr ?_⟩
        -- the split of the grown directory
        have hall_nz : ∀ s, s ∈ dirSlots fs.vol fs.dev.disk gh.G (dirIdOf dc) → first s ≠ 0 := by
          intro s hs h0
          have := List.find?_eq_none.1 hfs s hs
          unfold isFreeSlot at this
          simp [h0] at this
        obtain ⟨hfree, as, bs, hrun2, has⟩ := List.find?_eq_some_iff_append.1 hfirst
        have has_nil : as = [] := by
          cases as with
          | nil => rfl
          | cons a l =>
            exfalso
            have hmem : a ∈ runSlots s2.dev.disk (clusterToBlock fs.vol c) fs.vol.blocksPerCluster := by
              rw [hrun2]; exact List.mem_append_left _ List.mem_cons_self
            have h0 := runSlots_zero hzero a hmem
            have := has a List.mem_cons_self
            unfold isFreeSlot at this
            simp [h0] at this
        rw [has_nil, List.nil_append] at hrun2
        have c2f : CrashAll (fun d => CIXP P fs.vol d ∨ d = fs'.dev.disk) s2 fs' := lastWrite_cixp hw' hd' hci2
        have c02 : CrashAll (fun d => CIXP P fs.vol d ∨ d = fs'.dev.disk) fs s2 := (c01.trans c12).mono fun _ h => .inl h
        refine ⟨s2.vol, s2.dev.disk, G1, dirSlots fs.vol fs.dev.disk gh.G (dirIdOf dc), bs, _,
          ⟨hsg, hM2, ?_, ?_, ?_, hall_nz, ?_, ?_, hv', ?_, ?_⟩, rfl, hd', hR2, ?_, c02.trans c2f⟩
        rotate_right
        · have hd'' : fs'.dev.disk = s2.dev.disk.set (clusterToBlock fs.vol c) (splice (s2.dev.disk.get (clusterToBlock fs.vol c)) 0
              (DirEntry.serialize s2.vol.fatType (DirEntry.new name att fc now (clusterToBlock s2.vol c) 0))) := by
            rw [hd', hctb]
          rw [hd'']
          exact hgrow _ (initCluster_first_slot hzero hpos1 (FatOps.serialize_length _ _ hname))
        · intro x hx
          by_cases hxh : x = dirIdOf dc
          · rw [hxh, hsl1, entries_append_zeros _ _ (runSlots_zero hzero)]
          · rw [hoth x hx hxh]
        · intro c' j h2 hE hex hj
          obtain ⟨cs', hcs', hc'⟩ := hex
          exact hkeep c' j h2 hE (fun e => hcnot cs' hcs' (e ▸ hc')) hj
        · rw [hsl1, hrun2]
        · intro h0
          rcases mem_dirIds.1 hh with e | ⟨q, hq⟩
          · exact absurd e h0
          · obtain ⟨s0, s1', rest, hss, _, _⟩ := hM.tree.dots _ q hq
            rw [hss]; simp
        · unfold isFreeSlot at hfree
          simpa [freeSlot] using hfree
        · exact hheads1
        · intro x _ hxr hxd
          apply hchains1
          intro e
          rcases dirHead_cases hh hnf with h1 | h1
          · exact hxr (e ▸ h1)
          · exact hxd (e ▸ h1)
      · -- the volume is full
        rw [ha] at heq
        simp only at heq
        have hn2 : NoFault s2 := by
          have : s2.dev.faults = s1.dev.faults := ro2.faults
          show s2.dev.faults = []
          rw [this]; exact hn1
        refine ⟨_, s2, heq, hn2, ?_, .inl ⟨rfl, ro2.disk.trans hd1, ro2.vol.trans hv1, ro2.wlog.trans hw1⟩⟩
        obtain ⟨s2', ha', _, _, _, hc2'⟩ := (ForestAlloc.alloc_total s1 (some p) true hn1 hc1).resolve_left (by
          rintro ⟨c, s', h⟩; rw [ha] at h; cases h)
        rw [ha] at ha'
        have : s2 = s2' := congrArg Prod.snd ha'
        rw [this]; exact hc2'

end

end Sdmmc.Lemmas.VolCrashD
