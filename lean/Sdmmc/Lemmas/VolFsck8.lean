/-
Bridge `VolInv` → `Spec.Fs.fsck`, layers F5 (part 4) and F6: the fold over the objects of a directory, the
recursion over the directory tree (`checkDir_ok`, by induction on the fuel, with (H2) `DepthOK`), and the bridge
theorem `fsck_ok`.
-/
import Sdmmc.Lemmas.VolFsck7

namespace Sdmmc.Lemmas.VolFsck
open Sdmmc.Model Sdmmc.Model.Fat Sdmmc.Spec Sdmmc.Spec.Volume
open Sdmmc.Lemmas.VolTree Sdmmc.Lemmas.VolMed Sdmmc.Lemmas.VolBase
open Sdmmc.Spec.Fs (Acc DirRef Pending Geom)

/-- A fold whose steps claim clusters of pairwise disjoint regions, starting from an accumulator that owns nothing
of these regions, adds no problem and claims only clusters of the regions. -/
theorem foldl_regions {α : Type} (step : Acc → α → Acc) (Reg : α → Nat → Prop) :
    ∀ (l : List α), l.Pairwise (fun x x' => ∀ y, Reg x y → ¬ Reg x' y) →
      (∀ x, x ∈ l → ∀ a : Acc, a.problems = [] → (∀ y, Has a y → ¬ Reg x y) →
        (step a x).problems = [] ∧ ∀ y, Has (step a x) y → Has a y ∨ Reg x y) →
      ∀ a : Acc, a.problems = [] → (∀ x, x ∈ l → ∀ y, Has a y → ¬ Reg x y) →
        (l.foldl step a).problems = [] ∧ ∀ y, Has (l.foldl step a) y → Has a y ∨ ∃ x, x ∈ l ∧ Reg x y
  | [], _, _, a, ha, _ => ⟨ha, fun y hy => .inl hy⟩
  | x :: l, hpw, hstep, a, ha, hfree => by
    rw [List.pairwise_cons] at hpw
    obtain ⟨s1, s2⟩ := hstep x List.mem_cons_self a ha (hfree x List.mem_cons_self)
    have ih := foldl_regions step Reg l hpw.2 (fun x' hx' => hstep x' (List.mem_cons_of_mem _ hx')) (step a x) s1 (by
      intro x' hx' y hy hr
      rcases s2 y hy with h' | h'
      · exact hfree x' (List.mem_cons_of_mem _ hx') y h' hr
      · exact hpw.1 x' hx' y h' hr)
    rw [List.foldl_cons]
    refine ⟨ih.1, fun y hy => ?_⟩
    rcases ih.2 y hy with h' | ⟨x', hx', hr⟩
    · rcases s2 y h' with h'' | h''
      · exact .inl h''
      · exact .inr ⟨x, List.mem_cons_self, h''⟩
    · exact .inr ⟨x', List.mem_cons_of_mem _ hx', hr⟩

theorem depth_mem_dirIds {dirs : List (Nat × Nat)} {h k : Nat} (hd : Depth dirs h k) : h ∈ dirIds dirs := by
  cases hd with
  | root => exact zero_mem_dirIds _
  | sub hp _ => exact mem_dirIds.2 (.inr ⟨_, hp⟩)

section
variable {s : Mgr} {gh : Ghost} {g : Geom} {fat : Array Nat}

/-- Disjoint token sets give disjoint regions. -/
theorem regV_disjoint (hI : VolInv s gh) {h : Nat} (hh : h ∈ dirIds gh.dirs) {o o' : Slot}
    (ho : o ∈ objects h (dirSlots gh.vol s.dev.disk gh.G h)) (ho' : o' ∈ objects h (dirSlots gh.vol s.dev.disk gh.G h))
    (hd : ∀ x, Tok s gh o x → ¬ Tok s gh o' x) : ∀ y, RegV s gh o y → ¬ RegV s gh o' y := by
  rintro y ⟨_, t, ht, hy⟩ ⟨_, t', ht', hy'⟩
  by_cases e : t = t'
  · subst e; exact hd t ht ht'
  · exact chains_disjoint hI (subTok_mem_heads hI (tok_subTok hI hh ho ht)) (subTok_mem_heads hI (tok_subTok hI hh ho' ht')) e y hy hy'

/-- Distinct entries of a directory stand for disjoint sets of clusters. -/
theorem entries_regV_pairwise (hI : VolInv s gh) {h : Nat} (hh : h ∈ dirIds gh.dirs) :
    (entries (dirSlots gh.vol s.dev.disk gh.G h)).Pairwise fun o o' => ∀ y, RegV s gh o y → ¬ RegV s gh o' y := by
  have hobj : (objects h (dirSlots gh.vol s.dev.disk gh.G h)).Pairwise fun o o' => ∀ y, RegV s gh o y → ¬ RegV s gh o' y :=
    List.Pairwise.imp_of_mem (fun ha hb hab => regV_disjoint hI hh ha hb hab) (objects_tok_pairwise hI hh)
  rcases entries_shape hI hh with ⟨_, e⟩ | ⟨_, s0, s1, d0, d1, e⟩
  · rw [e]; exact hobj
  · rw [e, List.pairwise_cons, List.pairwise_cons]
    refine ⟨?_, ?_, hobj⟩
    · rintro o' _ y ⟨hd, _⟩ _; rw [d0] at hd; cases hd
    · rintro o' _ y ⟨hd, _⟩ _; rw [d1] at hd; cases hd

/-- **F5.** Walking a directory of the tree with enough fuel, from an accumulator without problems that owns no
cluster of the directory's sub-tree: no problem is added, and only clusters of the sub-tree are claimed. -/
theorem checkDir_ok (hI : VolInv s gh) (hg : GeomOf gh.vol g) (hfat : FatIs gh.vol s.dev.disk fat)
    (h1 : NoOne gh.vol s.dev.disk) (h2 : DepthOK gh.dirs) (sc : Bool) :
    ∀ (fuel h k : Nat), Depth gh.dirs h k → 64 ≤ k + fuel → ∀ (self parent : Nat) (path : String) (a : Acc),
      (h ≠ 0 → self = h) → (h ≠ 0 → (h, parent) ∈ gh.dirs) → (path = "/" ↔ h = 0) → 1 ≤ path.length →
      a.problems = [] → (∀ y, Has a y → ¬ Region s gh h y) →
      (Fs.checkDir g s.dev.disk fat (pendingOf s) sc fuel (refOf gh.vol h) self parent path a).problems = [] ∧
        ∀ y, Has (Fs.checkDir g s.dev.disk fat (pendingOf s) sc fuel (refOf gh.vol h) self parent path a) y →
          Has a y ∨ Region s gh h y
  | 0, h, k, hd, hk, _, _, _, _, _, _, _, _, _, _ => by
    have := h2 h k hd
    omega
  | fuel + 1, h, k, hd, hk, self, parent, path, a, hself, hpar, hpath, hplen, ha, hfree => by
    have hM := medX_of_med hI.med
    have hG := med_heads hM
    have hT := hI.med.tree
    have hh := depth_mem_dirIds hd
    obtain ⟨hds, hss⟩ := dirSlotsT_ok hI hg hfat h1 hh
    rw [checkDir_succ, hds]
    simp only
    rw [dirPre_eq hI hg hh hss hself hpar hpath]
    -- the directory's own chain
    have hown : ∀ y, y ∈ dirChain gh.vol gh.G h → Region s gh h y := by
      intro y hy
      unfold dirChain at hy
      by_cases hf : isFixedRoot gh.vol h
      · rw [if_pos hf] at hy; cases hy
      · rw [if_neg hf] at hy
        exact ⟨dirHead gh.vol h, subTok_self ⟨hh, .inl ⟨hf, rfl⟩⟩, hy⟩
    have hnd : (dirChain gh.vol gh.G h).Nodup := by
      unfold dirChain
      by_cases hf : isFixedRoot gh.vol h
      · rw [if_pos hf]; exact List.nodup_nil
      · rw [if_neg hf]; exact med_chain_nodup hM (dirChain_spec hM hh hf).1
    obtain ⟨c1, c2⟩ := claim_ok (dirChain gh.vol gh.G h) { a with dirsVisited := a.dirsVisited + 1 } path hnd
      (fun y hy hhas => hfree y hhas (hown y hy))
    -- the objects
    have hmap := objects_cv (fsDirSlots gh.vol g s.dev.disk gh.G h)
    rw [hss] at hmap
    have hmem : ∀ x, x ∈ Fs.objects (fsDirSlots gh.vol g s.dev.disk gh.G h) →
        cv x ∈ entries (dirSlots gh.vol s.dev.disk gh.G h) := by
      intro x hx
      have : cv x ∈ (Fs.objects (fsDirSlots gh.vol g s.dev.disk gh.G h)).map cv := List.mem_map_of_mem hx
      rw [hmap] at this
      exact (List.mem_filter.1 this).1
    have hpw : (Fs.objects (fsDirSlots gh.vol g s.dev.disk gh.G h)).Pairwise
        fun x x' => ∀ y, RegV s gh (cv x) y → ¬ RegV s gh (cv x') y := by
      rw [← List.pairwise_map (f := cv) (R := fun o o' => ∀ y, RegV s gh o y → ¬ RegV s gh o' y), hmap]
      exact List.Pairwise.sublist List.filter_sublist (entries_regV_pairwise hI hh)
    have hrec : RecOK s gh h (Fs.checkDir g s.dev.disk fat (pendingOf s) sc fuel) := by
      intro c hc path' a' hp1 hp2 ha' hfree'
      have hc0 : c ≠ 0 := by have := dir_ge_two hT hG hc; omega
      have := checkDir_ok hI hg hfat h1 h2 sc fuel c (k + 1) (.sub hc hd) (by omega) c h path' a' (fun _ => rfl) (fun _ => hc)
        ⟨fun e => absurd e hp1, fun e => absurd e hc0⟩ hp2 ha' hfree'
      rw [refOf_sub hc0] at this
      exact this
    -- a region of an entry lies in the sub-tree, and misses the directory's own chain
    have hsubreg : ∀ x, x ∈ Fs.objects (fsDirSlots gh.vol g s.dev.disk gh.G h) → ∀ y, RegV s gh (cv x) y →
        Region s gh h y ∧ y ∉ dirChain gh.vol gh.G h := by
      rintro x hx y ⟨hdv, t, ht, hy⟩
      have ho := entry_is_object hI hh (hmem x hx) hdv
      have hst := tok_subTok hI hh ho ht
      refine ⟨⟨t, hst, hy⟩, ?_⟩
      intro hyd
      unfold dirChain at hyd
      by_cases hf : isFixedRoot gh.vol h
      · rw [if_pos hf] at hyd; cases hyd
      · rw [if_neg hf] at hyd
        by_cases e : t = dirHead gh.vol h
        · subst e; exact dirHead_not_tok hI hh hf ho ht
        · exact chains_disjoint hI (subTok_mem_heads hI hst) (dirHead_mem hM hh hf) e y hy hyd
    obtain ⟨f1, f2⟩ := foldl_regions
      (objStep g fat (pendingOf s) sc (Fs.checkDir g s.dev.disk fat (pendingOf s) sc fuel) (refOf gh.vol h) path)
      (fun x y => RegV s gh (cv x) y) _ hpw
      (fun x hx a' ha' hfree' => objStep_ok hI hg hfat h1 sc hh hpath hplen hrec (hmem x hx) ha' hfree')
      _ (c1.trans ha) (by
        intro x hx y hy hr
        obtain ⟨r1, r2⟩ := hsubreg x hx y hr
        rcases (c2 y).1 hy with h' | h'
        · exact hfree y h' r1
        · exact r2 h')
    refine ⟨f1, fun y hy => ?_⟩
    rcases f2 y hy with h' | ⟨x, hx, hr⟩
    · rcases (c2 y).1 h' with h'' | h''
      · exact .inl h''
      · exact .inr (hown y h'')
    · exact .inr (hsubreg x hx y hr).1

/-- The bridge for either value of the size clause (`sizeClause = false` only drops the two size checks D5). -/
theorem fsck_ok_sc (s : Mgr) (gh : Ghost) (hI : VolInv s gh) (g : Geom) (hg : GeomOf gh.vol g)
    (h1 : NoOne gh.vol s.dev.disk) (h2 : DepthOK gh.dirs) (sc : Bool) :
    (Fs.fsck g s.dev.disk (pendingOf s) sc).problems = [] := by
  have hfat := fatIs_loadFat hg hI.med.blocksOK
  have hF := checkFatEntries_ok hI hg hfat h1
  have hD := (checkDir_ok hI hg hfat h1 h2 sc 64 0 0 .root (by omega) (if g.fat32 then g.rootCluster else 0) 0 "/" {}
    (fun e => absurd rfl e) (fun e => absurd rfl e) ⟨fun _ => rfl, fun _ => rfl⟩ (by decide) rfl
    (fun y hy => absurd hy (has_empty y))).1
  rw [← rootRef_eq hg] at hD
  show Fs.checkFatEntries g (Fs.loadFat g s.dev.disk) ++
    (Fs.checkDir g s.dev.disk (Fs.loadFat g s.dev.disk) (pendingOf s) sc 64 (Fs.rootRef g)
      (if g.fat32 then g.rootCluster else 0) 0 "/" {}).problems = []
  rw [hF, hD]
  rfl

/-- **F6. The bridge.**  On a volume satisfying the volume invariant, the independent structure checker — run the way
the harness runs it (`fsck live`: pending state of the open files, size clause on) — finds no problem, provided
(H1) no FAT32 entry of a data cluster is `1` (`NoOne`) and (H2) no directory lies deeper than 63 levels
(`DepthOK`).  Neither can be dropped (`VolFsck9`). -/
theorem fsck_ok (s : Mgr) (gh : Ghost) (hI : VolInv s gh) (g : Geom) (hg : GeomOf gh.vol g)
    (h1 : NoOne gh.vol s.dev.disk) (h2 : DepthOK gh.dirs) :
    (Fs.fsck g s.dev.disk (pendingOf s) true).problems = [] := fsck_ok_sc s gh hI g hg h1 h2 true

end

end Sdmmc.Lemmas.VolFsck
