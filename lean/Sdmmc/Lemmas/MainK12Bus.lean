/-
Bridging lemmas for `Props/C12Main2.lean`, part 1: a property of the BUS state that every
transaction and every delay preserves is preserved by every function of the driver model, on
every bus.  (Used for the card's timing parameter `initPolls`, which no command changes and which
the session invariant of `Lemmas/SdSession.lean` does not track.)
-/
import Sdmmc.Lemmas.SdBasic

namespace Sdmmc.Lemmas.SdBus
open Sdmmc.Model Sdmmc.Model.Sd Sdmmc.Gen Sdmmc.Lemmas.Sd

variable {σ : Type} {α β : Type}

/-- `m` preserves the property `P` of the bus state. -/
def BKeeps (P : σ → Prop) (m : S σ α) : Prop := ∀ s, P s.bus → P (m s).2.bus

namespace BKeeps
variable {P : σ → Prop}
theorem pure (a : α) : BKeeps P (pure a : S σ α) := fun _ h => h
theorem fail (e : SdErr) : BKeeps P (S.fail e : S σ α) := fun _ h => h
theorem lift (r : SRes α) : BKeeps P (S.lift r : S σ α) := fun _ h => h
theorem get : BKeeps P (S.get : S σ (St σ)) := fun _ h => h
theorem failUninit (e : SdErr) : BKeeps P (failUninit e : S σ α) := fun _ h => h
theorem setCardType (ct : CardType) : BKeeps P (setCardType ct : S σ Unit) := fun _ h => h
theorem bind {m : S σ α} {f : α → S σ β} (hm : BKeeps P m) (hf : ∀ a, BKeeps P (f a)) : BKeeps P (m >>= f) := by
  intro s hs
  have h1 := hm s hs
  rw [bind_apply]
  rcases hms : m s with ⟨r, s'⟩
  rw [hms] at h1
  cases r with
  | ok a => exact hf a s' h1
  | err e => exact h1
  | panic p => exact h1
theorem ite {c : Prop} [Decidable c] {m1 m2 : S σ α} (h1 : BKeeps P m1) (h2 : BKeeps P m2) :
    BKeeps P (if c then m1 else m2) := by split <;> assumption
theorem attempt {m : S σ α} (h : BKeeps P m) : BKeeps P (S.attempt m) := h
end BKeeps

section
variable (B : BusOps σ) (P : σ → Prop)
variable (hx : ∀ b out, P b → P (B.xfer b out).1) (hd : ∀ b, P b → P (B.delay b))

include hx in
theorem xferEv_bk (ev : Event) : BKeeps P (xferEv B ev) := by
  intro s hs; unfold xferEv
  have := hx s.bus ev.bytes hs
  rcases h : B.xfer s.bus ev.bytes with ⟨b', r⟩
  rw [h] at this
  cases r <;> exact this

include hx in
theorem readByte_bk : BKeeps P (readByte B) := by
  intro s hs; unfold readByte
  have := hx s.bus [0xFF] hs
  rcases h : B.xfer s.bus [0xFF] with ⟨b', r⟩
  rw [h] at this
  cases r <;> exact this

include hd in
theorem delayTick_bk : BKeeps P (delayTick B) := fun s hs => hd s.bus hs

syntax "bk_tac" "[" term,* "]" : tactic
macro_rules
  | `(tactic| bk_tac [$ts,*]) =>
    `(tactic| (
        try dsimp only
        repeat (with_reducible first
          | exact BKeeps.pure _ | exact BKeeps.fail _ | exact BKeeps.lift _ | exact BKeeps.get
          | exact BKeeps.failUninit _ | exact BKeeps.setCardType _
          $[| exact $ts]*
          | apply BKeeps.bind
          | apply BKeeps.ite
          | apply BKeeps.attempt
          | intro _
          | split
          | contradiction)))

include hx in
theorem writeByte_bk (x : UInt8) : BKeeps P (writeByte B x) := by
  unfold writeByte; bk_tac [xferEv_bk B P hx _]

include hx hd in
theorem waitNotBusy_bk (n : Nat) : BKeeps P (waitNotBusy B n) := by
  induction n with
  | zero => unfold waitNotBusy; bk_tac [readByte_bk B P hx]
  | succ n ih => unfold waitNotBusy; bk_tac [readByte_bk B P hx, delayTick_bk B P hd, ih]

include hx hd in
theorem waitResponse_bk (c n : Nat) : BKeeps P (waitResponse B c n) := by
  induction n with
  | zero => unfold waitResponse; bk_tac [readByte_bk B P hx]
  | succ n ih => unfold waitResponse; bk_tac [readByte_bk B P hx, delayTick_bk B P hd, ih]

include hx hd in
theorem waitToken_bk (n : Nat) : BKeeps P (waitToken B n) := by
  induction n with
  | zero => unfold waitToken; bk_tac [readByte_bk B P hx]
  | succ n ih => unfold waitToken; bk_tac [readByte_bk B P hx, delayTick_bk B P hd, ih]

include hx hd in
theorem cardCommand_bk (c arg : Nat) : BKeeps P (cardCommand B c arg) := by
  unfold cardCommand
  bk_tac [waitNotBusy_bk B P hx hd _, waitResponse_bk B P hx hd _ _, readByte_bk B P hx, xferEv_bk B P hx _]

include hx hd in
theorem cardAcmd_bk (c arg : Nat) : BKeeps P (cardAcmd B c arg) := by
  unfold cardAcmd; bk_tac [cardCommand_bk B P hx hd _ _]

include hx hd in
theorem readData_bk (len : Nat) : BKeeps P (readData B len) := by
  unfold readData
  bk_tac [waitToken_bk B P hx hd _, xferEv_bk B P hx _]

include hx in
theorem writeData_bk (tok : Nat) (buf : Bytes) : BKeeps P (writeData B tok buf) := by
  unfold writeData
  bk_tac [writeByte_bk B P hx _, xferEv_bk B P hx _, readByte_bk B P hx]

include hx in
theorem flushBytes_bk (n : Nat) : BKeeps P (flushBytes B n) := by
  induction n with
  | zero => unfold flushBytes; bk_tac []
  | succ n ih => unfold flushBytes; bk_tac [writeByte_bk B P hx _, ih]

include hx hd in
theorem readBlocks_bk (n : Nat) : BKeeps P (readBlocks B n) := by
  induction n with
  | zero => unfold readBlocks; bk_tac []
  | succ n ih => unfold readBlocks; bk_tac [readData_bk B P hx hd _, ih]

include hx hd in
theorem writeBlocks_bk (l : List Bytes) : BKeeps P (writeBlocks B l) := by
  induction l with
  | nil => unfold writeBlocks; bk_tac []
  | cons b rest ih => unfold writeBlocks; bk_tac [waitNotBusy_bk B P hx hd _, writeData_bk B P hx _ _, ih]

include hx hd in
theorem checkVersionStep_bk (next : Option (S _ (CardType × Nat))) (hn : ∀ k, next = some k → BKeeps P k) :
    BKeeps P (checkVersionStep B next) := by
  cases next with
  | none => unfold checkVersionStep; bk_tac [cardCommand_bk B P hx hd _ _, xferEv_bk B P hx _]
  | some k =>
    have := hn k rfl
    unfold checkVersionStep
    bk_tac [cardCommand_bk B P hx hd _ _, xferEv_bk B P hx _, delayTick_bk B P hd, this]

include hx hd in
theorem checkVersion_bk (n : Nat) : BKeeps P (checkVersion B n) := by
  induction n with
  | zero => unfold checkVersion; exact checkVersionStep_bk B P hx hd none (by simp)
  | succ n ih =>
    unfold checkVersion
    exact checkVersionStep_bk B P hx hd _ (fun k hk => by cases hk; exact ih)

include hx hd in
theorem waitReadyStep_bk (arg : Nat) (next : Option (S _ Unit)) (hn : ∀ k, next = some k → BKeeps P k) :
    BKeeps P (waitReadyStep B arg next) := by
  cases next with
  | none => unfold waitReadyStep; bk_tac [cardAcmd_bk B P hx hd _ _]
  | some k =>
    have := hn k rfl
    unfold waitReadyStep; bk_tac [cardAcmd_bk B P hx hd _ _, delayTick_bk B P hd, this]

include hx hd in
theorem waitReady_bk (arg n : Nat) : BKeeps P (waitReady B arg n) := by
  induction n with
  | zero => unfold waitReady; exact waitReadyStep_bk B P hx hd arg none (by simp)
  | succ n ih =>
    unfold waitReady
    exact waitReadyStep_bk B P hx hd arg _ (fun k hk => by cases hk; exact ih)

include hx hd in
theorem write_bk (blocks : List Bytes) (idx : Nat) : BKeeps P (write B blocks idx) := by
  unfold write
  bk_tac [cardCommand_bk B P hx hd _ _, cardAcmd_bk B P hx hd _ _, waitNotBusy_bk B P hx hd _,
    writeData_bk B P hx _ _, writeBlocks_bk B P hx hd _, readByte_bk B P hx, writeByte_bk B P hx _]

include hx hd in
theorem readCsd_bk : BKeeps P (readCsd B) := by
  unfold readCsd
  bk_tac [cardCommand_bk B P hx hd _ _, readData_bk B P hx hd _]

include hx hd in
theorem numBlocks_bk : BKeeps P (numBlocks B) := by
  unfold numBlocks; bk_tac [readCsd_bk B P hx hd]

include hx hd in
theorem numBytes_bk : BKeeps P (numBytes B) := by
  unfold numBytes; bk_tac [readCsd_bk B P hx hd]

include hx hd in
theorem enterSpiModeStep_bk (next : Option (S _ Unit)) (hn : ∀ k, next = some k → BKeeps P k) :
    BKeeps P (enterSpiModeStep B next) := by
  cases next with
  | none => unfold enterSpiModeStep; bk_tac [cardCommand_bk B P hx hd _ _, flushBytes_bk B P hx _]
  | some k =>
    have := hn k rfl
    unfold enterSpiModeStep
    bk_tac [cardCommand_bk B P hx hd _ _, flushBytes_bk B P hx _, delayTick_bk B P hd, this]

include hx hd in
theorem enterSpiMode_bk (n : Nat) : BKeeps P (enterSpiMode B n) := by
  induction n with
  | zero => unfold enterSpiMode; exact enterSpiModeStep_bk B P hx hd none (by simp)
  | succ n ih =>
    unfold enterSpiMode
    exact enterSpiModeStep_bk B P hx hd _ (fun k hk => by cases hk; exact ih)

include hx hd in
theorem read_bk (n idx : Nat) : BKeeps P (Sd.read B n idx) := by
  unfold Sd.read
  bk_tac [cardCommand_bk B P hx hd _ _, readData_bk B P hx hd _, readBlocks_bk B P hx hd _]

include hx hd in
theorem acquireBody_bk : BKeeps P (acquireBody B) := by
  rw [acquireBody_eq]
  bk_tac [enterSpiMode_bk B P hx hd _, cardCommand_bk B P hx hd _ _, checkVersion_bk B P hx hd _,
    waitReady_bk B P hx hd _ _, xferEv_bk B P hx _]

include hx hd in
theorem acquire_bk : BKeeps P (acquire B) := by
  rw [acquire_eq]
  bk_tac [acquireBody_bk B P hx hd, readByte_bk B P hx]

include hx hd in
theorem checkInit_bk : BKeeps P (checkInit B) := by
  unfold checkInit
  bk_tac [acquire_bk B P hx hd]

include hx hd in
/-- Every public call preserves every property of the bus state that transactions and delays preserve. -/
theorem call_bk (c : Call) : BKeeps P (call B c) := by
  cases c with
  | read n idx => unfold call; bk_tac [checkInit_bk B P hx hd, read_bk B P hx hd _ _]
  | write blocks idx => unfold call; bk_tac [checkInit_bk B P hx hd, write_bk B P hx hd _ _]
  | numBlocks => unfold call; bk_tac [checkInit_bk B P hx hd, numBlocks_bk B P hx hd]
  | numBytes => unfold call; bk_tac [checkInit_bk B P hx hd, numBytes_bk B P hx hd]
  | cardType => unfold call; bk_tac [checkInit_bk B P hx hd]
  | markUninit => exact fun _ h => h

end

end Sdmmc.Lemmas.SdBus
