/-
Several open volumes, refinement: every state with the invariant has an abstract counterpart (`absNx_total`); what a
step of the abstract file system that does not work on the volume `hv` leaves alone (`coreStepN_other`); the open file
behind a file handle, in the view of its volume (`view_fileOf`).
-/
import Sdmmc.Lemmas.VolNAbsU
import Sdmmc.Lemmas.VolNStep
import Sdmmc.Lemmas.AbsFsTotal

namespace Sdmmc.Lemmas.VolN
open Sdmmc.Model Sdmmc.Model.Fat Sdmmc.Spec.Volume
open Sdmmc.Spec hiding NoFault Coherent run step
open Sdmmc.Spec.AbsFs (AbsFsN OpenFile OpenDir viewOf otherDirsA otherFilesA TPerm SameUpToOrder Kept onVolume absStep
  volOpenN dirVol fileVol targetA refusalN genN openRootN closeDirN closeVolumeN openVolumeN coreStepN)
open Sdmmc.Lemmas.AbsFs (Abs FileRel absDir absSlots forall₂_length forall₂_mono)
open Sdmmc.Lemmas.MHoare

/-! ### Totality -/

/-- The record index and the ghost of the open volume with handle `hv`. -/
def treeOf (s : Mgr) (ghs : List Ghost) (hv : Nat) : Option (Nat × Ghost) :=
  (s.vols.findIdx? (·.rawVolume = hv)).bind fun i => (ghs[i]?).map fun gh => (i, gh)

/-- The abstract counterpart, given the abstract open files. -/
def absOfN (s : Mgr) (ghs : List Ghost) (files : List OpenFile) : AbsFsN :=
  { nextId := s.nextId, maxVols := s.maxVols, maxDirs := s.maxDirs, maxFiles := s.maxFiles, clock := s.clock
    locked := s.locked
    vols := s.vols.map vkeyA
    dirs := s.dirs.map absDir
    files := files
    ids := fun hv => match treeOf s ghs hv with
      | some p => dirIds p.2.dirs
      | none => []
    slots := fun hv h => match treeOf s ghs hv with
      | some p => absSlots (projH hv p.1 s) p.2 h
      | none => [] }

theorem fileRelN_exists {s : Mgr} {ghs : List Ghost} (hI : VolInvN s ghs) {f : FileInfo} (hf : f ∈ s.files) :
    ∃ af, FileRelN s ghs af f := by
  obtain ⟨vi, hvi, he⟩ := hI.fileVols f hf
  obtain ⟨i, hi⟩ := List.getElem?_of_mem hvi
  have hilt : i < ghs.length := by rw [hI.len]; exact (List.getElem?_eq_some_iff.1 hi).1
  obtain ⟨gh, hgh⟩ : ∃ gh, ghs[i]? = some gh := ⟨_, List.getElem?_eq_getElem hilt⟩
  have hP := volInv_proj hI hi hgh
  have hfm : f ∈ (projH vi.rawVolume i s).files :=
    List.mem_filter.2 ⟨hf, by simp [he]⟩
  obtain ⟨af, haf⟩ := AbsFs.fileRel_exists hP hfm
  exact ⟨af, i, vi, gh, hi, hgh, he, fileRel_dev haf fun _ _ => rfl⟩

/-- **Every state with the invariant has an abstract counterpart.** -/
theorem absNx_total {s : Mgr} {ghs : List Ghost} (hI : VolInvN s ghs) : ∃ B, AbsNx s ghs B := by
  obtain ⟨afs, hafs⟩ := AbsFs.forall₂_exists (R := FileRelN s ghs) s.files fun f hf => fileRelN_exists hI hf
  refine ⟨absOfN s ghs afs, rfl, rfl, rfl, rfl, rfl, rfl, rfl, rfl, hafs, ?_⟩
  intro i vi gh hvi hgh
  have ht : treeOf s ghs vi.rawVolume = some (i, gh) := by
    unfold treeOf
    rw [findIdx?_of_nodup hI.handles hvi]
    show (ghs[i]?).map _ = _
    rw [hgh]; rfl
  refine ⟨?_, fun h _ => ?_⟩
  · show (match treeOf s ghs vi.rawVolume with
      | some p => dirIds p.2.dirs
      | none => []) = _
    rw [ht]
  · show (match treeOf s ghs vi.rawVolume with
      | some p => absSlots (projH vi.rawVolume p.1 s) p.2 h
      | none => []) = _
    rw [ht]

/-! ### A step that does not work on the volume `hv` -/

/-- The open files of volume `hv`. -/
abbrev filesOn (A : AbsFsN) (hv : Nat) : List OpenFile := A.files.filter fun f => decide (f.volume = hv)

theorem filter_other_of_ne {hv hw : Nat} (hne : hv ≠ hw) (l : List OpenFile) :
    (l.filter fun f => !decide (f.volume = hw)).filter (fun f => decide (f.volume = hv)) =
      l.filter fun f => decide (f.volume = hv) := by
  rw [List.filter_filter]
  apply List.filter_congr
  intro f _
  by_cases h : f.volume = hv
  · have : ¬ f.volume = hw := fun e => hne (h.symm.trans e)
    rw [decide_eq_true h, decide_eq_false this]; rfl
  · simp [h]

/-- **What a step that does not work on the volume `hv` leaves alone**: the tree of `hv` and the open files of `hv`
(up to table order).  (`open_volume` hands out the handle `B.nextId` with a new tree: `hv` must not be that handle.) -/
theorem coreStepN_other {B A' : AbsFsN} {op : Op} {r : Res Payload} (h : coreStepN B op (A', r)) {hv : Nat}
    (hne : targetA B op ≠ some hv) (hov : ∀ idx, op = .openVolume idx → hv ≠ B.nextId) :
    A'.ids hv = B.ids hv ∧ A'.slots hv = B.slots hv ∧ (filesOn A' hv).Perm (filesOn B hv) := by
  have hon : ∀ hw, targetA B op = some hw → onVolume B hw op A' r →
      A'.ids hv = B.ids hv ∧ A'.slots hv = B.slots hv ∧ (filesOn A' hv).Perm (filesOn B hv) := by
    intro hw ht ⟨_, _, _, hk⟩
    have hvw : hv ≠ hw := fun e => hne (by rw [ht, e])
    refine ⟨hk.ids hv hvw, hk.slots hv hvw, ?_⟩
    have := hk.files.filter fun f => decide (f.volume = hv)
    unfold otherFilesA at this
    rw [filter_other_of_ne hvw, filter_other_of_ne hvw] at this
    exact this
  have hgen : (match targetA B op with
      | some hw => onVolume B hw op A' r
      | none => (A', r) = (B, .err (refusalN B op))) →
      A'.ids hv = B.ids hv ∧ A'.slots hv = B.slots hv ∧ (filesOn A' hv).Perm (filesOn B hv) := by
    intro h
    cases ht : targetA B op with
    | some hw => rw [ht] at h; exact hon hw ht h
    | none =>
      rw [ht] at h
      have : A' = B := congrArg Prod.fst h
      subst this
      exact ⟨rfl, rfl, List.Perm.refl _⟩
  cases op with
  | openVolume idx =>
    rcases (show openVolumeN B idx A' r from h) with ⟨e, _⟩ | ⟨_, _, _, ids, sl, e⟩
    · subst e; exact ⟨rfl, rfl, List.Perm.refl _⟩
    · subst e
      have hn := hov idx rfl
      refine ⟨?_, ?_, List.Perm.refl _⟩
      · show (if hv = B.nextId then ids else B.ids hv) = _
        rw [if_neg hn]
      · show (if hv = B.nextId then sl else B.slots hv) = _
        rw [if_neg hn]
  | closeVolume v =>
    have e : (A', r) = closeVolumeN B v := h
    have h1 : A' = (closeVolumeN B v).1 := congrArg Prod.fst e
    subst h1
    unfold closeVolumeN
    split
    · exact ⟨rfl, rfl, List.Perm.refl _⟩
    · split
      · exact ⟨rfl, rfl, List.Perm.refl _⟩
      · split <;> exact ⟨rfl, rfl, List.Perm.refl _⟩
  | openRoot v =>
    have e : (A', r) = openRootN B v := h
    have h1 : A' = (openRootN B v).1 := congrArg Prod.fst e
    subst h1
    unfold openRootN
    split <;> exact ⟨rfl, rfl, List.Perm.refl _⟩
  | closeDir d =>
    have e : (A', r) = closeDirN B d := h
    have h1 : A' = (closeDirN B d).1 := congrArg Prod.fst e
    subst h1
    unfold closeDirN
    split <;> exact ⟨rfl, rfl, List.Perm.refl _⟩
  | hasOpen =>
    have e : (A', r) = (B, _) := h
    have h1 : A' = B := congrArg Prod.fst e
    subst h1
    exact ⟨rfl, rfl, List.Perm.refl _⟩
  | openDir d n => exact hgen h
  | openFile d n m => exact hgen h
  | read f n => exact hgen h
  | write f b => exact hgen h
  | seekStart f n => exact hgen h
  | seekCur f n => exact hgen h
  | seekEnd f n => exact hgen h
  | flush f => exact hgen h
  | closeFile f => exact hgen h
  | delete d n => exact hgen h
  | mkdir d n => exact hgen h
  | find d n => exact hgen h
  | list d => exact hgen h
  | listLfn d n => exact hgen h
  | length f => exact hgen h
  | offset f => exact hgen h
  | eof f => exact hgen h
  | label v => exact hgen h

/-! ### The open file behind a handle, in the view of its volume -/

/-- A file handle that leads to volume record `i` names an open file of the view of that volume, and that volume is
open in the view. -/
theorem view_fileOf {s : Mgr} {ghs : List Ghost} {B : AbsFsN} (hI : VolInvN s ghs) (hB : AbsNx s ghs B) {h i : Nat}
    {vi : VolInfo} (ht : fileTarget s h = some i) (hvi : s.vols[i]? = some vi) :
    ∃ k f, Spec.AbsFs.fileOf (viewOf B vi.rawVolume) h = some (k, f) ∧ f ∈ B.files ∧ f.handle = h ∧
      f.volume = vi.rawVolume ∧ Spec.AbsFs.volOpen (viewOf B vi.rawVolume) f.volume = true := by
  -- the record in the table of the manager
  rw [fileTarget_find] at ht
  cases hfd : s.files.find? (·.rawFile = h) with
  | none => rw [hfd] at ht; cases ht
  | some fi =>
    rw [hfd] at ht
    have htv : s.vols.findIdx? (·.rawVolume = fi.rawVolume) = some i := ht
    obtain ⟨vi', hvi', hp⟩ := findIdx?_some_get htv
    rw [hvi] at hvi'; cases hvi'
    have hfv : vi.rawVolume = fi.rawVolume := by simpa using hp
    have hfh : fi.rawFile = h := by simpa using List.find?_some hfd
    have hfm : fi ∈ s.files := List.mem_of_find?_eq_some hfd
    -- its abstract counterpart
    obtain ⟨k0, hk0⟩ := List.getElem?_of_mem hfm
    rcases AbsFs.forall₂_getElem? hB.files k0 with ⟨_, h2⟩ | ⟨af, y, h1, h2, hr⟩
    · rw [h2] at hk0; cases hk0
    · rw [h2] at hk0; cases hk0
      have hafv : af.volume = vi.rawVolume := by rw [fileRelN_volume hr, hfv]
      have hafh : af.handle = h := by
        obtain ⟨_, _, _, _, _, _, hr'⟩ := hr
        rw [hr'.handle, hfh]
      have hmem : af ∈ (viewOf B vi.rawVolume).files :=
        List.mem_filter.2 ⟨List.mem_of_getElem? h1, by simp [hafv]⟩
      -- so the view finds a record with the handle
      cases hidx : (viewOf B vi.rawVolume).files.findIdx? (fun x => decide (x.handle = h)) with
      | none =>
        have := List.findIdx?_eq_none_iff.1 hidx af hmem
        simp [hafh] at this
      | some k =>
        obtain ⟨f, hf, hpf⟩ := findIdx?_some_get hidx
        have hfmem := List.mem_filter.1 (List.mem_of_getElem? hf)
        have hvol : f.volume = vi.rawVolume := by simpa using hfmem.2
        refine ⟨k, f, ?_, hfmem.1, by simpa using hpf, hvol, ?_⟩
        · unfold Spec.AbsFs.fileOf Spec.AbsFs.fileIdx
          rw [hidx]
          show ((viewOf B vi.rawVolume).files[k]?).map _ = _
          rw [hf]; rfl
        · unfold Spec.AbsFs.volOpen
          show (B.vols.filter fun x => decide (x.1 = vi.rawVolume)).any _ = true
          rw [hB.vols, filter_handle hI.handles hvi, hvol]
          simp [vkeyA]

end Sdmmc.Lemmas.VolN
