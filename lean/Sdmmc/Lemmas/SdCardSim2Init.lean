/-
Lemmas for C12, part 26 (end-to-end, continued): the identification sequence `acquire` against
the specification card — CMD0, CMD59 (when CRCs are wanted), CMD8, the ACMD41 loop, CMD58 — for
each card kind.
-/
import Sdmmc.Lemmas.SdCardSim2Seq

namespace Sdmmc.Lemmas.SdCardSim2
open Sdmmc.Model Sdmmc.Spec.Card Sdmmc.Model.Sd Sdmmc.Lemmas.Sd Sdmmc.Gen Sdmmc.Lemmas.SdCardSim

/-- The card during identification, after CMD0: in SPI mode, between commands, nothing queued;
`N` commands accepted so far; the remaining protocol state as given.  Kind, memory, register,
geometry, timing and the violations list are those of `c`. -/
def initCard (c : Card) (N : Nat) (idle crcOn cmd8Seen initialised : Bool) (initLeft : Nat) : Card :=
  { c with commands := N, appCmd := false, idle := idle, spiMode := true, crcOn := crcOn, cmd8Seen := cmd8Seen,
           initLeft := initLeft, initialised := initialised, phase := .ready, streaming := none, busyLeft := 0,
           out := [], cmdBuf := [] }

theorem exec0 (c : Card) (hcb : c.cmdBuf = []) (hs : c.streaming = none) (arg : Nat) :
    execCommand c 0 arg =
      setOut (initCard c (c.commands + 1) true false false false c.initPolls) (List.replicate c.ncr 0xFF ++ [0x01]) := by
  rcases c with ⟨kind, mem, csd, cap, ncr, nac, busy, initPolls, idle, spiMode, crcOn, appCmd, cmd8Seen,
    initLeft, initialised, out, busyLeft, cmdBuf, phase, streaming, preErase, violations, commands⟩
  simp only at hcb hs
  subst hcb hs
  unfold execCommand
  simp [initCard, respond, setOut]

theorem exec59_init (c : Card) (N : Nat) (c8 : Bool) (L : Nat) (cr : Bool) :
    execCommand (initCard c N true cr c8 false L) 59 1 =
      setOut (initCard c (N + 1) true true c8 false L) (List.replicate c.ncr 0xFF ++ [0x01]) := by
  unfold execCommand
  simp [initCard, respond, setOut, r1]

theorem exec8_sd1 (c : Card) (hk : c.kind = .SD1) (N : Nat) (cr c8 : Bool) (L : Nat) (arg : Nat) :
    execCommand (initCard c N true cr c8 false L) 8 arg =
      setOut (initCard c (N + 1) true cr c8 false L) (List.replicate c.ncr 0xFF ++ [0x05]) := by
  unfold execCommand
  simp [initCard, respond, setOut, hk]

theorem exec8_v2 (c : Card) (hk : c.kind ≠ .SD1) (N : Nat) (cr c8 : Bool) (L : Nat) :
    execCommand (initCard c N true cr c8 false L) 8 0x1AA =
      setOut (initCard c (N + 1) true cr true false L)
        (List.replicate c.ncr 0xFF ++ [0x01, 0x00, 0x00, 0x01, 0xAA]) := by
  rcases c with ⟨kind, mem, csd, cap, ncr, nac, busy, initPolls, idle, spiMode, crcOn, appCmd, cmd8Seen,
    initLeft, initialised, out, busyLeft, cmdBuf, phase, streaming, preErase, violations, commands⟩
  simp only at hk
  cases kind
  · exact absurd rfl hk
  · unfold execCommand; simp [initCard, respond, setOut, r1]
  · unfold execCommand; simp [initCard, respond, setOut, r1]

theorem exec55_init (c : Card) (N : Nat) (i cr c8 ini : Bool) (L : Nat) :
    execCommand (initCard c N i cr c8 ini L) 55 0 =
      { initCard c (N + 1) i cr c8 ini L with
        appCmd := true, out := List.replicate c.ncr 0xFF ++ [if i then 0x01 else 0x00] } := by
  unfold execCommand
  cases i <;> simp [initCard, respond, r1]

/-- The card accepts the host's ACMD41 argument: a high-capacity card wants HCS after CMD8. -/
def hcsOk (k : Kind) (arg : Nat) (c8 : Bool) : Prop := k ≠ .SDHC ∨ (arg / 1073741824 % 2 = 1 ∧ c8 = true)

theorem exec41_wait (c : Card) (N : Nat) (cr c8 : Bool) (L : Nat) (arg : Nat) (h : hcsOk c.kind arg c8) :
    execCommand { initCard c N true cr c8 false (L + 1) with appCmd := true } 41 arg =
      setOut (initCard c (N + 1) true cr c8 false L) (List.replicate c.ncr 0xFF ++ [0x01]) := by
  unfold hcsOk at h
  unfold execCommand
  simp [initCard, respond, setOut, h]

theorem exec41_done (c : Card) (N : Nat) (cr c8 : Bool) (arg : Nat) (h : hcsOk c.kind arg c8) :
    execCommand { initCard c N true cr c8 false 0 with appCmd := true } 41 arg =
      setOut (initCard c (N + 1) false cr c8 true 0) (List.replicate c.ncr 0xFF ++ [0x00]) := by
  unfold hcsOk at h
  unfold execCommand
  simp [initCard, respond, setOut, h]

theorem exec58_init (c : Card) (N : Nat) (cr c8 : Bool) :
    execCommand (initCard c N false cr c8 true 0) 58 0 =
      setOut (initCard c (N + 1) false cr c8 true 0)
        (List.replicate c.ncr 0xFF ++ [0x00, if c.kind = .SDHC then 0xC0 else 0x80, 0xFF, 0x80, 0x00]) := by
  unfold execCommand
  by_cases hk : c.kind = .SDHC <;> simp [initCard, respond, setOut, r1, hk]

/-! ### The stages of `acquire` -/

theorem popTo_initCard (c : Card) (N : Nat) (i cr c8 ini : Bool) (L : Nat) (o : List UInt8) :
    popTo (setOut (initCard c N i cr c8 ini L) o) [] = initCard c N i cr c8 ini L := rfl

theorem initCard_listening (c : Card) (N : Nat) (i cr c8 ini : Bool) (L : Nat) (o : List UInt8) :
    Listening (setOut (initCard c N i cr c8 ini L) o) := ⟨rfl, rfl⟩

/-- `card_command(CMD0, 0)` against a quiet card: answered with "idle". -/
theorem cardCommand0_card (s : St Card) (hq : Quiet s.bus) (ho : s.bus.out = [])
    (hncr : s.bus.ncr ≤ DEFAULT_COMMAND_RETRIES) :
    ∃ s', cardCommand cardBus CMD0 0 s = (.ok 1, s') ∧
      StAt s (initCard s.bus (s.bus.commands + 1) true false false false s.bus.initPolls) s' := by
  obtain ⟨s1, h1, a1⟩ := xferEv_cmd_card CMD0 0 (by decide) (by decide) s hq ho
  rw [show CMD0 = 0 from rfl, exec0 s.bus hq.cmdBuf hq.streaming 0] at a1
  obtain ⟨s2, h2, a2⟩ := waitResponse_card2 CMD0 DEFAULT_COMMAND_RETRIES s.bus.ncr s1
    (by rw [a1.1]; exact initCard_listening ..) 0x01 [] (by rw [a1.1]; rfl) (by decide) hncr
  rw [a1.1, popTo_initCard] at a2
  refine ⟨s2, ?_, a1.trans a2⟩
  unfold cardCommand
  dsimp only
  rw [if_neg (show ¬ (CMD0 ≠ CMD0 ∧ CMD0 ≠ CMD12) by decide)]
  rw [bind_ok h1, if_neg (show ¬ (CMD0 = CMD12) by decide)]
  exact h2

/-- A command (other than CMD0 / CMD12) sent to the card during identification. -/
theorem cardCommand_init (cmd arg : Nat) (hc : cmd < 64) (h0 : cmd ≠ CMD0) (h12 : cmd ≠ CMD12)
    (ha : arg < 4294967296) (s : St Card) (c : Card) (N : Nat) (i cr c8 ini : Bool) (L : Nat)
    (hbus : s.bus = initCard c N i cr c8 ini L) (hncr : c.ncr ≤ DEFAULT_COMMAND_RETRIES)
    (c1 : Card) (hex : execCommand (initCard c N i cr c8 ini L) cmd arg = c1) (hL : Listening c1)
    (r : UInt8) (rest : List UInt8) (hout : c1.out = List.replicate c.ncr 0xFF ++ r :: rest)
    (hr : r.toNat / 128 % 2 = 0) :
    ∃ s', cardCommand cardBus cmd arg s = (.ok r.toNat, s') ∧ StAt s (popTo c1 rest) s' :=
  cardCommand_card2 cmd arg hc h0 h12 ha s (by rw [hbus]; rfl) (by rw [hbus]; rfl) (by rw [hbus]; rfl)
    (by rw [hbus]; rfl) (by rw [hbus]; exact Nat.zero_le _) c1 (by rw [hbus]; exact hex) hL c.ncr r rest hout hncr hr

/-- Stage 1: the CMD0 loop succeeds at the first attempt. -/
theorem enterSpiMode_card (retries : Nat) (s : St Card) (hq : Quiet s.bus) (ho : s.bus.out = [])
    (hncr : s.bus.ncr ≤ DEFAULT_COMMAND_RETRIES) :
    ∃ s', enterSpiMode cardBus retries s = (.ok (), s') ∧
      StAt s (initCard s.bus (s.bus.commands + 1) true false false false s.bus.initPolls) s' := by
  obtain ⟨s1, h1, a1⟩ := cardCommand0_card s hq ho hncr
  have hat : S.attempt (cardCommand cardBus CMD0 0) s = (.ok (.ok 1), s1) := by rw [attempt_apply, h1]
  refine ⟨s1, ?_, a1⟩
  cases retries with
  | zero =>
    unfold enterSpiMode enterSpiModeStep
    rw [bind_ok hat]
    rfl
  | succ n =>
    unfold enterSpiMode enterSpiModeStep
    rw [bind_ok hat]
    rfl

/-- Stage 3: CMD8 tells a version-1 card (illegal command) from a version-2 card (echo). -/
theorem checkVersion_card (retries : Nat) (s : St Card) (c : Card) (N : Nat) (cr : Bool) (L : Nat)
    (hbus : s.bus = initCard c N true cr false false L) (hncr : c.ncr ≤ DEFAULT_COMMAND_RETRIES) :
    ∃ s', checkVersion cardBus retries s =
        (.ok (if c.kind = .SD1 then (CardType.SD1, 0) else (CardType.SD2, 0x40000000)), s') ∧
      StAt s (initCard c (N + 1) true cr (decide (c.kind ≠ .SD1)) false L) s' := by
  have hstep : ∀ next, ∃ s', checkVersionStep cardBus next s =
        (.ok (if c.kind = .SD1 then (CardType.SD1, 0) else (CardType.SD2, 0x40000000)), s') ∧
      StAt s (initCard c (N + 1) true cr (decide (c.kind ≠ .SD1)) false L) s' := by
    intro next
    by_cases hk : c.kind = .SD1
    · obtain ⟨s1, h1, a1⟩ := cardCommand_init CMD8 0x1AA (by decide) (by decide) (by decide) (by decide) s c N true cr
        false false L hbus hncr _ (exec8_sd1 c hk N cr false L 0x1AA) (initCard_listening ..) 0x05 [] rfl (by decide)
      rw [popTo_initCard] at a1
      refine ⟨s1, ?_, by simpa [hk] using a1⟩
      unfold checkVersionStep
      rw [bind_ok h1, if_pos hk]
      rfl
    · obtain ⟨s1, h1, a1⟩ := cardCommand_init CMD8 0x1AA (by decide) (by decide) (by decide) (by decide) s c N true cr
        false false L hbus hncr _ (exec8_v2 c hk N cr false L) (initCard_listening ..) 0x01 [0x00, 0x00, 0x01, 0xAA] rfl
        (by decide)
      rw [popTo_cons] at a1
      obtain ⟨s2, h2, a2⟩ := xferEv_dataIn_card2 s1 (by rw [a1.1]; exact initCard_listening ..)
        [0x00, 0x00, 0x01, 0xAA] [] (by rw [a1.1]; rfl) (by simp)
      rw [a1.1, setOut_setOut, popTo_initCard] at a2
      refine ⟨s2, ?_, by simpa [hk] using a1.trans a2⟩
      unfold checkVersionStep
      rw [bind_ok h1, if_neg hk]
      simp only [show ¬ ((0x01 : UInt8).toNat = R1_ILLEGAL_COMMAND + R1_IDLE_STATE) by decide, if_false]
      simp only [List.length_cons, List.length_nil] at h2
      rw [bind_ok h2]
      rfl
  cases retries with
  | zero => exact hstep none
  | succ n => exact hstep _

/-- One ACMD41 (CMD55, then CMD41) while the card still needs `L + 1` polls, or is ready (`L = 0`). -/
theorem cardAcmd41_card (arg : Nat) (ha : arg < 4294967296) (c : Card) (cr c8 : Bool)
    (hok : hcsOk c.kind arg c8) (hncr : c.ncr ≤ DEFAULT_COMMAND_RETRIES) (L N : Nat) (s : St Card)
    (hbus : s.bus = initCard c N true cr c8 false L) :
    ∃ s', cardAcmd cardBus ACMD41 arg s = (.ok (if L = 0 then 0 else 1), s') ∧
      StAt s (if L = 0 then initCard c (N + 2) false cr c8 true 0 else initCard c (N + 2) true cr c8 false (L - 1)) s' := by
  obtain ⟨s1, h1, a1⟩ := cardCommand_init CMD55 0 (by decide) (by decide) (by decide) (by decide) s c N true cr
    c8 false L hbus hncr _ (exec55_init c N true cr c8 false L) ⟨rfl, rfl⟩ 0x01 [] rfl (by decide)
  have hb1 : s1.bus = { initCard c (N + 1) true cr c8 false L with appCmd := true } := by rw [a1.1]; rfl
  cases L with
  | zero =>
    obtain ⟨s2, h2, a2⟩ := cardCommand_card2 ACMD41 arg (by decide) (by decide) (by decide) ha s1
      (by rw [hb1]; rfl) (by rw [hb1]; rfl) (by rw [hb1]; rfl) (by rw [hb1]; rfl) (by rw [hb1]; exact Nat.zero_le _)
      _ (by rw [hb1]; exact exec41_done c (N + 1) cr c8 arg hok) (initCard_listening ..) c.ncr 0x00 [] rfl hncr
      (by decide)
    rw [popTo_initCard] at a2
    refine ⟨s2, ?_, a1.trans a2⟩
    unfold cardAcmd
    rw [bind_ok h1]
    exact h2
  | succ L =>
    obtain ⟨s2, h2, a2⟩ := cardCommand_card2 ACMD41 arg (by decide) (by decide) (by decide) ha s1
      (by rw [hb1]; rfl) (by rw [hb1]; rfl) (by rw [hb1]; rfl) (by rw [hb1]; rfl) (by rw [hb1]; exact Nat.zero_le _)
      _ (by rw [hb1]; exact exec41_wait c (N + 1) cr c8 L arg hok) (initCard_listening ..) c.ncr 0x01 [] rfl hncr
      (by decide)
    rw [popTo_initCard] at a2
    refine ⟨s2, ?_, a1.trans a2⟩
    unfold cardAcmd
    rw [bind_ok h1]
    exact h2

/-- Stage 4: the ACMD41 loop ends as soon as the card's `initPolls` polls are used up. -/
theorem waitReady_card (arg : Nat) (ha : arg < 4294967296) (c : Card) (cr c8 : Bool)
    (hok : hcsOk c.kind arg c8) (hncr : c.ncr ≤ DEFAULT_COMMAND_RETRIES) :
    ∀ (retries L N : Nat) (s : St Card), s.bus = initCard c N true cr c8 false L → L ≤ retries →
    ∃ s' N', waitReady cardBus arg retries s = (.ok (), s') ∧ StAt s (initCard c N' false cr c8 true 0) s' := by
  intro retries
  induction retries with
  | zero =>
    intro L N s hbus hL
    have : L = 0 := by omega
    subst this
    obtain ⟨s1, h1, a1⟩ := cardAcmd41_card arg ha c cr c8 hok hncr 0 N s hbus
    refine ⟨s1, N + 2, ?_, a1⟩
    unfold waitReady waitReadyStep
    rw [bind_ok h1]
    rfl
  | succ n ih =>
    intro L N s hbus hL
    obtain ⟨s1, h1, a1⟩ := cardAcmd41_card arg ha c cr c8 hok hncr L N s hbus
    cases L with
    | zero =>
      refine ⟨s1, N + 2, ?_, a1⟩
      unfold waitReady waitReadyStep
      rw [bind_ok h1]
      rfl
    | succ L =>
      simp only [Nat.add_one_ne_zero, if_false, Nat.add_sub_cancel] at h1 a1
      obtain ⟨s2, N', h2, a2⟩ := ih L (N + 2) { s1 with delays := s1.delays + 1 } a1.1 (by omega)
      refine ⟨s2, N', ?_, a1.trans ⟨a2.1, a2.2.1, a2.2.2.1, a2.2.2.2⟩⟩
      unfold waitReady waitReadyStep
      rw [bind_ok h1]
      simp only [show ¬ ((1 : Nat) = R1_READY_STATE) by decide, if_false]
      rw [bind_ok (delayTick_card s1)]
      exact h2

/-- The card type the driver should arrive at for a card of the given kind. -/
def typeOfKind : Kind → CardType
  | .SD1 => .SD1
  | .SD2 => .SD2
  | .SDHC => .SDHC

/-- Stage 5: for a version-2 card, CMD58 reads the OCR; the CCS bit tells high capacity. -/
theorem cmd58Stage_card (ct : CardType) (s : St Card) (c : Card) (N : Nat) (cr c8 : Bool)
    (hbus : s.bus = initCard c N false cr c8 true 0) (hncr : c.ncr ≤ DEFAULT_COMMAND_RETRIES) :
    ∃ s' N', (if ct = CardType.SD2 then (do
        let r ← cardCommand cardBus CMD58 0
        if r ≠ 0 then S.fail SdErr.Cmd58Error else
        let buf ← xferEv cardBus (.dataIn 4)
        if (buf.getD 0 0).toNat / 64 = 3 then pure CardType.SDHC else pure ct) else pure ct) s =
        (.ok (if ct = CardType.SD2 ∧ c.kind = Kind.SDHC then CardType.SDHC else ct), s') ∧
      StAt s (initCard c N' false cr c8 true 0) s' := by
  by_cases hct : ct = CardType.SD2
  · subst hct
    obtain ⟨s1, h1, a1⟩ := cardCommand_init CMD58 0 (by decide) (by decide) (by decide) (by decide) s c N false cr
      c8 true 0 hbus hncr _ (exec58_init c N cr c8) (initCard_listening ..) 0x00
      [if c.kind = .SDHC then 0xC0 else 0x80, 0xFF, 0x80, 0x00] rfl (by decide)
    rw [popTo_cons] at a1
    obtain ⟨s2, h2, a2⟩ := xferEv_dataIn_card2 s1 (by rw [a1.1]; exact initCard_listening ..)
      [if c.kind = .SDHC then 0xC0 else 0x80, 0xFF, 0x80, 0x00] [] (by rw [a1.1]; rfl) (by simp)
    rw [a1.1, setOut_setOut, popTo_initCard] at a2
    refine ⟨s2, N + 1, ?_, a1.trans a2⟩
    simp only [if_true]
    rw [bind_ok h1]
    simp only [show ¬ ((0x00 : UInt8).toNat ≠ 0) by decide, if_false]
    simp only [List.length_cons, List.length_nil] at h2
    rw [bind_ok h2]
    by_cases hk : c.kind = .SDHC <;> simp [hk]
  · refine ⟨s, N, ?_, hbus, rfl, rfl, rfl⟩
    rw [if_neg hct, if_neg (fun h => hct h.1)]
    rfl

/-! ### `acquire` -/

/-- The closure of `acquire` from CMD8 on. -/
def acquireTail {σ : Type} (B : BusOps σ) : S σ Unit := do
  let x ← checkVersion B DEFAULT_COMMAND_RETRIES
  waitReady B x.2 DEFAULT_COMMAND_RETRIES
  let ct ← (if x.1 = CardType.SD2 then do
      let r ← cardCommand B CMD58 0
      if r ≠ 0 then S.fail SdErr.Cmd58Error else
      let buf ← xferEv B (.dataIn 4)
      if (buf.getD 0 0).toNat / 64 = 3 then pure CardType.SDHC else pure x.1
    else pure x.1 : S σ CardType)
  setCardType ct

/-- `acquireBody` with its tail named; the same term. -/
theorem acquireBody_eq2 {σ : Type} (B : BusOps σ) : acquireBody B = (do
    let s ← S.get
    enterSpiMode B s.acquireRetries
    if s.useCrc then do
      let r ← cardCommand B CMD59 1
      if r ≠ R1_IDLE_STATE then do S.fail (α := Unit) SdErr.CantEnableCRC; acquireTail B else acquireTail B
    else acquireTail B) := rfl

theorem acquireTail_card (s : St Card) (c : Card) (N : Nat) (cr : Bool) (L : Nat)
    (hbus : s.bus = initCard c N true cr false false L) (hncr : c.ncr ≤ DEFAULT_COMMAND_RETRIES)
    (hL : L ≤ DEFAULT_COMMAND_RETRIES) :
    ∃ s' N', acquireTail cardBus s = (.ok (), s') ∧
      s'.bus = initCard c N' false cr (decide (c.kind ≠ .SD1)) true 0 ∧
      s'.cardType = some (typeOfKind c.kind) ∧ s'.useCrc = s.useCrc ∧ s'.acquireRetries = s.acquireRetries := by
  obtain ⟨s3, h3, a3⟩ := checkVersion_card DEFAULT_COMMAND_RETRIES s c N cr _ hbus hncr
  by_cases hk : c.kind = .SD1
  · simp only [hk, if_true] at h3
    obtain ⟨s4, N4, h4, a4⟩ := waitReady_card 0 (by decide) c cr _ (Or.inl (by rw [hk]; decide)) hncr
      DEFAULT_COMMAND_RETRIES L (N + 1) s3 a3.1 hL
    obtain ⟨s5, N5, h5, a5⟩ := cmd58Stage_card .SD1 s4 c N4 cr _ a4.1 hncr
    have a := (a3.trans a4).trans a5
    refine ⟨{ s5 with cardType := some .SD1 }, N5, ?_, a.1, by rw [hk]; rfl, a.2.2.1, a.2.2.2⟩
    unfold acquireTail
    rw [bind_ok h3]
    simp only []
    rw [bind_ok h4]
    refine (bind_ok h5).trans ?_
    rfl
  · simp only [hk, if_false] at h3
    obtain ⟨s4, N4, h4, a4⟩ := waitReady_card 0x40000000 (by decide) c cr _
      (Or.inr ⟨by decide, by simp [hk]⟩) hncr DEFAULT_COMMAND_RETRIES L (N + 1) s3 a3.1 hL
    obtain ⟨s5, N5, h5, a5⟩ := cmd58Stage_card .SD2 s4 c N4 cr _ a4.1 hncr
    have a := (a3.trans a4).trans a5
    have hty : (if CardType.SD2 = CardType.SD2 ∧ c.kind = Kind.SDHC then CardType.SDHC else CardType.SD2) =
        typeOfKind c.kind := by
      cases hkk : c.kind
      · exact absurd hkk hk
      · simp [typeOfKind]
      · simp [typeOfKind]
    rw [hty] at h5
    refine ⟨{ s5 with cardType := some (typeOfKind c.kind) }, N5, ?_, a.1, rfl, a.2.2.1, a.2.2.2⟩
    unfold acquireTail
    rw [bind_ok h3]
    simp only []
    rw [bind_ok h4]
    refine (bind_ok h5).trans ?_
    rfl

/-- The closure of `acquire` against a quiet card (freshly powered, or initialised before): it
runs through at the first attempt of every stage, identifies the card's kind, and leaves the card
initialised, checking CRCs exactly when the driver uses them. -/
theorem acquireBody_card (s : St Card) (hq : Quiet s.bus) (ho : s.bus.out = [])
    (hncr : s.bus.ncr ≤ DEFAULT_COMMAND_RETRIES) (hpolls : s.bus.initPolls ≤ DEFAULT_COMMAND_RETRIES) :
    ∃ s' N, acquireBody cardBus s = (.ok (), s') ∧
      s'.bus = initCard s.bus N false s.useCrc (decide (s.bus.kind ≠ .SD1)) true 0 ∧
      s'.cardType = some (typeOfKind s.bus.kind) ∧ s'.useCrc = s.useCrc ∧
      s'.acquireRetries = s.acquireRetries := by
  obtain ⟨s1, h1, a1⟩ := enterSpiMode_card s.acquireRetries s hq ho hncr
  cases hu : s.useCrc with
  | false =>
    obtain ⟨s', N', h, hb, hc, hu', hr⟩ := acquireTail_card s1 s.bus _ false _ a1.1 hncr hpolls
    refine ⟨s', N', ?_, hb, hc, hu'.trans (a1.2.2.1.trans hu), hr.trans a1.2.2.2⟩
    rw [acquireBody_eq2, bind_ok (get_apply s)]
    simp only [hu]
    rw [bind_ok h1]
    exact h
  | true =>
    obtain ⟨s2, h2, a2⟩ := cardCommand_init CMD59 1 (by decide) (by decide) (by decide) (by decide) s1 s.bus _ true
      false false false _ a1.1 hncr _ (exec59_init s.bus _ false _ false) (initCard_listening ..) 0x01 [] rfl
      (by decide)
    rw [popTo_initCard] at a2
    obtain ⟨s', N', h, hb, hc, hu', hr⟩ := acquireTail_card s2 s.bus _ true _ a2.1 hncr hpolls
    refine ⟨s', N', ?_, hb, hc, hu'.trans ((a1.trans a2).2.2.1.trans hu), hr.trans (a1.trans a2).2.2.2⟩
    rw [acquireBody_eq2, bind_ok (get_apply s)]
    simp only [hu, if_true]
    rw [bind_ok h1, bind_ok h2]
    simp only [show ¬ ((0x01 : UInt8).toNat ≠ R1_IDLE_STATE) by decide, if_false]
    exact h

/-- `acquire` against a quiet card with any timing within the budgets: succeeds, sets the card
type to the card's kind, leaves the card initialised and quiet. -/
theorem acquire_card (s : St Card) (hq : Quiet s.bus) (ho : s.bus.out = [])
    (hncr : s.bus.ncr ≤ DEFAULT_COMMAND_RETRIES) (hpolls : s.bus.initPolls ≤ DEFAULT_COMMAND_RETRIES) :
    ∃ s' N, acquire cardBus s = (.ok (), s') ∧
      s'.bus = initCard s.bus N false s.useCrc (decide (s.bus.kind ≠ .SD1)) true 0 ∧
      s'.cardType = some (typeOfKind s.bus.kind) ∧ s'.useCrc = s.useCrc ∧
      s'.acquireRetries = s.acquireRetries := by
  obtain ⟨s1, N, h1, b1, c1, u1, r1⟩ := acquireBody_card s hq ho hncr hpolls
  have h2 := readByte_idle s1 (by rw [b1]; exact ⟨rfl, rfl⟩) (by rw [b1]; rfl) (by rw [b1]; rfl)
  have hat1 : S.attempt (acquireBody cardBus) s = (.ok (.ok ()), s1) := by rw [attempt_apply, h1]
  have hat2 : S.attempt (readByte cardBus) s1 = (.ok (.ok 255), { s1 with events := .poll 255 :: s1.events }) := by
    rw [attempt_apply, h2]
  refine ⟨{ s1 with events := .poll 255 :: s1.events }, N, ?_, b1, c1, u1, r1⟩
  unfold acquire
  rw [bind_ok hat1, bind_ok hat2]
  rfl

end Sdmmc.Lemmas.SdCardSim2
