/-
C02 over abstract histories, part 6: the ghost of a slot stays true (`ginv_ev`, `ginv_run`): the creation
time, the name, the attribute byte up to the archive bit; the clock of the last modification in every dirty
record at the slot; and — once stored — in the directory entry, with the true length.
-/
import Sdmmc.Lemmas.AbsFsTimesInv3

namespace Sdmmc.Lemmas.AbsFsTimes
open Sdmmc.Model Sdmmc.Spec.AbsFs Sdmmc.Lemmas.AbsFsTouch
open Sdmmc.Spec (ByteFile)

section
variable {a a' : AbsFs} {x j : Nat} {g : SlotG}

/-- The slot reads as before and every dirty record at it was there before (with the same pending
modification time): the ghost stays true. -/
theorem ginv_of_same (hG : GInv a x j g) (hs : (a'.slots x)[j]? = (a.slots x)[j]?)
    (hf : ∀ f', f' ∈ a'.files → f'.dir = x → f'.idx = j → f'.dirty = true →
      ∃ f, f ∈ a.files ∧ f.dir = x ∧ f.idx = j ∧ f.dirty = true ∧ f.pm.mtime = f'.pm.mtime) : GInv a' x j g := by
  refine ⟨fun t n at0 h => by rw [hs]; exact hG.born t n at0 h, ?_, fun t h => by rw [hs]; exact hG.stored t h⟩
  intro t sy h f' hf' h1 h2 h3
  obtain ⟨f, hfm, e1, e2, e3, e4⟩ := hf f' hf' h1 h2 h3
  rw [← e4]
  exact hG.pending t sy h f hfm e1 e2 e3

theorem ginv_none : GInv a' x j ⟨none, none⟩ :=
  ⟨(fun _ _ _ h => by cases h), (fun _ _ h => by cases h), (fun _ h => by cases h)⟩

/-- Tables only. -/
theorem ginv_tables (hG : GInv a x j g) (hs : a'.slots = a.slots) (hk : a'.files.map fkeyA = a.files.map fkeyA) :
    GInv a' x j g := by
  refine ginv_of_same hG (by rw [hs]) ?_
  intro f' hf' h1 h2 h3
  obtain ⟨f, hf, hkf⟩ := mem_of_map_eq hk hf'
  unfold fkeyA at hkf
  simp only [Prod.mk.injEq] at hkf
  obtain ⟨_, k2, k3, k4, k5⟩ := hkf
  exact ⟨f, hf, by rw [← k2]; exact h1, by rw [← k3]; exact h2, by rw [← k5]; exact h3, by rw [k4]⟩

end

/-! ### Which calls change tables only -/

/-- The calls other than `open_file_in_dir`, `write`, `flush_file`, `close_file`, `delete_file_in_dir`,
`make_dir_in_dir`. -/
def tablesOnly : Op → Bool
  | .openFile _ _ _ | .write _ _ | .flush _ | .closeFile _ | .delete _ _ | .mkdir _ _ => false
  | _ => true

theorem files_setPos {a : AbsFs} {i : Nat} {f : OpenFile} (hfi : a.files[i]? = some f) (p : Nat) :
    (a.files.set i { f with pos := p }).map fkeyA = a.files.map fkeyA :=
  Sdmmc.Lemmas.MHoare.map_set_of_eq a.files fkeyA i f _ hfi rfl

theorem tables_shape {a a' : AbsFs} {op : Op} {r : Res Payload} (hl : a.locked = false) (ht : tablesOnly op = true)
    (h : absStep a op (a', r)) :
    a'.slots = a.slots ∧ a'.ids = a.ids ∧ a'.files.map fkeyA = a.files.map fkeyA := by
  unfold absStep at h
  rw [if_neg (by rw [hl]; exact Bool.false_ne_true)] at h
  cases op with
  | openVolume idx =>
    have h : openVolumeS a idx a' r := h
    unfold openVolumeS at h
    split at h
    · obtain ⟨rfl, _⟩ := h; exact ⟨rfl, rfl, rfl⟩
    · rcases h with ⟨rfl, _⟩ | ⟨rfl, _⟩ <;> exact ⟨rfl, rfl, rfl⟩
  | closeVolume v =>
    have h : closeVolumeS a v a' r := h
    unfold closeVolumeS at h
    repeat' split at h
    all_goals (obtain ⟨rfl, _⟩ := h; exact ⟨rfl, rfl, rfl⟩)
  | openRoot v =>
    have h' : (a', r) = openRootF a v := h
    have h1 : a' = (openRootF a v).1 := congrArg Prod.fst h'
    rw [h1]; unfold openRootF; split <;> exact ⟨rfl, rfl, rfl⟩
  | closeDir d =>
    have h' : (a', r) = closeDirF a d := h
    have h1 : a' = (closeDirF a d).1 := congrArg Prod.fst h'
    rw [h1]; unfold closeDirF; split <;> exact ⟨rfl, rfl, rfl⟩
  | openDir d name =>
    have h : openDirS a d name a' r := h
    unfold openDirS at h
    repeat' split at h
    all_goals (obtain ⟨rfl, _⟩ := h; exact ⟨rfl, rfl, rfl⟩)
  | find d name => obtain ⟨rfl, _⟩ := (show findS a d name a' r from h); exact ⟨rfl, rfl, rfl⟩
  | list d => obtain ⟨rfl, _⟩ := (show listS a d a' r from h); exact ⟨rfl, rfl, rfl⟩
  | listLfn d n => obtain ⟨rfl, _⟩ := (show listLfnS a d a' r from h); exact ⟨rfl, rfl, rfl⟩
  | openFile d name mode => cases ht
  | read f n =>
    have h : readS a f n a' r := h
    unfold readS at h
    cases hf : fileOf a f with
    | none => rw [hf] at h; obtain ⟨rfl, _⟩ := h; exact ⟨rfl, rfl, rfl⟩
    | some p =>
      obtain ⟨i, rec⟩ := p
      rw [hf] at h
      dsimp only at h
      split at h
      · obtain ⟨rfl, _⟩ := h; exact ⟨rfl, rfl, rfl⟩
      · obtain ⟨m, bytes, _, _, rfl⟩ := h
        exact ⟨rfl, rfl, files_setPos (fileOf_some hf).2.1 _⟩
  | write f data => cases ht
  | seekStart f n =>
    have h : seekStartS a f n a' r := h
    unfold seekStartS at h
    cases hf : fileOf a f with
    | none => rw [hf] at h; obtain ⟨rfl, _⟩ := h; exact ⟨rfl, rfl, rfl⟩
    | some p =>
      obtain ⟨i, rec⟩ := p
      rw [hf] at h
      dsimp only at h
      split at h
      · obtain ⟨rfl, _⟩ := h; exact ⟨rfl, rfl, files_setPos (fileOf_some hf).2.1 _⟩
      · obtain ⟨rfl, _⟩ := h; exact ⟨rfl, rfl, rfl⟩
  | seekCur f n =>
    have h : seekCurS a f n a' r := h
    unfold seekCurS at h
    cases hf : fileOf a f with
    | none => rw [hf] at h; obtain ⟨rfl, _⟩ := h; exact ⟨rfl, rfl, rfl⟩
    | some p =>
      obtain ⟨i, rec⟩ := p
      rw [hf] at h
      dsimp only at h
      split at h
      · obtain ⟨rfl, _⟩ := h; exact ⟨rfl, rfl, rfl⟩
      · obtain ⟨rfl, _⟩ := h; exact ⟨rfl, rfl, files_setPos (fileOf_some hf).2.1 _⟩
  | seekEnd f n =>
    have h : seekEndS a f n a' r := h
    unfold seekEndS at h
    cases hf : fileOf a f with
    | none => rw [hf] at h; obtain ⟨rfl, _⟩ := h; exact ⟨rfl, rfl, rfl⟩
    | some p =>
      obtain ⟨i, rec⟩ := p
      rw [hf] at h
      dsimp only at h
      split at h
      · obtain ⟨rfl, _⟩ := h; exact ⟨rfl, rfl, files_setPos (fileOf_some hf).2.1 _⟩
      · obtain ⟨rfl, _⟩ := h; exact ⟨rfl, rfl, rfl⟩
  | flush f => cases ht
  | closeFile f => cases ht
  | delete d name => cases ht
  | mkdir d name => cases ht
  | length f => obtain ⟨rfl, _⟩ := (show lengthS a f a' r from h); exact ⟨rfl, rfl, rfl⟩
  | offset f => obtain ⟨rfl, _⟩ := (show offsetS a f a' r from h); exact ⟨rfl, rfl, rfl⟩
  | eof f => obtain ⟨rfl, _⟩ := (show eofS a f a' r from h); exact ⟨rfl, rfl, rfl⟩
  | hasOpen =>
    have h' : (a', r) = (a, _) := h
    injection h' with h1 _
    rw [h1]; exact ⟨rfl, rfl, rfl⟩
  | label v =>
    have h : labelS a v a' r := h
    unfold labelS at h
    split at h
    · obtain ⟨rfl, _⟩ := h; exact ⟨rfl, rfl, rfl⟩
    · rcases h with ⟨rfl, _⟩ | h
      · exact ⟨rfl, rfl, rfl⟩
      · split at h
        · next dd _ =>
          obtain ⟨rfl, _⟩ := h
          have e1 : (closeDirF (openRootF a v).1 dd).1.slots = a.slots := by rw [closeDirF_slots, openRootF_slots]
          refine ⟨e1, ?_, ?_⟩
          · unfold closeDirF; split <;> (unfold openRootF; split <;> rfl)
          · unfold closeDirF; split <;> (unfold openRootF; split <;> rfl)
        · obtain ⟨rfl, _⟩ := h
          unfold openRootF; split <;> exact ⟨rfl, rfl, rfl⟩

theorem eff_tablesOnly (a : AbsFs) (x j : Nat) {op : Op} (r : Res Payload) (g : SlotG) (ht : tablesOnly op = true) :
    eff a x j (.call op r) g = g := by
  cases op <;> first | rfl | cases ht

end Sdmmc.Lemmas.AbsFsTimes
