import Sdmmc.Lemmas.Crc16Poly

namespace Sdmmc.Lemmas.Crc
open Sdmmc.Model Sdmmc.Spec Sdmmc.Gen

/-! ## Linearity of the checksum -/

theorem foldl_crc16Step_xor (a : List (BitVec 8)) : ∀ (b : List (BitVec 8)) (s t : BitVec 16),
    a.length = b.length →
    (xorMsg a b).foldl crc16Step (s ^^^ t) = a.foldl crc16Step s ^^^ b.foldl crc16Step t := by
  induction a with
  | nil => intro b s t h; cases b with
    | nil => rfl
    | cons _ _ => simp at h
  | cons x a ih => intro b s t h; cases b with
    | nil => simp at h
    | cons y b =>
      simp only [xorMsg, List.zipWith_cons_cons, List.foldl_cons]
      rw [crc16Step_xor]
      exact ih b _ _ (by simpa using h)

theorem crc16_xor (a b : List (BitVec 8)) (h : a.length = b.length) :
    crc16 (xorMsg a b) = crc16 a ^^^ crc16 b := by
  have := foldl_crc16Step_xor a b 0#16 0#16 h
  simpa [crc16] using this

/-! ## Appending the checksum -/

theorem D16_msb (r : BitVec 16) : D16 r r.msb = r <<< 1 := by
  rw [D16, mulX16, BitVec.xor_assoc, BitVec.xor_self, BitVec.xor_zero]

theorem byteBits_hi (c : BitVec 16) : byteBits (c.extractLsb' 8 8) =
    [c.getLsbD 15, c.getLsbD 14, c.getLsbD 13, c.getLsbD 12, c.getLsbD 11, c.getLsbD 10,
     c.getLsbD 9, c.getLsbD 8] := by
  simp [byteBits]

theorem byteBits_lo (c : BitVec 16) : byteBits (c.extractLsb' 0 8) =
    [c.getLsbD 7, c.getLsbD 6, c.getLsbD 5, c.getLsbD 4,
     c.getLsbD 3, c.getLsbD 2, c.getLsbD 1, c.getLsbD 0] := by
  simp [byteBits]

theorem D16_shift (c : BitVec 16) (k : Nat) (hk : k ≤ 15) :
    D16 (c <<< k) (c.getLsbD (15 - k)) = c <<< (k + 1) := by
  have : (c <<< k).msb = c.getLsbD (15 - k) := by
    rw [BitVec.msb_eq_getLsbD_last]
    have h1 : ¬ (15 < k) := by omega
    have h2 : 15 - k < 16 := by omega
    simp [h1, BitVec.getLsbD_eq_getElem h2]
  rw [← this, D16_msb, ← BitVec.shiftLeft_add]

theorem foldl_D16_self (c : BitVec 16) : (bits16 c).foldl D16 c = 0#16 := by
  have h0 : c = c <<< 0 := by simp
  have := D16_shift c
  simp only [bits16, List.foldl_cons, List.foldl_nil]
  have e := this 0 (by omega); simp only [BitVec.shiftLeft_zero, Nat.sub_zero, Nat.zero_add] at e; rw [e]
  have e := this 1 (by omega); simp only [Nat.reduceSub, Nat.reduceAdd] at e; rw [e]
  have e := this 2 (by omega); simp only [Nat.reduceSub, Nat.reduceAdd] at e; rw [e]
  have e := this 3 (by omega); simp only [Nat.reduceSub, Nat.reduceAdd] at e; rw [e]
  have e := this 4 (by omega); simp only [Nat.reduceSub, Nat.reduceAdd] at e; rw [e]
  have e := this 5 (by omega); simp only [Nat.reduceSub, Nat.reduceAdd] at e; rw [e]
  have e := this 6 (by omega); simp only [Nat.reduceSub, Nat.reduceAdd] at e; rw [e]
  have e := this 7 (by omega); simp only [Nat.reduceSub, Nat.reduceAdd] at e; rw [e]
  have e := this 8 (by omega); simp only [Nat.reduceSub, Nat.reduceAdd] at e; rw [e]
  have e := this 9 (by omega); simp only [Nat.reduceSub, Nat.reduceAdd] at e; rw [e]
  have e := this 10 (by omega); simp only [Nat.reduceSub, Nat.reduceAdd] at e; rw [e]
  have e := this 11 (by omega); simp only [Nat.reduceSub, Nat.reduceAdd] at e; rw [e]
  have e := this 12 (by omega); simp only [Nat.reduceSub, Nat.reduceAdd] at e; rw [e]
  have e := this 13 (by omega); simp only [Nat.reduceSub, Nat.reduceAdd] at e; rw [e]
  have e := this 14 (by omega); simp only [Nat.reduceSub, Nat.reduceAdd] at e; rw [e]
  have e := this 15 (by omega); simp only [Nat.reduceSub, Nat.reduceAdd] at e; rw [e]
  simp

theorem crc16_append_self (m : List (BitVec 8)) :
    crc16 (m ++ [(crc16 m).extractLsb' 8 8, (crc16 m).extractLsb' 0 8]) = 0#16 := by
  have h : ∀ c : BitVec 16, crc16Step (crc16Step c (c.extractLsb' 8 8)) (c.extractLsb' 0 8) = 0#16 := by
    intro c
    rw [crc16Step_eq_bits, crc16Step_eq_bits, D16byte, D16byte, ← List.foldl_append, byteBits_hi,
      byteBits_lo]
    exact foldl_D16_self c
  simp only [crc16, List.foldl_append, List.foldl_cons, List.foldl_nil]
  exact h _

end Sdmmc.Lemmas.Crc
