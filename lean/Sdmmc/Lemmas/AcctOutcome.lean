/-
C16 at the API level, part 5 — the outcome of `write` and the number of bytes it stores are a
function of the free space: of the length of the file's chain, the number of free FAT entries, the
cluster size, the offset and the amount of data (`write_outcome`).  Neither the in-memory free count
nor the next-free hint occurs in that function: a stale or absurd record found at mount never makes
a write fail, succeed or store a different number of bytes (`write_outcome_record_indep`).
-/
import Sdmmc.Lemmas.AcctIndep

namespace Sdmmc.Lemmas.Acct
open Sdmmc.Model Sdmmc.Model.Fat Sdmmc.Spec
open Sdmmc.Lemmas.FBasic hiding NoFault Coherent
open Sdmmc.Lemmas.FatOps hiding BlocksOK Mirror HintOK
open Sdmmc.Lemmas.ChainL Sdmmc.Lemmas.ForestBase Sdmmc.Lemmas.ForestCount Sdmmc.Lemmas.ReadRefines
open Sdmmc.Lemmas.WriteRefines

theorem full_freeCount_zero {v : FatVolume} {d : Disk} (h : Full v d) : freeCount v d = 0 := by
  unfold freeCount
  rw [List.countP_eq_zero]
  intro c hc
  have hcE := List.mem_range.1 hc
  simp only [decide_eq_true_eq, not_and]
  intro h2 hfree
  exact h c ⟨h2, hcE⟩ hfree

/-- The capacity the file can reach: its chain plus every free cluster of the volume. -/
def reach (v : FatVolume) (d : Disk) (cs : List Nat) : Nat := (cs.length + freeCount v d) * clusterBytesLen v

/-- The answer `write` gives, as a function of the free space. -/
def outcome (v : FatVolume) (d : Disk) (cs : List Nat) (o len : Nat) : Res Unit :=
  if cs = [] ∧ freeCount v d = 0 then .err .NotEnoughSpace
  else if o + len ≤ reach v d cs then .ok () else .err .DiskFull

/-- The number of bytes `write` stores, as a function of the free space. -/
def stored (v : FatVolume) (d : Disk) (cs : List Nat) (o len : Nat) : Nat :=
  if cs = [] ∧ freeCount v d = 0 then 0 else min len (reach v d cs - o)

/-- **The outcome of `write` is determined by the free space.**  Under the hypotheses of
`write_refines` (the write staying below `MAX_FILE_SIZE`): the answer is `outcome …`, the number of
bytes stored is `stored …`, and the byte-array view afterwards is the model's `write` of that many
bytes. -/
theorem write_outcome (s : Mgr) (h i vi : Nat) (data : Bytes) (f : FileInfo) (v : VolInfo) (cs : List Nat)
    (A B : List (List Nat)) (hs : MOK s)
    (hh : s.files.findIdx? (·.rawFile = h) = some i) (hf : s.files[i]? = some f)
    (hv : s.vols.findIdx? (·.rawVolume = f.rawVolume) = some vi) (hvi : s.vols[vi]? = some v)
    (hmode : f.mode ≠ .ReadOnly) (hg : WFGeom v.vol) (hhint : HintOK v.vol)
    (hok : FileOK v.vol s.dev.disk f cs) (hcur : cs = [] → f.curCluster < 2)
    (hown : Owns v.vol s.dev.disk (withChain A cs B))
    (hmax : f.currentOffset + data.length ≤ Gen.MAX_FILE_SIZE) :
    (Model.write h data s).1 = outcome v.vol s.dev.disk cs f.currentOffset data.length ∧
    ∃ f' v' cs', (Model.write h data s).2.files[i]? = some f' ∧ (Model.write h data s).2.vols[vi]? = some v' ∧
      FileOK v'.vol (Model.write h data s).2.dev.disk f' cs' ∧
      absFile v'.vol (Model.write h data s).2.dev.disk f' cs' =
        (absFile v.vol s.dev.disk f cs).write (data.take (stored v.vol s.dev.disk cs f.currentOffset data.length)) := by
  obtain ⟨k, r, s', fA, vA, csA, hrun, hk, hres, heq, _, hsg, habs, hokA, _, hpre, _, hs', _, _, _, hwf⟩ :=
    write_refines_within_max s h i vi data f v cs A B hs hh hf hv hvi hmode hg hhint hok hcur hown hmax
  obtain ⟨fB, vB, csB, kc, hfB, hvB, hokB, _, hlenB, hacct, hoffB, hnesB⟩ :=
    write_acct s h i vi data f v cs A B hs hh hf hv hvi hmode hg hhint hok hcur hown
  rw [hrun] at hfB hvB hokB hacct hoffB hnesB ⊢
  simp only at hfB hvB hokB hacct hoffB hnesB ⊢
  have hilt : i < s.files.length := (List.getElem?_eq_some_iff.1 hf).1
  have hvilt : vi < s.vols.length := (List.getElem?_eq_some_iff.1 hvi).1
  have hfA : s'.files[i]? = some fA := by rw [heq]; exact List.getElem?_set_self hilt
  have hvA : s'.vols[vi]? = some vA := by rw [heq]; exact List.getElem?_set_self hvilt
  have ef : fB = fA := by rw [hfA] at hfB; exact (Option.some.inj hfB).symm
  have ev : vB = vA := by rw [hvA] at hvB; exact (Option.some.inj hvB).symm
  subst ef; subst ev
  have ecs : csB = csA := fileOK_chain_unique hokB hokA
  subst ecs
  -- the numbers
  have hoffA : fB.currentOffset = f.currentOffset + k := by unfold WriteFile at hwf; rw [hwf]
  have hcb : clusterBytesLen vB.vol = clusterBytesLen v.vol := sameGeom_clusterBytesLen hsg
  have hfree := hacct.free
  have hsizeB : fB.currentOffset ≤ csB.length * clusterBytesLen v.vol := by
    rw [← hcb]; exact Nat.le_trans hokB.pos_le hokB.size_fits
  have hminmax : min data.length (Gen.MAX_FILE_SIZE - f.currentOffset) = data.length := by omega
  rw [hminmax] at hoffB
  generalize hF : freeCount v.vol s.dev.disk = F at hfree
  generalize hcbv : clusterBytesLen v.vol = cb at hsizeB hoffB
  have hreach : reach v.vol s.dev.disk cs = (cs.length + F) * cb := by unfold reach; rw [hF, hcbv]
  have hfinal : r = outcome v.vol s.dev.disk cs f.currentOffset data.length ∧
      k = stored v.vol s.dev.disk cs f.currentOffset data.length := by
    unfold outcome stored
    rw [hreach, hF]
    rcases hres with ⟨hr, hkl⟩ | ⟨hr, hkl, hne, hfull⟩ | ⟨hr, hk0, hnil, hfull⟩
    · -- everything stored
      have hne : csB ≠ [] := by
        intro e
        have := hnesB e
        rw [hr] at this
        cases this
      have hpos : 0 < csB.length := List.length_pos_iff.2 hne
      have hnot : ¬ (cs = [] ∧ F = 0) := by
        rintro ⟨e1, e2⟩
        rw [e1] at hlenB
        simp only [List.length_nil] at hlenB
        omega
      have hle : f.currentOffset + data.length ≤ (cs.length + F) * cb := by
        have h1 : csB.length * cb ≤ (cs.length + F) * cb := Nat.mul_le_mul_right _ (by omega)
        omega
      rw [if_neg hnot, if_pos hle, if_neg hnot]
      exact ⟨hr, by omega⟩
    · -- the volume ran full
      have hz : freeCount v.vol s'.dev.disk = 0 := by
        have := full_freeCount_zero hfull
        rw [hsg.freeCount] at this
        exact this
      have hkc : kc = F := by omega
      have hend : fB.currentOffset = csB.length * cb := by
        rcases hoffB with ho | ⟨ho, _⟩
        · omega
        · exact ho
      have hpos : 0 < csB.length := List.length_pos_iff.2 hne
      have hnot : ¬ (cs = [] ∧ F = 0) := by
        rintro ⟨e1, e2⟩
        rw [e1] at hlenB
        simp only [List.length_nil] at hlenB
        omega
      have hC : f.currentOffset + k = (cs.length + F) * cb := by rw [← hoffA, hend, hlenB, hkc]
      rw [if_neg hnot, if_neg (by omega), if_neg hnot]
      exact ⟨hr, by omega⟩
    · -- no first cluster to be had
      have hz : freeCount v.vol s'.dev.disk = 0 := by
        have := full_freeCount_zero hfull
        rw [hsg.freeCount] at this
        exact this
      have hl0 : csB.length = 0 := by rw [hnil]; rfl
      have hcs : cs = [] := List.length_eq_zero_iff.1 (by omega)
      have hF0 : F = 0 := by omega
      rw [if_pos ⟨hcs, hF0⟩, if_pos ⟨hcs, hF0⟩]
      exact ⟨hr, hk0⟩
  refine ⟨hfinal.1, fB, vB, csB, hfA, hvA, hokB, ?_⟩
  rw [← hfinal.2]
  exact habs

/-- **A stale or absurd free-space record is harmless.**  Two manager states that differ only in
the record of the volume written to — ANY free count, ANY next-free hint that is not a reserved
entry — answer a `write` the same way and store the same number of bytes (so the byte-array views of
the file afterwards are the same): neither value occurs in `outcome` / `stored`. -/
theorem write_outcome_record_indep (s : Mgr) (h i vi : Nat) (data : Bytes) (f : FileInfo) (v : VolInfo) (cs : List Nat)
    (A B : List (List Nat)) (hs : MOK s)
    (hh : s.files.findIdx? (·.rawFile = h) = some i) (hf : s.files[i]? = some f)
    (hv : s.vols.findIdx? (·.rawVolume = f.rawVolume) = some vi) (hvi : s.vols[vi]? = some v)
    (hmode : f.mode ≠ .ReadOnly) (hg : WFGeom v.vol) (hhint : HintOK v.vol)
    (hok : FileOK v.vol s.dev.disk f cs) (hcur : cs = [] → f.curCluster < 2)
    (hown : Owns v.vol s.dev.disk (withChain A cs B))
    (hmax : f.currentOffset + data.length ≤ Gen.MAX_FILE_SIZE)
    (cnt hint : Option Nat) (hhint2 : ∀ n, hint = some n → 2 ≤ n) :
    let v2 : VolInfo := { v with vol := { v.vol with freeClustersCount := cnt, nextFreeCluster := hint } }
    let s2 : Mgr := { s with vols := s.vols.set vi v2 }
    (Model.write h data s2).1 = (Model.write h data s).1 ∧
    (Model.write h data s2).1 = outcome v.vol s.dev.disk cs f.currentOffset data.length := by
  intro v2 s2
  have hsg : SameGeom v.vol v2.vol := ⟨cnt, hint, rfl⟩
  have hvilt : vi < s.vols.length := (List.getElem?_eq_some_iff.1 hvi).1
  have h1 := (write_outcome s h i vi data f v cs A B hs hh hf hv hvi hmode hg hhint hok hcur hown hmax).1
  have h2 := (write_outcome s2 h i vi data f v2 cs A B hs hh hf
    (by show (s.vols.set vi v2).findIdx? _ = _
        rw [findIdx?_set_same _ s.vols vi v v2 hvi rfl]; exact hv)
    (List.getElem?_set_self hvilt) hmode (hsg.wfGeom hg) hhint2 (sameGeom_fileOK hsg hok) hcur (owns_sameGeom hsg hown) hmax).1
  have e : outcome v2.vol s2.dev.disk cs f.currentOffset data.length =
      outcome v.vol s.dev.disk cs f.currentOffset data.length := rfl
  rw [e] at h2
  exact ⟨h2.trans h1.symm, h2⟩

end Sdmmc.Lemmas.Acct
