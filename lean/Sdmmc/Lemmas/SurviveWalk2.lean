/-
C09 over whole histories, part 19: the fresh reader, any directory.  `path_read`: on a crash-consistent medium that
mounts, shows the flushed file in a slot of directory `h`, and on which the sub-directory entries `ys` lead from the root
directory to `h`: the slot is the first hit for the file's name in `h`, and any fresh manager mounts, opens the root
directory, opens the sub-directories by any spellings of their names, opens the file and reads exactly its contents.
-/
import Sdmmc.Lemmas.SurviveWalk

namespace Sdmmc.Lemmas.Survive
open Sdmmc.Model Sdmmc.Model.Fat Sdmmc.Spec.Volume Sdmmc.Lemmas.VolBase Sdmmc.Lemmas.VolTree
open Sdmmc.Spec hiding NoFault Coherent
open Sdmmc.Lemmas.VolDisk Sdmmc.Lemmas.VolMed Sdmmc.Lemmas.VolEng
open Sdmmc.Lemmas.MHoare
open Sdmmc.Lemmas.ReadRefines (MgrOK)
open Sdmmc.Lemmas.Modes (DirCtx lookup)

theorem pathOn_sameGeom {v w : FatVolume} (hs : SameGeom v w) {d : Disk} {G : List (List Nat)} {dirs : List (Nat × Nat)}
    {p h : Nat} {ys : List Slot} (hP : PathOn v.fatType dirs (dirSlots v d G) p ys h) :
    PathOn w.fatType dirs (dirSlots w d G) p ys h := by
  have e1 : dirSlots w d G = dirSlots v d G := funext fun q => dirSlots_sameGeom hs d G q
  rw [e1, hs.fatType]
  exact hP

/-- **The fresh reader, any directory.** -/
theorem path_read {v0 : FatVolume} {dk : Disk} {ghk : Ghost} (hC : CrashInv v0 dk ghk) {e : DirEntry} {cs : List Nat}
    (hF : FlushedOn v0 dk e cs) (hst : Reopen.Storable v0.fatType e) (hn0 : byteAt e.name 0 ≠ 0) (hn5 : byteAt e.name 0 ≠ 0xE5)
    (hlfn : e.attributes % 16 ≠ 15) (hplain : Attr.isDirectory e.attributes = false)
    (hfit : e.size ≤ cs.length * clusterBytesLen v0) {ys : List Slot} {h : Nat}
    (hP : PathOn v0.fatType ghk.dirs (dirSlots v0 dk ghk.G) 0 ys h) (hnd : ∀ y, y ∈ ys → sName y ≠ Sfn.thisDir)
    (hxm : slotOf v0.fatType e ∈ dirSlots v0 dk ghk.G h)
    (idx : Nat) (w : FatVolume) (hmw : mountPure (dk.get 0) idx dk.get = .ok w) (hsw : SameGeom v0 w) :
    Reopen.FirstHit (dirSlots v0 dk ghk.G h) e.name (slotOf v0.fatType e) ∧
    ∀ (t0 : Mgr) (names : List (List Nat)) (name : List Nat), MgrOK t0 → t0.dev.disk = dk → t0.vols = [] → t0.dirs = [] →
      t0.files = [] → 0 < t0.maxVols → ys.length + 1 ≤ t0.maxDirs → 0 < t0.maxFiles →
      t0.nextId + ys.length + 2 < 4294967296 → Spells names ys → Sfn.createFromStr name = .ok e.name →
      ∃ t1 t2 dh t3 t4, openRawVolume idx t0 = (.ok t0.nextId, t1) ∧
        openRootDir t0.nextId t1 = (.ok (t0.nextId + 1), t2) ∧
        openPath (t0.nextId + 1) names t2 = (.ok dh, t3) ∧
        openFileInDir dh name .ReadOnly t3 = (.ok (t0.nextId + ys.length + 2), t4) ∧
        t4.dev.disk = dk ∧ t4.dev.wlog = t0.dev.wlog ∧
        fileLength (t0.nextId + ys.length + 2) t4 = (.ok e.size, t4) ∧
        ∀ n, ∃ t5, read (t0.nextId + ys.length + 2) n t4 = (.ok ((fileContent v0 dk cs e.size).take n), t5) ∧
          t5.dev.disk = dk ∧ t5.dev.wlog = t0.dev.wlog := by
  obtain ⟨_, hCore⟩ := VolCrash.crashInv_iff.1 hC
  have hT : TreeView v0.fatType ghk.dirs (dirSlots v0 dk ghk.G) := TreeView.of_treeLoose hC.tree
  have hh : h ∈ dirIds ghk.dirs := hP.end_mem
  obtain ⟨hsn, hfi, hat, _, _⟩ := slotOf_fields v0.fatType e hst
  have hfh := firstHit_of_clean (hT.cleanTail h hh) (hT.names h hh) hxm (by rw [hfi]; exact hn0) (by rw [hfi]; exact hn5)
    (by unfold isFrag; rw [hat]; simpa using hlfn)
  rw [hsn] at hfh
  refine ⟨hfh, ?_⟩
  intro t0 names name ht0 hdisk hvols hdirs hfiles hmv hmd hmf hid hsp hname
  -- everything in the geometry of the mounted record
  have hCw : VolCrash.CrashCore w dk ghk := VolCrash.core_sameGeom hsw hCore
  have hPw := pathOn_sameGeom hsw hP
  have hgw : WFGeom w := hsw.wfGeom hC.geom
  have hftw : w.fatType = v0.fatType := hsw.fatType
  have hslw : dirSlots w dk ghk.G h = dirSlots v0 dk ghk.G h := dirSlots_sameGeom hsw dk ghk.G h
  -- mount, open the root directory
  obtain ⟨t1, hopen1, heq1, hd1, hw1, hok_t1⟩ := Reopen.openRawVolume_spec t0 idx w ht0 (by rw [hvols]; exact hmv)
    (by rw [hvols]; rfl) (by rw [hdisk]; exact hmw)
  have ht1_dirs : t1.dirs = [] := by rw [heq1]; exact hdirs
  have ht1_files : t1.files = [] := by rw [heq1]; exact hfiles
  have ht1_vols : t1.vols = [{ rawVolume := t0.nextId, idx := idx, vol := w }] := by rw [heq1, hvols]; rfl
  have ht1_id : t1.nextId = t0.nextId + 1 := by rw [heq1]; show (t0.nextId + 1) % 4294967296 = _; omega
  have ht1_md : t1.maxDirs = t0.maxDirs := by rw [heq1]
  have ht1_mf : t1.maxFiles = t0.maxFiles := by rw [heq1]
  have hopen2 := Reopen.openRootDir_spec t1 t0.nextId (by rw [ht1_dirs, ht1_md]; show 0 < _; omega)
  rw [ht1_id] at hopen2
  obtain ⟨t2, ht2⟩ : ∃ t2 : Mgr, Reopen.rootOpened t1 t0.nextId = t2 := ⟨_, rfl⟩
  have hopen2' : openRootDir t0.nextId t1 = (.ok (t0.nextId + 1), t2) := by rw [← ht2]; exact hopen2
  unfold Reopen.rootOpened at ht2
  have ht2_dirs : t2.dirs = [{ rawDirectory := t0.nextId + 1, rawVolume := t0.nextId, cluster := Gen.CLUSTER_ROOT_DIR }] := by
    rw [← ht2, ht1_dirs]; rfl
  have ht2_files : t2.files = [] := by rw [← ht2]; exact ht1_files
  have ht2_vols : t2.vols = [{ rawVolume := t0.nextId, idx := idx, vol := w }] := by rw [← ht2]; exact ht1_vols
  have ht2_id : t2.nextId = t0.nextId + 2 := by rw [← ht2]; show (t0.nextId + 1 + 1) % 4294967296 = _; omega
  have ht2_mf : t2.maxFiles = t0.maxFiles := by rw [← ht2]; exact ht1_mf
  have ht2_md : t2.maxDirs = t0.maxDirs := by rw [← ht2]; exact ht1_md
  have hok_t2 : MgrOK t2 := by rw [← ht2]; exact hok_t1
  have hd_t2 : t2.dev.disk = dk := by rw [← ht2]; show t1.dev.disk = _; rw [hd1, hdisk]
  have hw_t2 : t2.dev.wlog = t0.dev.wlog := by rw [← ht2]; exact hw1
  generalize hWdef : ({ rawVolume := t0.nextId, idx := idx, vol := w } : VolInfo) = W at ht2_vols
  have hWvol : W.vol = w := by rw [← hWdef]
  have hWraw : W.rawVolume = t0.nextId := by rw [← hWdef]
  have hat2 : AtDir t2 W (t0.nextId + 1) 0 := by
    refine ⟨hok_t2, ht2_vols, ht2_files, ?_, ?_⟩
    · intro di hdi
      rw [ht2_dirs] at hdi
      rw [List.mem_singleton.1 hdi, ht2_id]
      exact Nat.lt_succ_self _
    · refine ⟨0, { rawDirectory := t0.nextId + 1, rawVolume := t0.nextId, cluster := Gen.CLUSTER_ROOT_DIR }, ?_, ?_, rfl, hWraw.symm⟩
      · rw [ht2_dirs]; simp
      · rw [ht2_dirs]; rfl
  -- walk
  have hCW : VolCrash.CrashCore W.vol dk ghk := by rw [hWvol]; exact hCw
  obtain ⟨dh, t3, hwalk, hat3, hd3, hw3, hid3, hmf3⟩ := walk_path hCW ys names 0 h t2 (t0.nextId + 1) (by rw [hWvol]; exact hPw) hsp hnd
    hat2 hd_t2 (by rw [ht2_dirs, ht2_md]; simp only [List.length_cons, List.length_nil]; omega) (by rw [ht2_id]; omega)
  -- open the file
  obtain ⟨i, dir, hidx, hget, hcl, hrv⟩ := hat3.handle
  have hctx : DirCtx t3 dh name dir 0 e.name := by
    refine ⟨⟨i, hidx, hget⟩, ?_, hname⟩
    rw [hat3.vols]; simp [hrv]
  have hfhw : Reopen.FirstHit (Reopen.dirSlotsOf W.vol t3.dev.disk dir.cluster (dirChain W.vol ghk.G h)) e.name (slotOf v0.fatType e) := by
    rw [hd3, hcl, hWvol, dirSlotsOf_dir hCw hh, hslw]
    exact hfh
  have hdec : Listing.decode W.vol.fatType (slotOf v0.fatType e) = Reopen.stored e := by
    rw [hWvol, hftw]; exact Reopen.decode_serialize v0.fatType e hst
  obtain ⟨t4, hopen4, hop4, _, hlen4, hread4⟩ := Reopen.open_read_entry t3 dh name dir 0 e.name W (dirChain W.vol ghk.G h)
    (slotOf v0.fatType e) (Reopen.stored e) cs hat3.ok hctx (by rw [hat3.vols]; rfl) (by rw [hWvol]; exact hgw)
    (by rw [hat3.files, hmf3, ht2_mf]; exact hmf) (by rw [hat3.files]; intro g hg; cases hg)
    (by rw [hd3, hcl, hWvol]; exact dir_dirOn hCw hh) hfhw hdec hplain
    (by unfold fileIsOpen; rw [hat3.files]; rfl)
    (by
      rw [hd3, hWvol]
      rcases hF.chain with h' | h'
      · exact .inl h'
      · exact .inr (ForestBase.chain_sameGeom hsw h'))
    (by rw [hWvol, WriteRefines.sameGeom_clusterBytesLen hsw]; exact hfit)
  have hid3' : t3.nextId = t0.nextId + ys.length + 2 := by rw [hid3, ht2_id]; omega
  rw [hid3'] at hopen4 hlen4 hread4
  rw [hd3, hWvol] at hread4
  have hfc : ∀ n, fileContent w dk cs n = fileContent v0 dk cs n := fun n => WriteRefines.sameGeom_fileContent hsw _ _ _
  refine ⟨t1, t2, dh, t3, t4, hopen1, hopen2', hwalk, hopen4, hop4.2.1.trans hd3, hop4.2.2.trans (hw3.trans hw_t2), hlen4, fun n => ?_⟩
  obtain ⟨t5, hr, hd5, hw5⟩ := hread4 n
  refine ⟨t5, ?_, hd5, hw5.trans (hw3.trans hw_t2)⟩
  rw [← hfc]; exact hr

end Sdmmc.Lemmas.Survive
