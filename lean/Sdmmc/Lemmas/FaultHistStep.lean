/-
C11 over histories, part 2 — ONE CALL FROM A STATE WITH THE INVARIANT UP TO THE SCHEDULE.

`s0` satisfies `VolInv`; the call runs from `withFaults L s0` for an ARBITRARY schedule `L`.  `mclr t` is `t` with the
schedule erased, so `VolInv (mclr t) gh` is "the invariant up to the schedule" (`Spec.Volume.VolInvF`).

* a call none of whose device calls failed keeps it (`quiet_step_inv`: erasure + the fault-free theory of C03);
* a READ-ONLY call keeps it whatever fails (`ro_step_inv`);
* `flush_file` and `close_volume` keep it whatever fails (`flush_step_inv`, `closeVolume_step_inv`): each of their
  engine calls writes at most one block, and the medium before and the medium after such a call both carry the
  invariant;
* `step_inv_A`: hence every covered call, provided a device failure occurs only in a call of one of these kinds.
-/
import Sdmmc.Lemmas.FaultHistErase
import Sdmmc.Lemmas.FaultInvMain
import Sdmmc.Lemmas.FaultInvClose
import Sdmmc.Lemmas.VolApiMount

namespace Sdmmc.Lemmas.FaultHist
open Sdmmc.Model Sdmmc.Model.Fat Sdmmc.Spec.Volume Sdmmc.Lemmas.VolBase Sdmmc.Lemmas.VolTree
open Sdmmc.Spec hiding NoFault Coherent
open Sdmmc.Lemmas.VolDisk Sdmmc.Lemmas.VolMed Sdmmc.Lemmas.VolApi Sdmmc.Lemmas.VolEng
open Sdmmc.Lemmas.FBasic (NoFault Coherent)
open Sdmmc.Lemmas.CrashBase Sdmmc.Lemmas.Retry Sdmmc.Lemmas.FaultPre Sdmmc.Lemmas.MHoare Sdmmc.Lemmas.FaultInv
open Sdmmc.Lemmas.Fault hiding resetLogs step_unlocked

/-- The calls covered (as `Props.C03Inv.Covered`). -/
abbrev HCovered := FCovered

/-- **Every covered call keeps the invariant** (fault-free; the case analysis of `Props.C03Inv.api_step_invariant`). -/
theorem covered_step_inv {s : Mgr} {gh : Ghost} (hI : VolInv s gh) (op : Op) (hc : FCovered s op) :
    ∃ gh', VolInv (step s op).1 gh' ∧ SameGeom gh.vol gh'.vol := by
  cases op with
  | openVolume idx => exact step_openVolume_api_open hI hc idx
  | closeVolume v => exact step_closeVolume_api hI v
  | openRoot v => exact step_openRoot_api hI v
  | openDir d name => exact step_openDir_api hI d name hc
  | closeDir d => exact step_closeDir_api hI d
  | openFile d name mode => exact step_openFile_api hI d name mode hc
  | read f n => exact step_read_api hI f n
  | write f data => exact write_step_api hI f data
  | seekStart f n => exact step_seekStart_api hI f n
  | seekCur f n => exact step_seekCur_api hI f n
  | seekEnd f n => exact step_seekEnd_api hI f n
  | flush f => exact step_flush_api hI f
  | closeFile f => exact step_closeFile_api hI f
  | delete d name => exact step_delete_api hI d name hc
  | mkdir d name => exact step_mkdir_api hI d name hc
  | find d name => exact step_find_api hI d name
  | list d => exact step_list_api hI d
  | listLfn d n => exact step_listLfn_api hI d n
  | length f => exact step_length_api hI f
  | offset f => exact step_offset_api hI f
  | eof f => exact step_eof_api hI f
  | hasOpen => exact step_hasOpen_api hI
  | label v => exact step_label_api hI v

theorem mclr_withFaults' {s0 : Mgr} (hn : s0.dev.faults = []) (L : List Nat) : mclr (withFaults L s0) = s0 :=
  mclr_withFaults hn L

/-- **A call none of whose device calls failed**, under any schedule. -/
theorem quiet_step_inv {s0 : Mgr} {gh : Ghost} (hI : VolInv s0 gh) (L : List Nat) (op : Op) (hc : FCovered s0 op)
    (hq : (step (withFaults L s0) op).1.dev.failed = s0.dev.failed) :
    (step (withFaults L s0) op).2 = (step s0 op).2 ∧
    ∃ gh', VolInv (mclr (step (withFaults L s0) op).1) gh' ∧ SameGeom gh.vol gh'.vol := by
  obtain ⟨h1, h2⟩ := step_erase (withFaults L s0) op hq
  rw [mclr_withFaults' hI.noFault L] at h1 h2
  obtain ⟨gh', hI', hg⟩ := covered_step_inv hI op hc
  exact ⟨h1.symm, gh', by rw [← h2]; exact hI', hg⟩

/-! ### Read-only calls, whatever fails -/

/-- Only device bookkeeping and the cache moved, coherently, on the same medium: the invariant up to the schedule
is kept. -/
theorem volInv_of_mro {s0 : Mgr} {gh : Ghost} (hI : VolInv s0 gh) {t t' : Mgr} (ht : mclr t = s0) (hm : MRO t t') :
    VolInv (mclr t') gh := by
  have hc : MCoh t := by
    intro i hi
    have := hI.coherent i (by rw [← ht]; exact hi)
    rw [← ht] at this; exact this
  have e := hm.eq
  refine volInv_ro (s' := mclr t') hI ?_ rfl (hm.coh hc) ?_ ?_ ?_ ?_ ?_
  · show t'.dev.disk = _; rw [hm.disk, ← ht]; rfl
  · show t'.vols = _; rw [e, ← ht]; rfl
  · show t'.files = _; rw [e, ← ht]; rfl
  · show t'.locked = _; rw [e, ← ht]; rfl
  · show t'.maxVols = _; rw [e, ← ht]; rfl
  · intro di hd
    have : di ∈ t.dirs := by
      have hd' : di ∈ t'.dirs := hd
      rw [e] at hd'; exact hd'
    exact hI.openDirs di (by rw [← ht]; exact this)

theorem read_step_inv {s0 : Mgr} {gh : Ghost} (hI : VolInv s0 gh) (L : List Nat) (h n : Nat) :
    VolInv (mclr (Model.read h n (withFaults L s0)).2) gh := by
  have hsame : (Model.read h n (withFaults L s0)).2 = withFaults L s0 → VolInv (mclr (Model.read h n (withFaults L s0)).2) gh := by
    intro e; rw [e, mclr_withFaults' hI.noFault L]; exact hI
  cases hidx : s0.files.findIdx? (·.rawFile = h) with
  | none =>
    apply hsame
    unfold Model.read
    rw [bind_err (getFileById_bad (s := withFaults L s0) hidx)]
  | some i =>
    obtain ⟨f, hf, _⟩ := findIdx?_some_get hidx
    have hfm : f ∈ s0.files := List.mem_of_getElem? hf
    obtain ⟨vi, hv, hvol, hrv, _⟩ := vol_of_file hI hfm
    have hvfind : s0.vols.findIdx? (·.rawVolume = f.rawVolume) = some 0 := by rw [hv]; simp [hrv]
    have hvi : s0.vols[0]? = some vi := by rw [hv]; rfl
    obtain ⟨hok, hcur⟩ := hI.med.fileOK f hfm
    have hg : WFGeom vi.vol := by rw [hvol]; exact hI.med.geom
    have hs : MgrOKF (withFaults L s0) := ⟨hI.coherent, hI.med.blocksOK, hI.unlocked⟩
    by_cases heof : f.currentOffset = f.entry.size
    · apply hsame
      rw [ReadRefines.read_at_eof (withFaults L s0) h n i 0 f hidx hf hvfind heof]
    have hne : chainOf gh.G f.entry.cluster ≠ [] := by
      intro he
      rcases hok.chain with ⟨_, _, h0⟩ | hch
      · have := hok.pos_le; omega
      · exact ChainL.chain_ne_nil hch he
    rw [← hvol] at hok
    obtain ⟨f1, hstep, hsame1, hfl, hsF, hok1, _, _⟩ :=
      Retry.read_under_faults (withFaults L s0) h n i 0 f vi _ hs hidx hf hvfind hvi hg hok
    have e := hstep.eq
    have hI2 := volInv_file_set' hI hf (f' := f1) (by unfold fkey; rw [hsame1.entry]) (by rw [hsame1.entry])
      (by rw [hsame1.entry]) (by rw [hsame1.entry]) (by rw [hsame1.entry]) (by rw [hsame1.dirty]; exact id) hsame1.rawVolume
      (by rw [← hvol]; have := hok1; rw [hstep.disk] at this; exact this)
      (fun hnil => absurd hnil hne)
      (mclr (Model.read h n (withFaults L s0)).2).dev (Model.read h n (withFaults L s0)).2.cache
      (by show (Model.read h n (withFaults L s0)).2.dev.disk = _; rw [hstep.disk]; rfl) rfl hsF.1
    have : mclr (Model.read h n (withFaults L s0)).2 =
        { s0 with dev := (mclr (Model.read h n (withFaults L s0)).2).dev, cache := (Model.read h n (withFaults L s0)).2.cache,
                  files := s0.files.set i f1 } := by
      conv => lhs; rw [e]
      rfl
    rw [this]; exact hI2

/-- A call that never touches the device commutes with erasing the schedule. -/
theorem nodev_commute {α} {m : M α} (hm : MAgree m) (hnd : ∀ t, (m t).2.dev = t.dev) (t : Mgr) :
    m (mclr t) = ((m t).1, mclr (m t).2) := (hm t).2 (by rw [hnd t])

theorem openRootDir_dev (v : Nat) (t : Mgr) : (openRootDir v t).2.dev = t.dev := by
  rw [Fault.openRootDir_eq]; split <;> rfl

theorem label_step_inv {s0 : Mgr} {gh : Ghost} (hI : VolInv s0 gh) (L : List Nat) (v : Nat) :
    ∃ gh', VolInv (mclr (getRootVolumeLabel v (withFaults L s0)).2) gh' ∧ SameGeom gh.vol gh'.vol := by
  have h0 : mclr (withFaults L s0) = s0 := mclr_withFaults' hI.noFault L
  unfold getRootVolumeLabel
  cases hv : s0.vols.findIdx? (·.rawVolume = v) with
  | none =>
    rw [bind_err (getVolumeById_bad (s := withFaults L s0) hv), h0]; exact ⟨gh, hI, SameGeom.refl _⟩
  | some volIdx =>
    obtain ⟨vi, hvi, _⟩ := findIdx?_some_get hv
    rw [bind_ok (getVolumeById_ok (s := withFaults L s0) hv), bind_ok (getVolInfo_ok (s := withFaults L s0) hvi)]
    by_cases hl : (!(volumeNameTrim vi.vol.name).isEmpty) = true
    · rw [if_pos hl]
      show ∃ gh', VolInv (mclr (withFaults L s0)) gh' ∧ _
      rw [h0]; exact ⟨gh, hI, SameGeom.refl _⟩
    · rw [if_neg hl]
      -- the root directory is opened (no device call)
      obtain ⟨gh1, h1, g1⟩ := openRoot_api hI v
      have hcm := nodev_commute (MPre.magree (openRootDir_mpre v)) (openRootDir_dev v) (withFaults L s0)
      rw [h0] at hcm
      rw [hcm] at h1
      rw [bind_def]
      rcases hop : openRootDir v (withFaults L s0) with ⟨r, t1⟩
      rw [hop] at h1
      simp only at h1
      cases r with
      | ok dir =>
        simp only
        rw [attempt_bind, attempt_bind, map_state]
        -- the listing: only device bookkeeping and the cache move
        have h2 : VolInv (mclr (iterateDir dir t1).2) gh1 := volInv_of_mro h1 rfl (iterateDir_mro dir t1)
        -- the directory is closed again (no device call)
        obtain ⟨gh3, h3, g3⟩ := closeDir_api h2 dir
        have hcm3 := nodev_commute (MPre.magree (closeDir_mpre dir)) (fun t => (closeDir_clean dir t).2) (iterateDir dir t1).2
        rw [hcm3] at h3
        exact ⟨gh3, h3, g1.trans g3⟩
      | err e => exact ⟨gh1, h1, g1⟩
      | panic m => exact ⟨gh1, h1, g1⟩
      | diverged => exact ⟨gh1, h1, g1⟩

/-! ### `flush_file` and `close_volume`, whatever fails -/

/-- `m` never changes the volume record, whatever fails. -/
def VolK {α} (m : F α) : Prop := ∀ s, (m s).2.vol = s.vol

theorem VolK.bind {α β} {m : F α} {f : α → F β} (hm : VolK m) (hf : ∀ a, VolK (f a)) : VolK (m >>= f) := by
  intro s
  have h1 := hm s
  rcases hr : m s with ⟨r, s'⟩
  rw [hr] at h1
  cases r with
  | ok a => rw [Fault.F.bind_ok hr]; exact (hf a s').trans h1
  | err e => rw [Fault.F.bind_err hr]; exact h1
  | panic msg => rw [Fault.F.bind_panic hr]; exact h1
  | diverged => rw [Fault.F.bind_diverged hr]; exact h1

theorem VolK.of_geoEq {α} {m : F α} (h : ∀ s, (m s).2.vol = s.vol) : VolK m := h

theorem VolK.cacheRead (i : Nat) : VolK (cacheRead i) := fun s => (Modes.ro_cacheRead i s).2.2.2
theorem VolK.writeBack : VolK writeBack := fun s => FBasic.writeBack_vol s
theorem VolK.cacheModify (f : Block → Block) : VolK (cacheModify f) := fun _ => rfl
theorem VolK.pure {α} (a : α) : VolK (pure a : F α) := fun _ => rfl
theorem VolK.getVol : VolK F.getVol := fun _ => rfl

macro "volk_step" : tactic => `(tactic| first
  | with_reducible first
    | exact VolK.pure _
    | exact VolK.getVol
    | exact VolK.cacheRead _
    | exact VolK.cacheModify _
    | exact VolK.writeBack
    | apply VolK.bind
  | intro_pi
  | dsimp only
  | split)
macro "volk_auto" : tactic => `(tactic| repeat volk_step)

theorem updateInfoSector_volk : VolK updateInfoSector := by unfold updateInfoSector; volk_auto
theorem writeEntryToDisk_volk (e : DirEntry) : VolK (writeEntryToDisk e) := by unfold writeEntryToDisk; volk_auto
theorem flushF_volk (e : DirEntry) : VolK (DirEntryIO.flushF e) := by
  unfold DirEntryIO.flushF
  exact VolK.bind updateInfoSector_volk fun _ => writeEntryToDisk_volk e

section
variable {files : List FileInfo} {gh : Ghost} {X : List (List Nat)}

/-- `update_info_sector`, every crash point: the medium carries the invariant. -/
theorem updateInfo_crash_med {fs : FS} (hM : MedX fs.vol fs.dev.disk files gh X) (hn : NoFault fs) (hc : Coherent fs) :
    ∃ fs', updateInfoSector fs = (.ok (), fs') ∧ NoFault fs' ∧ Coherent fs' ∧ fs'.vol = fs.vol ∧
      MedX fs'.vol fs'.dev.disk files gh X ∧ CrashAll (fun d => MedX fs.vol d files gh X) fs fs' := by
  obtain ⟨fs', hr, hn', hc', hv, hM'⟩ := updateInfo_med hM hn hc
  refine ⟨fs', hr, hn', hc', hv, hM', ?_⟩
  have h1 : MedX fs.vol fs'.dev.disk files gh X := by rw [← hv]; exact hM'
  refine crash_le_one ?_ hM h1
  by_cases hidle : fs.vol.fatType = .fat16 ∨ (fs.vol.freeClustersCount = none ∧ fs.vol.nextFreeCluster = none)
  · have := FatOps.updateInfoSector_idle fs hidle
    rw [hr] at this
    have e1 : fs' = fs := congrArg Prod.snd this
    rw [e1]; exact .inl ⟨rfl, rfl⟩
  · have hft : fs.vol.fatType = .fat32 := by
      cases hf : fs.vol.fatType with
      | fat16 => exact absurd (.inl hf) hidle
      | fat32 => rfl
    obtain ⟨s1, h1', _, _, _, hd1, hw1⟩ := DirEntryIO.updateInfoSector_state32 fs hn hc hft (fun h' => hidle (.inr h'))
    rw [hr] at h1'
    have e1 : fs' = s1 := congrArg Prod.snd h1'
    rw [e1]
    exact .inr ⟨_, _, hw1, hd1⟩

/-- `flush` of an open file (info sector, then the entry), every crash point: the medium carries the invariant. -/
theorem flush_crash_med {fs : FS} (hM : MedX fs.vol fs.dev.disk files gh X) (hn : NoFault fs) (hc : Coherent fs)
    {f : FileInfo} (hf : f ∈ files) (ho : f.entry.entryOffset + 32 ≤ 512) (hname : f.entry.name.length = 11) :
    CrashAll (fun d => MedX fs.vol d files gh X) fs (DirEntryIO.flushF f.entry fs).2 := by
  obtain ⟨fs1, hr1, hn1, hc1, hv1, hM1, hcr1⟩ := updateInfo_crash_med hM hn hc
  obtain ⟨fs2, hr2, hn2, hc2, hv2, hM2, _⟩ := flush_med hM1 hn1 hc1 hf
  obtain ⟨fs2', hr2', _, _, _, _, ⟨p, hw2, hd2⟩, _⟩ := DirEntryIO.writeEntry_frame fs1 f.entry hn1 hc1 hM1.blocksOK ho hname
  have e2 : fs2' = fs2 := by rw [hr2] at hr2'; exact (congrArg Prod.snd hr2').symm
  subst e2
  have hrun : DirEntryIO.flushF f.entry fs = (.ok (), fs2') := by
    unfold DirEntryIO.flushF
    rw [FBasic.bind_ok hr1, hr2]
  rw [hrun]
  refine hcr1.trans ?_
  have hvv : fs2'.vol = fs.vol := hv2.trans hv1
  refine crash_le_one (.inr ⟨_, _, hw2, hd2⟩) ?_ ?_
  · rw [← hv1]; exact hM1
  · rw [← hvv]; exact hM2

end

/-- One engine call that never changes the volume record, every crash point of which carries the invariant: under
any schedule the state it leaves carries the invariant up to the schedule. -/
theorem withVol_inv {α : Type} {f : F α} (hf : Pre f) (hvk : VolK f) (hcoh : FaultCoh.CohT Fault.Coh f Fault.Coh)
    {s0 : Mgr} {gh : Ghost} (hI : VolInv s0 gh) {vi : VolInfo} (hvs : s0.vols = [vi]) (hvol : vi.vol = gh.vol) (L : List Nat)
    (hcr : CrashAll (fun d => MedX gh.vol d s0.files gh []) (fsOf s0 gh) (f (fsOf s0 gh)).2) :
    VolInv (mclr (withVol 0 f (withFaults L s0)).2) gh := by
  obtain ⟨hn, hc, _⟩ := volInv_fs hI
  have hw := withVol_one f (s := withFaults L s0) (gh := gh) hvs hvol
  rw [fsOf_withFaults] at hw
  rw [hw]
  generalize hfs : (f (setFaults L (fsOf s0 gh))).2 = fs'
  have hmed : MedX gh.vol fs'.dev.disk s0.files gh [] := by
    rw [← hfs]
    apply hf.transfer (setFaults L (fsOf s0 gh)) (P := fun d => MedX gh.vol d s0.files gh [])
    rw [clr_setFaults L _ hn]; exact hcr
  have hv' : fs'.vol = gh.vol := by rw [← hfs, hvk]; rfl
  have hc' : Coherent (clr fs') := by
    rw [← hfs]
    exact hcoh.all (setFaults L (fsOf s0 gh)) hc
  show VolInv (afterVol s0 vi (clr fs')) gh
  exact volInv_afterVol hI hvs (fs' := clr fs') rfl hc' hv'.symm (by rw [show (clr fs').vol = gh.vol from hv']; exact hmed)
    (fun _ h => h)

/-- **`flush_file` under any fault schedule keeps the invariant up to the schedule.** -/
theorem flushFile_inv {s0 : Mgr} {gh : Ghost} (hI : VolInv s0 gh) (L : List Nat) (h : Nat) :
    VolInv (mclr (flushFile h (withFaults L s0)).2) gh := by
  obtain ⟨hn, hc, hM⟩ := volInv_fs hI
  have h0 : mclr (withFaults L s0) = s0 := mclr_withFaults' hI.noFault L
  cases hidx : s0.files.findIdx? (·.rawFile = h) with
  | none =>
    have : flushFile h (withFaults L s0) = (.err .BadHandle, withFaults L s0) := by
      unfold flushFile
      rw [bind_err (getFileById_bad (s := withFaults L s0) hidx)]
    rw [this, h0]; exact hI
  | some i =>
    obtain ⟨f, hf, _⟩ := findIdx?_some_get hidx
    have hfm : f ∈ s0.files := List.mem_of_getElem? hf
    cases hd : f.dirty with
    | false =>
      rw [DirMgr.flushFile_clean h i f (withFaults L s0) (getFileById_ok (s := withFaults L s0) hidx)
        (getFile_ok (s := withFaults L s0) hf) hd, h0]
      exact hI
    | true =>
      obtain ⟨vi, hv, hvol, hrv, h3⟩ := vol_of_file hI hfm
      obtain ⟨_, ho, hname, hassert, _⟩ := WriteSetInv.file_slot_facts hI hfm
      have h3' : getVolumeById f.rawVolume (withFaults L s0) = (.ok 0, withFaults L s0) := by
        have : s0.vols.findIdx? (·.rawVolume = f.rawVolume) = some 0 := by rw [hv]; simp [hrv]
        exact getVolumeById_ok (s := withFaults L s0) this
      rw [DirMgr.flushFile_dirty h i 0 f (withFaults L s0) (getFileById_ok (s := withFaults L s0) hidx)
        (getFile_ok (s := withFaults L s0) hf) hd h3' hassert]
      exact withVol_inv (flushF_pre f.entry) (flushF_volk f.entry)
        (FaultCoh.CohT.bind FaultCoh.updateInfoSector_coh fun _ => FaultCoh.writeEntryToDisk_coh f.entry)
        hI hv hvol L (flush_crash_med hM hn hc hfm ho hname)

/-- **`close_volume` under any fault schedule keeps the invariant up to the schedule.** -/
theorem closeVolume_inv {s0 : Mgr} {gh : Ghost} (hI : VolInv s0 gh) (L : List Nat) (v : Nat) :
    ∃ gh', VolInv (mclr (closeVolume v (withFaults L s0)).2) gh' ∧ SameGeom gh.vol gh'.vol := by
  obtain ⟨hn, hc, hM⟩ := volInv_fs hI
  have h0 : mclr (withFaults L s0) = s0 := mclr_withFaults' hI.noFault L
  by_cases hq : (closeVolume v (withFaults L s0)).2.dev.failed = s0.dev.failed
  · -- no device call failed: the fault-free call
    have h := ((MPre.magree (closeVolume_mpre v)) (withFaults L s0)).2 hq
    rw [h0] at h
    obtain ⟨gh', hI', hg⟩ := closeVolume_api hI v
    rw [h] at hI'
    exact ⟨gh', hI', hg⟩
  · -- a device call failed: the volume stays in the table
    refine ⟨gh, ?_, SameGeom.refl _⟩
    unfold closeVolume at hq ⊢
    rw [get_bind] at hq ⊢
    split at hq
    · exact absurd rfl hq
    split at hq
    · exact absurd rfl hq
    rename_i hf1 hf2
    rw [if_neg hf1, if_neg hf2]
    cases hv : s0.vols.findIdx? (·.rawVolume = v) with
    | none =>
      rw [bind_err (getVolumeById_bad (s := withFaults L s0) hv)] at hq
      exact absurd rfl hq
    | some volIdx =>
      obtain ⟨hz, vi, hvs, hvol, _⟩ := vol_of_handle hI hv
      subst hz
      rw [bind_ok (getVolumeById_ok (s := withFaults L s0) hv)] at hq ⊢
      have hstrict := MStrict.withVol 0 updateInfoSector_strict (withFaults L s0)
      rw [bind_def] at hq ⊢
      rcases hw : withVol 0 updateInfoSector (withFaults L s0) with ⟨r, s1⟩
      rw [hw] at hq hstrict
      have hI1 : VolInv (mclr s1) gh := by
        have := withVol_inv updateInfoSector_pre updateInfoSector_volk FaultCoh.updateInfoSector_coh hI hvs hvol L
          (by obtain ⟨fs', hr, _, _, _, _, hcr⟩ := updateInfo_crash_med hM hn hc; rw [hr]; exact hcr)
        rw [hw] at this; exact this
      by_cases hq1 : s1.dev.failed = (withFaults L s0).dev.failed
      · exfalso; apply hq
        cases r with
        | ok a => exact hq1
        | err e => exact hq1
        | panic m => exact hq1
        | diverged => exact hq1
      · rw [show r = .err .DeviceError from hstrict hq1]
        exact hI1

/-! ### One call -/

/-- The calls during which a device failure is known to keep the invariant up to the schedule: the read-only calls,
`flush_file`, `close_volume`. -/
def classA : Op → Bool
  | .flush _ | .closeVolume _ => true
  | op => readOnlyOp op

/-- **One covered call under any fault schedule**, a device failure occurring at most in a call of `classA`. -/
theorem step_inv_A {s0 : Mgr} {gh : Ghost} (hI : VolInv s0 gh) (L : List Nat) (op : Op) (hc : FCovered s0 op)
    (hA : (step (withFaults L s0) op).1.dev.failed ≠ s0.dev.failed → classA op = true) :
    ∃ gh', VolInv (mclr (step (withFaults L s0) op).1) gh' ∧ SameGeom gh.vol gh'.vol := by
  by_cases hq : (step (withFaults L s0) op).1.dev.failed = s0.dev.failed
  · exact (quiet_step_inv hI L op hc hq).2
  have hcl := hA hq
  have hI' := volInv_resetLogs hI
  have e1 := MHoare.step_unlocked (withFaults L s0) op hI.unlocked
  rw [resetLogs_withFaults] at e1
  have hs1 : (step (withFaults L s0) op).1 = (runOp op (withFaults L (resetLogs s0))).2 := by rw [e1]
  rw [hs1] at hq ⊢
  have h0 : mclr (withFaults L (resetLogs s0)) = resetLogs s0 := mclr_withFaults' hI'.noFault L
  cases op with
  | closeVolume v =>
    show ∃ gh', VolInv (mclr ((closeVolume v >>= fun _ => (pure Payload.unit : M Payload)) _).2) gh' ∧ _
    rw [seq_state]; exact closeVolume_inv hI' L v
  | flush f =>
    refine ⟨gh, ?_, SameGeom.refl _⟩
    show VolInv (mclr ((flushFile f >>= fun _ => (pure Payload.unit : M Payload)) _).2) gh
    rw [seq_state]; exact flushFile_inv hI' L f
  | read f n =>
    refine ⟨gh, ?_, SameGeom.refl _⟩
    show VolInv (mclr ((Model.read f n >>= fun b => (pure (Payload.bytes b) : M Payload)) _).2) gh
    rw [map_state]; exact read_step_inv hI' L f n
  | find d name =>
    refine ⟨gh, ?_, SameGeom.refl _⟩
    show VolInv (mclr ((Model.findDirectoryEntry d name >>= fun b => (pure (Payload.entry b) : M Payload)) _).2) gh
    rw [map_state]; exact volInv_of_mro hI' h0 (findDirectoryEntry_mro d name _)
  | list d =>
    refine ⟨gh, ?_, SameGeom.refl _⟩
    show VolInv (mclr ((iterateDir d >>= fun b => (pure (Payload.entries b) : M Payload)) _).2) gh
    rw [map_state]; exact volInv_of_mro hI' h0 (iterateDir_mro d _)
  | listLfn d n =>
    refine ⟨gh, ?_, SameGeom.refl _⟩
    show VolInv (mclr ((iterateDirLfn d n >>= fun b => (pure (Payload.lfnEntries b) : M Payload)) _).2) gh
    rw [map_state]; exact volInv_of_mro hI' h0 (iterateDirLfn_mro d n _)
  | openDir d name =>
    refine ⟨gh, ?_, SameGeom.refl _⟩
    have hq' : (openDir d name (withFaults L (resetLogs s0))).2.dev.failed ≠ (resetLogs s0).dev.failed := by
      rw [← map_state (openDir d name) Payload.handle]; exact hq
    show VolInv (mclr ((openDir d name >>= fun b => (pure (Payload.handle b) : M Payload)) _).2) gh
    rw [map_state]; exact volInv_of_mro hI' h0 (openDir_hit_mro hI' L d name hq')
  | label v =>
    show ∃ gh', VolInv (mclr ((getRootVolumeLabel v >>= fun b => (pure (Payload.label b) : M Payload)) _).2) gh' ∧ _
    rw [map_state]; exact label_step_inv hI' L v
  | openVolume i =>
    exfalso; apply hq
    show ((openRawVolume i >>= fun h => (pure (Payload.handle h) : M Payload)) (withFaults L (resetLogs s0))).2.dev.failed = _
    rw [map_state, openVolume_refused (s := withFaults L (resetLogs s0)) hc hI.maxVols]; rfl
  | openRoot v => exact absurd (by rw [runOp_nodev _ rfl]; rfl) hq
  | closeDir d => exact absurd (by rw [runOp_nodev _ rfl]; rfl) hq
  | seekStart f n => exact absurd (by rw [runOp_nodev _ rfl]; rfl) hq
  | seekCur f n => exact absurd (by rw [runOp_nodev _ rfl]; rfl) hq
  | seekEnd f n => exact absurd (by rw [runOp_nodev _ rfl]; rfl) hq
  | length f => exact absurd (by rw [runOp_nodev _ rfl]; rfl) hq
  | offset f => exact absurd (by rw [runOp_nodev _ rfl]; rfl) hq
  | eof f => exact absurd (by rw [runOp_nodev _ rfl]; rfl) hq
  | hasOpen => exact absurd (by rw [runOp_nodev _ rfl]; rfl) hq
  | openFile d name mode => cases hcl
  | write f data => cases hcl
  | closeFile f => cases hcl
  | delete d name => cases hcl
  | mkdir d name => cases hcl

end Sdmmc.Lemmas.FaultHist
