/-
Bridging lemmas for `Props/C17Main.lean`: the UTF-8 invariant over a whole fragment sequence, and
the link between the listing fold (`lfnFold`) and the sequence state machine folded over a run of
long-name slots (`C17.updateAll`).
-/
import Sdmmc.Props.C17

namespace Sdmmc.Lemmas.MainK17
open Sdmmc.Model Sdmmc.Model.Lfn Sdmmc.Props.C17

/-- Pushing any fragments keeps the UTF-8 invariant and never fails. -/
theorem pushAll_inv (b : Buf) (frags : List (List Nat)) (hb : Utf8Inv b) (hf : ∀ f ∈ frags, FragOK f) :
    ∃ b', pushAll b frags = .ok b' ∧ Utf8Inv b' ∧ b'.inner.length = b.inner.length := by
  induction frags generalizing b with
  | nil => exact ⟨b, rfl, hb, rfl⟩
  | cons f fs ih =>
    obtain ⟨b1, h1, _, hl1⟩ := push_total b f hb.1 (hf f (by simp))
    have hi1 := push_inv b b1 f hb (hf f (by simp)) h1
    obtain ⟨b2, h2, hi2, hl2⟩ := ih b1 hi1 (fun g hg => hf g (by simp [hg]))
    refine ⟨b2, ?_, hi2, hl2.trans hl1⟩
    simp only [pushAll, h1]
    exact h2

/-- The fragments of a run of long-name slots. -/
def fragsOf (run : List (DirEntry × Bytes)) : List (Bool × Nat × Nat × List Nat) :=
  run.filterMap fun e => OnDisk.lfnContents e.2

/-- Over a run of long-name slots the listing fold is the sequence state machine. -/
theorem lfnFold_run (st : SeqState) (buf : Buf) (run tail : List (DirEntry × Bytes))
    (hrun : ∀ e ∈ run, (OnDisk.lfnContents e.2).isSome) :
    lfnFold st buf (run ++ tail) = (updateAll st buf (fragsOf run)).bind fun p => lfnFold p.1 p.2 tail := by
  induction run generalizing st buf with
  | nil => rfl
  | cons e run ih =>
    obtain ⟨de, raw⟩ := e
    have hs := hrun (de, raw) (by simp)
    cases hc : OnDisk.lfnContents raw with
    | none => rw [hc] at hs; cases hs
    | some x =>
      obtain ⟨start, seqno, csum, frag⟩ := x
      have hfr : fragsOf ((de, raw) :: run) = (start, seqno, csum, frag) :: fragsOf run := by
        simp [fragsOf, hc]
      rw [hfr]
      simp only [List.cons_append, lfnFold, hc, updateAll]
      cases hu : st.update buf start seqno csum frag with
      | ok p =>
        obtain ⟨st', buf'⟩ := p
        exact ih st' buf' (fun e he => hrun e (by simp [he]))
      | err e => rfl
      | panic m => rfl
      | diverged => rfl

/-- One segment of a listing: from the `Waiting` state (the state at the start of a listing and
after every short entry), a run of long-name slots followed by the short entry `de`.  If `de` is
reported with a long name, then the run is not empty, its fragments end with a complete run —
start-flagged first fragment, sequence numbers `k, k-1, …, 1`, every checksum byte equal to the
checksum of `de`'s short name — and the name is the contents of the buffer after that run. -/
theorem listing_segment (buf : Buf) (run : List (DirEntry × Bytes)) (de : DirEntry) (raw : Bytes)
    (rest : List (DirEntry × Bytes)) (out : List (DirEntry × Option Bytes)) (name : Bytes)
    (hrun : ∀ e ∈ run, (OnDisk.lfnContents e.2).isSome) (hraw : OnDisk.lfnContents raw = none)
    (h : lfnFold .Waiting buf (run ++ (de, raw) :: rest) = .ok out) (hn : out.head? = some (de, some name)) :
    ∃ buf' pre x tl, updateAll .Waiting buf (fragsOf run) = .ok (.Complete (Sfn.csum de.name), buf') ∧
      name = asStr buf' ∧ fragsOf run = pre ++ x :: tl ∧ x.1 = true ∧
      ∀ i y, (x :: tl)[i]? = some y → y.2.1 = (tl.length + 1) - i ∧ y.2.2.1 = Sfn.csum de.name := by
  rw [lfnFold_run _ _ _ _ hrun] at h
  cases hu : updateAll .Waiting buf (fragsOf run) with
  | ok p =>
    obtain ⟨st', buf'⟩ := p
    rw [hu] at h
    have h' : lfnFold st' buf' ((de, raw) :: rest) = .ok out := h
    obtain ⟨hst, hname⟩ := lfn_name_only_if_complete st' buf' de raw rest out name hraw h' hn
    subst hst
    have hne : fragsOf run ≠ [] := by
      intro he
      rw [he] at hu
      simp only [updateAll, Res.ok.injEq, Prod.mk.injEq] at hu
      exact absurd hu.1 (by intro hh; cases hh)
    obtain ⟨pre, x, tl, h1, h2, h3⟩ := lfn_run_checksums .Waiting buf buf' (fragsOf run) _
      (fun c' n hh => by cases hh) hne hu
    exact ⟨buf', pre, x, tl, rfl, hname, h1, h2, h3⟩
  | err e => rw [hu] at h; cases h
  | panic m => rw [hu] at h; cases h
  | diverged => rw [hu] at h; cases h

end Sdmmc.Lemmas.MainK17
