/-
Several open volumes, refinement: which volume a call works on (`targetA` of the abstract state is `target` of the
manager), the calls whose handle leads to no open volume (they answer `refusalN` and change nothing), and the three
calls that work on the directory table only (`open_root_dir`, `close_dir`, `has_open_handles`).
-/
import Sdmmc.Lemmas.VolNAbs
import Sdmmc.Lemmas.VolNTab
import Sdmmc.Lemmas.VolNDir

namespace Sdmmc.Lemmas.VolN
open Sdmmc.Model Sdmmc.Model.Fat Sdmmc.Spec.Volume
open Sdmmc.Spec hiding NoFault Coherent run step
open Sdmmc.Spec.AbsFs (AbsFsN OpenFile OpenDir viewOf otherDirsA otherFilesA TPerm SameUpToOrder Kept onVolume absStep
  volOpenN dirVol fileVol targetA refusalN genN openRootN closeDirN coreStepN)
open Sdmmc.Lemmas.AbsFs (Abs FileRel absDir absSlots forall₂_length forall₂_mono forall₂_append)
open Sdmmc.Lemmas.MHoare

/-! ### The relation moves along states with the same medium -/

theorem absSlots_eq {t t' : Mgr} (hd : t'.dev.disk = t.dev.disk) (hf : t'.files = t.files) (gh : Ghost) (h : Nat) :
    absSlots t' gh h = absSlots t gh h := by
  unfold absSlots
  rw [hd, hf]

theorem fileRel_disk {s s' : Mgr} {gh : Ghost} {af : OpenFile} {f : FileInfo} (h : FileRel s gh af f)
    (hd : s'.dev.disk = s.dev.disk) : FileRel s' gh af f :=
  fileRel_dev h fun _ _ => by rw [hd]

/-- A file keeps its abstract counterpart when its volume record and ghost are still in the tables (possibly at another
index) and the directories of that volume read the same. -/
theorem fileRelN_transfer {s s' : Mgr} {ghs ghs' : List Ghost} {af : OpenFile} {f : FileInfo} (h : FileRelN s ghs af f)
    (hx : ∀ (j : Nat) (vj : VolInfo) (gj : Ghost), s.vols[j]? = some vj → ghs[j]? = some gj → f.rawVolume = vj.rawVolume →
      ∃ j' : Nat, s'.vols[j']? = some vj ∧ ghs'[j']? = some gj ∧
        ∀ x, x ∈ dirIds gj.dirs → dirSlots gj.vol s'.dev.disk gj.G x = dirSlots gj.vol s.dev.disk gj.G x) :
    FileRelN s' ghs' af f := by
  obtain ⟨j, vj, gj, hvj, hgj, hraw, hrel⟩ := h
  obtain ⟨j', h1, h2, h3⟩ := hx j vj gj hvj hgj hraw
  exact ⟨j', vj, gj, h1, h2, hraw, fileRel_dev hrel h3⟩

/-- Same medium, same volume and file tables: the abstract state follows the scalars and the directory table. -/
theorem absNx_tables {s s' : Mgr} {ghs : List Ghost} {B B' : AbsFsN} (hB : AbsNx s ghs B) (hd : s'.dev.disk = s.dev.disk)
    (hv : s'.vols = s.vols) (hf : s'.files = s.files) (e1 : B'.nextId = s'.nextId) (e2 : B'.maxVols = s'.maxVols)
    (e3 : B'.maxDirs = s'.maxDirs) (e4 : B'.maxFiles = s'.maxFiles) (e5 : B'.clock = s'.clock) (e6 : B'.locked = s'.locked)
    (e7 : B'.dirs = s'.dirs.map absDir) (e8 : B'.vols = B.vols) (e9 : B'.files = B.files) (e10 : B'.ids = B.ids)
    (e11 : B'.slots = B.slots) : AbsNx s' ghs B' := by
  refine
    { nextId := e1, maxVols := e2, maxDirs := e3, maxFiles := e4, clock := e5, locked := e6
      vols := by rw [e8, hB.vols, hv]
      dirs := e7, files := ?_, trees := ?_ }
  · rw [hf, e9]
    refine forall₂_mono hB.files fun af f _ hr => fileRelN_transfer hr fun j vj gj hvj hgj _ => ?_
    exact ⟨j, by rw [hv]; exact hvj, hgj, fun x _ => by rw [hd]⟩
  · intro j vj gj hvj hgj
    rw [hv] at hvj
    obtain ⟨h1, h2⟩ := hB.trees j vj gj hvj hgj
    rw [e10, e11]
    refine ⟨h1, fun h hh => ?_⟩
    rw [h2 h hh]
    exact (absSlots_eq (t := projH vj.rawVolume j s) (t' := projH vj.rawVolume j s') hd
      (by show volFiles s' _ = volFiles s _; unfold volFiles; rw [hf]) gj h).symm

theorem absNx_resetLogs {s : Mgr} {ghs : List Ghost} {B : AbsFsN} (hB : AbsNx s ghs B) : AbsNx (resetLogs s) ghs B :=
  absNx_tables (s' := resetLogs s) hB rfl rfl rfl hB.nextId hB.maxVols hB.maxDirs hB.maxFiles hB.clock hB.locked hB.dirs
    rfl rfl rfl rfl

/-! ### Which volume a call works on -/

theorem find?_eq_findIdx? {α : Type} (p : α → Bool) (l : List α) : l.find? p = (l.findIdx? p).bind fun k => l[k]? := by
  induction l with
  | nil => rfl
  | cons a l ih =>
    rw [List.find?_cons, List.findIdx?_cons]
    by_cases h : p a = true
    · rw [h]; rfl
    · have h' : p a = false := by simpa using h
      rw [h', ih]
      simp only [Bool.false_eq_true, if_false]
      cases l.findIdx? p with
      | none => rfl
      | some k => rfl

/-- "Is the handle open", on the volume table. -/
theorem volOpen_findIdx? (l : List VolInfo) (v : Nat) :
    (if (l.map vkeyA).any (fun x => decide (x.1 = v)) = true then some v else none) =
      (l.findIdx? (·.rawVolume = v)).bind fun i => (l[i]?).map (·.rawVolume) := by
  cases hf : l.findIdx? (·.rawVolume = v) with
  | none =>
    have hn := List.findIdx?_eq_none_iff.1 hf
    rw [if_neg]
    · rfl
    · intro ha
      obtain ⟨x, hx, hp⟩ := List.any_eq_true.1 ha
      obtain ⟨vi, hvi, rfl⟩ := List.mem_map.1 hx
      have := hn vi hvi
      rw [show decide ((vkeyA vi).1 = v) = decide (vi.rawVolume = v) from rfl] at hp
      rw [hp] at this
      cases this
  | some i =>
    obtain ⟨vi, hvi, hp⟩ := findIdx?_some_get hf
    have hraw : vi.rawVolume = v := by simpa using hp
    rw [if_pos (List.any_eq_true.2 ⟨vkeyA vi, List.mem_map.2 ⟨vi, List.mem_of_getElem? hvi, rfl⟩, by simp [vkeyA, hraw]⟩)]
    show some v = (l[i]?).map (·.rawVolume)
    rw [hvi]
    show some v = some vi.rawVolume
    rw [hraw]

theorem dirTarget_find (s : Mgr) (d : Nat) :
    dirTarget s d = (s.dirs.find? (·.rawDirectory = d)).bind fun di => s.vols.findIdx? (·.rawVolume = di.rawVolume) := by
  unfold dirTarget
  rw [find?_eq_findIdx?]
  cases s.dirs.findIdx? (·.rawDirectory = d) with
  | none => rfl
  | some k =>
    show (match s.dirs[k]? with
      | none => none
      | some di => s.vols.findIdx? (·.rawVolume = di.rawVolume)) = (s.dirs[k]?).bind _
    cases s.dirs[k]? <;> rfl

theorem fileTarget_find (s : Mgr) (f : Nat) :
    fileTarget s f = (s.files.find? (·.rawFile = f)).bind fun fi => s.vols.findIdx? (·.rawVolume = fi.rawVolume) := by
  unfold fileTarget
  rw [find?_eq_findIdx?]
  cases s.files.findIdx? (·.rawFile = f) with
  | none => rfl
  | some k =>
    show (match s.files[k]? with
      | none => none
      | some fi => s.vols.findIdx? (·.rawVolume = fi.rawVolume)) = (s.files[k]?).bind _
    cases s.files[k]? <;> rfl

theorem forall₂_find? {α β : Type} {R : α → β → Prop} {l1 : List α} {l2 : List β} (h : List.Forall₂ R l1 l2)
    (p : α → Bool) (q : β → Bool) (hpq : ∀ x y, R x y → p x = q y) :
    (l1.find? p = none ∧ l2.find? q = none) ∨ ∃ x y, l1.find? p = some x ∧ l2.find? q = some y ∧ R x y := by
  induction h with
  | nil => exact .inl ⟨rfl, rfl⟩
  | @cons x y t1 t2 hxy _ ih =>
    rw [List.find?_cons, List.find?_cons, ← hpq x y hxy]
    cases p x with
    | true => exact .inr ⟨x, y, rfl, rfl, hxy⟩
    | false => exact ih

section
variable {s : Mgr} {ghs : List Ghost} {B : AbsFsN}

theorem volOpenN_eq (hB : AbsNx s ghs B) (v : Nat) :
    (if volOpenN B v = true then some v else none) = (s.vols.findIdx? (·.rawVolume = v)).bind fun i => (s.vols[i]?).map (·.rawVolume) := by
  unfold volOpenN
  rw [hB.vols]
  exact volOpen_findIdx? s.vols v

theorem dirVol_eq (hB : AbsNx s ghs B) (d : Nat) :
    dirVol B d = (dirTarget s d).bind fun i => (s.vols[i]?).map (·.rawVolume) := by
  unfold dirVol
  rw [dirTarget_find, hB.dirs, List.find?_map]
  show (match (s.dirs.find? (·.rawDirectory = d)).map absDir with
    | none => none
    | some od => if volOpenN B od.volume = true then some od.volume else none) = _
  cases s.dirs.find? (·.rawDirectory = d) with
  | none => rfl
  | some di => exact volOpenN_eq hB di.rawVolume

theorem fileVol_eq (hB : AbsNx s ghs B) (h : Nat) :
    fileVol B h = (fileTarget s h).bind fun i => (s.vols[i]?).map (·.rawVolume) := by
  unfold fileVol
  rw [fileTarget_find]
  rcases forall₂_find? hB.files (fun x => decide (x.handle = h)) (fun f => decide (f.rawFile = h))
    (fun x y hr => by obtain ⟨_, _, _, _, _, _, hr⟩ := hr; rw [hr.handle]) with ⟨h1, h2⟩ | ⟨x, y, h1, h2, hr⟩
  · rw [h1, h2]; rfl
  · rw [h1, h2]
    show (if volOpenN B x.volume = true then some x.volume else none) = _
    rw [fileRelN_volume hr]
    exact volOpenN_eq hB y.rawVolume

/-- **`targetA` of the abstract state is `target` of the manager** (as a volume handle). -/
theorem targetA_eq (hB : AbsNx s ghs B) (op : Op) :
    targetA B op = (target s op).bind fun i => (s.vols[i]?).map (·.rawVolume) := by
  cases op <;> first | rfl | exact dirVol_eq hB _ | exact fileVol_eq hB _ | exact volOpenN_eq hB _

theorem targetA_some (hB : AbsNx s ghs B) {op : Op} {i : Nat} {vi : VolInfo} (ht : target s op = some i)
    (hvi : s.vols[i]? = some vi) : targetA B op = some vi.rawVolume := by
  rw [targetA_eq hB, ht]
  show (s.vols[i]?).map _ = _
  rw [hvi]
  rfl

theorem targetA_none (hB : AbsNx s ghs B) {op : Op} (ht : target s op = none) : targetA B op = none := by
  rw [targetA_eq hB, ht]
  rfl

end

/-! ### Calls whose handle leads to no open volume -/

/-- `refusalN`, read off the manager. -/
def refusalS (s : Mgr) : Op → Err
  | .openDir _ _ => if s.dirs.length ≥ s.maxDirs then .TooManyOpenDirs else .BadHandle
  | .mkdir _ _ => if s.dirs.length ≥ s.maxDirs then .TooManyOpenDirs else .BadHandle
  | .openFile _ _ _ => if s.files.length ≥ s.maxFiles then .TooManyOpenFiles else .BadHandle
  | _ => .BadHandle

theorem refusalN_eq {s : Mgr} {ghs : List Ghost} {B : AbsFsN} (hB : AbsNx s ghs B) (op : Op) : refusalN B op = refusalS s op := by
  have hd : B.dirs.length = s.dirs.length := by rw [hB.dirs, List.length_map]
  have hf : B.files.length = s.files.length := forall₂_length hB.files
  cases op <;> simp only [refusalN, refusalS, hd, hf, hB.maxDirs, hB.maxFiles]

/-- **A call that works on no volume record and is not one of the five table calls is refused; nothing changes.** -/
theorem untargeted_out {s : Mgr} {ghs : List Ghost} (hI : VolInvN s ghs) (op : Op) (ht : target s op = none)
    (h1 : ∀ i, op ≠ .openVolume i) (h2 : ∀ v, op ≠ .closeVolume v) (h3 : ∀ v, op ≠ .openRoot v) (h4 : ∀ d, op ≠ .closeDir d)
    (h5 : op ≠ .hasOpen) : runOp op s = (.err (refusalS s op), s) := by
  have hfile : ∀ {α : Type} (f : Nat) (k : Nat → M α), fileTarget s f = none → (getFileById f >>= k) s = (.err .BadHandle, s) :=
    fun f k h => bind_err (getFileById_bad (fileTarget_none hI h))
  cases op with
  | openVolume i => exact absurd rfl (h1 i)
  | closeVolume v => exact absurd rfl (h2 v)
  | openRoot v => exact absurd rfl (h3 v)
  | closeDir d => exact absurd rfl (h4 d)
  | hasOpen => exact absurd rfl h5
  | openDir d name =>
    show (openDir d name >>= fun h => (pure (Payload.handle h) : M Payload)) s = _
    apply bind_err
    unfold openDir
    rw [get_bind]
    by_cases hc : s.dirs.length ≥ s.maxDirs
    · rw [if_pos hc]; simp only [refusalS, if_pos hc]; rfl
    · rw [if_neg hc, dirPrologue_untargeted (s := s) ht _]; simp only [refusalS, if_neg hc]
  | openFile d name mode =>
    show (openFileInDir d name mode >>= fun h => (pure (Payload.handle h) : M Payload)) s = _
    apply bind_err
    unfold openFileInDir
    rw [get_bind]
    by_cases hc : s.files.length ≥ s.maxFiles
    · rw [if_pos hc]; simp only [refusalS, if_pos hc]; rfl
    · rw [if_neg hc, dirPrologue_untargeted (s := s) ht _]; simp only [refusalS, if_neg hc]
  | delete d name =>
    show (deleteFileInDir d name >>= fun _ => (pure Payload.unit : M Payload)) s = _
    apply bind_err
    unfold deleteFileInDir
    rw [dirPrologue_untargeted (s := s) ht _]; rfl
  | mkdir d name =>
    show (makeDirInDir d name >>= fun _ => (pure Payload.unit : M Payload)) s = _
    apply bind_err
    unfold makeDirInDir
    rw [get_bind]
    by_cases hc : s.dirs.length ≥ s.maxDirs
    · rw [if_pos hc]; simp only [refusalS, if_pos hc]; rfl
    · rw [if_neg hc, dirPrologue_untargeted (s := s) ht _]; simp only [refusalS, if_neg hc]
  | find d name =>
    show (Model.findDirectoryEntry d name >>= fun e => (pure (Payload.entry e) : M Payload)) s = _
    apply bind_err
    unfold Model.findDirectoryEntry
    rw [dirPrologue_untargeted (s := s) ht _]; rfl
  | list d =>
    show (iterateDir d >>= fun e => (pure (Payload.entries e) : M Payload)) s = _
    apply bind_err
    unfold iterateDir
    rw [dirPrologue_untargeted (s := s) ht _]; rfl
  | listLfn d n =>
    show (iterateDirLfn d n >>= fun e => (pure (Payload.lfnEntries e) : M Payload)) s = _
    apply bind_err
    unfold iterateDirLfn
    rw [dirPrologue_untargeted (s := s) ht _]; rfl
  | read f n =>
    show (Model.read f n >>= fun b => (pure (Payload.bytes b) : M Payload)) s = _
    apply bind_err
    unfold Model.read
    exact hfile f _ ht
  | write f b =>
    show (Model.write f b >>= fun _ => (pure Payload.unit : M Payload)) s = _
    apply bind_err
    unfold Model.write
    exact hfile f _ ht
  | seekStart f n =>
    show (fileSeekFromStart f n >>= fun _ => (pure Payload.unit : M Payload)) s = _
    apply bind_err
    unfold fileSeekFromStart
    exact hfile f _ ht
  | seekCur f n =>
    show (fileSeekFromCurrent f n >>= fun _ => (pure Payload.unit : M Payload)) s = _
    apply bind_err
    unfold fileSeekFromCurrent
    exact hfile f _ ht
  | seekEnd f n =>
    show (fileSeekFromEnd f n >>= fun _ => (pure Payload.unit : M Payload)) s = _
    apply bind_err
    unfold fileSeekFromEnd
    exact hfile f _ ht
  | flush f =>
    show (flushFile f >>= fun _ => (pure Payload.unit : M Payload)) s = _
    apply bind_err
    unfold flushFile
    exact hfile f _ ht
  | closeFile f =>
    show (closeFile f >>= fun _ => (pure Payload.unit : M Payload)) s = _
    apply bind_err
    have hn := fileTarget_none hI ht
    have hfl : flushFile f s = (.err .BadHandle, s) := by
      unfold flushFile
      rw [bind_err (getFileById_bad hn)]
    unfold closeFile
    rw [attempt_bind, hfl]
    simp only
    rw [bind_err (getFileById_bad hn)]; rfl
  | length f =>
    show (fileLength f >>= fun n => (pure (Payload.num n) : M Payload)) s = _
    apply bind_err
    unfold fileLength
    exact hfile f _ ht
  | offset f =>
    show (fileOffset f >>= fun n => (pure (Payload.num n) : M Payload)) s = _
    apply bind_err
    unfold fileOffset
    exact hfile f _ ht
  | eof f =>
    show (fileEof f >>= fun n => (pure (Payload.bool n) : M Payload)) s = _
    apply bind_err
    unfold fileEof
    exact hfile f _ ht
  | label v =>
    show (getRootVolumeLabel v >>= fun l => (pure (Payload.label l) : M Payload)) s = _
    apply bind_err
    unfold getRootVolumeLabel
    rw [bind_err (getVolumeById_bad ht)]; rfl

/-- The abstract step of such a call. -/
theorem untargeted_core {s : Mgr} {ghs : List Ghost} {B : AbsFsN} (hI : VolInvN s ghs) (hB : AbsNx s ghs B) (op : Op)
    (ht : target s op = none) (h1 : ∀ i, op ≠ .openVolume i) (h2 : ∀ v, op ≠ .closeVolume v) (h3 : ∀ v, op ≠ .openRoot v)
    (h4 : ∀ d, op ≠ .closeDir d) (h5 : op ≠ .hasOpen) :
    coreStepN B op (B, (runOp op s).1) ∧ (runOp op s).2 = s := by
  have ho := untargeted_out hI op ht h1 h2 h3 h4 h5
  have hta := targetA_none hB ht
  rw [ho]
  refine ⟨?_, rfl⟩
  have hr := refusalN_eq hB op
  cases op <;> first
    | exact absurd rfl (h1 _)
    | exact absurd rfl (h2 _)
    | exact absurd rfl (h3 _)
    | exact absurd rfl (h4 _)
    | exact absurd rfl h5
    | (simp only [coreStepN, hta]; rw [hr])

/-! ### `open_root_dir`, `close_dir`, `has_open_handles` -/

theorem swapRemove_map' {α β : Type} (f : α → β) (l : List α) (i : Nat) :
    (swapRemove l i).map f = swapRemove (l.map f) i := by
  unfold swapRemove
  rw [List.getLast?_map, List.getElem?_map]
  cases h1 : l.getLast? with
  | none => simp
  | some last =>
    cases h2 : l[i]? with
    | none => simp
    | some x =>
      simp only [Option.map_some, List.length_map]
      split
      · rw [List.map_dropLast]
      · rw [List.map_dropLast, List.map_set]

section
variable {s : Mgr} {ghs : List Ghost} {B : AbsFsN}

/-- The state after a successful `open_root_dir`. -/
def openRootS (s : Mgr) (v : Nat) : Mgr :=
  { s with
    nextId := (s.nextId + 1) % 4294967296
    dirs := s.dirs ++ [{ rawDirectory := s.nextId, rawVolume := v, cluster := Gen.CLUSTER_ROOT_DIR }] }

theorem openRoot_core (hB : AbsNx s ghs B) (v : Nat) :
    coreStepN B (.openRoot v) ((openRootN B v).1, (runOp (.openRoot v) s).1) ∧
      AbsNx (runOp (.openRoot v) s).2 ghs (openRootN B v).1 := by
  have hlen : B.dirs.length = s.dirs.length := by rw [hB.dirs, List.length_map]
  have hrun : runOp (.openRoot v) s = (openRootDir v >>= fun h => (pure (Payload.handle h) : M Payload)) s := rfl
  rw [hrun]
  by_cases hc : s.dirs.length ≥ s.maxDirs
  · have hcB : B.dirs.length ≥ B.maxDirs := by rw [hlen, hB.maxDirs]; exact hc
    have ho : openRootDir v s = (.err .TooManyOpenDirs, { s with nextId := (s.nextId + 1) % 4294967296 }) := by
      rw [openRootDir_eq, if_pos hc]
    rw [bind_err ho]
    have hN : openRootN B v = (genN B, .err .TooManyOpenDirs) := by unfold openRootN; rw [if_pos hcB]
    rw [hN]
    refine ⟨hN.symm, ?_⟩
    exact absNx_tables (s' := { s with nextId := (s.nextId + 1) % 4294967296 }) hB rfl rfl rfl
      (by show (B.nextId + 1) % _ = _; rw [hB.nextId]) hB.maxVols hB.maxDirs hB.maxFiles hB.clock hB.locked hB.dirs rfl rfl rfl rfl
  · have hcB : ¬ B.dirs.length ≥ B.maxDirs := by rw [hlen, hB.maxDirs]; exact hc
    have ho : openRootDir v s = (.ok s.nextId, openRootS s v) := by
      rw [openRootDir_eq, if_neg hc]; rfl
    rw [bind_ok ho]
    have hN : openRootN B v = ({ genN B with dirs := B.dirs ++ [⟨B.nextId, v, 0⟩] }, .ok (.handle B.nextId)) := by
      unfold openRootN; rw [if_neg hcB]
    rw [hN]
    refine ⟨?_, ?_⟩
    · show (_, _) = openRootN B v
      rw [hN, hB.nextId]; rfl
    · refine absNx_tables (s' := openRootS s v) hB rfl rfl rfl
        (by show (B.nextId + 1) % _ = _; rw [hB.nextId]; rfl) hB.maxVols hB.maxDirs hB.maxFiles hB.clock hB.locked ?_ rfl rfl rfl rfl
      show B.dirs ++ [⟨B.nextId, v, 0⟩] = (s.dirs ++ [_]).map absDir
      rw [List.map_append, hB.dirs, hB.nextId]
      rfl

theorem closeDir_core (hB : AbsNx s ghs B) (d : Nat) :
    coreStepN B (.closeDir d) ((closeDirN B d).1, (runOp (.closeDir d) s).1) ∧
      AbsNx (runOp (.closeDir d) s).2 ghs (closeDirN B d).1 := by
  have hrun : runOp (.closeDir d) s = (closeDir d >>= fun _ => (pure Payload.unit : M Payload)) s := rfl
  have hidx : B.dirs.findIdx? (fun x => decide (x.handle = d)) = s.dirs.findIdx? (·.rawDirectory = d) := by
    rw [hB.dirs]
    exact (findIdx?_map_key absDir (fun x => decide (x.handle = d)) s.dirs).symm
  rw [hrun]
  cases hk : s.dirs.findIdx? (·.rawDirectory = d) with
  | none =>
    have ho : closeDir d s = (.err .BadHandle, s) := by
      unfold closeDir
      rw [get_bind]
      simp only [hk]
      rfl
    have hN : closeDirN B d = (B, .err .BadHandle) := by unfold closeDirN; rw [hidx, hk]
    rw [bind_err ho, hN]
    exact ⟨hN.symm, hB⟩
  | some k =>
    have ho : closeDir d s = (.ok (), { s with dirs := swapRemove s.dirs k }) := by
      unfold closeDir
      rw [get_bind]
      simp only [hk]
      rfl
    have hN : closeDirN B d = ({ B with dirs := swapRemove B.dirs k }, .ok .unit) := by unfold closeDirN; rw [hidx, hk]
    rw [bind_ok ho, hN]
    refine ⟨hN.symm, ?_⟩
    refine absNx_tables (s' := { s with dirs := swapRemove s.dirs k }) hB rfl rfl rfl hB.nextId hB.maxVols hB.maxDirs
      hB.maxFiles hB.clock hB.locked ?_ rfl rfl rfl rfl
    show swapRemove B.dirs k = (swapRemove s.dirs k).map absDir
    rw [swapRemove_map', hB.dirs]

theorem hasOpen_core (hB : AbsNx s ghs B) :
    coreStepN B .hasOpen (B, (runOp .hasOpen s).1) ∧ (runOp .hasOpen s).2 = s := by
  refine ⟨?_, rfl⟩
  show (B, Res.ok (Payload.bool (hasOpenHandles s))) = (B, .ok (.bool (!(B.dirs.isEmpty && B.files.isEmpty))))
  have hd : B.dirs.isEmpty = s.dirs.isEmpty := by rw [hB.dirs, List.isEmpty_map]
  have hf : B.files.isEmpty = s.files.isEmpty := by
    have key : ∀ {l1 : List OpenFile} {l2 : List FileInfo}, List.Forall₂ (FileRelN s ghs) l1 l2 → l1.isEmpty = l2.isEmpty :=
      fun h => by cases h <;> rfl
    exact key hB.files
  rw [hd, hf]
  rfl

end

end Sdmmc.Lemmas.VolN
