/-
Refinement of the API to the abstract file system, part 5: `open_dir` and `read`.
-/
import Sdmmc.Lemmas.AbsFsSlots

namespace Sdmmc.Lemmas.AbsFs
open Sdmmc.Model Sdmmc.Model.Fat Sdmmc.Spec.Volume Sdmmc.Lemmas.VolBase Sdmmc.Lemmas.VolTree
open Sdmmc.Spec hiding NoFault Coherent
open Sdmmc.Spec.AbsFs (Meta view storedMeta fatRound OpenFile OpenDir absStep)
open Sdmmc.Lemmas.VolDisk Sdmmc.Lemmas.VolMed Sdmmc.Lemmas.VolApi Sdmmc.Lemmas.VolEng
open Sdmmc.Lemmas.FBasic (NoFault Coherent)
open Sdmmc.Lemmas.MHoare

/-! ### `open_dir` -/

/-- A directory handle is added. -/
theorem add_dir_handle {s : Mgr} {gh : Ghost} {a : AState} (hI : VolInv s gh) (hA : Abs s gh a) (vol cluster : Nat)
    (hv : ValidDir gh.dirs cluster) :
    VolInv { s with nextId := (s.nextId + 1) % 4294967296, dirs := s.dirs ++ [({ rawDirectory := s.nextId, rawVolume := vol, cluster := cluster } : DirInfo)] } gh ∧
    Abs { s with nextId := (s.nextId + 1) % 4294967296, dirs := s.dirs ++ [({ rawDirectory := s.nextId, rawVolume := vol, cluster := cluster } : DirInfo)] } gh
      { Spec.AbsFs.gen a with dirs := a.dirs ++ [⟨a.nextId, vol, dirIdOf cluster⟩] } := by
  constructor
  · refine volInv_dirs hI _ _ fun di hdi => ?_
    rcases List.mem_append.1 hdi with hdi | hdi
    · exact hI.openDirs di hdi
    · rw [List.mem_singleton.1 hdi]; exact hv
  · have := abs_dirs hA (s.dirs ++ [({ rawDirectory := s.nextId, rawVolume := vol, cluster := cluster } : DirInfo)]) ((s.nextId + 1) % 4294967296)
    have e : ({ Spec.AbsFs.gen a with dirs := a.dirs ++ [⟨a.nextId, vol, dirIdOf cluster⟩] } : AState) =
        { a with dirs := (s.dirs ++ [({ rawDirectory := s.nextId, rawVolume := vol, cluster := cluster } : DirInfo)]).map absDir,
                 nextId := (s.nextId + 1) % 4294967296 } := by
      unfold Spec.AbsFs.gen
      rw [List.map_append, ← hA.dirs, hA.nextId]
      rfl
    rw [e]
    exact this

/-- The abstract `open_dir` once the prologue is through and the name is not `.`. -/
theorem openDirS_lookup {a : AState} {d : Nat} {name : List Nat} {od : OpenDir} {sfn : Bytes} {a' : AState} {r : Res Payload}
    (hroom : ¬ a.dirs.length ≥ a.maxDirs) (hctx : Spec.AbsFs.dirCtx a d name = .ok (od, sfn)) (hne : sfn ≠ Sfn.thisDir)
    (h : match Spec.AbsFs.lookup (a.slots od.dir) sfn with
      | none => a' = a ∧ r = .err .NotFound
      | some i =>
        match (a.slots od.dir)[i]? with
        | some (.dir _ t) => a' = { Spec.AbsFs.gen a with dirs := a.dirs ++ [⟨a.nextId, od.volume, t⟩] } ∧ r = .ok (.handle a.nextId)
        | _ => a' = a ∧ r = .err .OpenedFileAsDir) :
    Spec.AbsFs.openDirS a d name a' r := by
  unfold Spec.AbsFs.openDirS
  rw [if_neg hroom, hctx]
  dsimp only
  rw [if_neg hne]
  exact h

theorem refines_openDir (d : Nat) (name : List Nat) {s : Mgr} {gh : Ghost} {a : AState} (hI : VolInv s gh) (hA : Abs s gh a)
    (hname : ∀ sfn, Sfn.createFromStr name = .ok sfn → sfn.head? ≠ some 0xE5) : Refines (.openDir d name) s gh a := by
  have hl : a.locked = false := hA.locked.trans hI.unlocked
  unfold Refines
  rw [show runOp (.openDir d name) s = (openDir d name >>= fun h => pure (Payload.handle h)) s from rfl, run_map]
  have hgoal : ∀ (a' : AState) (r : Res Payload), absStep a (.openDir d name) (a', r) ↔ Spec.AbsFs.openDirS a d name a' r := by
    intro a' r
    unfold absStep
    rw [if_neg (by rw [hl]; exact Bool.false_ne_true)]
  have hlen : a.dirs.length = s.dirs.length := by rw [hA.dirs, List.length_map]
  by_cases hfull : s.dirs.length ≥ s.maxDirs
  · have hrun : openDir d name s = (.err .TooManyOpenDirs, s) := by
      unfold openDir; rw [get_bind, if_pos hfull]; rfl
    rw [hrun]
    refine ⟨gh, a, hI, SameGeom.refl _, hA, (hgoal a _).2 ?_⟩
    unfold Spec.AbsFs.openDirS
    rw [if_pos (by rw [hlen, hA.maxDirs]; exact hfull)]
    exact ⟨rfl, rfl⟩
  have hroomA : ¬ a.dirs.length ≥ a.maxDirs := by rw [hlen, hA.maxDirs]; exact hfull
  have hbad : ∀ e, Spec.AbsFs.dirCtx a d name = .error e → Spec.AbsFs.openDirS a d name a (.err e) := by
    intro e he
    unfold Spec.AbsFs.openDirS
    rw [if_neg hroomA, he]
    exact ⟨rfl, rfl⟩
  cases hidx : s.dirs.findIdx? (·.rawDirectory = d) with
  | none =>
    have hrun : openDir d name s = (.err .BadHandle, s) := by
      unfold openDir; rw [get_bind, if_neg hfull, bind_err (getDirById_bad hidx)]
    rw [hrun]
    exact ⟨gh, a, hI, SameGeom.refl _, hA, (hgoal a _).2 (hbad _ (dirCtx_bad (dirOf_none hA hidx)))⟩
  | some i =>
    obtain ⟨di, hdi, hdim, hdo⟩ := dirOf_some hA hidx
    cases hva : (s.vols.any fun x => decide (x.rawVolume = di.rawVolume)) with
    | false =>
      have hrun : openDir d name s = (.err .BadHandle, s) := by
        unfold openDir
        rw [get_bind, if_neg hfull, bind_ok (getDirById_ok hidx), bind_ok (getDir_ok hdi),
          bind_err (getVolumeById_bad (volume_missing hva))]
      rw [hrun]
      rw [hva] at hdo
      exact ⟨gh, a, hI, SameGeom.refl _, hA, (hgoal a _).2 (hbad _ (dirCtx_bad hdo))⟩
    | true =>
      obtain ⟨vi, hvs, hvol, hvraw, hvfind⟩ := volume_found hI hva
      rw [hva] at hdo
      have hdo' : Spec.AbsFs.dirOf a d = .ok (absDir di) := hdo
      have hvi : s.vols[0]? = some vi := by rw [hvs]; rfl
      cases hs : Sfn.createFromStr name with
      | error e =>
        have hrun : openDir d name s = (.err (.FilenameError e), s) := by
          unfold openDir
          rw [get_bind, if_neg hfull, bind_ok (getDirById_ok hidx), bind_ok (getDir_ok hdi), bind_ok (getVolumeById_ok hvfind)]
          unfold toSfn
          rw [hs]
          rfl
        rw [hrun]
        exact ⟨gh, a, hI, SameGeom.refl _, hA, (hgoal a _).2 (hbad _ (dirCtx_name hdo' hs))⟩
      | ok sfn =>
        have hctx := dirCtx_ok hdo' hs
        by_cases hthis : sfn = Sfn.thisDir
        · subst hthis
          rw [Listing.open_dir_dot d i 0 name di vi s (by omega) (getDirById_ok hidx) (getDir_ok hdi) (getVolumeById_ok hvfind) hs
            (getVolInfo_ok hvi)]
          obtain ⟨hI', hA'⟩ := add_dir_handle hI hA vi.rawVolume di.cluster (hI.openDirs di hdim)
          refine ⟨gh, _, hI', SameGeom.refl _, hA', (hgoal _ _).2 ?_⟩
          unfold Spec.AbsFs.openDirS
          rw [if_neg hroomA, hctx]
          dsimp only
          rw [if_pos rfl, hvraw, hA.nextId]
          exact ⟨rfl, rfl⟩
        · obtain ⟨hres, hI', hA', _, hd1, hn1, _⟩ :=
            withVol_ro_refines (Fat.findDirectoryEntry di.cluster sfn) (DirMgr.findDirectoryEntry_readOnly di.cluster sfn) hI hA hvs hvol
          obtain ⟨hn, hc, hM⟩ := volInv_fs hI
          obtain ⟨fs', hfind, _⟩ := find_spec hM hn hc (hI.openDirs di hdim) sfn (hname sfn hs)
          rw [hfind] at hres
          obtain ⟨hidm, hsl⟩ := dir_slots hI hA hdim
          rcases hrun : withVol 0 (Fat.findDirectoryEntry di.cluster sfn) s with ⟨r, s1⟩
          rw [hrun] at hres hI' hA' hd1 hn1
          simp only at hres hI' hA' hd1 hn1
          rw [Listing.open_dir_follows_entry d i 0 name sfn di vi s s1 r (by omega) (getDirById_ok hidx) (getDir_ok hdi)
            (getVolumeById_ok hvfind) hs hthis (getVolInfo_ok hvi) hrun]
          rcases lookup_refines (gh := gh) (dirSlots gh.vol s.dev.disk gh.G (dirIdOf di.cluster)) sfn
              (contentOf gh.vol s.dev.disk gh.G s.files) with ⟨h1, h2⟩ | ⟨j, o, h1, h2, h3, h4, _⟩
          · -- not found
            have hr : r = .err .NotFound := by
              rw [hres]
              show Option.elim (Option.map _ ((entries (dirSlots gh.vol s.dev.disk gh.G (dirIdOf di.cluster))).find? _)) _ _ = _
              rw [h2]; rfl
            subst hr
            refine ⟨gh, a, hI', SameGeom.refl _, hA', (hgoal a _).2 (openDirS_lookup hroomA hctx hthis ?_)⟩
            show match Spec.AbsFs.lookup (a.slots (dirIdOf di.cluster)) sfn with
              | none => a = a ∧ Res.err Err.NotFound = Res.err Err.NotFound
              | some i => _
            rw [hsl]
            unfold absSlots
            rw [h1]
            exact ⟨rfl, rfl⟩
          · have hr : r = .ok (Listing.decode gh.vol.fatType o) := by
              rw [hres]
              show Option.elim (Option.map _ ((entries (dirSlots gh.vol s.dev.disk gh.G (dirIdOf di.cluster))).find? _)) _ _ = _
              rw [h2]; rfl
            subst hr
            have hom : o ∈ entries (dirSlots gh.vol s.dev.disk gh.G (dirIdOf di.cluster)) := List.mem_of_find?_eq_some h2
            have hattr : (Listing.decode gh.vol.fatType o).attributes = sAttr o := (decode_fields gh.vol.fatType o).2.1
            have hslot : (a.slots (dirIdOf di.cluster))[j]? =
                some (absSlot gh.vol.fatType (contentOf gh.vol s.dev.disk gh.G s.files) o) := by
              rw [hsl]; unfold absSlots; rw [List.getElem?_map, h3]; rfl
            have hlk : Spec.AbsFs.lookup (a.slots (dirIdOf di.cluster)) sfn = some j := by
              rw [hsl]; unfold absSlots; exact h1
            by_cases hde : isDirE o = true
            · have hisd : Attr.isDirectory (Listing.decode gh.vol.fatType o).attributes = true := by rw [hattr]; exact hde
              simp only [hisd, if_true]
              have hvd : ValidDir gh.dirs (Listing.decode gh.vol.fatType o).cluster := dirEntry_valid hM hidm hom hde
              obtain ⟨hI2, hA2⟩ := add_dir_handle hI' hA' vi.rawVolume (Listing.decode gh.vol.fatType o).cluster hvd
              refine ⟨gh, _, hI2, SameGeom.refl _, hA2, (hgoal _ _).2 (openDirS_lookup hroomA hctx hthis ?_)⟩
              show match Spec.AbsFs.lookup (a.slots (dirIdOf di.cluster)) sfn with
                | none => _
                | some i => _
              rw [hlk]
              dsimp only [absDir]
              rw [hslot, absSlot_dir h4 hde]
              dsimp only
              rw [hvraw, hn1, hA.nextId]
              exact ⟨rfl, rfl⟩
            · have hde' : isDirE o = false := by simpa using hde
              have hisd : Attr.isDirectory (Listing.decode gh.vol.fatType o).attributes = false := by rw [hattr]; exact hde'
              simp only [hisd, Bool.false_eq_true, if_false]
              refine ⟨gh, a, hI', SameGeom.refl _, hA', (hgoal a _).2 (openDirS_lookup hroomA hctx hthis ?_)⟩
              show match Spec.AbsFs.lookup (a.slots (dirIdOf di.cluster)) sfn with
                | none => _
                | some i => _
              rw [hlk]
              dsimp only [absDir]
              rw [hslot, absSlot_file h4 hde']
              exact ⟨rfl, rfl⟩

/-! ### `read` -/

theorem refines_read (h n : Nat) {s : Mgr} {gh : Ghost} {a : AState} (hI : VolInv s gh) (hA : Abs s gh a) :
    Refines (.read h n) s gh a := by
  have hl : a.locked = false := hA.locked.trans hI.unlocked
  unfold Refines
  rw [show runOp (.read h n) s = (Model.read h n >>= fun b => pure (Payload.bytes b)) s from rfl, run_map]
  have hgoal : ∀ (a' : AState) (r : Res Payload), absStep a (.read h n) (a', r) ↔ Spec.AbsFs.readS a h n a' r := by
    intro a' r
    unfold absStep
    rw [if_neg (by rw [hl]; exact Bool.false_ne_true)]
  cases hidx : s.files.findIdx? (·.rawFile = h) with
  | none =>
    have : Model.read h n s = (.err .BadHandle, s) := by
      unfold Model.read; rw [bind_err (getFileById_bad hidx)]
    rw [this]
    refine ⟨gh, a, hI, SameGeom.refl _, hA, (hgoal a _).2 ?_⟩
    unfold Spec.AbsFs.readS
    rw [fileOf_none hA hidx]
    exact ⟨rfl, rfl⟩
  | some i =>
    obtain ⟨f, af, hf, haf, hrel, hfo⟩ := fileOf_some hA hidx
    have hfm : f ∈ s.files := List.mem_of_getElem? hf
    obtain ⟨vi, hv, hvol, hrv, _⟩ := vol_of_file hI hfm
    have hvidx : s.vols.findIdx? (·.rawVolume = f.rawVolume) = some 0 := by rw [hv]; simp [hrv]
    have hvi : s.vols[0]? = some vi := by rw [hv]; rfl
    have hvopen : Spec.AbsFs.volOpen a af.volume = true := by
      rw [volOpen_abs hA, hrel.volume, hv]; simp [hrv]
    obtain ⟨hok, hcur⟩ := hI.med.fileOK f hfm
    obtain ⟨o, _, _, _, _, _, _, hslot⟩ := handle_slot hI hA hfm hrel
    have hg : WFGeom vi.vol := by rw [hvol]; exact hI.med.geom
    have hok' : FileOK vi.vol s.dev.disk f (chainOf gh.G f.entry.cluster) := by rw [hvol]; exact hok
    obtain ⟨s', f', hrun, hdisk, _, hstep, hf', habs', hok2, hM'⟩ :=
      ReadRefines.read_refines s h n i 0 f vi _ ⟨hI.noFault, hI.coherent, hI.med.blocksOK, hI.unlocked⟩ hidx hf
        hvidx hvi hg hok'
    rw [hrun]
    have hent : f'.entry = f.entry := by rw [hf']
    have hdy : f'.dirty = f.dirty := by rw [hf']
    have hrv' : f'.rawVolume = f.rawVolume := by rw [hf']
    have hmode : f'.mode = f.mode := by rw [hf']
    have hraw : f'.rawFile = f.rawFile := by rw [hf']
    have hne_or : f.currentOffset = f.entry.size ∨ chainOf gh.G f.entry.cluster ≠ [] := by
      by_cases heof : f.currentOffset = f.entry.size
      · exact .inl heof
      · right
        intro he
        rcases hok.chain with ⟨_, _, h0⟩ | hch
        · have := hok.pos_le; omega
        · exact ChainL.chain_ne_nil hch he
    have hcur' : chainOf gh.G f.entry.cluster = [] → f'.curCluster < 2 := by
      intro he
      rcases hne_or with heof | hne
      · have hat := ReadRefines.read_at_eof s h n i 0 f hidx hf hvidx heof
        rw [hrun] at hat
        have hss : s' = s := congrArg Prod.snd hat
        have : s'.files[i]? = some f' := by
          rw [hstep]; exact List.getElem?_set_self (List.getElem?_eq_some_iff.1 hf).1
        rw [hss, hf] at this
        cases this
        exact hcur he
      · exact absurd he hne
    have hI' : VolInv s' gh := by
      rw [hstep]
      refine volInv_file_set' hI hf ?_ ?_ ?_ ?_ ?_ ?_ hrv' ?_ hcur' s'.dev s'.cache hdisk hM'.1 hM'.2.1
      · show (f'.entry.entryBlock, f'.entry.entryOffset) = _
        rw [hent]
      · rw [hent]
      · rw [hent]
      · rw [hent]
      · rw [hent]
      · rw [hdy]; exact fun h => h
      · rw [← hvol, ← hdisk]; exact hok2
    have hpos' : f'.currentOffset = ((absFile vi.vol s.dev.disk f (chainOf gh.G f.entry.cluster)).read n).2.pos := by rw [hf']
    have hA' : Abs s' gh { a with files := a.files.set i { af with pos := f'.currentOffset } } :=
      abs_file_set (f' := f') hI hA hf (by show (f'.entry.entryBlock, f'.entry.entryOffset) = _; rw [hent]) (by rw [hent]) (by rw [hent])
        hstep hdisk hrel (by rw [hraw]; exact hrel.handle) (by rw [hrv']; exact hrel.volume) (by rw [hmode]; exact hrel.mode) rfl
        (by rw [hent]; exact hrel.pm) (by rw [hdy]; exact hrel.dirty) rfl rfl
    refine ⟨gh, _, hI', SameGeom.refl _, hA', (hgoal _ _).2 ?_⟩
    unfold Spec.AbsFs.readS
    rw [hfo]
    dsimp only
    rw [hvopen]
    simp only [Bool.not_true, Bool.false_eq_true, if_false]
    refine ⟨_, _, hslot, ?_, ?_⟩
    · rw [hrel.pos, hvol]; rfl
    · rw [hpos', hrel.pos, hvol]; rfl

end Sdmmc.Lemmas.AbsFs
