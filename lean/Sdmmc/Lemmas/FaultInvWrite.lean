/-
C11 under the invariant, part 11 (API): `write` under ANY fault schedule (`write_fault_dirs`) — from
`Retry.write_keeps_others`: whatever device call failed, only FAT entries and blocks of the written file's own
(possibly extended) chain changed, so every directory reads as before.
-/
import Sdmmc.Lemmas.FaultInvApi
import Sdmmc.Lemmas.RetryWriteTop
import Sdmmc.Lemmas.VolApiWrite

namespace Sdmmc.Lemmas.FaultInv
open Sdmmc.Model Sdmmc.Model.Fat Sdmmc.Spec.Volume Sdmmc.Lemmas.VolBase Sdmmc.Lemmas.VolTree
open Sdmmc.Spec hiding NoFault Coherent
open Sdmmc.Lemmas.VolDisk Sdmmc.Lemmas.VolMed Sdmmc.Lemmas.VolApi Sdmmc.Lemmas.VolEng
open Sdmmc.Lemmas.FBasic (NoFault Coherent)
open Sdmmc.Lemmas.CrashBase Sdmmc.Lemmas.Retry Sdmmc.Lemmas.FaultPre Sdmmc.Lemmas.MHoare

/-- The directories survive a change of the medium after which their chains are still their chains and the blocks
holding their slots are the same. -/
theorem DirsInv.congr' {v : FatVolume} {d d' : Disk} {gh : Ghost} (h0 : DirsInv v d gh)
    (hch : ∀ h, h ∈ dirIds gh.dirs → ¬ isFixedRoot v h → Chain v d' (dirHead v h) (chainOf gh.G (dirHead v h)))
    (hblk : ∀ h, h ∈ dirIds gh.dirs → ∀ s, s ∈ dirSlots v d gh.G h → d'.get s.1 = d.get s.1) : DirsInv v d' gh := by
  have hsl : ∀ h, h ∈ dirIds gh.dirs → dirSlots v d' gh.G h = dirSlots v d gh.G h := fun h hh => dirSlots_congr (hblk h hh)
  refine ⟨h0.geom, h0.mem, hch, ?_, ?_, ?_⟩
  · intro h hh; rw [hsl h hh]; exact h0.cleanTail h hh
  · intro h hh; rw [hsl h hh]; exact h0.names h hh
  · intro h p hp
    have hh : h ∈ dirIds gh.dirs := mem_dirIds.2 (.inr ⟨p, hp⟩)
    rw [hsl h hh]; exact h0.dots h p hp

/-- **`write` under any fault schedule**: the directories are sound on the medium it leaves. -/
theorem write_fault_dirs {s0 : Mgr} {gh : Ghost} (hI : VolInv s0 gh) (L : List Nat) (file : Nat) (data : Bytes) :
    DirsP gh.vol gh.dirs (Model.write file data (withFaults L s0)).2.dev.disk ∧
    (Model.write file data (withFaults L s0)).2.dirs = s0.dirs := by
  have hM : MedX gh.vol s0.dev.disk s0.files gh [] := medX_of_med hI.med
  have h0 : DirsP gh.vol gh.dirs s0.dev.disk := dirsP_of_med hM
  cases hidx : s0.files.findIdx? (·.rawFile = file) with
  | none =>
    have : Model.write file data (withFaults L s0) = (.err .BadHandle, withFaults L s0) := by
      unfold Model.write
      rw [bind_err (getFileById_bad (s := withFaults L s0) hidx)]
    rw [this]; exact ⟨h0, rfl⟩
  | some i =>
    obtain ⟨f, hf, _⟩ := findIdx?_some_get hidx
    have hfm : f ∈ s0.files := List.mem_of_getElem? hf
    obtain ⟨vi, hv, hvol, hrv, _⟩ := vol_of_file hI hfm
    have hvfind : s0.vols.findIdx? (·.rawVolume = f.rawVolume) = some 0 := by rw [hv]; simp [hrv]
    have hvi : s0.vols[0]? = some vi := by rw [hv]; rfl
    by_cases hmode : f.mode = .ReadOnly
    · rw [Modes.write_readOnly (s := withFaults L s0) file data i f 0 hidx hf hvfind hmode]
      exact ⟨h0, rfl⟩
    have hG : HeadsOK gh.G := med_heads hM
    obtain ⟨hok, hcur⟩ := hI.med.fileOK f hfm
    generalize hcsdef : chainOf gh.G f.entry.cluster = cs at hok hcur
    have hhead : cs ≠ [] → cs ∈ gh.G ∧ cs.head? = some f.entry.cluster := by
      intro hne
      rw [← hcsdef] at hne ⊢
      exact chainOf_spec hG ((chainOf_ne_nil_iff hG).1 hne)
    obtain ⟨A, B, hGeq⟩ : ∃ A B, gh.G = withChain A cs B := by
      by_cases hne : cs = []
      · exact ⟨[], gh.G, by rw [hne, WriteRefines.withChain_nil]; rfl⟩
      · obtain ⟨A, B, h⟩ := List.append_of_mem (hhead hne).1
        exact ⟨A, B, by rw [WriteRefines.withChain_ne hne, h]; simp⟩
    have hs : MgrOKF (withFaults L s0) := ⟨hI.coherent, hI.med.blocksOK, hI.unlocked⟩
    obtain ⟨⟨f', v', hstep, _, _⟩, ⟨cs', _, hoth⟩⟩ :=
      Retry.write_kept (withFaults L s0) file i 0 data f vi cs A B hs hidx hf hvfind hvi hmode
        (by rw [hvol]; exact hI.med.geom) (by rw [hvol]; exact hI.med.hint) (by rw [hvol]; exact hok) hcur
        (by rw [hvol, ← hGeq]; exact hI.med.owns)
    have heq := hstep.eq
    have hchains := hoth.chains
    have hframe := hoth.frame
    have hrange := hoth.inRange
    rw [hvol] at hchains hframe hrange
    refine ⟨⟨gh.G, ?_⟩, by rw [heq]; rfl⟩
    -- the chain of a directory is one of the other chains
    obtain ⟨hfo, hhf, Af, o, Bf, hO, hpo, hod, _, _, hpend⟩ := file_object hM.tree hfm
    have hobj : o ∈ objects hfo (dirSlots gh.vol s0.dev.disk gh.G hfo) := by rw [hO]; simp
    have hrest : ∀ h, h ∈ dirIds gh.dirs → ¬ isFixedRoot gh.vol h → chainOf gh.G (dirHead gh.vol h) ∈ A ++ B := by
      intro h hh hfx
      obtain ⟨hm, hhd⟩ := dirChain_spec hM hh hfx
      have hmem : chainOf gh.G (dirHead gh.vol h) ∈ withChain A cs B := by rw [← hGeq]; exact hm
      by_cases hne : cs = []
      · rw [hne, WriteRefines.withChain_nil] at hmem
        simpa using hmem
      · 
        refine VolApi.mem_rest hmem (c := dirHead gh.vol h) (c0 := f.entry.cluster) (fun hne' => (hhead hne').2) hhd ?_
        have hc0 : effCluster gh.vol.fatType s0.files o ≠ 0 := by
          rw [effCluster_of_pend hpend]
          intro e0
          apply hne
          rw [← hcsdef, e0]
          exact chainOf_lt_two hG (by decide)
        have := dirHead_ne_fileRef hM hhf hobj hod hc0 hh hfx
        rw [effCluster_of_pend hpend] at this
        exact this
    have hd0 := dirsInv_of_med (gh := { vol := gh.vol, G := gh.G, dirs := gh.dirs }) (medX_ghost hM rfl rfl)
    refine hd0.congr' (fun h hh hfx => ?_) (fun h hh s hs' => ?_)
    · obtain ⟨hch, _⟩ := hchains _ (hrest h hh hfx)
      obtain ⟨_, hhd⟩ := dirChain_spec hM hh hfx
      rw [headD_of_head? hhd] at hch
      exact hch
    · apply hframe
      · rintro ⟨c, hc', hb⟩
        have hreg := (dirSlot_place hM hh hs').1
        obtain ⟨r1, r2⟩ := FatLens.fat_blocks_in_fat_region gh.vol hM.geom c hc'
        rcases hb with hb | hb
        · exact hreg (by rw [hb]; exact r1)
        · exact hreg (r2 _ hb)
      · rintro ⟨c, hc', hle, hlt⟩
        have hcr := hrange c hc'
        have hdata := FatLens.cluster_blocks_in_data_region gh.vol hM.geom c (s.1 - clusterToBlock gh.vol c) hcr.1 hcr.2 (by omega)
        rw [show clusterToBlock gh.vol c + (s.1 - clusterToBlock gh.vol c) = s.1 by omega] at hdata
        by_cases hfx : isFixedRoot gh.vol h
        · have hs2 : s ∈ dirSlots gh.vol s0.dev.disk gh.G h := hs'
          rw [dirSlots_fixed hfx] at hs2
          have hr := fixedRootSlots_region hM.geom hfx.2 hs2
          rw [hdata] at hr; cases hr
        · have hs2 : s ∈ dirSlots gh.vol s0.dev.disk gh.G h := hs'
          rw [dirSlots_chain hfx] at hs2
          obtain ⟨c2, hc2, hle2, hlt2⟩ := chainSlots_block hs2
          obtain ⟨_, hdis⟩ := hchains _ (hrest h hh hfx)
          have hc2r := med_inRange hM (dirChain_spec hM hh hfx).1 hc2
          have := FatLens.cluster_blocks_disjoint_of_lt gh.vol hM.geom c c2 (s.1 - clusterToBlock gh.vol c) (s.1 - clusterToBlock gh.vol c2)
            hcr.1 hc2r.1 hcr.2 hc2r.2 (by omega) (by omega) (by omega)
          exact hdis c2 hc2 (this.1 ▸ hc')

end Sdmmc.Lemmas.FaultInv
