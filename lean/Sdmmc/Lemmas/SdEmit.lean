/-
Lemmas for C14, part 4: every chunk-local property of the event log that holds of what
`card_command` / `card_acmd` log holds of what every public call logs.
-/
import Sdmmc.Lemmas.SdEvents

namespace Sdmmc.Lemmas.Sd
open Sdmmc.Model Sdmmc.Model.Sd Sdmmc.Gen

variable {σ : Type} {α β : Type} (B : BusOps σ)
variable {Q : List Event → Prop} [hQ : Local Q]

theorem waitNotBusy_emits (n : Nat) : Emits Q (waitNotBusy B n) := by
  induction n with
  | zero => unfold waitNotBusy; emits [readByte_emits B]
  | succ n ih => unfold waitNotBusy; emits [readByte_emits B, delayTick_emits B, ih]

theorem waitResponse_emits (c n : Nat) : Emits Q (waitResponse B c n) := by
  induction n with
  | zero => unfold waitResponse; emits [readByte_emits B]
  | succ n ih => unfold waitResponse; emits [readByte_emits B, delayTick_emits B, ih]

theorem waitToken_emits (n : Nat) : Emits Q (waitToken B n) := by
  induction n with
  | zero => unfold waitToken; emits [readByte_emits B]
  | succ n ih => unfold waitToken; emits [readByte_emits B, delayTick_emits B, ih]

theorem readData_emits (len : Nat) : Emits Q (readData B len) := by
  unfold readData
  emits [waitToken_emits B _, xferEv_emits B (.dataIn _) (by simp)]

theorem writeData_emits (tok : Nat) (buf : Bytes) : Emits Q (writeData B tok buf) := by
  unfold writeData
  emits [writeByte_emits B _, xferEv_emits B (.dataOut _) (by simp), readByte_emits B]

theorem flushBytes_emits (n : Nat) : Emits Q (flushBytes B n) := by
  induction n with
  | zero => unfold flushBytes; emits []
  | succ n ih => unfold flushBytes; emits [writeByte_emits B _, ih]

theorem readBlocks_emits (n : Nat) : Emits Q (readBlocks B n) := by
  induction n with
  | zero => unfold readBlocks; emits []
  | succ n ih => unfold readBlocks; emits [readData_emits B _, ih]

theorem writeBlocks_emits (l : List Bytes) : Emits Q (writeBlocks B l) := by
  induction l with
  | nil => unfold writeBlocks; emits []
  | cons b rest ih => unfold writeBlocks; emits [waitNotBusy_emits B _, writeData_emits B _ _, ih]

theorem setCardType_emits (ct : CardType) : Emits Q (setCardType ct : S σ Unit) :=
  fun _ => ⟨[], by simp [setCardType], rfl, rfl, hQ.nil⟩

/-- The commands the driver issues through plain `card_command`. -/
def plainCmds : List Nat := [CMD0, CMD8, CMD9, CMD12, CMD13, CMD17, CMD18, CMD24, CMD25, CMD58, CMD59]

section fine
variable (h0 : ∀ arg, Emits Q (cardCommand B CMD0 arg))
variable (h59 : ∀ arg, Emits Q (cardCommand B CMD59 arg))
variable (h8 : ∀ arg, Emits Q (cardCommand B CMD8 arg))
variable (h41 : ∀ arg, Emits Q (cardAcmd B ACMD41 arg))
variable (h58 : ∀ arg, Emits Q (cardCommand B CMD58 arg))

include h0 in
theorem enterSpiModeStep_emits' (next : Option (S σ Unit)) (hn : ∀ k, next = some k → Emits Q k) :
    Emits Q (enterSpiModeStep B next) := by
  cases next with
  | none => unfold enterSpiModeStep; emits [h0 _, flushBytes_emits B _]
  | some k =>
    have := hn k rfl
    unfold enterSpiModeStep; emits [h0 _, flushBytes_emits B _, delayTick_emits B, this]

include h0 in
theorem enterSpiMode_emits' (n : Nat) : Emits Q (enterSpiMode B n) := by
  induction n with
  | zero => unfold enterSpiMode; exact enterSpiModeStep_emits' B h0 none (by simp)
  | succ n ih =>
    unfold enterSpiMode
    exact enterSpiModeStep_emits' B h0 _ (fun k hk => by cases hk; exact ih)

include h8 in
theorem checkVersionStep_emits' (next : Option (S σ (CardType × Nat))) (hn : ∀ k, next = some k → Emits Q k) :
    Emits Q (checkVersionStep B next) := by
  cases next with
  | none => unfold checkVersionStep; emits [h8 _, xferEv_emits B (.dataIn _) (by simp)]
  | some k =>
    have := hn k rfl
    unfold checkVersionStep
    emits [h8 _, xferEv_emits B (.dataIn _) (by simp), delayTick_emits B, this]

include h8 in
theorem checkVersion_emits' (n : Nat) : Emits Q (checkVersion B n) := by
  induction n with
  | zero => unfold checkVersion; exact checkVersionStep_emits' B h8 none (by simp)
  | succ n ih =>
    unfold checkVersion
    exact checkVersionStep_emits' B h8 _ (fun k hk => by cases hk; exact ih)

include h41 in
theorem waitReadyStep_emits' (arg : Nat) (next : Option (S σ Unit)) (hn : ∀ k, next = some k → Emits Q k) :
    Emits Q (waitReadyStep B arg next) := by
  cases next with
  | none => unfold waitReadyStep; emits [h41 _]
  | some k =>
    have := hn k rfl
    unfold waitReadyStep; emits [h41 _, delayTick_emits B, this]

include h41 in
theorem waitReady_emits' (arg n : Nat) : Emits Q (waitReady B arg n) := by
  induction n with
  | zero => unfold waitReady; exact waitReadyStep_emits' B h41 arg none (by simp)
  | succ n ih =>
    unfold waitReady
    exact waitReadyStep_emits' B h41 arg _ (fun k hk => by cases hk; exact ih)

include h0 h59 h8 h41 h58 in
theorem acquireBody_emits' : Emits Q (acquireBody B) := by
  rw [acquireBody_eq]
  emits [enterSpiMode_emits' B h0 _, h59 _, h58 _, checkVersion_emits' B h8 _,
    waitReady_emits' B h41 _ _, xferEv_emits B (.dataIn _) (by simp), setCardType_emits _]

include h0 h59 h8 h41 h58 in
theorem acquire_emits' : Emits Q (acquire B) := by
  rw [acquire_eq]
  emits [acquireBody_emits' B h0 h59 h8 h41 h58, readByte_emits B]

include h0 h59 h8 h41 h58 in
theorem checkInit_emits' : Emits Q (checkInit B) := by
  unfold checkInit
  emits [acquire_emits' B h0 h59 h8 h41 h58]

end fine

section withCmd
variable (hc : ∀ c arg, c ∈ plainCmds → Emits Q (cardCommand B c arg))
variable (ha : ∀ c arg, c = ACMD41 ∨ c = ACMD23 → Emits Q (cardAcmd B c arg))

include hc in
theorem enterSpiModeStep_emits (next : Option (S σ Unit)) (hn : ∀ k, next = some k → Emits Q k) :
    Emits Q (enterSpiModeStep B next) :=
  enterSpiModeStep_emits' B (fun a => hc _ a (by decide)) next hn

include hc in
theorem enterSpiMode_emits (n : Nat) : Emits Q (enterSpiMode B n) :=
  enterSpiMode_emits' B (fun a => hc _ a (by decide)) n

include hc in
theorem checkVersion_emits (n : Nat) : Emits Q (checkVersion B n) :=
  checkVersion_emits' B (fun a => hc _ a (by decide)) n

include ha in
theorem waitReady_emits (arg n : Nat) : Emits Q (waitReady B arg n) :=
  waitReady_emits' B (fun a => ha _ a (Or.inl rfl)) arg n

include hc ha in
theorem acquireBody_emits : Emits Q (acquireBody B) :=
  acquireBody_emits' B (fun a => hc _ a (by decide)) (fun a => hc _ a (by decide)) (fun a => hc _ a (by decide))
    (fun a => ha _ a (Or.inl rfl)) (fun a => hc _ a (by decide))

include hc ha in
theorem acquire_emits : Emits Q (acquire B) :=
  acquire_emits' B (fun a => hc _ a (by decide)) (fun a => hc _ a (by decide)) (fun a => hc _ a (by decide))
    (fun a => ha _ a (Or.inl rfl)) (fun a => hc _ a (by decide))

include hc ha in
theorem checkInit_emits : Emits Q (checkInit B) :=
  checkInit_emits' B (fun a => hc _ a (by decide)) (fun a => hc _ a (by decide)) (fun a => hc _ a (by decide))
    (fun a => ha _ a (Or.inl rfl)) (fun a => hc _ a (by decide))

include hc in
theorem read_emits (n idx : Nat) : Emits Q (Sd.read B n idx) := by
  unfold Sd.read
  emits [hc _ _ (by decide), readData_emits B _, readBlocks_emits B _]

theorem stopWrite_emits : Emits Q (stopWrite B) := by
  unfold stopWrite
  emits [waitNotBusy_emits B _, writeByte_emits B _, readByte_emits B]

include hc ha in
theorem write_emits (blocks : List Bytes) (idx : Nat) : Emits Q (write B blocks idx) := by
  unfold write
  emits [hc _ _ (by decide), ha _ _ (Or.inr rfl), waitNotBusy_emits B _, writeData_emits B _ _,
    writeBlocks_emits B _, readByte_emits B, writeByte_emits B _]

include hc in
theorem readCsd_emits : Emits Q (readCsd B) := by
  unfold readCsd
  emits [hc _ _ (by decide), readData_emits B _]

include hc ha in
theorem call_emits (c : Call) : Emits Q (call B c) := by
  cases c with
  | read n idx => unfold call; emits [checkInit_emits B hc ha, read_emits B hc _ _]
  | write blocks idx => unfold call; emits [checkInit_emits B hc ha, write_emits B hc ha _ _]
  | numBlocks => unfold call numBlocks; emits [checkInit_emits B hc ha, readCsd_emits B hc]
  | numBytes => unfold call numBytes; emits [checkInit_emits B hc ha, readCsd_emits B hc]
  | cardType => unfold call; emits [checkInit_emits B hc ha]
  | markUninit => unfold call; exact fun _ => ⟨[], by simp, rfl, rfl, hQ.nil⟩

end withCmd

end Sdmmc.Lemmas.Sd
