/-
Bridging lemma between the two layers of `Props/C06Main.lean`: what the refinement relation `Abs`
says about the slots of a directory (`a.slots h`, `Lemmas/AbsFsBase.lean`) IS the specification
listing of `Props/C06.lean` over the raw slots of the medium (`Spec.Volume.dirSlots`): same entries,
same order, and each abstract entry is the view of the raw slot DECODED — start cluster included in
the decoded entry.
-/
import Sdmmc.Props.C06
import Sdmmc.Props.C01Fs

namespace Sdmmc.Lemmas.MainK06
open Sdmmc.Model Sdmmc.Model.Fat
open Sdmmc.Spec.Volume (VolInv Ghost Slot dirSlots beforeEnd first isFrag isDirE)
open Sdmmc.Spec.AbsFs (Meta view)
open Sdmmc.Lemmas.AbsFs (Abs absSlot absSlots metaOf)

/-- Listing an abstracted slot sequence: the views of the decoded live short entries, in order. -/
theorem filterMap_absSlot (ft : FatType) (cont : Slot → Bytes) (l : List Slot) :
    (l.map (absSlot ft cont)).filterMap Spec.AbsFs.Slot.meta? =
      (((l.filter fun s => decide (first s ≠ 0xE5)).filter fun s => !isFrag s).map fun s =>
        view (Lemmas.Listing.decode ft s)) := by
  induction l with
  | nil => rfl
  | cons s l ih =>
    have hm : Spec.AbsFs.Slot.meta? (absSlot ft cont s) =
        if first s = 0xE5 then none else if isFrag s = true then none else some (view (Lemmas.Listing.decode ft s)) := by
      unfold absSlot
      by_cases h1 : first s = 0xE5
      · simp [h1, Spec.AbsFs.Slot.meta?]
      · by_cases h2 : isFrag s = true
        · simp [h1, h2, Spec.AbsFs.Slot.meta?]
        · by_cases h3 : isDirE s = true <;> simp [h1, h2, h3, Spec.AbsFs.Slot.meta?, metaOf]
    rw [List.map_cons, List.filterMap_cons, hm, ih]
    by_cases h1 : first s = 0xE5
    · simp [h1, List.filter_cons]
    · by_cases h2 : isFrag s = true
      · simp [h1, h2, List.filter_cons]
      · simp [h1, h2, List.filter_cons]

/-- **The abstract listing is the raw listing.**  Under `Abs`, for every directory `h` of the tree: the
file / directory slots of `a.slots h`, in order, are the views of `C06.listing` — the specification's
listing (live, not a fragment, decoded at the FAT offsets, start cluster included) — of the raw slots
`dirSlots gh.vol s.dev.disk gh.G h` of the medium. -/
theorem abs_listing_is_raw_listing {s : Mgr} {gh : Ghost} {a : Spec.AbsFs.AbsFs} (hA : Abs s gh a) (h : Nat)
    (hh : h ∈ Spec.Volume.dirIds gh.dirs) :
    (a.slots h).filterMap Spec.AbsFs.Slot.meta? =
      (Props.C06.listing gh.vol.fatType (dirSlots gh.vol s.dev.disk gh.G h)).map view := by
  rw [hA.slots h hh]
  unfold absSlots
  rw [filterMap_absSlot]
  unfold Props.C06.listing
  rw [List.map_map]
  rfl

end Sdmmc.Lemmas.MainK06
