/-
C11 over histories with SEVERAL OPEN VOLUMES, part 1: the invariant `VolInvNS` (`Spec/VolumeNSlack.lean`), its projection to one
volume (`volInvD_projH`: the one-volume invariant with slack, with `EntriesNotAhead`), what the per-volume clauses read of the
medium (`medD_congr_partition`, `rawAllD_congr_partition`: only the volume's partition), WHERE a call under faults writes —
WITHOUT `Mirror` (`staysIn_D`: from the copy-1 licences of `Lemmas/DLicXFault.step_lic1`) —, and THE LIFT (`volInvNS_reassemble`:
`Lemmas/VolNInv.volInvN_reassemble` for `VolInvNS`).
-/
import Sdmmc.Spec.VolumeNSlack
import Sdmmc.Lemmas.VolNInv
import Sdmmc.Lemmas.VolNStep
import Sdmmc.Lemmas.DLicXFault
import Sdmmc.Lemmas.FaultDSpec
import Sdmmc.Lemmas.FaultDRaw

namespace Sdmmc.Lemmas.MultiS
open Sdmmc.Model Sdmmc.Model.Fat Sdmmc.Spec.Volume
open Sdmmc.Spec hiding NoFault Coherent run step
open Sdmmc.Lemmas.VolBase Sdmmc.Lemmas.VolTree Sdmmc.Lemmas.VolDisk
open Sdmmc.Lemmas.VolN (projH ProjRel vkey LabelFresh StepSim)
open Sdmmc.Lemmas.VolD (MedD VolInvD)
open Sdmmc.Lemmas.Retry (mclr)
open Sdmmc.Lemmas.FaultX (RawAllD RawAll)
open Sdmmc.Lemmas.VolX (RawBelow)

/-! ### What the per-volume clauses read -/

theorem medD_congr_partition {k : Nat} {v : FatVolume} {d d' : Disk} {files : List FileInfo} {gh : Ghost} {X : List (List Nat)}
    (hM : MedD k v d files gh X) (hb : BlocksOK d') (hsame : ∀ b, InPartition v b → d'.get b = d.get b) :
    MedD k v d' files gh X := by
  refine VolD.med_congr hM (SameGeom.refl v) hM.hint hb ?_ ?_
  · intro c hc
    exact hsame _ (VolN.inPartition_of_region (.inl (FatLens.fat_blocks_in_fat_region v hM.geom c hc).1))
  · intro h hh
    apply VolMed.dirSlots_congr
    intro sl hs
    rcases VolD.dirSlot_not_fat hM hh hs with e | e
    · exact hsame _ (VolN.inPartition_of_region (.inr (.inl e)))
    · exact hsame _ (VolN.inPartition_of_region (.inr (.inr e)))

theorem medD_files_perm {k : Nat} {v : FatVolume} {d : Disk} {files files' : List FileInfo} {gh : Ghost} {X : List (List Nat)}
    (hM : MedD k v d files gh X) (hp : files.Perm files') : MedD k v d files' gh X :=
  ⟨hM.blocksOK, hM.geom, hM.hint, hM.owns, VolApi.tree_files_perm hM.tree hp, fun f hf => hM.fileOK f (hp.symm.subset hf)⟩

theorem rawAllD_congr_partition {k : Nat} {v : FatVolume} {d d' : Disk} {files : List FileInfo} {gh : Ghost} {X : List (List Nat)}
    (hM : MedD k v d files gh X) (hR : RawAllD v.fatType d files) (hsame : ∀ b, InPartition v b → d'.get b = d.get b) :
    RawAllD v.fatType d' files := by
  refine VolD.rawAll_dirBlocks hM hR fun h hh sl hs => ?_
  rcases VolD.dirSlot_not_fat hM hh hs with e | e
  · exact hsame _ (VolN.inPartition_of_region (.inr (.inl e)))
  · exact hsame _ (VolN.inPartition_of_region (.inr (.inr e)))

/-! ### From the invariant to its projection -/

/-- The entries of the files of volume record `vi`. -/
theorem rawAllD_of_entries {s : Mgr} (hE : EntriesNotAheadN s) {vi : VolInfo} (hvi : vi ∈ s.vols) :
    RawAllD vi.vol.fatType s.dev.disk (volFiles s vi.rawVolume) := by
  intro f hf
  have h1 := List.mem_filter.1 hf
  exact hE vi hvi f h1.1 (by simpa using h1.2)

/-- **The projection satisfies the one-volume invariant with slack, with no entry ahead.** -/
theorem volInvD_projH {s : Mgr} {ghs : List Ghost} (hI : VolInvNS s ghs) {i : Nat} {vi : VolInfo} {gh : Ghost}
    (hvi : s.vols[i]? = some vi) (hgh : ghs[i]? = some gh) :
    (∃ k X, VolInvD k X (mclr (projH vi.rawVolume i s)) gh) ∧ RawAll (projH vi.rawVolume i s) := by
  obtain ⟨k, X, hM⟩ := hI.med i vi gh hvi hgh
  have hvl : (projH vi.rawVolume i s).vols = [vi] := by
    show (s.vols[i]?).toList = [vi]
    rw [hvi]; rfl
  refine ⟨⟨k, X, rfl, hI.coherent, hI.unlocked, rfl, .inr ⟨vi, hvl, hI.vols i vi gh hvi hgh⟩, VolD.medSlack_iff.1 hM, ?_, ?_⟩, ?_⟩
  · intro f hf
    exact ⟨vi, hvl, by simpa using (List.mem_filter.1 hf).2⟩
  · intro di hdi
    have h1 := List.mem_filter.1 hdi
    exact hI.openDirs di h1.1 i vi gh hvi hgh (by simpa using h1.2)
  · intro f hf vj hvj
    have : vj = vi := by
      have hvj' : vj ∈ (projH vi.rawVolume i s).vols := hvj
      rw [hvl] at hvj'; exact List.mem_singleton.1 hvj'
    rw [this]
    exact rawAllD_of_entries hI.entries (List.mem_of_getElem? hvi) f hf

/-! ### Where a call under faults writes (no `Mirror`) -/

theorem allLicensed1_inPartition {v : FatVolume} (hg : WFGeom v) {L : Licence} : ∀ (ws : List (Nat × Block)) (d : Disk),
    AllLicensed1 v d L ws → ∀ w, w ∈ ws → InPartition v w.1
  | [], _, _, _, h => nomatch h
  | w :: ws, d, h, x, hx => by
    rcases List.mem_cons.1 hx with rfl | hx
    · exact (WriteSet1.licensed_in_region v hg d L _ h.1).2.1
    · exact allLicensed1_inPartition hg ws _ h.2 x hx

/-- **A covered call on a one-volume manager under any schedule, from the invariant with slack, changes no block outside the
partition of its volume and leaves 512-byte blocks** — nothing is asked of FAT copy 2. -/
theorem staysIn_D {k : Nat} {X : List (List Nat)} {p : Mgr} {gh : Ghost} (hI : VolInvD k X (mclr p) gh) (op : Op)
    (hc : FaultInv.FCovered p op) :
    (∀ b, ¬ InPartition gh.vol b → (Model.step p op).1.dev.disk.get b = p.dev.disk.get b) ∧
    BlocksOK (Model.step p op).1.dev.disk := by
  obtain ⟨L, _, hall, hdisk⟩ := VolD.step_lic1 hI op hc
  have hin := allLicensed1_inPartition hI.med.geom _ _ hall
  refine ⟨fun b hb => ?_, fun b => ?_⟩
  · rw [hdisk b]
    exact CrashBase.applyWrites_get_other _ _ _ fun w hw e => hb (e ▸ hin w hw)
  · rw [hdisk b]
    exact VolX.Lic.allLicensed1_blocksOK _ _ hI.med.blocksOK hall b

/-! ### The lift -/

/-- What is known about the state `s'` a call on volume record `i` leaves. -/
structure LiftedS (s s' t' : Mgr) (i : Nat) (vi : VolInfo) (gh gh' : Ghost) : Prop where
  rel : ProjRel vi.rawVolume i s' t'
  volKeys : s'.vols.map vkey = s.vols.map vkey
  restVols : s'.vols.eraseIdx i = s.vols.eraseIdx i
  restDirs : (otherDirs s' vi.rawVolume).Perm (otherDirs s vi.rawVolume)
  restFiles : (otherFiles s' vi.rawVolume).Perm (otherFiles s vi.rawVolume)
  inv : ∃ k X, VolInvD k X (mclr t') gh'
  raw : RawAll t'
  geom : SameGeom gh.vol gh'.vol
  frame : ∀ b, ¬ InPartition gh.vol b → s'.dev.disk.get b = s.dev.disk.get b

open Sdmmc.Lemmas.VolN (index_of_handle getElem?_of_eraseIdx_eq map_fst_vkey map_snd_vkey inPartition_sameGeom volFiles_of_other
  mem_files_cases) in
/-- **The lift** (`VolN.volInvN_reassemble` for `VolInvNS`). -/
theorem volInvNS_reassemble {s s' t' : Mgr} {ghs : List Ghost} {i : Nat} {vi : VolInfo} {gh gh' : Ghost}
    (hI : VolInvNS s ghs) (hvi : s.vols[i]? = some vi) (hgh : ghs[i]? = some gh) (hL : LiftedS s s' t' i vi gh gh') :
    VolInvNS s' (ghs.set i gh') := by
  obtain ⟨k', X', hinv⟩ := hL.inv
  have hlen : s'.vols.length = s.vols.length := by
    have := congrArg List.length hL.volKeys
    simpa using this
  have hilt : i < s.vols.length := (List.getElem?_eq_some_iff.1 hvi).1
  have hiltg : i < ghs.length := by rw [hI.len]; exact hilt
  -- the volume records afterwards
  have hother : ∀ j, j ≠ i → s'.vols[j]? = s.vols[j]? := fun j hj => getElem?_of_eraseIdx_eq hL.restVols hlen hj
  obtain ⟨vi', hvi'⟩ : ∃ vi', s'.vols[i]? = some vi' := ⟨_, List.getElem?_eq_getElem (by rw [hlen]; exact hilt)⟩
  have hkey : vkey vi' = vkey vi := by
    have h1 : (s'.vols.map vkey)[i]? = some (vkey vi') := by rw [List.getElem?_map, hvi']; rfl
    have h2 : (s.vols.map vkey)[i]? = some (vkey vi) := by rw [List.getElem?_map, hvi]; rfl
    rw [hL.volKeys, h2] at h1
    exact (Option.some.inj h1).symm
  have hraw' : vi'.rawVolume = vi.rawVolume := congrArg Prod.fst hkey
  have htv : t'.vols = [vi'] := by rw [hL.rel.vols, hvi']; rfl
  have hvol' : vi'.vol = gh'.vol := by
    have hvv : t'.vols = [] ∨ ∃ w, t'.vols = [w] ∧ w.vol = gh'.vol := hinv.vols
    rcases hvv with h0 | ⟨w, hw, hwv⟩
    · rw [htv] at h0; cases h0
    · rw [htv] at hw; cases hw; exact hwv
  have hhandles : (s'.vols.map fun vi => vi.rawVolume) = s.vols.map fun vi => vi.rawVolume := by
    rw [← map_fst_vkey, ← map_fst_vkey, hL.volKeys]
  have hidx : (s'.vols.map fun vi => vi.idx) = s.vols.map fun vi => vi.idx := by
    rw [← map_snd_vkey, ← map_snd_vkey, hL.volKeys]
  have hdisk : t'.dev.disk = s'.dev.disk := by rw [hL.rel.dev]
  -- ghosts afterwards
  have hghs : ∀ (j : Nat) (g : Ghost), (ghs.set i gh')[j]? = some g → (j = i ∧ g = gh') ∨ (j ≠ i ∧ ghs[j]? = some g) := by
    intro j g hg
    by_cases hj : j = i
    · subst hj
      rw [List.getElem?_set_self hiltg] at hg
      exact .inl ⟨rfl, (Option.some.inj hg).symm⟩
    · rw [List.getElem?_set_ne (Ne.symm hj)] at hg
      exact .inr ⟨hj, hg⟩
  -- the partition of another volume is untouched
  have hframe : ∀ (j : Nat) (vj : VolInfo), j ≠ i → s.vols[j]? = some vj → ∀ b, InPartition vj.vol b → s'.dev.disk.get b = s.dev.disk.get b := by
    intro j vj hj hvj b hb
    apply hL.frame
    rw [← hI.vols i vi gh hvi hgh]
    exact fun hbi => hI.parts i j vi vj hvi hvj (Ne.symm hj) b hbi hb
  have hbl : BlocksOK s'.dev.disk := by rw [← hdisk]; exact hinv.med.blocksOK
  have hmemvol : ∀ w : VolInfo, w ∈ s.vols → ∃ w' : VolInfo, w' ∈ s'.vols ∧ w'.rawVolume = w.rawVolume := by
    intro w hw
    have : w.rawVolume ∈ s.vols.map fun vi => vi.rawVolume := List.mem_map.2 ⟨w, hw, rfl⟩
    rw [← hhandles] at this
    obtain ⟨w', hw', e⟩ := List.mem_map.1 this
    exact ⟨w', hw', e⟩
  have hmemvol' : ∀ w : VolInfo, w ∈ s'.vols → ∃ w' : VolInfo, w' ∈ s.vols ∧ w'.rawVolume = w.rawVolume := by
    intro w hw
    have : w.rawVolume ∈ s'.vols.map fun vi => vi.rawVolume := List.mem_map.2 ⟨w, hw, rfl⟩
    rw [hhandles] at this
    obtain ⟨w', hw', e⟩ := List.mem_map.1 this
    exact ⟨w', hw', e⟩
  refine
    { coherent := by rw [← hL.rel.dev, ← hL.rel.cache]; exact hinv.coherent
      unlocked := by rw [← hL.rel.locked]; exact hinv.unlocked
      len := by rw [List.length_set, hlen]; exact hI.len
      vols := ?_, handles := by rw [hhandles]; exact hI.handles, indices := by rw [hidx]; exact hI.indices
      parts := ?_, med := ?_, entries := ?_, fileVols := ?_, openDirs := ?_, inertDirs := ?_ }
  · -- vols
    intro j vj g hvj hg
    rcases hghs j g hg with ⟨rfl, rfl⟩ | ⟨hj, hg'⟩
    · rw [hvi'] at hvj; cases hvj; exact hvol'
    · rw [hother j hj] at hvj
      exact hI.vols j vj g hvj hg'
  · -- parts
    have hpart : ∀ (j : Nat) (vj : VolInfo), s'.vols[j]? = some vj → ∃ wj : VolInfo, s.vols[j]? = some wj ∧ ∀ b, InPartition vj.vol b ↔ InPartition wj.vol b := by
      intro j vj hvj
      by_cases hj : j = i
      · subst hj
        rw [hvi'] at hvj; cases hvj
        refine ⟨vi, hvi, fun b => ?_⟩
        rw [hvol', hI.vols j vi gh hvi hgh]
        exact inPartition_sameGeom hL.geom b
      · rw [hother j hj] at hvj
        exact ⟨vj, hvj, fun _ => Iff.rfl⟩
    intro j k vj vk hvj hvk hjk b hb hb'
    obtain ⟨wj, hwj, ej⟩ := hpart j vj hvj
    obtain ⟨wk, hwk, ek⟩ := hpart k vk hvk
    exact hI.parts j k wj wk hwj hwk hjk b ((ej b).1 hb) ((ek b).1 hb')
  · -- med
    intro j vj g hvj hg
    rcases hghs j g hg with ⟨rfl, rfl⟩ | ⟨hj, hg'⟩
    · rw [hvi'] at hvj; cases hvj
      have hm : MedD k' g.vol t'.dev.disk t'.files g X' := hinv.med
      rw [hdisk] at hm
      rw [hraw']
      exact ⟨k', X', VolD.medSlack_iff.2 (medD_files_perm hm hL.rel.files)⟩
    · rw [hother j hj] at hvj
      obtain ⟨k, X, hM0⟩ := hI.med j vj g hvj hg'
      have hM := VolD.medSlack_iff.1 hM0
      have hne : vj.rawVolume ≠ vi.rawVolume := fun e => hj (index_of_handle hI.handles hvj hvi e)
      have hM' := medD_congr_partition hM hbl (by
        intro b hb
        rw [← hI.vols j vj g hvj hg'] at hb
        exact hframe j vj hj hvj b hb)
      refine ⟨k, X, VolD.medSlack_iff.2 (medD_files_perm hM' ?_)⟩
      rw [volFiles_of_other hne, volFiles_of_other hne]
      exact (hL.restFiles.filter _).symm
  · -- entries
    intro vj hvjm f hf hfv
    obtain ⟨j, hvj⟩ := List.getElem?_of_mem hvjm
    by_cases hj : j = i
    · subst hj
      rw [hvi'] at hvj; cases hvj
      have hm : f ∈ volFiles s' vi.rawVolume := List.mem_filter.2 ⟨hf, by simpa [hraw'] using hfv⟩
      have := hL.raw f (hL.rel.files.symm.subset hm) vi' (by rw [htv]; exact List.mem_singleton.2 rfl)
      rw [hdisk] at this
      exact this
    · rw [hother j hj] at hvj
      have hne : vj.rawVolume ≠ vi.rawVolume := fun e => hj (index_of_handle hI.handles hvj hvi e)
      obtain ⟨g, hg'⟩ : ∃ g, ghs[j]? = some g :=
        ⟨_, List.getElem?_eq_getElem (by rw [hI.len]; exact (List.getElem?_eq_some_iff.1 hvj).1)⟩
      obtain ⟨k, X, hM0⟩ := hI.med j vj g hvj hg'
      have hM := VolD.medSlack_iff.1 hM0
      have hvol := hI.vols j vj g hvj hg'
      have hmo : f ∈ otherFiles s' vi.rawVolume := List.mem_filter.2 ⟨hf, by simpa [hfv] using hne⟩
      have hf0 : f ∈ s.files := (List.mem_filter.1 (hL.restFiles.subset hmo)).1
      have hfv0 : f ∈ volFiles s vj.rawVolume := List.mem_filter.2 ⟨hf0, by simpa using hfv⟩
      have hR0 : RawAllD g.vol.fatType s.dev.disk (volFiles s vj.rawVolume) := by
        rw [← hvol]; exact rawAllD_of_entries hI.entries (List.mem_of_getElem? hvj)
      have := rawAllD_congr_partition hM hR0 (d' := s'.dev.disk) (by
        intro b hb
        rw [← hvol] at hb
        exact hframe j vj hj hvj b hb) f hfv0
      rw [← hvol] at this
      exact this
  · -- fileVols
    intro f hf
    rcases mem_files_cases vi.rawVolume hf with h | h
    · exact ⟨vi', List.mem_of_getElem? hvi', by rw [hraw']; simpa using (List.mem_filter.1 h).2⟩
    · have hf0 : f ∈ s.files := (List.mem_filter.1 (hL.restFiles.subset h)).1
      obtain ⟨w, hw, e⟩ := hI.fileVols f hf0
      obtain ⟨w', hw', e'⟩ := hmemvol w hw
      exact ⟨w', hw', e.trans e'.symm⟩
  · -- openDirs
    intro di hdi j vj g hvj hg hdv
    rcases hghs j g hg with ⟨rfl, rfl⟩ | ⟨hj, hg'⟩
    · rw [hvi'] at hvj; cases hvj
      have hm : di ∈ volDirs s' vi.rawVolume := List.mem_filter.2 ⟨hdi, by simpa [hraw'] using hdv⟩
      exact hinv.openDirs di (hL.rel.dirs.symm.subset hm)
    · rw [hother j hj] at hvj
      have hne : vj.rawVolume ≠ vi.rawVolume := fun e => hj (index_of_handle hI.handles hvj hvi e)
      have hm : di ∈ otherDirs s' vi.rawVolume := List.mem_filter.2 ⟨hdi, by simpa [hdv] using hne⟩
      have hd0 : di ∈ s.dirs := (List.mem_filter.1 (hL.restDirs.subset hm)).1
      exact hI.openDirs di hd0 j vj g hvj hg' hdv
  · -- inertDirs
    intro di hdi hno
    have hne : di.rawVolume ≠ vi.rawVolume := by
      have := hno vi' (List.mem_of_getElem? hvi')
      rwa [hraw'] at this
    have hm : di ∈ otherDirs s' vi.rawVolume := List.mem_filter.2 ⟨hdi, by simpa using hne⟩
    have hd0 : di ∈ s.dirs := (List.mem_filter.1 (hL.restDirs.subset hm)).1
    refine hI.inertDirs di hd0 fun w hw => ?_
    obtain ⟨w', hw', e'⟩ := hmemvol w hw
    rw [← e']
    exact hno w' hw'


end Sdmmc.Lemmas.MultiS
