/-
C11, arbitrary fault placement — `make_dir`, crash points that KEEP TRACK of the new cluster: `MXL c` is `MX`
(`Lemmas/FaultXDelete`) with the chain `[c]` among the lost chains.  `alloc_mxl` (every crash point of a further
allocation), `writeNew_mxl`: `write_new_directory_entry` with the state `spre` BEFORE ITS LAST DEVICE WRITE exposed —
every crash point up to `spre` is `MXL c`; after it only the write of the block with the new entry follows (or nothing,
when the call fails).
-/
import Sdmmc.Lemmas.FaultXCreate
import Sdmmc.Lemmas.FaultXStrictNew

namespace Sdmmc.Lemmas.FaultX
open Sdmmc.Model Sdmmc.Model.Fat Sdmmc.Spec.Volume Sdmmc.Lemmas.VolBase Sdmmc.Lemmas.VolTree
open Sdmmc.Spec hiding NoFault Coherent
open Sdmmc.Lemmas.VolDisk Sdmmc.Lemmas.VolMed Sdmmc.Lemmas.VolWalk Sdmmc.Lemmas.VolEng Sdmmc.Lemmas.VolX
open Sdmmc.Lemmas.FBasic
open Sdmmc.Lemmas.FatOps hiding BlocksOK Mirror HintOK
open Sdmmc.Lemmas.CrashBase Sdmmc.Lemmas.CrashFat Sdmmc.Lemmas.ForestBase Sdmmc.Lemmas.ForestOwns Sdmmc.Lemmas.ForestStep

/-- `MX` with the chain `[c]` among the lost chains. -/
def MXL (c : Nat) (v : FatVolume) (files : List FileInfo) (dirs : List (Nat × Nat)) (d : Disk) : Prop :=
  BlocksOK d → ∃ G' X', MedX v d files { vol := v, G := G', dirs := dirs } ([c] :: X')

section
variable {files : List FileInfo} {gh : Ghost} {X : List (List Nat)} {c0 : Nat}

theorem mxl_of_med {v : FatVolume} {d : Disk} {X' : List (List Nat)} (hM : MedX v d files gh ([c0] :: X')) :
    MXL c0 v files gh.dirs d :=
  fun _ => ⟨gh.G, X', ⟨hM.blocksOK, hM.geom, hM.hint, hM.owns, hM.tree, hM.fileOK⟩⟩

theorem mxl_mx {v : FatVolume} {dirs : List (Nat × Nat)} {d : Disk} (h : MXL c0 v files dirs d) : MX v files dirs d :=
  fun hb => let ⟨G', X', hM⟩ := h hb; ⟨G', _, hM⟩

theorem mxl_view {v : FatVolume} {d0 d : Disk} {dirs : List (Nat × Nat)} (h0 : BlocksOK d0) (h : MXL c0 v files dirs d0)
    (hv : View v d0 d) : MXL c0 v files dirs d := by
  intro hb
  obtain ⟨G', X', hM⟩ := h h0
  exact ⟨G', X', medX_view hM hb hv⟩

/-- The order of the lost chains does not matter. -/
theorem medX_swap {v : FatVolume} {d : Disk} {a b : List Nat} (hM : MedX v d files gh (a :: b :: X)) :
    MedX v d files gh (b :: a :: X) :=
  ⟨hM.blocksOK, hM.geom, hM.hint, owns_perm (List.Perm.append_left _ (List.Perm.swap b a X)) hM.owns, hM.tree, hM.fileOK⟩

/-- **`alloc_cluster(prev, zero)` returning `c`**, every crash point, the lost chain `[c0]` kept track of. -/
theorem alloc_mxl {s s' : FS} (hM : MedX s.vol s.dev.disk files gh ([c0] :: X)) (hn : NoFault s) (hc : Coherent s)
    {prev : Option Nat} {zero : Bool} {c : Nat} (hp : ∀ p, prev = some p → p < endCluster s.vol)
    (h : allocCluster prev zero s = (.ok c, s')) (hbfin : BlocksOK s'.dev.disk) (hfin : MXL c0 s.vol files gh.dirs s'.dev.disk) :
    CrashAll (MXL c0 s.vol files gh.dirs) s s' := by
  obtain ⟨hc2, hcE, hfree⟩ := FatOps.alloc_in_range_and_free s s' prev zero c hn hc hM.hint h
  have hcA : c ∉ (gh.G ++ [c0] :: X).flatten := fun hx => ((hM.owns.2.2 c).2 hx).2.1 hfree
  have hcG : c ∉ gh.G.flatten := fun hx => hcA (by rw [List.flatten_append]; exact List.mem_append_left _ hx)
  obtain ⟨hcr, _⟩ := CrashAlloc.alloc_crash s s' prev zero c hn hc hM.blocksOK hM.geom hM.hint hp h
  refine hcr.mono fun d hd => ?_
  rcases hd.1 with hA | ⟨hB, heof, _⟩ | ⟨hC, _⟩
  · exact fun hb => mxl_of_med (medX_within_cluster hM hb ⟨hc2, hcE⟩ hcG hA) hb
  · exact fun hb => mxl_of_med (medX_swap (medX_mark hM hb ⟨hc2, hcE⟩ hfree hB heof)) hb
  · exact mxl_view hbfin hfin hC

/-- **`write_new_directory_entry` with its crash points, the state before its last device write exposed.** -/
theorem writeNew_mxl {fs : FS} (hM : MedX fs.vol fs.dev.disk files gh ([c0] :: X)) (hn : NoFault fs) (hc : Coherent fs) {dc : Nat}
    (hv : ValidDir gh.dirs dc) (name : Bytes) (att fc : Nat) (now : Timestamp) :
    ∃ r fs' spre, writeNewDirectoryEntry dc name att fc now fs = (r, fs') ∧
      CrashAll (MXL c0 fs.vol files gh.dirs) fs spre ∧
      ((fs'.dev.wlog = spre.dev.wlog ∧ fs'.dev.disk = spre.dev.disk) ∨
        ∃ e b p, r = .ok e ∧ fs'.dev.wlog = (b, p) :: spre.dev.wlog ∧ fs'.dev.disk = spre.dev.disk.set b p) := by
  obtain ⟨hh, hcase⟩ := dir_walk_facts hM hv
  have hmx0 : MXL c0 fs.vol files gh.dirs fs.dev.disk := mxl_of_med hM
  have hrefl : CrashAll (MXL c0 fs.vol files gh.dirs) fs fs := CrashAll.same rfl rfl hmx0
  have hwrote : ∀ slot fs', Wrote name att fc now slot fs fs' →
      ∃ b p, fs'.dev.wlog = (b, p) :: fs.dev.wlog ∧ fs'.dev.disk = fs.dev.disk.set b p := by
    intro slot fs' hwr
    obtain ⟨hd', _, _, _, _, hw'⟩ := hwr
    exact ⟨_, _, hw', hd'⟩
  have hwrote' : ∀ slot fs' (e : DirEntry), Wrote name att fc now slot fs fs' →
      ∃ e' b p, (Res.ok e : Res DirEntry) = .ok e' ∧ fs'.dev.wlog = (b, p) :: fs.dev.wlog ∧ fs'.dev.disk = fs.dev.disk.set b p := by
    intro slot fs' e hwr
    obtain ⟨b, p, h1, h2⟩ := hwrote slot fs' hwr
    exact ⟨e, b, p, rfl, h1, h2⟩
  rcases hcase with ⟨hdc, h16, hsl⟩ | ⟨hkind, hnf, cs, hchain, hstart, hch, hlen, hsl⟩
  · -- the FAT16 fixed root
    subst hdc
    have := VolCrash.writeNew_fixedRoot_w fs name att fc now hn hc h16
    rw [← hsl] at this
    cases hfs : (dirSlots fs.vol fs.dev.disk gh.G (dirIdOf 4294967292)).find? isFreeSlot with
    | none =>
      rw [hfs] at this
      obtain ⟨fs', hr, hd', _, _, _, hw'⟩ := this
      exact ⟨_, fs', fs, hr, hrefl, .inl ⟨hw', hd'⟩⟩
    | some slot =>
      rw [hfs] at this
      obtain ⟨fs', hr, hwr⟩ := this
      exact ⟨_, fs', fs, hr, hrefl, .inr (hwrote' slot fs' _ hwr)⟩
  · -- a chained directory
    cases hfs : (dirSlots fs.vol fs.dev.disk gh.G (dirIdOf dc)).find? isFreeSlot with
    | some slot =>
      obtain ⟨fs', hr, hwr⟩ :=
        VolCrash.writeNew_chain_found_w fs dc cs name att fc now hn hc hkind hch (by omega) slot (by rw [← hsl]; exact hfs)
      exact ⟨_, fs', fs, hr, hrefl, .inr (hwrote' slot fs' _ hwr)⟩
    | none =>
      obtain ⟨s1, hd1, hv1, hn1, hc1, hw1, heq⟩ :=
        writeNew_chain_full_eq fs dc cs name att fc now hn hc hkind hch (by omega) (by rw [← hsl]; exact hfs)
      have hM1 : MedX s1.vol s1.dev.disk files gh ([c0] :: X) := by rw [hd1, hv1]; exact hM
      have hne : (Listing.startCluster fs.vol dc :: cs) ≠ [] := by simp
      obtain ⟨pre, hpre⟩ : ∃ pre, Listing.startCluster fs.vol dc :: cs =
          pre ++ [(Listing.startCluster fs.vol dc :: cs).getLast hne] :=
        ⟨_, (List.dropLast_append_getLast hne).symm⟩
      generalize hp : (Listing.startCluster fs.vol dc :: cs).getLast hne = p at hpre heq
      have c01 : CrashAll (MXL c0 fs.vol files gh.dirs) fs s1 := CrashAll.same hw1 hd1 hmx0
      rcases CrashStep.alloc_cases s1 (some p) true hn1 hc1 with ⟨c, s2, ha⟩ | ⟨s2, ha, ro2⟩
      · -- the directory grows
        have hcs1 : chainOf gh.G (dirHead s1.vol (dirIdOf dc)) = pre ++ [p] := by rw [hv1, hchain, hpre]
        obtain ⟨hn2, hc2, hsg, G1, hM2, hch1, hsl1, hzero, hoth, hkeep, hcR, hcnot, hheads1, hchains1⟩ :=
          grow_med hM1 hn1 hc1 hh (by rw [hv1]; exact hnf) hcs1 ha
        have hpE : p < endCluster s1.vol := by
          obtain ⟨hm, _⟩ := dirChain_spec hM1 hh (by rw [hv1]; exact hnf)
          rw [hcs1] at hm
          exact (med_inRange hM1 hm (List.mem_append_right _ (List.mem_singleton.2 rfl))).2
        have hM2' : MedX s1.vol s2.dev.disk files { vol := s1.vol, G := G1, dirs := gh.dirs } ([c0] :: X) := by
          have := med_congr hM2 hsg.symm hM1.hint hM2.blocksOK (fun _ _ => rfl) (fun _ _ => rfl)
          exact ⟨this.blocksOK, this.geom, this.hint, this.owns, this.tree, this.fileOK⟩
        have hmx2 : MXL c0 s1.vol files gh.dirs s2.dev.disk :=
          mxl_of_med (gh := { vol := s1.vol, G := G1, dirs := gh.dirs }) hM2'
        have c12 : CrashAll (MXL c0 fs.vol files gh.dirs) s1 s2 := by
          have := alloc_mxl hM1 hn1 hc1 (fun q hq => by cases hq; exact hpE) ha hM2.blocksOK hmx2
          rwa [hv1] at this
        rw [hv1] at hsg hzero
        have hbpc : s2.vol.blocksPerCluster = fs.vol.blocksPerCluster := WriteRefines.sameGeom_bpc hsg
        have hctb : clusterToBlock s2.vol c = clusterToBlock fs.vol c := WriteRefines.sameGeom_clusterToBlock hsg c
        have hpos : 0 < fs.vol.blocksPerCluster := hM.geom.bpc_pos
        have hfirst := find?_isFreeSlot_first s2.dev.disk (clusterToBlock fs.vol c) fs.vol.blocksPerCluster hpos (by
          have := hzero 0 hpos
          rw [Nat.add_zero] at this
          rw [this]; decide)
        rw [ha] at heq
        simp only at heq
        obtain ⟨k, hk⟩ : ∃ k, chainFuel fs.vol - cs.length = k + 1 :=
          ⟨chainFuel fs.vol - cs.length - 1, by unfold chainFuel; omega⟩
        rw [hk] at heq
        obtain ⟨fs', hrun', hwr⟩ := writeNewWalk_here name att fc now k
          ⟨c, clusterToBlock s2.vol c, fs.vol.blocksPerCluster, false⟩ s2 hn2 hc2 _ (by rw [hctb]; exact hfirst)
        rw [hrun'] at heq
        obtain ⟨hd', _, _, _, _, hw'⟩ := hwr
        exact ⟨_, fs', s2, heq, c01.trans c12, .inr ⟨_, _, _, rfl, hw', hd'⟩⟩
      · -- the volume is full
        rw [ha] at heq
        simp only at heq
        exact ⟨_, s2, s1, heq, c01, .inl ⟨ro2.wlog, ro2.disk⟩⟩

theorem trace_unique' {s s' : FS} {ws ws' : List (Nat × Block)} (h1 : Trace s s' ws) (h2 : Trace s s' ws') : ws = ws' := by
  rw [← h1.newWrites, h2.newWrites]

/-- **`write_new_directory_entry` under any schedule, when it does not return an entry**: the medium it leaves is a
crash point BEFORE the write of the entry — `[c0]` is still a chain nothing refers to. -/
theorem writeNew_err_mxl {fs : FS} (hM : MedX fs.vol fs.dev.disk files gh ([c0] :: X)) (hn : NoFault fs) (hc : Coherent fs)
    {dc : Nat} (hv : ValidDir gh.dirs dc) (name : Bytes) (att fc : Nat) (now : Timestamp) (L : List Nat)
    (hne : ∀ e, (writeNewDirectoryEntry dc name att fc now (Retry.setFaults L fs)).1 ≠ .ok e) :
    MXL c0 fs.vol files gh.dirs (writeNewDirectoryEntry dc name att fc now (Retry.setFaults L fs)).2.dev.disk := by
  obtain ⟨r, fs', spre, hrun, ⟨W0, htW0, hpW0⟩, hlast⟩ := writeNew_mxl hM hn hc hv name att fc now
  have hP := FaultPre.writeNewDirectoryEntry_pre dc name att fc now
  have hclr : Retry.clr (Retry.setFaults L fs) = fs := FaultInv.clr_setFaults L fs hn
  obtain ⟨_, _, hag, hhit⟩ := hP (Retry.setFaults L fs)
  rw [hclr] at hag hhit
  by_cases hq : (writeNewDirectoryEntry dc name att fc now (Retry.setFaults L fs)).2.dev.failed = (Retry.setFaults L fs).dev.failed
  · -- no device call failed: the fault-free run, which did not return an entry either
    have h0 := hag hq
    rw [hrun] at h0
    obtain ⟨hr, hfs'⟩ := Prod.mk.inj h0
    have hd : (writeNewDirectoryEntry dc name att fc now (Retry.setFaults L fs)).2.dev.disk = fs'.dev.disk := by
      rw [hfs']; rfl
    rw [hd]
    rcases hlast with ⟨_, hd'⟩ | ⟨e, _, _, he, _⟩
    · rw [hd']
      have := hpW0 W0.length
      rw [List.take_length, ← htW0.disk] at this
      exact this
    · exact absurd (hr.symm.trans he) (hne e)
  · obtain ⟨_, ⟨ws, ws', hta, htb, _⟩⟩ := hhit hq
    rw [hclr] at htb
    rw [hrun] at htb
    simp only at htb
    have hdisk : (writeNewDirectoryEntry dc name att fc now (Retry.setFaults L fs)).2.dev.disk = fs.dev.disk.applyWrites ws := hta.disk
    rw [hdisk]
    rcases hlast with ⟨hw', hd'⟩ | ⟨e, b, p, he, hw', hd'⟩
    · have hT : Trace fs fs' W0 := ⟨by rw [hw']; exact htW0.wlog, by rw [hd']; exact htW0.disk⟩
      have := trace_unique' hT htb
      have h2 := hpW0 ws.length
      rw [this, List.take_left' rfl] at h2
      exact h2
    · -- the fault-free run wrote the entry last; the faulted run missed a write
      have hT : Trace fs fs' (W0 ++ [(b, p)]) :=
        htW0.trans ⟨by rw [hw']; rfl, by rw [hd']; rfl⟩
      have hW := trace_unique' hT htb
      have hstrict := writeNew_sw dc name att fc now (Retry.setFaults L fs) hq e (by rw [hclr, hrun]; exact he) trivial
      rw [hclr, hrun, trace_wl hta, trace_wl htb] at hstrict
      simp only [List.length_append] at hstrict
      have hlen : ws.length ≤ W0.length := by
        have := congrArg List.length hW
        simp only [List.length_append, List.length_cons, List.length_nil] at this
        have h3 : WL (Retry.setFaults L fs) = WL fs := rfl
        omega
      have hpre : ws = W0.take ws.length := by
        have h1 : (W0 ++ [(b, p)]).take ws.length = ws := by rw [hW, List.take_left' rfl]
        rw [List.take_append_of_le_length hlen] at h1
        exact h1.symm
      have h2 := hpW0 ws.length
      rw [← hpre] at h2
      exact h2

end

end Sdmmc.Lemmas.FaultX
