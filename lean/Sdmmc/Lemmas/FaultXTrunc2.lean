/-
C11, arbitrary fault placement — THE TRUNCATING `open_file_in_dir` UNDER ANY SCHEDULE, part 2 (engine level): the weak
crash predicate `MFW` (`MedFault` for some chains, lost chains and size slack), `truncate_mfw` (every crash point of the
truncation of a closed file), `entryAfterTrunc_mfw` (the rewrite of its entry afterwards), and `eng_faulted_W` /
`faultInv_afterVol`: an engine call under any schedule whose crash points carry `MFW` leaves `FaultInv`.
-/
import Sdmmc.Lemmas.FaultXTrunc
import Sdmmc.Lemmas.FaultXApi
import Sdmmc.Lemmas.FaultXAlloc
import Sdmmc.Spec.VolumeFault

namespace Sdmmc.Lemmas.FaultX
open Sdmmc.Model Sdmmc.Model.Fat Sdmmc.Spec.Volume Sdmmc.Lemmas.VolBase Sdmmc.Lemmas.VolTree
open Sdmmc.Spec hiding NoFault Coherent
open Sdmmc.Lemmas.VolDisk Sdmmc.Lemmas.VolMed Sdmmc.Lemmas.VolEng Sdmmc.Lemmas.VolX Sdmmc.Lemmas.VolApi
open Sdmmc.Lemmas.FBasic (NoFault Coherent)
open Sdmmc.Lemmas.CrashBase Sdmmc.Lemmas.CrashFat Sdmmc.Lemmas.CrashContDelete
open Sdmmc.Lemmas.Retry Sdmmc.Lemmas.FaultPre Sdmmc.Lemmas.FaultInv Sdmmc.Lemmas.FaultCoh
open Sdmmc.Lemmas.Fault (Coh)

/-- **What a crash point of a truncating open may leave**: the WEAK medium invariant, for some chains, some lost chains
and some size slack. -/
def MFW (v : FatVolume) (files : List FileInfo) (dirs : List (Nat × Nat)) (d : Disk) : Prop :=
  BlocksOK d → ∃ cb G' X', MedW cb v d files { vol := v, G := G', dirs := dirs } X'

section
variable {files : List FileInfo} {gh : Ghost} {X : List (List Nat)}

theorem mfw_of_medW {cb : Nat} {v : FatVolume} {d : Disk} {X' : List (List Nat)} (hM : MedW cb v d files gh X') :
    MFW v files gh.dirs d :=
  fun _ => ⟨cb, gh.G, X', ⟨hM.blocksOK, hM.geom, hM.hint, hM.owns, hM.tree, hM.fileOK⟩⟩

theorem mfw_of_med {v : FatVolume} {d : Disk} {X' : List (List Nat)} (hM : MedX v d files gh X') : MFW v files gh.dirs d :=
  mfw_of_medW (medW_of_medX hM)

/-- **`truncate_cluster_chain` on the chain of a closed file**, every crash point. -/
theorem truncate_mfw {fs : FS} (hM : MedX fs.vol fs.dev.disk files gh X) (hn : NoFault fs) (hc : Coherent fs) {h : Nat}
    (hh : h ∈ dirIds gh.dirs) {o : Slot} (ho : o ∈ objects h (dirSlots fs.vol fs.dev.disk gh.G h)) (hod : isDirE o = false)
    (hfree : pendOf files o = none) :
    ∃ fs1, truncateClusterChain (sCluster fs.vol.fatType o) fs = (.ok (), fs1) ∧
      CrashAll (MFW fs.vol files gh.dirs) fs fs1 := by
  rcases closed_object_chain hM hh ho hod hfree with ⟨h0, _, _⟩ | ⟨h0, _, hch, hmem⟩
  · refine ⟨fs, ?_, CrashAll.same rfl rfl (mfw_of_med hM)⟩
    rw [h0]
    unfold truncateClusterChain
    rw [if_pos (by decide)]
    rfl
  · have hGs := med_heads hM
    have hhd : (chainOf gh.G (sCluster fs.vol.fatType o)).head? = some (sCluster fs.vol.fatType o) := ChainL.chain_head? hch
    obtain ⟨tail, htail⟩ : ∃ tail, chainOf gh.G (sCluster fs.vol.fatType o) = sCluster fs.vol.fatType o :: tail := by
      cases hcs : chainOf gh.G (sCluster fs.vol.fatType o) with
      | nil => rw [hcs] at hhd; cases hhd
      | cons a l =>
        rw [hcs] at hhd
        simp only [List.head?_cons, Option.some.injEq] at hhd
        exact ⟨l, by rw [hhd]⟩
    rw [htail] at hmem hch
    obtain ⟨A, B, hsplit⟩ := List.append_of_mem hmem
    obtain ⟨fs1, hrun, hcr⟩ := truncate_crash fs (sCluster fs.vol.fatType o) (sCluster fs.vol.fatType o) [] tail hn hc
      hM.blocksOK hM.geom (by simpa using hch)
    refine ⟨fs1, hrun, hcr.mono fun d hd hb => ?_⟩
    rcases hd.1 with hv | ⟨j, _, hst⟩
    · exact mfw_of_med (medX_view hM hb hv) hb
    · exact mfw_of_medW (gh := { vol := fs.vol, G := A ++ [sCluster fs.vol.fatType o] :: B, dirs := gh.dirs })
        (medW_trunc_stage hM hh ho hod hfree hsplit hb j hst) hb

/-- **An engine call under any schedule whose crash points carry the weak invariant.** -/
theorem eng_faulted_W {α : Type} {f : F α} {fs : FS} (hb0 : BlocksOK fs.dev.disk) (hn : NoFault fs) (hc : Coherent fs)
    (L : List Nat) (hpre : Pre f) (hlen : Len f) (hgeo : Geo f) (hcoh : CohT Coh f Coh)
    (hhint : HintOK (f (setFaults L fs)).2.vol) {dirs : List (Nat × Nat)}
    (hcr : CrashAll (MFW fs.vol files dirs) fs (f fs).2) :
    Coherent (f (setFaults L fs)).2 ∧ SameGeom fs.vol (f (setFaults L fs)).2.vol ∧
    ∃ cb G' X', MedW cb (f (setFaults L fs)).2.vol (f (setFaults L fs)).2.dev.disk files
      { vol := (f (setFaults L fs)).2.vol, G := G', dirs := dirs } X' := by
  have hsg : SameGeom fs.vol (f (setFaults L fs)).2.vol := hgeo (setFaults L fs)
  have hlen0 : LenInv (setFaults L fs) := by
    refine ⟨hb0, fun i hi => ?_⟩
    have : (setFaults L fs).cache.blk = fs.dev.disk.get i := hc i hi
    rw [this]; exact hb0 i
  have hb : BlocksOK (f (setFaults L fs)).2.dev.disk := (hlen _ hlen0).1
  have hcohF : Coherent (f (setFaults L fs)).2 := by
    have hc0 : Coh (setFaults L fs) := hc
    obtain ⟨h1, h2⟩ := hcoh (setFaults L fs) hc0
    cases hr : (f (setFaults L fs)).1 with
    | ok a => exact h1 a hr
    | err e => exact h2 fun a ha => by rw [hr] at ha; cases ha
    | panic m => exact h2 fun a ha => by rw [hr] at ha; cases ha
    | diverged => exact h2 fun a ha => by rw [hr] at ha; cases ha
  have hmx : MFW fs.vol files dirs (f (setFaults L fs)).2.dev.disk := by
    apply hpre.transfer (setFaults L fs)
    rw [clr_setFaults L fs hn]; exact hcr
  obtain ⟨cb, G', X', hM'⟩ := hmx hb
  refine ⟨hcohF, hsg, cb, G', X', ?_⟩
  exact medW_assemble (dw := (f (setFaults L fs)).2.dev.disk) (G0 := G') hM'.geom hsg hhint hb
    (WriteRefines.owns_sameGeom hsg hM'.owns) (fun _ _ _ => rfl) (fun _ _ _ _ => rfl) hM'.tree
    (fun g hg => ⟨fileLoose_congr hsg (hM'.fileOK g hg).1 (fun _ => by
      rcases (hM'.fileOK g hg).1.chain with ⟨_, h2, _⟩ | hch
      · exact absurd h2 (by assumption)
      · exact ForestBase.chain_transfer hch hsg.endCluster fun x _ => by rw [hsg.nextOf]), (hM'.fileOK g hg).2⟩)

end

/-- **Re-assembling `FaultInv`** after an engine call under a schedule that left the tables alone. -/
theorem faultInv_afterVol {X X' : List (List Nat)} {s : Mgr} {gh : Ghost} (hI : VolInvX X s gh) {vi : VolInfo} (hv : s.vols = [vi])
    (L : List Nat) {t : FS} {cb : Nat} {G' : List (List Nat)} (hc : Coherent t)
    (hM : MedW cb t.vol t.dev.disk s.files { vol := t.vol, G := G', dirs := gh.dirs } X') :
    FaultInv (afterVol (withFaults L s) vi t) { vol := t.vol, G := G', dirs := gh.dirs } X' := by
  refine ⟨hc, hI.unlocked, hI.maxVols, .inr ⟨_, rfl, rfl⟩, medFault_iff_medW.2 ⟨cb, hM⟩, ?_, fun di hdi => hI.openDirs di hdi⟩
  intro f hf
  obtain ⟨vi', hv', he⟩ := hI.fileVols f hf
  rw [hv] at hv'
  cases hv'
  exact ⟨_, rfl, he⟩

end Sdmmc.Lemmas.FaultX
