/-
C10 over whole API calls: what the licences of C04 (`Props/C04Hist.lean`: every device write of every covered call
is `Licensed`) give for EVERY PREFIX of the writes of a call:

* every block still has 512 bytes (`BlocksOK`): every payload is a 512-byte block;
* block 0 (partition table) and the boot sector of the volume are untouched, and the FAT32 info sector differs at
  most in its two counters (bytes 488 … 495) — hence the crashed medium MOUNTS, to a record with the same geometry
  (`Lemmas.Reopen.mount_sameGeom`).
-/
import Sdmmc.Lemmas.WriteSetInvHist
import Sdmmc.Lemmas.ReopenMount

namespace Sdmmc.Lemmas.VolCrash
open Sdmmc.Model Sdmmc.Model.Fat Sdmmc.Spec.Volume
open Sdmmc.Spec hiding NoFault Coherent run step
open Sdmmc.Lemmas.FBasic

theorem licensed_length {v : FatVolume} {d : Disk} {L : Licence} {w : Nat × Block} (h : Licensed v d L w) :
    w.2.length = 512 := by
  rcases h with h | h | h | h | h
  · exact h.2.1
  · exact h.1
  · exact h.2.1
  · exact h.2.2.2.1
  · exact h.1

/-- A licensed write to the info sector changes only bytes 488 … 495. -/
theorem licensed_info {v : FatVolume} (hg : WFGeom v) {d : Disk} {L : Licence} {w : Nat × Block} (h : Licensed v d L w)
    (h32 : v.fatType = .fat32) (hw : w.1 = v.infoLocation) :
    ∀ i, i < 488 ∨ 496 ≤ i → w.2.getD i 0 = (d.get w.1).getD i 0 := by
  have hinfo := FatLens.info_block_in_info_region v hg h32 (Reopen.fatStart_le_numBlocks v hg)
  rw [← hw] at hinfo
  rcases h with ⟨⟨c, hc, hb⟩, _⟩ | ⟨_, c, _, hr, h1, h2⟩ | ⟨h1, _⟩ | ⟨_, _, _, _, h5⟩ | ⟨_, ⟨_, _, _, c, _, _, hr, h1, h2⟩, _⟩
  · exfalso
    obtain ⟨r1, r2⟩ := FatLens.fat_blocks_in_fat_region v hg c hc
    rcases hb with hb | hb
    · rw [hb, r1] at hinfo; cases hinfo
    · rw [r2 _ hb] at hinfo; cases hinfo
  · exfalso
    have := FatLens.cluster_blocks_in_data_region v hg c (w.1 - clusterToBlock v c) hr.1 hr.2 (by omega)
    rw [show clusterToBlock v c + (w.1 - clusterToBlock v c) = w.1 by omega, hinfo] at this
    cases this
  · exfalso
    rcases h1 with h1 | h1 <;> rw [hinfo] at h1 <;> cases h1
  · exact h5
  · exfalso
    have := FatLens.cluster_blocks_in_data_region v hg c (w.1 - clusterToBlock v c) hr.1 hr.2 (by omega)
    rw [show clusterToBlock v c + (w.1 - clusterToBlock v c) = w.1 by omega, hinfo] at this
    cases this

/-- What holds of the medium after any prefix of a licensed list of writes. -/
structure PrefixOK (v : FatVolume) (d dk : Disk) : Prop where
  blocksOK : BlocksOK dk
  block0 : dk.get 0 = d.get 0
  boot : dk.get v.lbaStart = d.get v.lbaStart
  info : v.fatType = .fat32 → ∀ i, i < 488 ∨ 496 ≤ i → (dk.get v.infoLocation).getD i 0 = (d.get v.infoLocation).getD i 0

theorem allLicensed_prefix {v : FatVolume} (hg : WFGeom v) {L : Licence} :
    ∀ (ws : List (Nat × Block)) (d : Disk), AllLicensed v d L ws → BlocksOK d → ∀ k, PrefixOK v d (d.applyWrites (ws.take k))
  | [], d, _, hb, k => by
    rw [List.take_nil]
    exact ⟨hb, rfl, rfl, fun _ _ _ => rfl⟩
  | w :: ws, d, h, hb, 0 => by
    rw [List.take_zero]
    exact ⟨hb, rfl, rfl, fun _ _ _ => rfl⟩
  | w :: ws, d, h, hb, k + 1 => by
    rw [List.take_succ_cons, Disk.applyWrites_cons]
    have hl := licensed_length h.1
    obtain ⟨_, _, hlt, h0⟩ := WriteSet.licensed_in_region v hg d L w h.1
    have ih := allLicensed_prefix hg ws (d.set w.1 w.2) h.2 (FatOps.blocksOK_set _ _ _ hb hl) k
    refine ⟨ih.blocksOK, ?_, ?_, fun h32 i hi => ?_⟩
    · rw [ih.block0, Disk.get_set_ne _ _ _ _ h0]
    · rw [ih.boot, Disk.get_set_ne _ _ _ _ (by omega)]
    · rw [ih.info h32 i hi]
      by_cases hw : w.1 = v.infoLocation
      · rw [← hw, Disk.get_set_self]
        exact licensed_info hg h.1 h32 hw i hi
      · rw [Disk.get_set_ne _ _ _ _ hw]

/-- A medium that satisfies `PrefixOK` relative to a medium that mounts, mounts — with the same geometry. -/
theorem PrefixOK.mounts {v : FatVolume} {d dk : Disk} (h : PrefixOK v d dk) (idx : Nat) (vm : FatVolume)
    (hm : mountPure (d.get 0) idx d.get = .ok vm) (hsg : SameGeom vm v) :
    ∃ w, mountPure (dk.get 0) idx dk.get = .ok w ∧ SameGeom v w := by
  obtain ⟨a, b, rfl⟩ := hsg
  obtain ⟨w, hw, hsw⟩ := Reopen.mount_sameGeom d dk idx vm hm h.block0 h.boot (fun h32 i hi => h.info h32 i hi)
  obtain ⟨a', b', rfl⟩ := hsw.cases
  exact ⟨_, hw, ⟨a', b', rfl⟩⟩

end Sdmmc.Lemmas.VolCrash
