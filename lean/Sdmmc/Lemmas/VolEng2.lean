/-
Volume invariant (C03), layer 2 (engine): `update_info_sector` and `write_entry_to_disk` of an open
file's record (flush) preserve the invariant.
-/
import Sdmmc.Lemmas.VolEng
import Sdmmc.Lemmas.VolMed4
import Sdmmc.Lemmas.DirEntryIO

namespace Sdmmc.Lemmas.VolEng
open Sdmmc.Model Sdmmc.Model.Fat Sdmmc.Spec.Volume Sdmmc.Lemmas.VolBase Sdmmc.Lemmas.VolTree
open Sdmmc.Spec hiding NoFault Coherent
open Sdmmc.Lemmas.VolDisk Sdmmc.Lemmas.VolMed Sdmmc.Lemmas.VolWalk
open Sdmmc.Lemmas.FBasic

/-- `write_entry_to_disk e` on a fault-free coherent state: the entry's block with the 32 bytes of the
slot replaced is written. -/
theorem writeEntryToDisk_exact (fs : FS) (e : DirEntry) (hn : NoFault fs) (hc : Coherent fs) :
    ∃ fs', writeEntryToDisk e fs = (.ok (), fs') ∧
      fs'.dev.disk = fs.dev.disk.set e.entryBlock
        (splice (fs.dev.disk.get e.entryBlock) e.entryOffset (DirEntry.serialize fs.vol.fatType e)) ∧
      fs'.vol = fs.vol ∧ NoFault fs' ∧ Coherent fs' := by
  unfold writeEntryToDisk
  simp only [bind_apply, getVol_apply, cacheRead_eq' _ _ hn hc, cacheModify_apply, afterRead_cache]
  generalize hs1 : ({
      dev := (afterRead e.entryBlock fs).dev,
      cache := {
        tag := some e.entryBlock,
        blk := splice (fs.dev.disk.get e.entryBlock) e.entryOffset (DirEntry.serialize fs.vol.fatType e) },
      vol := (afterRead e.entryBlock fs).vol } : FS) = s1
  have hn1 : NoFault s1 := by subst hs1; exact hn
  have ht1 : s1.cache.tag = some e.entryBlock := by subst hs1; rfl
  rw [writeBack_eq s1 e.entryBlock hn1 ht1]
  refine ⟨_, rfl, ?_, ?_, ?_, ?_⟩
  · subst hs1; rfl
  · subst hs1; rfl
  · subst hs1; exact hn
  · subst hs1
    intro i hi
    have : e.entryBlock = i := Option.some.inj hi
    subst this
    exact (Disk.get_set_self _ _ _).symm

section
variable {files : List FileInfo} {gh : Ghost} {X : List (List Nat)}

/-- `update_info_sector` keeps the invariant (it writes at most the FAT32 information sector). -/
theorem updateInfo_med {fs : FS} (hM : MedX fs.vol fs.dev.disk files gh X) (hn : NoFault fs) (hc : Coherent fs) :
    ∃ fs', updateInfoSector fs = (.ok (), fs') ∧ NoFault fs' ∧ Coherent fs' ∧ fs'.vol = fs.vol ∧
      MedX fs'.vol fs'.dev.disk files gh X := by
  obtain ⟨fs', h, hn', hc', hv, hb', hother, _, hcase⟩ := DirEntryIO.updateInfoSector_state fs hn hc hM.blocksOK
  refine ⟨fs', h, hn', hc', hv, ?_⟩
  rw [hv]
  have hinfo : ∀ i, regionOf fs.vol i = .fat ∨ regionOf fs.vol i = .data ∨ regionOf fs.vol i = .root →
      fs'.dev.disk.get i = fs.dev.disk.get i := by
    intro i hi
    rcases hcase with ⟨_, hd⟩ | ⟨h32, _⟩
    · rw [hd]
    · apply hother
      intro e
      have hgf := FatLens.geom_facts fs.vol hM.geom
      have := FatLens.info_block_in_info_region fs.vol hM.geom h32 (by
        have := FatLens.fatsEnd_ge fs.vol hM.geom
        omega)
      rw [← e, ] at this
      rcases hi with hi | hi | hi <;> rw [hi] at this <;> cases this
  apply med_congr hM (SameGeom.refl _) hM.hint hb'
  · intro c hcl
    exact hinfo _ (.inl (FatLens.fat_blocks_in_fat_region fs.vol hM.geom c hcl).1)
  · intro h hh
    apply dirSlots_congr
    intro s hs
    rcases dirSlot_not_fat hM hh hs with h1 | h1
    · exact hinfo _ (.inr (.inl h1))
    · exact hinfo _ (.inr (.inr h1))

/-- Facts about the record of an open file of a sound volume. -/
theorem file_record_facts {v : FatVolume} {d : Disk} (hM : MedX v d files gh X) {f : FileInfo} (hf : f ∈ files) :
    (match v.fatType with | .fat16 => f.entry.cluster < 65536 | .fat32 => f.entry.cluster < 4294967296) ∧
    f.entry.size < 4294967296 := by
  constructor
  · obtain ⟨hok, _⟩ := hM.fileOK f hf
    have hlt : f.entry.cluster < endCluster v := by
      rcases hok.chain with ⟨h2, _⟩ | hch
      · have := hM.geom.count_bound
        have h0 : 2 ≤ endCluster v := by unfold endCluster; show 2 ≤ v.clusterCount + 2; omega
        omega
      · exact (ChainL.chain_inRange hch _ (ForestBase.chain_head_mem hch)).2
    have := hM.geom.count_bound
    cases hft : v.fatType <;> rw [hft] at this <;> simp only at this ⊢ <;> omega
  · have := (hM.tree.fileAttrs f hf).2.2.2
    have hm : Gen.MAX_FILE_SIZE = 4294967295 := rfl
    omega

/-- **Flush**: `write_entry_to_disk` of the record of an open file.  The invariant is kept, and afterwards
the slot the file sits at carries the record's cluster and size. -/
theorem flush_med {fs : FS} (hM : MedX fs.vol fs.dev.disk files gh X) (hn : NoFault fs) (hc : Coherent fs)
    {f : FileInfo} (hf : f ∈ files) :
    ∃ fs', writeEntryToDisk f.entry fs = (.ok (), fs') ∧ NoFault fs' ∧ Coherent fs' ∧ fs'.vol = fs.vol ∧
      MedX fs'.vol fs'.dev.disk files gh X ∧
      (∀ h, h ∈ dirIds gh.dirs → ∀ o, o ∈ objects h (dirSlots fs'.vol fs'.dev.disk gh.G h) → spos o = fkey f →
        sCluster fs.vol.fatType o = f.entry.cluster ∧ sSize o = f.entry.size) := by
  obtain ⟨fs', hrun, hd', hv', hn', hc'⟩ := writeEntryToDisk_exact fs f.entry hn hc
  refine ⟨fs', hrun, hn', hc', hv', ?_⟩
  rw [hv', hd']
  obtain ⟨h, hh, A, o, B, hO, hpo, hod, hnm, hcl, hp⟩ := file_object hM.tree hf
  have ho : o ∈ objects h (dirSlots fs.vol fs.dev.disk gh.G h) := by rw [hO]; simp
  obtain ⟨pre, post, hsp, hpre, hlen, hnz, hkeep⟩ := object_split hM hh ho
  have hmem : o ∈ dirSlots fs.vol fs.dev.disk gh.G h := by rw [hsp]; simp
  have hol := mem_dirSlots_length hM.blocksOK hmem
  have hname : f.entry.name.length = 11 := by
    rw [← hnm]; unfold sName; rw [List.length_take, hol]; rfl
  obtain ⟨hp1, hp2⟩ := Prod.mk.inj hpo
  obtain ⟨hcb, hsb⟩ := file_record_facts hM hf
  obtain ⟨ha1, ha2, ha3, _⟩ := hM.tree.fileAttrs f hf
  set bytes := DirEntry.serialize fs.vol.fatType f.entry with hbytes
  have hbl : bytes.length = 32 := VolDisk.serialize_length _ _ hname
  -- the fields of the new slot
  have hfirst : first (o.1, o.2.1, bytes) = first o := by
    rw [serialize_first _ _ _ _ hname, ← hnm]
    unfold first sName byteAt
    cases hb : o.2.2 with
    | nil => rfl
    | cons a l => rfl
  have hattr : sAttr (o.1, o.2.1, bytes) = f.entry.attributes := serialize_sAttr _ _ _ _ hname ha1
  have hE := slotEdit_write hM hh hsp hpre hlen bytes hbl (by rw [hfirst]; exact hnz)
  rw [← hp1, ← hp2]
  have hnewkeep : keep (o.1, o.2.1, bytes) = true := by
    unfold keep at hkeep ⊢
    unfold isFrag at hkeep ⊢
    rw [hfirst, hattr]
    simp only [Bool.and_eq_true, decide_eq_true_eq, Bool.not_eq_true', decide_eq_false_iff_not] at hkeep ⊢
    exact ⟨hkeep.1, ha2⟩
  have hnewdir : isDirE (o.1, o.2.1, bytes) = false := by
    unfold isDirE; rw [hattr]; simp [ha3]
  have hpnew : pendOf files (o.1, o.2.1, bytes) = some f := by rw [← hp]; exact pendOf_pos files _ _ rfl
  have hscl : sCluster fs.vol.fatType (o.1, o.2.1, bytes) = f.entry.cluster := serialize_sCluster _ _ _ _ hname hcb
  have hssz : sSize (o.1, o.2.1, bytes) = f.entry.size := serialize_sSize _ _ _ _ hname hsb
  have htree := tree_replace (G' := gh.G) hM.tree (med_heads hM) hE ⟨hnz, hkeep⟩ hod hnewkeep hnewdir rfl
    (by rw [serialize_sName _ _ _ _ hname, hnm]) (fun _ _ _ => Nat.le_refl _)
    (by intro a; rw [fileRefs_single_file hnewdir hpnew, fileRefs_single_file hod hp])
    (by
      have := hM.tree.sizes h hh o ho hod
      unfold SizeOK
      rw [effCluster_of_pend hpnew, effSize_of_pend hpnew]
      rwa [effCluster_of_pend hp, effSize_of_pend hp] at this)
    (by
      intro g hg _
      rw [hp] at hg
      cases hg
      exact ⟨hscl, hssz⟩)
  obtain ⟨hb', hfat', hsl', hoth'⟩ := slot_write hM hh hsp bytes hbl
  have hM' := medX_rebuild hM hb' hfat' (gh' := gh) rfl htree hM.fileOK
  refine ⟨hM', ?_⟩
  intro h' hh' o' ho' hpo'
  have ho'm := mem_of_mem_objects ho'
  have hnewm : ((o.1, o.2.1, bytes) : Slot) ∈
      dirSlots fs.vol (fs.dev.disk.set o.1 (splice (fs.dev.disk.get o.1) o.2.1 bytes)) gh.G h := by
    rw [hsl']; simp
  have hsame : spos o' = spos ((o.1, o.2.1, bytes) : Slot) := hpo'.trans hpo.symm
  have hhh : h' = h := by
    by_contra hne
    exact dirSlots_pos_disjoint hM hh' hh hne _ _ ho'm hnewm hsame
  subst hhh
  have := List.inj_on_of_nodup_map (dirSlots_pos_nodup hM hh' _) ho'm hnewm hsame
  rw [this]
  exact ⟨hscl, hssz⟩

end

end Sdmmc.Lemmas.VolEng
