/-
Lemmas for C13, part 7: SPI errors.  To talk about "some transaction failed during this call"
the bus is wrapped in a recorder: `recBus B` behaves exactly like `B` on the `σ` component and
additionally keeps the transcript of all transactions (request, answer), newest first.
-/
import Sdmmc.Lemmas.SdNoPanic

namespace Sdmmc.Lemmas.Sd
open Sdmmc.Model Sdmmc.Model.Sd Sdmmc.Gen

variable {σ : Type} {α β : Type}

/-- Same body as `Sdmmc.Props.C13.Transcript`. -/
abbrev Transcript := List (Bytes × Option Bytes)

/-- Same body as `Sdmmc.Props.C13.recBus`. -/
def recBus (B : BusOps σ) : BusOps (σ × Transcript) where
  xfer := fun st out =>
    let (b', r) := B.xfer st.1 out
    ((b', (out, r) :: st.2), r)
  delay := fun st => (B.delay st.1, st.2)

/-- Number of failed transactions in a transcript.  Same body as `Sdmmc.Props.C13.spiFailures`. -/
def spiFailures (t : Transcript) : Nat := (t.filter fun x => x.2.isNone).length

/-- Failed transactions so far. -/
def fails (s : St (σ × Transcript)) : Nat := spiFailures s.bus.2

/-- If any transaction fails while `m` runs, `m` returns `Transport`. -/
def SpiStrict (m : S (σ × Transcript) α) : Prop :=
  ∀ s, fails s ≤ fails (m s).2 ∧ (fails s < fails (m s).2 → (m s).1 = .err .Transport)

/-- If any transaction fails while `m` runs, `m` returns an error. -/
def SpiWeak (m : S (σ × Transcript) α) : Prop :=
  ∀ s, fails s ≤ fails (m s).2 ∧ (fails s < fails (m s).2 → ∃ e, (m s).1 = .err e)

theorem SpiStrict.weak {m : S (σ × Transcript) α} (h : SpiStrict m) : SpiWeak m :=
  fun s => ⟨(h s).1, fun hl => ⟨_, (h s).2 hl⟩⟩

namespace SpiStrict
theorem pure (a : α) : SpiStrict (pure a : S (σ × Transcript) α) := fun s => by simp
theorem fail (e : SdErr) : SpiStrict (S.fail e : S (σ × Transcript) α) := fun s => by simp
theorem lift (r : SRes α) : SpiStrict (S.lift r : S (σ × Transcript) α) := fun s => by simp
theorem get : SpiStrict (S.get : S (σ × Transcript) _) := fun s => by simp
theorem bind {m : S (σ × Transcript) α} {f : α → S (σ × Transcript) β}
    (hm : SpiStrict m) (hf : ∀ a, SpiStrict (f a)) : SpiStrict (m >>= f) := by
  intro s
  have h1 := hm s
  rw [bind_apply]
  rcases hms : m s with ⟨r, s'⟩
  rw [hms] at h1
  cases r with
  | ok a =>
    have h2 := hf a s'
    simp only at h1 ⊢
    have : fails s' = fails s := by
      rcases Nat.lt_or_ge (fails s) (fails s') with h | h
      · exact absurd (h1.2 h) (by simp)
      · omega
    rw [← this]; exact h2
  | err e => simpa using h1
  | panic p => simpa using h1
theorem ite {c : Prop} [Decidable c] {m1 m2 : S (σ × Transcript) α} (h1 : SpiStrict m1) (h2 : SpiStrict m2) :
    SpiStrict (if c then m1 else m2) := by split <;> assumption
end SpiStrict

namespace SpiWeak
theorem bind {m : S (σ × Transcript) α} {f : α → S (σ × Transcript) β}
    (hm : SpiWeak m) (hf : ∀ a, SpiWeak (f a)) : SpiWeak (m >>= f) := by
  intro s
  have h1 := hm s
  rw [bind_apply]
  rcases hms : m s with ⟨r, s'⟩
  rw [hms] at h1
  cases r with
  | ok a =>
    have h2 := hf a s'
    simp only at h1 ⊢
    have : fails s' = fails s := by
      rcases Nat.lt_or_ge (fails s) (fails s') with h | h
      · obtain ⟨e, he⟩ := h1.2 h; cases he
      · omega
    rw [← this]; exact h2
  | err e => simpa using h1.1
  | panic p => simpa using h1
end SpiWeak

variable (B : BusOps σ)

theorem xferEv_spi (ev : Event) : SpiStrict (xferEv (recBus B) ev) := by
  intro s
  rcases h : B.xfer s.bus.1 ev.bytes with ⟨b', r⟩
  cases r <;> simp [xferEv, recBus, fails, spiFailures, h]

theorem readByte_spi : SpiStrict (readByte (recBus B)) := by
  intro s
  rcases h : B.xfer s.bus.1 [0xFF] with ⟨b', r⟩
  cases r <;> simp [readByte, recBus, fails, spiFailures, h]

theorem delayTick_spi : SpiStrict (delayTick (recBus B)) := by
  intro s; simp [delayTick, recBus, fails]

/-- Apply the structural rules of `SpiStrict` and the given facts about sub-computations. -/
syntax "spi_tac" "[" term,* "]" : tactic
macro_rules
  | `(tactic| spi_tac [$ts,*]) =>
    `(tactic| (
        try dsimp only
        repeat (with_reducible first
          | exact SpiStrict.pure _ | exact SpiStrict.fail _ | exact SpiStrict.lift _ | exact SpiStrict.get
          $[| exact $ts]*
          | apply SpiStrict.bind
          | apply SpiStrict.ite
          | intro _
          | split
          | contradiction)))

theorem writeByte_spi (x : UInt8) : SpiStrict (writeByte (recBus B) x) := by
  unfold writeByte; spi_tac [xferEv_spi B _]

theorem waitNotBusy_spi (n : Nat) : SpiStrict (waitNotBusy (recBus B) n) := by
  induction n with
  | zero => unfold waitNotBusy; spi_tac [readByte_spi B]
  | succ n ih => unfold waitNotBusy; spi_tac [readByte_spi B, delayTick_spi B, ih]

theorem waitResponse_spi (c n : Nat) : SpiStrict (waitResponse (recBus B) c n) := by
  induction n with
  | zero => unfold waitResponse; spi_tac [readByte_spi B]
  | succ n ih => unfold waitResponse; spi_tac [readByte_spi B, delayTick_spi B, ih]

theorem waitToken_spi (n : Nat) : SpiStrict (waitToken (recBus B) n) := by
  induction n with
  | zero => unfold waitToken; spi_tac [readByte_spi B]
  | succ n ih => unfold waitToken; spi_tac [readByte_spi B, delayTick_spi B, ih]

theorem cardCommand_spi (c arg : Nat) : SpiStrict (cardCommand (recBus B) c arg) := by
  unfold cardCommand
  spi_tac [waitNotBusy_spi B _, waitResponse_spi B _ _, readByte_spi B, xferEv_spi B _]

theorem cardAcmd_spi (c arg : Nat) : SpiStrict (cardAcmd (recBus B) c arg) := by
  unfold cardAcmd; spi_tac [cardCommand_spi B _ _]

theorem readData_spi (len : Nat) : SpiStrict (readData (recBus B) len) := by
  unfold readData
  spi_tac [waitToken_spi B _, xferEv_spi B _]

theorem writeData_spi (tok : Nat) (buf : Bytes) : SpiStrict (writeData (recBus B) tok buf) := by
  unfold writeData
  spi_tac [writeByte_spi B _, xferEv_spi B _, readByte_spi B]

theorem flushBytes_spi (n : Nat) : SpiStrict (flushBytes (recBus B) n) := by
  induction n with
  | zero => unfold flushBytes; spi_tac []
  | succ n ih => unfold flushBytes; spi_tac [writeByte_spi B _, ih]

theorem readBlocks_spi (n : Nat) : SpiStrict (readBlocks (recBus B) n) := by
  induction n with
  | zero => unfold readBlocks; spi_tac []
  | succ n ih => unfold readBlocks; spi_tac [readData_spi B _, ih]

theorem writeBlocks_spi (l : List Bytes) : SpiStrict (writeBlocks (recBus B) l) := by
  induction l with
  | nil => unfold writeBlocks; spi_tac []
  | cons b rest ih => unfold writeBlocks; spi_tac [waitNotBusy_spi B _, writeData_spi B _ _, ih]

theorem checkVersionStep_spi (next : Option (S _ (CardType × Nat))) (hn : ∀ k, next = some k → SpiStrict k) :
    SpiStrict (checkVersionStep (recBus B) next) := by
  cases next with
  | none => unfold checkVersionStep; spi_tac [cardCommand_spi B _ _, xferEv_spi B _]
  | some k =>
    have := hn k rfl
    unfold checkVersionStep
    spi_tac [cardCommand_spi B _ _, xferEv_spi B _, delayTick_spi B, this]

theorem checkVersion_spi (n : Nat) : SpiStrict (checkVersion (recBus B) n) := by
  induction n with
  | zero => unfold checkVersion; exact checkVersionStep_spi B none (by simp)
  | succ n ih =>
    unfold checkVersion
    exact checkVersionStep_spi B _ (fun k hk => by cases hk; exact ih)

theorem waitReadyStep_spi (arg : Nat) (next : Option (S _ Unit)) (hn : ∀ k, next = some k → SpiStrict k) :
    SpiStrict (waitReadyStep (recBus B) arg next) := by
  cases next with
  | none => unfold waitReadyStep; spi_tac [cardAcmd_spi B _ _]
  | some k =>
    have := hn k rfl
    unfold waitReadyStep; spi_tac [cardAcmd_spi B _ _, delayTick_spi B, this]

theorem waitReady_spi (arg n : Nat) : SpiStrict (waitReady (recBus B) arg n) := by
  induction n with
  | zero => unfold waitReady; exact waitReadyStep_spi B arg none (by simp)
  | succ n ih =>
    unfold waitReady
    exact waitReadyStep_spi B arg _ (fun k hk => by cases hk; exact ih)

theorem stopWrite_spi : SpiStrict (stopWrite (recBus B)) := by
  unfold stopWrite
  spi_tac [waitNotBusy_spi B _, writeByte_spi B _, readByte_spi B]

/-- A single-block write reports any SPI error as `Transport`. -/
theorem write1_spi (b : Bytes) (idx : Nat) : SpiStrict (write (recBus B) [b] idx) := by
  unfold write
  spi_tac [cardCommand_spi B _ _, waitNotBusy_spi B _, writeData_spi B _ _, readByte_spi B]

theorem readCsd_spi : SpiStrict (readCsd (recBus B)) := by
  unfold readCsd
  spi_tac [cardCommand_spi B _ _, readData_spi B _]

theorem numBlocks_spi : SpiStrict (numBlocks (recBus B)) := by
  unfold numBlocks; spi_tac [readCsd_spi B]

theorem numBytes_spi : SpiStrict (numBytes (recBus B)) := by
  unfold numBytes; spi_tac [readCsd_spi B]


/-! ### The functions that catch an error (`attempt`) -/

theorem SpiStrict.attempt_bind {m : S (σ × Transcript) α} {g : SRes α → S (σ × Transcript) β}
    (hm : SpiStrict m) (hg : ∀ r, SpiStrict (g r))
    (ht : ∀ s, (g (.err .Transport) s).1 = .err .Transport) : SpiStrict (S.attempt m >>= g) := by
  intro s
  have h1 := hm s
  rw [bind_apply, attempt_apply]
  simp only
  have h2 := hg (m s).1 (m s).2
  rcases Nat.lt_or_ge (fails s) (fails (m s).2) with h | h
  · have hr := h1.2 h
    refine ⟨by omega, fun _ => ?_⟩
    rw [hr]; exact ht _
  · have : fails (m s).2 = fails s := by omega
    rw [← this]; exact h2

theorem SpiWeak.attempt_bind {m : S (σ × Transcript) α} {g : SRes α → S (σ × Transcript) β}
    (hm : SpiWeak m) (hp : NoPanic m) (hg : ∀ r, (∀ p, r ≠ .panic p) → SpiWeak (g r))
    (ht : ∀ e s, ∃ e', (g (.err e) s).1 = .err e') : SpiWeak (S.attempt m >>= g) := by
  intro s
  have h1 := hm s
  rw [bind_apply, attempt_apply]
  simp only
  have h2 := hg (m s).1 (hp s) (m s).2
  rcases Nat.lt_or_ge (fails s) (fails (m s).2) with h | h
  · obtain ⟨e, hr⟩ := h1.2 h
    refine ⟨by omega, fun _ => ?_⟩
    rw [hr]; exact ht _ _
  · have : fails (m s).2 = fails s := by omega
    rw [← this]; exact h2

theorem enterSpiModeStep_spi (next : Option (S (σ × Transcript) Unit)) (hn : ∀ k, next = some k → SpiStrict k) :
    SpiStrict (enterSpiModeStep (recBus B) next) := by
  unfold enterSpiModeStep
  refine SpiStrict.attempt_bind (cardCommand_spi B _ _) (fun r => ?_) (fun s => by simp)
  cases next with
  | none => spi_tac [flushBytes_spi B _]
  | some k =>
    have := hn k rfl
    spi_tac [flushBytes_spi B _, delayTick_spi B, this]

theorem enterSpiMode_spi (n : Nat) : SpiStrict (enterSpiMode (recBus B) n) := by
  induction n with
  | zero => unfold enterSpiMode; exact enterSpiModeStep_spi B none (by simp)
  | succ n ih =>
    unfold enterSpiMode
    exact enterSpiModeStep_spi B _ (fun k hk => by cases hk; exact ih)

theorem setCardType_spi (ct : CardType) : SpiStrict (setCardType ct : S (σ × Transcript) Unit) :=
  fun s => by simp [setCardType, fails]

theorem acquireBody_spi : SpiStrict (acquireBody (recBus B)) := by
  rw [acquireBody_eq]
  spi_tac [enterSpiMode_spi B _, cardCommand_spi B _ _, checkVersion_spi B _, waitReady_spi B _ _,
    xferEv_spi B _, setCardType_spi _]

theorem failUninit_spiWeak (e : SdErr) : SpiWeak (failUninit e : S (σ × Transcript) α) :=
  fun s => by simp [fails]

/-- An SPI error anywhere in `acquire` makes it fail. -/
theorem acquire_spiWeak : SpiWeak (acquire (recBus B)) := by
  rw [acquire_eq]
  refine SpiWeak.attempt_bind (acquireBody_spi B).weak (acquireBody_nopanic _) (fun r hr => ?_)
    (fun e s => ⟨e, by simp⟩)
  cases r with
  | panic q => exact absurd rfl (hr q)
  | err e1 =>
    refine SpiWeak.attempt_bind (readByte_spi B).weak (readByte_nopanic _) (fun t _ => failUninit_spiWeak e1)
      (fun e s => ⟨e1, by simp⟩)
  | ok u =>
    refine SpiWeak.attempt_bind (readByte_spi B).weak (readByte_nopanic _) (fun t ht => ?_)
      (fun e s => ⟨e, by simp⟩)
    cases t with
    | ok g => exact (SpiStrict.pure _).weak
    | err e => exact failUninit_spiWeak e
    | panic p => exact absurd rfl (ht p)

/-- Exactly which error: `Transport`, unless the closure of `acquire` had already failed with
its own error and only the trailing byte hit the SPI error. -/
theorem acquire_spi_exact (s : St (σ × Transcript)) (h : fails s < fails (acquire (recBus B) s).2) :
    (acquire (recBus B) s).1 = .err .Transport ∨
    ∃ e, (acquireBody (recBus B) s).1 = .err e ∧ (acquire (recBus B) s).1 = .err e := by
  have hb := acquireBody_spi B s
  have hnp := acquireBody_nopanic (recBus B) s
  revert h
  rw [acquire_eq]
  simp only [bind_apply, attempt_apply]
  rcases hab : acquireBody (recBus B) s with ⟨r1, s1⟩
  rw [hab] at hb hnp
  have ht := readByte_spi B s1
  have htp := readByte_nopanic (recBus B) s1
  rcases hrb : readByte (recBus B) s1 with ⟨t1, s2⟩
  rw [hrb] at ht htp
  simp only at hb ht hnp htp
  cases r1 with
  | panic q => exact absurd rfl (hnp q)
  | err e => intro _; exact Or.inr ⟨e, rfl, by simp⟩
  | ok u =>
    cases t1 with
    | panic q => exact absurd rfl (htp q)
    | err e =>
      intro h
      simp [fails] at h
      have h1 : fails s1 = fails s := by
        rcases Nat.lt_or_ge (fails s) (fails s1) with h' | h'
        · exact absurd (hb.2 h') (by simp)
        · have := hb.1; omega
      have h2 : fails s1 < fails s2 := by unfold fails at *; omega
      left; simpa using ht.2 h2
    | ok g =>
      intro h
      simp [fails] at h
      have h1 : fails s1 = fails s := by
        rcases Nat.lt_or_ge (fails s) (fails s1) with h' | h'
        · exact absurd (hb.2 h') (by simp)
        · have := hb.1; omega
      have h2 : fails s1 < fails s2 := by unfold fails at *; omega
      exact absurd (ht.2 h2) (by simp)

theorem checkInit_spiWeak : SpiWeak (checkInit (recBus B)) := by
  unfold checkInit
  intro s
  rw [bind_ok (get_apply s)]
  split
  · exact acquire_spiWeak B s
  · simp

/-- Multi-block reads catch the error of the block loop to send CMD12. -/
theorem read_spiWeak (n idx : Nat) : SpiWeak (Sd.read (recBus B) n idx) := by
  unfold Sd.read
  refine SpiWeak.bind SpiStrict.get.weak fun s => SpiWeak.bind (SpiStrict.lift _).weak fun start => ?_
  split
  · refine SpiStrict.weak ?_
    spi_tac [cardCommand_spi B _ _, readData_spi B _]
  · refine SpiWeak.bind (cardCommand_spi B _ _).weak fun _ => ?_
    refine SpiWeak.attempt_bind (readBlocks_spi B _).weak (readBlocks_nopanic _ _) (fun r hr => ?_)
      (fun e s => ⟨e, by simp⟩)
    cases r with
    | panic q => exact absurd rfl (hr q)
    | err e =>
      exact SpiWeak.attempt_bind (cardCommand_spi B _ _).weak (cardCommand_nopanic _ _ _)
        (fun t _ => (SpiStrict.fail e).weak) (fun e' s => ⟨e, by simp⟩)
    | ok bs =>
      refine SpiWeak.attempt_bind (cardCommand_spi B _ _).weak (cardCommand_nopanic _ _ _)
        (fun t ht => ?_) (fun e' s => ⟨e', by simp⟩)
      cases t with
      | ok g => exact (SpiStrict.pure _).weak
      | err e => exact (SpiStrict.fail e).weak
      | panic p => exact absurd rfl (ht p)

/-- A `write` of any number of blocks reports any SPI error as an error.  (A multiple-block write
whose block loop failed with an error of its own and whose stop sequence then hit an SPI error
returns the loop's error, as the multiple-block read does.) -/
theorem write_spiWeak (blocks : List Bytes) (idx : Nat) : SpiWeak (write (recBus B) blocks idx) := by
  unfold write
  refine SpiWeak.bind SpiStrict.get.weak fun s => SpiWeak.bind (SpiStrict.lift _).weak fun start => ?_
  split
  · refine SpiStrict.weak ?_
    spi_tac [cardCommand_spi B _ _, waitNotBusy_spi B _, writeData_spi B _ _, readByte_spi B]
  · refine SpiWeak.bind (cardAcmd_spi B _ _).weak fun _ => SpiWeak.bind (waitNotBusy_spi B _).weak fun _ =>
      SpiWeak.bind (cardCommand_spi B _ _).weak fun _ => ?_
    refine SpiWeak.attempt_bind (writeBlocks_spi B _).weak (writeBlocks_nopanic _ _) (fun r hr => ?_)
      (fun e s => ⟨e, by simp⟩)
    cases r with
    | panic q => exact absurd rfl (hr q)
    | err e =>
      exact SpiWeak.attempt_bind (stopWrite_spi B).weak (stopWrite_nopanic _)
        (fun t _ => (SpiStrict.fail e).weak) (fun e' s => ⟨e, by simp⟩)
    | ok u =>
      refine SpiWeak.attempt_bind (stopWrite_spi B).weak (stopWrite_nopanic _)
        (fun t ht => ?_) (fun e' s => ⟨e', by simp⟩)
      cases t with
      | ok g => exact (SpiStrict.pure _).weak
      | err e => exact (SpiStrict.fail e).weak
      | panic p => exact absurd rfl (ht p)

theorem read1_spi (idx : Nat) : SpiStrict (Sd.read (recBus B) 1 idx) := by
  unfold Sd.read
  simp only [↓reduceIte]
  spi_tac [cardCommand_spi B _ _, readData_spi B _]

/-- The operation part of a call (everything after `check_init`). -/
theorem call_spiWeak (c : Call) (hc : c ≠ .cardType) : SpiWeak (call (recBus B) c) := by
  cases c with
  | read n idx =>
    unfold call
    exact SpiWeak.bind (checkInit_spiWeak B) fun _ => SpiWeak.bind (read_spiWeak B _ _) fun _ => (SpiStrict.pure _).weak
  | write blocks idx =>
    unfold call
    exact SpiWeak.bind (checkInit_spiWeak B) fun _ => SpiWeak.bind (write_spiWeak B _ _) fun _ => (SpiStrict.pure _).weak
  | numBlocks =>
    unfold call
    exact SpiWeak.bind (checkInit_spiWeak B) fun _ => SpiWeak.bind (numBlocks_spi B).weak fun _ => (SpiStrict.pure _).weak
  | numBytes =>
    unfold call
    exact SpiWeak.bind (checkInit_spiWeak B) fun _ => SpiWeak.bind (numBytes_spi B).weak fun _ => (SpiStrict.pure _).weak
  | cardType => exact absurd rfl hc
  | markUninit => unfold call; intro s; simp [fails]

end Sdmmc.Lemmas.Sd
