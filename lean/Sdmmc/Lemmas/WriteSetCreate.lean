/-
C04 over whole calls, `write_new_directory_entry` (engine level): the entry goes into the first free slot
of the directory — one block write that changes the 32 bytes of that slot only — or, when a chained
directory is full, into slot 0 of a freshly allocated, blanked cluster linked behind the directory's last
cluster; a full FAT16 root directory, or a full volume, ends with `NotEnoughSpace` and no write.
-/
import Sdmmc.Lemmas.WriteSetFat
import Sdmmc.Lemmas.DirSlots
import Sdmmc.Lemmas.Listing
import Sdmmc.Lemmas.WriteRefinesBytes

namespace Sdmmc.Lemmas.WriteSet
open Sdmmc.Model Sdmmc.Model.Fat Sdmmc.Spec
open Sdmmc.Lemmas.FBasic hiding NoFault Coherent
open Sdmmc.Lemmas.FatOps hiding BlocksOK Mirror HintOK
open Sdmmc.Lemmas.ChainL Sdmmc.Lemmas.ForestBase
open Sdmmc.Lemmas.Reopen (IsFixedRoot rootStart rootBlocks)
open Sdmmc.Lemmas.Listing (startCluster)

/-! ### Short file names have eleven bytes -/

theorem sfn_step_length (st st' : Sfn.PState) (ch : Nat) (h : Sfn.step st ch = .ok st') :
    st'.contents.length = st.contents.length := by
  unfold Sfn.step at h
  split at h
  · exact nomatch h
  · split at h
    · exact nomatch h
    · split at h
      · split at h
        · injection h with h; rw [← h]
        · exact nomatch h
      · dsimp only at h
        split at h
        · split at h
          · injection h with h; rw [← h]; exact List.length_set
          · exact nomatch h
        · split at h
          · injection h with h; rw [← h]; exact List.length_set
          · exact nomatch h

theorem sfn_loop_length (name : List Nat) : ∀ (st st' : Sfn.PState), Sfn.loop st name = .ok st' →
    st'.contents.length = st.contents.length := by
  induction name with
  | nil =>
    intro st st' h
    have e : Sfn.loop st [] = .ok st := rfl
    rw [e] at h
    have : st = st' := Except.ok.inj h
    rw [this]
  | cons ch rest ih =>
    intro st st' h
    have e : Sfn.loop st (ch :: rest) = (match Sfn.step st ch with
      | .ok st' => Sfn.loop st' rest
      | .error e => .error e) := rfl
    rw [e] at h
    cases hs : Sfn.step st ch with
    | error e => rw [hs] at h; exact nomatch h
    | ok st1 =>
      rw [hs] at h
      rw [ih st1 st' h, sfn_step_length st st1 ch hs]

/-- `ShortFileName::create_from_str` answers eleven bytes. -/
theorem createFromStr_length (name : List Nat) (sfn : Bytes) (h : Sfn.createFromStr name = .ok sfn) : sfn.length = 11 := by
  unfold Sfn.createFromStr at h
  split at h
  · injection h with h; rw [← h]; rfl
  · split at h
    · injection h with h; rw [← h]; rfl
    · split at h
      · cases h
      · next st hl =>
        split at h
        · cases h
        · injection h with h
          rw [← h, C18.kanjiStore_length, sfn_loop_length _ _ _ hl]
          rfl

/-! ### A blanked cluster -/

theorem zeroBlocks_content : ∀ (n first : Nat) (s : FS), NoFault s →
    ∀ i, (zeroBlocks n first s).2.dev.disk.get i = if first ≤ i ∧ i < first + n then zeroBlock else s.dev.disk.get i
  | 0, first, s, _, i => by
    rw [zeroBlocks_zero]
    rw [if_neg (by omega)]
  | n + 1, first, s, hn, i => by
    obtain ⟨hn1, _, _, _, hd1⟩ := afterZero_facts first s hn
    rw [zeroBlocks_succ n first s hn, zeroBlocks_content n (first + 1) (afterZero first s) hn1 i, hd1]
    by_cases h1 : first + 1 ≤ i ∧ i < first + 1 + n
    · rw [if_pos h1, if_pos (by omega)]
    · rw [if_neg h1]
      by_cases h2 : first = i
      · subst h2
        rw [Disk.get_set_self, if_pos (by omega)]
      · rw [Disk.get_set_ne _ _ _ _ h2, if_neg (by omega)]

/-- After `alloc_cluster(prev, true)` every block of the new cluster is blank. -/
theorem alloc_zeroed (s s' : FS) (prev : Option Nat) (c : Nat) (hs : Sound s)
    (hp : ∀ p, prev = some p → p < endCluster s.vol) (h : allocCluster prev true s = (.ok c, s')) :
    ∀ j, j < s.vol.blocksPerCluster → s'.dev.disk.get (clusterToBlock s.vol c + j) = zeroBlock := by
  intro j hj
  obtain ⟨hc2, hcE, _⟩ := alloc_in_range_and_free s s' prev true c hs.noFault hs.coherent hs.hint h
  have hr : InRange s.vol c := ⟨hc2, hcE⟩
  have hreg : regionOf s.vol (clusterToBlock s.vol c + j) ≠ .fat := by
    rw [data_block_region s.vol hs.geom c _ hr (Nat.le_add_right _ _) (by omega)]
    intro e; cases e
  obtain ⟨s1, sZ, s3, s4, s5, nf, h1, h2, h3, h4, h5, hs'⟩ := alloc_inv s s' prev true c h
  have ro1 : RO s s1 := by have := allocPick_readOnly s.vol s; rw [h1] at this; exact this
  have hs1 : Sound s1 := hs.of_ro ro1
  have hZ : sZ.dev.disk.get (clusterToBlock s.vol c + j) = zeroBlock := by
    unfold zeroStep at h2
    simp only [if_true] at h2
    have := zeroBlocks_content s.vol.blocksPerCluster (clusterToBlock s.vol c) s1 hs1.noFault (clusterToBlock s.vol c + j)
    rw [h2, if_pos (by omega)] at this
    exact this
  obtain ⟨sZ', hrunZ, hsZ, hvZ, _⟩ := zeroBlocks_lic s.vol { dataClusters := [c] } c List.mem_cons_self hr s.vol.blocksPerCluster
    (clusterToBlock s.vol c) s1 hs1 ro1.vol (Nat.le_refl _) (Nat.le_refl _)
  have eZ : sZ = sZ' := by
    unfold zeroStep at h2
    simp only [if_true] at h2
    rw [h2] at hrunZ
    exact congrArg Prod.snd hrunZ
  subst eZ
  have hvZ' : sZ.vol = s.vol := hvZ.trans ro1.vol
  obtain ⟨s3', hrun3, hs3, hv3, _, hd3⟩ := updateFat_lic sZ c Gen.CLUSTER_END_OF_FILE hsZ (by rw [hvZ']; exact hcE)
    { fatClusters := [c] } List.mem_cons_self
  rw [h3] at hrun3
  have e3 : s3 = s3' := congrArg Prod.snd hrun3
  subst e3
  have h3d : s3.dev.disk.get (clusterToBlock s.vol c + j) = zeroBlock := by
    rw [hd3, DirFat.fatDisk_get_other _ _ _ _ _ (DirFat.not_mem_fatWrites_of_region sZ.vol hsZ.geom c _ (by rw [hvZ']; exact hcE)
      (by rw [hvZ']; exact hreg))]
    exact hZ
  have hv3' : s3.vol = s.vol := hv3.trans hvZ'
  have h4d : s4.dev.disk.get (clusterToBlock s.vol c + j) = zeroBlock := by
    unfold linkStep at h4
    cases prev with
    | none =>
      have : s4 = s3 := (congrArg Prod.snd h4).symm
      rw [this]; exact h3d
    | some p =>
      simp only at h4
      obtain ⟨s4', hrun4, _, _, _, hd4⟩ := updateFat_lic s3 p c hs3 (by rw [hv3']; exact hp p rfl) { fatClusters := [p] } List.mem_cons_self
      rw [h4] at hrun4
      have : s4 = s4' := congrArg Prod.snd hrun4
      rw [this, hd4, DirFat.fatDisk_get_other _ _ _ _ _ (DirFat.not_mem_fatWrites_of_region s3.vol hs3.geom p _
        (by rw [hv3']; exact hp p rfl) (by rw [hv3']; exact hreg))]
      exact h3d
  have ro5 : RO s4 s5 := by have := allocHint_readOnly s.vol c s4; rw [h5] at this; exact this
  have : s'.dev.disk = s5.dev.disk := by rw [hs']
  rw [this, ro5.disk]
  exact h4d

theorem firstFreeSlot_zero : firstFreeSlot (slotsOf zeroBlock) = some 0 := by decide

/-! ### One run of blocks -/

/-- What `writeNewBlocks` did when it found a slot: one block write that replaces the 32 bytes of a
slot. -/
structure SlotWritten (s s' : FS) (b off : Nat) : Prop where
  off_lt : off + 32 ≤ 512
  off_al : off % 32 = 0
  free : firstFreeSlot (slotsOf (s.dev.disk.get b)) = some off
  wlog : s'.dev.wlog = (b, s'.dev.disk.get b) :: s.dev.wlog
  disk : s'.dev.disk = s.dev.disk.set b (s'.dev.disk.get b)
  len : (s'.dev.disk.get b).length = 512
  outside : ∀ i, i < off ∨ off + 32 ≤ i → (s'.dev.disk.get b).getD i 0 = (s.dev.disk.get b).getD i 0
  vol : s'.vol = s.vol
  noFault : NoFault s'
  coherent : Coherent s'

/-- `writeNewBlocks` on a fault-free coherent state with 512-byte blocks, name of eleven bytes. -/
theorem writeNewBlocks_written (name : Bytes) (att fc : Nat) (now : Timestamp) (hname : name.length = 11) (n b0 : Nat) (s : FS)
    (hn : NoFault s) (hc : Coherent s) (hb : BlocksOK s.dev.disk) :
    ∃ r s', writeNewBlocks name att fc now n b0 s = (r, s') ∧
      ((r = .ok none ∧ RO s s' ∧ ∀ b, b0 ≤ b → b < b0 + n → firstFreeSlot (slotsOf (s.dev.disk.get b)) = none) ∨
       (∃ b off, r = .ok (some (DirEntry.new name att fc now b off)) ∧ b0 ≤ b ∧ b < b0 + n ∧
          (∀ b', b0 ≤ b' → b' < b → firstFreeSlot (slotsOf (s.dev.disk.get b')) = none) ∧ SlotWritten s s' b off)) := by
  obtain ⟨r, s', hrun, hn', hc', hv, hcase⟩ := DirSlots.writeNewBlocks_spec name att fc now n b0 s hn hc
  refine ⟨r, s', hrun, ?_⟩
  rcases hcase with ⟨hr, hd, hw, hnone⟩ | ⟨b, off, h1, h2, h3, h4, hr, hd, hw⟩
  · exact .inl ⟨hr, ⟨hd, hw, hv, by rw [hn', hn], fun _ => hc'⟩, hnone⟩
  · obtain ⟨o1, o2⟩ := DirSlots.firstFreeSlot_off _ off h4
    have hser : (DirEntry.serialize s.vol.fatType (DirEntry.new name att fc now b off)).length = 32 :=
      serialize_length _ _ hname
    have hget : s'.dev.disk.get b = splice (s.dev.disk.get b) off (DirEntry.serialize s.vol.fatType (DirEntry.new name att fc now b off)) := by
      rw [hd, Disk.get_set_self]
    refine .inr ⟨b, off, hr, h1, h2, h3, by omega, o2, h4, by rw [hget]; exact hw, by rw [hget]; exact hd, ?_, ?_, hv, hn', hc'⟩
    · rw [hget, FatLens.splice_length _ _ _ (by rw [hser, hb b]; omega)]; exact hb b
    · intro i hi
      rw [hget]
      exact FatLens.splice_getD_outside _ _ _ _ (by rw [hser, hb b]; omega) (by rw [hser]; exact hi)

/-- The state after a slot was written in a block outside the FAT region is sound. -/
theorem SlotWritten.sound {s s' : FS} {b off : Nat} (h : SlotWritten s s' b off) (hs : Sound s) (hreg : regionOf s.vol b ≠ .fat) :
    Sound s' := by
  refine ⟨⟨h.noFault, h.coherent, ?_, by rw [h.vol]; exact hs.geom, by rw [h.vol]; exact hs.hint⟩, ?_⟩
  · rw [h.disk]; exact blocksOK_set _ _ _ hs.blocksOK h.len
  · rw [h.vol, h.disk]; exact mirror_set s.vol hs.geom _ _ _ hreg hs.mirror

/-- Licensed as a slot write. -/
theorem SlotWritten.lic_slot {s s' : FS} {b off : Nat} (h : SlotWritten s s' b off)
    (hreg : regionOf s.vol b = .root ∨ regionOf s.vol b = .data) (L : Licence) (hL : (b, off) ∈ L.slots) :
    LicD s.vol L s.dev s'.dev :=
  LicD.one (b, s'.dev.disk.get b) h.wlog h.disk (.inr (.inr (.inl ⟨hreg, h.len, ⟨off, hL⟩, fun i hi =>
    h.outside i (Classical.byContradiction fun hcon => hi ⟨off, hL, by omega, by omega⟩)⟩)))

/-- Licensed as a write into a licensed data cluster. -/
theorem SlotWritten.lic_data {s s' : FS} {b off : Nat} (h : SlotWritten s s' b off) (c : Nat) (hr : InRange s.vol c)
    (h1 : clusterToBlock s.vol c ≤ b) (h2 : b < clusterToBlock s.vol c + s.vol.blocksPerCluster) (L : Licence)
    (hL : c ∈ L.dataClusters) : LicD s.vol L s.dev s'.dev :=
  LicD.one (b, s'.dev.disk.get b) h.wlog h.disk (.inr (.inl ⟨h.len, c, hL, hr, h1, h2⟩))

/-! ### The walk over a chained directory -/

/-- The 32-byte slot at byte `off` of block `b` is free on the medium `d`: its first byte is `0x00` (end marker) or
`0xE5` (deleted). -/
def FreeAt (d : Disk) (b off : Nat) : Prop := byteAt (d.get b) off = 0 ∨ byteAt (d.get b) off = 0xE5

theorem SlotWritten.freeAt {s s' : FS} {b off : Nat} (h : SlotWritten s s' b off) : FreeAt s.dev.disk b off := by
  obtain ⟨i, _, ho, hf, _⟩ := DirSlots.firstFreeSlot_some _ off h.free
  unfold FreeAt
  rw [ho]
  exact hf

/-- How `writeNewWalk` over the directory with chain `dcs` ended, with the licence of its writes. -/
inductive WalkOutcome (v : FatVolume) (dcs : List Nat) (dv dv' : Dev) : Res DirEntry → Prop
  /-- the entry went into a free slot of a cluster of the directory -/
  | slot (en : DirEntry) (x : Nat) (hx : x ∈ dcs) (h1 : clusterToBlock v x ≤ en.entryBlock)
      (h2 : en.entryBlock < clusterToBlock v x + v.blocksPerCluster) (ho : en.entryOffset + 32 ≤ 512)
      (hal : en.entryOffset % 32 = 0) (hfree : FreeAt dv.disk en.entryBlock en.entryOffset)
      (lic : ∀ L : Licence, (en.entryBlock, en.entryOffset) ∈ L.slots → LicD v L dv dv') : WalkOutcome v dcs dv dv' (.ok en)
  /-- the directory was full: a free cluster `c` was blanked and linked behind the last cluster, the entry
  went into its first slot -/
  | grown (en : DirEntry) (last c : Nat) (hl : dcs.getLast? = some last) (hr : InRange v c) (hfree : isFree v dv.disk c)
      (hb : en.entryBlock = clusterToBlock v c) (ho : en.entryOffset = 0)
      (lic : ∀ L : Licence, last ∈ L.fatClusters → c ∈ L.fatClusters → c ∈ L.dataClusters → LicD v L dv dv') :
      WalkOutcome v dcs dv dv' (.ok en)
  /-- the directory and the volume were full: nothing written -/
  | full (hw : dv'.wlog = dv.wlog) (hd : dv'.disk = dv.disk) : WalkOutcome v dcs dv dv' (.err .NotEnoughSpace)

theorem WalkOutcome.cons {v : FatVolume} {a : Nat} {rest : List Nat} {dv dv2 dv' : Dev} {r : Res DirEntry}
    (hw : dv2.wlog = dv.wlog) (hd : dv2.disk = dv.disk) (hne : rest ≠ []) (h : WalkOutcome v rest dv2 dv' r) :
    WalkOutcome v (a :: rest) dv dv' r := by
  cases h with
  | slot en x hx h1 h2 ho hal hfree lic =>
    exact .slot en x (List.mem_cons_of_mem _ hx) h1 h2 ho hal (by unfold FreeAt at hfree ⊢; rw [← hd]; exact hfree)
      fun L hL => (LicD.same hw hd).trans (lic L hL)
  | grown en last c hl hr hfree hb ho lic =>
    refine .grown en last c ?_ hr (by rw [← hd]; exact hfree) hb ho fun L h1 h2 h3 => (LicD.same hw hd).trans (lic L h1 h2 h3)
    cases rest with
    | nil => exact absurd rfl hne
    | cons b l => rw [List.getLast?_cons_cons]; exact hl
  | full hw' hd' => exact .full (hw'.trans hw) (hd'.trans hd)

/-- **The walk of `write_new_directory_entry` over a chained directory** with chain `dcs`, from the cluster
`c` the walk stands at, on a sound state. -/
theorem writeNewWalk_lic (name : Bytes) (att fc : Nat) (now : Timestamp) (hname : name.length = 11) :
    ∀ (dcs : List Nat) (c fuel : Nat) (w : DirWalk) (s : FS), Sound s → Chain s.vol s.dev.disk c dcs → dcs.length < fuel →
      w.cluster = c → w.firstBlock = clusterToBlock s.vol c → w.dirSize = s.vol.blocksPerCluster → w.fixedRoot = false →
      ∃ r s', writeNewWalk name att fc now fuel w s = (r, s') ∧ Sound s' ∧ SameGeom s.vol s'.vol ∧
        WalkOutcome s.vol dcs s.dev s'.dev r := by
  intro dcs
  induction dcs with
  | nil => intro c fuel w s _ hch; exact absurd rfl (chain_ne_nil hch)
  | cons a rest ih =>
    intro c fuel w s hs hch hfuel hwc hwb hws hwf
    obtain ⟨fuel, rfl⟩ : ∃ f, fuel = f + 1 := ⟨fuel - 1, by simp only [List.length_cons] at hfuel; omega⟩
    have hac : a = c := by have := chain_head_eq hch; simpa using this
    subst hac
    have hr : InRange s.vol a := chain_inRange hch a List.mem_cons_self
    have hbpc := hs.geom.bpc_pos
    obtain ⟨r1, s1, hrun1, hcase⟩ := writeNewBlocks_written name att fc now hname w.dirSize w.firstBlock s hs.noFault hs.coherent
      hs.blocksOK
    rw [writeNewWalk]
    simp only [bind_apply, hrun1]
    rcases hcase with ⟨hr1, ro1, hnone⟩ | ⟨b, off, hr1, hb1, hb2, _, hsw⟩
    · -- no free slot in this cluster
      subst hr1
      have hs1 : Sound s1 := hs.of_ro ro1
      have hnc := ChainL.nextCluster_spec a s1 hs1.noFault hs1.coherent hs1.geom (by rw [ro1.vol]; exact hr)
      rw [ro1.vol, ro1.disk] at hnc
      generalize hs2def : afterRead (fatBlock s.vol a) s1 = s2 at hnc
      have ro2 : RO s s2 := by rw [← hs2def]; exact ro1.trans (ro_afterRead _ s1)
      have hs2 : Sound s2 := hs.of_ro ro2
      simp only [hwf, Bool.false_eq_true, if_false, bind_apply, attempt_apply, hwc, hnc]
      by_cases hrest : rest = []
      · subst hrest
        rw [chain_last_of_split (pre := []) hch]
        simp only [bind_apply]
        have hp : ∀ p, some a = some p → p < endCluster s2.vol := fun p hp => by
          cases hp; rw [ro2.vol]; exact hr.2
        rcases ForestAlloc.alloc_total s2 (some a) true hs2.noFault hs2.coherent with ⟨cn, s3, ha⟩ | ⟨s3, ha, hd3, hv3, hn3, hc3⟩
        · -- a cluster was appended
          rw [ha]
          simp only [getVol_apply]
          have hzero := alloc_zeroed s2 s3 (some a) cn hs2 hp ha
          obtain ⟨hs3, hg3, _, hrn⟩ := alloc_lic s2 s3 (some a) true cn hs2 hp ha { fatClusters := [cn, a], dataClusters := [cn] }
            List.mem_cons_self (fun p hp => by cases hp; exact List.mem_cons_of_mem _ List.mem_cons_self) (fun _ => List.mem_cons_self)
          have hused : isUsed s2.vol s2.dev.disk a := by
            rw [ro2.vol, ro2.disk]; exact chain_mem_used hch a List.mem_cons_self
          obtain ⟨_, _, _, _, _, _, _, hfree, _⟩ := ForestAlloc.alloc_spec s2 s3 (some a) true cn hs2.noFault hs2.coherent hs2.blocksOK
            hs2.geom hs2.hint (fun q hq => by cases hq; exact ⟨hused.1.2, hused.2.1⟩) ha
          rw [ro2.vol] at hrn hzero hg3
          rw [ro2.vol, ro2.disk] at hfree
          have hctb : clusterToBlock s3.vol cn = clusterToBlock s.vol cn := WriteRefines.sameGeom_clusterToBlock hg3 cn
          have hbpc3 : s3.vol.blocksPerCluster = s.vol.blocksPerCluster := WriteRefines.sameGeom_bpc hg3
          obtain ⟨g, rfl⟩ : ∃ g, fuel = g + 1 := ⟨fuel - 1, by simp only [List.length_cons, List.length_nil] at hfuel; omega⟩
          obtain ⟨r4, s4, hrun4, hcase4⟩ := writeNewBlocks_written name att fc now hname w.dirSize (clusterToBlock s3.vol cn) s3
            hs3.noFault hs3.coherent hs3.blocksOK
          rw [writeNewWalk]
          simp only [bind_apply, hrun4]
          have hz0 : s3.dev.disk.get (clusterToBlock s3.vol cn) = zeroBlock := by
            have := hzero 0 hbpc; rw [Nat.add_zero] at this; rw [hctb]; exact this
          rcases hcase4 with ⟨_, _, hnone4⟩ | ⟨b, off, hr4, hb41, hb42, hbefore, hsw4⟩
          · exfalso
            have := hnone4 (clusterToBlock s3.vol cn) (Nat.le_refl _) (by rw [hws]; omega)
            rw [hz0, firstFreeSlot_zero] at this
            cases this
          · have hbeq : b = clusterToBlock s3.vol cn := by
              refine Classical.byContradiction fun hne => ?_
              have := hbefore (clusterToBlock s3.vol cn) (Nat.le_refl _) (by omega)
              rw [hz0, firstFreeSlot_zero] at this
              cases this
            subst hbeq
            have hoff : off = 0 := by
              have := hsw4.free
              rw [hz0, firstFreeSlot_zero] at this
              exact (Option.some.inj this).symm
            subst hoff
            subst hr4
            have hrn3 : InRange s3.vol cn := (hg3.inRange cn).2 hrn
            have hreg4 : regionOf s3.vol (clusterToBlock s3.vol cn) ≠ .fat := by
              rw [data_block_region s3.vol hs3.geom cn _ hrn3 (Nat.le_refl _) (by have := hs3.geom.bpc_pos; omega)]
              intro e; cases e
            refine ⟨_, s4, rfl, hsw4.sound hs3 hreg4, hg3.trans (SameGeom.of_eq hsw4.vol), ?_⟩
            refine .grown _ a cn rfl hrn hfree (by show clusterToBlock s3.vol cn = _; exact hctb) rfl fun L h1 h2 h3 => ?_
            obtain ⟨_, _, hl23, _⟩ := alloc_lic s2 s3 (some a) true cn hs2 hp ha L h2 (fun p hp => by cases hp; exact h1) (fun _ => h3)
            rw [ro2.vol] at hl23
            have hl34 : LicD s3.vol L s3.dev s4.dev :=
              hsw4.lic_data cn hrn3 (Nat.le_refl _) (by have := hs3.geom.bpc_pos; omega) L h3
            exact (LicD.of_ro ro2).trans (hl23.trans (LicD.sameGeom hg3 hl34))
        · -- the volume is full
          rw [ha]
          refine ⟨_, s3, rfl, ?_, SameGeom.of_eq (by rw [hv3, ro2.vol]), .full ?_ (by rw [hd3, ro2.disk])⟩
          · have := alloc_none_nowrite s2 (some a) true hs2 _ s3 ha
            exact this.2.2.1
          · have := alloc_none_nowrite s2 (some a) true hs2 _ s3 ha
            rw [this.1, ro2.wlog]
      · -- on to the next cluster of the directory
        obtain ⟨_, _, m, hm, _, hchm⟩ := chain_cons_inv hch hrest
        rw [hm]
        simp only [bind_apply, getVol_apply]
        have hch2 : Chain s2.vol s2.dev.disk m rest := by rw [ro2.vol, ro2.disk]; exact hchm
        obtain ⟨r, s', hrun, hs', hg', hout⟩ := ih m fuel { cluster := m, firstBlock := clusterToBlock s2.vol m, dirSize := w.dirSize, fixedRoot := false } s2 hs2 hch2
          (by simp only [List.length_cons] at hfuel; omega) rfl rfl (by rw [ro2.vol]; exact hws) rfl
        refine ⟨r, s', hrun, hs', (SameGeom.of_eq ro2.vol).trans hg', ?_⟩
        rw [ro2.vol] at hout
        exact WalkOutcome.cons ro2.wlog ro2.disk hrest hout
    · -- a free slot in this cluster
      subst hr1
      have h1 : clusterToBlock s.vol a ≤ b := by rw [← hwb]; exact hb1
      have h2 : b < clusterToBlock s.vol a + s.vol.blocksPerCluster := by rw [← hwb, ← hws]; exact hb2
      have hreg : regionOf s.vol b = .data := data_block_region s.vol hs.geom a b hr h1 h2
      refine ⟨_, s1, rfl, hsw.sound hs (by rw [hreg]; intro e; cases e), SameGeom.of_eq hsw.vol, ?_⟩
      exact .slot _ a List.mem_cons_self h1 h2 hsw.off_lt hsw.off_al hsw.freeAt fun L hL => hsw.lic_slot (.inr hreg) L hL

/-! ### Both kinds of directory -/

/-- Block `b` is a block of the directory a handle with cluster `dc` designates: a block of the FAT16
fixed root region, or a block of a cluster of the directory's chain `dcs`. -/
def DirBlock (v : FatVolume) (dc : Nat) (dcs : List Nat) (b : Nat) : Prop :=
  if IsFixedRoot v dc then rootStart v ≤ b ∧ b < rootStart v + rootBlocks v
  else ∃ x, x ∈ dcs ∧ clusterToBlock v x ≤ b ∧ b < clusterToBlock v x + v.blocksPerCluster

/-- A directory block lies in the FAT16 root region or in the data region. -/
theorem dirBlock_region (v : FatVolume) (hg : WFGeom v) (dc : Nat) (dcs : List Nat) (b : Nat)
    (hin : ¬ IsFixedRoot v dc → ∀ x, x ∈ dcs → InRange v x) (h : DirBlock v dc dcs b) :
    regionOf v b = .root ∨ regionOf v b = .data := by
  unfold DirBlock at h
  by_cases hk : IsFixedRoot v dc
  · rw [if_pos hk] at h
    left
    have := FatLens.root_blocks_in_root_region v hg hk.1 (b - rootStart v) (by
      have := h.2; unfold rootBlocks at this; show b - rootStart v < blockCountFromBytes (v.rootEntriesCount * 32); omega)
    rw [show v.lbaStart + v.firstRootDirBlock + (b - rootStart v) = b by have := h.1; unfold rootStart at this ⊢; omega] at this
    exact this
  · rw [if_neg hk] at h
    obtain ⟨x, hx, h1, h2⟩ := h
    exact .inr (data_block_region v hg x b (hin hk x hx) h1 h2)

/-- How `write_new_directory_entry` ended, with the licence of its writes. -/
inductive CreateOutcome (v : FatVolume) (dc : Nat) (dcs : List Nat) (dv dv' : Dev) : Res DirEntry → Prop
  /-- the entry went into a free slot of a block of the directory: only that slot is written -/
  | slot (en : DirEntry) (hb : DirBlock v dc dcs en.entryBlock) (ho : en.entryOffset + 32 ≤ 512) (hal : en.entryOffset % 32 = 0)
      (hfree : FreeAt dv.disk en.entryBlock en.entryOffset)
      (lic : ∀ L : Licence, (en.entryBlock, en.entryOffset) ∈ L.slots → LicD v L dv dv') : CreateOutcome v dc dcs dv dv' (.ok en)
  /-- the chained directory was full: a free cluster `c` was blanked and linked behind the directory's
  last cluster, the entry went into its first slot -/
  | grown (en : DirEntry) (last c : Nat) (hk : ¬ IsFixedRoot v dc) (hl : dcs.getLast? = some last) (hr : InRange v c)
      (hfree : isFree v dv.disk c) (hb : en.entryBlock = clusterToBlock v c) (ho : en.entryOffset = 0)
      (lic : ∀ L : Licence, last ∈ L.fatClusters → c ∈ L.fatClusters → c ∈ L.dataClusters → LicD v L dv dv') :
      CreateOutcome v dc dcs dv dv' (.ok en)
  /-- the FAT16 root directory is full, or a chained directory and the volume are: nothing written -/
  | full (hw : dv'.wlog = dv.wlog) (hd : dv'.disk = dv.disk) : CreateOutcome v dc dcs dv dv' (.err .NotEnoughSpace)

/-- **`write_new_directory_entry`** on a sound state, the directory the FAT16 fixed root or a directory
with a well-formed cluster chain `dcs`, an eleven-byte name. -/
theorem createEntry_lic (dc : Nat) (name : Bytes) (att fc : Nat) (now : Timestamp) (hname : name.length = 11) (s : FS)
    (hs : Sound s) (dcs : List Nat)
    (hdir : ¬ IsFixedRoot s.vol dc → Chain s.vol s.dev.disk (startCluster s.vol dc) dcs) :
    ∃ r s', writeNewDirectoryEntry dc name att fc now s = (r, s') ∧ Sound s' ∧ SameGeom s.vol s'.vol ∧
      CreateOutcome s.vol dc dcs s.dev s'.dev r := by
  unfold writeNewDirectoryEntry
  simp only [bind_apply, getVol_apply]
  by_cases hk : IsFixedRoot s.vol dc
  · -- the FAT16 fixed root: one run of blocks
    obtain ⟨h16, hdc⟩ := hk
    have hw : dirWalkStart s.vol dc = { cluster := dc, firstBlock := rootStart s.vol, dirSize := rootBlocks s.vol, fixedRoot := true } := by
      unfold dirWalkStart
      rw [h16]
      simp only
      rw [if_pos (show dc = Gen.CLUSTER_ROOT_DIR from hdc)]
      rfl
    rw [hw]
    obtain ⟨r1, s1, hrun1, hcase⟩ := writeNewBlocks_written name att fc now hname (rootBlocks s.vol) (rootStart s.vol) s hs.noFault
      hs.coherent hs.blocksOK
    rw [writeNewWalk]
    simp only [bind_apply, hrun1]
    rcases hcase with ⟨hr1, ro1, _⟩ | ⟨b, off, hr1, hb1, hb2, _, hsw⟩
    · subst hr1
      exact ⟨_, s1, rfl, hs.of_ro ro1, SameGeom.of_eq ro1.vol, .full ro1.wlog ro1.disk⟩
    · subst hr1
      have hdb : DirBlock s.vol dc dcs b := by unfold DirBlock; rw [if_pos ⟨h16, hdc⟩]; exact ⟨hb1, hb2⟩
      have hreg := dirBlock_region s.vol hs.geom dc dcs b (fun hk' => absurd ⟨h16, hdc⟩ hk') hdb
      exact ⟨_, s1, rfl, hsw.sound hs (by rcases hreg with h | h <;> rw [h] <;> intro e <;> cases e), SameGeom.of_eq hsw.vol,
        .slot _ hdb hsw.off_lt hsw.off_al hsw.freeAt fun L hL => hsw.lic_slot hreg L hL⟩
  · -- a chained directory
    have hch := hdir hk
    obtain ⟨h1, h2, h3, h4⟩ := Listing.dirWalkStart_chain s.vol dc hk
    have hlen : dcs.length < chainFuel s.vol + 1 := by
      have := chain_length_le hch
      unfold chainFuel; omega
    obtain ⟨r, s', hrun, hs', hg', hout⟩ := writeNewWalk_lic name att fc now hname dcs (startCluster s.vol dc) (chainFuel s.vol + 1)
      (dirWalkStart s.vol dc) s hs hch hlen h1 h2 h3 h4
    refine ⟨r, s', hrun, hs', hg', ?_⟩
    cases hout with
    | slot en x hx g1 g2 ho hal hfree lic =>
      exact .slot en (by unfold DirBlock; rw [if_neg hk]; exact ⟨x, hx, g1, g2⟩) ho hal hfree lic
    | grown en last c hl hr hfree hb ho lic => exact .grown en last c hk hl hr hfree hb ho lic
    | full hw hd => exact .full hw hd

theorem CreateOutcome.of_ro {v : FatVolume} {dc : Nat} {dcs : List Nat} {dv dv1 dv' : Dev} {r : Res DirEntry}
    (hw : dv1.wlog = dv.wlog) (hd : dv1.disk = dv.disk) (h : CreateOutcome v dc dcs dv1 dv' r) :
    CreateOutcome v dc dcs dv dv' r := by
  cases h with
  | slot en hb ho hal hfree lic =>
    exact .slot en hb ho hal (by unfold FreeAt at hfree ⊢; rw [← hd]; exact hfree) fun L hL => (LicD.same hw hd).trans (lic L hL)
  | grown en last c hk hl hr hfree hb ho lic =>
    exact .grown en last c hk hl hr (by rw [← hd]; exact hfree) hb ho fun L h1 h2 h3 => (LicD.same hw hd).trans (lic L h1 h2 h3)
  | full hw' hd' => exact .full (hw'.trans hw) (hd'.trans hd)

end Sdmmc.Lemmas.WriteSet
