/-
Lemmas for C12 / C14, part 27 (whole sessions against the specification card): the abstract block
store and the abstract meaning of a call, the session invariant, and one call of a session.
-/
import Sdmmc.Lemmas.SdCardSim2Init
import Sdmmc.Lemmas.SdCap

namespace Sdmmc.Lemmas.SdSession
open Sdmmc.Model Sdmmc.Spec.Card Sdmmc.Model.Sd Sdmmc.Lemmas.Sd Sdmmc.Gen Sdmmc.Lemmas.SdCardSim
open Sdmmc.Lemmas.SdCardSim2

/-! ### The abstract device -/

/-- The abstract block store: what every block number holds. -/
abbrev Store := Nat → Bytes

/-- The store after `blocks` were written to consecutive block numbers from `idx` on. -/
def writeStore (st : Store) (idx : Nat) (blocks : List Bytes) : Store :=
  fun j => if idx ≤ j ∧ j < idx + blocks.length then blocks.getD (j - idx) zeros512 else st j

/-- The abstract meaning of one call: its answer and the store afterwards. -/
def absCall (kind : Kind) (csd : List UInt8) (st : Store) : Call → Answer × Store
  | .read n idx => (.blocks ((List.range' idx n).map st), st)
  | .write blocks idx => (.unit, writeStore st idx blocks)
  | .numBlocks => (.num (capacityOfCsd csd), st)
  | .numBytes => (.num (512 * capacityOfCsd csd), st)
  | .cardType => (.ctype (some (typeOfKind kind)), st)
  | .markUninit => (.unit, st)

/-- The abstract meaning of a list of calls: the answers in order, and the final store. -/
def absRun (kind : Kind) (csd : List UInt8) : Store → List Call → List Answer × Store
  | st, [] => ([], st)
  | st, c :: cs => ((absCall kind csd st c).1 :: (absRun kind csd (absCall kind csd st c).2 cs).1,
                    (absRun kind csd (absCall kind csd st c).2 cs).2)

/-- The calls of a session one after the other, stopping at the first failure. -/
def runSession {σ : Type} (B : BusOps σ) : List Call → S σ (List Answer)
  | [] => pure []
  | c :: cs => do
    let a ← call B c
    let as ← runSession B cs
    pure (a :: as)

/-- How far the driver can address a card of the given kind: 2^32 blocks by block number
(high capacity), 2^32 bytes = 2^23 blocks by byte address (standard capacity). -/
def addrLimit : Kind → Nat
  | .SDHC => 4294967296
  | _ => 8388608

/-- A call the session theorems cover: block ranges inside the card (`capacityOfCsd csd` blocks)
and inside what the driver can address, 512-byte blocks; for the capacity calls a 16-byte
register for which the driver's formula is the specification's (`C12.capacity_*`); no
`mark_card_uninit`. -/
def Legal (kind : Kind) (csd : List UInt8) : Call → Prop
  | .read n idx => idx < capacityOfCsd csd ∧ idx + n ≤ capacityOfCsd csd ∧ idx < addrLimit kind ∧
      idx + n ≤ addrLimit kind
  | .write blocks idx => idx < capacityOfCsd csd ∧ idx + blocks.length ≤ capacityOfCsd csd ∧
      idx < addrLimit kind ∧ idx + blocks.length ≤ addrLimit kind ∧ ∀ b ∈ blocks, b.length = 512
  | .numBlocks => csd.length = 16 ∧ (kind = .SD1 → byteAt csd 0 / 64 = 0) ∧
      (byteAt csd 0 / 64 ≠ 0 → Csd.v2DeviceSize csd < 0x3FFFFF)
  | .numBytes => csd.length = 16 ∧ (kind = .SD1 → byteAt csd 0 / 64 = 0) ∧
      (byteAt csd 0 / 64 = 0 → 9 ≤ byteAt csd 5 % 16)
  | .cardType => True
  | .markUninit => False

/-- A multiple-block read (any block count other than one). -/
def isMultiRead : Call → Bool
  | .read n _ => n != 1
  | _ => false

/-- Every multiple-block read of the session is its last call. -/
def MultiReadsLast : List Call → Prop
  | [] => True
  | c :: cs => (isMultiRead c = true → cs = []) ∧ MultiReadsLast cs

theorem addressable_of_limit (kind : Kind) (idx : Nat) (h : idx < addrLimit kind) :
    Addressable (some (typeOfKind kind)) kind idx := by
  cases kind
  · exact Or.inr ⟨Or.inl rfl, Or.inl rfl, h⟩
  · exact Or.inr ⟨Or.inr rfl, Or.inr rfl, h⟩
  · exact Or.inl ⟨rfl, rfl, h⟩

/-! ### The session invariant -/

/-- What holds between the calls of a session: the card is identified and settled, is still the
card it was (kind, register, geometry, timing), checks CRCs exactly when the driver uses them,
holds the abstract store, and has recorded no violation. -/
structure SessInv (kind : Kind) (csd : List UInt8) (ncr nac busy gap : Nat) (st : Store) (s : St Card) : Prop where
  settled : Settled s.bus
  kindEq : s.bus.kind = kind
  capEq : s.bus.capacity = capacityOfCsd csd
  csdEq : s.bus.csd = csd
  ncrEq : s.bus.ncr = ncr
  nacEq : s.bus.nac = nac
  busyEq : s.bus.busy = busy
  gapEq : s.bus.stopGap = gap
  crc : s.bus.crcOn = s.useCrc
  ct : s.cardType = some (typeOfKind kind)
  mem : ∀ j, getBlock s.bus j = st j
  viol : s.bus.violations = []

theorem SessInv.step {kind : Kind} {csd : List UInt8} {ncr nac busy gap : Nat} {st st' : Store} {s s' : St Card}
    (h : SessInv kind csd ncr nac busy gap st s) (o : Outcome s s') (hm : ∀ j, getBlock s'.bus j = st' j) :
    SessInv kind csd ncr nac busy gap st' s' := by
  obtain ⟨u1, u2, u3, u4, u5, u6, u7, u8, u9⟩ := o.unchanged
  exact ⟨o.settled, u1.trans h.kindEq, u2.trans h.capEq, u3.trans h.csdEq, u4.trans h.ncrEq, u5.trans h.nacEq,
    u6.trans h.busyEq, u9.trans h.gapEq, by rw [u7, o.useCrc]; exact h.crc, o.cardType.trans h.ct, hm, u8.trans h.viol⟩

/-! ### One call -/

/-- The part of a call after `check_init`. -/
def callOp {σ : Type} (B : BusOps σ) : Call → S σ Answer
  | .read n idx => do let bs ← Sd.read B n idx; pure (.blocks bs)
  | .write bs idx => do Sd.write B bs idx; pure .unit
  | .numBlocks => do let n ← numBlocks B; pure (.num n)
  | .numBytes => do let n ← numBytes B; pure (.num n)
  | .cardType => do let s ← S.get; pure (.ctype s.cardType)
  | .markUninit => fun s => (.ok .unit, { s with cardType := none })

theorem call_of_checkInit {σ : Type} (B : BusOps σ) (c : Call) (hc : c ≠ .markUninit) (s s0 : St σ)
    (h : checkInit B s = (.ok (), s0)) : call B c s = callOp B c s0 := by
  cases c with
  | markUninit => exact absurd rfl hc
  | read n idx => unfold call callOp; dsimp only; rw [bind_ok h]
  | write bs idx => unfold call callOp; dsimp only; rw [bind_ok h]
  | numBlocks => unfold call callOp; dsimp only; rw [bind_ok h]
  | numBytes => unfold call callOp; dsimp only; rw [bind_ok h]
  | cardType =>
    unfold call callOp
    dsimp only
    have hat : S.attempt (checkInit B) s = (.ok (.ok ()), s0) := by rw [attempt_apply, h]
    rw [bind_ok hat]

/-- On an identified card `check_init` does nothing: a call is just its operation. -/
theorem checkInit_identified {σ : Type} (B : BusOps σ) (s : St σ) (ct : CardType) (h : s.cardType = some ct) :
    checkInit B s = (.ok (), s) := by
  unfold checkInit
  rw [bind_ok (get_apply s)]
  simp only [h, Option.isNone_some]
  rfl

theorem call_identified {σ : Type} (B : BusOps σ) (c : Call) (hc : c ≠ .markUninit) (s : St σ) (ct : CardType)
    (h : s.cardType = some ct) : call B c s = callOp B c s :=
  call_of_checkInit B c hc s s (checkInit_identified B s ct h)

theorem writeStore_single (st : Store) (idx : Nat) (b : Bytes) (j : Nat) :
    writeStore st idx [b] j = if idx = j then b else st j := by
  unfold writeStore
  by_cases h : idx = j
  · subst h; simp
  · rw [if_neg h, if_neg (by simp only [List.length_cons, List.length_nil]; omega)]

/-- The operation of one legal call on a card satisfying the invariant: the abstract answer, the
abstract store afterwards, the invariant again; the card is ready for the next command within
the command budget — except after a multiple-block read, which leaves it busy for `busy` bytes
(CMD12's R1b). -/
theorem callOp_step (kind : Kind) (csd : List UInt8) (ncr nac busy gap : Nat)
    (hncr : ncr ≤ DEFAULT_COMMAND_RETRIES) (hnac : nac ≤ DEFAULT_READ_RETRIES)
    (hbusy : busy ≤ DEFAULT_WRITE_RETRIES) (hgap : gap ≤ 1) (st : Store) (hst : ∀ j, (st j).length = 512)
    (s : St Card) (hI : SessInv kind csd ncr nac busy gap st s) (hbl : s.bus.busyLeft ≤ DEFAULT_COMMAND_RETRIES)
    (c : Call) (hc : Legal kind csd c) :
    ∃ s', callOp cardBus c s = (.ok (absCall kind csd st c).1, s') ∧
      SessInv kind csd ncr nac busy gap (absCall kind csd st c).2 s' ∧
      (isMultiRead c = false → s'.bus.busyLeft ≤ DEFAULT_COMMAND_RETRIES) ∧
      (isMultiRead c = true → s'.bus.busyLeft = busy) ∧ s'.useCrc = s.useCrc := by
  have hS := hI.settled
  have hncr' : s.bus.ncr ≤ DEFAULT_COMMAND_RETRIES := by rw [hI.ncrEq]; exact hncr
  have hnac' : s.bus.nac ≤ DEFAULT_READ_RETRIES := by rw [hI.nacEq]; exact hnac
  have hbusy' : s.bus.busy ≤ DEFAULT_WRITE_RETRIES := by rw [hI.busyEq]; exact hbusy
  have hgap' : s.bus.stopGap ≤ 1 := by rw [hI.gapEq]; exact hgap
  have hcrc : s.bus.crcOn = true → s.useCrc = true := fun h => by rw [← hI.crc]; exact h
  have hadr : ∀ i, i < addrLimit kind → Addressable s.cardType s.bus.kind i := fun i hi => by
    rw [hI.ct, hI.kindEq]; exact addressable_of_limit kind i hi
  have hlen : ∀ j, (getBlock s.bus j).length = 512 := fun j => by rw [hI.mem]; exact hst j
  cases c with
  | markUninit => exact absurd hc id
  | cardType =>
    refine ⟨s, ?_, hI, fun _ => hbl, fun h => (by cases h), rfl⟩
    show (S.get >>= fun s => pure (Answer.ctype s.cardType)) s = _
    rw [bind_ok (get_apply s), hI.ct]; rfl
  | read n idx =>
    obtain ⟨h1, h2, h3, h4⟩ := hc
    by_cases hn : n = 1
    · subst hn
      obtain ⟨s', h, hm, hb, o⟩ := read_single_sum s hS hbl hncr' hnac' idx (hadr idx h3)
        (by rw [hI.capEq]; exact h1) (hlen idx)
      refine ⟨s', ?_, hI.step o (fun j => by rw [getBlock_congr hm]; exact hI.mem j),
        fun _ => by rw [hb]; exact Nat.zero_le _, fun h => (by simp [isMultiRead] at h), o.useCrc⟩
      unfold callOp; dsimp only; rw [bind_ok h, hI.mem]; rfl
    · obtain ⟨s', h, hm, hb, o⟩ := read_multi_sum s hS hbl hncr' hnac' n idx hn (hadr idx h3)
        (by rw [hI.capEq]; exact h1) (by rw [hI.capEq]; exact h2) (fun j _ _ _ => hlen j)
      refine ⟨s', ?_, hI.step o (fun j => by rw [getBlock_congr hm]; exact hI.mem j), ?_⟩
      · unfold callOp; dsimp only; rw [bind_ok h, funext hI.mem]; rfl
      · exact ⟨fun h => by simp [isMultiRead, hn] at h, fun _ => (by rw [hb, hI.busyEq]), o.useCrc⟩
  | write blocks idx =>
    obtain ⟨h1, h2, h3, h4, h5⟩ := hc
    by_cases hn : blocks.length = 1
    · obtain ⟨b, rfl⟩ : ∃ b, blocks = [b] := by
        match blocks, hn with
        | [b], _ => exact ⟨b, rfl⟩
      obtain ⟨s', h, hm, hb, o⟩ := write_single_sum s hS hbl hncr' hbusy' hcrc idx (hadr idx h3)
        (by rw [hI.capEq]; exact h1) b (h5 b (List.mem_singleton.mpr rfl))
      refine ⟨s', ?_, hI.step o (fun j => ?_), fun _ => by rw [hb]; exact Nat.zero_le _,
        fun h => (by simp [isMultiRead] at h), o.useCrc⟩
      · unfold callOp; dsimp only; rw [bind_ok h]; rfl
      · show getBlock s'.bus j = writeStore st idx [b] j
        rw [getBlock_insert s.bus s'.bus idx b hm, writeStore_single, hI.mem]
    · obtain ⟨s', h, hm, hb, o⟩ := write_multi_sum s hS hbl hncr' hbusy' hgap' hcrc blocks idx hn (hadr idx h3)
        (by rw [hI.capEq]; exact h1) (by rw [hI.capEq]; exact h2) h5
      refine ⟨s', ?_, hI.step o (fun j => ?_), fun _ => by rw [hb]; exact Nat.zero_le _,
        fun h => (by simp [isMultiRead] at h), o.useCrc⟩
      · unfold callOp; dsimp only; rw [bind_ok h]; rfl
      · show getBlock s'.bus j = writeStore st idx blocks j
        rw [getBlock_writeMem s.bus s'.bus idx blocks hm, hI.mem]; rfl
  | numBlocks =>
    obtain ⟨h1, h2, h3⟩ := hc
    obtain ⟨s', n, v2, hn, hcs, a⟩ := numBlocks_card s hS hbl hncr' hnac' (typeOfKind kind) hI.ct
      (by rw [hI.csdEq]; exact h1)
    obtain ⟨csd', v2', hc', hspec⟩ := numBlocks_matches_spec cardBus s s' n hn
    have hcsd : csd' = csd := by
      have := hcs.symm.trans hc'
      simp only [Prod.mk.injEq, SRes.ok.injEq] at this
      rw [← this.1.1, hI.csdEq]
    subst hcsd
    have hn' : n = capacityOfCsd csd' := hspec
      (fun h => h2 (by rw [hI.ct] at h; cases kind <;> simp_all [typeOfKind])) h3
    subst hn'
    have o : Outcome s s' := ⟨by rw [a.1]; exact Unchanged.refl _,
      by rw [a.1]; exact ⟨hS.1, hS.2, hS.3, hS.4, hS.5, rfl⟩, a.2.1, a.2.2.1⟩
    refine ⟨s', ?_, hI.step o (fun j => by rw [a.1]; exact hI.mem j),
      fun _ => by rw [a.1]; exact Nat.zero_le _, fun h => (by cases h), o.useCrc⟩
    unfold callOp; dsimp only; rw [bind_ok hn]; rfl
  | numBytes =>
    obtain ⟨h1, h2, h3⟩ := hc
    obtain ⟨s', n, v2, hn, hcs, a⟩ := numBytes_card s hS hbl hncr' hnac' (typeOfKind kind) hI.ct
      (by rw [hI.csdEq]; exact h1)
    obtain ⟨csd', v2', hc', hspec⟩ := numBytes_matches_spec cardBus s s' n hn
    have hcsd : csd' = csd := by
      have := hcs.symm.trans hc'
      simp only [Prod.mk.injEq, SRes.ok.injEq] at this
      rw [← this.1.1, hI.csdEq]
    subst hcsd
    have hn' : n = 512 * capacityOfCsd csd' := hspec
      (fun h => h2 (by rw [hI.ct] at h; cases kind <;> simp_all [typeOfKind])) h3
    subst hn'
    have o : Outcome s s' := ⟨by rw [a.1]; exact Unchanged.refl _,
      by rw [a.1]; exact ⟨hS.1, hS.2, hS.3, hS.4, hS.5, rfl⟩, a.2.1, a.2.2.1⟩
    refine ⟨s', ?_, hI.step o (fun j => by rw [a.1]; exact hI.mem j),
      fun _ => by rw [a.1]; exact Nat.zero_le _, fun h => (by cases h), o.useCrc⟩
    unfold callOp; dsimp only; rw [bind_ok hn]; rfl

end Sdmmc.Lemmas.SdSession
