/-
Bridging lemmas for `Props/C01Main.lean` (several open volumes): what `file_length` / `file_offset` / `file_eof`
answer, and what a `write` leaves alone, in terms of the multi-volume abstract file system.
-/
import Sdmmc.Props.C01Multi
import Sdmmc.Lemmas.SurviveAbs

namespace Sdmmc.Lemmas.MainC01
open Sdmmc.Model Sdmmc.Model.Fat Sdmmc.Spec.Volume
open Sdmmc.Spec hiding run step NoFault Coherent
open Sdmmc.Spec.AbsFs (AbsFsN OpenFile viewOf TPerm SameUpToOrder Kept absStep)
open Sdmmc.Lemmas.VolN (AbsN AbsNx LabelFresh)
open Sdmmc.Lemmas.AbsFs (Abs)
open Sdmmc.Props

/-- **A `write` changes at most the slot of the file it writes to**: every other slot of every directory of every open
volume — every other file's bytes and stored entry — is the same in the abstract counterpart of the state after. -/
theorem write_isolated_aux {s : Mgr} {ghs : List Ghost} {B : AbsFsN} (hI : VolInvN s ghs) (hm : MirrorN s ghs) (hB : AbsNx s ghs B)
    (h : Nat) (data : Bytes) {i : Nat} {vi : VolInfo} (ht : fileTarget s h = some i) (hvi : s.vols[i]? = some vi)
    {k : Nat} {f : OpenFile} (hfo : Spec.AbsFs.fileOf (viewOf B vi.rawVolume) h = some (k, f)) (hfv : f.volume = vi.rawVolume) :
    ∃ ghs' A', VolInvN (step s (.write h data)).1 ghs' ∧ MirrorN (step s (.write h data)).1 ghs' ∧
        AbsN (step s (.write h data)).1 ghs' A' ∧
        ∀ hw x j, x ∈ B.ids hw → (hw, x, j) ≠ (f.volume, f.dir, f.idx) → (A'.slots hw x)[j]? = (B.slots hw x)[j]? := by
  obtain ⟨gh, hgh⟩ : ∃ gh, ghs[i]? = some gh :=
    ⟨_, List.getElem?_eq_getElem (by rw [hI.len]; exact (List.getElem?_eq_some_iff.1 hvi).1)⟩
  have hto : target s (.write h data) = some i := ht
  obtain ⟨hP, _, hAbs, hout, hcov⟩ := C01Multi.volume_view (op := .write h data) hI hm hB hto hvi hgh trivial
  obtain ⟨gh', a', hV', _, hA', hst⟩ := C01Fs.fs_step_refines gh.vol hP hAbs (SameGeom.refl _) (.write h data) hcov
  obtain ⟨A', hI', hm', hAN', hsame, hkept⟩ := C01Multi.volume_step_lifts hI hm hB hto hvi hgh trivial hV' hA'
  refine ⟨_, A', hI', hm', hAN', ?_⟩
  intro hw x j hx hne
  by_cases hwv : hw = vi.rawVolume
  · subst hwv
    have htouch : Spec.AbsFs.touched (viewOf B vi.rawVolume) (.write h data) = some (f.dir, f.idx) := by
      show Spec.AbsFs.handleSlot (viewOf B vi.rawVolume) h = _
      unfold Spec.AbsFs.handleSlot
      rw [hfo]; rfl
    have hx' : x ∈ (viewOf B vi.rawVolume).ids := hx
    have hun := C01Fs.absStep_untouched hst hx' (j := j) (by
      rw [htouch]
      intro e
      injection e with e
      obtain ⟨e1, e2⟩ := Prod.mk.inj e
      exact hne (by rw [hfv, e1, e2]))
    have hxa' : x ∈ a'.ids := Lemmas.SurviveAbs.absStep_ids hst hx'
    have e1 : (viewOf A' vi.rawVolume).slots x = a'.slots x := (hsame.slots x hxa').symm
    have e2 : A'.slots vi.rawVolume x = (viewOf A' vi.rawVolume).slots x := rfl
    rw [e2, e1]
    exact hun
  · rw [hkept.slots hw hwv]

/-- The abstract open-file record and the file slot a file handle designates; what the queries answer; what a `write`
through the handle leaves alone. -/
theorem handle_record {s : Mgr} {ghs : List Ghost} {A : AbsFsN} (hI : VolInvN s ghs) (hm : MirrorN s ghs) (hA : AbsN s ghs A)
    (h : Nat) {i : Nat} {vi : VolInfo} (ht : fileTarget s h = some i) (hvi : s.vols[i]? = some vi) :
    ∃ f, f ∈ A.files ∧ f.handle = h ∧ f.volume = vi.rawVolume ∧ ∃ m bytes,
      (A.slots vi.rawVolume f.dir)[f.idx]? = some (.file m bytes) ∧ bytes.length = f.pm.size ∧
      (∀ n, (step s (.read h n)).2.result = .ok (.bytes ((bytes.drop f.pos).take n))) ∧
      (step s (.length h)).2.result = .ok (.num f.pm.size) ∧
      (step s (.offset h)).2.result = .ok (.num f.pos) ∧
      (step s (.eof h)).2.result = .ok (.bool (decide (f.pos = f.pm.size))) ∧
      ∀ data, ∃ ghs' A', VolInvN (step s (.write h data)).1 ghs' ∧ MirrorN (step s (.write h data)).1 ghs' ∧
        AbsN (step s (.write h data)).1 ghs' A' ∧
        ∀ hw x j, x ∈ A.ids hw → (hw, x, j) ≠ (f.volume, f.dir, f.idx) → (A'.slots hw x)[j]? = (A.slots hw x)[j]? := by
  obtain ⟨B, hAB, hB⟩ := hA
  obtain ⟨gh, hgh⟩ : ∃ gh, ghs[i]? = some gh :=
    ⟨_, List.getElem?_eq_getElem (by rw [hI.len]; exact (List.getElem?_eq_some_iff.1 hvi).1)⟩
  obtain ⟨k, f, hfo, hfm, hfh, hfv, hvo⟩ := Lemmas.VolN.view_fileOf hI hB ht hvi
  have one : ∀ op : Op, target s op = some i → LabelFresh s op →
      ∃ a', absStep (viewOf B vi.rawVolume) op (a', (step s op).2.result) ∧
        (viewOf B vi.rawVolume).locked = false ∧ VolInv (proj s i) gh ∧ Abs (proj s i) gh (viewOf B vi.rawVolume) := by
    intro op hto hlf
    obtain ⟨hP, _, hAbs, hout, hcov⟩ := C01Multi.volume_view (op := op) hI hm hB hto hvi hgh hlf
    obtain ⟨gh', a', _, _, _, hst⟩ := C01Fs.fs_step_refines gh.vol hP hAbs (SameGeom.refl _) op hcov
    refine ⟨a', by rw [hout]; exact hst, by rw [hAbs.locked]; exact hP.unlocked, hP, hAbs⟩
  obtain ⟨a1, h1, hl, hP, hAbs⟩ := one (.length h) ht trivial
  obtain ⟨a2, h2, _, _, _⟩ := one (.offset h) ht trivial
  obtain ⟨a3, h3, _, _, _⟩ := one (.eof h) ht trivial
  obtain ⟨m, bytes, hsl, hlen⟩ := C01Fs.open_file_slot hP hAbs hfo
  refine ⟨f, hAB.files.symm.subset hfm, hfh, hfv, m, bytes, by rw [hAB.slots]; exact hsl, hlen, ?_, ?_, ?_, ?_, ?_⟩
  · intro n
    obtain ⟨hPn, _, hAbsn, houtn, _⟩ := C01Multi.volume_view (op := .read h n) hI hm hB ht hvi hgh trivial
    obtain ⟨m', bytes', _, hsl', hres, _⟩ := C01Fs.read_returns_model_bytes hPn hAbsn h n hfo hvo
    rw [hsl] at hsl'
    injection hsl' with e
    injection e with _ e2
    rw [houtn, hres, e2]
  · unfold absStep at h1
    rw [if_neg (by rw [hl]; exact Bool.false_ne_true)] at h1
    have h1' : Spec.AbsFs.lengthS (viewOf B vi.rawVolume) h a1 (step s (.length h)).2.result := h1
    unfold Spec.AbsFs.lengthS at h1'
    rw [hfo] at h1'
    exact h1'.2
  · unfold absStep at h2
    rw [if_neg (by rw [hl]; exact Bool.false_ne_true)] at h2
    have h2' : Spec.AbsFs.offsetS (viewOf B vi.rawVolume) h a2 (step s (.offset h)).2.result := h2
    unfold Spec.AbsFs.offsetS at h2'
    rw [hfo] at h2'
    exact h2'.2
  · unfold absStep at h3
    rw [if_neg (by rw [hl]; exact Bool.false_ne_true)] at h3
    have h3' : Spec.AbsFs.eofS (viewOf B vi.rawVolume) h a3 (step s (.eof h)).2.result := h3
    unfold Spec.AbsFs.eofS at h3'
    rw [hfo] at h3'
    exact h3'.2
  · intro data
    obtain ⟨ghs', A', g1, g2, g3, g4⟩ := write_isolated_aux hI hm hB h data ht hvi hfo hfv
    refine ⟨ghs', A', g1, g2, g3, fun hw x j hx hne => ?_⟩
    rw [hAB.slots]
    rw [hAB.ids] at hx
    exact g4 hw x j hx hne

theorem coveredNRun_take : ∀ (ops : List Op) (s : Mgr), C03Multi.CoveredNRun s ops → ∀ j, C03Multi.CoveredNRun s (ops.take j)
  | [], _, _, _ => by simp [C03Multi.CoveredNRun]
  | _ :: _, _, _, 0 => trivial
  | o :: ops, s, h, j + 1 => ⟨h.1, coveredNRun_take ops _ h.2 j⟩

theorem freshRun_take : ∀ (ops : List Op) (s : Mgr), C01Multi.FreshRun s ops → ∀ j, C01Multi.FreshRun s (ops.take j)
  | [], _, _, _ => by simp [C01Multi.FreshRun]
  | _ :: _, _, _, 0 => trivial
  | o :: ops, s, h, j + 1 => ⟨h.1, freshRun_take ops _ h.2 j⟩

end Sdmmc.Lemmas.MainC01
