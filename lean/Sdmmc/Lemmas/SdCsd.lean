/-
CSD register accessors: the generated bit-piece tables agree with the bit ranges of the SD
specification, the accessors have simple closed forms, and the capacity formulas of the driver
agree with the specification's `capacityOfCsd` (with the exact side conditions).
-/
import Sdmmc.Model.Csd
import Sdmmc.Spec.Card

namespace Sdmmc.Lemmas.SdCsd

open Sdmmc.Model Sdmmc.Gen

/-! ### 1. Bit ranges of the specification -> byte pieces -/

/-- The specification's bit range `hi:lo` of the 128-bit CSD register, transmitted most
significant byte first (byte 0 holds bits 127:120, byte 15 holds bits 7:0), as
(byte offset, start bit, number of bits) pieces, most significant piece first, one piece per
byte touched.  `r` is the byte number counted from the least significant end. -/
def specPieces (hi lo : Nat) : FieldParts :=
  (List.range (hi / 8 - lo / 8 + 1)).map fun j =>
    let r := hi / 8 - j
    let base := 8 * r
    let top := min hi (base + 7)
    let bot := max lo base
    (15 - r, bot - base, top - bot + 1)

example : specPieces 127 126 = [(0, 6, 2)] := by decide
example : specPieces 73 62 = [(6, 0, 2), (7, 0, 8), (8, 6, 2)] := by decide
example : specPieces 49 47 = [(9, 0, 2), (10, 7, 1)] := by decide
example : specPieces 83 80 = [(5, 0, 4)] := by decide
example : specPieces 69 48 = [(7, 0, 6), (8, 0, 8), (9, 0, 8)] := by decide
example : specPieces 7 0 = [(15, 0, 8)] := by decide
example : specPieces 127 0 = (List.range 16).map (fun i => (i, 0, 8)) := by decide

/-- The tables generated from the Rust source are the specification's bit ranges:
CSD_STRUCTURE 127:126, C_SIZE 73:62 (v1) / 69:48 (v2), C_SIZE_MULT 49:47, READ_BL_LEN 83:80. -/
theorem csd_fields_match_spec :
    csdV1_csd_ver = specPieces 127 126 ∧
    csdV1_device_size = specPieces 73 62 ∧
    csdV1_device_size_multiplier = specPieces 49 47 ∧
    csdV1_read_block_length = specPieces 83 80 ∧
    csdV2_csd_ver = specPieces 127 126 ∧
    csdV2_device_size = specPieces 69 48 := by decide

/-! ### 2. Closed forms of the accessors -/

theorem byteAt_lt (d : Bytes) (i : Nat) : byteAt d i < 256 := by
  unfold byteAt
  exact UInt8.toNat_lt _

theorem v1CsdVer_eq (d : Bytes) : Csd.v1CsdVer d = byteAt d 0 / 64 := by
  have h0 := byteAt_lt d 0
  simp [Csd.v1CsdVer, Csd.field, Csd.accessField, csdV1_csd_ver, List.foldl]
  omega

theorem v2CsdVer_eq (d : Bytes) : Csd.v2CsdVer d = byteAt d 0 / 64 := by
  have h0 := byteAt_lt d 0
  simp [Csd.v2CsdVer, Csd.field, Csd.accessField, csdV2_csd_ver, List.foldl]
  omega

theorem v1DeviceSize_eq (d : Bytes) :
    Csd.v1DeviceSize d = byteAt d 6 % 4 * 1024 + byteAt d 7 * 4 + byteAt d 8 / 64 := by
  have h6 := byteAt_lt d 6
  have h7 := byteAt_lt d 7
  have h8 := byteAt_lt d 8
  simp [Csd.v1DeviceSize, Csd.field, Csd.accessField, csdV1_device_size, List.foldl]
  omega

theorem v1DeviceSizeMultiplier_eq (d : Bytes) :
    Csd.v1DeviceSizeMultiplier d = byteAt d 9 % 4 * 2 + byteAt d 10 / 128 := by
  have h9 := byteAt_lt d 9
  have h10 := byteAt_lt d 10
  simp [Csd.v1DeviceSizeMultiplier, Csd.field, Csd.accessField, csdV1_device_size_multiplier,
    List.foldl]
  omega

theorem v1ReadBlockLength_eq (d : Bytes) : Csd.v1ReadBlockLength d = byteAt d 5 % 16 := by
  simp [Csd.v1ReadBlockLength, Csd.field, Csd.accessField, csdV1_read_block_length, List.foldl]

theorem v2DeviceSize_eq (d : Bytes) :
    Csd.v2DeviceSize d = byteAt d 7 % 64 * 65536 + byteAt d 8 * 256 + byteAt d 9 := by
  have h7 := byteAt_lt d 7
  have h8 := byteAt_lt d 8
  have h9 := byteAt_lt d 9
  simp [Csd.v2DeviceSize, Csd.field, Csd.accessField, csdV2_device_size, List.foldl]
  omega

/-! ### 3. Capacity -/

/-- The specification's capacity for a version-1 register, in terms of `byteAt`. -/
theorem capacityOfCsd_v1 (d : Bytes) (h : byteAt d 0 / 64 = 0) :
    Spec.Card.capacityOfCsd d =
      (byteAt d 6 % 4 * 1024 + byteAt d 7 * 4 + byteAt d 8 / 64 + 1)
        * 2 ^ (byteAt d 9 % 4 * 2 + byteAt d 10 / 128 + 2) * 2 ^ (byteAt d 5 % 16) / 512 := by
  simp only [byteAt] at h ⊢
  simp only [Spec.Card.capacityOfCsd, h, if_true]

/-- The specification's capacity for a version-2 register, in terms of `byteAt`. -/
theorem capacityOfCsd_v2 (d : Bytes) (h : byteAt d 0 / 64 ≠ 0) :
    Spec.Card.capacityOfCsd d =
      (byteAt d 7 % 64 * 65536 + byteAt d 8 * 256 + byteAt d 9 + 1) * 1024 := by
  simp only [byteAt] at h ⊢
  simp only [Spec.Card.capacityOfCsd, h, if_false]

/-- The driver's version-1 byte count, in the specification's shape. -/
theorem v1CapacityBytes_eq (d : Bytes) :
    Csd.v1CapacityBytes d =
      (byteAt d 6 % 4 * 1024 + byteAt d 7 * 4 + byteAt d 8 / 64 + 1)
        * 2 ^ (byteAt d 9 % 4 * 2 + byteAt d 10 / 128 + 2) * 2 ^ (byteAt d 5 % 16) := by
  unfold Csd.v1CapacityBytes
  rw [v1DeviceSize_eq, v1DeviceSizeMultiplier_eq, v1ReadBlockLength_eq]
  generalize byteAt d 6 % 4 * 1024 + byteAt d 7 * 4 + byteAt d 8 / 64 + 1 = c
  generalize byteAt d 9 % 4 * 2 + byteAt d 10 / 128 = m
  generalize byteAt d 5 % 16 = l
  have : m + l + 2 = (m + 2) + l := by omega
  rw [this, Nat.pow_add, Nat.mul_assoc]

/-- Version 1: the byte count is below 2^36 (C_SIZE ≤ 4095, shift ≤ 24). -/
theorem v1CapacityBytes_lt (d : Bytes) : Csd.v1CapacityBytes d ≤ 68719476736 := by
  unfold Csd.v1CapacityBytes
  rw [v1DeviceSize_eq, v1DeviceSizeMultiplier_eq, v1ReadBlockLength_eq]
  have h6 := byteAt_lt d 6
  have h7 := byteAt_lt d 7
  have h8 := byteAt_lt d 8
  have h9 := byteAt_lt d 9
  have h10 := byteAt_lt d 10
  have hc : byteAt d 6 % 4 * 1024 + byteAt d 7 * 4 + byteAt d 8 / 64 + 1 ≤ 4096 := by omega
  have hs : byteAt d 9 % 4 * 2 + byteAt d 10 / 128 + byteAt d 5 % 16 + 2 ≤ 24 := by omega
  have hp : 2 ^ (byteAt d 9 % 4 * 2 + byteAt d 10 / 128 + byteAt d 5 % 16 + 2) ≤ 2 ^ 24 :=
    Nat.pow_le_pow_right (by decide) hs
  calc _ ≤ 4096 * 2 ^ 24 := Nat.mul_le_mul hc hp
    _ = 68719476736 := by decide

/-- Version 1: `card_capacity_blocks` is the specification's block count; the `as u32` never
truncates. -/
theorem v1_blocks_eq (d : Bytes) (h : byteAt d 0 / 64 = 0) :
    Csd.v1CapacityBlocks d = Spec.Card.capacityOfCsd d := by
  have hb := v1CapacityBytes_lt d
  unfold Csd.v1CapacityBlocks
  rw [Nat.mod_eq_of_lt (by omega), capacityOfCsd_v1 d h, v1CapacityBytes_eq]

/-- Version 1, when the shift is at least 9 (C_SIZE_MULT + READ_BL_LEN ≥ 7): the byte count is
exactly 512 times the specification's block count. -/
theorem v1_bytes_eq' (d : Bytes) (h : byteAt d 0 / 64 = 0)
    (h9 : 9 ≤ (byteAt d 9 % 4 * 2 + byteAt d 10 / 128) + byteAt d 5 % 16 + 2) :
    Csd.v1CapacityBytes d = 512 * Spec.Card.capacityOfCsd d := by
  rw [capacityOfCsd_v1 d h, v1CapacityBytes_eq]
  generalize byteAt d 6 % 4 * 1024 + byteAt d 7 * 4 + byteAt d 8 / 64 + 1 = c
  revert h9
  generalize byteAt d 9 % 4 * 2 + byteAt d 10 / 128 = m
  generalize byteAt d 5 % 16 = l
  intro h9
  have e : c * 2 ^ (m + 2) * 2 ^ l = 512 * (c * 2 ^ (m + l + 2 - 9)) := by
    rw [Nat.mul_assoc, ← Nat.pow_add, Nat.mul_left_comm, show (512 : Nat) = 2 ^ 9 from rfl,
      ← Nat.pow_add]
    congr 2
    omega
  rw [e, Nat.mul_div_cancel_left _ (by decide : 0 < 512)]

/-- Version 1 with READ_BL_LEN ≥ 9 (every real card: 512-, 1024- or 2048-byte read blocks). -/
theorem v1_bytes_eq (d : Bytes) (h : byteAt d 0 / 64 = 0) (h9 : 9 ≤ byteAt d 5 % 16) :
    Csd.v1CapacityBytes d = 512 * Spec.Card.capacityOfCsd d :=
  v1_bytes_eq' d h (by omega)

/-- Version 1, unconditionally: the specification's block count is the byte count divided by
512, rounded down. -/
theorem v1_bytes_floor (d : Bytes) (h : byteAt d 0 / 64 = 0) :
    512 * Spec.Card.capacityOfCsd d ≤ Csd.v1CapacityBytes d ∧
    Csd.v1CapacityBytes d < 512 * (Spec.Card.capacityOfCsd d + 1) := by
  rw [capacityOfCsd_v1 d h, ← v1CapacityBytes_eq]
  omega

theorem v2DeviceSize_le (d : Bytes) : Csd.v2DeviceSize d ≤ 0x3FFFFF := by
  rw [v2DeviceSize_eq]
  have h7 := byteAt_lt d 7
  have h8 := byteAt_lt d 8
  have h9 := byteAt_lt d 9
  omega

/-- Version 2 below the maximal C_SIZE: the saturating multiplication does not saturate. -/
theorem v2_blocks_eq (d : Bytes) (h : byteAt d 0 / 64 ≠ 0) (hs : Csd.v2DeviceSize d < 0x3FFFFF) :
    Csd.v2CapacityBlocks d = Spec.Card.capacityOfCsd d := by
  rw [capacityOfCsd_v2 d h, ← v2DeviceSize_eq]
  unfold Csd.v2CapacityBlocks U32_MAX
  omega

/-- Version 2 at the maximal C_SIZE = 0x3FFFFF: the specification says 2^32 blocks, the `u32`
saturates one block short. -/
theorem v2_blocks_saturated (d : Bytes) (h : byteAt d 0 / 64 ≠ 0)
    (hs : Csd.v2DeviceSize d = 0x3FFFFF) :
    Csd.v2CapacityBlocks d = 4294967295 ∧ Spec.Card.capacityOfCsd d = 4294967296 := by
  rw [capacityOfCsd_v2 d h, ← v2DeviceSize_eq]
  unfold Csd.v2CapacityBlocks U32_MAX
  omega

/-- Version 2: the byte count (u64) is always 512 times the specification's block count. -/
theorem v2_bytes_eq (d : Bytes) (h : byteAt d 0 / 64 ≠ 0) :
    Csd.v2CapacityBytes d = 512 * Spec.Card.capacityOfCsd d := by
  rw [capacityOfCsd_v2 d h, ← v2DeviceSize_eq]
  unfold Csd.v2CapacityBytes
  omega

/-! ### Non-vacuity -/

example : byteAt (Spec.Card.csdV1 4095 7) 0 / 64 = 0 := by decide
example : byteAt (Spec.Card.csdV2 1023) 0 / 64 ≠ 0 := by decide
example : 9 ≤ byteAt (Spec.Card.csdV1 4095 7) 5 % 16 := by decide
example : Spec.Card.capacityOfCsd (Spec.Card.csdV2 1023) = 1048576 := by decide
example : Csd.v2CapacityBlocks (Spec.Card.csdV2 1023) = 1048576 := by decide
example : Csd.v2DeviceSize (Spec.Card.csdV2 1023) = 1023 := by decide
example : Spec.Card.capacityOfCsd (Spec.Card.csdV1 4095 7) = 2097152 := by decide
example : Csd.v1CapacityBlocks (Spec.Card.csdV1 4095 7) = 2097152 := by decide
example : Csd.v1CapacityBlocks (Spec.Card.csdV1 4095 7)
    = Spec.Card.capacityOfCsd (Spec.Card.csdV1 4095 7) := by decide
example : Csd.v1CapacityBytes (Spec.Card.csdV1 4095 7) = 1073741824 := by decide
example : Csd.v2DeviceSize (Spec.Card.csdV2 0x3FFFFF) = 0x3FFFFF := by decide
example : Csd.v2CapacityBlocks (Spec.Card.csdV2 0x3FFFFF) = 4294967295 := by decide
example : Spec.Card.capacityOfCsd (Spec.Card.csdV2 0x3FFFFF) = 4294967296 := by decide

/-- The side condition of `v1_bytes_eq'` is needed: for the all-zero register (C_SIZE = 0,
C_SIZE_MULT = 0, READ_BL_LEN = 0) the driver's byte count is 4 and the block count is 0. -/
example : Csd.v1CapacityBytes [] = 4 ∧ Spec.Card.capacityOfCsd [] = 0 ∧ Csd.v1CapacityBlocks [] = 0 := by
  decide

end Sdmmc.Lemmas.SdCsd
