/-
C11, arbitrary fault placement — `write`: RE-ASSEMBLING THE INVARIANT from the loop invariant of `write`
(`write_assemble`: the second half of `VolX.write_core`, with the facts the first half obtains from
`WriteRefines.write_refines_x` as hypotheses, the lost chains after the call being any list `X'`).
-/
import Sdmmc.Lemmas.VolXApiWrite

namespace Sdmmc.Lemmas.VolX
open Sdmmc.Lemmas.WriteRefines Sdmmc.Lemmas.VolApi
open Sdmmc.Model Sdmmc.Model.Fat Sdmmc.Spec.Volume Sdmmc.Lemmas.VolBase Sdmmc.Lemmas.VolTree
open Sdmmc.Spec hiding NoFault Coherent
open Sdmmc.Lemmas.VolDisk Sdmmc.Lemmas.VolMed Sdmmc.Lemmas.VolEng
open Sdmmc.Lemmas.FBasic (NoFault Coherent)
open Sdmmc.Lemmas.MHoare

/-- **Re-assembling the invariant around a written file.**  `s` satisfies the invariant (lost chains `X`); slot `i` holds
`f` whose chain is `cs`, the chains being `withChain A cs B`.  In `s'` only device, cache, the record in slot `i` (now
`f'`) and the bookkeeping of the volume record differ; the chain of the file is `cs'`, an extension of `cs`; `Owns` holds
of `withChain A cs' B ++ X'`; every block that is neither a FAT block nor a block of `cs'` is as before; the record `f'`
keeps slot, name and volume, is marked modified and is consistent with `cs'`.  Then `s'` satisfies the invariant with the
lost chains `X'`. -/
theorem write_assemble {X X' : List (List Nat)} {s s' : Mgr} {gh : Ghost} (hI : VolInvX X s gh) {i : Nat} {f f' : FileInfo}
    (hf : s.files[i]? = some f) {vi v' : VolInfo} (hv : s.vols = [vi]) (hvol : vi.vol = gh.vol)
    (hrv : f.rawVolume = vi.rawVolume) {cs cs' : List Nat} (hcsdef : chainOf gh.G f.entry.cluster = cs)
    {A B : List (List Nat)} (hGeq : gh.G = withChain A cs B)
    (heq : s' = { s with dev := s'.dev, cache := s'.cache, files := s.files.set i f', vols := s.vols.set 0 v' })
    (hvid : v' = { vi with vol := v'.vol }) (hsg : SameGeom gh.vol v'.vol)
    (hok' : FileOK v'.vol s'.dev.disk f' cs') (hcur' : cs' = [] → f'.curCluster < 2) (hpre : cs <+: cs')
    (hownX : Owns v'.vol s'.dev.disk (withChain A cs' B ++ X'))
    (hnf' : s'.dev.faults = []) (hcoh' : ∀ j, s'.cache.tag = some j → s'.cache.blk = s'.dev.disk.get j)
    (hblk' : BlocksOK s'.dev.disk) (hunl' : s'.locked = false) (hhint' : HintOK v'.vol)
    (hdisk : ∀ b, ¬ IsFatBlock gh.vol b → ¬ IsClusterBlock gh.vol cs' b → s'.dev.disk.get b = s.dev.disk.get b)
    (e_key : fkey f' = fkey f) (e_name : f'.entry.name = f.entry.name) (hattr : AttrsOK f') (e_dirty : f'.dirty = true)
    (e_rv : f'.rawVolume = f.rawVolume) (hclkeep : cs' = [] → f'.entry.cluster = f.entry.cluster) :
    VolInvX X' s' { vol := v'.vol, G := withChain A cs' B, dirs := gh.dirs } := by
  have hfm : f ∈ s.files := List.mem_of_getElem? hf
  have hM := hI.med
  have hG : HeadsOK gh.G := med_heads hM
  have hT := hI.med.tree
  obtain ⟨hok, hcur⟩ := hI.med.fileOK f hfm
  rw [hcsdef] at hok hcur
  have hhead : cs ≠ [] → cs ∈ gh.G ∧ cs.head? = some f.entry.cluster := by
    intro hne
    rw [← hcsdef] at hne ⊢
    exact chainOf_spec hG ((chainOf_ne_nil_iff hG).1 hne)
  have hown' : Owns v'.vol s'.dev.disk (withChain A cs' (B ++ X')) := by rw [← withChain_append]; exact hownX
  have htouch : ∀ b, ¬ IsFatBlock gh.vol b → ¬ IsClusterBlock gh.vol cs' b → s'.dev.disk.get b = s.dev.disk.get b := hdisk
  have hcs'r : ∀ x, x ∈ cs' → InRange gh.vol x := fun x hx => (hsg.inRange x).1 (WriteRefines.fileOK_inRange hok' x hx)
  have hG' : HeadsOK (withChain A cs' B) := heads_left (heads_of_owns hownX)
  -- the chain of the file, before and after
  have hcl0 : cs = [] → f.entry.cluster = 0 := fun e => cluster_zero_of_nil hT hG hfm (by rw [hcsdef]; exact e)
  have hhead' : cs' ≠ [] → cs'.head? = some f'.entry.cluster ∧ 2 ≤ f'.entry.cluster := by
    intro hne
    rcases hok'.chain with ⟨_, h2, _⟩ | hch
    · exact absurd h2 hne
    · have h1 := ForestBase.chain_head_eq hch
      refine ⟨by rw [head?_of_ne hne, h1], ?_⟩
      have := hG'.ge cs' (self_mem_withChain hne)
      rwa [h1] at this
  have hcs'nil : cs' = [] → cs = [] ∧ f'.entry.cluster = 0 := by
    intro e
    have h1 : cs = [] := by rw [e] at hpre; exact List.prefix_nil.1 hpre
    exact ⟨h1, by rw [hclkeep e]; exact hcl0 h1⟩
  have hsame : cs ≠ [] → cs' ≠ [] ∧ f'.entry.cluster = f.entry.cluster := by
    intro hne
    have hne' : cs' ≠ [] := fun e => hne (hcs'nil e).1
    refine ⟨hne', ?_⟩
    obtain ⟨t, ht⟩ := hpre
    have h1 := (hhead hne).2
    have h2 := (hhead' hne').1
    rw [← ht, List.head?_append_of_ne_nil _ hne, h1] at h2
    exact (Option.some.inj h2).symm
  have hch' : chainOf (withChain A cs' B) f'.entry.cluster = cs' := by
    by_cases hne : cs' = []
    · rw [(hcs'nil hne).2, chainOf_lt_two (h := 0) hG' (by decide)]; exact hne.symm
    · exact chainOf_of_mem hG' (self_mem_withChain hne) (hhead' hne).1
  -- every other chain is still there
  have hrest : ∀ Y c, Y ∈ gh.G → Y.head? = some c → c ≠ f.entry.cluster →
      Y ∈ A ++ B ∧ chainOf (withChain A cs' B) c = Y := by
    intro Y c hY hYh hne
    have hm : Y ∈ A ++ B := mem_rest (by rw [← hGeq]; exact hY) (fun h => (hhead h).2) hYh hne
    exact ⟨hm, chainOf_of_mem hG' (WriteRefines.mem_withChain_of_mem cs' hm) hYh⟩
  -- the directories
  have hdirne : ∀ h, h ∈ dirIds gh.dirs → ¬ isFixedRoot gh.vol h → dirHead gh.vol h ≠ f.entry.cluster := by
    intro h hh hfx e
    have h2 : 2 ≤ dirHead gh.vol h := by
      obtain ⟨Y, hY, hYe⟩ := List.mem_map.1 (dirHead_mem hM hh hfx)
      have := hG.ge Y hY
      rw [hYe] at this; exact this
    obtain ⟨n1, n2⟩ := file_cluster_not_dir hT hG hfm (by omega)
    rcases dirHead_cases' (dirs := gh.dirs) hh hfx with h1 | h1
    · exact n1 (e ▸ h1)
    · exact n2 (e ▸ h1)
  have hdir : ∀ h, h ∈ dirIds gh.dirs → ¬ isFixedRoot gh.vol h →
      chainOf (withChain A cs' B) (dirHead gh.vol h) = chainOf gh.G (dirHead gh.vol h) := by
    intro h hh hfx
    obtain ⟨hm, hhd⟩ := dirChain_spec hM hh hfx
    exact (hrest _ _ hm hhd (hdirne h hh hfx)).2
  have hblocks : ∀ h, h ∈ dirIds gh.dirs → ∀ sl, sl ∈ dirSlots gh.vol s.dev.disk gh.G h →
      s'.dev.disk.get sl.1 = s.dev.disk.get sl.1 := by
    intro h hh sl hsl
    apply htouch
    · intro hfat
      have := WriteRefines.isFatBlock_region hI.med.geom hfat
      rcases dirSlot_not_fat hM hh hsl with h1 | h1 <;> rw [this] at h1 <;> cases h1
    · intro hcb
      have hreg := WriteRefines.isClusterBlock_region hI.med.geom hcs'r hcb
      by_cases hfx : isFixedRoot gh.vol h
      · rw [dirSlots_fixed hfx] at hsl
        have := fixedRootSlots_region hI.med.geom hfx.2 hsl
        rw [hreg] at this; cases this
      · rw [dirSlots_chain hfx] at hsl
        obtain ⟨hm, hhd⟩ := dirChain_spec hM hh hfx
        obtain ⟨c, hc, hrunS⟩ := mem_chainSlots.1 hsl
        obtain ⟨j, q, hj, _, rfl⟩ := mem_runSlots.1 hrunS
        have hmAB := (hrest _ _ hm hhd (hdirne h hh hfx)).1
        exact WriteRefines.clusterBlock_not_of_not_mem hI.med.geom hcs'r (med_inRange hM hm hc) hj
          (WriteRefines.withChain_disjoint hown' (by rw [← List.append_assoc]; exact List.mem_append_left _ hmAB) c hc) hcb
  -- the tree
  have htree : TreeOK gh.vol.fatType (clusterBytesLen gh.vol) (rootHead gh.vol) (withChain A cs' B) gh.dirs
      (dirSlots gh.vol s.dev.disk gh.G) (s.files.set i f') := by
    apply tree_file_set hT hG (objPos_nodup hM) hf e_key e_name hattr
    · intro hd; rw [e_dirty] at hd; cases hd
    · intro c hc hne
      obtain ⟨hm, hhd⟩ := chainOf_spec hG hc
      rw [(hrest _ _ hm hhd hne).2]; exact Nat.le_refl _
    · intro a
      by_cases hne : cs = []
      · by_cases hne' : cs' = []
        · rw [(hcs'nil hne').2, hcl0 hne, hGeq, hne, hne']
        · have hc' := hhead' hne'
          have hf'0 : f'.entry.cluster ≠ 0 := by omega
          rw [if_pos hf'0, hcl0 hne, hGeq, hne, WriteRefines.withChain_nil, WriteRefines.withChain_ne hne']
          simp only [heads, List.map_append, List.count_append, List.map_cons, List.map_nil, List.append_nil,
            headD_of_head? hc'.1, List.count_nil, ne_eq, not_true_eq_false, if_false]
          omega
      · obtain ⟨hne', hcl⟩ := hsame hne
        have : heads (withChain A cs' B) = heads gh.G := by
          rw [hGeq, WriteRefines.withChain_ne hne, WriteRefines.withChain_ne hne']
          simp only [heads, List.map_append, List.map_cons, List.map_nil]
          rw [headD_of_head? (hhead' hne').1, headD_of_head? (hhead hne).2, hcl]
        rw [hcl, this]
    · by_cases hne' : cs' = []
      · left
        refine ⟨(hcs'nil hne').2, ?_⟩
        rcases hok'.chain with ⟨_, _, h3⟩ | hch
        · exact h3
        · exact absurd hne' (ChainL.chain_ne_nil hch)
      · right
        refine ⟨by have := (hhead' hne').2; omega, ?_⟩
        rw [hch', ← WriteRefines.sameGeom_clusterBytesLen hsg]
        exact hok'.size_fits
  -- the open files
  have hfilesOK : ∀ g, g ∈ s.files.set i f' →
      FileOK v'.vol s'.dev.disk g (chainOf (withChain A cs' B) g.entry.cluster) ∧
      (chainOf (withChain A cs' B) g.entry.cluster = [] → g.curCluster < 2) := by
    intro g hg
    rcases mem_set_cases hT.filesDistinct hf hg with hgeq | ⟨hgm, hgk⟩
    · rw [hgeq, hch']; exact ⟨hok', hcur'⟩
    · obtain ⟨hokg, hcurg⟩ := hI.med.fileOK g hgm
      by_cases hgn : chainOf gh.G g.entry.cluster = []
      · have hg0 := cluster_zero_of_nil hT hG hgm hgn
        have h1 : chainOf (withChain A cs' B) g.entry.cluster = [] := chainOf_lt_two hG' (by omega)
        rw [h1]; rw [hgn] at hokg
        exact ⟨fileOK_of_owns hsg hokg hownX (.inl rfl), fun _ => hcurg hgn⟩
      · obtain ⟨hm, hhd⟩ := chainOf_spec hG ((chainOf_ne_nil_iff hG).1 hgn)
        have hg0 : g.entry.cluster ≠ 0 := by
          intro e; exact hgn (chainOf_lt_two hG (by omega))
        obtain ⟨hmAB, hce⟩ := hrest _ _ hm hhd (files_cluster_ne hT hG hfm hgm hgk hg0)
        rw [hce]
        exact ⟨fileOK_of_owns hsg hokg hownX (.inr (List.mem_append_left X' (WriteRefines.mem_withChain_of_mem cs' hmAB))), fun e => absurd e hgn⟩
  have hMX := medX_fat_update (X' := X') (G' := withChain A cs' B) hM hsg hhint' hblk'
    hownX hdir hblocks rfl htree hfilesOK
  -- the tables
  have hfiles' : s'.files = s.files.set i f' := congrArg Mgr.files heq
  have hvols' : s'.vols = [v'] := by
    have : s'.vols = s.vols.set 0 v' := congrArg Mgr.vols heq
    rw [this, hv]; rfl
  refine ⟨hnf', hcoh', hunl', ?_, .inr ⟨v', hvols', rfl⟩, ?_, ?_, ?_⟩
  · have : s'.maxVols = s.maxVols := by rw [heq]
    rw [this]; exact hI.maxVols
  · rw [hfiles']; exact med_of_medX hMX
  · intro g hg
    rw [hfiles'] at hg
    refine ⟨v', hvols', ?_⟩
    have hv'rv : v'.rawVolume = vi.rawVolume := by rw [hvid]
    rw [hv'rv]
    rcases List.mem_or_eq_of_mem_set hg with hg | hg
    · obtain ⟨vi2, hv2, he2⟩ := hI.fileVols g hg
      rw [hv] at hv2; cases hv2; exact he2
    · rw [hg, e_rv]; exact hrv
  · intro di hdi
    have : s'.dirs = s.dirs := by rw [heq]
    rw [this] at hdi; exact hI.openDirs di hdi


end Sdmmc.Lemmas.VolX
