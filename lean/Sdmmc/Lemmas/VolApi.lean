/-
Volume invariant (C03), layer 3 (API): scaffolding — running a FAT computation on the one open volume
(`withVol_one`), re-assembling `VolInv` after it (`volInv_after`), and the calls `flush_file`,
`close_file`.
-/
import Sdmmc.Lemmas.VolEng2
import Sdmmc.Lemmas.MHoare
import Sdmmc.Lemmas.DirMgr

namespace Sdmmc.Lemmas.VolApi
open Sdmmc.Model Sdmmc.Model.Fat Sdmmc.Spec.Volume Sdmmc.Lemmas.VolBase Sdmmc.Lemmas.VolTree
open Sdmmc.Spec hiding NoFault Coherent
open Sdmmc.Lemmas.VolDisk Sdmmc.Lemmas.VolMed Sdmmc.Lemmas.VolEng
open Sdmmc.Lemmas.FBasic (NoFault Coherent)
open Sdmmc.Lemmas.MHoare

/-- The engine state a FAT computation on the open volume starts from. -/
def fsOf (s : Mgr) (gh : Ghost) : FS := { dev := s.dev, cache := s.cache, vol := gh.vol }

/-- The manager after a FAT computation on its one volume ended in `fs'`. -/
def afterVol (s : Mgr) (vi : VolInfo) (fs' : FS) : Mgr :=
  { s with dev := fs'.dev, cache := fs'.cache, vols := [{ vi with vol := fs'.vol }] }

theorem withVol_one {α : Type} (f : F α) {s : Mgr} {vi : VolInfo} {gh : Ghost} (hv : s.vols = [vi]) (hvol : vi.vol = gh.vol) :
    withVol 0 f s = ((f (fsOf s gh)).1, afterVol s vi (f (fsOf s gh)).2) := by
  rw [DirMgr.withVol_eq 0 f s vi (by rw [hv]; rfl)]
  unfold afterVol fsOf
  rw [hvol, hv]
  rfl

theorem volInv_fs {s : Mgr} {gh : Ghost} (hI : VolInv s gh) :
    NoFault (fsOf s gh) ∧ Coherent (fsOf s gh) ∧ MedX (fsOf s gh).vol (fsOf s gh).dev.disk s.files gh [] :=
  ⟨hI.noFault, hI.coherent, medX_of_med hI.med⟩

/-- Re-assembling the invariant after a FAT computation on the open volume (and a change of the tables). -/
theorem medX_ghost {v : FatVolume} {d : Disk} {files : List FileInfo} {gh gh' : Ghost} {X : List (List Nat)}
    (h : MedX v d files gh X) (hG : gh'.G = gh.G) (hD : gh'.dirs = gh.dirs) : MedX v d files gh' X := by
  obtain ⟨h1, h2, h3, h4, h5, h6⟩ := h
  exact ⟨h1, h2, h3, by rw [hG]; exact h4, by rw [hG, hD]; exact h5, by rw [hG]; exact h6⟩

theorem volInv_after {s : Mgr} {gh : Ghost} (hI : VolInv s gh) {vi : VolInfo} {fs' : FS} {gh' : Ghost}
    {files' : List FileInfo} {dirs' : List DirInfo} (hn : NoFault fs') (hc : Coherent fs') (hvol : gh'.vol = fs'.vol)
    (hM : MedX fs'.vol fs'.dev.disk files' gh' [])
    (hfv : ∀ f, f ∈ files' → f.rawVolume = vi.rawVolume) (hod : ∀ di, di ∈ dirs' → ValidDir gh'.dirs di.cluster)
    (nid : Nat) :
    VolInv { afterVol s vi fs' with files := files', dirs := dirs', nextId := nid } gh' := by
  refine ⟨hn, hc, hI.unlocked, hI.maxVols, .inr ⟨_, rfl, hvol.symm⟩, ?_, ?_, hod⟩
  · rw [hvol]; exact med_of_medX hM
  · intro f hf
    exact ⟨_, rfl, hfv f hf⟩

/-- The same when the tables are unchanged. -/
theorem volInv_afterVol {s : Mgr} {gh : Ghost} (hI : VolInv s gh) {vi : VolInfo} (hv : s.vols = [vi]) {fs' : FS} {gh' : Ghost}
    (hn : NoFault fs') (hc : Coherent fs') (hvol : gh'.vol = fs'.vol) (hM : MedX fs'.vol fs'.dev.disk s.files gh' [])
    (hd : ∀ c, ValidDir gh.dirs c → ValidDir gh'.dirs c) : VolInv (afterVol s vi fs') gh' := by
  have := volInv_after (files' := s.files) (dirs' := s.dirs) (vi := vi) hI hn hc hvol hM ?_ ?_ s.nextId
  · exact this
  · intro f hf
    obtain ⟨vi', hv', he⟩ := hI.fileVols f hf
    rw [hv] at hv'
    cases hv'
    exact he
  · intro di hdi
    exact hd _ (hI.openDirs di hdi)

/-- The open volume, when a file is open. -/
theorem vol_of_file {s : Mgr} {gh : Ghost} (hI : VolInv s gh) {f : FileInfo} (hf : f ∈ s.files) :
    ∃ vi, s.vols = [vi] ∧ vi.vol = gh.vol ∧ f.rawVolume = vi.rawVolume ∧ getVolumeById f.rawVolume s = (.ok 0, s) := by
  obtain ⟨vi, hv, he⟩ := hI.fileVols f hf
  rcases hI.vols with h0 | ⟨vi', hv', hvol⟩
  · rw [h0] at hv; cases hv
  · rw [hv] at hv'; cases hv'
    refine ⟨vi, hv, hvol, he, ?_⟩
    apply getVolumeById_ok
    rw [hv]
    simp [he]

/-! ### `flush_file` -/

/-- `flush_file` on a valid handle succeeds, keeps the tables and the invariant, and afterwards the
slot of the file carries the record's cluster and size. -/
theorem flush_api {s : Mgr} {gh : Ghost} (hI : VolInv s gh) {file i : Nat} {f : FileInfo}
    (hidx : s.files.findIdx? (·.rawFile = file) = some i) (hf : s.files[i]? = some f) :
    ∃ s', flushFile file s = (.ok (), s') ∧ s'.files = s.files ∧ s'.dirs = s.dirs ∧ s'.nextId = s.nextId ∧
      ∃ gh', VolInv s' gh' ∧ SameGeom gh.vol gh'.vol ∧ gh'.dirs = gh.dirs ∧ gh'.G = gh.G ∧
      (∀ h, h ∈ dirIds gh'.dirs → ∀ o, o ∈ objects h (dirSlots gh'.vol s'.dev.disk gh'.G h) → spos o = fkey f →
        sCluster gh'.vol.fatType o = f.entry.cluster ∧ sSize o = f.entry.size) := by
  have hfm : f ∈ s.files := List.mem_of_getElem? hf
  have h1 := getFileById_ok hidx
  have h2 := getFile_ok hf
  by_cases hd : f.dirty = true
  · obtain ⟨vi, hv, hvol, hrv, h3⟩ := vol_of_file hI hfm
    obtain ⟨hn, hc, hM⟩ := volInv_fs hI
    have hassert : ¬ (f.entry.size ≠ 0 ∧ f.entry.cluster = 0) := by
      rintro ⟨hs, hcl⟩
      obtain ⟨hok, _⟩ := hI.med.fileOK f hfm
      rcases hok.chain with ⟨_, _, h0⟩ | hch
      · exact hs h0
      · have := (ChainL.chain_inRange hch _ (ForestBase.chain_head_mem hch)).1
        omega
    rw [DirMgr.flushFile_dirty file i 0 f s h1 h2 hd h3 hassert, withVol_one _ hv hvol]
    obtain ⟨fs1, hr1, hn1, hc1, hv1, hM1⟩ := updateInfo_med hM hn hc
    obtain ⟨fs2, hr2, hn2, hc2, hv2, hM2, hsync⟩ := flush_med hM1 hn1 hc1 hfm
    have hrun : DirEntryIO.flushF f.entry (fsOf s gh) = (.ok (), fs2) := by
      unfold DirEntryIO.flushF
      rw [FBasic.bind_ok hr1, hr2]
    rw [hrun]
    refine ⟨_, rfl, rfl, rfl, rfl, { gh with vol := fs2.vol }, ?_, SameGeom.of_eq (hv2.trans hv1), rfl, rfl, ?_⟩
    · exact volInv_afterVol hI hv hn2 hc2 rfl (medX_ghost hM2 rfl rfl) (fun _ h => h)
    · intro h hh o ho hpo
      have := hsync h hh o ho hpo
      rw [hv1] at this
      have hvv : fs2.vol = (fsOf s gh).vol := hv2.trans hv1
      rw [hvv]
      exact this
  · have hd' : f.dirty = false := by simpa using hd
    rw [DirMgr.flushFile_clean file i f s h1 h2 hd']
    refine ⟨s, rfl, rfl, rfl, rfl, gh, hI, SameGeom.refl _, rfl, rfl, ?_⟩
    intro h hh o ho hpo
    obtain ⟨h', hh', A, o', B, hO, hpo', _, _, hcl, _⟩ := file_object hI.med.tree hfm
    have hpos := objPos_nodup (medX_of_med hI.med)
    have ho' : o' ∈ objects h' (dirSlots gh.vol s.dev.disk gh.G h') := by rw [hO]; simp
    by_cases hhh : h = h'
    · subst hhh
      by_cases hoo : o = o'
      · subst hoo; exact hcl hd'
      · exfalso
        have hmem : o ∈ A ++ B := by
          rw [hO] at ho
          simp only [List.mem_append, List.mem_singleton] at ho ⊢
          tauto
        exact pos_ne_of_split hpos hh hO h hh o ho (fun _ => hmem) (hpo.trans hpo'.symm)
    · exfalso
      exact pos_ne_of_split hpos hh' hO h hh o ho (fun e => absurd e hhh) (hpo.trans hpo'.symm)

end Sdmmc.Lemmas.VolApi
