/-
Clause 5 of C10 at API level: the FAT-level pieces of `VolCrashXStep.lean` restated for `CIXP P` (the clause of the
boundary state, `hD`, is carried to every crash point of the piece).
-/
import Sdmmc.Lemmas.VolCrashDBase

namespace Sdmmc.Lemmas.VolCrashD
open Sdmmc.Model Sdmmc.Model.Fat Sdmmc.Spec.Volume
open Sdmmc.Spec hiding NoFault Coherent
open Sdmmc.Lemmas.FBasic
open Sdmmc.Lemmas.VolBase Sdmmc.Lemmas.VolTree Sdmmc.Lemmas.VolMed Sdmmc.Lemmas.VolDisk Sdmmc.Lemmas.VolEng
open Sdmmc.Lemmas.CrashBase Sdmmc.Lemmas.ForestStep Sdmmc.Lemmas.ForestBase Sdmmc.Lemmas.ForestOwns
open Sdmmc.Lemmas.ChainL Sdmmc.Lemmas.ForestTrunc Sdmmc.Lemmas.VolCrash Sdmmc.Lemmas.VolCrashX
open Sdmmc.Lemmas.FatOps (RO)

/-! ### The pieces -/

section Record
variable {v : FatVolume} {d0 : Disk} {files : List FileInfo} {gh : Ghost} {X : List (List Nat)} {P : Nat → Prop}

/-- The medium differs from a boundary at most in FAT entries of clusters outside the record (not in use afterwards), in
blocks that hold no directory slot, and in FAT copy 2. -/
theorem cixp_within (hM : MedX v d0 files gh X) (hR : RawOKX v.fatType d0 files) (hD : DirClustersInit v P d0 gh) {d : Disk} {t : List Nat} {dirty : Nat → Prop}
    (hW : Within v d0 d t dirty) (ht : ∀ x, x ∈ t → x ∉ (gh.G ++ X).flatten) (hd : DirClean v d0 gh dirty)
    (htu : ∀ x, x ∈ t → ¬ isUsed v d x) : CIXP P v d := by
  refine cixp_of_record hM hR hD (R := gh.G ++ X) (owns_within hM.owns hW ht htu)
    (fun x hx => rawRefs_heads_all hM hR.raw hx)
    (fun h hh hf => List.mem_append_left _ (dirChain_spec hM hh hf).1) (fun h hh s hs => ?_)
  refine hW.nonFat s.1 ?_ (hd h hh s hs)
  rcases dirSlot_not_fat hM hh hs with e | e <;> rw [e] <;> decide

end Record

theorem ro_cixp {P : Nat → Prop} {v : FatVolume} {s s' : FS} (h : RO s s') (hp : CIXP P v s.dev.disk) : CrashAll (CIXP P v) s s' := CrashAll.of_ro h hp

/-- One block write between two `CIXP P` media. -/
theorem single_cixp {P : Nat → Prop} {v : FatVolume} {s s' : FS} {b : Nat} {p : Block} (hw : s'.dev.wlog = (b, p) :: s.dev.wlog)
    (hd : s'.dev.disk = s.dev.disk.set b p) (h0 : CIXP P v s.dev.disk) (h1 : CIXP P v s'.dev.disk) : CrashAll (CIXP P v) s s' :=
  (CrashData.single_write_crash hw hd).mono fun d hd => by
    rcases hd with rfl | rfl
    · exact h0
    · exact h1

/-- The clusters the record of a stage of a cut owns are clusters of the record before. -/
theorem trunc_flatten_sub {A B : List (List Nat)} {pre tail : List Nat} {x j c : Nat}
    (h : c ∈ (A ++ ([pre ++ [x]] ++ remOf (tail.drop j)) ++ B).flatten) : c ∈ (A ++ [pre ++ x :: tail] ++ B).flatten := by
  simp only [List.flatten_append, List.flatten_cons, List.flatten_nil, remOf_flatten, List.mem_append, List.append_nil,
    List.mem_cons, List.not_mem_nil, or_false] at h ⊢
  rcases h with (h | (h | h) | h) | h
  · exact .inl (.inl h)
  · exact .inl (.inr (.inl h))
  · exact .inl (.inr (.inr (.inl h)))
  · exact .inl (.inr (.inr (.inr (List.mem_of_mem_drop h))))
  · exact .inr h

/-- No cluster comes into use: the clusters in use on `d` are among those of the record `R0` of `d0`. -/
theorem used_sub {v : FatVolume} {d0 d : Disk} {R0 R : List (List Nat)} (hO0 : Owns v d0 R0) (hO : Owns v d R)
    (hsub : ∀ c, c ∈ R.flatten → c ∈ R0.flatten) : ∀ c, isUsed v d c → isUsed v d0 c :=
  fun c hc => (hO0.2.2 c).2 (hsub c ((hO.2.2 c).1 hc))

section Pieces
variable {files : List FileInfo} {gh : Ghost} {X : List (List Nat)} {P : Nat → Prop}

/-- A successful allocation from a boundary state to a `CIXP P` medium. -/
theorem alloc_cixp {s s' : FS} (hM : MedX s.vol s.dev.disk files gh X) (hR : RawOKX s.vol.fatType s.dev.disk files)
    (hD : DirClustersInit s.vol P s.dev.disk gh)
    (hn : NoFault s) (hc : Coherent s) {prev : Option Nat} {zero : Bool} {c : Nat}
    (hp : ∀ p, prev = some p → p < endCluster s.vol)
    (h : allocCluster prev zero s = (.ok c, s')) (hfin : CIXP P s.vol s'.dev.disk) : CrashAll (CIXP P s.vol) s s' := by
  obtain ⟨hc2, hcE, hfree⟩ := FatOps.alloc_in_range_and_free s s' prev zero c hn hc hM.hint h
  have hcA : c ∉ (gh.G ++ X).flatten := fun hx => ((hM.owns.2.2 c).2 hx).2.1 hfree
  have hcG : c ∉ gh.G.flatten := fun hx => hcA (by rw [List.flatten_append]; exact List.mem_append_left _ hx)
  have hclean : DirClean s.vol s.dev.disk gh (CrashAlloc.zeroing s.vol zero c) :=
    dirClean_cluster hM ⟨hc2, hcE⟩ hcG _
  obtain ⟨hcr, _⟩ := CrashAlloc.alloc_crash s s' prev zero c hn hc hM.blocksOK hM.geom hM.hint hp h
  refine hcr.mono fun d hd => ?_
  rcases hd.1 with hA | ⟨hB, heof, _⟩ | ⟨hC, _⟩
  · exact cixp_within hM hR hD hA (fun x hx => by cases hx) hclean (fun x hx => by cases hx)
  · refine cixp_of_record hM hR hD (R := (gh.G ++ X) ++ [[c]]) (owns_add_eof hM.owns hB hcA ⟨hc2, hcE⟩ heof)
      (fun x hx => heads_append_left (rawRefs_heads_all hM hR.raw hx))
      (fun h hh hf => List.mem_append_left _ (List.mem_append_left _ (dirChain_spec hM hh hf).1)) (fun h hh sl hs => ?_)
    refine hB.nonFat sl.1 ?_ (hclean h hh sl hs)
    rcases dirSlot_not_fat hM hh hs with e | e <;> rw [e] <;> decide
  · exact cixp_view hfin hC

/-- A crash point of a cut: crash-consistent, and no cluster came into use. -/
theorem trunc_point {v : FatVolume} {d0 d : Disk} (hM : MedX v d0 files gh X) (hR : RawOKX v.fatType d0 files)
    (hD : DirClustersInit v P d0 gh) {A B : List (List Nat)} {pre tail : List Nat} {x : Nat}
    (hG : gh.G ++ X = A ++ [pre ++ x :: tail] ++ B)
    (hnd : ∀ h, h ∈ dirIds gh.dirs → ¬ isFixedRoot v h → chainOf gh.G (dirHead v h) ≠ pre ++ x :: tail)
    (ho : Owns v d0 (A ++ [pre ++ x :: tail] ++ B)) (htc : CrashFat.TruncCrash v d0 x tail d) :
    CIXP P v d ∧ ∀ c, isUsed v d c → isUsed v d0 c := by
  have hmemG : ∀ h, h ∈ dirIds gh.dirs → ¬ isFixedRoot v h → chainOf gh.G (dirHead v h) ∈ gh.G ++ X :=
    fun h hh hf => List.mem_append_left _ (dirChain_spec hM hh hf).1
  have hblkOf : (∀ i, regionOf v i ≠ .fat → d.get i = d0.get i) →
      ∀ h, h ∈ dirIds gh.dirs → ∀ sl, sl ∈ dirSlots v d0 gh.G h → d.get sl.1 = d0.get sl.1 := by
    intro hblocks h hh sl hs
    refine hblocks sl.1 ?_
    rcases dirSlot_not_fat hM hh hs with e | e <;> rw [e] <;> decide
  rcases htc with hv | ⟨j, _, hst⟩
  · have hO := owns_view ho hv
    exact ⟨cixp_of_record hM hR hD (R := A ++ [pre ++ x :: tail] ++ B) hO
      (fun y hy => hG ▸ rawRefs_heads_all hM hR.raw hy) (fun h hh hf => hG ▸ hmemG h hh hf) (hblkOf hv.nonFat),
      used_sub ho hO fun _ h => h⟩
  · have hO := owns_trunc_stage ho hst
    refine ⟨cixp_of_record hM hR hD (R := A ++ ([pre ++ [x]] ++ remOf (tail.drop j)) ++ B) hO
      (fun y hy => ?_) (fun h hh hf => ?_) (hblkOf fun i hi => hst.within.nonFat i hi id),
      used_sub ho hO fun _ h => trunc_flatten_sub h⟩
    · have := rawRefs_heads_all hM hR.raw hy
      rw [hG] at this
      have hh : (pre ++ [x]).headD 0 = (pre ++ x :: tail).headD 0 := by cases pre <;> rfl
      obtain ⟨cs, hcs, he⟩ := List.mem_map.1 this
      rcases List.mem_append.1 hcs with hcs | hcs
      · rcases List.mem_append.1 hcs with hcs | hcs
        · exact List.mem_map.2 ⟨cs, List.mem_append_left _ (List.mem_append_left _ hcs), he⟩
        · rw [List.mem_singleton.1 hcs] at he
          exact List.mem_map.2 ⟨pre ++ [x], List.mem_append_left _ (List.mem_append_right _
            (List.mem_append_left _ (List.mem_singleton.2 rfl))), hh.trans he⟩
      · exact List.mem_map.2 ⟨cs, List.mem_append_right _ hcs, he⟩
    · have hm := hmemG h hh hf
      rw [hG] at hm
      rcases List.mem_append.1 hm with hm | hm
      · rcases List.mem_append.1 hm with hm | hm
        · exact List.mem_append_left _ (List.mem_append_left _ hm)
        · exact absurd (List.mem_singleton.1 hm) (hnd h hh hf)
      · exact List.mem_append_right _ hm


/-- Cutting a chain of the record that is no directory chain. -/
theorem truncate_cixp {s : FS} (hM : MedX s.vol s.dev.disk files gh X) (hR : RawOKX s.vol.fatType s.dev.disk files)
    (hD : DirClustersInit s.vol P s.dev.disk gh)
    (hn : NoFault s) (hc : Coherent s) {A B : List (List Nat)} {pre tail : List Nat} {x : Nat}
    (hG : gh.G ++ X = A ++ [pre ++ x :: tail] ++ B)
    (hnd : ∀ h, h ∈ dirIds gh.dirs → ¬ isFixedRoot s.vol h → chainOf gh.G (dirHead s.vol h) ≠ pre ++ x :: tail) :
    ∃ s', truncateClusterChain x s = (.ok (), s') ∧ CrashAll (CIXP P s.vol) s s' ∧
      ∀ c, isUsed s.vol s'.dev.disk c → isUsed s.vol s.dev.disk c := by
  have ho : Owns s.vol s.dev.disk (A ++ [pre ++ x :: tail] ++ B) := hG ▸ hM.owns
  have hch : Chain s.vol s.dev.disk ((pre ++ x :: tail).headD 0) (pre ++ x :: tail) :=
    ho.1 _ (List.mem_append_left _ (List.mem_append_right _ (List.mem_singleton.2 rfl)))
  obtain ⟨s2, ht, hcr⟩ := CrashFat.truncate_crash s _ x pre tail hn hc hM.blocksOK hM.geom hch
  have key : CrashAll (fun d => CIXP P s.vol d ∧ ∀ c, isUsed s.vol d c → isUsed s.vol s.dev.disk c) s s2 := by
    refine hcr.mono fun d hd => ?_
    exact trunc_point hM hR hD hG hnd ho hd.1
  exact ⟨s2, ht, key.mono fun _ h => h.1, key.final.2⟩

/-- A crash point of a release: crash-consistent, and no cluster came into use. -/
theorem free_point {v : FatVolume} {d0 d : Disk} (hM : MedX v d0 files gh X) (hR : RawOKX v.fatType d0 files)
    (hD : DirClustersInit v P d0 gh) {A B : List (List Nat)} {tail : List Nat} {r : Nat}
    (hG : gh.G ++ X = A ++ [r :: tail] ++ B) (hnr : r ∉ rawRefs v d0 gh)
    (ho : Owns v d0 (A ++ [r :: tail] ++ B)) (htc : CrashFat.FreeCrash v d0 r tail d) :
    CIXP P v d ∧ ∀ c, isUsed v d c → isUsed v d0 c := by
  have hblkOf : (∀ i, regionOf v i ≠ .fat → d.get i = d0.get i) →
      ∀ h, h ∈ dirIds gh.dirs → ∀ sl, sl ∈ dirSlots v d0 gh.G h → d.get sl.1 = d0.get sl.1 := by
    intro hblocks h hh sl hs
    refine hblocks sl.1 ?_
    rcases dirSlot_not_fat hM hh hs with e | e <;> rw [e] <;> decide
  -- the references and the directory chains lie outside the released chain
  have hrefsAB : ∀ (M : List (List Nat)) y, y ∈ rawRefs v d0 gh → y ∈ heads (A ++ M ++ B) := by
    intro M y hy
    have := rawRefs_heads_all hM hR.raw hy
    rw [hG] at this
    unfold heads at this ⊢
    simp only [List.map_append, List.map_cons, List.map_nil, List.mem_append, List.mem_cons, List.not_mem_nil, or_false] at this ⊢
    rcases this with (h1 | h1) | h1
    · exact .inl (.inl h1)
    · exact absurd (show r ∈ _ from (show y = r from h1) ▸ hy) hnr
    · exact .inr h1
  have hdirsAB : ∀ (M : List (List Nat)) h, h ∈ dirIds gh.dirs → ¬ isFixedRoot v h →
      chainOf gh.G (dirHead v h) ∈ A ++ M ++ B := by
    intro M h hh hf
    obtain ⟨hm, hhd⟩ := dirChain_spec hM hh hf
    have hm' : chainOf gh.G (dirHead v h) ∈ gh.G ++ X := List.mem_append_left _ hm
    rw [hG] at hm'
    rcases List.mem_append.1 hm' with hm' | hm'
    · rcases List.mem_append.1 hm' with hm' | hm'
      · exact List.mem_append_left _ (List.mem_append_left _ hm')
      · exfalso
        have e := List.mem_singleton.1 hm'
        rw [e] at hhd
        have : dirHead v h = r := by simpa using hhd.symm
        exact hnr (this ▸ dirHead_rawRefs hh hf)
    · exact List.mem_append_right _ hm'
  rcases htc with (hv | ⟨j, _, hst⟩) | hst
  · have hO := owns_view ho hv
    exact ⟨cixp_of_record hM hR hD (R := A ++ [r :: tail] ++ B) hO (hrefsAB _) (hdirsAB _) (hblkOf hv.nonFat),
      used_sub ho hO fun _ h => h⟩
  · have ho' : Owns v d0 (A ++ [[] ++ r :: tail] ++ B) := ho
    have hO := owns_trunc_stage ho' hst
    exact ⟨cixp_of_record hM hR hD (R := A ++ ([[] ++ [r]] ++ remOf (tail.drop j)) ++ B) hO
      (hrefsAB _) (hdirsAB _) (hblkOf fun i hi => hst.within.nonFat i hi id), used_sub ho' hO fun _ h => trunc_flatten_sub h⟩
  · have hO := owns_free_stage ho hst
    refine ⟨cixp_of_record hM hR hD (R := A ++ [] ++ B) hO (hrefsAB _) (hdirsAB _)
      (hblkOf fun i hi => hst.within.nonFat i hi id), used_sub ho hO fun c h => ?_⟩
    simp only [List.flatten_append, List.flatten_nil, List.flatten_cons, List.mem_append, List.append_nil] at h ⊢
    rcases h with h | h
    · exact .inl (.inl h)
    · exact .inr h

/-- Releasing a chain of the record that the raw medium does not reference. -/
theorem free_cixp {s : FS} (hM : MedX s.vol s.dev.disk files gh X) (hR : RawOKX s.vol.fatType s.dev.disk files)
    (hD : DirClustersInit s.vol P s.dev.disk gh)
    (hn : NoFault s) (hc : Coherent s) {A B : List (List Nat)} {tail : List Nat} {r : Nat}
    (hG : gh.G ++ X = A ++ [r :: tail] ++ B) (hnr : r ∉ rawRefs s.vol s.dev.disk gh) :
    ∃ s', freeClusterChain r s = (.ok (), s') ∧ CrashAll (CIXP P s.vol) s s' ∧
      ∀ c, isUsed s.vol s'.dev.disk c → isUsed s.vol s.dev.disk c := by
  have ho : Owns s.vol s.dev.disk (A ++ [r :: tail] ++ B) := hG ▸ hM.owns
  have hch : Chain s.vol s.dev.disk r (r :: tail) :=
    ho.1 _ (List.mem_append_left _ (List.mem_append_right _ (List.mem_singleton.2 rfl)))
  obtain ⟨s2, ht, hcr⟩ := CrashFat.free_crash s r tail hn hc hM.blocksOK hM.geom hch
  have key : CrashAll (fun d => CIXP P s.vol d ∧ ∀ c, isUsed s.vol d c → isUsed s.vol s.dev.disk c) s s2 :=
    hcr.mono fun d hd => free_point hM hR hD hG hnr ho hd.1
  exact ⟨s2, ht, key.mono fun _ h => h.1, key.final.2⟩

/-- Blanking blocks of a cluster outside the chains of `G`. -/
theorem zeroBlocks_cixp {s : FS} (hM : MedX s.vol s.dev.disk files gh X) (hR : RawOKX s.vol.fatType s.dev.disk files)
    (hD : DirClustersInit s.vol P s.dev.disk gh)
    (hn : NoFault s) {c : Nat} (hc : InRange s.vol c) (hcG : c ∉ gh.G.flatten) {n first : Nat}
    (hin : ∀ i, first ≤ i → i < first + n → InCluster s.vol c i) :
    CrashAll (CIXP P s.vol) s (zeroBlocks n first s).2 := by
  refine (CrashAlloc.zeroBlocks_crash n first s hn).mono fun d hd => ?_
  have hW := CrashAlloc.within_of_cluster_blocks (v := s.vol) (d := s.dev.disk) (d' := d) (c := c) true hM.geom hc.1 hc.2
    fun i hi => hd i fun hr => hi ⟨rfl, hin i hr.1 hr.2⟩
  exact cixp_within hM hR hD hW (fun x hx => by cases hx) (dirClean_cluster hM hc hcG _) (fun x hx => by cases hx)

end Pieces

end Sdmmc.Lemmas.VolCrashD
