/-
C11 under the invariant, part 18 — A FAULTED CALL IS A TRUNCATED FAULT-FREE CALL (manager level).

`MPre m`: the manager-level form of `FaultPre.Pre` — for every state `s` (any fault schedule), with `mclr s` the same
state without any fault scheduled: if no device call of `m s` failed the run IS the run from `mclr s`; if one failed
the outcome is `DeviceError`, the device writes are a PREFIX of those of the run from `mclr s`, and the cache is
UNTAGGED.
Proved compositionally (`MPre.bind`, `MPre.withVol`, `MPre.get_bind`, `MPre.attempt_bind`, tactic `mpre_auto`) for
`close_volume`, `flush_file`, `close_file`, `delete_file_in_dir`, `open_file_in_dir`, `open_dir` and the directory
reads.  NOT of this shape: `make_dir_in_dir` (its clean-up after a failure writes what the fault-free run never
writes), `read` / `write` (they hand a device failure on as an inner outcome first).
-/
import Sdmmc.Lemmas.FaultPreFat
import Sdmmc.Lemmas.FaultApi

namespace Sdmmc.Lemmas.FaultPre
open Sdmmc.Model Sdmmc.Model.Fat Sdmmc.Spec Sdmmc.Lemmas.Fault Sdmmc.Lemmas.Retry Sdmmc.Lemmas.CrashBase

/-- Device and cache of a manager state, as an engine state (the volume record plays no role in `Trace`). -/
def mfs (s : Mgr) : FS := { dev := s.dev, cache := s.cache, vol := default }

structure MHit (s t t0 : Mgr) : Prop where
  stop : ∃ ws ws', Trace (mfs s) (mfs t) ws ∧ Trace (mfs (mclr s)) (mfs t0) (ws ++ ws') ∧ t.cache.tag = none

/-- **A faulted call is a truncated fault-free call.** -/
def MPre {α} (m : M α) : Prop :=
  ∀ s, (∃ ws, Trace (mfs s) (mfs (m s).2) ws) ∧ s.dev.failed ≤ (m s).2.dev.failed ∧
    ((m s).2.dev.failed = s.dev.failed → m (mclr s) = ((m s).1, mclr (m s).2)) ∧
    ((m s).2.dev.failed ≠ s.dev.failed → (m s).1 = .err .DeviceError ∧ MHit s (m s).2 (m (mclr s)).2)

theorem mtrace_clr {s t : Mgr} {ws : List (Nat × Block)} (h : Trace (mfs s) (mfs t) ws) :
    Trace (mfs (mclr s)) (mfs (mclr t)) ws := ⟨h.wlog, h.disk⟩

theorem MPre.of_nodev {α} {m : M α} (h : ∀ s, (m s).2.dev = s.dev ∧ m (mclr s) = ((m s).1, mclr (m s).2)) : MPre m := by
  intro s
  obtain ⟨h1, h2⟩ := h s
  refine ⟨⟨[], Trace.same (show (m s).2.dev.wlog = s.dev.wlog by rw [h1]) (show (m s).2.dev.disk = s.dev.disk by rw [h1])⟩,
    by rw [h1]; exact Nat.le_refl _, fun _ => h2, fun hne => ?_⟩
  rw [h1] at hne
  exact absurd rfl hne

theorem MPre.pure {α} (a : α) : MPre (pure a : M α) := .of_nodev fun _ => ⟨rfl, rfl⟩
theorem MPre.lift {α} (r : Res α) : MPre (M.lift r) := .of_nodev fun _ => ⟨rfl, rfl⟩
theorem MPre.fail {α} (e : Err) : MPre (M.fail e : M α) := .of_nodev fun _ => ⟨rfl, rfl⟩
theorem MPre.panic {α} (msg : String) : MPre (M.panic msg : M α) := .of_nodev fun _ => ⟨rfl, rfl⟩
theorem MPre.generate : MPre generate := .of_nodev fun _ => ⟨rfl, rfl⟩
theorem MPre.modify {g : Mgr → Mgr} (h : ∀ s, (g s).dev = s.dev ∧ g (mclr s) = mclr (g s)) : MPre (M.modify g) :=
  .of_nodev fun s => ⟨(h s).1, by show (Res.ok (), g (mclr s)) = _; rw [(h s).2]; rfl⟩
theorem MPre.setFile (i : Nat) (f : FileInfo) : MPre (setFile i f) := .of_nodev fun _ => ⟨rfl, rfl⟩
theorem MPre.modifyFile (i : Nat) (g : FileInfo → FileInfo) : MPre (modifyFile i g) := .of_nodev fun _ => ⟨rfl, rfl⟩

theorem MPre.getFileById (raw : Nat) : MPre (getFileById raw) := .of_nodev fun s => by
  unfold Model.getFileById
  show _ ∧ (match s.files.findIdx? _ with | some i => _ | none => _) = _
  cases s.files.findIdx? (·.rawFile = raw) <;> exact ⟨rfl, rfl⟩
theorem MPre.getDirById (raw : Nat) : MPre (getDirById raw) := .of_nodev fun s => by
  unfold Model.getDirById
  show _ ∧ (match s.dirs.findIdx? _ with | some i => _ | none => _) = _
  cases s.dirs.findIdx? (·.rawDirectory = raw) <;> exact ⟨rfl, rfl⟩
theorem MPre.getVolumeById (raw : Nat) : MPre (getVolumeById raw) := .of_nodev fun s => by
  unfold Model.getVolumeById
  show _ ∧ (match s.vols.findIdx? _ with | some i => _ | none => _) = _
  cases s.vols.findIdx? (·.rawVolume = raw) <;> exact ⟨rfl, rfl⟩
theorem MPre.getFile (i : Nat) : MPre (getFile i) := .of_nodev fun s => by
  unfold Model.getFile
  show _ ∧ (match s.files[i]? with | some f => _ | none => _) = _
  cases s.files[i]? <;> exact ⟨rfl, rfl⟩
theorem MPre.getDir (i : Nat) : MPre (getDir i) := .of_nodev fun s => by
  unfold Model.getDir
  show _ ∧ (match s.dirs[i]? with | some f => _ | none => _) = _
  cases s.dirs[i]? <;> exact ⟨rfl, rfl⟩
theorem MPre.getVolInfo (i : Nat) : MPre (getVolInfo i) := .of_nodev fun s => by
  unfold Model.getVolInfo
  show _ ∧ (match s.vols[i]? with | some f => _ | none => _) = _
  cases s.vols[i]? <;> exact ⟨rfl, rfl⟩
theorem MPre.toSfn (name : List Nat) : MPre (toSfn name) := .of_nodev fun s => by
  unfold Model.toSfn
  cases Sfn.createFromStr name <;> exact ⟨rfl, rfl⟩

/-- An engine call under `withVol`. -/
theorem MPre.withVol {α} {f : F α} (i : Nat) (hf : Pre f) : MPre (withVol i f) := by
  intro s
  unfold Model.withVol
  cases hv : s.vols[i]? with
  | none =>
    have : (mclr s).vols[i]? = none := hv
    simp only [this]
    exact ⟨⟨[], Trace.same rfl rfl⟩, Nat.le_refl _, fun _ => trivial, fun h => absurd rfl h⟩
  | some vi =>
    have : (mclr s).vols[i]? = some vi := hv
    simp only [this]
    obtain ⟨⟨ws, ht⟩, hle, hag, hhit⟩ := hf { dev := s.dev, cache := s.cache, vol := vi.vol }
    have e : ({ dev := (mclr s).dev, cache := (mclr s).cache, vol := vi.vol } : FS) =
        clr { dev := s.dev, cache := s.cache, vol := vi.vol } := rfl
    refine ⟨⟨ws, ⟨ht.wlog, ht.disk⟩⟩, hle, fun heq => ?_, fun hne => ?_⟩
    · rw [e, hag heq]; rfl
    · obtain ⟨he, ⟨wa, wb, hta, htb, hca⟩⟩ := hhit hne
      refine ⟨he, ⟨wa, wb, ⟨hta.wlog, hta.disk⟩, ?_, hca⟩⟩
      rw [e]
      exact ⟨htb.wlog, htb.disk⟩

theorem MPre.bind {α β} {m : M α} {f : α → M β} (hm : MPre m) (hf : ∀ a, MPre (f a)) : MPre (m >>= f) := by
  intro s
  obtain ⟨⟨ws1, ht1⟩, hle1, hag1, hhit1⟩ := hm s
  rcases hr : m s with ⟨r, s'⟩
  rw [hr] at ht1 hle1 hag1 hhit1
  simp only at ht1 hle1 hag1 hhit1
  by_cases hq : s'.dev.failed = s.dev.failed
  · have hm0 := hag1 hq
    cases r with
    | ok a =>
      obtain ⟨⟨ws2, ht2⟩, hle2, hag2, hhit2⟩ := hf a s'
      rw [M.bind_ok hr, M.bind_ok hm0]
      refine ⟨⟨ws1 ++ ws2, ht1.trans ht2⟩, Nat.le_trans hle1 hle2, fun heq => hag2 (by omega), fun hne => ?_⟩
      obtain ⟨he, ⟨wa, wb, hta, htb, hca⟩⟩ := hhit2 (by omega)
      refine ⟨he, ⟨ws1 ++ wa, wb, ht1.trans hta, ?_, ?_⟩⟩
      · rw [List.append_assoc]; exact (mtrace_clr ht1).trans htb
      · exact hca
    | err e =>
      rw [M.bind_err hr, M.bind_err hm0]
      exact ⟨⟨ws1, ht1⟩, hle1, fun _ => rfl, fun hne => absurd hq hne⟩
    | panic msg =>
      rw [M.bind_panic hr, M.bind_panic hm0]
      exact ⟨⟨ws1, ht1⟩, hle1, fun _ => rfl, fun hne => absurd hq hne⟩
    | diverged =>
      rw [M.bind_diverged hr, M.bind_diverged hm0]
      exact ⟨⟨ws1, ht1⟩, hle1, fun _ => rfl, fun hne => absurd hq hne⟩
  · obtain ⟨he, ⟨wa, wb, hta, htb, hca⟩⟩ := hhit1 hq
    subst he
    rw [M.bind_err hr]
    refine ⟨⟨ws1, ht1⟩, hle1, fun heq => absurd heq hq, fun _ => ⟨rfl, ?_⟩⟩
    rcases hr0 : m (mclr s) with ⟨r0, u0⟩
    rw [hr0] at htb
    simp only at htb
    cases r0 with
    | ok a =>
      obtain ⟨⟨ws2, ht2⟩, _⟩ := hf a u0
      rw [M.bind_ok hr0]
      refine ⟨wa, wb ++ ws2, hta, ?_, ?_⟩
      · rw [← List.append_assoc]; exact htb.trans ht2
      · exact hca
    | err e => rw [M.bind_err hr0]; exact ⟨wa, wb, hta, htb, hca⟩
    | panic msg => rw [M.bind_panic hr0]; exact ⟨wa, wb, hta, htb, hca⟩
    | diverged => rw [M.bind_diverged hr0]; exact ⟨wa, wb, hta, htb, hca⟩

/-- Reading the state: the continuation looks at the tables only. -/
theorem MPre.get_bind {β} {k : Mgr → M β} (hk : ∀ s0, MPre (k s0)) (hs : ∀ s, k (mclr s) = k s) : MPre (M.get >>= k) := by
  intro s
  have e1 : (M.get >>= k) s = k s s := rfl
  have e2 : (M.get >>= k) (mclr s) = k s (mclr s) := by
    show k (mclr s) (mclr s) = _
    rw [hs]
  rw [e1, e2]
  exact hk s s

/-- The `match`-on-the-outcome pattern: the arm taken for `DeviceError` hands the error on and touches neither
device nor cache. -/
theorem MPre.attempt_bind {α β} {m : M α} {k : Res α → M β} (hm : MPre m) (hk : ∀ r, MPre (k r))
    (hdev : ∀ s, (k (.err .DeviceError) s).1 = .err .DeviceError ∧ (k (.err .DeviceError) s).2.dev = s.dev ∧
      (k (.err .DeviceError) s).2.cache = s.cache) : MPre (M.attempt m >>= k) := by
  intro s
  obtain ⟨⟨ws1, ht1⟩, hle1, hag1, hhit1⟩ := hm s
  rw [M.attempt_bind_apply, M.attempt_bind_apply]
  by_cases hq : (m s).2.dev.failed = s.dev.failed
  · have hm0 := hag1 hq
    obtain ⟨⟨ws2, ht2⟩, hle2, hag2, hhit2⟩ := hk (m s).1 (m s).2
    rw [hm0]
    refine ⟨⟨ws1 ++ ws2, ht1.trans ht2⟩, Nat.le_trans hle1 hle2, fun heq => hag2 (by omega), fun hne => ?_⟩
    obtain ⟨he, ⟨wa, wb, hta, htb, hca⟩⟩ := hhit2 (by omega)
    refine ⟨he, ⟨ws1 ++ wa, wb, ht1.trans hta, ?_, ?_⟩⟩
    · rw [List.append_assoc]; exact (mtrace_clr ht1).trans htb
    · exact hca
  · obtain ⟨he, ⟨wa, wb, hta, htb, hca⟩⟩ := hhit1 hq
    rw [he]
    obtain ⟨hd1, hd2, hd3⟩ := hdev (m s).2
    have hfl : (k (.err .DeviceError) (m s).2).2.dev.failed = (m s).2.dev.failed := by rw [hd2]
    refine ⟨⟨ws1, ⟨by show (k _ _).2.dev.wlog = _; rw [hd2]; exact ht1.wlog, by show (k _ _).2.dev.disk = _; rw [hd2]; exact ht1.disk⟩⟩,
      by rw [hfl]; exact hle1, fun heq => absurd (hfl ▸ heq) hq, fun _ => ⟨hd1, ?_⟩⟩
    obtain ⟨⟨ws2, ht2⟩, _⟩ := hk (m (mclr s)).1 (m (mclr s)).2
    refine ⟨wa, wb ++ ws2, ⟨by show (k _ _).2.dev.wlog = _; rw [hd2]; exact hta.wlog, by show (k _ _).2.dev.disk = _; rw [hd2]; exact hta.disk⟩, ?_, ?_⟩
    · rw [← List.append_assoc]; exact htb.trans ht2
    · rw [hd3]; exact hca

/-! ### Automation -/

macro "mpre_step" : tactic => `(tactic| first
  | with_reducible first
    | apply_hyp
    | exact MPre.pure _
    | exact MPre.lift _
    | exact MPre.fail _
    | exact MPre.panic _
    | exact MPre.generate
    | exact MPre.setFile _ _
    | exact MPre.modifyFile _ _
    | exact MPre.getFileById _
    | exact MPre.getDirById _
    | exact MPre.getVolumeById _
    | exact MPre.getFile _
    | exact MPre.getDir _
    | exact MPre.getVolInfo _
    | exact MPre.toSfn _
    | refine MPre.modify ?_
    | apply MPre.withVol
    | refine MPre.get_bind (fun _ => ?_) ?_
    | refine MPre.attempt_bind ?_ (fun _ => ?_) ?_
    | apply MPre.bind
  | exact fun _ => rfl
  | exact fun _ => ⟨rfl, rfl⟩
  | exact fun _ => ⟨rfl, rfl, rfl⟩
  | pre_step)

macro "mpre_auto" : tactic => `(tactic| repeat mpre_step)

/-! ### The calls -/

theorem closeVolume_mpre (v : Nat) : MPre (closeVolume v) := by
  have := @updateInfoSector_pre
  unfold closeVolume; mpre_auto

theorem flushFile_mpre (f : Nat) : MPre (flushFile f) := by
  have := @updateInfoSector_pre
  have := @writeEntryToDisk_pre
  unfold flushFile; mpre_auto

theorem deleteFileInDir_mpre (d : Nat) (name : List Nat) : MPre (deleteFileInDir d name) := by
  have := @findDirectoryEntry_pre
  have := @deleteDirectoryEntry_pre
  have := @freeClusterChain_pre
  unfold deleteFileInDir; mpre_auto

theorem openFileInDir_mpre (d : Nat) (name : List Nat) (mode : Mode) : MPre (openFileInDir d name mode) := by
  have := @findDirectoryEntry_pre
  have := @writeNewDirectoryEntry_pre
  have := @truncateClusterChain_pre
  have := @writeEntryToDisk_pre
  unfold openFileInDir; mpre_auto

theorem openDir_mpre (d : Nat) (name : List Nat) : MPre (openDir d name) := by
  have := @findDirectoryEntry_pre
  unfold openDir; mpre_auto

theorem findDirectoryEntry_mpre (d : Nat) (name : List Nat) : MPre (Model.findDirectoryEntry d name) := by
  have := @findDirectoryEntry_pre
  unfold Model.findDirectoryEntry; mpre_auto

theorem iterateDir_mpre (d : Nat) : MPre (iterateDir d) := by
  have := @iterateRaw_pre
  unfold iterateDir; mpre_auto

theorem iterateDirLfn_mpre (d n : Nat) : MPre (iterateDirLfn d n) := by
  have := @iterateRaw_pre
  unfold iterateDirLfn; mpre_auto

theorem openRootDir_mpre (v : Nat) : MPre (openRootDir v) := by unfold openRootDir; mpre_auto
theorem closeDir_mpre (d : Nat) : MPre (closeDir d) := by unfold closeDir; mpre_auto
theorem fileSeekFromStart_mpre (f n : Nat) : MPre (fileSeekFromStart f n) := by unfold fileSeekFromStart; mpre_auto
theorem fileSeekFromCurrent_mpre (f : Nat) (n : Int) : MPre (fileSeekFromCurrent f n) := by unfold fileSeekFromCurrent; mpre_auto
theorem fileSeekFromEnd_mpre (f n : Nat) : MPre (fileSeekFromEnd f n) := by unfold fileSeekFromEnd; mpre_auto
theorem fileLength_mpre (f : Nat) : MPre (fileLength f) := by unfold fileLength; mpre_auto
theorem fileOffset_mpre (f : Nat) : MPre (fileOffset f) := by unfold fileOffset; mpre_auto
theorem fileEof_mpre (f : Nat) : MPre (fileEof f) := by unfold fileEof; mpre_auto

/-- `close_file` on an open handle: the flush, then the handle leaves the table whatever the flush answered. -/
theorem closeFile_eq (f : Nat) (s : Mgr) {i : Nat} (hi : s.files.findIdx? (fun x => decide (x.rawFile = f)) = some i) :
    closeFile f s = ((flushFile f s).1, { (flushFile f s).2 with files := swapRemove (flushFile f s).2.files i }) := by
  unfold closeFile
  rw [M.attempt_bind_apply]
  have h1 : (flushFile f s).2.files = s.files := flushFile_filesSame f s
  generalize (flushFile f s).2 = s2 at h1
  generalize (flushFile f s).1 = r
  have hg : getFileById f s2 = (.ok i, s2) := by unfold getFileById; rw [h1, hi]
  rw [M.bind_ok hg]
  cases r <;> rfl

theorem closeFile_bad (f : Nat) (s : Mgr) (hi : s.files.findIdx? (fun x => decide (x.rawFile = f)) = none) :
    closeFile f s = (.err .BadHandle, s) := by
  have hg : getFileById f s = (.err .BadHandle, s) := by unfold getFileById; rw [hi]
  have hf : flushFile f s = (.err .BadHandle, s) := by unfold flushFile; rw [M.bind_err hg]
  unfold closeFile
  rw [M.attempt_bind_apply, hf, M.bind_err hg]

theorem closeFile_mpre (f : Nat) : MPre (closeFile f) := by
  intro s
  cases hi : s.files.findIdx? (fun x => decide (x.rawFile = f)) with
  | none =>
    rw [closeFile_bad f s hi, closeFile_bad f (mclr s) hi]
    exact ⟨⟨[], Trace.same rfl rfl⟩, Nat.le_refl _, fun _ => rfl, fun h => absurd rfl h⟩
  | some i =>
    rw [closeFile_eq f s hi, closeFile_eq f (mclr s) (i := i) hi]
    obtain ⟨⟨ws, ht⟩, hle, hag, hhit⟩ := flushFile_mpre f s
    refine ⟨⟨ws, ⟨ht.wlog, ht.disk⟩⟩, hle, fun heq => ?_, fun hne => ?_⟩
    · rw [hag heq]; rfl
    · obtain ⟨he, ⟨wa, wb, hta, htb, hca⟩⟩ := hhit hne
      exact ⟨he, ⟨wa, wb, ⟨hta.wlog, hta.disk⟩, ⟨htb.wlog, htb.disk⟩, hca⟩⟩

/-- The calls whose faulted run is a truncated fault-free run: all calls except `make_dir_in_dir` (clean-up),
`read` / `write` (inner outcomes), `open_volume` and `get_root_volume_label`. -/
def prefixOp : Op → Bool
  | .mkdir _ _ | .read _ _ | .write _ _ | .openVolume _ | .label _ => false
  | _ => true

theorem MPre.map {α β} {m : M α} (g : α → β) (h : MPre m) : MPre (m >>= fun a => (Pure.pure (g a) : M β)) :=
  MPre.bind h fun _ => MPre.pure _

theorem runOp_mpre (op : Op) (h : prefixOp op = true) : MPre (runOp op) := by
  cases op <;> first | (cases h; done) | skip
  case closeVolume v => exact .map _ (closeVolume_mpre v)
  case openRoot v => exact .map _ (openRootDir_mpre v)
  case openDir d n => exact .map _ (openDir_mpre d n)
  case closeDir d => exact .map _ (closeDir_mpre d)
  case openFile d n m => exact .map _ (openFileInDir_mpre d n m)
  case seekStart f n => exact .map _ (fileSeekFromStart_mpre f n)
  case seekCur f n => exact .map _ (fileSeekFromCurrent_mpre f n)
  case seekEnd f n => exact .map _ (fileSeekFromEnd_mpre f n)
  case flush f => exact .map _ (flushFile_mpre f)
  case closeFile f => exact .map _ (closeFile_mpre f)
  case delete d n => exact .map _ (deleteFileInDir_mpre d n)
  case find d n => exact .map _ (findDirectoryEntry_mpre d n)
  case list d => exact .map _ (iterateDir_mpre d)
  case listLfn d n => exact .map _ (iterateDirLfn_mpre d n)
  case length f => exact .map _ (fileLength_mpre f)
  case offset f => exact .map _ (fileOffset_mpre f)
  case eof f => exact .map _ (fileEof_mpre f)
  case hasOpen => exact .of_nodev fun _ => ⟨rfl, rfl⟩

end Sdmmc.Lemmas.FaultPre
