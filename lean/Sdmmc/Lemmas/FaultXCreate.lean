/-
C11, arbitrary fault placement — `write_new_directory_entry` WITH ITS CRASH POINTS, exact form (`writeNew_mx`; the case
analysis of `VolEng5.writeNew_stage` / `VolCrash.writeNew_ci`): before the LAST device write (the block with the new
slot) every crash point carries the invariant — as before; or, the directory being full, somewhere in the allocation of
its new cluster (`alloc_mx`: the cluster blanked, then a chain nothing refers to, then the last cluster of the
directory) —; after it the medium is the final one.
-/
import Sdmmc.Lemmas.FaultXAlloc
import Sdmmc.Lemmas.VolCrashDir
import Sdmmc.Lemmas.VolEng6

namespace Sdmmc.Lemmas.FaultX
open Sdmmc.Model Sdmmc.Model.Fat Sdmmc.Spec.Volume Sdmmc.Lemmas.VolBase Sdmmc.Lemmas.VolTree
open Sdmmc.Spec hiding NoFault Coherent
open Sdmmc.Lemmas.VolDisk Sdmmc.Lemmas.VolMed Sdmmc.Lemmas.VolWalk Sdmmc.Lemmas.VolEng Sdmmc.Lemmas.VolX
open Sdmmc.Lemmas.FBasic
open Sdmmc.Lemmas.FatOps hiding BlocksOK Mirror HintOK
open Sdmmc.Lemmas.CrashBase

section
variable {files : List FileInfo} {gh : Ghost} {X : List (List Nat)}

/-- One block write, the medium before which carries the invariant. -/
theorem lastWrite_mx {v : FatVolume} {dirs : List (Nat × Nat)} {s s' : FS} {b : Nat} {p : Block}
    (hw : s'.dev.wlog = (b, p) :: s.dev.wlog) (hd : s'.dev.disk = s.dev.disk.set b p) (h0 : MX v files dirs s.dev.disk) :
    CrashAll (fun d => MX v files dirs d ∨ d = s'.dev.disk) s s' :=
  (CrashData.single_write_crash hw hd).mono fun _ hd' => hd'.elim (fun e => .inl (e ▸ h0)) .inr

/-- **`write_new_directory_entry` with its crash points.** -/
theorem writeNew_mx {fs : FS} (hM : MedX fs.vol fs.dev.disk files gh X) (hn : NoFault fs) (hc : Coherent fs) {dc : Nat}
    (hv : ValidDir gh.dirs dc) (name : Bytes) (att fc : Nat) (now : Timestamp) :
    ∃ r fs', writeNewDirectoryEntry dc name att fc now fs = (r, fs') ∧
      CrashAll (fun d => MX fs.vol files gh.dirs d ∨ d = fs'.dev.disk) fs fs' := by
  obtain ⟨hh, hcase⟩ := dir_walk_facts hM hv
  have hmx0 : MX fs.vol files gh.dirs fs.dev.disk := mx_of_med hM
  have hwrote : ∀ slot fs', Wrote name att fc now slot fs fs' →
      CrashAll (fun d => MX fs.vol files gh.dirs d ∨ d = fs'.dev.disk) fs fs' := by
    intro slot fs' hwr
    obtain ⟨hd', _, _, _, _, hw'⟩ := hwr
    exact lastWrite_mx hw' hd' hmx0
  have hsame : ∀ fs', fs'.dev.disk = fs.dev.disk → fs'.dev.wlog = fs.dev.wlog →
      CrashAll (fun d => MX fs.vol files gh.dirs d ∨ d = fs'.dev.disk) fs fs' :=
    fun fs' hd hw => CrashAll.same hw hd (.inl hmx0)
  rcases hcase with ⟨hdc, h16, hsl⟩ | ⟨hkind, hnf, cs, hchain, hstart, hch, hlen, hsl⟩
  · -- the FAT16 fixed root
    subst hdc
    have := VolCrash.writeNew_fixedRoot_w fs name att fc now hn hc h16
    rw [← hsl] at this
    cases hfs : (dirSlots fs.vol fs.dev.disk gh.G (dirIdOf 4294967292)).find? isFreeSlot with
    | none =>
      rw [hfs] at this
      obtain ⟨fs', hr, hd', _, _, _, hw'⟩ := this
      exact ⟨_, fs', hr, hsame fs' hd' hw'⟩
    | some slot =>
      rw [hfs] at this
      obtain ⟨fs', hr, hwr⟩ := this
      exact ⟨_, fs', hr, hwrote slot fs' hwr⟩
  · -- a chained directory
    cases hfs : (dirSlots fs.vol fs.dev.disk gh.G (dirIdOf dc)).find? isFreeSlot with
    | some slot =>
      obtain ⟨fs', hr, hwr⟩ :=
        VolCrash.writeNew_chain_found_w fs dc cs name att fc now hn hc hkind hch (by omega) slot (by rw [← hsl]; exact hfs)
      exact ⟨_, fs', hr, hwrote slot fs' hwr⟩
    | none =>
      obtain ⟨s1, hd1, hv1, hn1, hc1, hw1, heq⟩ :=
        writeNew_chain_full_eq fs dc cs name att fc now hn hc hkind hch (by omega) (by rw [← hsl]; exact hfs)
      have hM1 : MedX s1.vol s1.dev.disk files gh X := by rw [hd1, hv1]; exact hM
      have hne : (Listing.startCluster fs.vol dc :: cs) ≠ [] := by simp
      obtain ⟨pre, hpre⟩ : ∃ pre, Listing.startCluster fs.vol dc :: cs =
          pre ++ [(Listing.startCluster fs.vol dc :: cs).getLast hne] :=
        ⟨_, (List.dropLast_append_getLast hne).symm⟩
      generalize hp : (Listing.startCluster fs.vol dc :: cs).getLast hne = p at hpre heq
      have c01 : CrashAll (MX fs.vol files gh.dirs) fs s1 := CrashAll.same hw1 hd1 hmx0
      rcases CrashStep.alloc_cases s1 (some p) true hn1 hc1 with ⟨c, s2, ha⟩ | ⟨s2, ha, ro2⟩
      · -- the directory grows
        have hcs1 : chainOf gh.G (dirHead s1.vol (dirIdOf dc)) = pre ++ [p] := by rw [hv1, hchain, hpre]
        obtain ⟨hn2, hc2, hsg, G1, hM2, hch1, hsl1, hzero, hoth, hkeep, hcR, hcnot, hheads1, hchains1⟩ :=
          grow_med hM1 hn1 hc1 hh (by rw [hv1]; exact hnf) hcs1 ha
        have hpE : p < endCluster s1.vol := by
          obtain ⟨hm, _⟩ := dirChain_spec hM1 hh (by rw [hv1]; exact hnf)
          rw [hcs1] at hm
          exact (med_inRange hM1 hm (List.mem_append_right _ (List.mem_singleton.2 rfl))).2
        have hM2' : MedX s1.vol s2.dev.disk files { vol := s1.vol, G := G1, dirs := gh.dirs } X := by
          have := med_congr hM2 hsg.symm hM1.hint hM2.blocksOK (fun _ _ => rfl) (fun _ _ => rfl)
          exact ⟨this.blocksOK, this.geom, this.hint, this.owns, this.tree, this.fileOK⟩
        have hmx2 : MX s1.vol files gh.dirs s2.dev.disk := mx_of_med (gh := { vol := s1.vol, G := G1, dirs := gh.dirs }) hM2'
        have c12 : CrashAll (MX fs.vol files gh.dirs) s1 s2 := by
          have := alloc_mx hM1 hn1 hc1 (fun q hq => by cases hq; exact hpE) ha hM2.blocksOK hmx2
          rwa [hv1] at this
        rw [hv1] at hsg hzero
        have hbpc : s2.vol.blocksPerCluster = fs.vol.blocksPerCluster := WriteRefines.sameGeom_bpc hsg
        have hctb : clusterToBlock s2.vol c = clusterToBlock fs.vol c := WriteRefines.sameGeom_clusterToBlock hsg c
        have hpos : 0 < fs.vol.blocksPerCluster := hM.geom.bpc_pos
        have hfirst := find?_isFreeSlot_first s2.dev.disk (clusterToBlock fs.vol c) fs.vol.blocksPerCluster hpos (by
          have := hzero 0 hpos
          rw [Nat.add_zero] at this
          rw [this]; decide)
        rw [ha] at heq
        simp only at heq
        obtain ⟨k, hk⟩ : ∃ k, chainFuel fs.vol - cs.length = k + 1 :=
          ⟨chainFuel fs.vol - cs.length - 1, by unfold chainFuel; omega⟩
        rw [hk] at heq
        obtain ⟨fs', hrun', hwr⟩ := writeNewWalk_here name att fc now k
          ⟨c, clusterToBlock s2.vol c, fs.vol.blocksPerCluster, false⟩ s2 hn2 hc2 _ (by rw [hctb]; exact hfirst)
        rw [hrun'] at heq
        obtain ⟨hd', _, _, _, _, hw'⟩ := hwr
        have hmx2' : MX fs.vol files gh.dirs s2.dev.disk := by rw [← hv1]; exact hmx2
        have c2f : CrashAll (fun d => MX fs.vol files gh.dirs d ∨ d = fs'.dev.disk) s2 fs' := lastWrite_mx hw' hd' hmx2'
        have c02 : CrashAll (fun d => MX fs.vol files gh.dirs d ∨ d = fs'.dev.disk) fs s2 := (c01.trans c12).mono fun _ h => .inl h
        exact ⟨_, fs', heq, c02.trans c2f⟩
      · -- the volume is full
        rw [ha] at heq
        simp only at heq
        exact ⟨_, s2, heq, hsame s2 (ro2.disk.trans hd1) (ro2.wlog.trans hw1)⟩

end

end Sdmmc.Lemmas.FaultX
