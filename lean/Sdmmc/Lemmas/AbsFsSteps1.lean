/-
Refinement of the API to the abstract file system, part 2: the `step` wrapper, how `Abs` moves along
changes of the tables that leave the medium alone, and the first calls — seeks, observers,
`has_open_handles`, `close_dir`, `open_root_dir`.
-/
import Sdmmc.Lemmas.AbsFsBase
import Sdmmc.Lemmas.Files

namespace Sdmmc.Lemmas.AbsFs
open Sdmmc.Model Sdmmc.Model.Fat Sdmmc.Spec.Volume Sdmmc.Lemmas.VolBase Sdmmc.Lemmas.VolTree
open Sdmmc.Spec hiding NoFault Coherent
open Sdmmc.Spec.AbsFs (Meta view storedMeta fatRound OpenFile OpenDir absStep)
open Sdmmc.Lemmas.VolDisk Sdmmc.Lemmas.VolMed Sdmmc.Lemmas.VolApi
open Sdmmc.Lemmas.MHoare

/-! ### The wrapper -/

/-- What one call must establish (on a state whose per-call logs were reset). -/
def Refines (op : Op) (s : Mgr) (gh : Ghost) (a : AState) : Prop :=
  ∃ gh' a', VolInv (runOp op s).2 gh' ∧ SameGeom gh.vol gh'.vol ∧ Abs (runOp op s).2 gh' a' ∧
    absStep a op (a', (runOp op s).1)

theorem abs_resetLogs {s : Mgr} {gh : Ghost} {a : AState} (hA : Abs s gh a) : Abs (resetLogs s) gh a :=
  ⟨hA.nextId, hA.maxDirs, hA.maxFiles, hA.clock, hA.locked, hA.vols, hA.dirs,
   forall₂_mono hA.files fun _ _ _ h => ⟨h.handle, h.volume, h.mode, h.pos, h.pm, h.dirty, h.dirMem, h.slot⟩,
   hA.ids, hA.slots⟩

/-- A call refines as soon as the call proper does. -/
theorem step_refines {op : Op} {s : Mgr} {gh : Ghost} {a : AState} (hI : VolInv s gh)
    (h : Refines op (resetLogs s) gh a) :
    ∃ gh' a', VolInv (step s op).1 gh' ∧ SameGeom gh.vol gh'.vol ∧ Abs (step s op).1 gh' a' ∧
      absStep a op (a', (step s op).2.result) := by
  rw [step_unlocked s op hI.unlocked]
  exact h

theorem absStep_unlocked {a : AState} (hl : a.locked = false) (op : Op) (out : AState × Res Payload) :
    absStep a op out ↔ (absStep { a with locked := false } op out) := by
  have : ({ a with locked := false } : AState) = a := by
    cases a; simp only at hl; subst hl; rfl
  rw [this]

theorem run_seq {α : Type} (m : M α) (b : Payload) (s : Mgr) :
    (m >>= fun _ => (pure b : M Payload)) s = ((m s).1.bind fun _ => .ok b, (m s).2) := by
  rw [bind_def]
  rcases m s with ⟨r, s'⟩
  cases r <;> rfl

theorem run_map {α : Type} (m : M α) (g : α → Payload) (s : Mgr) :
    (m >>= fun x => (pure (g x) : M Payload)) s = ((m s).1.bind fun x => .ok (g x), (m s).2) := by
  rw [bind_def]
  rcases m s with ⟨r, s'⟩
  cases r <;> rfl

/-! ### `Abs` along table changes -/

theorem FileRel.of_disk {s s' : Mgr} {gh : Ghost} {af : OpenFile} {f : FileInfo} (h : FileRel s gh af f)
    (hd : s'.dev.disk = s.dev.disk) : FileRel s' gh af f :=
  ⟨h.handle, h.volume, h.mode, h.pos, h.pm, h.dirty, h.dirMem, by rw [hd]; exact h.slot⟩

/-- The effective cluster / size of every slot, when one record is replaced by one with the same key, first
cluster and size. -/
theorem eff_set_same {files : List FileInfo} (hnd : (files.map fkey).Nodup) {i : Nat} {f f' : FileInfo}
    (hi : files[i]? = some f) (hkey : fkey f' = fkey f) (hcl : f'.entry.cluster = f.entry.cluster)
    (hsz : f'.entry.size = f.entry.size) (ft : FatType) (o : Slot) :
    effCluster ft (files.set i f') o = effCluster ft files o ∧ effSize (files.set i f') o = effSize files o := by
  by_cases hs : spos o = fkey f
  · have hfm : f ∈ files := List.mem_of_getElem? hi
    have h1 : pendOf files o = some f := (pendOf_some_iff hnd o f).2 ⟨hfm, hs.symm⟩
    have hnd' : ((files.set i f').map fkey).Nodup := by rw [VolTree.map_fkey_set hi hkey]; exact hnd
    have hilt : i < files.length := (List.getElem?_eq_some_iff.1 hi).1
    have hf'm : f' ∈ files.set i f' := List.mem_iff_getElem?.2 ⟨i, List.getElem?_set_self hilt⟩
    have h2 : pendOf (files.set i f') o = some f' := (pendOf_some_iff hnd' o f').2 ⟨hf'm, by rw [hkey]; exact hs.symm⟩
    rw [effCluster_of_pend h1, effCluster_of_pend h2, effSize_of_pend h1, effSize_of_pend h2]
    exact ⟨hcl, hsz⟩
  · have := pendOf_set_other hi hkey hs
    unfold effCluster effSize
    rw [this]
    exact ⟨rfl, rfl⟩

theorem absSlots_congr {s s' : Mgr} {gh : Ghost} (hd : s'.dev.disk = s.dev.disk)
    (heff : ∀ o, effCluster gh.vol.fatType s'.files o = effCluster gh.vol.fatType s.files o ∧ effSize s'.files o = effSize s.files o)
    (h : Nat) : absSlots s' gh h = absSlots s gh h := by
  unfold absSlots
  rw [hd]
  congr 1
  have : contentOf gh.vol s.dev.disk gh.G s'.files = contentOf gh.vol s.dev.disk gh.G s.files := by
    funext o
    unfold contentOf
    rw [(heff o).1, (heff o).2]
  rw [this]

/-- One record of the file table changes, keeping its directory entry's position, first cluster and size; the
medium is the same. -/
theorem abs_file_set {s s' : Mgr} {gh : Ghost} {a : AState} (hI : VolInv s gh) (hA : Abs s gh a) {i : Nat} {f f' : FileInfo}
    {af af' : OpenFile} (hi : s.files[i]? = some f) (hkey : fkey f' = fkey f)
    (hcl : f'.entry.cluster = f.entry.cluster) (hsz : f'.entry.size = f.entry.size)
    (hs' : s' = { s with dev := s'.dev, cache := s'.cache, files := s.files.set i f' }) (hd : s'.dev.disk = s.dev.disk)
    (hrel : FileRel s gh af f) (h1 : af'.handle = f'.rawFile) (h2 : af'.volume = f'.rawVolume) (h3 : af'.mode = f'.mode)
    (h4 : af'.pos = f'.currentOffset) (h5 : af'.pm = view f'.entry) (h6 : af'.dirty = f'.dirty)
    (h7 : af'.dir = af.dir) (h8 : af'.idx = af.idx) :
    Abs s' gh { a with files := a.files.set i af' } := by
  have hfiles : s'.files = s.files.set i f' := by rw [hs']
  have hnd := hI.med.tree.filesDistinct
  refine ⟨by rw [hs']; exact hA.nextId, by rw [hs']; exact hA.maxDirs, by rw [hs']; exact hA.maxFiles, by rw [hs']; exact hA.clock,
    by rw [hs']; exact hA.locked, by rw [hs']; exact hA.vols, by rw [hs']; exact hA.dirs, ?_, hA.ids, ?_⟩
  · rw [hfiles]
    show List.Forall₂ (FileRel s' gh) (a.files.set i af') (s.files.set i f')
    refine forall₂_set (forall₂_mono hA.files fun _ _ _ h => h.of_disk hd) i ?_
    refine ⟨h1, h2, h3, h4, h5, h6, by rw [h7]; exact hrel.dirMem, ?_⟩
    rw [h7, h8, hd, hkey]
    exact hrel.slot
  · intro h hh
    show a.slots h = absSlots s' gh h
    rw [hA.slots h hh]
    refine (absSlots_congr hd (fun o => ?_) h).symm
    rw [hfiles]
    exact eff_set_same hnd hi hkey hcl hsz _ o

/-- Only the directory table and the handle counter change. -/
theorem abs_dirs {s : Mgr} {gh : Ghost} {a : AState} (hA : Abs s gh a) (dirs' : List DirInfo) (nid : Nat) :
    Abs { s with dirs := dirs', nextId := nid } gh { a with dirs := dirs'.map absDir, nextId := nid } :=
  ⟨rfl, hA.maxDirs, hA.maxFiles, hA.clock, hA.locked, hA.vols, rfl,
   forall₂_mono hA.files fun _ _ _ h => h.of_disk rfl, hA.ids, hA.slots⟩

/-! ### File handles -/

theorem fileOf_none {s : Mgr} {gh : Ghost} {a : AState} (hA : Abs s gh a) {h : Nat}
    (hidx : s.files.findIdx? (·.rawFile = h) = none) : Spec.AbsFs.fileOf a h = none := by
  unfold Spec.AbsFs.fileOf
  rw [fileIdx_abs hA, hidx]

theorem fileOf_some {s : Mgr} {gh : Ghost} {a : AState} (hA : Abs s gh a) {h i : Nat}
    (hidx : s.files.findIdx? (·.rawFile = h) = some i) :
    ∃ f af, s.files[i]? = some f ∧ a.files[i]? = some af ∧ FileRel s gh af f ∧ Spec.AbsFs.fileOf a h = some (i, af) := by
  obtain ⟨f, hf, _⟩ := findIdx?_some_get hidx
  obtain ⟨af, haf, hrel⟩ := forall₂_right hA.files hf
  refine ⟨f, af, hf, haf, hrel, ?_⟩
  unfold Spec.AbsFs.fileOf
  rw [fileIdx_abs hA, hidx]
  simp only [haf, Option.map_some]

/-! ### Seeks -/

theorem seek_refines {s : Mgr} {gh : Ghost} {a : AState} (hI : VolInv s gh) (hA : Abs s gh a) {i : Nat} {f : FileInfo}
    {af : OpenFile} (hf : s.files[i]? = some f) (hrel : FileRel s gh af f) (off : Nat) (hle : off ≤ f.entry.size) :
    VolInv { s with files := s.files.set i { f with currentOffset := off } } gh ∧
    Abs { s with files := s.files.set i { f with currentOffset := off } } gh { a with files := a.files.set i { af with pos := off } } :=
  ⟨volInv_seek hI hf off hle,
   abs_file_set (s' := { s with files := s.files.set i { f with currentOffset := off } }) (f' := { f with currentOffset := off })
     hI hA hf rfl rfl rfl rfl rfl hrel
     hrel.handle hrel.volume hrel.mode rfl hrel.pm hrel.dirty rfl rfl⟩

theorem refines_seekStart (h n : Nat) {s : Mgr} {gh : Ghost} {a : AState} (hI : VolInv s gh) (hA : Abs s gh a) :
    Refines (.seekStart h n) s gh a := by
  have hl : a.locked = false := hA.locked.trans hI.unlocked
  unfold Refines
  rw [show runOp (.seekStart h n) s = (fileSeekFromStart h n >>= fun _ => pure Payload.unit) s from rfl, run_seq]
  cases hidx : s.files.findIdx? (·.rawFile = h) with
  | none =>
    have : fileSeekFromStart h n s = (.err .BadHandle, s) := by
      unfold fileSeekFromStart; rw [bind_err (getFileById_bad hidx)]
    rw [this]
    refine ⟨gh, a, hI, SameGeom.refl _, hA, ?_⟩
    unfold absStep
    rw [if_neg (by rw [hl]; exact Bool.false_ne_true)]
    show Spec.AbsFs.seekStartS a h n _ _
    unfold Spec.AbsFs.seekStartS
    rw [fileOf_none hA hidx]
    exact ⟨rfl, rfl⟩
  | some i =>
    obtain ⟨f, af, hf, haf, hrel, hfo⟩ := fileOf_some hA hidx
    have hspec := Files.file_seek_start_spec h n i f s (getFileById_ok hidx) (getFile_ok hf)
    have hsz : af.pm.size = f.entry.size := by rw [hrel.pm]; rfl
    by_cases hp : n ≤ f.entry.size
    · rw [if_pos hp] at hspec
      rw [hspec]
      obtain ⟨hI', hA'⟩ := seek_refines hI hA hf hrel n hp
      refine ⟨gh, _, hI', SameGeom.refl _, hA', ?_⟩
      unfold absStep
      rw [if_neg (by rw [hl]; exact Bool.false_ne_true)]
      show Spec.AbsFs.seekStartS a h n _ _
      unfold Spec.AbsFs.seekStartS
      rw [hfo]
      show (if n ≤ af.pm.size then _ else _)
      rw [if_pos (by rw [hsz]; exact hp)]
      exact ⟨rfl, rfl⟩
    · rw [if_neg hp] at hspec
      rw [hspec]
      refine ⟨gh, a, hI, SameGeom.refl _, hA, ?_⟩
      unfold absStep
      rw [if_neg (by rw [hl]; exact Bool.false_ne_true)]
      show Spec.AbsFs.seekStartS a h n _ _
      unfold Spec.AbsFs.seekStartS
      rw [hfo]
      show (if n ≤ af.pm.size then _ else _)
      rw [if_neg (by rw [hsz]; exact hp)]
      exact ⟨rfl, rfl⟩

theorem refines_seekEnd (h n : Nat) {s : Mgr} {gh : Ghost} {a : AState} (hI : VolInv s gh) (hA : Abs s gh a) :
    Refines (.seekEnd h n) s gh a := by
  have hl : a.locked = false := hA.locked.trans hI.unlocked
  unfold Refines
  rw [show runOp (.seekEnd h n) s = (fileSeekFromEnd h n >>= fun _ => pure Payload.unit) s from rfl, run_seq]
  cases hidx : s.files.findIdx? (·.rawFile = h) with
  | none =>
    have : fileSeekFromEnd h n s = (.err .BadHandle, s) := by
      unfold fileSeekFromEnd; rw [bind_err (getFileById_bad hidx)]
    rw [this]
    refine ⟨gh, a, hI, SameGeom.refl _, hA, ?_⟩
    unfold absStep
    rw [if_neg (by rw [hl]; exact Bool.false_ne_true)]
    show Spec.AbsFs.seekEndS a h n _ _
    unfold Spec.AbsFs.seekEndS
    rw [fileOf_none hA hidx]
    exact ⟨rfl, rfl⟩
  | some i =>
    obtain ⟨f, af, hf, haf, hrel, hfo⟩ := fileOf_some hA hidx
    have hspec := Files.file_seek_end_spec h n i f s (getFileById_ok hidx) (getFile_ok hf)
    have hsz : af.pm.size = f.entry.size := by rw [hrel.pm]; rfl
    by_cases hp : n ≤ f.entry.size
    · rw [if_pos hp] at hspec
      rw [hspec]
      obtain ⟨hI', hA'⟩ := seek_refines hI hA hf hrel (f.entry.size - n) (by omega)
      refine ⟨gh, _, hI', SameGeom.refl _, hA', ?_⟩
      unfold absStep
      rw [if_neg (by rw [hl]; exact Bool.false_ne_true)]
      show Spec.AbsFs.seekEndS a h n _ _
      unfold Spec.AbsFs.seekEndS
      rw [hfo]
      show (if n ≤ af.pm.size then _ else _)
      rw [if_pos (by rw [hsz]; exact hp), hsz]
      exact ⟨rfl, rfl⟩
    · rw [if_neg hp] at hspec
      rw [hspec]
      refine ⟨gh, a, hI, SameGeom.refl _, hA, ?_⟩
      unfold absStep
      rw [if_neg (by rw [hl]; exact Bool.false_ne_true)]
      show Spec.AbsFs.seekEndS a h n _ _
      unfold Spec.AbsFs.seekEndS
      rw [hfo]
      show (if n ≤ af.pm.size then _ else _)
      rw [if_neg (by rw [hsz]; exact hp)]
      exact ⟨rfl, rfl⟩

theorem refines_seekCur (h : Nat) (d : Int) {s : Mgr} {gh : Ghost} {a : AState} (hI : VolInv s gh) (hA : Abs s gh a) :
    Refines (.seekCur h d) s gh a := by
  have hl : a.locked = false := hA.locked.trans hI.unlocked
  unfold Refines
  rw [show runOp (.seekCur h d) s = (fileSeekFromCurrent h d >>= fun _ => pure Payload.unit) s from rfl, run_seq]
  cases hidx : s.files.findIdx? (·.rawFile = h) with
  | none =>
    have : fileSeekFromCurrent h d s = (.err .BadHandle, s) := by
      unfold fileSeekFromCurrent; rw [bind_err (getFileById_bad hidx)]
    rw [this]
    refine ⟨gh, a, hI, SameGeom.refl _, hA, ?_⟩
    unfold absStep
    rw [if_neg (by rw [hl]; exact Bool.false_ne_true)]
    show Spec.AbsFs.seekCurS a h d _ _
    unfold Spec.AbsFs.seekCurS
    rw [fileOf_none hA hidx]
    exact ⟨rfl, rfl⟩
  | some i =>
    obtain ⟨f, af, hf, haf, hrel, hfo⟩ := fileOf_some hA hidx
    have hspec := Files.file_seek_cur_spec h i d f s (getFileById_ok hidx) (getFile_ok hf)
    have hsz : af.pm.size = f.entry.size := by rw [hrel.pm]; rfl
    have hpos : af.pos = f.currentOffset := hrel.pos
    by_cases hp : 0 ≤ (f.currentOffset : Int) + d ∧ (f.currentOffset : Int) + d ≤ (f.entry.size : Int)
    · rw [if_pos hp] at hspec
      rw [hspec]
      obtain ⟨hI', hA'⟩ := seek_refines hI hA hf hrel ((f.currentOffset : Int) + d).toNat (by omega)
      refine ⟨gh, _, hI', SameGeom.refl _, hA', ?_⟩
      unfold absStep
      rw [if_neg (by rw [hl]; exact Bool.false_ne_true)]
      show Spec.AbsFs.seekCurS a h d _ _
      unfold Spec.AbsFs.seekCurS
      rw [hfo]
      show (if (af.pos : Int) + d < 0 ∨ (af.pos : Int) + d > (af.pm.size : Int) then _ else _)
      rw [if_neg (by rw [hsz, hpos]; omega), hpos]
      exact ⟨rfl, rfl⟩
    · rw [if_neg hp] at hspec
      rw [hspec]
      refine ⟨gh, a, hI, SameGeom.refl _, hA, ?_⟩
      unfold absStep
      rw [if_neg (by rw [hl]; exact Bool.false_ne_true)]
      show Spec.AbsFs.seekCurS a h d _ _
      unfold Spec.AbsFs.seekCurS
      rw [hfo]
      show (if (af.pos : Int) + d < 0 ∨ (af.pos : Int) + d > (af.pm.size : Int) then _ else _)
      rw [if_pos (by rw [hsz, hpos]; omega)]
      exact ⟨rfl, rfl⟩

/-! ### Observers -/

theorem observer_run {α : Type} (g : FileInfo → α) (h : Nat) (s : Mgr) :
    (getFileById h >>= fun i => getFile i >>= fun f => (pure (g f) : M α)) s =
      (match s.files.findIdx? (·.rawFile = h) with
        | none => .err .BadHandle
        | some i => match s.files[i]? with | some f => .ok (g f) | none => .panic "file index out of range", s) := by
  cases hidx : s.files.findIdx? (·.rawFile = h) with
  | none => rw [bind_err (getFileById_bad hidx)]
  | some i =>
    obtain ⟨f, hf, _⟩ := findIdx?_some_get hidx
    rw [bind_ok (getFileById_ok hidx), bind_ok (getFile_ok hf)]
    simp only [hf]
    rfl

theorem refines_length (h : Nat) {s : Mgr} {gh : Ghost} {a : AState} (hI : VolInv s gh) (hA : Abs s gh a) :
    Refines (.length h) s gh a := by
  have hl : a.locked = false := hA.locked.trans hI.unlocked
  unfold Refines
  rw [show runOp (.length h) s = (fileLength h >>= fun n => pure (Payload.num n)) s from rfl, run_map]
  rw [show fileLength h s = (getFileById h >>= fun i => getFile i >>= fun f => (pure f.length : M Nat)) s from rfl, observer_run]
  refine ⟨gh, a, hI, SameGeom.refl _, hA, ?_⟩
  unfold absStep
  rw [if_neg (by rw [hl]; exact Bool.false_ne_true)]
  show Spec.AbsFs.lengthS a h _ _
  unfold Spec.AbsFs.lengthS
  cases hidx : s.files.findIdx? (·.rawFile = h) with
  | none => rw [fileOf_none hA hidx]; exact ⟨rfl, rfl⟩
  | some i =>
    obtain ⟨f, af, hf, haf, hrel, hfo⟩ := fileOf_some hA hidx
    rw [hfo]
    simp only [hf]
    refine ⟨trivial, ?_⟩
    rw [hrel.pm]; rfl

theorem refines_offset (h : Nat) {s : Mgr} {gh : Ghost} {a : AState} (hI : VolInv s gh) (hA : Abs s gh a) :
    Refines (.offset h) s gh a := by
  have hl : a.locked = false := hA.locked.trans hI.unlocked
  unfold Refines
  rw [show runOp (.offset h) s = (fileOffset h >>= fun n => pure (Payload.num n)) s from rfl, run_map]
  rw [show fileOffset h s = (getFileById h >>= fun i => getFile i >>= fun f => (pure f.currentOffset : M Nat)) s from rfl, observer_run]
  refine ⟨gh, a, hI, SameGeom.refl _, hA, ?_⟩
  unfold absStep
  rw [if_neg (by rw [hl]; exact Bool.false_ne_true)]
  show Spec.AbsFs.offsetS a h _ _
  unfold Spec.AbsFs.offsetS
  cases hidx : s.files.findIdx? (·.rawFile = h) with
  | none => rw [fileOf_none hA hidx]; exact ⟨rfl, rfl⟩
  | some i =>
    obtain ⟨f, af, hf, haf, hrel, hfo⟩ := fileOf_some hA hidx
    rw [hfo]
    simp only [hf]
    refine ⟨trivial, ?_⟩
    rw [hrel.pos]; rfl

theorem refines_eof (h : Nat) {s : Mgr} {gh : Ghost} {a : AState} (hI : VolInv s gh) (hA : Abs s gh a) :
    Refines (.eof h) s gh a := by
  have hl : a.locked = false := hA.locked.trans hI.unlocked
  unfold Refines
  rw [show runOp (.eof h) s = (fileEof h >>= fun n => pure (Payload.bool n)) s from rfl, run_map]
  rw [show fileEof h s = (getFileById h >>= fun i => getFile i >>= fun f => (pure f.eof : M Bool)) s from rfl, observer_run]
  refine ⟨gh, a, hI, SameGeom.refl _, hA, ?_⟩
  unfold absStep
  rw [if_neg (by rw [hl]; exact Bool.false_ne_true)]
  show Spec.AbsFs.eofS a h _ _
  unfold Spec.AbsFs.eofS
  cases hidx : s.files.findIdx? (·.rawFile = h) with
  | none => rw [fileOf_none hA hidx]; exact ⟨rfl, rfl⟩
  | some i =>
    obtain ⟨f, af, hf, haf, hrel, hfo⟩ := fileOf_some hA hidx
    rw [hfo]
    simp only [hf]
    refine ⟨trivial, ?_⟩
    rw [hrel.pos, hrel.pm]; rfl

theorem refines_hasOpen {s : Mgr} {gh : Ghost} {a : AState} (hI : VolInv s gh) (hA : Abs s gh a) :
    Refines .hasOpen s gh a := by
  have hl : a.locked = false := hA.locked.trans hI.unlocked
  refine ⟨gh, a, hI, SameGeom.refl _, hA, ?_⟩
  unfold absStep
  rw [if_neg (by rw [hl]; exact Bool.false_ne_true)]
  show (a, _) = (a, _)
  have h1 : a.dirs.isEmpty = s.dirs.isEmpty := by rw [hA.dirs]; cases s.dirs <;> rfl
  have h2 : a.files.isEmpty = s.files.isEmpty := by
    have := forall₂_length hA.files
    cases hf : a.files <;> cases hg : s.files <;> simp_all
  rw [h1, h2]
  rfl

/-! ### Directory handles -/

theorem refines_closeDir (d : Nat) {s : Mgr} {gh : Ghost} {a : AState} (hI : VolInv s gh) (hA : Abs s gh a) :
    Refines (.closeDir d) s gh a := by
  have hl : a.locked = false := hA.locked.trans hI.unlocked
  unfold Refines
  rw [show runOp (.closeDir d) s = (closeDir d >>= fun _ => pure Payload.unit) s from rfl, run_seq]
  have hrun : closeDir d s = (match s.dirs.findIdx? (·.rawDirectory = d) with
      | some i => (.ok (), { s with dirs := swapRemove s.dirs i })
      | none => (.err .BadHandle, s)) := by
    unfold closeDir
    rw [get_bind]
    cases s.dirs.findIdx? (·.rawDirectory = d) <;> rfl
  rw [hrun]
  cases hidx : s.dirs.findIdx? (·.rawDirectory = d) with
  | none =>
    refine ⟨gh, a, hI, SameGeom.refl _, hA, ?_⟩
    unfold absStep
    rw [if_neg (by rw [hl]; exact Bool.false_ne_true)]
    show (a, _) = Spec.AbsFs.closeDirF a d
    unfold Spec.AbsFs.closeDirF
    rw [dirIdx_abs hA, hidx]
    rfl
  | some i =>
    have hI' : VolInv { s with dirs := swapRemove s.dirs i } gh :=
      volInv_dirs hI _ s.nextId fun di hdi => hI.openDirs di (mem_of_mem_swapRemove hdi)
    have hA' := abs_dirs hA (swapRemove s.dirs i) s.nextId
    refine ⟨gh, _, hI', SameGeom.refl _, hA', ?_⟩
    unfold absStep
    rw [if_neg (by rw [hl]; exact Bool.false_ne_true)]
    show (_, _) = Spec.AbsFs.closeDirF a d
    unfold Spec.AbsFs.closeDirF
    rw [dirIdx_abs hA, hidx]
    simp only
    rw [hA.dirs, map_swapRemove]
    congr 1
    cases a
    simp only at hA ⊢
    congr 1
    exact hA.nextId.symm

theorem refines_openRoot (v : Nat) {s : Mgr} {gh : Ghost} {a : AState} (hI : VolInv s gh) (hA : Abs s gh a) :
    Refines (.openRoot v) s gh a := by
  have hl : a.locked = false := hA.locked.trans hI.unlocked
  unfold Refines
  rw [show runOp (.openRoot v) s = (openRootDir v >>= fun h => pure (Payload.handle h)) s from rfl, run_map]
  have hrun : openRootDir v s =
      (if s.dirs.length ≥ s.maxDirs then (.err .TooManyOpenDirs, { s with nextId := (s.nextId + 1) % 4294967296 })
       else (.ok s.nextId, { s with nextId := (s.nextId + 1) % 4294967296, dirs := s.dirs ++ [{ rawDirectory := s.nextId, rawVolume := v, cluster := Gen.CLUSTER_ROOT_DIR }] })) := by
    unfold openRootDir
    rw [generate_bind, get_bind]
    by_cases hfull : s.dirs.length ≥ s.maxDirs
    · rw [if_pos hfull, if_pos hfull]; rfl
    · rw [if_neg hfull, if_neg hfull, modify_bind]; rfl
  rw [hrun]
  have hlen : a.dirs.length = s.dirs.length := by rw [hA.dirs, List.length_map]
  by_cases hfull : s.dirs.length ≥ s.maxDirs
  · rw [if_pos hfull]
    have hI' : VolInv { s with nextId := (s.nextId + 1) % 4294967296 } gh := volInv_dirs hI s.dirs _ hI.openDirs
    have hA' := abs_dirs hA s.dirs ((s.nextId + 1) % 4294967296)
    refine ⟨gh, _, hI', SameGeom.refl _, hA', ?_⟩
    unfold absStep
    rw [if_neg (by rw [hl]; exact Bool.false_ne_true)]
    show (_, _) = Spec.AbsFs.openRootF a v
    unfold Spec.AbsFs.openRootF
    rw [if_pos (by rw [hlen, hA.maxDirs]; exact hfull)]
    congr 1
    unfold Spec.AbsFs.gen
    rw [← hA.dirs, hA.nextId]
  · rw [if_neg hfull]
    have hI' : VolInv { s with nextId := (s.nextId + 1) % 4294967296, dirs := s.dirs ++ [{ rawDirectory := s.nextId, rawVolume := v, cluster := Gen.CLUSTER_ROOT_DIR }] } gh := by
      refine volInv_dirs hI _ _ fun di hdi => ?_
      rcases List.mem_append.1 hdi with hdi | hdi
      · exact hI.openDirs di hdi
      · rw [List.mem_singleton.1 hdi]; exact .inl rfl
    have hA' := abs_dirs hA (s.dirs ++ [{ rawDirectory := s.nextId, rawVolume := v, cluster := Gen.CLUSTER_ROOT_DIR }])
      ((s.nextId + 1) % 4294967296)
    refine ⟨gh, _, hI', SameGeom.refl _, hA', ?_⟩
    unfold absStep
    rw [if_neg (by rw [hl]; exact Bool.false_ne_true)]
    show (_, _) = Spec.AbsFs.openRootF a v
    unfold Spec.AbsFs.openRootF
    rw [if_neg (by rw [hlen, hA.maxDirs]; exact hfull), hA.nextId]
    congr 1
    unfold Spec.AbsFs.gen
    rw [List.map_append, ← hA.dirs, hA.nextId]
    rfl

end Sdmmc.Lemmas.AbsFs
