/-
Bridging lemmas shared by the `Props/C<nn>Main.lean` files: the standing hypotheses hold of a fresh manager.
-/
import Sdmmc.Spec.VolumeN

namespace Sdmmc.Lemmas.Main
open Sdmmc.Model Sdmmc.Model.Fat Sdmmc.Spec.Volume
open Sdmmc.Spec hiding run step NoFault Coherent

/-- **A fresh manager satisfies the invariant of API histories** (several volumes: no volume open yet): no scheduled
device fault, a coherent (e.g. untagged) cache, not locked, empty tables. -/
theorem fresh_manager_invariant (s : Mgr) (hf : s.dev.faults = []) (hc : ∀ i, s.cache.tag = some i → s.cache.blk = s.dev.disk.get i)
    (hl : s.locked = false) (hv : s.vols = []) (hd : s.dirs = []) (hfl : s.files = []) : VolInvN s [] ∧ MirrorN s [] := by
  refine ⟨⟨hf, hc, hl, by rw [hv]; rfl, ?_, by rw [hv]; exact List.nodup_nil, by rw [hv]; exact List.nodup_nil, ?_, ?_, ?_, ?_, ?_⟩,
    fun gh hgh => nomatch hgh⟩
  · intro i vi gh h; rw [hv] at h; cases h
  · intro i j vi vj h; rw [hv] at h; cases h
  · intro i vi gh h; rw [hv] at h; cases h
  · intro f h; rw [hfl] at h; cases h
  · intro di h; rw [hd] at h; cases h
  · intro di h; rw [hd] at h; cases h

end Sdmmc.Lemmas.Main
